(* Cesium/DeleteCheck.v — a decidable check of the database invariant [db_ok], sound by
   proof.  It serves two purposes: the non-vacuity example of Properties/C04.v (a concrete
   reachable database satisfying every hypothesis of the theorems), and the validation, on
   every run, that every state the model reaches along the generated histories (writes
   included) satisfies the hypotheses under which the theorems were proved. *)
From Coq Require Import ZArith List Bool Lia.
From Synnax Require Import Cesium.Store Cesium.StoreProofs Cesium.IndexSearch Cesium.Distance
  Cesium.Stamp Cesium.DeleteModel Cesium.GCModel Cesium.DeleteBase Cesium.DeleteSearch
  Cesium.DeleteDistance Cesium.DeleteOffsets Cesium.DeleteContent Cesium.DeleteExact
  Cesium.ReadExact Cesium.DeleteDB Cesium.GCProofs.
Import ListNotations.
Local Open Scope Z_scope.

(* ------------------------------------------------------------------ the checks *)
Fixpoint sorted_ptrsb (l : list ptr) : bool :=
  match l with
  | [] => true
  | p :: r =>
      (t_s (p_tr p) <? t_e (p_tr p)) &&
      (match r with [] => true | q :: _ => t_e (p_tr p) <=? t_s (p_tr q) end) &&
      sorted_ptrsb r
  end.

Definition files_posb (c : chan) : bool :=
  forallb (fun kf => forallb (fun s => 0 <? s_len s) (snd kf)) (c_files c).

(* split a sample list after exactly n bytes *)
Fixpoint split_bytes (n : Z) (l : list sample) : option (list sample * list sample) :=
  if n =? 0 then Some ([], l) else
  match l with
  | [] => None
  | s :: r =>
      match split_bytes (n - s_len s) r with
      | Some (a, b) => Some (s :: a, b)
      | None => None
      end
  end.

Definition ptr_alignedb (c : chan) (p : ptr) : bool :=
  match split_bytes (p_off p) (file_of c (p_file p)) with
  | Some (_, rest) => match split_bytes (p_size p) rest with Some _ => true | None => false end
  | None => false
  end.

Definition dens_okb (c : chan) : bool :=
  c_var c ||
  ((0 <? c_dens c) && forallb (fun kf => forallb (fun s => s_len s =? c_dens c) (snd kf)) (c_files c)).

Definition aligned_ptrb (G : list Z) (c : chan) (p : ptr) : bool :=
  zlen (ptr_samples c p) =? cnt_lt (t_e (p_tr p)) G - cnt_lt (t_s (p_tr p)) G.

Definition rngb (p : ptr) : bool := (0 <=? t_s (p_tr p)) && (t_e (p_tr p) <=? MAXTS).

Definition chan_okb (G : list Z) (c : chan) : bool :=
  files_posb c && forallb (ptr_alignedb c) (c_ptrs c) && sorted_ptrsb (c_ptrs c) &&
  dens_okb c && forallb (aligned_ptrb G c) (c_ptrs c) && forallb rngb (c_ptrs c).

Fixpoint sincrb (l : list Z) : bool :=
  match l with
  | [] => true
  | x :: r => (match r with [] => true | y :: _ => x <? y end) && sincrb r
  end.

(* the domains of an index channel form a well-formed index *)
Definition wdomb (d : dom) : bool :=
  sincrb (d_data d) && forallb (fun x => (dom_s d <=? x) && (x <? dom_e d)) (d_data d).
Definition widx_chanb (i : chan) : bool := sorted_ptrsb (c_ptrs i) && forallb wdomb (doms i).

Definition chan_in_db_okb (d : db) (kc : Z * chan) : bool :=
  let '(k, c) := kc in
  match alookup (c_index c) d with
  | Some i =>
      c_isidx i && (if c_isidx c then c_index c =? k else true) &&
      widx_chanb i && chan_okb (allst (doms i)) c
  | None => false
  end.

Definition db_okb (d : db) : bool := forallb (chan_in_db_okb d) d.

(* ------------------------------------------------------------------ soundness *)
Lemma sorted_ptrsb_ok l : sorted_ptrsb l = true -> sorted_ptrs l.
Proof.
  induction l as [|p r IH]; simpl; [constructor|].
  intros H. apply andb_true_iff in H as [H H3]. apply andb_true_iff in H as [H1 H2].
  apply Z.ltb_lt in H1. specialize (IH H3).
  destruct r as [|q r]; [constructor; exact H1|]. apply Z.leb_le in H2. constructor; assumption.
Qed.

Lemma files_posb_ok c : files_posb c = true -> files_pos c.
Proof.
  unfold files_posb, files_pos. rewrite forallb_forall. intros H k f Hk.
  specialize (H (k, f) (alookup_in k f _ Hk)). simpl in H. rewrite forallb_forall in H.
  unfold pos_samples. rewrite Forall_forall. intros s Hs. apply Z.ltb_lt. apply H. exact Hs.
Qed.

Lemma split_bytes_ok : forall l n a b, split_bytes n l = Some (a, b) -> l = a ++ b /\ bytes_of a = n.
Proof.
  induction l as [|s r IH]; intros n a b; simpl.
  - destruct (n =? 0) eqn:E; [|discriminate]. apply Z.eqb_eq in E. intros [= <- <-]. auto.
  - destruct (n =? 0) eqn:E.
    + apply Z.eqb_eq in E. intros [= <- <-]. auto.
    + destruct (split_bytes (n - s_len s) r) as [[a' b']|] eqn:Es; [|discriminate].
      intros [= <- <-]. destruct (IH _ _ _ Es) as [-> Hb]. simpl. split; [reflexivity|lia].
Qed.

Lemma ptr_alignedb_ok c p : files_pos c -> ptr_alignedb c p = true -> ptr_aligned c p.
Proof.
  intros Hf. unfold ptr_alignedb.
  destruct (split_bytes (p_off p) (file_of c (p_file p))) as [[pre rest]|] eqn:E1; [|discriminate].
  destruct (split_bytes (p_size p) rest) as [[mid post]|] eqn:E2; [|discriminate]. intros _.
  destruct (split_bytes_ok _ _ _ _ E1) as [Hf1 Hb1]. destruct (split_bytes_ok _ _ _ _ E2) as [Hf2 Hb2].
  assert (Hal : aligned (file_of c (p_file p)) (p_off p) (p_size p) mid).
  { exists pre, post. rewrite Hf1, Hf2. auto. }
  unfold ptr_aligned. replace (ptr_samples c p) with mid; [exact Hal|].
  symmetry. unfold ptr_samples. apply aligned_slice; [apply file_of_pos; exact Hf|exact Hal].
Qed.

Lemma dens_okb_ok c : dens_okb c = true -> dens_ok c.
Proof.
  unfold dens_okb, dens_ok. intros H Hv. rewrite Hv in H. simpl in H.
  apply andb_true_iff in H as [H1 H2]. apply Z.ltb_lt in H1. split; [exact H1|].
  rewrite forallb_forall in H2. intros k f s Hk Hs.
  specialize (H2 (k, f) (alookup_in k f _ Hk)). simpl in H2. rewrite forallb_forall in H2.
  apply Z.eqb_eq. apply H2. exact Hs.
Qed.

Lemma forallb_Forall {A} (f : A -> bool) (Q : A -> Prop) l :
  (forall x, In x l -> f x = true -> Q x) -> forallb f l = true -> Forall Q l.
Proof.
  intros H Hb. rewrite forallb_forall in Hb. rewrite Forall_forall. intros x Hx. apply H; auto.
Qed.

Lemma chan_okb_ok G c : chan_okb G c = true -> chan_ok G c.
Proof.
  unfold chan_okb. intros H.
  apply andb_true_iff in H as [H HF]. apply andb_true_iff in H as [H HE].
  apply andb_true_iff in H as [H HD]. apply andb_true_iff in H as [H HC].
  apply andb_true_iff in H as [HA HB].
  pose proof (files_posb_ok c HA) as Hf.
  constructor.
  - constructor; [exact Hf| |apply sorted_ptrsb_ok; exact HC].
    eapply forallb_Forall; [|exact HB]. intros p _ Hp. apply ptr_alignedb_ok; assumption.
  - apply dens_okb_ok. exact HD.
  - eapply forallb_Forall; [|exact HE]. intros p _ Hp. unfold aligned_ptrb in Hp. apply Z.eqb_eq in Hp. exact Hp.
  - eapply forallb_Forall; [|exact HF]. intros p _ Hp. unfold rngb in Hp.
    apply andb_true_iff in Hp as [A B]. apply Z.leb_le in A, B. auto.
Qed.

Lemma sincr_nil : sincr [].
Proof. intros i j x y Hi. unfold znth in Hi. destruct (i <? 0); [discriminate|]. destruct (Z.to_nat i); discriminate. Qed.

Lemma sincr_cons x l : (forall y, In y l -> x < y) -> sincr l -> sincr (x :: l).
Proof.
  intros Hx Hl i j a b Hi Hj Hij.
  pose proof (znth_Some _ _ _ Hi). pose proof (znth_Some _ _ _ Hj).
  rewrite (znth_cons x l j) in Hj by lia.
  destruct (Z.eq_dec i 0) as [->|Hne].
  - rewrite znth_0 in Hi. inversion Hi; subst. apply Hx. eapply znth_In; eauto.
  - rewrite znth_cons in Hi by lia. eapply (Hl (i - 1) (j - 1)); eauto. lia.
Qed.

Lemma sincrb_ok l : sincrb l = true -> sincr l.
Proof.
  induction l as [|x r IH]; simpl; intros H; [apply sincr_nil|].
  apply andb_true_iff in H as [H1 H2]. specialize (IH H2).
  apply sincr_cons; [|exact IH].
  destruct r as [|y r]; [intros ? []|]. apply Z.ltb_lt in H1.
  intros z [<-|Hz]; [exact H1|].
  apply In_znth in Hz as [j Hj]. pose proof (sincr_head y r z j IH Hj). lia.
Qed.

Lemma wdomb_ok d : wdomb d = true -> wdom d.
Proof.
  unfold wdomb. intros H. apply andb_true_iff in H as [H1 H2]. split; [apply sincrb_ok; exact H1|].
  rewrite forallb_forall in H2. intros j x Hj. specialize (H2 x (znth_In _ _ _ Hj)).
  apply andb_true_iff in H2 as [A B]. apply Z.leb_le in A. apply Z.ltb_lt in B. lia.
Qed.

Lemma widx_chanb_ok i : widx_chanb i = true -> widx (doms i).
Proof.
  unfold widx_chanb. intros H. apply andb_true_iff in H as [H1 H2].
  split; [apply sdoms_doms; apply sorted_ptrsb_ok; exact H1|].
  rewrite forallb_forall in H2. intros j d Hj. apply wdomb_ok. apply H2. eapply znth_In; eauto.
Qed.

Theorem db_okb_ok d : db_okb d = true -> db_ok d.
Proof.
  unfold db_okb, db_ok. rewrite forallb_forall. intros H k c Hk.
  specialize (H (k, c) (alookup_in k c d Hk)). unfold chan_in_db_okb in H.
  destruct (alookup (c_index c) d) as [i|] eqn:Ei; [|discriminate].
  apply andb_true_iff in H as [H H4]. apply andb_true_iff in H as [H H3].
  apply andb_true_iff in H as [H1 H2].
  unfold chan_in_db_ok, index_doms. rewrite Ei.
  split; [apply widx_chanb_ok; exact H3|]. split; [apply chan_okb_ok; exact H4|]. split.
  - exists i. auto.
  - intros Hidx. rewrite Hidx in H2. apply Z.eqb_eq. exact H2.
Qed.

(* the storage half of the invariant, for the GC theorems *)
Lemma db_ok_wf d : db_ok d -> NoDup (map fst d) -> wf_db d.
Proof.
  intros Hok Hnd. unfold wf_db. rewrite Forall_forall. intros [k c] Hin. simpl.
  assert (Hk : alookup k d = Some c).
  { clear Hok. induction d as [|[k' c'] d IH]; [contradiction|]. simpl in *. inversion Hnd; subst.
    destruct Hin as [Heq|Hin].
    - inversion Heq; subst. rewrite Z.eqb_refl. reflexivity.
    - destruct (k =? k') eqn:E; [|apply IH; assumption].
      apply Z.eqb_eq in E. subst. exfalso. apply H1. apply in_map_iff. exists (k', c). auto. }
  destruct (Hok k c Hk) as (_ & Hc & _). apply Hc.
Qed.
