(* Cesium/UnaryIterSpec.v — step exactness: on a well-formed layout whose data domains each lie
   inside one index domain, a step that starts without an accumulated error ends without one
   and its frame carries exactly the stored samples whose stamps lie in its view, in order. *)
From Coq Require Import ZArith List Bool Lia Sorting.Sorted.
From Synnax Require Import Cesium.LayoutOk Cesium.Store Cesium.StoreProofs Cesium.IndexSearch Cesium.IndexSearchProofs
     Cesium.Distance Cesium.Stamp Cesium.DomIterProofs Cesium.UnaryIter Cesium.UnaryIterViews
     Cesium.DistanceProofs Cesium.UnaryIterExact Cesium.SliceProofs Cesium.Read.
Import ListNotations.
Local Open Scope Z_scope.

(* ---- the stored content of a channel as an association list ---- *)
Definition dom_assoc (Q : list Z) (d : dom) : assoc := combine (stamps_in (d_tr d) Q) (d_data d).
Definition layout_assoc (P D : list dom) : assoc := flat_map (dom_assoc (stamps_of P)) D.

(* a data domain whose range the index resolves (Distance counts its stamps), holding one
   sample per index stamp of its range *)
Definition within (P : list dom) (d : dom) : Prop :=
  dist_ok P (t_s (d_tr d)) (t_e (d_tr d)) /\ dlen d = zlen (stamps_in (d_tr d) (stamps_of P)).
Definition layout_ok (P D : list dom) : Prop := inc (stamps_of P) /\ lay D /\ Forall (within P) D.

Definition frame_data (f : list series) : list Z := concat (map sr_data f).

Lemma filter_none {A} (f : A -> bool) l : (forall x, In x l -> f x = false) -> filter f l = [].
Proof.
  induction l as [|a l IH]; intros H; [reflexivity|]. simpl. rewrite (H a) by (left; reflexivity).
  apply IH. intros x Hx. apply H. right. exact Hx.
Qed.

(* ---- per domain: what the step contributes is what the specification reads ---- *)
Section PerDomain.
Variable P : list dom.
Variable var : bool.
Hypothesis HP : inc (stamps_of P).
Variable v : tr.
Hypothesis Hv : t_s v < t_e v.

Lemma good_within d : within P d -> dwf d -> good P var v d.
Proof.
  intros (Wd1 & Wd2) Wd Ov. eexists. apply (dser_exact P var d Wd Wd1 Wd2 v Hv Ov).
Qed.

Lemma read_spec_combine S data t :
  read_spec (combine S data) t = map snd (filter (fun p => contains_stamp t (fst p)) (combine S data)).
Proof. reflexivity. Qed.

Lemma contrib_is_read d : within P d -> dwf d ->
  frame_data (contrib P var v d) = read_spec (dom_assoc (stamps_of P) d) v.
Proof.
  intros (H1 & H3) Wd.
  unfold dom_assoc. set (S := stamps_in (d_tr d) (stamps_of P)).
  assert (IS : inc S) by (apply inc_filter; exact HP).
  assert (LS : length S = length (d_data d)) by (unfold S; unfold dlen, zlen in H3; lia).
  assert (INS : forall x, In x S -> t_s (d_tr d) <= x < t_e (d_tr d)).
  { intros x Hx. apply filter_In in Hx. destruct Hx as [_ C]. unfold contains_stamp in C.
    apply andb_true_iff in C. destruct C; zb. lia. }
  unfold contrib. destruct (overlaps (d_tr d) v) eqn:Ov.
  - rewrite (dser_exact P var d Wd H1 H3 v Hv Ov).
    set (lo := Z.max (t_s (d_tr d)) (t_s v)). set (hi := Z.min (t_e (d_tr d)) (t_e v)).
    assert (FD : forall s, frame_data (nonempty_ser s) = sr_data s).
    { intros s. unfold nonempty_ser, frame_data. destruct (sr_data s) eqn:E; simpl; [reflexivity|]. rewrite E, app_nil_r. reflexivity. }
    rewrite FD. cbn [sr_data].
    rewrite (overlaps_nonempty (d_tr d) v Wd Hv) in Ov. apply Z.ltb_lt in Ov. fold lo hi in Ov.
    rewrite read_spec_combine.
    rewrite (filter_ext_in (fun p => contains_stamp v (fst p)) (fun p => contains_stamp (TR lo hi) (fst p))).
    + rewrite (segment_of_range S (d_data d) lo hi IS LS ltac:(lia)).
      unfold S. rewrite (tr_eta (d_tr d)).
      rewrite !cnt_lt_stamps_in by (unfold lo, hi; lia).
      unfold offA, offB. fold lo hi.
      replace (cnt_lt hi (stamps_of P) - cnt_lt (t_s (d_tr d)) (stamps_of P) - (cnt_lt lo (stamps_of P) - cnt_lt (t_s (d_tr d)) (stamps_of P)))
        with (cnt_lt hi (stamps_of P) - cnt_lt lo (stamps_of P)) by lia.
      replace (cnt_lt hi (stamps_of P) - cnt_lt (t_s (d_tr d)) (stamps_of P) - (cnt_lt lo (stamps_of P) - cnt_lt (t_s (d_tr d)) (stamps_of P)))
        with (cnt_lt hi (stamps_of P) - cnt_lt lo (stamps_of P)) by lia.
      reflexivity.
    + intros [x y] Hxy. apply in_combine_l in Hxy. specialize (INS x Hxy). cbn [fst].
      unfold contains_stamp, lo, hi. cbn [t_s t_e]. zcases; cbn [andb]; try reflexivity; lia.
  - cbn [frame_data map concat]. rewrite read_spec_combine. rewrite filter_none; [reflexivity|].
    intros [x y] Hxy. apply in_combine_l in Hxy. specialize (INS x Hxy). cbn [fst].
    rewrite (overlaps_nonempty (d_tr d) v Wd Hv) in Ov. apply Z.ltb_ge in Ov.
    unfold contains_stamp. zcases; cbn [andb]; try reflexivity; lia.
Qed.

End PerDomain.

Lemma frame_data_app f g : frame_data (f ++ g) = frame_data f ++ frame_data g.
Proof. unfold frame_data. rewrite map_app, concat_app. reflexivity. Qed.

Lemma read_spec_app a1 a2 t : read_spec (a1 ++ a2) t = read_spec a1 t ++ read_spec a2 t.
Proof. unfold read_spec. rewrite filter_app, map_app. reflexivity. Qed.

Lemma contribs_are_read P D var v : inc (stamps_of P) -> t_s v < t_e v -> Forall dwf D -> Forall (within P) D ->
  frame_data (contribs P var v D) = read_spec (layout_assoc P D) v.
Proof.
  intros HP Hv W Wi. unfold contribs, layout_assoc.
  induction D as [|d D IH]; [reflexivity|].
  cbn [flat_map]. rewrite frame_data_app, read_spec_app.
  apply Forall_cons_iff in W. destruct W as [Wd W']. apply Forall_cons_iff in Wi. destruct Wi as [Wid Wi'].
  rewrite (contrib_is_read P var HP v Hv d Wid Wd). f_equal. apply IH; assumption.
Qed.

Lemma read_spec_empty a t : t_e t <= t_s t -> read_spec a t = [].
Proof.
  intros H. unfold read_spec. rewrite filter_none; [reflexivity|].
  intros p _. unfold in_range, contains_stamp. zcases; cbn [andb]; try reflexivity; lia.
Qed.

(* ---- a step ---- *)
Section Step.
Variable P D : list dom.
Variable var : bool.
Hypothesis HL : layout_ok P D.

Definition synced (i : uiter) : Prop := di_b (u_di i) = u_b i.

Lemma body_exact (fwd : bool) i :
  synced i -> valid_bounds (u_b i) -> in_bounds (u_b i) (u_view i) -> u_err i = None -> u_frame i = [] ->
  let i' := (if fwd then fwd_body else bwd_body) P D var i in
  u_err i' = None /\ frame_data (u_frame i') = read_spec (layout_assoc P D) (u_view i).
Proof.
  intros Hs (Vb1 & Vb2 & Vb3) (I1 & I2 & I3) He Hf. destruct HL as (HP & HD & HW).
  destruct (Z.eq_dec (t_s (u_view i)) (t_e (u_view i))) as [E|N].
  - assert (Z0 : (tspan (u_view i) =? 0) = true) by (apply Z.eqb_eq; unfold tspan; lia).
    cbv zeta. destruct fwd; [unfold fwd_body|unfold bwd_body]; rewrite Z0, He, Hf;
      (split; [reflexivity|]); rewrite read_spec_empty by lia; reflexivity.
  - assert (Hv : t_s (u_view i) < t_e (u_view i)) by lia.
    assert (G : Forall (good P var (u_view i)) D).
    { apply Forall_forall. intros d Hd. apply (good_within P var (u_view i) Hv).
      - rewrite Forall_forall in HW. apply HW, Hd.
      - destruct HD as [W _]. rewrite Forall_forall in W. apply W, Hd. }
    cbv zeta. destruct fwd.
    + destruct (fwd_body_frame P D var (u_b i) (u_view i) Hv (conj I1 I3) HD i eq_refl Hs He Hf G) as (F & E').
      split; [exact E'|]. rewrite F. apply contribs_are_read; try assumption. apply HD.
    + destruct (bwd_body_frame P D var (u_b i) (u_view i) Hv (conj I1 I3) HD i eq_refl Hs He Hf G) as (F & E').
      split; [exact E'|]. rewrite F. apply contribs_are_read; try assumption. apply HD.
Qed.

End Step.
