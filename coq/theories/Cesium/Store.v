(* Cesium/Store.v — stored content as seen by the read side, time-range arithmetic
   (verbatim copies of x/go/telem TimeRange operations; Common/Telem.v belongs to another
   property and was not available when this file was written, so the few operations
   needed are defined here under different names), the domain index search
   (cesium/internal/domain/index.go unprotectedSearch / searchLE / searchGE) and the
   domain iterator (cesium/internal/domain/iterator.go).  No proofs in this file. *)
From Coq Require Import ZArith List Bool.
Import ListNotations.
Local Open Scope Z_scope.

(* ---- int64 time stamps ---- *)
Definition MAXTS : Z := 9223372036854775807.
Definition MINI64 : Z := -9223372036854775808.
Definition wrap64 (z : Z) : Z := (z + 9223372036854775808) mod 18446744073709551616 - 9223372036854775808.

(* clamp.AddInt64 *)
Definition add_clamp (a b : Z) : Z :=
  if (0 <? b) && (MAXTS - b <? a) then MAXTS
  else if (b <? 0) && (a <? MINI64 - b) then MINI64
  else a + b.

Record tr := TR { t_s : Z; t_e : Z }.

Definition tr_eqb (a b : tr) : bool := (t_s a =? t_s b) && (t_e a =? t_e b).
Definition tspan (t : tr) : Z := t_e t - t_s t.
Definition tr_valid (t : tr) : bool := 0 <=? tspan t.
Definition make_valid (t : tr) : tr := if tr_valid t then t else TR (t_e t) (t_s t).
(* TimeStamp.SpanRange *)
Definition span_range (ts sp : Z) : tr := make_valid (TR ts (add_clamp ts sp)).
Definition point (ts : Z) : tr := span_range ts 0.
Definition contains_stamp (t : tr) (x : Z) : bool := (t_s t <=? x) && (x <? t_e t).
Definition contains_range (t r : tr) : bool := (t_s t <=? t_s r) && (t_e r <=? t_e t).

(* TimeRange.OverlapsWith, including its early exits; note that the ContainsStamp tests
   use the receiver as given, not its MakeValid copy. *)
Definition overlaps (t r0 : tr) : bool :=
  if tr_eqb t r0 then true else
  let vt := make_valid t in
  let r := make_valid r0 in
  if t_s r =? t_s vt then true else
  if (t_e r =? t_s vt) || (t_s r =? t_e vt) then false else
  contains_stamp t (t_e r) || contains_stamp t (t_s r) ||
  contains_stamp r (t_s t) || contains_stamp r (t_e t).

(* TimeRange.BoundBy: four sequential clamps *)
Definition bound_by (t b : tr) : tr :=
  let s1 := if t_s t <? t_s b then t_s b else t_s t in
  let e1 := if t_e t <? t_s b then t_s b else t_e t in
  let e2 := if t_e b <? e1 then t_e b else e1 in
  let s2 := if t_e b <? s1 then t_e b else s1 in
  TR s2 e2.

(* ---- stored domains ---- *)
(* One committed domain of one channel: its time range and its samples.  For an index
   channel the samples are the time stamps; for a data channel they are the sample
   values (the byte encoding is a bijection handled by the harness). *)
Record dom := Dom { d_tr : tr; d_data : list Z }.
Definition zero_dom : dom := Dom (TR 0 0) [].
Definition dlen (d : dom) : Z := Z.of_nat (length (d_data d)).

Definition znth {A} (l : list A) (i : Z) : option A :=
  if i <? 0 then None else nth_error l (Z.to_nat i).
Definition zlen {A} (l : list A) : Z := Z.of_nat (length l).

(* index.unprotectedSearch *)
Fixpoint usearch_go (fuel : nat) (P : list dom) (t : tr) (lo hi : Z) : Z * bool :=
  match fuel with
  | O => (hi, false)
  | S f =>
      if lo <=? hi then
        let mid := (lo + hi) / 2 in
        match znth P mid with
        | None => (hi, false)
        | Some p =>
            if overlaps (d_tr p) t then (mid, true)
            else if t_s t <? t_s (d_tr p) then usearch_go f P t lo (mid - 1)
            else usearch_go f P t (mid + 1) hi
        end
      else (hi, false)
  end.
Definition usearch (P : list dom) (t : tr) : Z * bool :=
  match P with
  | [] => (-1, false)
  | _ => usearch_go (S (length P)) P t 0 (zlen P - 1)
  end.

Definition search_le (P : list dom) (ts : Z) : Z := fst (usearch P (point ts)).
Definition search_ge (P : list dom) (ts : Z) : Z :=
  let '(i, exact) := usearch P (point ts) in
  if exact then i else if i =? zlen P then -1 else i + 1.

(* ---- domain.Iterator ---- *)
Record diter := DI { di_b : tr; di_pos : Z; di_cur : dom; di_valid : bool }.
Definition di_open (b : tr) : diter := DI b 0 zero_dom false.
Definition di_set_bounds (it : diter) (b : tr) : diter := DI b (di_pos it) (di_cur it) false.
Definition di_invalid (it : diter) : diter := DI (di_b it) (di_pos it) (di_cur it) false.

Definition di_reload (P : list dom) (it : diter) : diter * bool :=
  if di_pos it =? -1 then (di_invalid it, false) else
  match znth P (di_pos it) with
  | Some p =>
      if overlaps (d_tr p) (di_b it)
      then (DI (di_b it) (di_pos it) p (di_valid it), di_valid it)
      else (di_invalid it, false)
  | None => (di_invalid it, false)
  end.

Definition di_seek_le (P : list dom) (it : diter) (ts : Z) : diter * bool :=
  di_reload P (DI (di_b it) (search_le P ts) (di_cur it) true).
Definition di_seek_ge (P : list dom) (it : diter) (ts : Z) : diter * bool :=
  di_reload P (DI (di_b it) (search_ge P ts) (di_cur it) true).
Definition di_seek_first (P : list dom) (it : diter) : diter * bool :=
  di_seek_ge P it (t_s (di_b it)).
Definition di_seek_last (P : list dom) (it : diter) : diter * bool :=
  di_seek_le P it (wrap64 (t_e (di_b it) - 1)).

Definition di_next (P : list dom) (it : diter) : diter * bool :=
  if negb (di_valid it) then (it, false) else
  let '(it', ok) := di_reload P (DI (di_b it) (di_pos it + 1) (di_cur it) (di_valid it)) in
  if ok then (it', true)
  else (DI (di_b it') (di_pos it' - 1) (di_cur it') (di_valid it'), false).

Definition di_prev (P : list dom) (it : diter) : diter * bool :=
  if negb (di_valid it) then (it, false) else
  if di_pos it =? 0 then (di_invalid it, false) else
  di_reload P (DI (di_b it) (di_pos it - 1) (di_cur it) (di_valid it)).

Definition di_tr (it : diter) : tr := d_tr (di_cur it).

(* ---- errors and results ---- *)
Inductive err := EDisc | EConflict | EValidation | ENotFound | EEOF | EClosed | EPanic.
Definition err_code (e : err) : Z :=
  match e with
  | EDisc => 1 | EConflict => 2 | EValidation => 3 | ENotFound => 4
  | EEOF => 5 | EClosed => 6 | EPanic => 8
  end.
Inductive res (A : Type) := Ok (a : A) | Err (e : err).
Arguments Ok {A} a.
Arguments Err {A} e.
Definition rbind {A B} (r : res A) (f : A -> res B) : res B :=
  match r with Ok a => f a | Err e => Err e end.
Notation "'do' x <- r ; k" := (rbind r (fun x => k)) (at level 200, x pattern, r at level 100, k at level 200).

Fixpoint list_eqb {A} (eqb : A -> A -> bool) (a b : list A) : bool :=
  match a, b with
  | [], [] => true
  | x :: a', y :: b' => eqb x y && list_eqb eqb a' b'
  | _, _ => false
  end.
