(* Cesium/DeleteOffsets.v — "delete offsets snap to sample boundaries": what
   calculateStartOffset / calculateEndOffset (the code of /repo, fx = true) return when they
   succeed, in each approximation case, for a pointer whose samples are aligned with the
   index:  the byte offset of the first sample at or after the target, and a snapped stamp
   that separates the same samples as the target does. *)
From Coq Require Import ZArith List Bool Lia.
From Synnax Require Import Cesium.Store Cesium.StoreProofs Cesium.IndexSearch Cesium.Distance
  Cesium.Stamp Cesium.DeleteModel Cesium.DeleteBase Cesium.DeleteSearch Cesium.DeleteDistance.
Import ListNotations.
Local Open Scope Z_scope.

(* ------------------------------------------------------------------ sorted stamp lists *)
Lemma sincr_app a b :
  sincr a -> sincr b -> (forall x y, In x a -> In y b -> x < y) -> sincr (a ++ b).
Proof.
  intros Ha Hb Hab i j x y Hi Hj Hij.
  destruct (Z_lt_le_dec i (zlen a)), (Z_lt_le_dec j (zlen a)).
  - rewrite znth_app_l in Hi, Hj by lia. eapply Ha; eauto.
  - rewrite znth_app_l in Hi by lia. rewrite znth_app_r in Hj by lia.
    apply Hab; eapply znth_In; eauto.
  - lia.
  - rewrite znth_app_r in Hi, Hj by lia. eapply Hb; eauto. lia.
Qed.

Lemma allst_sincr P : widx P -> sincr (allst P).
Proof.
  induction P as [|d r IH]; intros Hw.
  - intros i j x y Hi. unfold allst in Hi. simpl in Hi. unfold znth in Hi.
    destruct (i <? 0); [discriminate|]. destruct (Z.to_nat i); discriminate.
  - destruct (widx_cons_inv d r Hw) as ([Hinc _] & Hne & Hr & Hafter & Hin).
    rewrite allst_cons. apply sincr_app; [exact Hinc|apply IH; exact Hr|].
    intros x y Hx Hy. pose proof (Hin x Hx). pose proof (Hafter y Hy). lia.
Qed.

Lemma cnt_lt_mono l x y : x <= y -> cnt_lt x l <= cnt_lt y l.
Proof.
  intros H. induction l as [|z l IH]; [unfold cnt_lt; simpl; lia|].
  rewrite !cnt_lt_cons. destruct (z <? x) eqn:E1, (z <? y) eqn:E2; try lia.
Qed.

(* in a strictly increasing list the elements below x are exactly the first cnt_lt x *)
Lemma cnt_lt_below l x i y : sincr l -> znth l i = Some y -> i < cnt_lt x l -> y < x.
Proof.
  revert i. induction l as [|z l IH]; intros i Hs Hi Hc.
  - unfold znth in Hi. destruct (i <? 0); [discriminate|]. destruct (Z.to_nat i); discriminate.
  - pose proof (znth_Some _ _ _ Hi) as Hr. rewrite cnt_lt_cons in Hc.
    destruct (Z.eq_dec i 0) as [->|Hne].
    + rewrite znth_0 in Hi. inversion Hi; subst z.
      destruct (y <? x) eqn:E; [apply Z.ltb_lt in E; exact E|].
      (* y >= x: every later element is larger, so the count is 0 *)
      exfalso. apply Z.ltb_ge in E.
      assert (cnt_lt x l = 0).
      { apply cnt_lt_none. intros w Hw. apply In_znth in Hw as [j Hj].
        pose proof (sincr_head y l w j Hs Hj). lia. }
      lia.
    + rewrite znth_cons in Hi by lia.
      destruct (z <? x) eqn:E.
      * apply (IH (i - 1)); [eapply sincr_tail; eauto|exact Hi|lia].
      * apply (IH (i - 1)); [eapply sincr_tail; eauto|exact Hi|].
        apply Z.ltb_ge in E.
        assert (cnt_lt x l = 0).
        { apply cnt_lt_none. intros w Hw. apply In_znth in Hw as [j Hj].
          pose proof (sincr_head z l w j Hs Hj). lia. }
        lia.
Qed.

Lemma cnt_lt_above l x i y : znth l i = Some y -> cnt_lt x l <= i -> sincr l -> x <= y.
Proof.
  revert i. induction l as [|z l IH]; intros i Hi Hc Hs.
  - unfold znth in Hi. destruct (i <? 0); [discriminate|]. destruct (Z.to_nat i); discriminate.
  - pose proof (znth_Some _ _ _ Hi) as Hr. rewrite cnt_lt_cons in Hc.
    pose proof (cnt_lt_range x l).
    destruct (Z.eq_dec i 0) as [->|Hne].
    + rewrite znth_0 in Hi. inversion Hi; subst z.
      destruct (y <? x) eqn:E; [lia|apply Z.ltb_ge in E; exact E].
    + rewrite znth_cons in Hi by lia.
      destruct (z <? x) eqn:E.
      * apply (IH (i - 1)); [exact Hi|lia|eapply sincr_tail; eauto].
      * apply Z.ltb_ge in E. pose proof (sincr_head z l y (i - 1) Hs Hi). lia.
Qed.

(* the count below (the element at index c) + 1, and below the element at index c *)
Lemma cnt_lt_succ_elem l c y : sincr l -> znth l c = Some y -> cnt_lt (y + 1) l = c + 1.
Proof.
  intros Hs Hc. pose proof (znth_Some _ _ _ Hc).
  apply cnt_lt_spec; [lia| |].
  - intros i x Hi Hlt. destruct (Z.eq_dec i c) as [->|Hne]; [rewrite Hc in Hi; inversion Hi; lia|].
    assert (x < y) by (eapply (Hs i c); eauto; lia). lia.
  - intros i x Hi Hle. assert (y < x) by (eapply (Hs c i); eauto; lia). lia.
Qed.

Lemma cnt_lt_elem l c y : sincr l -> znth l c = Some y -> cnt_lt y l = c.
Proof. intros. apply cnt_lt_at; assumption. Qed.

Lemma zmem_cnt_lt l x : sincr l -> zmem x l = true -> cnt_lt x l < cnt_lt (x + 1) l.
Proof.
  intros Hs Hm. apply zmem_iff in Hm as [i Hi].
  rewrite (cnt_lt_elem l i x Hs Hi), (cnt_lt_succ_elem l i x Hs Hi). lia.
Qed.

(* ------------------------------------------------------------------ byte offsets *)
(* fixed-density channels store samples of exactly the density; all samples are non-empty *)
Definition dens_ok (c : chan) : Prop :=
  c_var c = false -> 0 < c_dens c /\
  forall k f s, alookup k (c_files c) = Some f -> In s f -> s_len s = c_dens c.

Lemma bytes_uniform d l : (forall s, In s l -> s_len s = d) -> bytes_of l = d * zlen l.
Proof.
  induction l as [|s l IH]; intros H; [unfold zlen; simpl; lia|].
  simpl bytes_of. rewrite zlen_cons, IH by (intros; apply H; right; assumption).
  rewrite (H s (or_introl eq_refl)). lia.
Qed.

Lemma ptr_samples_in_file c p s :
  ptr_aligned c p -> In s (ptr_samples c p) -> In s (file_of c (p_file p)).
Proof.
  intros (pre & post & E & _ & _) Hs. rewrite E. apply in_or_app. right. apply in_or_app. left. exact Hs.
Qed.

Lemma ptr_size_fixed c p :
  dens_ok c -> c_var c = false -> ptr_aligned c p ->
  p_size p = c_dens c * zlen (ptr_samples c p) /\ 0 < c_dens c /\
  (forall s, In s (ptr_samples c p) -> s_len s = c_dens c).
Proof.
  intros Hd Hv Hp. destruct (Hd Hv) as [Hpos Hall].
  assert (Hs : forall s, In s (ptr_samples c p) -> s_len s = c_dens c).
  { intros s Hs. pose proof (ptr_samples_in_file c p s Hp Hs) as Hf. unfold file_of in Hf.
    destruct (alookup (p_file p) (c_files c)) eqn:E; [eapply Hall; eauto|contradiction]. }
  split; [|auto]. rewrite <- (ptr_samples_bytes c p Hp). apply bytes_uniform. exact Hs.
Qed.

Lemma firstn_in {A} n (l : list A) x : In x (firstn n l) -> In x l.
Proof. revert l. induction n; intros [|y l] H; simpl in *; try contradiction. destruct H; auto. Qed.

Lemma zlen_firstn {A} (l : list A) k : 0 <= k <= zlen l -> zlen (firstn (Z.to_nat k) l) = k.
Proof. intros H. unfold zlen in *. rewrite firstn_length. lia. Qed.

Lemma byte_offset_spec c p k :
  dens_ok c -> ptr_aligned c p -> 0 <= k <= zlen (ptr_samples c p) ->
  byte_offset c p k = Ok (bytes_of (firstn (Z.to_nat k) (ptr_samples c p))).
Proof.
  intros Hd Hp Hk. unfold byte_offset. set (smp := ptr_samples c p) in *.
  destruct (c_var c) eqn:Ev.
  - destruct (zlen smp <=? k) eqn:E.
    + apply Z.leb_le in E. assert (k = zlen smp) by lia. subst k.
      unfold zlen. rewrite Nat2Z.id, firstn_all. f_equal. symmetry. apply ptr_samples_bytes. exact Hp.
    + destruct (k <? 0) eqn:E2; [apply Z.ltb_lt in E2; lia|reflexivity].
  - destruct (ptr_size_fixed c p Hd Ev Hp) as (Hsz & Hpos & Hall). fold smp in Hsz, Hall.
    rewrite Hsz. rewrite Z.mul_comm, Z.div_mul by lia.
    rewrite (bytes_uniform (c_dens c) (firstn (Z.to_nat k) smp)) by (intros s Hs; apply Hall; eapply firstn_in; eauto).
    rewrite zlen_firstn by lia.
    destruct (zlen smp <=? k) eqn:E; [apply Z.leb_le in E; assert (k = zlen smp) by lia; subst k|]; f_equal; lia.
Qed.

Lemma domain_sample_count_spec c p :
  dens_ok c -> ptr_aligned c p -> domain_sample_count c p = zlen (ptr_samples c p).
Proof.
  intros Hd Hp. unfold domain_sample_count. destruct (c_var c) eqn:Ev; [reflexivity|].
  destruct (ptr_size_fixed c p Hd Ev Hp) as (Hsz & Hpos & _). rewrite Hsz, Z.mul_comm, Z.div_mul by lia. reflexivity.
Qed.

(* ------------------------------------------------------------------ the channel's own domains *)
Lemma doms_znth c i p : znth (c_ptrs c) i = Some p -> znth (doms c) i = Some (dom_of c p).
Proof.
  unfold doms, znth. destruct (i <? 0); [discriminate|]. intros H.
  rewrite nth_error_map, H. reflexivity.
Qed.

Lemma doms_znth_inv c i d : znth (doms c) i = Some d -> exists p, znth (c_ptrs c) i = Some p /\ d = dom_of c p.
Proof.
  unfold doms, znth. destruct (i <? 0); [discriminate|]. rewrite nth_error_map.
  destruct (nth_error (c_ptrs c) (Z.to_nat i)); simpl; [|discriminate]. intros [= <-]. eauto.
Qed.

Lemma sorted_ptrs_index l : sorted_ptrs l ->
  (forall i p, znth l i = Some p -> t_s (p_tr p) < t_e (p_tr p)) /\
  (forall i j p q, znth l i = Some p -> znth l j = Some q -> i < j -> t_e (p_tr p) <= t_s (p_tr q)).
Proof.
  induction l as [|x l IH]; intros Hs.
  - split; intros i; intros; unfold znth in *; destruct (i <? 0); try discriminate;
      destruct (Z.to_nat i); discriminate.
  - pose proof (sorted_ptrs_head _ _ Hs) as Hx. pose proof (sorted_ptrs_after _ _ Hs) as Ha.
    rewrite Forall_forall in Ha. destruct (IH (sorted_ptrs_tail _ _ Hs)) as [IH1 IH2]. split.
    + intros i p Hi. pose proof (znth_Some _ _ _ Hi). destruct (Z.eq_dec i 0) as [->|Hne].
      * rewrite znth_0 in Hi. inversion Hi; subst. exact Hx.
      * rewrite znth_cons in Hi by lia. eapply IH1; eauto.
    + intros i j p q Hi Hj Hij. pose proof (znth_Some _ _ _ Hi). pose proof (znth_Some _ _ _ Hj).
      rewrite (znth_cons x l j) in Hj by lia.
      destruct (Z.eq_dec i 0) as [->|Hne].
      * rewrite znth_0 in Hi. inversion Hi; subst. apply Ha. eapply znth_In; eauto.
      * rewrite znth_cons in Hi by lia. eapply (IH2 (i - 1) (j - 1)); eauto. lia.
Qed.

Lemma sdoms_doms c : sorted_ptrs (c_ptrs c) -> sdoms (doms c).
Proof.
  intros Hs. destruct (sorted_ptrs_index _ Hs) as [H1 H2]. split.
  - intros i d Hd. apply doms_znth_inv in Hd as (p & Hp & ->). unfold dom_s, dom_e. simpl. eapply H1; eauto.
  - intros i j d e Hd He Hij. apply doms_znth_inv in Hd as (p & Hp & ->). apply doms_znth_inv in He as (q & Hq & ->).
    unfold dom_s, dom_e. simpl. eapply H2; eauto.
Qed.

(* the short-lived iterator of resolveByteOffset / resolveSampleCount finds the pointer *)
Lemma resolve_seek c l1 p l2 :
  wf_chan c -> c_ptrs c = l1 ++ p :: l2 -> 0 <= t_s (p_tr p) < MAXTS ->
  di_seek_ge (doms c) (di_open (span_range (t_s (p_tr p)) MAXTS)) (t_s (p_tr p)) =
  (DI (span_range (t_s (p_tr p)) MAXTS) (zlen l1) (dom_of c p) true, true) /\
  znth (c_ptrs c) (zlen l1) = Some p.
Proof.
  intros Hwf E Hr. set (ds := t_s (p_tr p)) in *.
  destruct (span_range_max ds Hr) as [HBs HBe].
  assert (Hp : znth (c_ptrs c) (zlen l1) = Some p) by (rewrite E; apply znth_mid).
  split; [|exact Hp].
  pose proof (sdoms_doms c (wf_sorted c Hwf)) as Hsd.
  assert (Hne : t_s (p_tr p) < t_e (p_tr p)).
  { destruct (sorted_ptrs_index _ (wf_sorted c Hwf)) as [H1 _]. eapply H1; eauto. }
  assert (HD : doms c = map (dom_of c) l1 ++ dom_of c p :: map (dom_of c) l2).
  { unfold doms. rewrite E, map_app. reflexivity. }
  unfold di_open.
  rewrite (seek_ge_inside (doms c) (map (dom_of c) l1) (dom_of c p) (map (dom_of c) l2) _ zero_dom ds Hsd HD).
  - f_equal. f_equal. unfold zlen. rewrite map_length. reflexivity.
  - unfold dom_s, dom_e. simpl. fold ds. lia.
  - simpl. destruct (span_range ds MAXTS) as [bs be] eqn:Eb. simpl in *. subst bs.
    apply overlaps_inside; fold ds; lia.
Qed.

Lemma resolve_byte_offset_spec c l1 p l2 k :
  wf_chan c -> dens_ok c -> c_ptrs c = l1 ++ p :: l2 -> 0 <= t_s (p_tr p) < MAXTS ->
  0 <= k <= zlen (ptr_samples c p) ->
  resolve_byte_offset c (t_s (p_tr p)) k = Ok (bytes_of (firstn (Z.to_nat k) (ptr_samples c p))).
Proof.
  intros Hwf Hd E Hr Hk. unfold resolve_byte_offset.
  destruct (resolve_seek c l1 p l2 Hwf E Hr) as [Hs Hp]. rewrite Hs. simpl. rewrite Hp.
  apply byte_offset_spec; try assumption.
  pose proof (wf_aligned c Hwf) as Ha. rewrite Forall_forall in Ha. apply Ha.
  rewrite E. apply in_or_app. right. left. reflexivity.
Qed.

Lemma resolve_sample_count_spec c l1 p l2 :
  wf_chan c -> dens_ok c -> c_ptrs c = l1 ++ p :: l2 -> 0 <= t_s (p_tr p) < MAXTS ->
  resolve_sample_count c (t_s (p_tr p)) = Ok (zlen (ptr_samples c p)).
Proof.
  intros Hwf Hd E Hr. unfold resolve_sample_count.
  destruct (resolve_seek c l1 p l2 Hwf E Hr) as [Hs Hp]. rewrite Hs. simpl. rewrite Hp.
  f_equal. apply domain_sample_count_spec; try assumption.
  pose proof (wf_aligned c Hwf) as Ha. rewrite Forall_forall in Ha. apply Ha.
  rewrite E. apply in_or_app. right. left. reflexivity.
Qed.

(* ------------------------------------------------------------------ the two resolvers *)
Section Calc.
Variables (P : list dom) (c : chan) (l1 : list ptr) (p : ptr) (l2 : list ptr).
Hypothesis Hw : widx P.
Hypothesis Hwf : wf_chan c.
Hypothesis Hd : dens_ok c.
Hypothesis E : c_ptrs c = l1 ++ p :: l2.
Let G := allst P.
Let ds := t_s (p_tr p).
Let n := zlen (ptr_samples c p).
Hypothesis Hr : 0 <= ds < MAXTS.
(* the pointer's samples are aligned with the index stamps of its time range *)
Hypothesis Hal : n = cnt_lt (t_e (p_tr p)) G - cnt_lt ds G.

Let HG : sincr G := allst_sincr P Hw.

Lemma k_range x : ds <= x <= t_e (p_tr p) -> 0 <= cnt_lt x G - cnt_lt ds G <= n.
Proof.
  intros H. pose proof (cnt_lt_mono G ds x ltac:(lia)). pose proof (cnt_lt_mono G x (t_e (p_tr p)) ltac:(lia)). lia.
Qed.

(* snapping to (last stamp before x) + 1 *)
Lemma snap_prev x st k :
  k = cnt_lt x G - cnt_lt ds G -> 1 <= k ->
  znth G (cnt_lt ds G + (k - 1)) = Some (s_hi st) ->
  cnt_lt (s_hi st + 1) G = cnt_lt x G /\ s_hi st + 1 <= x /\ ds < s_hi st + 1.
Proof.
  intros Hk Hk1 Hz. replace (cnt_lt ds G + (k - 1)) with (cnt_lt x G - 1) in Hz by lia.
  split; [rewrite (cnt_lt_succ_elem G _ _ HG Hz); lia|]. split.
  - pose proof (cnt_lt_below G x _ _ HG Hz ltac:(lia)). lia.
  - pose proof (cnt_lt_above G ds _ _ Hz ltac:(lia) HG). lia.
Qed.

(* snapping to the first stamp at or after x *)
Lemma snap_next x st k :
  k = cnt_lt x G - cnt_lt ds G -> k < n ->
  znth G (cnt_lt ds G + k) = Some (s_hi st) ->
  cnt_lt (s_hi st) G = cnt_lt x G /\ x <= s_hi st /\ s_hi st < t_e (p_tr p).
Proof.
  intros Hk Hkn Hz. replace (cnt_lt ds G + k) with (cnt_lt x G) in Hz by lia.
  split; [apply (cnt_lt_elem G _ _ HG Hz)|]. split.
  - apply (cnt_lt_above G x _ _ Hz ltac:(lia) HG).
  - apply (cnt_lt_below G (t_e (p_tr p)) _ _ HG Hz). lia.
Qed.

Theorem calc_start_ok a bo a' :
  ds <= a < t_e (p_tr p) ->
  calc_start_offset true P c ds a = Ok (bo, a') ->
  let k := cnt_lt a G - cnt_lt ds G in
  0 <= k <= n /\ bo = bytes_of (firstn (Z.to_nat k) (ptr_samples c p)) /\
  cnt_lt a' G = cnt_lt a G /\ a' <= a /\ (0 < k -> ds < a').
Proof.
  intros Ha Hc. cbv zeta. set (k := cnt_lt a G - cnt_lt ds G).
  pose proof (k_range a ltac:(lia)) as Hk. fold k in Hk.
  pose proof (fun kk H => resolve_byte_offset_spec c l1 p l2 kk Hwf Hd E Hr H) as Hbo. fold ds n in Hbo.
  split; [exact Hk|].
  unfold calc_start_offset in Hc.
  destruct (distance P (TR ds a) true) as [A|e] eqn:Ed; simpl in Hc; [|discriminate].
  destruct (Z.eq_dec a ds) as [->|Hne].
  - (* empty range *)
    pose proof (distance_zero_ok P ds A Ed) as ->. simpl in Hc.
    assert (k = 0) by (unfold k; lia).
    rewrite (Hbo 0 ltac:(lia)) in Hc. simpl in Hc. inversion Hc; subst bo a'.
    rewrite H. simpl. repeat split; try lia.
  - destruct (distance_ok P ds a A Hw ltac:(lia) Ed) as (Hhi & Hlo & Hse & _). fold G k in Hhi, Hlo, Hse.
    unfold da_exact in Hc. rewrite Hhi, Hlo in Hc.
    destruct (da_se A) eqn:Ese, (da_ee A) eqn:Eee; simpl in Hc.
    + (* both exact *)
      replace (k - 0 =? k + 0) with true in Hc by (symmetry; apply Z.eqb_eq; lia). simpl in Hc.
      replace (k + 0) with k in Hc by lia.
      rewrite (Hbo k Hk) in Hc. simpl in Hc. inversion Hc; subst bo a'. repeat split; lia.
    + (* start exact, target inexact: previous sample + 1 *)
      replace (k - 1 =? k + 0) with false in Hc by (symmetry; apply Z.eqb_neq; lia). simpl in Hc.
      replace (k + 0) with k in Hc by lia.
      assert (Hk1 : 1 <= k).
      { pose proof (zmem_cnt_lt G ds HG (eq_sym Hse)). pose proof (cnt_lt_mono G (ds + 1) a ltac:(lia)). unfold k. lia. }
      destruct (stamp P ds (k - 1) true) as [st|e] eqn:Est; simpl in Hc; [|discriminate].
      rewrite (Hbo k Hk) in Hc. simpl in Hc. inversion Hc; subst bo a'.
      destruct (stamp_ok P ds (k - 1) st Hw Hr ltac:(lia) Est) as [Hz _]. fold G in Hz.
      destruct (snap_prev a st k eq_refl Hk1 Hz) as (A1 & A2 & A3). repeat split; auto.
    + (* start inexact, target exact: not snapped *)
      replace (k - 0 =? k + 1) with false in Hc by (symmetry; apply Z.eqb_neq; lia). simpl in Hc.
      replace (k - 0) with k in Hc by lia.
      rewrite (Hbo k Hk) in Hc. simpl in Hc. inversion Hc; subst bo a'. repeat split; lia.
    + (* both inexact: the middle of the two bounds *)
      replace (k - 1 =? k + 1) with false in Hc by (symmetry; apply Z.eqb_neq; lia). simpl in Hc.
      replace ((k - 1 + (k + 1)) ÷ 2) with k in Hc by (replace (k - 1 + (k + 1)) with (k * 2) by lia; rewrite Z.quot_mul; lia).
      destruct (k =? 0) eqn:Ek0.
      * rewrite (Hbo k Hk) in Hc. simpl in Hc. inversion Hc; subst bo a'. apply Z.eqb_eq in Ek0. repeat split; lia.
      * apply Z.eqb_neq in Ek0.
        destruct (stamp P ds (k - 1) true) as [st|e] eqn:Est; simpl in Hc; [|discriminate].
        rewrite (Hbo k Hk) in Hc. simpl in Hc. inversion Hc; subst bo a'.
        destruct (stamp_ok P ds (k - 1) st Hw Hr ltac:(lia) Est) as [Hz _]. fold G in Hz.
        destruct (snap_prev a st k eq_refl ltac:(lia) Hz) as (A1 & A2 & A3). repeat split; auto.
Qed.

Theorem calc_end_ok b bo b' :
  ds <= b < t_e (p_tr p) ->
  calc_end_offset true P c ds b = Ok (bo, b') ->
  let k := cnt_lt b G - cnt_lt ds G in
  0 <= k <= n /\ bo = bytes_of (firstn (Z.to_nat k) (ptr_samples c p)) /\
  (k < n -> cnt_lt b' G = cnt_lt b G /\ b <= b' < t_e (p_tr p)).
Proof.
  intros Hb Hc. cbv zeta. set (k := cnt_lt b G - cnt_lt ds G).
  pose proof (k_range b ltac:(lia)) as Hk. fold k in Hk.
  pose proof (fun kk H => resolve_byte_offset_spec c l1 p l2 kk Hwf Hd E Hr H) as Hbo. fold ds n in Hbo.
  pose proof (resolve_sample_count_spec c l1 p l2 Hwf Hd E Hr) as Hcount. fold ds n in Hcount.
  split; [exact Hk|].
  unfold calc_end_offset, calc_end_offset_fixed in Hc.
  destruct (distance P (TR ds b) true) as [A|e] eqn:Ed; simpl in Hc; [|discriminate].
  destruct (Z.eq_dec b ds) as [->|Hne].
  - pose proof (distance_zero_ok P ds A Ed) as ->. simpl in Hc.
    assert (k = 0) by (unfold k; lia).
    rewrite (Hbo 0 ltac:(lia)) in Hc. simpl in Hc. inversion Hc; subst bo b'.
    rewrite H. simpl. split; [reflexivity|]. intros _. split; lia.
  - destruct (distance_ok P ds b A Hw ltac:(lia) Ed) as (Hhi & Hlo & Hse & _). fold G k in Hhi, Hlo, Hse.
    unfold da_exact in Hc. rewrite Hhi, Hlo in Hc.
    assert (Hsnap : forall st, stamp P ds k true = Ok st -> k < n ->
              cnt_lt (s_hi st) G = cnt_lt b G /\ b <= s_hi st < t_e (p_tr p)).
    { intros st Est Hkn. destruct (stamp_ok P ds k st Hw Hr ltac:(lia) Est) as [Hz _]. fold G in Hz.
      destruct (snap_next b st k eq_refl Hkn Hz) as (A1 & A2 & A3). auto. }
    destruct (da_se A) eqn:Ese, (da_ee A) eqn:Eee; simpl in Hc.
    + replace (k - 0 =? k + 0) with true in Hc by (symmetry; apply Z.eqb_eq; lia). simpl in Hc.
      replace (k + 0) with k in Hc by lia.
      rewrite (Hbo k Hk) in Hc. simpl in Hc. inversion Hc; subst bo b'. split; [reflexivity|]. intros; split; lia.
    + replace (k - 1 =? k + 0) with false in Hc by (symmetry; apply Z.eqb_neq; lia). simpl in Hc.
      replace (k + 0) with k in Hc by lia. rewrite Hcount in Hc. simpl in Hc.
      destruct (k <? n) eqn:Ekn.
      * destruct (stamp P ds k true) as [st|e] eqn:Est; simpl in Hc; [|discriminate].
        rewrite (Hbo k Hk) in Hc. simpl in Hc. inversion Hc; subst bo b'. split; [reflexivity|].
        intros Hkn. apply Hsnap; auto.
      * simpl in Hc. rewrite (Hbo k Hk) in Hc. simpl in Hc. inversion Hc; subst bo b'. split; [reflexivity|].
        apply Z.ltb_ge in Ekn. lia.
    + replace (k - 0 =? k + 1) with false in Hc by (symmetry; apply Z.eqb_neq; lia). simpl in Hc.
      replace (k - 0) with k in Hc by lia. rewrite Hcount in Hc. simpl in Hc.
      destruct (k <? n) eqn:Ekn.
      * destruct (stamp P ds k true) as [st|e] eqn:Est; simpl in Hc; [|discriminate].
        rewrite (Hbo k Hk) in Hc. simpl in Hc. inversion Hc; subst bo b'. split; [reflexivity|].
        intros Hkn. apply Hsnap; auto.
      * simpl in Hc. rewrite (Hbo k Hk) in Hc. simpl in Hc. inversion Hc; subst bo b'. split; [reflexivity|].
        apply Z.ltb_ge in Ekn. lia.
    + replace (k - 1 =? k + 1) with false in Hc by (symmetry; apply Z.eqb_neq; lia). simpl in Hc.
      replace ((k - 1 + (k + 1)) ÷ 2) with k in Hc by (replace (k - 1 + (k + 1)) with (k * 2) by lia; rewrite Z.quot_mul; lia).
      rewrite Hcount in Hc. simpl in Hc.
      destruct (k <? n) eqn:Ekn.
      * destruct (stamp P ds k true) as [st|e] eqn:Est; simpl in Hc; [|discriminate].
        rewrite (Hbo k Hk) in Hc. simpl in Hc. inversion Hc; subst bo b'. split; [reflexivity|].
        intros Hkn. apply Hsnap; auto.
      * simpl in Hc. rewrite (Hbo k Hk) in Hc. simpl in Hc. inversion Hc; subst bo b'. split; [reflexivity|].
        apply Z.ltb_ge in Ekn. lia.
Qed.
End Calc.
