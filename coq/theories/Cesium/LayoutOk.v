(* Cesium/LayoutOk.v — decidable well-formedness of a stored layout (definitions only; soundness
   with respect to the hypotheses of the exactness theorems is proved in LayoutCheck.v). *)
From Coq Require Import ZArith List Bool.
From Synnax Require Import Cesium.Store.
Import ListNotations.
Local Open Scope Z_scope.

(* index stamps inside a range, and all stamps of an index in index order *)
Definition stamps_in (t : tr) (l : list Z) : list Z := filter (contains_stamp t) l.
Definition stamps_of (P : list dom) : list Z := concat (map d_data P).

Fixpoint chain_okb {A} (r : A -> A -> bool) (l : list A) : bool :=
  match l with
  | a :: ((b :: _) as t) => r a b && chain_okb r t
  | _ => true
  end.

Definition incb (l : list Z) : bool := chain_okb Z.ltb l.
Definition dwfb (d : dom) : bool := t_s (d_tr d) <? t_e (d_tr d).
(* sorted, non-overlapping, non-empty domains *)
Definition layb (L : list dom) : bool :=
  forallb dwfb L && chain_okb (fun a b => t_e (d_tr a) <=? t_s (d_tr b)) L.
(* index domain: ascending stamps inside its range *)
Definition iwfb (q : dom) : bool :=
  incb (d_data q) && forallb (fun x => (t_s (d_tr q) <=? x) && (x <? t_e (d_tr q))) (d_data q).
Definition ilayb (P : list dom) : bool := layb P && forallb iwfb P.

(* the longest immediately contiguous continuation of x in l *)
Fixpoint contig_run (x : dom) (l : list dom) : list dom :=
  match l with
  | y :: r => if t_e (d_tr x) =? t_s (d_tr y) then y :: contig_run y r else []
  | [] => []
  end.
Fixpoint drop_ended (ts : Z) (P : list dom) : list dom :=
  match P with
  | q :: r => if t_e (d_tr q) <=? ts then drop_ended ts r else P
  | [] => []
  end.

(* a data domain starting inside an index domain, ending within the contiguous run of index
   domains that begins there, holding one sample per index stamp of its range *)
Definition withinb (P : list dom) (d : dom) : bool :=
  match drop_ended (t_s (d_tr d)) P with
  | q :: r =>
      (t_s (d_tr q) <=? t_s (d_tr d)) && (t_s (d_tr d) <? t_e (d_tr q)) &&
      (t_e (d_tr d) <=? t_e (d_tr (last (contig_run q r) q))) &&
      (dlen d =? zlen (stamps_in (d_tr d) (stamps_of P)))
  | [] => false
  end.

Definition layout_okb (P D : list dom) : bool := ilayb P && layb D && forallb (withinb P) D.
