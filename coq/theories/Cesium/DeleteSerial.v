(* Cesium/DeleteSerial.v — C09/C03, pointer level: DB.Delete's optimistic protocol is serialisable against
   concurrent commits of new domains.

   cesium/internal/domain/delete.go Delete looks up its start domain under a read lock, releases it, resolves the
   start offset, looks up its end domain under a second read lock, releases it, resolves the end offset, and only
   then takes the write lock, RE-RESOLVES both positions ("repêchage") and splices the index.  Writers may commit
   new domains (index.insert) in both windows.  This file proves that for EVERY choice of the domains inserted in
   the two windows the outcome is the one of a serial execution:  the inserts that landed between the captured start
   and end domains first, then the delete, then the remaining inserts.

   Model: Cesium/Domain.v (delete_start / delete_end / repechage_start / repechage_end / delete_apply / insert). *)
From Coq Require Import List ZArith Lia Bool Permutation Sorted.
Import ListNotations.
From Synnax Require Import Common.Telem Common.TelemProofs Cesium.Domain Cesium.DomainProofs Cesium.DomainInv
  Cesium.DomainCommute.
Local Open Scope Z_scope.

(* ------------------------------------------------------------------ order facts of a well-formed index *)
Lemma pos_lt_start ps i j x y : idx_ok ps -> getp ps i = Some x -> getp ps j = Some y ->
  (i < j <-> p_start x < p_start y).
Proof.
  intros Hok Hi Hj. pose proof (idx_ok_wf _ _ _ Hok Hi) as [_ Hx]. pose proof (idx_ok_wf _ _ _ Hok Hj) as [_ Hy].
  split; intros H.
  - pose proof (idx_ok_lookup_lt _ Hok _ _ _ _ Hi Hj H). lia.
  - destruct (Z.lt_trichotomy i j) as [L|[L|L]]; [assumption| |].
    + subst j. rewrite Hi in Hj. inversion Hj; subst. lia.
    + pose proof (idx_ok_lookup_lt _ Hok _ _ _ _ Hj Hi L). lia.
Qed.

Lemma in_order ps x y : idx_ok ps -> In x ps -> In y ps -> p_start x < p_start y -> p_end x <= p_start y.
Proof.
  intros Hok Hx Hy Hlt. destruct (In_getp _ _ Hx) as [i Hi]. destruct (In_getp _ _ Hy) as [j Hj].
  apply (idx_ok_lookup_lt _ Hok _ _ _ _ Hi Hj). now apply (pos_lt_start ps i j x y).
Qed.

Lemma in_start_inj ps x y : idx_ok ps -> In x ps -> In y ps -> p_start x = p_start y -> x = y.
Proof.
  intros Hok Hx Hy He. destruct (In_getp _ _ Hx) as [i Hi]. destruct (In_getp _ _ Hy) as [j Hj].
  pose proof (idx_ok_start_inj _ _ _ _ _ Hok Hi Hj He). subst j. rewrite Hi in Hj. now inversion Hj.
Qed.

Lemma in_wf ps x : idx_ok ps -> In x ps -> ptr_wf x.
Proof. intros [_ Hw] Hx. rewrite Forall_forall in Hw. now apply Hw. Qed.

(* ------------------------------------------------------------------ insert succeeds exactly when nothing overlaps *)
Definition apart (p q : pointer) : Prop := p_end p <= p_start q \/ p_end q <= p_start p.

Lemma insert_succeeds ps p :
  idx_ok ps -> ptr_wf p -> (p_file p <> 0)%N -> (forall q, In q ps -> apart q p) ->
  exists ps', insert ps p = inl ps'.
Proof.
  intros Hok Hwf Hf Hap. unfold insert. destruct (N.eqb_spec (p_file p) 0); [contradiction|].
  destruct ps as [|f l] eqn:E; [eexists; reflexivity|]. rewrite <- E in *.
  destruct (after_last ps (p_start p)); [eexists; reflexivity|].
  destruct (before_first ps (p_end p)); cbn [negb]; [eexists; reflexivity|].
  destruct Hwf as [Hr Hlt].
  pose proof (usearch_spec ps (p_tr p) Hok Hr ltac:(unfold p_start, p_end in *; lia)) as Hs.
  destruct (usearch ps (p_tr p)) as [i [|]]; [|eexists; reflexivity].
  exfalso. destruct Hs as (q & Hq & Hov). pose proof (idx_ok_wf _ _ _ Hok Hq) as [Hqr Hqlt].
  apply overlaps_with_spec in Hov; try assumption; try (unfold p_start, p_end in *; lia).
  destruct (Hap q (getp_In _ _ _ Hq)) as [H|H]; unfold overlaps_math, p_start, p_end in *; lia.
Qed.

(* a run of inserts (commits of new domains by concurrent writers) *)
Fixpoint inserts (ps : list pointer) (xs : list pointer) : list pointer + err :=
  match xs with
  | [] => inl ps
  | x :: r => match insert ps x with inl ps' => inserts ps' r | inr e => inr e end
  end.

Lemma inserts_perm : forall xs ps ps',
  idx_ok ps -> Forall ptr_wf xs -> inserts ps xs = inl ps' -> idx_ok ps' /\ Permutation ps' (xs ++ ps).
Proof.
  induction xs as [|x r IH]; intros ps ps' Hok Hw H; cbn [inserts] in H.
  - inversion H; subst. split; [assumption|reflexivity].
  - inversion Hw as [|? ? Hx Hr]; subst. destruct (insert ps x) as [ps1|] eqn:E; [|discriminate].
    destruct (insert_perm _ _ _ Hok Hx E) as (Hok1 & P1). destruct (IH _ _ Hok1 Hr H) as (Hok' & P').
    split; [assumption|]. eapply perm_trans; [exact P'|]. cbn [app].
    eapply perm_trans; [apply Permutation_app_head; exact P1|]. apply Permutation_sym, Permutation_middle.
Qed.

Lemma inserts_succeed : forall xs ps,
  idx_ok ps -> Forall ptr_wf xs -> Forall (fun x => (p_file x <> 0)%N) xs ->
  (forall x q, In x xs -> In q ps -> apart q x) ->
  ForallOrdPairs apart xs ->
  exists ps', inserts ps xs = inl ps'.
Proof.
  induction xs as [|x r IH]; intros ps Hok Hw Hf Hap Hpair; cbn [inserts]; [eexists; reflexivity|].
  inversion Hw as [|? ? Hx Hr]; subst. inversion Hf as [|? ? Hfx Hfr]; subst.
  inversion Hpair as [|? ? Hxr Hrr]; subst.
  assert (Hq0 : forall q, In q ps -> apart q x) by (intros q Hq; apply Hap; [left; reflexivity|assumption]).
  destruct (insert_succeeds ps x Hok Hx Hfx Hq0) as [ps1 E].
  rewrite E. destruct (insert_perm _ _ _ Hok Hx E) as (Hok1 & P1). apply IH; try assumption.
  intros y q Hy Hq. apply (Permutation_in _ P1) in Hq. destruct Hq as [<-|Hq].
  - rewrite Forall_forall in Hxr. exact (Hxr y Hy).
  - apply Hap; [right; assumption|assumption].
Qed.

(* ------------------------------------------------------------------ the two look-ups depend only on the set of domains *)
Lemma point_overlap s t : ptr_wf s -> ts_in_range t -> p_start s <= t < p_end s ->
  overlaps_with (p_tr s) (mkTR t t) = true.
Proof.
  intros [Hr Hlt] Ht Hc. apply overlaps_with_spec; try assumption.
  - split; assumption.
  - unfold p_start, p_end in *; lia.
  - simpl; lia.
  - unfold overlaps_math, p_start, p_end in *. simpl. lia.
Qed.

Lemma contains_unique ps x y t : idx_ok ps -> In x ps -> In y ps ->
  p_start x <= t < p_end x -> p_start y <= t < p_end y -> x = y.
Proof.
  intros Hok Hx Hy Cx Cy. destruct (Z.lt_trichotomy (p_start x) (p_start y)) as [L|[L|L]].
  - pose proof (in_order _ _ _ Hok Hx Hy L). lia.
  - eapply in_start_inj; eauto.
  - pose proof (in_order _ _ _ Hok Hy Hx L). lia.
Qed.

Lemma usearch_point_finds ps s t : idx_ok ps -> ts_in_range t -> In s ps -> p_start s <= t < p_end s ->
  exists i, usearch ps (ts_span_range t 0) = (i, true) /\ getp ps i = Some s.
Proof.
  intros Hok Ht Hs Hc. pose proof (in_wf _ _ Hok Hs) as Hwf.
  assert (Hf : snd (usearch ps (ts_span_range t 0)) = true).
  { rewrite span_range0 by assumption.
    apply (usearch_finds ps (mkTR t t) s); try assumption; [split; assumption|simpl; lia|].
    now apply point_overlap. }
  destruct (usearch ps (ts_span_range t 0)) as [i ex] eqn:E. simpl in Hf. subst ex.
  exists i. split; [reflexivity|].
  destruct (usearch_point_exact _ _ _ Hok Ht E) as (s1 & Hg & Hc1). rewrite Hg. f_equal.
  eapply contains_unique; eauto. eapply getp_In; eauto.
Qed.

Lemma delete_start_transfer ps ps' a sd s so a' :
  idx_ok ps -> idx_ok ps' -> ts_in_range a ->
  delete_start lin_resolver ps a = inl (Some (sd, s, so, a')) ->
  In s ps' -> (forall x, In x ps' -> In x ps \/ p_start s < p_start x) ->
  exists sd', delete_start lin_resolver ps' a = inl (Some (sd', s, so, a')).
Proof.
  intros Hok Hok' Ha Hd Hs' Hsub. unfold delete_start in Hd.
  destruct (usearch ps (ts_span_range a 0)) as [sd0 [|]] eqn:Eu.
  - (* a lies inside s *)
    destruct (usearch_point_exact _ _ _ Hok Ha Eu) as (s0 & Hg & Hc). rewrite Hg in Hd. simpl in Hd.
    inversion Hd; subst sd s so a'; clear Hd.
    destruct (usearch_point_finds ps' s0 a Hok' Ha Hs' Hc) as (i & Eu' & Hg').
    exists i. unfold delete_start. rewrite Eu', Hg'. reflexivity.
  - (* a lies in a gap: s is the first domain after it *)
    destruct (usearch_point_inexact _ _ _ Hok Ha Eu) as (Hi & HL & HR).
    destruct (Z.eqb_spec (sd0 + 1) (zlen ps)) as [|Hne]; [discriminate|].
    destruct (getp ps (sd0 + 1)) as [s0|] eqn:Hg; [|discriminate].
    inversion Hd; subst sd s so a'; clear Hd.
    pose proof (HR _ _ Hg ltac:(lia)) as Has. pose proof (in_wf _ _ Hok' Hs') as [_ Hswf].
    unfold delete_start.
    destruct (usearch ps' (ts_span_range a 0)) as [i [|]] eqn:Eu'.
    + exfalso. destruct (usearch_point_exact _ _ _ Hok' Ha Eu') as (x & Hgx & Hcx).
      destruct (Hsub x (getp_In _ _ _ Hgx)) as [Hin|Hlt]; [|lia].
      destruct (In_getp _ _ Hin) as [j Hj]. destruct (Z_le_gt_dec j sd0) as [Hle|Hgt].
      * pose proof (HL _ _ Hj Hle). lia.
      * pose proof (HR _ _ Hj ltac:(lia)). lia.
    + destruct (usearch_point_inexact _ _ _ Hok' Ha Eu') as (Hi' & HL' & HR').
      destruct (In_getp _ _ Hs') as [k Hk].
      assert (Hki : i < k).
      { destruct (Z_le_gt_dec k i) as [Hle|Hgt]; [|lia]. pose proof (HL' _ _ Hk Hle). lia. }
      assert (Hk1 : k = i + 1).
      { destruct (Z.eq_dec k (i + 1)) as [|Hn]; [assumption|]. exfalso.
        destruct (getp_lookup ps' (i + 1)) as [y Hy]; [pose proof (getp_Some _ _ _ Hk); lia|].
        pose proof (HR' _ _ Hy ltac:(lia)) as Hay.
        assert (Hys : p_start y < p_start s0) by (apply (pos_lt_start ps' (i + 1) k y s0); try assumption; lia).
        destruct (Hsub y (getp_In _ _ _ Hy)) as [Hin|Hlt]; [|lia].
        destruct (In_getp _ _ Hin) as [j Hj]. destruct (Z_le_gt_dec j sd0) as [Hle|Hgt].
        - pose proof (HL _ _ Hj Hle). pose proof (in_wf _ _ Hok Hin) as [_ ?]. lia.
        - destruct (Z.eq_dec j (sd0 + 1)) as [->|Hn2]; [rewrite Hg in Hj; inversion Hj; subst; lia|].
          pose proof (proj1 (pos_lt_start ps (sd0 + 1) j s0 y Hok Hg Hj) ltac:(lia)). lia. }
      subst k. exists (i + 1). rewrite Hk.
      destruct (Z.eqb_spec (i + 1) (zlen ps')) as [Heq|_]; [pose proof (getp_Some _ _ _ Hk); lia|].
      reflexivity.
Qed.

Lemma delete_end_transfer ps ps' b ed e eo b' :
  idx_ok ps -> idx_ok ps' -> ts_in_range b ->
  delete_end lin_resolver ps b = inl (Some (ed, e, eo, b')) ->
  In e ps' -> (forall x, In x ps' -> In x ps \/ p_start x < p_start e) ->
  exists ed', delete_end lin_resolver ps' b = inl (Some (ed', e, eo, b')).
Proof.
  intros Hok Hok' Hb Hd He' Hsub. unfold delete_end in Hd.
  destruct (usearch ps (ts_span_range b 0)) as [ed0 [|]] eqn:Eu.
  - destruct (usearch_point_exact _ _ _ Hok Hb Eu) as (e0 & Hg & Hc). rewrite Hg in Hd. simpl in Hd.
    inversion Hd; subst ed e eo b'; clear Hd.
    destruct (usearch_point_finds ps' e0 b Hok' Hb He' Hc) as (i & Eu' & Hg').
    exists i. unfold delete_end. rewrite Eu', Hg'. reflexivity.
  - destruct (usearch_point_inexact _ _ _ Hok Hb Eu) as (Hi & HL & HR).
    destruct (Z.eqb_spec ed0 (-1)) as [|Hne]; [discriminate|].
    destruct (getp ps ed0) as [e0|] eqn:Hg; [|discriminate].
    inversion Hd; subst ed e eo b'; clear Hd.
    pose proof (HL _ _ Hg ltac:(lia)) as Heb. pose proof (in_wf _ _ Hok' He') as [_ Hewf].
    unfold delete_end.
    destruct (usearch ps' (ts_span_range b 0)) as [i [|]] eqn:Eu'.
    + exfalso. destruct (usearch_point_exact _ _ _ Hok' Hb Eu') as (x & Hgx & Hcx).
      destruct (Hsub x (getp_In _ _ _ Hgx)) as [Hin|Hlt].
      * destruct (In_getp _ _ Hin) as [j Hj]. destruct (Z_le_gt_dec j ed0) as [Hle|Hgt].
        -- pose proof (HL _ _ Hj Hle). lia.
        -- pose proof (HR _ _ Hj ltac:(lia)). lia.
      * pose proof (in_order _ _ _ Hok' (getp_In _ _ _ Hgx) He' Hlt). lia.
    + destruct (usearch_point_inexact _ _ _ Hok' Hb Eu') as (Hi' & HL' & HR').
      destruct (In_getp _ _ He') as [k Hk].
      assert (Hki : k <= i).
      { destruct (Z_le_gt_dec k i) as [Hle|Hgt]; [assumption|]. pose proof (HR' _ _ Hk ltac:(lia)). lia. }
      assert (Hk1 : k = i).
      { destruct (Z.eq_dec k i) as [|Hn]; [assumption|]. exfalso.
        destruct (getp_lookup ps' i) as [y Hy]; [pose proof (getp_Some _ _ _ Hk); lia|].
        pose proof (HL' _ _ Hy ltac:(lia)) as Hyb.
        assert (Hys : p_start e0 < p_start y) by (apply (pos_lt_start ps' k i e0 y); try assumption; lia).
        destruct (Hsub y (getp_In _ _ _ Hy)) as [Hin|Hlt]; [|lia].
        destruct (In_getp _ _ Hin) as [j Hj]. destruct (Z_le_gt_dec j ed0) as [Hle|Hgt].
        - destruct (Z.eq_dec j ed0) as [->|Hn2]; [rewrite Hg in Hj; inversion Hj; subst; lia|].
          pose proof (proj1 (pos_lt_start ps j ed0 y e0 Hok Hj Hg) ltac:(lia)). lia.
        - pose proof (HR _ _ Hj ltac:(lia)). pose proof (in_wf _ _ Hok Hin) as [_ ?]. lia. }
      subst k. exists i.
      destruct (Z.eqb_spec i (-1)) as [Heq|_]; [pose proof (getp_Some _ _ _ Hk); lia|].
      rewrite Hk. reflexivity.
Qed.

(* ------------------------------------------------------------------ validateDelete depends on positions only through order *)
Lemma validate_rel ps ps' sp ep sp' ep' so eo s e :
  getp ps sp = Some s -> getp ps ep = Some e -> getp ps' sp' = Some s -> getp ps' ep' = Some e ->
  (ep <? sp) = (ep' <? sp') -> (sp =? ep + 1) = (sp' =? ep' + 1) ->
  (sp =? ep) = (sp' =? ep') -> (sp =? ep - 1) = (sp' =? ep' - 1) ->
  validate_delete ps sp ep so eo = validate_delete ps' sp' ep' so eo.
Proof.
  intros Hs He Hs' He' R1 R2 R3 R4. unfold validate_delete.
  pose proof (getp_Some _ _ _ Hs). pose proof (getp_Some _ _ _ He).
  pose proof (getp_Some _ _ _ Hs'). pose proof (getp_Some _ _ _ He').
  destruct (Z.eqb_spec sp (zlen ps)); [lia|]. destruct (Z.eqb_spec sp' (zlen ps')); [lia|].
  destruct (Z.eqb_spec ep (-1)); [lia|]. destruct (Z.eqb_spec ep' (-1)); [lia|].
  rewrite Hs, He, Hs', He', R1, R2, R3, R4. reflexivity.
Qed.

Lemma adjacent_iff ps i j x y : idx_ok ps -> getp ps i = Some x -> getp ps j = Some y ->
  (j = i + 1 <-> p_start x < p_start y /\ forall z, In z ps -> ~ (p_start x < p_start z < p_start y)).
Proof.
  intros Hok Hi Hj. split.
  - intros ->. split; [apply (pos_lt_start ps i (i + 1) x y); try assumption; lia|].
    intros z Hz [H1 H2]. destruct (In_getp _ _ Hz) as [k Hk].
    apply (pos_lt_start ps i k x z Hok Hi Hk) in H1. apply (pos_lt_start ps k (i + 1) z y Hok Hk Hj) in H2. lia.
  - intros [Hlt Hno]. apply (pos_lt_start ps i j x y Hok Hi Hj) in Hlt.
    destruct (Z.eq_dec j (i + 1)) as [|Hn]; [assumption|]. exfalso.
    destruct (getp_lookup ps (i + 1)) as [z Hz]; [pose proof (getp_Some _ _ _ Hi); pose proof (getp_Some _ _ _ Hj); lia|].
    apply (Hno z (getp_In _ _ _ Hz)). split.
    + apply (pos_lt_start ps i (i + 1) x z); try assumption; lia.
    + apply (pos_lt_start ps (i + 1) j z y); try assumption; lia.
Qed.

(* ------------------------------------------------------------------ what the splice keeps *)
Definition outb (s e x : pointer) : bool := (p_start x <? p_start s) || (p_start e <? p_start x).

Lemma filter_all {A} (f : A -> bool) l : (forall x, In x l -> f x = true) -> filter f l = l.
Proof.
  induction l as [|a l IH]; intros H; cbn [filter]; [reflexivity|].
  rewrite (H a (or_introl eq_refl)). f_equal. apply IH. intros x Hx. apply H. now right.
Qed.
Lemma filter_none {A} (f : A -> bool) l : (forall x, In x l -> f x = false) -> filter f l = [].
Proof.
  induction l as [|a l IH]; intros H; cbn [filter]; [reflexivity|].
  rewrite (H a (or_introl eq_refl)). apply IH. intros x Hx. apply H. now right.
Qed.
Lemma filter_perm {A} (f : A -> bool) l l' : Permutation l l' -> Permutation (filter f l) (filter f l').
Proof.
  induction 1 as [|x l l' _ IH|x y l|l l' l'' _ IH1 _ IH2]; cbn [filter].
  - constructor.
  - destruct (f x); [now constructor|assumption].
  - destruct (f x), (f y); try reflexivity. apply perm_swap.
  - eapply perm_trans; eassumption.
Qed.

Lemma getp_firstn {A} (l : list A) k j x : 0 <= k -> getp (firstn (Z.to_nat k) l) j = Some x -> j < k /\ getp l j = Some x.
Proof.
  intros Hk Hg. pose proof (getp_Some _ _ _ Hg) as Hr.
  assert (Hl : zlen (firstn (Z.to_nat k) l) <= k) by (unfold zlen; rewrite firstn_length; lia).
  split; [lia|]. rewrite <- (firstn_skipn (Z.to_nat k) l). rewrite getp_app_l; [assumption|lia].
Qed.

Lemma kept_filter ps sd ed s e : idx_ok ps -> getp ps sd = Some s -> getp ps ed = Some e -> sd <= ed + 1 ->
  firstn (Z.to_nat sd) ps ++ skipn (Z.to_nat (ed + 1)) ps = filter (outb s e) ps.
Proof.
  intros Hok Hs He Hle. pose proof (getp_Some _ _ _ Hs) as Hsr. pose proof (getp_Some _ _ _ He) as Her.
  set (L := firstn (Z.to_nat (ed + 1)) ps).
  assert (HA : firstn (Z.to_nat sd) L = firstn (Z.to_nat sd) ps).
  { unfold L. rewrite firstn_firstn. f_equal. lia. }
  assert (Hps : ps = firstn (Z.to_nat sd) ps ++ skipn (Z.to_nat sd) L ++ skipn (Z.to_nat (ed + 1)) ps).
  { rewrite <- HA, app_assoc, firstn_skipn. unfold L. now rewrite firstn_skipn. }
  rewrite Hps at 3. rewrite !filter_app.
  rewrite filter_all, filter_none, filter_all; [reflexivity| | |].
  - intros x Hx. destruct (In_skipn_getp ps (ed + 1) x ltac:(lia) Hx) as (j & Hj & Hg).
    unfold outb. apply orb_true_iff. right. apply Z.ltb_lt.
    apply (pos_lt_start ps ed j e x); try assumption; lia.
  - intros x Hx. destruct (In_skipn_getp L sd x ltac:(lia) Hx) as (j & Hj & Hg).
    destruct (getp_firstn ps (ed + 1) j x ltac:(lia) Hg) as (Hj2 & Hg2).
    unfold outb. apply orb_false_iff. split; apply Z.ltb_ge.
    + destruct (Z.eq_dec j sd) as [->|Hn]; [rewrite Hs in Hg2; inversion Hg2; subst; lia|].
      pose proof (proj1 (pos_lt_start ps sd j s x Hok Hs Hg2) ltac:(lia)). lia.
    + destruct (Z.eq_dec j ed) as [->|Hn]; [rewrite He in Hg2; inversion Hg2; subst; lia|].
      pose proof (proj1 (pos_lt_start ps j ed x e Hok Hg2 He) ltac:(lia)). lia.
  - intros x Hx. destruct (In_firstn_getp ps sd x ltac:(lia) Hx) as (j & Hj & Hg).
    unfold outb. apply orb_true_iff. left. apply Z.ltb_lt.
    apply (pos_lt_start ps j sd x s); try assumption; lia.
Qed.

(* ------------------------------------------------------------------ distinct domains of one index are apart *)
Lemma idx_ok_NoDup ps : idx_ok ps -> NoDup ps.
Proof.
  intros [Hs Hw]. induction ps as [|x l IH]; [constructor|].
  apply StronglySorted_inv in Hs. destruct Hs as [Hs Hall]. inversion Hw as [|? ? Hx Hl]; subst.
  constructor; [|now apply IH]. intros Hin. rewrite Forall_forall in Hall. pose proof (Hall x Hin) as Hb.
  unfold before in Hb. destruct Hx as [_ Hx]. lia.
Qed.

Lemma NoDup_app_disjoint {A} (l1 l2 : list A) x : NoDup (l1 ++ l2) -> In x l1 -> In x l2 -> False.
Proof.
  induction l1 as [|a l1 IH]; intros Hn H1 H2; [destruct H1|]. cbn [app] in Hn. inversion Hn as [|? ? Hna Hn']; subst.
  destruct H1 as [->|H1]; [apply Hna, in_or_app; now right|now apply IH].
Qed.

Lemma NoDup_app_l {A} (l1 l2 : list A) : NoDup (l1 ++ l2) -> NoDup l1.
Proof.
  induction l1 as [|a l1 IH]; intros H; [constructor|]. cbn [app] in H. inversion H as [|? ? Hna Hn]; subst.
  constructor; [|now apply IH]. intros Hin. apply Hna, in_or_app. now left.
Qed.

Lemma apart_of_in ps x y : idx_ok ps -> In x ps -> In y ps -> x <> y -> apart x y.
Proof.
  intros Hok Hx Hy Hne. destruct (Z.lt_trichotomy (p_start x) (p_start y)) as [L|[L|L]].
  - left. eapply in_order; eauto.
  - exfalso. apply Hne. eapply in_start_inj; eauto.
  - right. eapply in_order; eauto.
Qed.

Lemma apart_sym x y : apart x y -> apart y x.
Proof. unfold apart. tauto. Qed.

Lemma pairs_apart ps l : idx_ok ps -> NoDup l -> (forall x, In x l -> In x ps) -> ForallOrdPairs apart l.
Proof.
  intros Hok. induction l as [|x l IH]; intros Hn Hin; [constructor|].
  inversion Hn as [|? ? Hnx Hn']; subst. constructor.
  - rewrite Forall_forall. intros y Hy. apply (apart_of_in ps); try assumption.
    + apply Hin. now left.
    + apply Hin. now right.
    + intros ->. contradiction.
  - apply IH; [assumption|]. intros y Hy. apply Hin. now right.
Qed.

Lemma filter_split_perm {A} (f : A -> bool) l :
  Permutation (filter f l ++ filter (fun x => negb (f x)) l) l.
Proof.
  induction l as [|a l IH]; cbn [filter app]; [constructor|].
  destruct (f a); cbn [negb app].
  - now constructor.
  - eapply perm_trans; [apply Permutation_sym, Permutation_middle|]. now constructor.
Qed.

Lemma filter_filter_none {A} (f : A -> bool) l : filter f (filter (fun x => negb (f x)) l) = [].
Proof.
  apply filter_none. intros x Hx. apply filter_In in Hx. destruct Hx as [_ Hx]. now apply negb_true_iff in Hx.
Qed.
Lemma filter_filter_all {A} (f : A -> bool) l : filter f (filter f l) = filter f l.
Proof. apply filter_all. intros x Hx. apply filter_In in Hx. tauto. Qed.

Lemma ptr_in_files_file fs p : ptr_in_files fs p -> (p_file p <> 0)%N.
Proof. intros (f & Hf & _). now apply get_file_Some in Hf. Qed.

(* ------------------------------------------------------------------ the serialisation theorem *)
Lemma perm_mid {A} (F M S : list A) : Permutation (F ++ M ++ S) (M ++ F ++ S).
Proof. rewrite !app_assoc. apply Permutation_app_tail. apply Permutation_app_comm. Qed.

Lemma in_new_s_apart s so a' y :
  p_start s <= a' -> a' <= p_end s -> apart s y ->
  apart (mkPtr (mkTR (p_start s) a') (p_file s) (p_off s) (u32z so)) y.
Proof. unfold apart, p_start, p_end. simpl. intros ? ? [H|H]; [left|right]; lia. Qed.

Lemma in_new_e_apart e off sz b' y :
  p_start e <= b' -> b' <= p_end e -> apart e y ->
  apart (mkPtr (mkTR b' (p_end e)) (p_file e) off sz) y.
Proof. unfold apart, p_start, p_end. simpl. intros ? ? [H|H]; [left|right]; lia. Qed.

Theorem delete_with_commits_serial fs ps0 X1 X2 ps1 ps2 a b sd s so a' ed e eo b' final :
  idx_ok ps0 -> ts_in_range a -> ts_in_range b -> Forall ptr_wf (X1 ++ X2) ->
  delete_start lin_resolver ps0 a = inl (Some (sd, s, so, a')) ->
  inserts ps0 X1 = inl ps1 ->
  delete_end lin_resolver ps1 b = inl (Some (ed, e, eo, b')) ->
  inserts ps1 X2 = inl ps2 ->
  Forall (ptr_in_files fs) ps2 -> Forall file_small fs ->
  p_start s <= p_start e ->
  delete_apply ps2 (repechage_start ps2 sd s) s so a' (repechage_end ps2 ed e) e eo b' = (final, ROk) ->
  exists psA psD,
    inserts ps0 (filter (fun x => negb (outb s e x)) (X1 ++ X2)) = inl psA /\
    delete lin_resolver lin_resolver psA a b = (psD, ROk) /\
    inserts psD (filter (outb s e) (X1 ++ X2)) = inl final.
Proof.
  intros Hok0 Ha Hb HwX Hds Hi1 Hde Hi2 Hpf Hsm Hse Hfin.
  set (X := X1 ++ X2) in *. set (Xin := filter (fun x => negb (outb s e x)) X). set (Xout := filter (outb s e) X).
  apply Forall_app in HwX as HwX12. destruct HwX12 as [HwX1 HwX2].
  destruct (inserts_perm _ _ _ Hok0 HwX1 Hi1) as (Hok1 & P1).
  destruct (inserts_perm _ _ _ Hok1 HwX2 Hi2) as (Hok2 & P2).
  assert (PX : Permutation ps2 (X ++ ps0)).
  { eapply perm_trans; [exact P2|]. eapply perm_trans; [apply Permutation_app_head; exact P1|].
    unfold X. rewrite <- app_assoc. rewrite !app_assoc. apply Permutation_app_tail. apply Permutation_app_comm. }
  pose proof (idx_ok_NoDup _ Hok2) as Hnd2.
  assert (HndX : NoDup (X ++ ps0)) by (eapply Permutation_NoDup; eassumption).
  assert (Hnd21 : NoDup (X2 ++ ps1)) by (eapply Permutation_NoDup; eassumption).
  (* what the two look-ups delivered *)
  destruct (delete_start_spec _ _ _ _ _ _ Hok0 Ha Hds) as (Hgs0 & Ha' & Hso_pos & Hso_np & Hsa').
  destruct (delete_end_spec _ _ _ _ _ _ Hok1 Hb Hde) as (Hge1 & Hb' & Heo_pos & Hbe').
  assert (Hs0 : In s ps0) by (eapply getp_In; eassumption).
  assert (He1 : In e ps1) by (eapply getp_In; eassumption).
  assert (Hin02 : forall x, In x ps0 -> In x ps2).
  { intros x Hx. apply (Permutation_in _ (Permutation_sym PX)). apply in_or_app. now right. }
  assert (HinX2 : forall x, In x X -> In x ps2).
  { intros x Hx. apply (Permutation_in _ (Permutation_sym PX)). apply in_or_app. now left. }
  assert (Hin12 : forall x, In x ps1 -> In x ps2).
  { intros x Hx. apply (Permutation_in _ (Permutation_sym P2)). apply in_or_app. now right. }
  assert (Hin01 : forall x, In x ps0 -> In x ps1).
  { intros x Hx. apply (Permutation_in _ (Permutation_sym P1)). apply in_or_app. now right. }
  pose proof (Hin02 _ Hs0) as Hs2. pose proof (Hin12 _ He1) as He2.
  set (sd' := repechage_start ps2 sd s) in *. set (ed' := repechage_end ps2 ed e) in *.
  pose proof (repechage_start_finds ps2 sd s Hok2 Hs2) as Hgs2. fold sd' in Hgs2.
  pose proof (repechage_end_finds ps2 ed e Hok2 He2) as Hge2. fold ed' in Hge2.
  (* the inserted domains are apart from each other and from the old ones *)
  assert (HXne0 : forall x q, In x X -> In q ps0 -> x <> q).
  { intros x q Hx Hq ->. exact (NoDup_app_disjoint X ps0 q HndX Hx Hq). }
  rewrite Forall_forall in Hpf.
  assert (HndXl : NoDup X) by (eapply NoDup_app_l; exact HndX).
  assert (HfX : forall x, In x X -> (p_file x <> 0)%N).
  { intros x Hx. eapply ptr_in_files_file. apply Hpf. now apply HinX2. }
  (* 1. the inserts that landed between s and e, before the delete *)
  assert (HXin_sub : forall x, In x Xin -> In x X /\ outb s e x = false).
  { intros x Hx. apply filter_In in Hx. destruct Hx as [Hx Ho]. split; [assumption|]. now apply negb_true_iff in Ho. }
  assert (HXout_sub : forall x, In x Xout -> In x X /\ outb s e x = true).
  { intros x Hx. now apply filter_In in Hx. }
  assert (HwXin : Forall ptr_wf Xin).
  { apply Forall_forall. intros x Hx. rewrite Forall_forall in HwX. apply HwX. now apply HXin_sub. }
  assert (HwXout : Forall ptr_wf Xout).
  { apply Forall_forall. intros x Hx. rewrite Forall_forall in HwX. apply HwX. now apply HXout_sub. }
  destruct (inserts_succeed Xin ps0 Hok0 HwXin) as [psA HiA].
  { apply Forall_forall. intros x Hx. apply HfX. now apply HXin_sub. }
  { intros x q Hx Hq. apply (apart_of_in ps2); auto.
    - apply HinX2. now apply HXin_sub.
    - intros ->. eapply HXne0; [apply HXin_sub; eassumption|eassumption|reflexivity]. }
  { apply (pairs_apart ps2); [assumption|now apply NoDup_filter|]. intros x Hx. apply HinX2. now apply HXin_sub. }
  destruct (inserts_perm _ _ _ Hok0 HwXin HiA) as (HokA & PA).
  assert (HinA : forall x, In x psA -> In x Xin \/ In x ps0).
  { intros x Hx. apply (Permutation_in _ PA) in Hx. now apply in_app_or in Hx. }
  assert (HinA2 : forall x, In x psA -> In x ps2).
  { intros x Hx. destruct (HinA x Hx) as [H|H]; [apply HinX2; now apply HXin_sub|now apply Hin02]. }
  assert (Hin0A : forall x, In x ps0 -> In x psA).
  { intros x Hx. apply (Permutation_in _ (Permutation_sym PA)). apply in_or_app. now right. }
  assert (HinXinA : forall x, In x Xin -> In x psA).
  { intros x Hx. apply (Permutation_in _ (Permutation_sym PA)). apply in_or_app. now left. }
  (* 2. the delete finds the same start and end domain on psA *)
  destruct (delete_start_transfer ps0 psA a sd s so a' Hok0 HokA Ha Hds (Hin0A _ Hs0)) as [sdA HdsA].
  { intros x Hx. destruct (HinA x Hx) as [H|H]; [right|now left].
    destruct (HXin_sub x H) as [HxX Ho]. unfold outb in Ho. apply orb_false_iff in Ho. destruct Ho as [Ho _].
    apply Z.ltb_ge in Ho. destruct (Z.eq_dec (p_start x) (p_start s)) as [Heq|]; [|lia]. exfalso.
    apply (HXne0 x s HxX Hs0). apply (in_start_inj ps2); auto. }
  assert (HeA : In e psA).
  { apply (Permutation_in _ P1) in He1. apply in_app_or in He1. destruct He1 as [H|H]; [|now apply Hin0A].
    apply HinXinA. apply filter_In. split; [unfold X; apply in_or_app; now left|].
    apply negb_true_iff. unfold outb. apply orb_false_iff. split; apply Z.ltb_ge; lia. }
  destruct (delete_end_transfer ps1 psA b ed e eo b' Hok1 HokA Hb Hde HeA) as [edA HdeA].
  { intros x Hx. destruct (HinA x Hx) as [H|H]; [|left; now apply Hin01].
    destruct (HXin_sub x H) as [HxX Ho]. unfold X in HxX. apply in_app_or in HxX. destruct HxX as [Hx1|Hx2].
    - left. apply (Permutation_in _ (Permutation_sym P1)). apply in_or_app. now left.
    - right. unfold outb in Ho. apply orb_false_iff in Ho. destruct Ho as [_ Ho]. apply Z.ltb_ge in Ho.
      destruct (Z.eq_dec (p_start x) (p_start e)) as [Heq|]; [|lia]. exfalso.
      assert (x = e) by (apply (in_start_inj ps2); auto; apply HinX2; unfold X; apply in_or_app; now right).
      subst x. exact (NoDup_app_disjoint X2 ps1 e Hnd21 Hx2 He1). }
  pose proof (delete_start_getp _ _ _ _ _ _ _ HdsA) as HgsA.
  pose proof (delete_end_getp _ _ _ _ _ _ _ HdeA) as HgeA.
  (* 3. validateDelete gives the same verdict *)
  assert (Hnlt2 : (ed' <? sd') = false).
  { apply Z.ltb_ge. destruct (Z_le_gt_dec sd' ed'); [assumption|].
    pose proof (proj1 (pos_lt_start ps2 ed' sd' e s Hok2 Hge2 Hgs2) ltac:(lia)). lia. }
  assert (HnltA : (edA <? sdA) = false).
  { apply Z.ltb_ge. destruct (Z_le_gt_dec sdA edA); [assumption|].
    pose proof (proj1 (pos_lt_start psA edA sdA e s HokA HgeA HgsA) ltac:(lia)). lia. }
  apply Z.ltb_ge in Hnlt2 as Hle2. apply Z.ltb_ge in HnltA as HleA.
  assert (Hval : validate_delete ps2 sd' ed' so eo = validate_delete psA sdA edA so eo).
  { apply (validate_rel ps2 psA sd' ed' sdA edA so eo s e); try assumption.
    - now rewrite Hnlt2, HnltA.
    - destruct (Z.eqb_spec sd' (ed' + 1)), (Z.eqb_spec sdA (edA + 1)); try reflexivity; lia.
    - destruct (Z.eqb_spec sd' ed') as [E2|N2], (Z.eqb_spec sdA edA) as [EA|NA]; try reflexivity; exfalso.
      + rewrite E2, Hge2 in Hgs2. assert (Hes : e = s) by congruence. apply NA.
        apply (idx_ok_start_inj psA sdA edA s e HokA HgsA HgeA). now rewrite Hes.
      + rewrite EA, HgeA in HgsA. assert (Hes : e = s) by congruence. apply N2.
        apply (idx_ok_start_inj ps2 sd' ed' s e Hok2 Hgs2 Hge2). now rewrite Hes.
    - destruct (Z.eqb_spec sd' (ed' - 1)) as [E2|N2], (Z.eqb_spec sdA (edA - 1)) as [EA|NA]; try reflexivity; exfalso.
      + (* adjacent in ps2, hence in psA *)
        assert (Hadj : ed' = sd' + 1) by lia.
        apply (adjacent_iff ps2 sd' ed' s e Hok2 Hgs2 Hge2) in Hadj. destruct Hadj as [Hlt Hno].
        apply NA. assert (edA = sdA + 1); [|lia].
        apply (adjacent_iff psA sdA edA s e HokA HgsA HgeA). split; [assumption|].
        intros z Hz. apply Hno. now apply HinA2.
      + assert (Hadj : edA = sdA + 1) by lia.
        apply (adjacent_iff psA sdA edA s e HokA HgsA HgeA) in Hadj. destruct Hadj as [Hlt Hno].
        apply N2. assert (ed' = sd' + 1); [|lia].
        apply (adjacent_iff ps2 sd' ed' s e Hok2 Hgs2 Hge2). split; [assumption|].
        intros z Hz Hbt. apply (Hno z); [|assumption].
        apply (Permutation_in _ PX) in Hz. apply in_app_or in Hz. destruct Hz as [Hz|Hz]; [|now apply Hin0A].
        apply HinXinA. apply filter_In. split; [assumption|]. apply negb_true_iff. unfold outb.
        apply orb_false_iff. split; apply Z.ltb_ge; lia. }
  (* 4. the serial delete on psA *)
  assert (HdelA : delete lin_resolver lin_resolver psA a b = delete_apply psA sdA s so a' edA e eo b').
  { unfold delete. rewrite HdsA, HdeA. reflexivity. }
  exists psA. unfold delete_apply in Hfin. unfold delete_apply in HdelA. rewrite <- Hval in HdelA.
  destruct (validate_delete ps2 sd' ed' so eo) as [[[ok ie] so'] eo'] eqn:Ev.
  assert (HXout_apart_A : forall x q, In x Xout -> In q psA -> apart q x).
  { intros x q Hx Hq. apply (apart_of_in ps2); auto.
    - apply HinX2. now apply HXout_sub.
    - intros ->. destruct (HXout_sub x Hx) as [HxX Ho]. destruct (HinA x Hq) as [H|H].
      + destruct (HXin_sub x H) as [_ Ho']. congruence.
      + eapply HXne0; [exact HxX|exact H|reflexivity]. }
  assert (HXout_pairs : ForallOrdPairs apart Xout).
  { apply (pairs_apart ps2); [assumption|now apply NoDup_filter|]. intros x Hx. apply HinX2. now apply HXout_sub. }
  assert (HfXout : Forall (fun x => (p_file x <> 0)%N) Xout).
  { apply Forall_forall. intros x Hx. apply HfX. now apply HXout_sub. }
  assert (Hsplit : Permutation (Xout ++ Xin) X) by apply filter_split_perm.
  destruct ok; cbn [negb] in Hfin, HdelA.
  - (* the splice happens *)
    inversion Hfin as [Hf]; clear Hfin.
    set (Ns := if so' =? 0 then [] else [mkPtr (mkTR (p_start s) a') (p_file s) (p_off s) (u32z so')]) in *.
    set (Ne := if eo' =? 0 then []
               else [mkPtr (mkTR b' (p_end e)) (p_file e) (u32_sub (u32 (p_off e + p_size e)) (u32z eo')) (u32z eo')]) in *.
    set (keptA := firstn (Z.to_nat sdA) psA ++ skipn (Z.to_nat (edA + 1)) psA) in *.
    set (kept2 := firstn (Z.to_nat sd') ps2 ++ skipn (Z.to_nat (ed' + 1)) ps2) in *.
    set (psD := firstn (Z.to_nat sdA) keptA ++ Ns ++ Ne ++ skipn (Z.to_nat sdA) keptA) in *.
    exists psD. split; [exact HiA|]. split; [exact HdelA|].
    destruct (validate_delete_true _ _ _ _ _ _ _ _ _ _ Hgs2 Hge2 Ev) as (Hso' & Heo' & _ & _).
    (* psD and final are well-formed indexes *)
    assert (HpfA : Forall (ptr_in_files fs) psA).
    { apply Forall_forall. intros x Hx. apply Hpf. now apply HinA2. }
    assert (Hso_pos' : 0 < so -> p_start s < a' /\ a' <= p_end s /\ so = a' - p_start s).
    { intros H. destruct (Hso_pos H) as (? & ? & ? & _). auto. }
    assert (Heo_pos' : 0 < eo -> p_start e <= b' /\ b' < p_end e /\ eo = Z.of_N (p_size e) - (b' - p_start e)).
    { intros H. destruct (Heo_pos H) as (? & ? & ? & _). auto. }
    pose proof (delete_apply_inv fs psA sdA s so a' edA e eo b' HokA HpfA Hsm HgsA Ha' Hso_pos' HgeA Hb' Heo_pos') as [HokD _].
    unfold delete_apply in HokD. rewrite <- Hval in HokD. cbn [negb fst] in HokD. fold Ns Ne keptA psD in HokD.
    assert (Hpf2 : Forall (ptr_in_files fs) ps2) by (now apply Forall_forall).
    pose proof (delete_apply_inv fs ps2 sd' s so a' ed' e eo b' Hok2 Hpf2 Hsm Hgs2 Ha' Hso_pos' Hge2 Hb' Heo_pos') as [HokF _].
    unfold delete_apply in HokF. rewrite Ev in HokF. cbn [negb fst] in HokF. fold Ns Ne kept2 in HokF. rewrite Hf in HokF.
    (* elements *)
    assert (HkA : keptA = filter (outb s e) psA) by (apply kept_filter; try assumption; lia).
    assert (Hk2 : kept2 = filter (outb s e) ps2) by (apply kept_filter; try assumption; lia).
    assert (PD : Permutation psD (Ns ++ Ne ++ keptA)).
    { unfold psD. transitivity ((Ns ++ Ne) ++ firstn (Z.to_nat sdA) keptA ++ skipn (Z.to_nat sdA) keptA).
      - rewrite (app_assoc Ns Ne). apply perm_mid.
      - rewrite firstn_skipn, <- app_assoc. reflexivity. }
    assert (PF : Permutation final (Ns ++ Ne ++ kept2)).
    { rewrite <- Hf. transitivity ((Ns ++ Ne) ++ firstn (Z.to_nat sd') kept2 ++ skipn (Z.to_nat sd') kept2).
      - rewrite (app_assoc Ns Ne). apply perm_mid.
      - rewrite firstn_skipn, <- app_assoc. reflexivity. }
    (* 5. the remaining inserts succeed on psD *)
    assert (Hsnz : so' <> 0 -> 0 < so) by (unfold clampz in Hso'; lia).
    assert (Henz : eo' <> 0 -> 0 < eo) by (unfold clampz in Heo'; lia).
    destruct (inserts_succeed Xout psD HokD HwXout HfXout) as [final' HiD]; [|exact HXout_pairs|].
    { intros x q Hx Hq. apply (Permutation_in _ PD) in Hq.
      destruct (HXout_sub x Hx) as [HxX Hox].
      assert (Hxs : apart s x).
      { apply (apart_of_in ps2); auto. intros <-. eapply HXne0; [exact HxX|exact Hs0|reflexivity]. }
      assert (Hxe : apart e x).
      { apply (apart_of_in ps2); auto. intros <-. unfold outb in Hox. apply orb_true_iff in Hox.
        destruct Hox as [H|H]; apply Z.ltb_lt in H; lia. }
      apply in_app_or in Hq. destruct Hq as [Hq|Hq].
      - unfold Ns in Hq. destruct (Z.eqb_spec so' 0) as [|Hnz]; [destruct Hq|]. destruct Hq as [<-|[]].
        destruct (Hso_pos (Hsnz Hnz)) as (? & ? & _). apply in_new_s_apart; try assumption; lia.
      - apply in_app_or in Hq. destruct Hq as [Hq|Hq].
        + unfold Ne in Hq. destruct (Z.eqb_spec eo' 0) as [|Hnz]; [destruct Hq|]. destruct Hq as [<-|[]].
          destruct (Heo_pos (Henz Hnz)) as (? & ? & _). apply in_new_e_apart; try assumption; lia.
        + rewrite HkA in Hq. apply filter_In in Hq. destruct Hq as [Hq _]. now apply HXout_apart_A. }
    destruct (inserts_perm _ _ _ HokD HwXout HiD) as (HokF' & PF').
    assert (final' = final); [|subst final'; rewrite ?Hf; exact HiD].
    destruct HokF' as [SF' WF']. destruct HokF as [SF _].
    apply sorted_perm_eq; try assumption.
    eapply perm_trans; [exact PF'|]. eapply perm_trans; [apply Permutation_app_head; exact PD|].
    apply Permutation_sym. eapply perm_trans; [exact PF|].
    (* Ns ++ Ne ++ kept2  ~  Xout ++ Ns ++ Ne ++ keptA *)
    rewrite HkA, Hk2.
    assert (Pk2 : Permutation (filter (outb s e) ps2) (Xout ++ filter (outb s e) ps0)).
    { eapply perm_trans; [apply filter_perm; exact PX|]. rewrite filter_app. reflexivity. }
    assert (PkA : Permutation (filter (outb s e) psA) (filter (outb s e) ps0)).
    { eapply perm_trans; [apply filter_perm; exact PA|]. rewrite filter_app. unfold Xin.
      rewrite filter_filter_none. reflexivity. }
    transitivity (Ns ++ Ne ++ Xout ++ filter (outb s e) ps0).
    { apply Permutation_app_head, Permutation_app_head. exact Pk2. }
    transitivity (Xout ++ Ns ++ Ne ++ filter (outb s e) ps0).
    { rewrite (app_assoc Ns Ne), (app_assoc Ns Ne). apply perm_mid. }
    apply Permutation_app_head, Permutation_app_head, Permutation_app_head. apply Permutation_sym. exact PkA.
  - (* validateDelete says there is nothing to remove *)
    destruct ie; [discriminate|]. inversion Hfin as [Hf]; subst final; clear Hfin.
    exists psA. split; [exact HiA|]. split; [exact HdelA|].
    destruct (inserts_succeed Xout psA HokA HwXout HfXout HXout_apart_A HXout_pairs) as [final' HiD].
    destruct (inserts_perm _ _ _ HokA HwXout HiD) as (HokF' & PF').
    assert (final' = ps2); [|subst final'; exact HiD].
    destruct HokF' as [SF' WF']. destruct Hok2 as [S2 _].
    apply sorted_perm_eq; try assumption.
    eapply perm_trans; [exact PF'|]. eapply perm_trans; [apply Permutation_app_head; exact PA|].
    apply Permutation_sym. eapply perm_trans; [exact PX|]. rewrite app_assoc. apply Permutation_app_tail.
    apply Permutation_sym. exact Hsplit.
Qed.

(* The remaining case: the captured end domain lies before the captured start domain — the range is contained in a
   gap between two domains.  A delete that reports success then changes nothing, whatever was committed meanwhile
   (so it can be placed anywhere in the serial order). *)
Theorem delete_in_gap_noop ps2 sd s so a' ed e eo b' final :
  idx_ok ps2 -> In s ps2 -> In e ps2 -> p_start e < p_start s ->
  delete_apply ps2 (repechage_start ps2 sd s) s so a' (repechage_end ps2 ed e) e eo b' = (final, ROk) ->
  final = ps2.
Proof.
  intros Hok Hs He Hlt Hfin.
  pose proof (repechage_start_finds ps2 sd s Hok Hs) as Hgs. pose proof (repechage_end_finds ps2 ed e Hok He) as Hge.
  set (sd' := repechage_start ps2 sd s) in *. set (ed' := repechage_end ps2 ed e) in *.
  assert (Hpos : ed' < sd') by (apply (pos_lt_start ps2 ed' sd' e s); assumption).
  unfold delete_apply in Hfin.
  destruct (validate_delete ps2 sd' ed' so eo) as [[[ok ie] so'] eo'] eqn:Ev.
  destruct ok; cbn [negb] in Hfin; [|now inversion Hfin].
  destruct (validate_delete_true _ _ _ _ _ _ _ _ _ _ Hgs Hge Ev) as (_ & _ & [Hle|(Hadj & Hs0 & He0)] & _); [lia|].
  subst so' eo'. cbn in Hfin. inversion Hfin as [Hf]. clear Hfin.
  replace (Z.to_nat (ed' + 1)) with (Z.to_nat sd') by lia.
  rewrite firstn_skipn. now rewrite firstn_skipn.
Qed.
