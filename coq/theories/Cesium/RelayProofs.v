(* Cesium/RelayProofs.v — lemmas about the executable checker of Cesium/Relay.v:
   boolean equalities, the hidden-step measure, the breadth-first hidden closure, and the
   two directions of trace inclusion (every run of the LTS is accepted; every accepted
   observation is produced by a run). *)
From stdpp Require Import base list numbers.
From Coq Require Import NArith Bool List Lia.
Import ListNotations.
From Synnax Require Import Cesium.Relay.
Local Open Scope N_scope.

(* ------------------------------------------------------------------ boolean equality *)
Lemma land_true (a b : bool) : (a &&& b) = true <-> a = true /\ b = true.
Proof. destruct a, b; simpl; intuition congruence. Qed.

Lemma list_eqb_spec {A} (e : A -> A -> bool) :
  (forall x y, e x y = true <-> x = y) -> forall a b, list_eqb e a b = true <-> a = b.
Proof.
  intros He a. induction a as [|x a IH]; intros [|y b]; simpl; try (split; congruence).
  rewrite land_true, He, IH. split; [intros [-> ->]; reflexivity|intros [= -> ->]; auto].
Qed.

Lemma keys_eqb_spec a b : keys_eqb a b = true <-> a = b.
Proof. apply list_eqb_spec. intros. apply N.eqb_eq. Qed.

Lemma beqb_spec (a b : bool) : Bool.eqb a b = true <-> a = b.
Proof. destruct a, b; simpl; intuition congruence. Qed.

Lemma wmode_eqb_spec a b : wmode_eqb a b = true <-> a = b.
Proof. destruct a, b; simpl; intuition congruence. Qed.

Lemma ckind_eqb_spec a b : ckind_eqb a b = true <-> a = b.
Proof.
  destruct a, b; simpl; try (intuition congruence).
  rewrite N.eqb_eq. split; [intros ->; reflexivity|intros [= ->]; reflexivity].
Qed.

Lemma frame_eqb_spec a b : frame_eqb a b = true <-> a = b.
Proof.
  destruct a, b; unfold frame_eqb; simpl.
  rewrite !land_true, !N.eqb_eq, !keys_eqb_spec.
  split; [intros ((((-> & ->) & ->) & ->) & ->); reflexivity|intros [= -> -> -> -> ->]; auto].
Qed.

Lemma item_eqb_spec a b : item_eqb a b = true <-> a = b.
Proof.
  destruct a, b; unfold item_eqb; simpl.
  rewrite !land_true, !N.eqb_eq, !keys_eqb_spec.
  split; [intros ((-> & ->) & ->); reflexivity|intros [= -> -> ->]; auto].
Qed.

Lemma streamer_eqb_spec a b : streamer_eqb a b = true <-> a = b.
Proof.
  destruct a, b; unfold streamer_eqb; simpl.
  rewrite !land_true, !beqb_spec, !keys_eqb_spec.
  rewrite (list_eqb_spec keys_eqb keys_eqb_spec), (list_eqb_spec item_eqb item_eqb_spec).
  rewrite Nat.eqb_eq.
  split.
  - intros (((((((-> & _) & ->) & ->) & ->) & ->) & ->) & ->). reflexivity.
  - intros [= -> -> -> -> -> -> ->]. auto 10.
Qed.

Lemma pairN_eqb_spec {A} (e : A -> A -> bool) :
  (forall x y, e x y = true <-> x = y) ->
  forall (x y : N * A), ((x.1 =? y.1) &&& e x.2 y.2) = true <-> x = y.
Proof.
  intros He [a x] [b y]. simpl. rewrite land_true, N.eqb_eq, He.
  split; [intros [-> ->]; reflexivity|intros [= -> ->]; auto].
Qed.

Lemma writer_eqb_spec a b : writer_eqb a b = true <-> a = b.
Proof.
  destruct a, b; unfold writer_eqb; simpl.
  rewrite !land_true, !beqb_spec, wmode_eqb_spec, !N.eqb_eq.
  rewrite (list_eqb_spec _ (pairN_eqb_spec N.eqb N.eqb_eq)).
  split; [intros ((((-> & ->) & ->) & ->) & ->); reflexivity|intros [= -> -> -> -> ->]; auto].
Qed.

Lemma state_eqb_spec a b : state_eqb a b = true <-> a = b.
Proof.
  destruct a, b; unfold state_eqb; simpl.
  rewrite !land_true, !beqb_spec, !N.eqb_eq, !Nat.eqb_eq.
  rewrite (list_eqb_spec _ (pairN_eqb_spec _ streamer_eqb_spec)).
  rewrite !(list_eqb_spec _ frame_eqb_spec).
  rewrite (list_eqb_spec _ (pairN_eqb_spec _ writer_eqb_spec)).
  rewrite (list_eqb_spec _ (pairN_eqb_spec _ (list_eqb_spec keys_eqb keys_eqb_spec))).
  rewrite (list_eqb_spec _ (pairN_eqb_spec _ ckind_eqb_spec)).
  split.
  - intros (((((((((((_ & ->) & ->) & ->) & ->) & ->) & ->) & ->) & ->) & ->) & ->) & ->). reflexivity.
  - intros [= -> -> -> -> -> -> -> -> -> -> ->]. auto 16.
Qed.

Lemma inb_spec st sts : inb st sts = true <-> In st sts.
Proof.
  induction sts as [|x r IH]; simpl; [split; [congruence|tauto]|].
  destruct (state_eqb st x) eqn:E.
  - apply state_eqb_spec in E. subst. tauto.
  - rewrite IH. split; [tauto|]. intros [->|H]; [|exact H].
    assert (state_eqb st st = true) by (apply state_eqb_spec; reflexivity). congruence.
Qed.

Lemma dedup_spec x sts : In x (dedup sts) <-> In x sts.
Proof.
  induction sts as [|y r IH]; simpl; [tauto|].
  destruct (inb y r) eqn:E.
  - rewrite IH. apply inb_spec in E. split; [tauto|]. intros [->|H]; auto.
  - simpl. rewrite IH. tauto.
Qed.

(* ------------------------------------------------------------------ hidden-step measure *)
Definition smeas1 (x : streamer) : nat := (length (s_pend x) + (if s_conn x then 1 else 0))%nat.
Definition smeas (ss : list (N * streamer)) : nat := list_sum (map (fun ss => smeas1 ss.2) ss).

Definition bgmeas (bg : list (N * list (list N))) : nat := list_sum (map (fun e => length e.2) bg).

Lemma measure_eq st : measure st = (length (st_fifo st) + 2 * bgmeas (st_bg st) + smeas (st_strs st))%nat.
Proof. reflexivity. Qed.

(* what one Write can do to the state *)
Inductive dw_result (st : state) (w : N) (wr : writer) (ks : list N) : state -> Prop :=
| dw_die : dw_result st w wr ks (close_writer st w)
| dw_nopush :
    dw_result st w wr ks
      (set_writers st (aupdate w (fun x => Writer (w_open x) (w_mode x) (w_chans x) (w_pos x) (w_seq wr + 1))
                               (st_writers st)))
| dw_push :
    streams (w_mode wr) = true -> (length (st_fifo st) <= st_cap st)%nat ->
    let f := Frame w (w_seq wr + 1) (relayed_keys st w wr ks) ks (unauth_keys st w wr ks) in
    dw_result st w wr ks
      (State (st_unowned st) (st_deadinlet st) (st_chans st) (st_cap st)
             (aupdate w (fun x => Writer (w_open x) (w_mode x) (w_chans x) (w_pos x) (w_seq wr + 1)) (st_writers st))
             (st_bg st) (st_npos st) (st_fifo st ++ [f]) (st_strs st) (st_closed st) (st_hist st ++ [f])).

Lemma do_write_cases st w wr ks bad st' : In st' (do_write st w wr ks bad) -> dw_result st w wr ks st'.
Proof.
  unfold do_write.
  destruct (bad_hits st wr ks bad || negb (valid_frame st wr ks)); [intros [<-|[]]; constructor|].
  destruct (streams (w_mode wr) && negb (st_closed st && negb (st_deadinlet st))) eqn:Es;
    [|intros [<-|[]]; constructor].
  match goal with |- In _ (if ?c then _ else _) -> _ => destruct c eqn:Eg end; [|intros []].
  intros [<-|[]]. apply andb_true_iff in Es. destruct Es as [Es _]. simpl.
  apply dw_push; [exact Es|].
  destruct (st_closed st); [apply Nat.ltb_lt in Eg; lia|apply Nat.leb_le in Eg; exact Eg].
Qed.

Lemma dw_result_strs st w wr ks st' : dw_result st w wr ks st' -> st_strs st' = st_strs st /\ st_bg st' = st_bg st.
Proof. destruct 1; simpl; auto. Qed.

Lemma dw_result_fifo st w wr ks st' :
  dw_result st w wr ks st' -> (length (st_fifo st') <= S (length (st_fifo st)))%nat.
Proof. destruct 1; simpl; try lia. rewrite app_length. simpl. lia. Qed.

Lemma aupdate_bgmeas w bg ks rest :
  alookup w bg = Some (ks :: rest) ->
  (bgmeas (aupdate w (fun _ => rest) bg) + 1 = bgmeas bg)%nat.
Proof.
  induction bg as [|[k y] r IH]; simpl; [congruence|].
  destruct (w =? k) eqn:E.
  - intros [= ->]. unfold bgmeas. simpl. lia.
  - intros H. specialize (IH H). unfold bgmeas in *. simpl. lia.
Qed.

Lemma deliver_all_smeas f ss ss' : In ss' (deliver_all f ss) -> smeas ss' = smeas ss.
Proof.
  revert ss'. induction ss as [|[k s] r IH]; simpl; intros ss' H.
  - destruct H as [<-|[]]. reflexivity.
  - destruct (s_conn s) eqn:Ec.
    + apply in_app_or in H. destruct H as [H|H].
      * apply in_map_iff in H. destruct H as (t & <- & Ht). unfold smeas in *. simpl.
        rewrite (IH _ Ht). unfold smeas1, hand. simpl. rewrite Ec. reflexivity.
      * destruct (s_ready s); [destruct H|].
        apply in_map_iff in H. destruct H as (t & <- & Ht). unfold smeas in *. simpl.
        rewrite (IH _ Ht). reflexivity.
    + apply in_map_iff in H. destruct H as (t & <- & Ht). unfold smeas in *. simpl.
      rewrite (IH _ Ht). reflexivity.
Qed.

Lemma aupdate_smeas s g ss x :
  alookup s ss = Some x -> (smeas (aupdate s g ss) + smeas1 x = smeas ss + smeas1 (g x))%nat.
Proof.
  induction ss as [|[k y] r IH]; simpl; [congruence|].
  destruct (s =? k) eqn:E.
  - intros [= ->]. unfold smeas. simpl. lia.
  - intros H. specialize (IH H). unfold smeas in *. simpl. lia.
Qed.

Lemma hsucc_measure st st' : In st' (hsucc st) -> (measure st' < measure st)%nat.
Proof.
  unfold hsucc. intros H. apply in_app_or in H. destruct H as [H|H]; [|apply in_app_or in H; destruct H as [H|H];
    [|apply in_app_or in H; destruct H as [H|H]]].
  - unfold deliver_succs in H. destruct (st_closed st); [destruct H|].
    destruct (st_fifo st) as [|f q] eqn:Ef; [destruct H|].
    apply in_map_iff in H. destruct H as (ss & <- & Hss).
    rewrite !measure_eq. simpl. rewrite Ef. simpl. rewrite (deliver_all_smeas _ _ _ Hss). lia.
  - unfold apply_succs in H. apply in_flat_map in H. destruct H as ([s x0] & _ & H). simpl in H.
    destruct (alookup s (st_strs st)) as [x|] eqn:El; [|destruct H].
    destruct (can_apply st x) eqn:Ea; [|destruct H]. destruct H as [<-|[]].
    rewrite !measure_eq. simpl. pose proof (aupdate_smeas s apply_req _ _ El) as Hm.
    assert (Hx : (smeas1 (apply_req x) + 1 = smeas1 x)%nat).
    { unfold can_apply in Ea. unfold smeas1, apply_req.
      destruct (s_pend x) as [|ks r]; simpl in *; [rewrite !andb_false_r in Ea; discriminate|lia]. }
    lia.
  - unfold disc_succs in H. apply in_flat_map in H. destruct H as ([s x0] & _ & H). simpl in H.
    destruct (alookup s (st_strs st)) as [x|] eqn:El; [|destruct H].
    destruct (can_disc st x) eqn:Ea; [|destruct H]. destruct H as [<-|[]].
    rewrite !measure_eq. simpl. pose proof (aupdate_smeas s disconnect _ _ El) as Hm.
    assert (Hx : (smeas1 (disconnect x) + 1 = smeas1 x)%nat).
    { unfold can_disc in Ea. unfold smeas1, disconnect. simpl.
      destruct (s_conn x); simpl in *; [lia|rewrite andb_false_r in Ea; discriminate]. }
    lia.
  - unfold bg_succs in H. apply in_flat_map in H. destruct H as ([w kss0] & _ & H). simpl in H.
    destruct (alookup w (st_bg st)) as [[|ks rest]|] eqn:El; try destruct H.
    pose proof (aupdate_bgmeas _ _ _ _ El) as Hb.
    destruct (open_writer_of st w) as [wr|].
    + apply do_write_cases in H. pose proof (dw_result_strs _ _ _ _ _ H) as [Hs Hg].
      pose proof (dw_result_fifo _ _ _ _ _ H) as Hf. rewrite !measure_eq, Hs, Hg. simpl in *. lia.
    + destruct H as [<-|[]]. rewrite !measure_eq. simpl. lia.
Qed.

Lemma measure_zero_no_succ st : measure st = O -> hsucc st = [].
Proof.
  intros H. destruct (hsucc st) as [|y r] eqn:E; [reflexivity|].
  assert (In y (hsucc st)) by (rewrite E; left; reflexivity).
  apply hsucc_measure in H0. lia.
Qed.

(* ------------------------------------------------------------------ erasure of the ghost history *)
Lemma erase_idem st : erase (erase st) = erase st.
Proof.
  destruct st as [u d ch cap ws bg np fifo strs cl hist]. unfold erase; simpl.
  destruct (cl && negb d); reflexivity.
Qed.

Lemma erase_State u d ch cap ws bg np fifo strs cl hist :
  erase (State u d ch cap ws bg np fifo strs cl hist) =
  State u d ch cap ws bg np (if cl && negb d then [] else fifo) strs cl [].
Proof. reflexivity. Qed.

Lemma do_write_erase st w wr ks bad :
  map erase (do_write (erase st) w wr ks bad) = map erase (do_write st w wr ks bad).
Proof.
  destruct st as [u d ch cap ws bg np fifo strs cl hist]. rewrite erase_State.
  unfold do_write, bad_hits, valid_frame, group_of, kind_of; simpl st_chans; simpl st_closed;
    simpl st_deadinlet; simpl st_fifo; simpl st_cap.
  destruct (streams (w_mode wr)), cl, d; simpl andb; simpl negb; cbv iota;
    repeat match goal with
           | |- context [if ?c then _ else _] =>
               lazymatch c with context [st_closed] => fail | _ => destruct c end
           end; reflexivity.
Qed.

Lemma map_flat_map {A B C} (g : B -> C) (f : A -> list B) l :
  map g (flat_map f l) = flat_map (fun x => map g (f x)) l.
Proof. induction l as [|x r IH]; simpl; [reflexivity|]. rewrite map_app, IH. reflexivity. Qed.

Ltac case_all :=
  repeat match goal with
         | |- context [match ?c with _ => _ end] =>
             lazymatch c with
             | context [st_closed] => fail
             | context [st_deadinlet] => fail
             | _ => destruct c
             end
         end.

Lemma vstep_erase st o : vstep_e (erase st) o = vstep_e st o.
Proof.
  unfold vstep_e.
  destruct st as [u d ch cap ws bg np fifo strs cl hist]. rewrite erase_State.
  destruct o; unfold vstep, driver_blocked; simpl st_closed; simpl st_strs;
    try (destruct (negb cl && existsb (fun ss : N * streamer => s_closing ss.2 && s_conn ss.2) strs); [reflexivity|]).
  - unfold open_writer_ok, kind_of; simpl.
    destruct cl, d; simpl; case_all; reflexivity.
  - unfold bg_active; simpl. destruct cl, d; simpl; case_all; reflexivity.
  - unfold bg_active; simpl. destruct cl, d; simpl; case_all; reflexivity.
  - unfold open_writer_of, bg_active; simpl st_writers; simpl st_bg.
    destruct (alookup w ws) as [wr|]; [|destruct cl, d; reflexivity].
    destruct (w_open wr); [|destruct cl, d; reflexivity].
    destruct (alookup w bg); [destruct cl, d; reflexivity|].
    exact (do_write_erase (State u d ch cap ws bg np fifo strs cl hist) w wr keys bad).
  - destruct cl, d; simpl; try reflexivity; destruct (alookup s strs); reflexivity.
  - destruct cl, d; reflexivity.
  - destruct cl, d; reflexivity.
  - destruct cl, d; reflexivity.
  - destruct cl, d; reflexivity.
  - destruct cl, d; simpl; try reflexivity; unfold sync_ready; simpl; case_all; reflexivity.
  - destruct cl, d; simpl; try reflexivity.
    + rewrite !map_app. f_equal.
      * destruct (length fifo <=? cap)%nat; reflexivity.
      * destruct fifo as [|f q]; [reflexivity|]. rewrite !map_map. apply map_ext. intros; reflexivity.
    + rewrite !map_app. f_equal.
      * destruct (length fifo <=? cap)%nat; reflexivity.
      * destruct fifo as [|f q]; [reflexivity|]. rewrite !map_map. apply map_ext. intros; reflexivity.
  - unfold open_writer_of, bg_active; simpl st_writers; simpl st_bg.
    destruct cl, d; simpl; case_all; reflexivity.
  - simpl st_bg. destruct cl, d; simpl; case_all; reflexivity.
Qed.

Lemma hsucc_erase st : hsucc_e (erase st) = hsucc_e st.
Proof.
  unfold hsucc_e, hsucc. rewrite !map_app.
  destruct st as [u d ch cap ws bg np fifo strs cl hist]. rewrite erase_State.
  f_equal; [|f_equal; [|f_equal]].
  - unfold deliver_succs; simpl st_closed; simpl st_fifo; simpl st_strs.
    destruct cl; [destruct d; reflexivity|]. simpl.
    destruct fifo as [|f q]; [reflexivity|].
    rewrite !map_map. apply map_ext. intros; reflexivity.
  - unfold apply_succs; simpl st_strs. rewrite !map_flat_map. apply flat_map_ext. intros [s x0]. simpl fst.
    destruct (alookup s strs) as [x|]; [|reflexivity]. unfold can_apply; simpl st_closed.
    destruct cl, d; simpl; try reflexivity; case_all; reflexivity.
  - unfold disc_succs; simpl st_strs. rewrite !map_flat_map. apply flat_map_ext. intros [s x0]. simpl fst.
    destruct (alookup s strs) as [x|]; [|reflexivity]. unfold can_disc; simpl st_closed.
    destruct cl, d; simpl; try reflexivity; case_all; reflexivity.
  - unfold bg_succs; simpl st_bg. rewrite !map_flat_map. apply flat_map_ext. intros [w kss0]. simpl fst.
    destruct (alookup w bg) as [[|ks rest]|]; try reflexivity.
    unfold open_writer_of; simpl st_writers. destruct (alookup w ws) as [wr|]; [|destruct cl, d; reflexivity].
    destruct (w_open wr); [|destruct cl, d; reflexivity].
    exact (do_write_erase (State u d ch cap ws (aupdate w (fun _ => rest) bg) np fifo strs cl hist) w wr ks false).
Qed.

Lemma erase_measure st : (measure (erase st) <= measure st)%nat.
Proof.
  destruct st as [u d ch cap ws bg np fifo strs cl hist]. unfold erase, measure; simpl.
  destruct (cl && negb d); simpl; lia.
Qed.
Lemma erase_compat obs st : compat obs (erase st) = compat obs st.
Proof. reflexivity. Qed.
Lemma erase_observe st : observe (erase st) = observe st.
Proof. reflexivity. Qed.
Lemma erase_blocked st : driver_blocked (erase st) = driver_blocked st.
Proof. reflexivity. Qed.

Lemma hsucc_e_measure st st' : In st' (hsucc_e st) -> (measure st' < measure st)%nat.
Proof.
  unfold hsucc_e. intros H. apply in_map_iff in H. destruct H as (y & <- & Hy).
  pose proof (erase_measure y). apply hsucc_measure in Hy. lia.
Qed.

Lemma measure_zero_no_succ_e st : measure st = O -> hsucc_e st = [].
Proof. intros H. unfold hsucc_e. rewrite (measure_zero_no_succ _ H). reflexivity. Qed.

(* ------------------------------------------------------------------ hidden closure *)
Definition hclosed (obs : observation) (sts : list state) : Prop :=
  forall x y, In x sts -> In y (hsucc_e x) -> compat obs y = true -> In y sts.

Inductive hstar : state -> state -> Prop :=
| hstar_refl x : hstar x x
| hstar_step x y z : In y (hsucc x) -> hstar y z -> hstar x z.

Inductive hstar_e : state -> state -> Prop :=
| hstar_e_refl x : hstar_e x x
| hstar_e_step x y z : In y (hsucc_e x) -> hstar_e y z -> hstar_e x z.

Lemma hstar_trans x y z : hstar x y -> hstar y z -> hstar x z.
Proof. induction 1; intros; eauto using hstar. Qed.

(* an erased hidden path lifts to a real one *)
Lemma hstar_e_lift x z : hstar_e x z -> forall r, erase r = x -> exists r', hstar r r' /\ erase r' = z.
Proof.
  induction 1; intros r Hr.
  - exists r. split; [constructor|exact Hr].
  - subst x. rewrite hsucc_erase in H. unfold hsucc_e in H. apply in_map_iff in H.
    destruct H as (r1 & E1 & H1). destruct (IHhstar_e r1 E1) as (r' & Hs & Er).
    exists r'. split; [eapply hstar_step; eauto|exact Er].
Qed.

Lemma max_measure_bound x l : In x l -> (measure x <= max_measure l)%nat.
Proof.
  induction l as [|y r IH]; simpl; [tauto|]. unfold max_measure. simpl.
  intros [->|H]; [lia|]. specialize (IH H). unfold max_measure in IH. lia.
Qed.

Lemma bfs_spec obs fuel : forall seen frontier,
  incl frontier seen ->
  (forall x, In x seen -> ~ In x frontier ->
             forall y, In y (hsucc_e x) -> compat obs y = true -> In y seen) ->
  (forall x, In x frontier -> (measure x <= fuel)%nat) ->
  incl seen (bfs fuel obs seen frontier) /\ hclosed obs (bfs fuel obs seen frontier).
Proof.
  induction fuel as [|n IH]; intros seen frontier Hinc Hinv Hm; simpl.
  - split; [apply incl_refl|]. intros x y Hx Hy Hc.
    destruct (inb x frontier) eqn:E.
    + apply inb_spec in E. apply Hm in E. assert (measure x = O) by lia.
      rewrite (measure_zero_no_succ_e _ H) in Hy. destruct Hy.
    + apply (Hinv x Hx); auto. intros Hf. apply inb_spec in Hf. congruence.
  - set (cand := filter (compat obs) (flat_map hsucc_e frontier)).
    set (new := dedup (filter (fun st => negb (inb st seen)) cand)).
    assert (Hnew : forall y, In y new <-> In y cand /\ ~ In y seen).
    { intros y. unfold new. rewrite dedup_spec, filter_In. rewrite negb_true_iff.
      split; intros [H1 H2]; split; auto.
      - intros H. apply inb_spec in H. congruence.
      - destruct (inb y seen) eqn:E; [|reflexivity]. apply inb_spec in E. tauto. }
    assert (Hcand : forall y, In y cand <-> (exists p, In p frontier /\ In y (hsucc_e p)) /\ compat obs y = true).
    { intros y. unfold cand. rewrite filter_In, in_flat_map. tauto. }
    destruct (IH (seen ++ new) new) as [I1 I2].
    + intros y Hy. apply in_or_app. right. exact Hy.
    + intros x Hx Hnx y Hy Hc. apply in_app_or in Hx. destruct Hx as [Hx|Hx]; [|tauto].
      destruct (inb x frontier) eqn:E.
      * apply inb_spec in E.
        destruct (inb y seen) eqn:E2.
        -- apply inb_spec in E2. apply in_or_app. left. exact E2.
        -- apply in_or_app. right. apply Hnew. split.
           ++ apply Hcand. split; [exists x; auto|exact Hc].
           ++ intros H. apply inb_spec in H. congruence.
      * apply in_or_app. left. apply (Hinv x Hx); auto.
        intros Hf. apply inb_spec in Hf. congruence.
    + intros x Hx. apply Hnew in Hx. destruct Hx as [Hx _]. apply Hcand in Hx.
      destruct Hx as [(p & Hp & Hxp) _]. apply hsucc_e_measure in Hxp. apply Hm in Hp. lia.
    + split; [|exact I2]. intros x Hx. apply I1. apply in_or_app. left. exact Hx.
Qed.

Lemma bfs_sound obs fuel : forall seen frontier x,
  incl frontier seen -> In x (bfs fuel obs seen frontier) ->
  exists x0, In x0 seen /\ hstar_e x0 x /\ (In x seen \/ compat obs x = true).
Proof.
  induction fuel as [|n IH]; intros seen frontier x Hinc Hx; simpl in Hx.
  - exists x. split; [exact Hx|]. split; [constructor|left; exact Hx].
  - set (cand := filter (compat obs) (flat_map hsucc_e frontier)) in *.
    set (new := dedup (filter (fun st => negb (inb st seen)) cand)) in *.
    assert (Hnew : forall y, In y new -> exists p, In p frontier /\ In y (hsucc_e p) /\ compat obs y = true).
    { intros y Hy. unfold new in Hy. rewrite dedup_spec, filter_In in Hy. destruct Hy as [Hy _].
      unfold cand in Hy. rewrite filter_In, in_flat_map in Hy. destruct Hy as [(p & Hp & Hyp) Hc].
      exists p. auto. }
    destruct (IH (seen ++ new) new x) as (x0 & H0 & Hs & Hc).
    + intros y Hy. apply in_or_app. right. exact Hy.
    + exact Hx.
    + assert (Hxc : In x seen \/ compat obs x = true).
      { destruct Hc as [Hc|Hc]; [|right; exact Hc]. apply in_app_or in Hc.
        destruct Hc as [Hc|Hc]; [left; exact Hc|]. right.
        destruct (Hnew _ Hc) as (p & _ & _ & Hcp). exact Hcp. }
      apply in_app_or in H0. destruct H0 as [H0|H0].
      * exists x0. auto.
      * destruct (Hnew _ H0) as (p & Hp & Hyp & _). exists p. split; [apply Hinc; exact Hp|].
        split; [eapply hstar_e_step; eauto|exact Hxc].
Qed.

Lemma closure_incl obs sts x : In x sts -> compat obs x = true -> In x (closure obs sts).
Proof.
  intros Hx Hc. unfold closure.
  set (s0 := dedup (filter (compat obs) sts)).
  destruct (bfs_spec obs (max_measure s0) s0 s0) as [I1 _].
  - apply incl_refl.
  - intros y Hy Hn. tauto.
  - intros y Hy. apply max_measure_bound. exact Hy.
  - apply I1. unfold s0. apply dedup_spec. apply filter_In. auto.
Qed.

Lemma closure_hclosed obs sts : hclosed obs (closure obs sts).
Proof.
  unfold closure. set (s0 := dedup (filter (compat obs) sts)).
  destruct (bfs_spec obs (max_measure s0) s0 s0) as [_ I2].
  - apply incl_refl.
  - intros y Hy Hn. tauto.
  - intros y Hy. apply max_measure_bound. exact Hy.
  - exact I2.
Qed.

Lemma closure_sound obs sts x :
  In x (closure obs sts) -> (exists x0, In x0 sts /\ hstar_e x0 x) /\ compat obs x = true.
Proof.
  unfold closure. set (s0 := dedup (filter (compat obs) sts)). intros Hx.
  destruct (bfs_sound obs _ s0 s0 x (incl_refl _) Hx) as (x0 & H0 & Hs & Hc).
  assert (Hs0 : forall y, In y s0 -> In y sts /\ compat obs y = true).
  { intros y Hy. unfold s0 in Hy. apply (proj1 (dedup_spec _ _)) in Hy. apply filter_In in Hy. exact Hy. }
  split.
  - exists x0. split; [apply Hs0; exact H0|exact Hs].
  - destruct Hc as [Hc|Hc]; [apply Hs0; exact Hc|exact Hc].
Qed.

(* ------------------------------------------------------------------ how steps change the streamers *)
Definition keeps_inbox (g : streamer -> streamer) : Prop := forall x, s_inbox (g x) = s_inbox x.

Inductive strs_change (ss : list (N * streamer)) : list (N * streamer) -> Prop :=
| sc_same : strs_change ss ss
| sc_upd s g : keeps_inbox g -> strs_change ss (aupdate s g ss)
| sc_new s ks : alookup s ss = None -> strs_change ss (ss ++ [(s, new_streamer ks)])
| sc_all f ss' : In ss' (deliver_all f ss) -> strs_change ss ss'
| sc_prefix f ss' : In ss' (deliver_prefix f ss) -> strs_change ss ss'.

Lemma vstep_strs st o st' : In st' (vstep st o) -> strs_change (st_strs st) (st_strs st').
Proof.
  unfold vstep. destruct (driver_blocked st); [intros []|].
  destruct o; simpl.
  - destruct (alookup w (st_writers st)); [intros [<-|[]]; constructor|].
    destruct (open_writer_ok st w chans auths); intros [<-|[]]; constructor.
  - destruct (bg_active st w); intros [<-|[]]; constructor.
  - destruct (bg_active st w); intros [<-|[]]; constructor.
  - destruct (open_writer_of st w) as [wr|]; [|intros [<-|[]]; constructor].
    destruct (bg_active st w); [intros [<-|[]]; constructor|].
    intros H. apply do_write_cases in H. apply dw_result_strs in H. destruct H as [-> _]. constructor.
  - destruct (st_closed st); [intros [<-|[]]; constructor|].
    destruct (alookup s (st_strs st)) eqn:E; intros [<-|[]]; [constructor|].
    simpl. apply sc_new. exact E.
  - destruct (st_closed st); intros [<-|[]]; [constructor|]. simpl. apply sc_upd.
    intros x. destruct (s_closing x); reflexivity.
  - destruct (st_closed st); intros [<-|[]]; [constructor|]. simpl. apply sc_upd.
    intros x. reflexivity.
  - destruct (st_closed st); intros [<-|[]]; [constructor|]. simpl. apply sc_upd.
    intros x. destruct (s_closing x); reflexivity.
  - destruct (st_closed st); intros [<-|[]]; [constructor|]. simpl. apply sc_upd.
    intros x. destruct (s_closing x); reflexivity.
  - destruct (st_closed st); [intros [<-|[]]; constructor|].
    destruct (sync_ready st); intros H; [destruct H as [<-|[]]; constructor|destruct H].
  - destruct (st_closed st); [intros [<-|[]]; constructor|].
    intros H. apply in_app_or in H. destruct H as [H|H].
    + destruct (length (st_fifo st) <=? st_cap st)%nat; [|destruct H].
      destruct H as [<-|[]]. constructor.
    + destruct (st_fifo st) as [|f q]; [destruct H|].
      apply in_map_iff in H. destruct H as (ss & <- & Hss). simpl. eapply sc_prefix. exact Hss.
  - destruct (open_writer_of st w); [|intros [<-|[]]; constructor].
    destruct (bg_active st w); intros [<-|[]]; constructor.
  - destruct (alookup w (st_bg st)) as [[|? ?]|]; intros H; try destruct H as [<-|[]]; try constructor.
    destruct H.
Qed.

Lemma hsucc_strs st st' : In st' (hsucc st) -> strs_change (st_strs st) (st_strs st').
Proof.
  unfold hsucc. intros H. apply in_app_or in H. destruct H as [H|H]; [|apply in_app_or in H; destruct H as [H|H];
    [|apply in_app_or in H; destruct H as [H|H]]].
  - unfold deliver_succs in H. destruct (st_closed st); [destruct H|].
    destruct (st_fifo st) as [|f q]; [destruct H|].
    apply in_map_iff in H. destruct H as (ss & <- & Hss). simpl. eapply sc_all. exact Hss.
  - unfold apply_succs in H. apply in_flat_map in H. destruct H as ([s x0] & _ & H). simpl in H.
    destruct (alookup s (st_strs st)) as [x|]; [|destruct H].
    destruct (can_apply st x); [|destruct H]. destruct H as [<-|[]]. simpl. apply sc_upd.
    intros y. unfold apply_req. destruct (s_pend y); reflexivity.
  - unfold disc_succs in H. apply in_flat_map in H. destruct H as ([s x0] & _ & H). simpl in H.
    destruct (alookup s (st_strs st)) as [x|]; [|destruct H].
    destruct (can_disc st x); [|destruct H]. destruct H as [<-|[]]. simpl. apply sc_upd.
    intros y. reflexivity.
  - unfold bg_succs in H. apply in_flat_map in H. destruct H as ([w kss0] & _ & H). simpl in H.
    destruct (alookup w (st_bg st)) as [[|ks rest]|]; try destruct H.
    destruct (open_writer_of st w) as [wr|].
    + apply do_write_cases in H. apply dw_result_strs in H. destruct H as [-> _]. simpl. constructor.
    + destruct H as [<-|[]]. simpl. constructor.
Qed.

Lemma lstep_strs st l st' : lstep st l st' -> strs_change (st_strs st) (st_strs st').
Proof. destruct l; simpl; [apply hsucc_strs|apply vstep_strs]. Qed.

(* ------------------------------------------------------------------ inboxes only grow *)
Definition pre_items (a b : list item) : Prop := exists t, b = a ++ t.

Inductive ext : list (N * streamer) -> list (N * streamer) -> Prop :=
| ext_nil tail : ext [] tail
| ext_cons k x x' r r' : pre_items (s_inbox x) (s_inbox x') -> ext r r' -> ext ((k, x) :: r) ((k, x') :: r').

Lemma pre_items_refl a : pre_items a a.
Proof. exists []. rewrite app_nil_r. reflexivity. Qed.

Lemma ext_refl ss : ext ss ss.
Proof. induction ss as [|[k x] r IH]; constructor; auto using pre_items_refl. Qed.

Lemma ext_app ss t : ext ss (ss ++ t).
Proof. induction ss as [|[k x] r IH]; simpl; constructor; auto using pre_items_refl. Qed.

Lemma ext_aupdate s g ss : keeps_inbox g -> ext ss (aupdate s g ss).
Proof.
  intros Hg. induction ss as [|[k x] r IH]; simpl; [constructor|].
  destruct (s =? k); constructor; auto using ext_refl, pre_items_refl.
  rewrite Hg. apply pre_items_refl.
Qed.

Lemma pre_items_hand f x : pre_items (s_inbox x) (s_inbox (hand f x)).
Proof.
  unfold hand. simpl. destruct (keep f (s_keys x)); [apply pre_items_refl|]. eexists. reflexivity.
Qed.

Lemma ext_deliver_all f ss ss' : In ss' (deliver_all f ss) -> ext ss ss'.
Proof.
  revert ss'. induction ss as [|[k s] r IH]; simpl; intros ss' H.
  - destruct H as [<-|[]]. constructor.
  - destruct (s_conn s).
    + apply in_app_or in H. destruct H as [H|H].
      * apply in_map_iff in H. destruct H as (t & <- & Ht). constructor; auto using pre_items_hand.
      * destruct (s_ready s); [destruct H|].
        apply in_map_iff in H. destruct H as (t & <- & Ht). constructor; auto using pre_items_refl.
    + apply in_map_iff in H. destruct H as (t & <- & Ht). constructor; auto using pre_items_refl.
Qed.

Lemma ext_deliver_prefix f ss ss' : In ss' (deliver_prefix f ss) -> ext ss ss'.
Proof.
  revert ss'. induction ss as [|[k s] r IH]; simpl; intros ss' H; [destruct H as [<-|[]]; constructor|].
  destruct H as [<-|H]; [apply ext_refl|].
  destruct (s_conn s).
  - apply in_app_or in H. destruct H as [H|H].
    + apply in_map_iff in H. destruct H as (t & <- & Ht). constructor; auto using pre_items_hand.
    + destruct (s_ready s); [destruct H|].
      apply in_map_iff in H. destruct H as (t & <- & Ht). constructor; auto using pre_items_refl.
  - apply in_map_iff in H. destruct H as (t & <- & Ht). constructor; auto using pre_items_refl.
Qed.

Lemma strs_change_ext ss ss' : strs_change ss ss' -> ext ss ss'.
Proof.
  destruct 1; eauto using ext_refl, ext_aupdate, ext_app, ext_deliver_all, ext_deliver_prefix.
Qed.

Lemma ext_fst ss ss' : ext ss ss' -> exists t, map fst ss' = map fst ss ++ t.
Proof.
  induction 1; simpl; [eexists; reflexivity|]. destruct IHext as (t & ->). eexists. reflexivity.
Qed.

(* keys *)
Lemma aupdate_fst {A} s (g : A -> A) ss : map fst (aupdate s g ss) = map fst ss.
Proof. induction ss as [|[k x] r IH]; simpl; [reflexivity|]. destruct (s =? k); simpl; congruence. Qed.

Lemma deliver_all_fst f ss ss' : In ss' (deliver_all f ss) -> map fst ss' = map fst ss.
Proof.
  revert ss'. induction ss as [|[k s] r IH]; simpl; intros ss' H.
  - destruct H as [<-|[]]. reflexivity.
  - destruct (s_conn s).
    + apply in_app_or in H. destruct H as [H|H].
      * apply in_map_iff in H. destruct H as (t & <- & Ht). simpl. f_equal. auto.
      * destruct (s_ready s); [destruct H|].
        apply in_map_iff in H. destruct H as (t & <- & Ht). simpl. f_equal. auto.
    + apply in_map_iff in H. destruct H as (t & <- & Ht). simpl. f_equal. auto.
Qed.

Lemma deliver_prefix_fst f ss ss' : In ss' (deliver_prefix f ss) -> map fst ss' = map fst ss.
Proof.
  revert ss'. induction ss as [|[k s] r IH]; simpl; intros ss' H; [destruct H as [<-|[]]; reflexivity|].
  destruct H as [<-|H]; [reflexivity|].
  destruct (s_conn s).
  - apply in_app_or in H. destruct H as [H|H].
    + apply in_map_iff in H. destruct H as (t & <- & Ht). simpl. f_equal. auto.
    + destruct (s_ready s); [destruct H|].
      apply in_map_iff in H. destruct H as (t & <- & Ht). simpl. f_equal. auto.
  - apply in_map_iff in H. destruct H as (t & <- & Ht). simpl. f_equal. auto.
Qed.

Lemma alookup_None_notin {A} s (ss : list (N * A)) : alookup s ss = None -> ~ In s (map fst ss).
Proof.
  induction ss as [|[k x] r IH]; simpl; [tauto|].
  destruct (s =? k) eqn:E; [discriminate|]. apply N.eqb_neq in E.
  intros H [H1|H1]; [congruence|]. exact (IH H H1).
Qed.

Lemma strs_change_nodup ss ss' :
  strs_change ss ss' -> List.NoDup (map fst ss) -> List.NoDup (map fst ss').
Proof.
  destruct 1; intros Hn; auto.
  - rewrite aupdate_fst. exact Hn.
  - rewrite map_app. simpl. apply alookup_None_notin in H.
    apply NoDup_ListNoDup. apply NoDup_ListNoDup in Hn.
    apply NoDup_app. split; [exact Hn|]. split.
    + intros x Hx Hx2. apply elem_of_list_singleton in Hx2. subst. apply H.
      apply elem_of_list_In. exact Hx.
    + apply NoDup_singleton.
  - rewrite (deliver_all_fst _ _ _ H). exact Hn.
  - rewrite (deliver_prefix_fst _ _ _ H). exact Hn.
Qed.

(* ------------------------------------------------------------------ compatibility with an observation *)
Lemma oitem_eqb_spec x y : oitem_eqb x y = true <-> x = y.
Proof.
  destruct x as [[a b] c], y as [[a' b'] c']. unfold oitem_eqb. simpl.
  rewrite !land_true, !N.eqb_eq, (list_eqb_spec N.eqb N.eqb_eq).
  split; [intros ((-> & ->) & ->); reflexivity|intros [= -> -> ->]; auto].
Qed.

Lemma obs_eqb_spec a b : obs_eqb a b = true <-> a = b.
Proof.
  unfold obs_eqb. apply list_eqb_spec. intros x y.
  apply (pairN_eqb_spec (list_eqb oitem_eqb)). apply list_eqb_spec. apply oitem_eqb_spec.
Qed.

Lemma is_prefix_spec a b : is_prefix a b = true <-> exists t, b = a ++ t.
Proof.
  revert b. induction a as [|x a IH]; intros b; simpl.
  - split; [intros _; exists b; reflexivity|reflexivity].
  - destruct b as [|y b].
    + split; [discriminate|intros (t & Ht); discriminate].
    + rewrite land_true, oitem_eqb_spec, IH. split.
      * intros (-> & t & ->). exists t. reflexivity.
      * intros (t & [= -> ->]). split; [reflexivity|exists t; reflexivity].
Qed.

Definition compat1 (obs : observation) (ss : N * streamer) : bool :=
  is_prefix (map proj_item (s_inbox ss.2)) (default [] (alookup ss.1 obs)).

Lemma compat_unfold obs st : compat obs st = forallb (compat1 obs) (st_strs st).
Proof. reflexivity. Qed.

Lemma compat_ext obs ss ss' :
  ext ss ss' -> forallb (compat1 obs) ss' = true -> forallb (compat1 obs) ss = true.
Proof.
  induction 1; simpl; [reflexivity|]. rewrite !andb_true_iff. intros [H1 H2]. split; [|auto].
  unfold compat1 in *. simpl in *. apply is_prefix_spec in H1. destruct H1 as (t & Ht).
  destruct H as (u & Hu). apply is_prefix_spec. rewrite Ht, Hu, map_app, <- app_assoc. eexists. reflexivity.
Qed.

Lemma lstep_compat_back obs st l st' : lstep st l st' -> compat obs st' = true -> compat obs st = true.
Proof.
  intros H. rewrite !compat_unfold. apply compat_ext. apply strs_change_ext. eapply lstep_strs. exact H.
Qed.

Lemma hstar_compat_back obs x y : hstar x y -> compat obs y = true -> compat obs x = true.
Proof.
  induction 1; auto. intros Hc. apply (lstep_compat_back obs x Tau y); auto.
Qed.

Lemma alookup_observe ss k x :
  List.NoDup (map fst ss) -> In (k, x) ss ->
  alookup k (map (fun ss : N * streamer => (ss.1, map proj_item (s_inbox ss.2))) ss)
  = Some (map proj_item (s_inbox x)).
Proof.
  induction ss as [|[k' y] r IH]; simpl; [tauto|]. intros Hn H. inversion Hn; subst.
  destruct H as [[= -> ->]|H].
  - rewrite N.eqb_refl. reflexivity.
  - destruct (k =? k') eqn:E.
    + apply N.eqb_eq in E. subst. exfalso. apply H2. apply in_map_iff. exists (k', x). auto.
    + auto.
Qed.

Lemma is_prefix_refl a : is_prefix a a = true.
Proof. apply is_prefix_spec. exists []. rewrite app_nil_r. reflexivity. Qed.

Lemma compat_self st : List.NoDup (map fst (st_strs st)) -> compat (observe st) st = true.
Proof.
  intros Hn. rewrite compat_unfold. apply forallb_forall. intros [k x] Hx.
  unfold compat1, observe. simpl. rewrite (alookup_observe _ _ _ Hn Hx). simpl. apply is_prefix_refl.
Qed.

(* ------------------------------------------------------------------ runs *)
Lemma run_nodup st ls st' :
  run st ls st' -> List.NoDup (map fst (st_strs st)) -> List.NoDup (map fst (st_strs st')).
Proof.
  induction 1; auto. intros Hn. apply IHrun. eapply strs_change_nodup; [|exact Hn].
  eapply lstep_strs. exact H.
Qed.

Lemma run_compat_back obs st ls st' : run st ls st' -> compat obs st' = true -> compat obs st = true.
Proof. induction 1; auto. intros Hc. eapply lstep_compat_back; eauto. Qed.

Lemma after_op_hclosed obs sts o : hclosed obs (after_op obs sts o).
Proof. apply closure_hclosed. Qed.

Lemma run_in_states obs st ls st' :
  run st ls st' -> compat obs st' = true ->
  forall sts, hclosed obs sts -> In (erase st) sts ->
  In (erase st') (fold_left (after_op obs) (visible ls) sts).
Proof.
  induction 1; intros Hc sts Hcl Hin; simpl; [exact Hin|].
  pose proof (run_compat_back obs _ _ _ H0 Hc) as Hc1.
  destruct l as [|o]; simpl in *.
  - apply IHrun; auto. apply (Hcl (erase st)); [exact Hin| |rewrite erase_compat; exact Hc1].
    rewrite hsucc_erase. unfold hsucc_e. apply in_map. exact H.
  - apply IHrun; auto.
    + apply after_op_hclosed.
    + unfold after_op. apply closure_incl; [|rewrite erase_compat; exact Hc1].
      apply in_flat_map. exists (erase st). split; [exact Hin|].
      rewrite vstep_erase. unfold vstep_e. apply in_map. exact H.
Qed.

(* every run of the LTS is accepted *)
Theorem accepts_complete chans cap ls st :
  run (init chans cap) ls st -> driver_blocked st = false ->
  accepts chans cap (visible ls) (observe st) = true.
Proof.
  intros Hr Hb. unfold accepts, states_after.
  assert (Hn : List.NoDup (map fst (st_strs st))).
  { eapply run_nodup; [exact Hr|]. simpl. constructor. }
  pose proof (compat_self st Hn) as Hc.
  apply existsb_exists. exists (erase st). split.
  - apply (run_in_states _ _ _ _ Hr Hc).
    + apply closure_hclosed.
    + apply closure_incl; [left; reflexivity|]. eapply run_compat_back; eauto.
  - unfold final_ok. rewrite erase_blocked, Hb. simpl. rewrite erase_observe. apply obs_eqb_spec. reflexivity.
Qed.

(* every accepted observation is produced by a run following the script *)
Lemma hstar_run x y : hstar x y -> exists ls, run x ls y /\ visible ls = [].
Proof.
  induction 1.
  - exists []. split; constructor.
  - destruct IHhstar as (ls & Hr & Hv). exists (Tau :: ls). split; [|exact Hv].
    econstructor; [|exact Hr]. exact H.
Qed.

Lemma run_app a ls1 b ls2 c : run a ls1 b -> run b ls2 c -> run a (ls1 ++ ls2) c.
Proof. induction 1; simpl; auto. intros. econstructor; eauto. Qed.

Lemma visible_app l1 l2 : visible (l1 ++ l2) = visible l1 ++ visible l2.
Proof. induction l1 as [|[|o] r IH]; simpl; congruence. Qed.

(* one operation of the checker, lifted to real states *)
Lemma after_op_lift obs sts o st0 pre x :
  (forall y, In y sts -> exists r ls, run st0 ls r /\ visible ls = pre /\ erase r = y) ->
  In x (after_op obs sts o) ->
  exists r ls, run st0 ls r /\ visible ls = pre ++ [o] /\ erase r = x.
Proof.
  intros Hs Hx. unfold after_op in Hx. apply closure_sound in Hx. destruct Hx as [(x0 & Hx0 & Hst) _].
  apply in_flat_map in Hx0. destruct Hx0 as (y & Hy & Hstep).
  destruct (Hs y Hy) as (r & l1 & R1 & V1 & Er). subst y.
  rewrite vstep_erase in Hstep. unfold vstep_e in Hstep. apply in_map_iff in Hstep.
  destruct Hstep as (r1 & E1 & Hr1).
  destruct (hstar_e_lift _ _ Hst r1 E1) as (r2 & Hs2 & E2).
  destruct (hstar_run _ _ Hs2) as (l2 & R2 & V2).
  exists r2, (l1 ++ Vis o :: l2). split; [|split; [|exact E2]].
  - eapply run_app; [exact R1|]. econstructor; [exact Hr1|exact R2].
  - rewrite visible_app. simpl. rewrite V1, V2. reflexivity.
Qed.

Lemma states_sound obs script : forall sts st0 pre,
  (forall y, In y sts -> exists r ls, run st0 ls r /\ visible ls = pre /\ erase r = y) ->
  forall x, In x (fold_left (after_op obs) script sts) ->
  exists r ls, run st0 ls r /\ visible ls = pre ++ script /\ erase r = x.
Proof.
  induction script as [|o rest IH]; intros sts st0 pre Hs x Hin; simpl in Hin.
  - rewrite app_nil_r. apply Hs. exact Hin.
  - replace (pre ++ o :: rest) with ((pre ++ [o]) ++ rest) by (rewrite <- app_assoc; reflexivity).
    apply (IH (after_op obs sts o) st0 (pre ++ [o])); [|exact Hin].
    intros y Hy. eapply after_op_lift; eauto.
Qed.

Theorem accepts_sound chans cap script obs :
  accepts chans cap script obs = true ->
  exists ls st, run (init chans cap) ls st /\ visible ls = script /\ observe st = obs /\
                driver_blocked st = false.
Proof.
  unfold accepts, states_after. intros H. apply existsb_exists in H. destruct H as (x & Hin & Hf).
  destruct (states_sound obs script (closure obs [init chans cap]) (init chans cap) [] ) with (x := x)
    as (r & ls & Hr & Hv & Er); [|exact Hin|].
  - intros y Hy. apply closure_sound in Hy. destruct Hy as [(x0 & [<-|[]] & Hst) _].
    destruct (hstar_e_lift _ _ Hst (init chans cap) eq_refl) as (r & Hs & Er).
    destruct (hstar_run _ _ Hs) as (ls & R & V). exists r, ls. auto.
  - exists ls, r. subst x. unfold final_ok in Hf. rewrite erase_blocked, erase_observe in Hf.
    destruct (driver_blocked r); simpl in Hf; [discriminate|].
    apply obs_eqb_spec in Hf. auto.
Qed.
