(* Cesium/Stamp.v — index.Domain.Stamp: zeroStamp / forwardStamp / backwardStamp /
   approximateStamp, verbatim (including the [endOffset >= domainLen] tests). *)
From Coq Require Import ZArith List Bool.
From Synnax Require Import Cesium.Store Cesium.IndexSearch.
Import ListNotations.
Local Open Scope Z_scope.

(* TimeStampApproximation *)
Record sapprox := SA { s_lo : Z; s_hi : Z }.
Definition s_exact (a : sapprox) : bool := s_lo a =? s_hi a.

Definition zero_stamp (P : list dom) (ref : Z) : res sapprox :=
  let '(it, ok) := di_seek_first P (di_open (TR ref (wrap64 (ref + 1)))) in
  if negb ok then Err ENotFound else
  let r := d_data (di_cur it) in
  match isearch ref r with
  | Err e => Err e
  | Ok s =>
      if negb (a_exact s) then do u <- rd r (a_hi s); Ok (SA 0 u)
      else do u <- rd r (a_hi s); Ok (SA u u)
  end.

(* approximateStamp; [it] is positioned on the domain whose stamps are [r] *)
Definition approximate_stamp (P : list dom) (it : diter) (upper lower : Z) : res sapprox :=
  let r := d_data (di_cur it) in
  do u <- rd r upper;
  if 0 <=? lower then do l <- rd r lower; Ok (SA l u)
  else
    let '(it', ok) := di_prev P it in
    if negb ok then Err EDisc else
    let r' := d_data (di_cur it') in
    do l <- rd r' (zlen r' + lower); Ok (SA l u).

(* forward traversal: returns the iterator on the domain holding endOffset and the
   offset relative to it, or the "ran out of domains" result *)
Fixpoint fstamp_loop (fuel : nat) (P : list dom) (it : diter) (cont : bool)
         (endoff tot : Z) : res (diter * Z + sapprox) :=
  match fuel with
  | O => Err EPanic
  | S f =>
      let '(it', ok) := di_next P it in
      if negb ok then
        if cont then Err EDisc else Ok (inr (SA (t_e (di_tr it')) MAXTS))
      else
        let n := dlen (di_cur it') in
        let tot' := tot + n in
        if endoff <? tot' then Ok (inl (it', endoff - (tot' - n)))
        else fstamp_loop f P it' cont endoff tot'
  end.

Definition forward_stamp (P : list dom) (ref off : Z) (cont : bool) : res sapprox :=
  let '(it, ok) := di_seek_first P (di_open (span_range ref MAXTS)) in
  if negb ok then Err EDisc else
  let '(it1, effb, efflen) := fwd_eff P it in
  if negb (contains_stamp effb ref) || (cont && (efflen <=? off)) then Err EDisc else
  let '(it, _) := di_seek_first P it1 in
  let r := d_data (di_cur it) in
  do s <- isearch ref r;
  let n := dlen (di_cur it) in
  let endoff := a_hi s + off in
  if cont && ((a_exact s && (efflen <=? a_lo s + off)) ||
              (negb (a_exact s) && (efflen - 1 <=? a_lo s + off))) then Err EDisc else
  do pos <- (if n <=? endoff then fstamp_loop (S (length P)) P it cont endoff n
             else Ok (inl (it, endoff)));
  match pos with
  | inr a => Ok a
  | inl (it', endoff') => approximate_stamp P it' endoff' (endoff' - a_span s)
  end.

Fixpoint bstamp_loop (fuel : nat) (P : list dom) (it : diter) (cont : bool)
         (endoff tot : Z) : res (diter * Z + sapprox) :=
  match fuel with
  | O => Err EPanic
  | S f =>
      let '(it', ok) := di_prev P it in
      if negb ok then
        if cont then Err EDisc else Ok (inr (SA 0 (t_s (di_tr it'))))
      else
        let n := dlen (di_cur it') in
        let tot' := tot + n in
        if endoff <=? tot' then Ok (inl (it', endoff - (tot' - n)))
        else bstamp_loop f P it' cont endoff tot'
  end.

Definition backward_stamp (P : list dom) (ref0 off : Z) (cont : bool) : res sapprox :=
  let absoff := - off in
  let '(it, ok) := di_seek_last P (di_open (TR 0 (wrap64 (ref0 + 1)))) in
  if negb ok then Err EDisc else
  let '(it1, effb, efflen) := bwd_eff P it in
  let ref := if ref0 =? t_e effb then ref0 - 1 else ref0 in
  if negb (contains_stamp effb ref) || (cont && (efflen <=? absoff)) then Err EDisc else
  let '(it, _) := di_seek_last P it1 in
  let r := d_data (di_cur it) in
  do s <- isearch ref r;
  let n := dlen (di_cur it) in
  let endoff := n - a_hi s - off in
  if cont && (efflen <? endoff + a_span s) then Err EDisc else
  do pos <- (if n <=? endoff then bstamp_loop (S (length P)) P it cont endoff n
             else Ok (inl (it, endoff)));
  match pos with
  | inr a => Ok a
  | inl (it', endoff') =>
      let n' := dlen (di_cur it') in
      approximate_stamp P it' (n' - endoff') (n' - (endoff' + a_span s))
  end.

Definition stamp (P : list dom) (ref off : Z) (cont : bool) : res sapprox :=
  if off =? 0 then zero_stamp P ref
  else if off <? 0 then backward_stamp P ref off cont
  else forward_stamp P ref off cont.
