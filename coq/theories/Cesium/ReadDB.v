(* Cesium/ReadDB.v — reads of the database without a success hypothesis: if every pointer is
   covered by its index ([db_cov]), DB.Read returns exactly the content of the requested
   range; coverage is kept by deletions on data channels, by GC and by reopen, so the
   statement "reads after the deletion = reads before minus [a,b)" holds unconditionally along
   such histories. *)
From Coq Require Import ZArith List Bool Lia.
From Synnax Require Import Cesium.Store Cesium.StoreProofs Cesium.IndexSearch Cesium.Distance
  Cesium.Stamp Cesium.DeleteModel Cesium.GCModel Cesium.DeleteBase Cesium.DeleteSearch
  Cesium.DeleteDistance Cesium.DeleteOffsets Cesium.DeleteContent Cesium.DeleteExact
  Cesium.ReadExact Cesium.ReadSuccess Cesium.DeleteDB Cesium.GCProofs Cesium.DeleteCheck
  Cesium.DeleteIndex Cesium.DeleteInv.
Import ListNotations.
Local Open Scope Z_scope.

Definition chan_cov (P : list dom) (c : chan) : Prop :=
  forall p, In p (c_ptrs c) -> covered P (t_s (p_tr p)) (t_e (p_tr p)).

Definition db_cov (d : db) : Prop :=
  forall k c, alookup k d = Some c -> chan_cov (index_doms d c) c.

(* DB.Read returns exactly the stored samples of the range *)
Theorem read_exact d k rs re :
  db_ok d -> db_cov d -> 0 <= rs < re -> re <= MAXTS ->
  read_content (stamps_of_db d k) (read d k (TR rs re)) = filter (inside_r rs re) (content_of d k).
Proof.
  intros Hok Hcov Hr HM. rewrite read_of_res.
  destruct (read_res d k (TR rs re)) as [l|e] eqn:E.
  - apply read_res_content; assumption.
  - exfalso. unfold read_res in E. destruct (alookup k d) as [c|] eqn:Ek; [|discriminate].
    destruct (Hok k c Ek) as (Hw & Hc & _).
    destruct (read_chan_succeeds (index_doms d c) c Hw Hc (Hcov k c Ek) rs re Hr HM) as [l Hl]. congruence.
Qed.

(* ------------------------------------------------------------------ coverage is kept *)
Lemma refines_cov P c c' :
  widx P -> chan_cov P c -> chan_ok (allst P) c' ->
  Forall (refines_ptr (allst P) c) (c_ptrs c') -> chan_cov P c'.
Proof.
  intros Hw Hc Hok' Href q Hq. rewrite Forall_forall in Href.
  destruct (Href q Hq) as (sp & Hsp & H1 & H2 & _).
  pose proof (sorted_ptrs_nonempty _ (wf_sorted c' (ok_wf _ c' Hok'))) as Hne. rewrite Forall_forall in Hne.
  apply (covered_sub P (t_s (p_tr sp)) (t_e (p_tr sp))); auto.
Qed.

Lemma delete_one_data_cov d k c a b d' :
  db_ok d -> db_cov d -> alookup k d = Some c -> c_isidx c = false ->
  delete_one true d k (TR a b) = Ok d' -> db_cov d'.
Proof.
  intros Hok Hcov Hk Hdata Hdel.
  destruct (delete_one_data d k c a b d' Hok Hk Hdata Hdel) as (Hok' & _ & Hidx & Hoth & _ & _).
  unfold delete_one in Hdel. rewrite Hk in Hdel.
  destruct (unary_delete true (index_doms d c) c (TR a b)) as [c'|e] eqn:Eu; simpl in Hdel; [|discriminate].
  inversion Hdel; subst d'. clear Hdel.
  destruct (Hok k c Hk) as (Hw & Hc & _).
  unfold unary_delete in Eu. destruct (negb (tr_valid (TR a b))) eqn:Ev; [discriminate|].
  destruct (tr_is_zero (TR a b)); [discriminate|].
  assert (Hab : a <= b).
  { apply negb_false_iff in Ev. unfold tr_valid, tspan in Ev. simpl in Ev. apply Z.leb_le in Ev. lia. }
  destruct (dom_delete_exact (index_doms d c) c a b c' Hw Hc Hab Eu) as (Hc'ok & _ & Href).
  intros y x Hy. rewrite (Hidx y x Hy).
  destruct (Z.eq_dec y k) as [->|Hne].
  - rewrite alookup_aset_eq in Hy. inversion Hy; subst x. rewrite Hk.
    apply (refines_cov (index_doms d c) c c' Hw (Hcov k c Hk) Hc'ok Href).
  - rewrite alookup_aset_ne in Hy by exact Hne. rewrite Hy. apply (Hcov y x Hy).
Qed.

Lemma delete_data_cov a b : forall ks d d',
  db_ok d -> db_cov d -> (forall k, In k ks -> is_data d k) ->
  delete_data true d ks (TR a b) = (d', None) -> db_cov d'.
Proof.
  induction ks as [|k ks IH]; intros d d' Hok Hcov Hdata; simpl.
  - intros [= <-]. exact Hcov.
  - destruct (Hdata k (or_introl eq_refl)) as (c & Hk & Hc).
    destruct (delete_one true d k (TR a b)) as [d1|e] eqn:E1; [|discriminate].
    destruct (delete_one_data d k c a b d1 Hok Hk Hc E1) as (Hok1 & _ & _ & Hoth1 & _ & (c1 & Hk1 & Hc1)).
    pose proof (delete_one_data_cov d k c a b d1 Hok Hcov Hk Hc E1) as Hcov1.
    apply IH; auto.
    intros k' Hk'. destruct (Z.eq_dec k' k) as [->|Hne]; [exists c1; auto|].
    destruct (Hdata k' (or_intror Hk')) as (x & Hx & Hxd). exists x. rewrite Hoth1 by exact Hne. auto.
Qed.

Lemma db_cov_equiv d d' : db_cov d -> db_equiv d d' -> db_cov d'.
Proof.
  intros Hcov He k c' Hk.
  pose proof (alookup_equiv d d' k He) as Hkk. rewrite Hk in Hkk.
  destruct (alookup k d) as [c|] eqn:Ec; [|contradiction].
  assert (Hidx : index_doms d' c' = index_doms d c).
  { unfold index_doms. destruct Hkk as (_ & Hix & _). rewrite <- Hix.
    pose proof (alookup_equiv d d' (c_index c) He) as Hj.
    destruct (alookup (c_index c) d) as [i|], (alookup (c_index c) d') as [i'|]; try contradiction; [|reflexivity].
    symmetry. apply chan_equiv_doms. exact Hj. }
  rewrite Hidx. intros q Hq.
  destruct Hkk as (_ & _ & _ & _ & Ev). pose proof (cview_ptrs c c' Ev) as F.
  assert (Hex : exists p, In p (c_ptrs c) /\ p_tr p = p_tr q).
  { clear -F Hq. induction F as [|p p' l l' Hp _ IH]; [contradiction|].
    destruct Hq as [<-|Hq].
    - exists p. split; [left; reflexivity|]. unfold pview in Hp. injection Hp as E1 _ _. exact E1.
    - destruct (IH Hq) as (x & Hx & Ex). exists x. split; [right; exact Hx|exact Ex]. }
  destruct Hex as (p & Hp & Ep). rewrite <- Ep. apply (Hcov k c Ec p Hp).
Qed.

(* ------------------------------------------------------------------ the unconditional statement *)
Theorem reads_after_data_delete d chs a b d' k rs re :
  db_ok d -> db_cov d -> (forall k, In k chs -> is_data d k) ->
  delete_time_range true d chs (TR a b) = (d', None) ->
  0 <= rs < re -> re <= MAXTS ->
  db_ok d' /\ db_cov d' /\
  read_content (stamps_of_db d' k) (read d' k (TR rs re)) =
  if existsb (Z.eqb k) chs then filter (outside_ab a b) (read_content (stamps_of_db d k) (read d k (TR rs re)))
  else read_content (stamps_of_db d k) (read d k (TR rs re)).
Proof.
  intros Hok Hcov Hdata Hdel Hr HM.
  destruct (delete_exact_general d chs a b d' Hok Hdel) as (Hok' & Hcont).
  assert (Hcov' : db_cov d').
  { unfold delete_time_range in Hdel. rewrite (classify_all_data d chs Hdata) in Hdel.
    destruct (delete_data true d chs (TR a b)) as [d1 [e|]] eqn:Ed; [discriminate|].
    simpl in Hdel. inversion Hdel; subst d'. apply (delete_data_cov a b chs d d1 Hok Hcov Hdata Ed). }
  split; [exact Hok'|]. split; [exact Hcov'|].
  rewrite (read_exact d' k rs re Hok' Hcov' Hr HM), (read_exact d k rs re Hok Hcov Hr HM), Hcont.
  destruct (existsb (Z.eqb k) chs); [apply filter_comm|reflexivity].
Qed.

(* GC and reopen keep coverage, so the above applies again after them *)
Theorem gc_keeps_cov g d : db_ok d -> NoDup (map fst d) -> db_cov d -> db_cov (gc_db g d).
Proof.
  intros Hok Hnd Hcov. apply (db_cov_equiv d); [exact Hcov|].
  apply db_equiv_sym. apply gc_db_equiv. apply db_ok_wf; assumption.
Qed.

Theorem reopen_keeps_cov d : db_cov d -> db_cov (reopen_db d).
Proof. intros Hcov. apply (db_cov_equiv d); [exact Hcov|]. apply db_equiv_sym. apply reopen_db_equiv. Qed.

(* ------------------------------------------------------------------ a sound check of coverage *)
Fixpoint coveredb (P : list dom) (s e : Z) : bool :=
  match P with
  | [] => false
  | d0 :: rest =>
      if (dom_s d0 <=? s) && (s <? dom_e d0) then e <=? chain_end (TR s e) (dom_e d0) rest
      else coveredb rest s e
  end.

Lemma coveredb_ok s e : forall P pre, coveredb P s e = true -> covered (pre ++ P) s e.
Proof.
  induction P as [|d0 rest IH]; intros pre; simpl; [discriminate|].
  destruct ((dom_s d0 <=? s) && (s <? dom_e d0)) eqn:E.
  - apply andb_true_iff in E as [A B]. apply Z.leb_le in A. apply Z.ltb_lt in B.
    intros H. apply Z.leb_le in H. exists pre, d0, rest. auto.
  - intros H. rewrite (app_cons_assoc pre d0 rest). apply IH. exact H.
Qed.

Definition db_covb (d : db) : bool :=
  forallb (fun kc : Z * chan =>
    forallb (fun p => coveredb (index_doms d (snd kc)) (t_s (p_tr p)) (t_e (p_tr p))) (c_ptrs (snd kc))) d.

Theorem db_covb_ok d : db_covb d = true -> db_cov d.
Proof.
  unfold db_covb, db_cov. rewrite forallb_forall. intros H k c Hk p Hp.
  specialize (H (k, c) (alookup_in k c d Hk)). simpl in H. rewrite forallb_forall in H.
  apply (coveredb_ok _ _ (index_doms d c) []). apply H. exact Hp.
Qed.
