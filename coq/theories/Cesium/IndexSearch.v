(* Cesium/IndexSearch.v — index.Domain.search: binary search over the 8-byte stamps of one
   index domain, returning Exactly mid or Between end (end+1); and the effective-domain
   walks (resolveForward/BackwardEffectiveDomainTR).  No proofs in this file. *)
From Coq Require Import ZArith List Bool.
From Synnax Require Import Cesium.Store.
Import ListNotations.
Local Open Scope Z_scope.

(* Approximation[int64] *)
Record approx := AP { a_lo : Z; a_hi : Z }.
Definition a_exact (a : approx) : bool := a_lo a =? a_hi a.
Definition a_span (a : approx) : Z := a_hi a - a_lo a.

(* newStampReader: reading the stamp at sample offset k of a domain *)
Definition rd (l : list Z) (k : Z) : res Z :=
  match znth l k with Some x => Ok x | None => Err EEOF end.

Fixpoint isearch_go (fuel : nat) (l : list Z) (ts : Z) (lo hi : Z) : res approx :=
  match fuel with
  | O => Ok (AP hi (hi + 1))
  | S f =>
      if lo <=? hi then
        let mid := (lo + hi) / 2 in
        match rd l mid with
        | Err e => Err e
        | Ok m =>
            if ts =? m then Ok (AP mid mid)
            else if m <? ts then isearch_go f l ts (mid + 1) hi
            else isearch_go f l ts lo (mid - 1)
        end
      else Ok (AP hi (hi + 1))
  end.
Definition isearch (ts : Z) (l : list Z) : res approx :=
  isearch_go (S (length l)) l ts 0 (zlen l - 1).

(* resolveForwardEffectiveDomainTR: walks the iterator forward over immediately
   contiguous domains; returns the moved iterator, the effective bounds and length *)
Fixpoint fwd_eff_go (fuel : nat) (P : list dom) (it : diter) (b : tr) (n : Z) : diter * tr * Z :=
  match fuel with
  | O => (it, b, n)
  | S f =>
      let cur_end := t_e (di_tr it) in
      let '(it', ok) := di_next P it in
      if negb ok then (it', b, n) else
      if negb (cur_end =? t_s (di_tr it')) then (it', b, n) else
      fwd_eff_go f P it' (TR (t_s b) (t_e (di_tr it'))) (n + dlen (di_cur it'))
  end.
Definition fwd_eff (P : list dom) (it : diter) : diter * tr * Z :=
  fwd_eff_go (S (length P)) P it (di_tr it) (dlen (di_cur it)).

Fixpoint bwd_eff_go (fuel : nat) (P : list dom) (it : diter) (b : tr) (n : Z) : diter * tr * Z :=
  match fuel with
  | O => (it, b, n)
  | S f =>
      let cur_start := t_s (di_tr it) in
      let '(it', ok) := di_prev P it in
      if negb ok then (it', b, n) else
      if negb (cur_start =? t_e (di_tr it')) then (it', b, n) else
      bwd_eff_go f P it' (TR (t_s (di_tr it')) (t_e b)) (n + dlen (di_cur it'))
  end.
Definition bwd_eff (P : list dom) (it : diter) : diter * tr * Z :=
  bwd_eff_go (S (length P)) P it (di_tr it) (dlen (di_cur it)).
