(* Cesium/RelayThms.v — the clauses of C20 derived from the invariants of RelayInv.v. *)
From stdpp Require Import base list numbers.
From Coq Require Import NArith Bool List Lia Sorting.Sorted.
Import ListNotations.
From Synnax Require Import Cesium.Relay Cesium.RelayProofs Cesium.RelayInv.
Local Open Scope N_scope.

(* ------------------------------------------------------------------ order, no duplicates *)
Lemma sublist_In {A} (l1 l2 : list A) x : sublist l1 l2 -> In x l1 -> In x l2.
Proof. induction 1; simpl; intros Hx; [destruct Hx|destruct Hx; auto|auto]. Qed.

Lemma sublist_LNoDup {A} (l1 l2 : list A) : sublist l1 l2 -> List.NoDup l2 -> List.NoDup l1.
Proof.
  induction 1; intros Hn.
  - constructor.
  - inversion Hn; subst. constructor; [|auto]. intros Hx. apply H2. eapply sublist_In; eauto.
  - inversion Hn; subst. auto.
Qed.

Lemma sublist_sorted {A} (R : A -> A -> Prop) l1 l2 :
  sublist l1 l2 -> StronglySorted R l2 -> StronglySorted R l1.
Proof.
  induction 1; intros Hs.
  - constructor.
  - inversion Hs; subst. constructor; [auto|].
    apply Forall_forall. intros y Hy. rewrite Forall_forall in H3. apply H3.
    eapply sublist_In; eauto.
  - inversion Hs; subst. auto.
Qed.

Lemma sublist_filter_snd (w : N) (a b : list (N * N)) :
  sublist a b ->
  sublist (map snd (filter (fun t => t.1 =? w) a)) (map snd (filter (fun t => t.1 =? w) b)).
Proof.
  induction 1; simpl.
  - constructor.
  - destruct (x.1 =? w); simpl; [constructor|]; auto.
  - destruct (x.1 =? w); simpl; [constructor|]; auto.
Qed.

Lemma filter_map_itag w inbox :
  map i_seq (filter (fun i => i_w i =? w) inbox) = map snd (filter (fun t => t.1 =? w) (map itag inbox)).
Proof. induction inbox as [|i r IH]; simpl; [reflexivity|]. destruct (i_w i =? w); simpl; congruence. Qed.

Lemma filter_map_tag w hist :
  map f_seq (filter (fun f => f_w f =? w) hist) = map snd (filter (fun t => t.1 =? w) (map tag hist)).
Proof. induction hist as [|i r IH]; simpl; [reflexivity|]. destruct (f_w i =? w); simpl; congruence. Qed.

Theorem inbox_order u d chans cap ls st s x :
  run (init_gen u d chans cap) ls st -> In (s, x) (st_strs st) ->
  sublist (map itag (s_inbox x)) (map tag (st_hist st)) /\
  List.NoDup (map tag (st_hist st)) /\
  (forall w, StronglySorted N.lt (map f_seq (filter (fun f => f_w f =? w) (st_hist st)))) /\
  List.NoDup (map itag (s_inbox x)) /\
  (forall w, StronglySorted N.lt (map i_seq (filter (fun i => i_w i =? w) (s_inbox x)))).
Proof.
  intros Hr Hin. destruct (Inv_reachable_gen _ _ _ _ _ _ Hr) as [Hdl _ Hnd Hso _ _].
  destruct Hdl as (dl & Hd1 & Hd2). destruct (Hd2 s x Hin) as [Hsub _].
  assert (Hs : sublist (map itag (s_inbox x)) (map tag (st_hist st))).
  { rewrite Hd1, map_app. apply sublist_inserts_r. exact Hsub. }
  split; [exact Hs|]. split; [exact Hnd|]. split; [exact Hso|]. split.
  - eapply sublist_LNoDup; [exact Hs|exact Hnd].
  - intros w. rewrite filter_map_itag. eapply sublist_sorted; [apply sublist_filter_snd; exact Hs|].
    rewrite <- filter_map_tag. apply Hso.
Qed.

(* ------------------------------------------------------------------ content of received frames *)
Theorem inbox_items u d chans cap ls st s x it :
  run (init_gen u d chans cap) ls st -> In (s, x) (st_strs st) -> In it (s_inbox x) ->
  exists f wr, In f (st_hist st) /\ tag f = itag it /\
    i_keys it <> [] /\ incl (i_keys it) (f_keys f) /\ incl (f_keys f) (f_orig f) /\
    (forall k, In k (i_keys it) -> ~ In k (f_unauth f)) /\
    alookup (f_w f) (st_writers st) = Some wr /\ streams (w_mode wr) = true.
Proof.
  intros Hr Hin Hit. destruct (Inv_reachable_gen _ _ _ _ _ _ Hr) as [Hdl Hw _ _ Hfr _].
  destruct Hdl as (dl & Hd1 & Hd2). destruct (Hd2 s x Hin) as [_ Hfrom].
  destruct (Hfrom it Hit) as (f & Hf & Ht & Hne & Hinc).
  assert (Hfh : In f (st_hist st)) by (rewrite Hd1; apply in_or_app; left; exact Hf).
  destruct (Hw f Hfh) as (wr & Hl & _ & Hm). destruct (Hfr f Hfh) as [Ho Hu].
  exists f, wr. repeat split; auto.
Qed.

(* what a Write pushes: only keys of the frame that the writer holds and is authorized on
   (and whose index, for a data channel written together with its index, it is authorized
   on); nothing else ever extends the history of pushed frames *)
Lemma app_one_neq {A} (l : list A) x : l <> l ++ [x].
Proof. intros H. apply (f_equal (@length A)) in H. rewrite app_length in H. simpl in H. lia. Qed.

Lemma relayed_facts st w wr ks k :
  In k (relayed_keys st w wr ks) ->
  In k ks /\ excluded st w wr ks k = false /\
  (st_unowned st = false -> owned wr k = true /\ authorized st w wr k = true).
Proof.
  unfold relayed_keys. intros H. apply filter_In in H. destruct H as [Hk Hr].
  unfold relayed in Hr. apply andb_true_iff in Hr. destruct Hr as [He Ho].
  apply negb_true_iff in He. split; [exact Hk|]. split; [exact He|].
  intros Hu. rewrite Hu in Ho. simpl in Ho. split; [exact Ho|].
  unfold excluded in He. rewrite Ho in He. simpl in He. apply orb_false_iff in He.
  destruct He as [He _]. apply negb_false_iff in He. exact He.
Qed.

Definition push_facts (st : state) (w : N) (wr : writer) (ks : list N) (f : frame) : Prop :=
  open_writer_of st w = Some wr /\ streams (w_mode wr) = true /\
  f_w f = w /\ f_seq f = w_seq wr + 1 /\ f_orig f = ks /\ f_unauth f = unauth_keys st w wr ks /\
  forall k, In k (f_keys f) ->
    In k ks /\ excluded st w wr ks k = false /\
    (st_unowned st = false -> owned wr k = true /\ authorized st w wr k = true).

Lemma dw_result_push st b w wr ks st' f :
  open_writer_of st w = Some wr -> dw_result (set_bg st b) w wr ks st' ->
  st_hist st' = st_hist st ++ [f] -> push_facts st w wr ks f.
Proof.
  intros Ew H Hh. destruct H; simpl in Hh.
  - exfalso. exact (app_one_neq _ _ Hh).
  - exfalso. exact (app_one_neq _ _ Hh).
  - apply app_inj_tail in Hh. destruct Hh as [_ <-]. unfold push_facts. simpl.
    repeat split; auto; apply (relayed_facts st) in H1; tauto.
Qed.

Lemma set_bg_same st : set_bg st (st_bg st) = st.
Proof. destruct st; reflexivity. Qed.

(* what a Write pushes: only keys of the frame that the writer holds and is authorized on
   (and whose index, for a data channel written together with its index, it is authorized
   on); nothing but a Write — by the driver or by a writer's background goroutine — ever
   extends the history of pushed frames *)
Theorem push_authorized st l st' f :
  lstep st l st' -> st_hist st' = st_hist st ++ [f] ->
  exists w ks wr, ((exists bad, l = Vis (Write w ks bad)) \/ l = Tau) /\ push_facts st w wr ks f.
Proof.
  intros Hs Hh.
  assert (Hsame : forall y, st_hist y = st_hist st -> In st' [y] -> False).
  { intros y Hy [<-|[]]. rewrite Hy in Hh. exact (app_one_neq _ _ Hh). }
  destruct l as [|o]; simpl in Hs.
  { unfold hsucc in Hs. apply in_app_or in Hs. destruct Hs as [H|H]; [|apply in_app_or in H; destruct H as [H|H];
      [|apply in_app_or in H; destruct H as [H|H]]].
    - exfalso. unfold deliver_succs in H. destruct (st_closed st); [destruct H|].
      destruct (st_fifo st) as [|f0 q]; [destruct H|].
      apply in_map_iff in H. destruct H as (ss & <- & _). simpl in Hh. exact (app_one_neq _ _ Hh).
    - exfalso. unfold apply_succs in H. apply in_flat_map in H. destruct H as ([s x0] & _ & H). simpl in H.
      destruct (alookup s (st_strs st)) as [x|]; [|destruct H].
      destruct (can_apply st x); [|destruct H]. revert H. apply Hsame. reflexivity.
    - exfalso. unfold disc_succs in H. apply in_flat_map in H. destruct H as ([s x0] & _ & H). simpl in H.
      destruct (alookup s (st_strs st)) as [x|]; [|destruct H].
      destruct (can_disc st x); [|destruct H]. revert H. apply Hsame. reflexivity.
    - unfold bg_succs in H. apply in_flat_map in H. destruct H as ([w kss0] & _ & H). simpl in H.
      destruct (alookup w (st_bg st)) as [[|ks rest]|]; try destruct H.
      destruct (open_writer_of st w) as [wr|] eqn:Ew.
      + apply do_write_cases in H. exists w, ks, wr. split; [right; reflexivity|].
        eapply dw_result_push; eauto.
      + exfalso. revert H. apply Hsame. reflexivity. }
  revert Hs. unfold vstep. destruct (driver_blocked st); [intros []|].
  destruct o; simpl.
  - intros H; exfalso; revert H.
    destruct (alookup w (st_writers st)); [apply Hsame; reflexivity|].
    destruct (open_writer_ok st w chans auths); apply Hsame; reflexivity.
  - intros H; exfalso; revert H. destruct (bg_active st w); apply Hsame; reflexivity.
  - intros H; exfalso; revert H. destruct (bg_active st w); apply Hsame; reflexivity.
  - destruct (open_writer_of st w) as [wr|] eqn:Ew; [|intros H; exfalso; revert H; apply Hsame; reflexivity].
    destruct (bg_active st w); [intros H; exfalso; revert H; apply Hsame; reflexivity|].
    intros H. apply do_write_cases in H. exists w, keys, wr. split; [left; exists bad; reflexivity|].
    rewrite <- (set_bg_same st) in H. eapply dw_result_push; eauto.
  - intros H; exfalso; revert H.
    destruct (st_closed st); [apply Hsame; reflexivity|].
    destruct (alookup s (st_strs st)); apply Hsame; reflexivity.
  - intros H; exfalso; revert H. destruct (st_closed st); apply Hsame; reflexivity.
  - intros H; exfalso; revert H. destruct (st_closed st); apply Hsame; reflexivity.
  - intros H; exfalso; revert H. destruct (st_closed st); apply Hsame; reflexivity.
  - intros H; exfalso; revert H. destruct (st_closed st); apply Hsame; reflexivity.
  - intros H; exfalso; revert H. destruct (st_closed st); [apply Hsame; reflexivity|].
    destruct (sync_ready st); [apply Hsame; reflexivity|intros []].
  - intros H; exfalso; revert H. destruct (st_closed st); [apply Hsame; reflexivity|].
    intros H. apply in_app_or in H. destruct H as [H|H].
    + destruct (length (st_fifo st) <=? st_cap st)%nat; [|destruct H].
      revert H. apply Hsame. reflexivity.
    + destruct (st_fifo st) as [|f0 q]; [destruct H|].
      apply in_map_iff in H. destruct H as (ss & <- & _). simpl in Hh. exact (app_one_neq _ _ Hh).
  - intros H; exfalso; revert H.
    destruct (open_writer_of st w); [|apply Hsame; reflexivity].
    destruct (bg_active st w); apply Hsame; reflexivity.
  - intros H; exfalso; revert H.
    destruct (alookup w (st_bg st)) as [[|? ?]|]; try (apply Hsame; reflexivity). intros [].
Qed.

(* ------------------------------------------------------------------ filtering at receive time *)
Lemma keep_sub f ks k : In k (keep f ks) -> memN k ks = true /\ In k (f_keys f).
Proof. unfold keep. intros H. apply filter_In in H. tauto. Qed.

(* In any step, a streamer's inbox either stays as it is or grows by exactly one item: the
   head frame of the relay inlet filtered by the key set the streamer holds IN THE STATE THE
   STEP STARTS FROM (its subscription at receive time), and only if that is non-empty. *)
Theorem receive_filtered st l st' s x' :
  lstep st l st' -> In (s, x') (st_strs st') ->
  s_inbox x' = [] \/
  exists x, In (s, x) (st_strs st) /\
    (s_inbox x' = s_inbox x \/
     exists f q, st_fifo st = f :: q /\ keep f (s_keys x) <> [] /\
                 s_inbox x' = s_inbox x ++ [Item (f_w f) (f_seq f) (keep f (s_keys x))]).
Proof.
  intros Hs Hin. apply lstep_effect in Hs.
  destruct Hs as [_ _ _ _ _ _ _ Hq|w wr ks _ _ _ _ _ _ _ f _ _ _ Hss|f _ _ _ _ _ Hf _ Hd _].
  - destruct (quiet_strs_inbox _ _ _ _ Hq Hin) as [E|(x & Hx & E)]; [left; exact E|].
    right. exists x. split; [exact Hx|left; exact E].
  - rewrite Hss in Hin. right. exists x'. split; [exact Hin|left; reflexivity].
  - right.
    assert (Hsrc : exists x, In (s, x) (st_strs st) /\ (x' = x \/ x' = hand f x)).
    { destruct Hd as [Hd|Hd]; [eapply deliver_all_in|eapply deliver_prefix_in]; eauto. }
    destruct Hsrc as (x & Hx & [->| ->]); exists x; (split; [exact Hx|]); [left; reflexivity|].
    destruct (hand_inbox f x) as [E|[Hne E]]; [left; exact E|].
    right. exists f, (st_fifo st'). auto.
Qed.

(* ------------------------------------------------------------------ completeness of delivery *)
Lemma deliver_all_ready f ss ss' s x :
  In ss' (deliver_all f ss) -> In (s, x) ss -> s_conn x = true -> s_ready x = true ->
  In (s, hand f x) ss'.
Proof.
  revert ss'. induction ss as [|[k y] r IH]; simpl; intros ss' H Hin Hc Hr; [destruct Hin|].
  assert (Hgen : forall y' t, In t (deliver_all f r) -> ((k, y) = (s, x) -> y' = hand f y) ->
                 In (s, hand f x) ((k, y') :: t)).
  { intros y' t Ht Hy. destruct Hin as [E|Hi].
    - left. rewrite (Hy E). injection E as -> ->. reflexivity.
    - right. apply (IH t Ht Hi Hc Hr). }
  destruct (s_conn y) eqn:Ecy.
  - apply in_app_or in H. destruct H as [H|H].
    + apply in_map_iff in H. destruct H as (t & <- & Ht). apply (Hgen _ t Ht). auto.
    + destruct (s_ready y) eqn:Ery; [destruct H|].
      apply in_map_iff in H. destruct H as (t & <- & Ht). apply (Hgen _ t Ht).
      intros [= -> ->]. congruence.
  - apply in_map_iff in H. destruct H as (t & <- & Ht). apply (Hgen _ t Ht).
    intros [= -> ->]. congruence.
Qed.

(* Every frame the relay dequeues is handed, filtered by the streamer's current key set, to
   EVERY connected streamer whose consumer is ready: no frame is skipped for it. *)
Theorem delivery_complete st st' :
  In st' (deliver_succs st) ->
  exists f q, st_fifo st = f :: q /\ st_fifo st' = q /\
    forall s x, In (s, x) (st_strs st) -> s_conn x = true -> s_ready x = true ->
                In (s, hand f x) (st_strs st').
Proof.
  unfold deliver_succs. destruct (st_closed st); [intros []|].
  destruct (st_fifo st) as [|f q]; [intros []|]. intros H.
  apply in_map_iff in H. destruct H as (ss & <- & Hss). exists f, q. simpl.
  split; [reflexivity|]. split; [reflexivity|]. intros s x. apply deliver_all_ready. exact Hss.
Qed.

(* A frame leaves the relay inlet only by such a delivery, or because the database is being
   closed; otherwise the inlet is unchanged or grows at its tail (FIFO). *)
Theorem fifo_discipline st l st' :
  lstep st l st' ->
  st_fifo st' = st_fifo st \/ (exists f, st_fifo st' = st_fifo st ++ [f]) \/
  (exists f, st_fifo st = f :: st_fifo st' /\
             (In st' (deliver_succs st) \/ (st_closed st = false /\ st_closed st' = true))).
Proof.
  intros Hs. apply lstep_effect in Hs.
  destruct Hs as [_ _ _ _ _ Hf _ _|w wr ks _ _ _ _ _ _ _ f _ Hf _ _|f _ _ _ _ _ Hf _ _ Hc].
  - left. exact Hf.
  - right. left. exists f. exact Hf.
  - right. right. exists f. auto.
Qed.

(* ------------------------------------------------------------------ no deadlock *)
Lemma deliver_all_nonempty f ss : deliver_all f ss <> [].
Proof.
  induction ss as [|[k s] r IH]; simpl; [discriminate|].
  destruct (deliver_all f r) as [|t ts]; [congruence|].
  destruct (s_conn s); simpl; discriminate.
Qed.

Lemma deliver_all_flags f ss ss' :
  In ss' (deliver_all f ss) ->
  map (fun ss => (s_closing ss.2, s_conn ss.2)) ss' = map (fun ss => (s_closing ss.2, s_conn ss.2)) ss.
Proof.
  revert ss'. induction ss as [|[k s] r IH]; simpl; intros ss' H.
  - destruct H as [<-|[]]. reflexivity.
  - assert (Hgen : forall y t, In t (deliver_all f r) -> s_closing y = s_closing s -> s_conn y = s_conn s ->
        map (fun ss : N * streamer => (s_closing ss.2, s_conn ss.2)) ((k, y) :: t) =
        (s_closing s, s_conn s) :: map (fun ss : N * streamer => (s_closing ss.2, s_conn ss.2)) r).
    { intros y t Ht H1 H2. simpl. rewrite H1, H2. f_equal. auto. }
    destruct (s_conn s) eqn:Ec.
    + apply in_app_or in H. destruct H as [H|H].
      * apply in_map_iff in H. destruct H as (t & <- & Ht). apply Hgen; auto.
      * destruct (s_ready s); [destruct H|].
        apply in_map_iff in H. destruct H as (t & <- & Ht). apply Hgen; auto.
    + apply in_map_iff in H. destruct H as (t & <- & Ht). apply Hgen; auto.
Qed.

Lemma existsb_flags ss ss' :
  map (fun ss : N * streamer => (s_closing ss.2, s_conn ss.2)) ss' =
  map (fun ss : N * streamer => (s_closing ss.2, s_conn ss.2)) ss ->
  existsb (fun ss : N * streamer => s_closing ss.2 && s_conn ss.2) ss' =
  existsb (fun ss : N * streamer => s_closing ss.2 && s_conn ss.2) ss.
Proof.
  revert ss'. induction ss as [|a r IH]; intros [|b r']; simpl; try discriminate; [reflexivity|].
  intros [= H1 H2 H3]. rewrite H1, H2. f_equal. auto.
Qed.

(* With the fixed writer (dead-inlet flag off): whenever a Write cannot proceed, the database
   is open, the relay can deliver, and after that delivery the Write can proceed. Writers
   are never blocked by a state in which nothing else can move. *)
Lemma do_write_blocked st w wr ks bad :
  st_deadinlet st = false -> do_write st w wr ks bad = [] ->
  st_closed st = false /\ (st_cap st < length (st_fifo st))%nat /\
  bad_hits st wr ks bad || negb (valid_frame st wr ks) = false /\ streams (w_mode wr) = true.
Proof.
  intros Hd. unfold do_write.
  destruct (bad_hits st wr ks bad || negb (valid_frame st wr ks)) eqn:Ebv; [discriminate|].
  destruct (streams (w_mode wr) && negb (st_closed st && negb (st_deadinlet st))) eqn:Es; [|discriminate].
  rewrite Hd in Es. simpl in Es. rewrite andb_true_r in Es.
  destruct (st_closed st) eqn:Ec; [rewrite andb_false_r in Es; discriminate|].
  destruct (length (st_fifo st) <=? st_cap st)%nat eqn:Eg; [discriminate|]. intros _.
  apply Nat.leb_gt in Eg. rewrite andb_true_r in Es. auto.
Qed.

Theorem do_write_never_deadlocks st w wr ks bad :
  st_deadinlet st = false -> (length (st_fifo st) <= S (st_cap st))%nat ->
  do_write st w wr ks bad = [] ->
  st_closed st = false /\
  exists f q ss, st_fifo st = f :: q /\ In ss (deliver_all f (st_strs st)) /\
    In (set_fifo (set_strs st ss) q) (deliver_succs st) /\
    do_write (set_fifo (set_strs st ss) q) w wr ks bad <> [].
Proof.
  intros Hd Hcap Hw. destruct (do_write_blocked _ _ _ _ _ Hd Hw) as (Ec & Hlen & Ebv & Es).
  split; [exact Ec|].
  destruct (st_fifo st) as [|f q] eqn:Ef; [simpl in Hlen; lia|].
  destruct (deliver_all f (st_strs st)) as [|ss rest] eqn:Eda; [exfalso; exact (deliver_all_nonempty _ _ Eda)|].
  exists f, q, ss. split; [reflexivity|]. split; [rewrite Eda; left; reflexivity|]. split.
  - unfold deliver_succs. rewrite Ec, Ef, Eda. left. reflexivity.
  - unfold do_write.
    assert (Ebv' : bad_hits (set_fifo (set_strs st ss) q) wr ks bad ||
                   negb (valid_frame (set_fifo (set_strs st ss) q) wr ks) = false) by exact Ebv.
    rewrite Ebv'. simpl. rewrite Hd, Ec, Es. simpl. simpl in Hcap.
    assert (Hq : (length q <=? st_cap st)%nat = true) by (apply Nat.leb_le; lia).
    rewrite Hq. discriminate.
Qed.

Theorem write_never_deadlocks st w ks bad :
  st_deadinlet st = false -> driver_blocked st = false ->
  (length (st_fifo st) <= S (st_cap st))%nat ->
  vstep st (Write w ks bad) = [] ->
  st_closed st = false /\
  exists st', In st' (deliver_succs st) /\ vstep st' (Write w ks bad) <> [].
Proof.
  intros Hd Hb Hcap. unfold vstep at 1. rewrite Hb.
  destruct (open_writer_of st w) as [wr|] eqn:Ew; [|discriminate].
  destruct (bg_active st w) eqn:Eb; [discriminate|]. intros Hw.
  destruct (do_write_never_deadlocks _ _ _ _ _ Hd Hcap Hw) as (Ec & f & q & ss & Ef & Hss & Hin & Hne).
  split; [exact Ec|]. exists (set_fifo (set_strs st ss) q). split; [exact Hin|].
  unfold vstep.
  assert (Hb' : driver_blocked (set_fifo (set_strs st ss) q) = false).
  { unfold driver_blocked in *. simpl. rewrite Ec in *. simpl in *.
    rewrite (existsb_flags _ _ (deliver_all_flags _ _ _ Hss)). exact Hb. }
  rewrite Hb'.
  assert (Ew' : open_writer_of (set_fifo (set_strs st ss) q) w = Some wr) by exact Ew.
  assert (Eb' : bg_active (set_fifo (set_strs st ss) q) w = false) by exact Eb.
  rewrite Ew', Eb'. exact Hne.
Qed.

Lemma alookup_some_in {A} (l : list (N * A)) k v : alookup k l = Some v -> In (k, v) l.
Proof.
  induction l as [|[k' x] r IH]; simpl; [discriminate|].
  destruct (k =? k') eqn:E; [|auto]. apply N.eqb_eq in E. subst. intros [= ->]. left. reflexivity.
Qed.

(* A Join waits only while the goroutine still has frames to write; then either its next
   Write is enabled or (inlet full, database open) the relay can deliver. *)
Theorem join_never_deadlocks st w :
  st_deadinlet st = false -> driver_blocked st = false -> vstep st (Join w) = [] -> hsucc st <> [].
Proof.
  intros Hd Hb. unfold vstep. rewrite Hb.
  destruct (alookup w (st_bg st)) as [[|ks rest]|] eqn:El; try discriminate. intros _.
  pose proof (alookup_some_in _ _ _ El) as Hin.
  set (st0 := set_bg st (aupdate w (fun _ => rest) (st_bg st))).
  destruct (open_writer_of st w) as [wr|] eqn:Ew.
  - destruct (do_write st0 w wr ks false) as [|y ys] eqn:Edw.
    + assert (Hd0 : st_deadinlet st0 = false) by exact Hd.
      destruct (do_write_blocked _ _ _ _ _ Hd0 Edw) as (Ec & Hlen & _).
      simpl in Ec, Hlen. unfold hsucc, deliver_succs. rewrite Ec.
      destruct (st_fifo st) as [|f q]; [simpl in Hlen; lia|].
      destruct (deliver_all f (st_strs st)) as [|ss r] eqn:Eda; [exfalso; exact (deliver_all_nonempty _ _ Eda)|].
      simpl. discriminate.
    + assert (H : In y (bg_succs st)).
      { unfold bg_succs. apply in_flat_map. exists (w, ks :: rest). split; [exact Hin|]. simpl.
        rewrite El, Ew. fold st0. rewrite Edw. left. reflexivity. }
      unfold hsucc. intros E. apply app_eq_nil in E. destruct E as [_ E]. apply app_eq_nil in E.
      destruct E as [_ E]. apply app_eq_nil in E. destruct E as [_ E]. rewrite E in H. destruct H.
  - assert (H : In st0 (bg_succs st)).
    { unfold bg_succs. apply in_flat_map. exists (w, ks :: rest). split; [exact Hin|]. simpl.
      rewrite El, Ew. left. reflexivity. }
    unfold hsucc. intros E. apply app_eq_nil in E. destruct E as [_ E]. apply app_eq_nil in E.
    destruct E as [_ E]. apply app_eq_nil in E. destruct E as [_ E]. rewrite E in H. destruct H.
Qed.

Lemma alookup_in_nodup {A} (ss : list (N * A)) s x :
  List.NoDup (map fst ss) -> In (s, x) ss -> alookup s ss = Some x.
Proof.
  induction ss as [|[k y] r IH]; simpl; [tauto|]. intros Hn Hin. inversion Hn; subst.
  destruct Hin as [[= -> ->]|Hin].
  - rewrite N.eqb_refl. reflexivity.
  - destruct (s =? k) eqn:E; [|auto]. apply N.eqb_eq in E. subst k. exfalso. apply H1.
    apply in_map_iff. exists (s, x). auto.
Qed.

(* While the driver waits inside close_streamer (the only other place it can wait), some
   hidden step is enabled; hidden steps cannot go on forever (hsucc_measure). *)
Theorem driver_never_stuck st :
  List.NoDup (map fst (st_strs st)) -> driver_blocked st = true -> hsucc st <> [].
Proof.
  intros Hn Hb. unfold driver_blocked in Hb. apply andb_true_iff in Hb. destruct Hb as [Hc Hb].
  apply negb_true_iff in Hc. apply existsb_exists in Hb. destruct Hb as ([s x] & Hin & Hx).
  simpl in Hx. apply andb_true_iff in Hx. destruct Hx as [Hcl Hco].
  pose proof (alookup_in_nodup _ _ _ Hn Hin) as Hl.
  unfold hsucc. destruct (s_pend x) as [|ks r] eqn:Ep.
  - assert (H : In (upd_str st s disconnect) (disc_succs st)).
    { unfold disc_succs. apply in_flat_map. exists (s, x). split; [exact Hin|]. simpl. rewrite Hl.
      unfold can_disc. rewrite Hc, Hco, Hcl, Ep. left. reflexivity. }
    intros E. apply app_eq_nil in E. destruct E as [_ E]. apply app_eq_nil in E. destruct E as [_ E].
    apply app_eq_nil in E. destruct E as [E _]. rewrite E in H. destruct H.
  - assert (H : In (upd_str st s apply_req) (apply_succs st)).
    { unfold apply_succs. apply in_flat_map. exists (s, x). split; [exact Hin|]. simpl. rewrite Hl.
      unfold can_apply. rewrite Hc, Hco, Ep. left. reflexivity. }
    intros E. apply app_eq_nil in E. destruct E as [_ E]. apply app_eq_nil in E. destruct E as [E _].
    rewrite E in H. destruct H.
Qed.

(* Operations on streamers, on other writers and DB.Close are always enabled for the driver *)
Theorem other_ops_never_block st o :
  driver_blocked st = false ->
  match o with Write _ _ _ | Sync | Join _ => True | _ => vstep st o <> [] end.
Proof.
  intros Hb. destruct o; simpl; auto; unfold vstep; rewrite Hb.
  - destruct (alookup w (st_writers st)); [discriminate|].
    destruct (open_writer_ok st w chans auths); discriminate.
  - destruct (bg_active st w); discriminate.
  - destruct (bg_active st w); discriminate.
  - destruct (st_closed st); [discriminate|]. destruct (alookup s (st_strs st)); discriminate.
  - destruct (st_closed st); discriminate.
  - destruct (st_closed st); discriminate.
  - destruct (st_closed st); discriminate.
  - destruct (st_closed st); discriminate.
  - destruct (st_closed st); [discriminate|].
    destruct (length (st_fifo st) <=? st_cap st)%nat eqn:E; simpl; [discriminate|].
    destruct (st_fifo st) as [|f q]; [simpl in E; discriminate|].
    destruct (st_strs st) as [|[k s] r]; simpl; discriminate.
  - destruct (open_writer_of st w); [|discriminate]. destruct (bg_active st w); discriminate.
Qed.

(* ------------------------------------------------------------------ reachable-state corollaries *)
Theorem reachable_push_authorized chans cap ls st l st' f :
  run (init chans cap) ls st -> lstep st l st' -> st_hist st' = st_hist st ++ [f] ->
  exists w ks wr,
    ((exists bad, l = Vis (Write w ks bad)) \/ l = Tau) /\
    open_writer_of st w = Some wr /\ streams (w_mode wr) = true /\
    f_w f = w /\ f_orig f = ks /\
    forall k, In k (f_keys f) ->
      In k ks /\ owned wr k = true /\ authorized st w wr k = true /\ excluded st w wr ks k = false.
Proof.
  intros Hr Hs Hh. destruct (run_flags _ _ _ Hr) as (Hu & _).
  destruct (push_authorized _ _ _ _ Hs Hh) as (w & ks & wr & Hl & E2 & E3 & E4 & _ & E5 & _ & Hk).
  exists w, ks, wr. repeat split; auto; destruct (Hk k H) as (A & B & C); auto; apply C; exact Hu.
Qed.

Theorem reachable_write_never_deadlocks chans cap ls st w ks bad :
  run (init chans cap) ls st -> driver_blocked st = false -> vstep st (Write w ks bad) = [] ->
  st_closed st = false /\
  exists st', In st' (deliver_succs st) /\ vstep st' (Write w ks bad) <> [].
Proof.
  intros Hr Hb Hv. destruct (run_flags _ _ _ Hr) as (_ & Hd & _).
  apply write_never_deadlocks; auto. apply (inv_cap _ (Inv_reachable_gen _ _ _ _ _ _ Hr)).
Qed.

Theorem reachable_join_never_deadlocks chans cap ls st w :
  run (init chans cap) ls st -> driver_blocked st = false -> vstep st (Join w) = [] -> hsucc st <> [].
Proof.
  intros Hr. destruct (run_flags _ _ _ Hr) as (_ & Hd & _). apply join_never_deadlocks. exact Hd.
Qed.

Theorem reachable_driver_never_stuck chans cap ls st :
  run (init chans cap) ls st -> driver_blocked st = true -> hsucc st <> [].
Proof.
  intros Hr. apply driver_never_stuck. eapply run_nodup; [exact Hr|]. simpl. constructor.
Qed.

(* ------------------------------------------------------------------ executable runs (witnesses) *)
Fixpoint exec (st : state) (ls : list (label * nat)) : option state :=
  match ls with
  | [] => Some st
  | (l, n) :: r =>
      match nth_error (match l with Tau => hsucc st | Vis o => vstep st o end) n with
      | Some st1 => exec st1 r
      | None => None
      end
  end.

Lemma exec_run st ls st' : exec st ls = Some st' -> run st (map fst ls) st'.
Proof.
  revert st. induction ls as [|[l n] r IH]; simpl; intros st H.
  - injection H as <-. constructor.
  - destruct (nth_error _ n) as [st1|] eqn:E; [|discriminate].
    apply nth_error_In in E. econstructor; [|apply IH; exact H].
    destruct l; exact E.
Qed.

(* the behaviour of the pinned upstream tree (before the two fix: commits), kept as witnesses *)
Definition wit_chans : list (N * ckind) := [(1, KV); (2, KV); (3, KV)].

Definition unowned_script : list (label * nat) :=
  [(Vis (OpenW 1 SO [1; 2] [255]), O); (Vis (OpenS 1 [1; 2; 3]), O);
   (Vis (Write 1 [1; 3] false), O); (Tau, O)].

Lemma unowned_refuted :
  exists st x it, run (init_gen true false wit_chans 8) (map fst unowned_script) st /\
    In (1, x) (st_strs st) /\ In it (s_inbox x) /\ i_w it = 1 /\ In 3 (i_keys it) /\
    (exists wr, alookup 1 (st_writers st) = Some wr /\ owned wr 3 = false).
Proof.
  destruct (exec (init_gen true false wit_chans 8) unowned_script) as [st|] eqn:E; [|vm_compute in E; discriminate].
  pose proof (exec_run _ _ _ E) as Hr. vm_compute in E. injection E as <-.
  eexists _, _, _. split; [exact Hr|]. split; [left; reflexivity|]. split; [left; reflexivity|].
  split; [reflexivity|]. split; [right; left; reflexivity|]. eexists. split; reflexivity.
Qed.

Definition deadinlet_script : list (label * nat) :=
  [(Vis (OpenW 1 SO [1] [255]), O); (Vis CloseDB, O);
   (Vis (Write 1 [1] false), O); (Vis (Write 1 [1] false), O)].

Lemma deadinlet_refuted :
  exists st, run (init_gen false true wit_chans 2) (map fst deadinlet_script) st /\
    st_closed st = true /\ driver_blocked st = false /\
    vstep st (Write 1 [1] false) = [] /\ hsucc st = [].
Proof.
  destruct (exec (init_gen false true wit_chans 2) deadinlet_script) as [st|] eqn:E; [|vm_compute in E; discriminate].
  pose proof (exec_run _ _ _ E) as Hr. vm_compute in E. injection E as <-.
  eexists. split; [exact Hr|]. repeat split; reflexivity.
Qed.

(* non-vacuity: a run with two writers (one of them partly unauthorized), two streamers, a
   re-subscription and interleaved deliveries, whose inboxes are non-trivial *)
Definition ex_script : list (label * nat) :=
  [(Vis (OpenW 1 SO [1; 2] [255]), O); (Vis (OpenW 2 PS [2; 3] [100]), O);
   (Vis (OpenS 1 [1; 2; 3]), O); (Vis (OpenS 2 [2]), O);
   (Vis (Write 1 [1; 2] false), O); (Vis (Write 2 [2; 3] false), O); (Tau, O);
   (Vis (Resub 2 [3]), O); (Tau, O); (Tau, O); (Vis (Write 2 [3] false), O); (Tau, O); (Vis Sync, O)].
Definition ex_obs : observation :=
  [(1, [(1, 1, [1; 2]); (2, 1, [3]); (2, 2, [3])]); (2, [(1, 1, [2]); (2, 2, [3])])].

Lemma ex_nonvacuous :
  exists st, run (init wit_chans 8) (map fst ex_script) st /\ observe st = ex_obs /\
    driver_blocked st = false /\
    accepts wit_chans 8 (visible (map fst ex_script)) ex_obs = true.
Proof.
  destruct (exec (init wit_chans 8) ex_script) as [st|] eqn:E; [|vm_compute in E; discriminate].
  pose proof (exec_run _ _ _ E) as Hr. vm_compute in E. injection E as <-.
  eexists. split; [exact Hr|]. split; [reflexivity|]. split; [reflexivity|]. vm_compute. reflexivity.
Qed.
