(* Cesium/UnaryIterViews.v — view arithmetic of the unary iterator (the stepping code /repo
   carries): a step never clears an accumulated error, leaves the bounds alone, puts its view
   inside valid bounds, and consecutive steps in one direction have adjacent views. *)
From Coq Require Import ZArith List Bool Lia.
From Synnax Require Import Cesium.Store Cesium.StoreProofs Cesium.IndexSearch Cesium.Distance Cesium.Stamp
     Cesium.UnaryIter.
Import ListNotations.
Local Open Scope Z_scope.

Section Views.
Variable P D : list dom.
Variable var : bool.
Variable chunk : Z.

Definition errored (i : uiter) : bool := match u_err i with Some _ => true | None => false end.

(* ---- frame-only operations keep view, bounds; errors are never cleared ---- *)
Lemma insert_keeps i s :
  u_view (u_insert i s) = u_view i /\ u_b (u_insert i s) = u_b i /\ u_err (u_insert i s) = u_err i /\
  u_di (u_insert i s) = u_di i.
Proof. unfold u_insert. destruct (sr_data s); simpl; auto. Qed.

Lemma accumulate_keeps i :
  let i' := fst (accumulate P var i) in
  u_view i' = u_view i /\ u_b i' = u_b i /\ u_di i' = u_di i /\
  (errored i = true -> errored i' = true).
Proof.
  unfold accumulate. destruct (negb (overlaps (cur_tr i) (u_view i))); simpl; [auto|].
  destruct (slice_domain P var i) as [[off size]|e]; simpl; [|unfold errored; simpl; auto].
  destruct (u_read i off size) as [s|e]; simpl; [|unfold errored; simpl; auto].
  destruct (insert_keeps i s) as (A & B & C & E). unfold errored. rewrite A, B, C, E. auto.
Qed.

Definition keeps (i i' : uiter) : Prop :=
  u_view i' = u_view i /\ u_b i' = u_b i /\ (errored i = true -> errored i' = true).
Lemma keeps_refl i : keeps i i.
Proof. unfold keeps. auto. Qed.
Lemma keeps_trans a b c : keeps a b -> keeps b c -> keeps a c.
Proof. unfold keeps. intros (A & B & C) (A' & B' & C'). rewrite A', B', A, B. auto. Qed.
Lemma keeps_set_di i d : keeps i (u_set_di i d).
Proof. unfold keeps, u_set_di, errored. simpl. auto. Qed.
Lemma keeps_accumulate i : keeps i (fst (accumulate P var i)).
Proof. destruct (accumulate_keeps i) as (A & B & C & E). unfold keeps. auto. Qed.

Lemma acc_loop_keeps fwd fuel : forall i, keeps i (acc_loop P D var fwd fuel i).
Proof.
  induction fuel as [|f IH]; intros i; [apply keeps_refl|].
  cbn [acc_loop].
  destruct ((if fwd then di_next else di_prev) D (u_di i)) as [d ok].
  destruct ok; cbn [negb]; [|apply keeps_set_di].
  pose proof (keeps_accumulate (u_set_di i d)) as K.
  destruct (accumulate P var (u_set_di i d)) as [i1 ok1]. cbn [fst] in K.
  pose proof (keeps_trans _ _ _ (keeps_set_di i d) K) as K1.
  destruct ok1; cbn [negb]; [|exact K1].
  destruct (satisfied i1); [exact K1|].
  eapply keeps_trans; [exact K1|apply IH].
Qed.

Lemma fwd_body_keeps i : keeps i (fwd_body P D var i).
Proof.
  unfold fwd_body.
  destruct (tspan (u_view i) =? 0); [apply keeps_refl|].
  destruct (di_seek_ge D (u_di i) (t_s (u_view i))) as [d ok].
  destruct ok; cbn [negb]; [|apply keeps_set_di].
  destruct (t_e (u_view (u_set_di i d)) <=? t_s (cur_tr (u_set_di i d))); [apply keeps_set_di|].
  pose proof (keeps_accumulate (u_set_di i d)) as K.
  destruct (accumulate P var (u_set_di i d)) as [i1 ok1]. cbn [fst] in K.
  pose proof (keeps_trans _ _ _ (keeps_set_di i d) K) as K1.
  destruct (satisfied i1 || match u_err i1 with Some _ => true | None => false end); [exact K1|].
  eapply keeps_trans; [exact K1|apply acc_loop_keeps].
Qed.

Lemma bwd_body_keeps i : keeps i (bwd_body P D var i).
Proof.
  unfold bwd_body.
  destruct (tspan (u_view i) =? 0); [apply keeps_refl|].
  destruct (di_seek_le D (u_di i) (t_e (u_view i) - 1)) as [d ok].
  destruct ok; cbn [negb]; [|apply keeps_set_di].
  destruct (t_e (cur_tr (u_set_di i d)) <=? t_s (u_view (u_set_di i d))); [apply keeps_set_di|].
  pose proof (keeps_accumulate (u_set_di i d)) as K.
  destruct (accumulate P var (u_set_di i d)) as [i1 ok1]. cbn [fst] in K.
  pose proof (keeps_trans _ _ _ (keeps_set_di i d) K) as K1.
  destruct (satisfied i1 || match u_err i1 with Some _ => true | None => false end); [exact K1|].
  eapply keeps_trans; [exact K1|apply acc_loop_keeps].
Qed.

(* the view of a forward step is the requested span range clipped to the bounds *)
Lemma step_fwd_view i span :
  let i' := step_fwd P D var i span in
  u_view i' = bound_by (span_range (t_e (u_view i)) span) (u_b i) /\ u_b i' = u_b i /\
  (errored i = true -> errored i' = true).
Proof.
  unfold step_fwd.
  destruct (fwd_body_keeps (u_reset i (bound_by (span_range (t_e (u_view i)) span) (u_b i)))) as (A & B & C).
  cbv zeta. rewrite A, B. unfold u_reset, errored in *. simpl in *. auto.
Qed.

Lemma step_bwd_view i span :
  let i' := step_bwd P D var i span in
  u_view i' = bound_by (span_range (t_s (u_view i)) (-1 * span)) (u_b i) /\ u_b i' = u_b i /\
  (errored i = true -> errored i' = true).
Proof.
  unfold step_bwd.
  destruct (bwd_body_keeps (u_reset i (bound_by (span_range (t_s (u_view i)) (-1 * span)) (u_b i)))) as (A & B & C).
  cbv zeta. rewrite A, B. unfold u_reset, errored in *. simpl in *. auto.
Qed.

(* ---- the two step commands ---- *)
Definition valid_bounds (b : tr) : Prop := MINI64 <= t_s b /\ t_s b <= t_e b /\ t_e b <= MAXTS.
Definition in_bounds (b v : tr) : Prop := t_s b <= t_s v /\ t_s v <= t_e v /\ t_e v <= t_e b.

(* Next with any span (AUTO included): bounds unchanged, errors sticky; if the step ends
   without an error its view lies in the bounds and starts where the previous view ended,
   provided that end was inside the bounds *)
Lemma next_fix_spec i span :
  valid_bounds (u_b i) -> (0 <= span \/ span = AUTO) ->
  let i' := u_next_fix P D var chunk i span in
  u_b i' = u_b i /\ (errored i = true -> errored i' = true) /\
  (errored i' = false ->
     in_bounds (u_b i) (u_view i') /\
     (t_s (u_b i) <= t_e (u_view i) <= t_e (u_b i) -> t_s (u_view i') = t_e (u_view i))).
Proof.
  intros (Vb1 & Vb2 & Vb3) Hspan. unfold u_next_fix, at_end.
  destruct (t_e (u_view i) =? t_e (u_b i)) eqn:AE; zb.
  - rewrite point_eq. unfold u_reset, errored, in_bounds. simpl. repeat split; auto; lia.
  - assert (STEP : forall sp, 0 <= sp ->
      let i' := step_fwd P D var i sp in
      u_b i' = u_b i /\ (errored i = true -> errored i' = true) /\
      (errored i' = false ->
         in_bounds (u_b i) (u_view i') /\
         (t_s (u_b i) <= t_e (u_view i) <= t_e (u_b i) -> t_s (u_view i') = t_e (u_view i)))).
    { intros sp Hsp. destruct (step_fwd_view i sp) as (V & B & E). simpl. rewrite V, B.
      split; [reflexivity|]. split; [exact E|]. intros _.
      split.
      - destruct (Z_le_gt_dec (t_e (u_view i)) MAXTS) as [Hm|Hm].
        + destruct (span_range_fwd (t_e (u_view i)) sp Hsp Hm) as (S1 & S2 & _).
          destruct (bound_by_spec (span_range (t_e (u_view i)) sp) (u_b i) Vb2) as (a & b & c & d & e).
          unfold in_bounds. repeat split; try lia; apply e; lia.
        + (* view end beyond int64: still clipped into the bounds *)
          destruct (bound_by_spec (span_range (t_e (u_view i)) sp) (u_b i) Vb2) as (a & b & c & d & e).
          assert (Hv : t_s (span_range (t_e (u_view i)) sp) <= t_e (span_range (t_e (u_view i)) sp)).
          { unfold span_range, make_valid, tr_valid, tspan. cbn [t_s t_e].
            destruct (0 <=? add_clamp (t_e (u_view i)) sp - t_e (u_view i)) eqn:Q; zb; cbn [t_s t_e]; lia. }
          specialize (e Hv). unfold in_bounds. repeat split; lia.
      - intros Hin. assert (Hm : t_e (u_view i) <= MAXTS) by lia.
        destruct (span_range_fwd (t_e (u_view i)) sp Hsp Hm) as (S1 & S2 & _).
        rewrite bound_by_start; lia. }
    destruct (span =? AUTO) eqn:AU; zb.
    + unfold auto_next_span.
      destruct (stamp P (t_e (u_view i)) chunk false) as [a|e].
      * apply STEP. lia.
      * simpl. unfold errored. simpl. split; [reflexivity|]. split; [auto|]. discriminate.
    + apply STEP. destruct Hspan; [assumption|contradiction].
Qed.

Lemma prev_fix_spec i span :
  valid_bounds (u_b i) -> (0 <= span \/ span = AUTO) ->
  let i' := u_prev_fix P D var chunk i span in
  u_b i' = u_b i /\ (errored i = true -> errored i' = true) /\
  (errored i' = false ->
     in_bounds (u_b i) (u_view i') /\
     (t_s (u_b i) <= t_s (u_view i) <= t_e (u_b i) -> t_e (u_view i') = t_s (u_view i))).
Proof.
  intros (Vb1 & Vb2 & Vb3) Hspan. unfold u_prev_fix, at_start.
  destruct (t_s (u_view i) =? t_s (u_b i)) eqn:AE; zb.
  - rewrite point_eq. unfold u_reset, errored, in_bounds. simpl. repeat split; auto; lia.
  - assert (STEP : forall sp, 0 <= sp ->
      let i' := step_bwd P D var i sp in
      u_b i' = u_b i /\ (errored i = true -> errored i' = true) /\
      (errored i' = false ->
         in_bounds (u_b i) (u_view i') /\
         (t_s (u_b i) <= t_s (u_view i) <= t_e (u_b i) -> t_e (u_view i') = t_s (u_view i)))).
    { intros sp Hsp. destruct (step_bwd_view i sp) as (V & B & E). simpl. rewrite V, B.
      split; [reflexivity|]. split; [exact E|]. intros _.
      split.
      - destruct (bound_by_spec (span_range (t_s (u_view i)) (-1 * sp)) (u_b i) Vb2) as (a & b & c & d & e).
        assert (Hv : t_s (span_range (t_s (u_view i)) (-1 * sp)) <= t_e (span_range (t_s (u_view i)) (-1 * sp))).
        { unfold span_range. remember (add_clamp (t_s (u_view i)) (-1 * sp)) as cc.
          unfold make_valid, tr_valid, tspan. cbn [t_s t_e].
          destruct (0 <=? cc - t_s (u_view i)) eqn:Q; zb; cbn [t_s t_e]; lia. }
        specialize (e Hv). unfold in_bounds. repeat split; lia.
      - intros Hin. assert (Hm : MINI64 <= t_s (u_view i)) by lia.
        destruct (span_range_bwd (t_s (u_view i)) sp Hsp Hm) as (S1 & S2 & _).
        rewrite bound_by_end; lia. }
    destruct (span =? AUTO) eqn:AU; zb.
    + unfold auto_prev_span.
      destruct (stamp P (t_s (u_view i)) (- chunk) false) as [a|e].
      * apply STEP. lia.
      * simpl. unfold errored. simpl. split; [reflexivity|]. split; [auto|]. discriminate.
    + apply STEP. destruct Hspan; [assumption|contradiction].
Qed.

Lemma next_fix_bounds i span : u_b (u_next_fix P D var chunk i span) = u_b i.
Proof.
  unfold u_next_fix. destruct (at_end i); [reflexivity|].
  destruct (span =? AUTO).
  - unfold auto_next_span. destruct (stamp P (t_e (u_view i)) chunk false); [|reflexivity].
    apply (step_fwd_view i).
  - apply (step_fwd_view i).
Qed.
Lemma prev_fix_bounds i span : u_b (u_prev_fix P D var chunk i span) = u_b i.
Proof.
  unfold u_prev_fix. destruct (at_start i); [reflexivity|].
  destruct (span =? AUTO).
  - unfold auto_prev_span. destruct (stamp P (t_s (u_view i)) (- chunk) false); [|reflexivity].
    apply (step_bwd_view i).
  - apply (step_bwd_view i).
Qed.

End Views.
