(* Cesium/ControlMonitor.v — what is observed after every call (by the harness on the real
   code, by [obs_state] on the model) and the decidable statement of C05 on such observations.
   Plain Coq, no proofs. *)
From Coq Require Import List Bool NArith ZArith.
Import ListNotations.
From Synnax Require Import Cesium.Control.
Local Open Scope N_scope.

(* handle, subject, authority, resource (PeekResource), authorized 0/1, resource returned by Authorize *)
Definition gobs : Type := N * N * N * N * N * N.
Definition xobs : Type := option cstate * option cstate.
(* status code, gate returned, transfer, resource returned by Release *)
Definition oobs : Type := N * bool * xobs * N.
(* start, end, resource, curr (subject, authority, in gates), gates (subject, authority) in
   order of open — absolute positions and the region counter are not compared *)
Definition robs : Type := Z * Z * N * option (N * N * bool) * list (N * N).
Definition sobs : Type := list gobs * option cstate * list robs.
Definition iout : Type := oobs * sobs.

Definition gh (g : gobs) : N := let '(h, _, _, _, _, _) := g in h.
Definition gsubj (g : gobs) : N := let '(_, sj, _, _, _, _) := g in sj.
Definition gauth (g : gobs) : N := let '(_, _, au, _, _, _) := g in au.
Definition gres (g : gobs) : N := let '(_, _, _, rs, _, _) := g in rs.
Definition gaz (g : gobs) : N := let '(_, _, _, _, az, _) := g in az.

Definition st_code (s : ostat) : N :=
  match s with Ok => 0 | Unauth => 1 | Valid => 2 | Multi => 3 | ResFail => 4 | Skip => 5
             | Panic => 6 | Config => 7 end.

(* ---- the model's observations ---- *)
Fixpoint insN (x : N) (l : list N) : list N :=
  match l with [] => [x] | y :: r => if x <=? y then x :: l else y :: insN x r end.
Definition sortN (l : list N) : list N := fold_right insN [] l.

Definition obs_gate (shared : bool) (s : ctl) (h : N) : gobs :=
  match region_of h (c_regions s) with
  | Some r =>
      match find_gate h (r_gates r) with
      | Some g => let '(az, ar) := authorize shared s h in
                  (h, g_subj g, g_auth g, r_res r, if az then 1 else 0, ar)
      | None => (h, 0, 0, 0, 0, 0)
      end
  | None => (h, 0, 0, 0, 0, 0)
  end.

Definition obs_region (r : region) : robs :=
  (t_start (r_tr r), t_end (r_tr r), r_res r,
   match r_curr r with
   | Some h => match find_gate h (r_gates r) with
               | Some g => Some (g_subj g, g_auth g, true)
               | None => None
               end
   | None => None
   end,
   map (fun g => (g_subj g, g_auth g)) (r_gates r)).

Definition obs_gates (shared : bool) (s : ctl) : list gobs :=
  map (obs_gate shared s) (sortN (c_live s)).
Definition obs_state (shared : bool) (s : ctl) : sobs :=
  (obs_gates shared s, leading_state s, map obs_region (c_regions s)).

Definition obs_out (o : out) : oobs :=
  (st_code (out_st o), out_gate o, (x_from (out_x o), x_to (out_x o)), out_res o).

Fixpoint model_trace (fixed shared : bool) (s : ctl) (ops : list op) : list iout :=
  match ops with
  | [] => []
  | o :: rest =>
      let '(s', ou) := step fixed shared s o in
      (obs_out ou, obs_state shared s') :: model_trace fixed shared s' rest
  end.

(* ---- the property, stated on observations ---- *)
Definition ocs_eqb (a b : option cstate) : bool :=
  match a, b with
  | Some x, Some y => cstate_eqb x y
  | None, None => true
  | _, _ => false
  end.
Fixpoint listN_eqb (a b : list N) : bool :=
  match a, b with
  | [], [] => true
  | x :: a', y :: b' => (x =? y) && listN_eqb a' b'
  | _, _ => false
  end.

(* gates of region [rho] in order of open ([order] = live handles, earliest open first) *)
Definition members (rho : N) (gs : list gobs) (order : list N) : list gobs :=
  flat_map (fun h => filter (fun g => (gh g =? h) && (gres g =? rho)) gs) order.
(* highest authority, ties to the earliest open *)
Fixpoint leader (ms : list gobs) : option gobs :=
  match ms with
  | [] => None
  | g :: rest =>
      match leader rest with
      | None => Some g
      | Some m => if gauth m <=? gauth g then Some g else Some m
      end
  end.
Definition spec_holder (gs : list gobs) (order : list N) (rho : N) : option cstate :=
  match leader (members rho gs order) with
  | Some g => Some (gsubj g, gauth g, rho)
  | None => None
  end.

Definition xoccurred (x : xobs) : bool := occurred (X (fst x) (snd x)).

(* the holders reconstructed from the transfers seen so far *)
Definition hmap : Type := list (N * cstate).
Definition hget (H : hmap) (rho : N) : option cstate :=
  match find (fun kv => fst kv =? rho) H with Some kv => Some (snd kv) | None => None end.
Definition hdel (H : hmap) (rho : N) : hmap := filter (fun kv => negb (fst kv =? rho)) H.
Definition happly (H : hmap) (x : xobs) : hmap :=
  if xoccurred x then
    match snd x, fst x with
    | Some t, _ => (snd t, t) :: hdel H (snd t)
    | None, Some f => hdel H (snd f)
    | None, None => H
    end
  else H.

Fixpoint dedup (l : list N) : list N :=
  match l with [] => [] | x :: r => if existsb (N.eqb x) r then dedup r else x :: dedup r end.

Record mstate := MS { m_gs : list gobs; m_order : list N; m_H : hmap }.

Definition next_order (order : list N) (o : op) (st : N) : list N :=
  match o with
  | Open c => if st =? 0 then order ++ [o_h c] else order
  | Release h => if st =? 0 then filter (fun k => negb (k =? h)) order else order
  | SetAuth _ _ => order
  end.

Definition ok_step (shared : bool) (m : mstate) (o : op) (io : iout) : bool * mstate :=
  let '((st, _, x, _), (gs, lead, _)) := io in
  let order := next_order (m_order m) o st in
  let H := happly (m_H m) x in
  let rhos := dedup (map gres (m_gs m) ++ map gres gs ++ map fst H) in
  let before := spec_holder (m_gs m) (m_order m) in
  let after := spec_holder gs order in
  (* the harness reports exactly the gates the caller holds *)
  let c1 := listN_eqb (map gh gs) (sortN order) in
  (* the controller is the highest authority / earliest open; Authorize agrees with it *)
  let c2 := forallb (fun g =>
              match leader (members (gres g) gs order) with
              | None => false
              | Some l =>
                  let should := if shared then gauth g =? gauth l else gh g =? gh l in
                  gaz g =? (if should then 1 else 0)
              end) gs in
  (* exactly one transfer, with the right previous and next holder *)
  let changed := filter (fun rho => negb (ocs_eqb (before rho) (after rho))) rhos in
  let c3 := match changed with
            | [] => negb (xoccurred x)
            | [rho] => ocs_eqb (fst x) (before rho) && ocs_eqb (snd x) (after rho)
            | _ => false
            end in
  (* the transfers so far reconstruct the current holders *)
  let c4 := forallb (fun rho => ocs_eqb (hget H rho) (after rho)) rhos in
  (* LeadingState names the holder of its region *)
  let c5 := match lead with
            | None => match gs with [] => true | _ => false end
            | Some s => ocs_eqb (after (snd s)) (Some s)
            end in
  (c1 && c2 && c3 && c4 && c5, MS gs order H).

Fixpoint ok_trace (shared : bool) (m : mstate) (tr : list (op * iout)) : bool :=
  match tr with
  | [] => true
  | (o, io) :: rest => let '(b, m') := ok_step shared m o io in b && ok_trace shared m' rest
  end.

(* ---- end-to-end cases: cesium writers on one index channel ---- *)
Inductive eop := EOpen (w subj auth : N) (eou : bool) | EWrite (w n : N) | ESet (w a : N) | EClose (w : N).
(* status code, authorized flag (2 = not a write), stamps carried by the write *)
Definition eobs : Type := N * N * list Z.

Definition ts_max : Z := 9223372036854775807.
Fixpoint stamps (next : Z) (n : nat) : list Z :=
  match n with O => [] | S k => next :: stamps (next + 1)%Z k end.

Record estate := ES { e_ctl : ctl; e_next : Z; e_store : list Z }.

(* the writer layer over the control model: a write is persisted iff its gate authorizes *)
Definition e2e_step (shared : bool) (s : estate) (o : eop) : estate * eobs :=
  match o with
  | EOpen w sj au eou =>
      let c := OCfg w sj au (TR (e_next s * 1000000000)%Z ts_max) false eou false in
      let '(c', ou) := step true shared (e_ctl s) (Open c) in
      (ES c' (e_next s) (e_store s), (st_code (out_st ou), 2, []))
  | ESet w a =>
      let '(c', ou) := step true shared (e_ctl s) (SetAuth w a) in
      (ES c' (e_next s) (e_store s), (st_code (out_st ou), 2, []))
  | EClose w =>
      let '(c', ou) := step true shared (e_ctl s) (Release w) in
      (ES c' (e_next s) (e_store s), (st_code (out_st ou), 2, []))
  | EWrite w n =>
      if existsb (N.eqb w) (c_live (e_ctl s)) then
        let k := N.to_nat (N.max n 1) in
        let ts := stamps (e_next s) k in
        let az := fst (authorize shared (e_ctl s) w) in
        (ES (e_ctl s) (e_next s + Z.of_nat k)%Z (if az then e_store s ++ ts else e_store s),
         (0, if az then 1 else 0, ts))
      else (s, (5, 2, []))
  end.

Fixpoint e2e_run (shared : bool) (s : estate) (ops : list eop) : list eobs * list Z :=
  match ops with
  | [] => ([], e_store s)
  | o :: rest =>
      let '(s', ob) := e2e_step shared s o in
      let '(obs, st) := e2e_run shared s' rest in (ob :: obs, st)
  end.


(* ---- end-to-end cases on virtual channels: one (shared-mode) controller per channel, a
   writer holds a gate on each of its channels, a frame is reported authorized iff every
   channel of the frame that the writer holds authorizes (streamWriter.write /
   virtualWriter.write accumulate ErrUnauthorized over the frame) ---- *)
Inductive vop :=
| VOpen (w subj : N) (chans : list (N * N)) (eou : bool)   (* (channel, authority) in cfg order *)
| VWrite (w : N) (keys : list N)                            (* channels in frame order *)
| VSet (w : N) (chans : list (N * N))
| VClose (w : N).
(* status code, authorized flag (2 = not a write) *)
Definition vobs : Type := N * N.

Record vstate := VS { v_ctls : list (N * ctl); v_writers : list (N * list N); v_used : list N }.
Definition vinit : vstate := VS [(1, init); (2, init); (3, init)] [] [].

Definition vhandle (w k : N) : N := w * 8 + k.
Definition vctl (s : vstate) (k : N) : ctl :=
  match find (fun p => fst p =? k) (v_ctls s) with Some p => snd p | None => init end.
Definition vset_ctl (s : vstate) (k : N) (c : ctl) : vstate :=
  VS (map (fun p => if fst p =? k then (k, c) else p) (v_ctls s)) (v_writers s) (v_used s).
Definition vchans (s : vstate) (w : N) : option (list N) :=
  match find (fun p => fst p =? w) (v_writers s) with Some p => Some (snd p) | None => None end.
Definition vrange : trange := TR 10000000000 9223372036854775807.

Definition vrelease (s : vstate) (w : N) (ks : list N) : vstate :=
  fold_left (fun s k => vset_ctl s k (fst (step true true (vctl s k) (Release (vhandle w k))))) ks s.

(* open the channels in cfg order; on the first refusal close what was opened so far *)
Fixpoint vopen (s : vstate) (w subj : N) (eou : bool) (todo : list (N * N)) (done : list N)
  : vstate * ostat :=
  match todo with
  | [] => (VS (v_ctls s) (v_writers s ++ [(w, done)]) (v_used s), Ok)
  | (k, a) :: rest =>
      let '(c', ou) := step true true (vctl s k)
                            (Open (OCfg (vhandle w k) subj a vrange false eou false)) in
      match out_st ou with
      | Ok => vopen (vset_ctl s k c') w subj eou rest (done ++ [k])
      | st => (vrelease (vset_ctl s k c') w done, st)
      end
  end.

Definition e2ev_step (s : vstate) (o : vop) : vstate * vobs :=
  match o with
  | VOpen w subj chans eou =>
      if existsb (N.eqb w) (v_used s) then (s, (5, 2)) else
      let s0 := VS (v_ctls s) (v_writers s) (v_used s ++ [w]) in
      let '(s', st) := vopen s0 w subj eou chans [] in (s', (st_code st, 2))
  | VWrite w keys =>
      match vchans s w with
      | None => (s, (5, 2))
      | Some held =>
          let az := forallb (fun k => if existsb (N.eqb k) held
                                      then fst (authorize true (vctl s k) (vhandle w k))
                                      else true) keys in
          (s, (0, if az then 1 else 0))
      end
  | VSet w chans =>
      match vchans s w with
      | None => (s, (5, 2))
      | Some held =>
          (fold_left (fun s p =>
             if existsb (N.eqb (fst p)) held
             then vset_ctl s (fst p) (fst (step true true (vctl s (fst p)) (SetAuth (vhandle w (fst p)) (snd p))))
             else s) chans s, (0, 2))
      end
  | VClose w =>
      match vchans s w with
      | None => (s, (5, 2))
      | Some held =>
          let s' := vrelease s w held in
          (VS (v_ctls s') (filter (fun p => negb (fst p =? w)) (v_writers s')) (v_used s'), (0, 2))
      end
  end.

Fixpoint e2ev_run (s : vstate) (ops : list vop) : list vobs :=
  match ops with
  | [] => []
  | o :: rest => let '(s', ob) := e2ev_step s o in ob :: e2ev_run s' rest
  end.

(* ---- end-to-end cases on index groups + virtual channels: units 1..3 are index groups
   (exclusive control, persisted), units 4.. are virtual channels (shared control). One
   controller per unit; a writer holds a gate on each of its units. streamWriter.write visits
   every index group of the writer (in Go map order — irrelevant here, the outcome is a
   conjunction) and then the virtual channels: the frame is reported authorized iff every unit
   of the frame that the writer holds authorizes; the samples of an authorized group are
   persisted whatever happens to the other units. ---- *)
Inductive gop :=
| GOpen (w subj : N) (units : list (N * N)) (eou : bool)
| GWrite (w : N) (keys : list N) (n : N)
| GSet (w : N) (units : list (N * N))
| GClose (w : N)
| GCommit (w : N).   (* explicit commit; a no-op for the auto-committing writers modelled here *)

Record gstate := GS { g_ctls : list (N * ctl); g_writers : list (N * list N); g_used : list N;
                      g_next : Z; g_store : list (N * list Z) }.
Definition ginit : gstate :=
  GS [(1, init); (2, init); (3, init); (4, init); (5, init)] [] [] 10 [(1, []); (2, []); (3, [])].

Definition ushared (u : N) : bool := 4 <=? u.
Definition gctl (s : gstate) (k : N) : ctl :=
  match find (fun p => fst p =? k) (g_ctls s) with Some p => snd p | None => init end.
Definition gset_ctl (s : gstate) (k : N) (c : ctl) : gstate :=
  GS (map (fun p => if fst p =? k then (k, c) else p) (g_ctls s)) (g_writers s) (g_used s)
     (g_next s) (g_store s).
Definition gunits (s : gstate) (w : N) : option (list N) :=
  match find (fun p => fst p =? w) (g_writers s) with Some p => Some (snd p) | None => None end.
Definition gustep (s : gstate) (k : N) (o : op) : gstate * out :=
  let '(c', ou) := step true (ushared k) (gctl s k) o in (gset_ctl s k c', ou).

Definition grelease (s : gstate) (w : N) (ks : list N) : gstate :=
  fold_left (fun s k => fst (gustep s k (Release (vhandle w k)))) ks s.

Fixpoint gopen (s : gstate) (w subj : N) (eou : bool) (todo : list (N * N)) (done : list N)
  : gstate * ostat :=
  match todo with
  | [] => (GS (g_ctls s) (g_writers s ++ [(w, done)]) (g_used s) (g_next s) (g_store s), Ok)
  | (k, a) :: rest =>
      let tr := TR (g_next s * 1000000000)%Z ts_max in
      let '(s', ou) := gustep s k (Open (OCfg (vhandle w k) subj a tr false eou false)) in
      match out_st ou with
      | Ok => gopen s' w subj eou rest (done ++ [k])
      | st => (grelease s' w done, st)
      end
  end.

Definition gauthz (s : gstate) (w k : N) : bool :=
  fst (authorize (ushared k) (gctl s k) (vhandle w k)).

Definition e2eg_step (s : gstate) (o : gop) : gstate * eobs :=
  match o with
  | GOpen w subj units eou =>
      if existsb (N.eqb w) (g_used s) then (s, (5, 2, [])) else
      let s0 := GS (g_ctls s) (g_writers s) (g_used s ++ [w]) (g_next s) (g_store s) in
      let '(s', st) := gopen s0 w subj eou units [] in (s', (st_code st, 2, []))
  | GWrite w keys n =>
      match gunits s w with
      | None => (s, (5, 2, []))
      | Some held =>
          let cnt := N.to_nat (N.max n 1) in
          let ts := stamps (g_next s) cnt in
          let mine := filter (fun k => existsb (N.eqb k) held) keys in
          let az := forallb (gauthz s w) mine in
          let store' := map (fun p => if existsb (N.eqb (fst p)) mine && gauthz s w (fst p)
                                      then (fst p, snd p ++ ts) else p) (g_store s) in
          (GS (g_ctls s) (g_writers s) (g_used s) (g_next s + Z.of_nat cnt)%Z store',
           (0, if az then 1 else 0, ts))
      end
  | GSet w units =>
      match gunits s w with
      | None => (s, (5, 2, []))
      | Some held =>
          (fold_left (fun s p => if existsb (N.eqb (fst p)) held
                                 then fst (gustep s (fst p) (SetAuth (vhandle w (fst p)) (snd p)))
                                 else s) units s, (0, 2, []))
      end
  | GCommit w => (s, (match gunits s w with None => 5 | Some _ => 0 end, 2, []))
  | GClose w =>
      match gunits s w with
      | None => (s, (5, 2, []))
      | Some held =>
          let s' := grelease s w held in
          (GS (g_ctls s') (filter (fun p => negb (fst p =? w)) (g_writers s')) (g_used s')
              (g_next s') (g_store s'), (0, 2, []))
      end
  end.

Fixpoint e2eg_run (s : gstate) (ops : list gop) : list eobs * list (N * list Z) :=
  match ops with
  | [] => ([], g_store s)
  | o :: rest =>
      let '(s', ob) := e2eg_step s o in
      let '(obs, st) := e2eg_run s' rest in (ob :: obs, st)
  end.
