(* Cesium/DeleteInv.v — the database invariant [db_ok] is preserved by garbage collection and
   by reopen (it depends on the storage only through what the pointers address), so the
   delete theorems apply again after them. *)
From Coq Require Import ZArith List Bool Lia.
From Synnax Require Import Cesium.Store Cesium.StoreProofs Cesium.IndexSearch Cesium.Distance
  Cesium.Stamp Cesium.DeleteModel Cesium.GCModel Cesium.DeleteBase Cesium.DeleteSearch
  Cesium.DeleteDistance Cesium.DeleteOffsets Cesium.DeleteContent Cesium.DeleteExact
  Cesium.ReadExact Cesium.DeleteDB Cesium.GCProofs Cesium.DeleteCheck Cesium.DeleteIndex.
Import ListNotations.
Local Open Scope Z_scope.

(* ------------------------------------------------------------------ views decide the invariant *)
Lemma Forall2_pview_aligned G c c' :
  cview c = cview c' -> Forall (aligned_ptr G c) (c_ptrs c) -> Forall (aligned_ptr G c') (c_ptrs c').
Proof.
  intros E H. pose proof (cview_ptrs c c' E) as F. induction F as [|p p' l l' Hp _ IH]; [constructor|].
  inversion H; subst. constructor; [|apply IH; assumption].
  unfold pview in Hp. injection Hp as E1 E2 E3. unfold aligned_ptr in *. rewrite <- E1, <- E3. assumption.
Qed.

Lemma Forall2_pview_rng c c' :
  cview c = cview c' ->
  Forall (fun p => 0 <= t_s (p_tr p) /\ t_e (p_tr p) <= MAXTS) (c_ptrs c) ->
  Forall (fun p => 0 <= t_s (p_tr p) /\ t_e (p_tr p) <= MAXTS) (c_ptrs c').
Proof.
  intros E H. pose proof (cview_ptrs c c' E) as F. induction F as [|p p' l l' Hp _ IH]; [constructor|].
  inversion H; subst. constructor; [|apply IH; assumption].
  unfold pview in Hp. injection Hp as E1 E2 E3. rewrite <- E1. assumption.
Qed.

Lemma chan_ok_equiv G c c' :
  chan_ok G c -> chan_equiv c c' -> wf_chan c' -> dens_ok c' -> chan_ok G c'.
Proof.
  intros [Hwf Hd Hal Hr] (_ & _ & _ & _ & E) Hwf' Hd'. constructor; auto.
  - eapply Forall2_pview_aligned; eauto.
  - eapply Forall2_pview_rng; eauto.
Qed.

Theorem db_ok_equiv d d' :
  db_ok d -> db_equiv d d' ->
  (forall k c', alookup k d' = Some c' -> wf_chan c' /\ dens_ok c') ->
  db_ok d'.
Proof.
  intros Hok He Hwd k c' Hk.
  pose proof (alookup_equiv d d' k He) as Hkk. rewrite Hk in Hkk.
  destruct (alookup k d) as [c|] eqn:Ec; [|contradiction].
  destruct (Hok k c Ec) as (Hw & Hc & (i & Hi & Hii) & Hself).
  assert (Hidx : index_doms d' c' = index_doms d c).
  { unfold index_doms. destruct Hkk as (_ & Hix & _). rewrite <- Hix.
    pose proof (alookup_equiv d d' (c_index c) He) as Hj. rewrite Hi in Hj.
    destruct (alookup (c_index c) d') as [i'|]; [|contradiction]. rewrite Hi. symmetry. apply chan_equiv_doms. exact Hj. }
  destruct (Hwd k c' Hk) as [Hwf' Hd'].
  unfold chan_in_db_ok. rewrite Hidx. split; [exact Hw|]. split; [eapply chan_ok_equiv; eauto|]. split.
  - destruct Hkk as (_ & Hix & _). rewrite <- Hix.
    pose proof (alookup_equiv d d' (c_index c) He) as Hj. rewrite Hi in Hj.
    destruct (alookup (c_index c) d') as [i'|]; [|contradiction]. exists i'. split; [reflexivity|].
    destruct Hj as (Hj & _). congruence.
  - destruct Hkk as (H1 & H2 & _). rewrite <- H1, <- H2. exact Hself.
Qed.

(* ------------------------------------------------------------------ GC keeps the sample sizes *)
Lemma gc_file_samples g c k k' f s :
  wf_chan c -> alookup k' (c_files (gc_file g c k)) = Some f -> In s f ->
  exists k'' f'', alookup k'' (c_files c) = Some f'' /\ In s f''.
Proof.
  intros Hwf. unfold gc_file.
  destruct (_ <? g_thr g); [intros; eauto|].
  destruct (gc_copy c (filter (on_file k) (c_ptrs c)) [] [] 0) as [nf dm] eqn:E. simpl.
  destruct (Z.eq_dec k' k) as [->|Hne].
  - rewrite alookup_aset_eq. intros [= <-] Hs.
    assert (Hnf : nf = flat_map (ptr_samples c) (filter (on_file k) (c_ptrs c))).
    { pose proof (gc_copy_fst c (filter (on_file k) (c_ptrs c)) [] [] 0) as H. rewrite E in H. exact H. }
    rewrite Hnf in Hs. apply in_flat_map in Hs as (p & Hp & Hs). apply filter_In in Hp as [Hp _].
    pose proof (wf_aligned c Hwf) as Ha. rewrite Forall_forall in Ha.
    pose proof (ptr_samples_in_file c p s (Ha p Hp) Hs) as Hf. unfold file_of in Hf.
    destruct (alookup (p_file p) (c_files c)) eqn:Ef; [eauto|contradiction].
  - rewrite alookup_aset_ne by exact Hne. intros; eauto.
Qed.

Lemma gc_file_dens g c k : wf_chan c -> dens_ok c -> dens_ok (gc_file g c k).
Proof.
  intros Hwf Hd Hv. destruct (gc_file_static g c k) as (_ & _ & Hv' & Hd' & _).
  rewrite Hv' in Hv. destruct (Hd Hv) as [Hpos Hall]. rewrite Hd'. split; [exact Hpos|].
  intros k' f s Hk Hs. destruct (gc_file_samples g c k k' f s Hwf Hk Hs) as (k'' & f'' & Hk'' & Hs''). eauto.
Qed.

Lemma gc_files_dens g : forall ks c, wf_chan c -> dens_ok c -> dens_ok (gc_files g c ks).
Proof.
  induction ks as [|k ks IH]; intros c Hwf Hd; simpl; [exact Hd|].
  destruct (existsb (Z.eqb k) (c_open c)); [apply IH; assumption|].
  apply IH; [apply gc_file_wf; assumption|apply gc_file_dens; assumption].
Qed.

Lemma gc_chan_dens g c : wf_chan c -> dens_ok c -> dens_ok (gc_chan g c).
Proof.
  intros Hwf Hd. unfold gc_chan. apply gc_files_dens.
  - destruct Hwf as [A B C]. constructor; assumption.
  - exact Hd.
Qed.

Lemma alookup_map {A} (f : A -> A) k (l : list (Z * A)) :
  alookup k (map (fun kc => (fst kc, f (snd kc))) l) = option_map f (alookup k l).
Proof.
  induction l as [|[k' v] l IH]; simpl; [reflexivity|]. destruct (k =? k'); [reflexivity|exact IH].
Qed.

Lemma db_ok_wf_chans d : db_ok d -> forall k c, alookup k d = Some c -> wf_chan c /\ dens_ok c.
Proof. intros H k c Hk. destruct (H k c Hk) as (_ & Hc & _). split; apply Hc. Qed.

(* garbage collection keeps the whole invariant *)
Theorem gc_db_ok g d :
  db_ok d -> NoDup (map fst d) -> db_ok (gc_db g d) /\ NoDup (map fst (gc_db g d)).
Proof.
  intros Hok Hnd. pose proof (db_ok_wf d Hok Hnd) as Hwf.
  destruct (gc_db_equiv g d Hwf) as [He _]. split.
  - apply (db_ok_equiv d (gc_db g d) Hok (db_equiv_sym _ _ He)).
    intros k c' Hk. unfold gc_db in Hk. rewrite alookup_map in Hk.
    destruct (alookup k d) as [c|] eqn:Ec; [|discriminate]. simpl in Hk. inversion Hk; subst c'.
    destruct (db_ok_wf_chans d Hok k c Ec) as [Hw Hd]. split; [apply gc_chan_view; exact Hw|apply gc_chan_dens; assumption].
  - unfold gc_db. rewrite map_map. simpl. exact Hnd.
Qed.

(* ... and so does reopen *)
Theorem reopen_db_ok d :
  db_ok d -> NoDup (map fst d) -> db_ok (reopen_db d) /\ NoDup (map fst (reopen_db d)).
Proof.
  intros Hok Hnd. destruct (reopen_db_equiv d) as [He _]. split.
  - apply (db_ok_equiv d (reopen_db d) Hok (db_equiv_sym _ _ He)).
    intros k c' Hk. unfold reopen_db in Hk. rewrite alookup_map in Hk.
    destruct (alookup k d) as [c|] eqn:Ec; [|discriminate]. simpl in Hk. inversion Hk; subst c'.
    destruct (db_ok_wf_chans d Hok k c Ec) as [[A B C] Hd]. split; [constructor; assumption|exact Hd].
  - unfold reopen_db. rewrite map_map. simpl. exact Hnd.
Qed.

(* DeleteTimeRange keeps the keys *)
Lemma aset_keys_present {A} k (v : A) l : alookup k l <> None -> map fst (aset k v l) = map fst l.
Proof. apply aset_keys. Qed.

Lemma delete_one_keys fx d k t d' : delete_one fx d k t = Ok d' -> map fst d' = map fst d.
Proof.
  unfold delete_one. destruct (alookup k d) as [c|] eqn:E; [|intros [= <-]; reflexivity].
  destruct (unary_delete fx (index_doms d c) c t); simpl; [|discriminate].
  intros [= <-]. apply aset_keys. rewrite E. discriminate.
Qed.

Lemma delete_data_keys fx t : forall ks d d' e, delete_data fx d ks t = (d', e) -> map fst d' = map fst d.
Proof.
  induction ks as [|k ks IH]; intros d d' e; simpl; [intros [= <- _]; reflexivity|].
  destruct (delete_one fx d k t) as [d1|e1] eqn:E1; [|intros [= <- _]; reflexivity].
  intros H. rewrite (IH d1 d' e H). eapply delete_one_keys; eauto.
Qed.

Lemma delete_index_keys fx t : forall ks d d' e, delete_index fx d ks t = (d', e) -> map fst d' = map fst d.
Proof.
  induction ks as [|k ks IH]; intros d d' e; simpl; [intros [= <- _]; reflexivity|].
  destruct (dependants_have_data d k t); [intros [= <- _]; reflexivity|].
  destruct (delete_one fx d k t) as [d1|e1] eqn:E1; [|intros [= <- _]; reflexivity].
  intros H. rewrite (IH d1 d' e H). eapply delete_one_keys; eauto.
Qed.

Lemma delete_time_range_keys fx d chs t d' e :
  delete_time_range fx d chs t = (d', e) -> map fst d' = map fst d.
Proof.
  unfold delete_time_range. destruct (classify d chs) as [[ix da]|]; [|intros [= <- _]; reflexivity].
  destruct (delete_data fx d da t) as [d1 [e1|]] eqn:Ed.
  - intros [= <- _]. eapply delete_data_keys; eauto.
  - intros H. rewrite (delete_index_keys fx t ix d1 d' e H). eapply delete_data_keys; eauto.
Qed.

(* one step of a history keeps the invariant: a successful DeleteTimeRange over any channels,
   a GC pass at any threshold, a reopen *)
Definition in_scope (o : op) : Prop :=
  match o with
  | ODelete _ _ _ | OGC | OReopen => True
  | OWrite _ _ => False
  end.

Theorem step_keeps_invariant g d o d' :
  db_ok d -> NoDup (map fst d) -> in_scope o -> step true g d o = (d', None) ->
  db_ok d' /\ NoDup (map fst d').
Proof.
  intros Hok Hnd Hs. destruct o as [start ws|chs a b| |]; simpl in *.
  - contradiction.
  - intros Hd. split.
    + apply (delete_exact_general d chs a b d' Hok Hd).
    + rewrite (delete_time_range_keys _ _ _ _ _ _ Hd). exact Hnd.
  - intros [= <-]. apply gc_db_ok; assumption.
  - intros [= <-]. apply reopen_db_ok; assumption.
Qed.

(* whole histories of deletes, GC passes and reopens, from any state satisfying the invariant
   (e.g. any state produced by writes that the check db_okb accepts) *)
Fixpoint run_ok (g : gcfg) (d : db) (ops : list op) : Prop :=
  match ops with
  | [] => True
  | o :: r => in_scope o /\ snd (step true g d o) = None /\ run_ok g (fst (step true g d o)) r
  end.

Theorem history_keeps_invariant g : forall ops d,
  db_ok d -> NoDup (map fst d) -> run_ok g d ops ->
  db_ok (run true g d ops) /\ NoDup (map fst (run true g d ops)).
Proof.
  induction ops as [|o r IH]; intros d Hok Hnd Hr; simpl; [auto|].
  destruct Hr as (Hs & He & Hr).
  destruct (step true g d o) as [d1 e] eqn:Es. simpl in *. subst e.
  destruct (step_keeps_invariant g d o d1 Hok Hnd Hs Es) as [Hok1 Hnd1].
  apply IH; assumption.
Qed.
