(* Cesium/Read.v — (1) the abstract specification [committed]: which (stamp, value) pairs a
   history makes visible, independent of domains, files, searches; (2) cesium.DB.Read /
   OpenIterator on the model state (db.go Read = SeekFirst; Next(TimeSpanMax)* over the
   unary iterators of the requested channels).  No proofs in this file. *)
From Coq Require Import ZArith List Bool.
From Synnax Require Import Cesium.Store Cesium.IndexSearch Cesium.Distance Cesium.Stamp
     Cesium.UnaryIter Cesium.UnaryWrite.
Import ListNotations.
Local Open Scope Z_scope.

(* ---- specification ---- *)
Definition assoc := list (Z * Z).     (* (stamp, value), ascending stamps *)

Fixpoint ins_sorted (p : Z * Z) (l : assoc) : assoc :=
  match l with
  | [] => [p]
  | q :: r => if fst p <? fst q then p :: l else q :: ins_sorted p r
  end.
Definition merge_sorted (ps l : assoc) : assoc := fold_left (fun acc p => ins_sorted p acc) ps l.

Fixpoint zipz (a b : list Z) : assoc :=
  match a, b with x :: a', y :: b' => (x, y) :: zipz a' b' | _, _ => [] end.

Fixpoint aget {V} (l : list (Z * V)) (k : Z) : option V :=
  match l with [] => None | (k', v) :: r => if k' =? k then Some v else aget r k end.
Fixpoint aput {V} (l : list (Z * V)) (k : Z) (v : V) : list (Z * V) :=
  match l with
  | [] => [(k, v)]
  | (k', v') :: r => if k' =? k then (k, v) :: r else (k', v') :: aput r k v
  end.
Definition agetd {V} (l : list (Z * V)) (k : Z) (d : V) : V :=
  match aget l k with Some v => v | None => d end.

Record spec_writer := SW {
  sw_start : Z;
  sw_auto : bool;
  sw_keys : list Z;
  sw_pend : list (Z * assoc);            (* written with their index stamps, not yet committed *)
  sw_raw : list (Z * (list Z * Z))       (* groups not writing their index: all values of the
                                            session and how many of them are committed *)
}.
Record spec_state := SP {
  sp_chans : list (Z * Z);               (* key -> index key (own key for an index channel) *)
  sp_comm : list (Z * assoc);
  sp_w : option spec_writer
}.

Definition spec_commit (s : spec_state) (w : spec_writer) : spec_state :=
  let comm1 := fold_left (fun cm kp => aput cm (fst kp) (merge_sorted (snd kp) (agetd cm (fst kp) [])))
                         (sw_pend w) (sp_comm s) in
  let '(comm2, raw2) :=
    fold_left (fun acc kr =>
      let '(cm, raws) := acc in
      let '(k, (vals, ndone)) := kr in
      let ik := agetd (sp_chans s) k k in
      let stamps := filter (fun t => sw_start w <=? t) (map fst (agetd cm ik [])) in
      let pairs := skipn (Z.to_nat ndone) (zipz stamps vals) in
      (aput cm k (merge_sorted pairs (agetd cm k [])), raws ++ [(k, (vals, zlen vals))]))
      (sw_raw w) (comm1, []) in
  SP (sp_chans s) comm2
     (Some (SW (sw_start w) (sw_auto w) (sw_keys w) (map (fun kp => (fst kp, [])) (sw_pend w)) raw2)).

Definition spec_write (s : spec_state) (w : spec_writer) (f : frame) : spec_writer :=
  fold_left (fun w k =>
    match frame_get f k with
    | None => w
    | Some vs =>
        let ik := agetd (sp_chans s) k k in
        if existsb (Z.eqb ik) (sw_keys w) then
          match frame_get f ik with
          | Some stamps =>
              SW (sw_start w) (sw_auto w) (sw_keys w)
                 (aput (sw_pend w) k (agetd (sw_pend w) k [] ++ zipz stamps vs)) (sw_raw w)
          | None => w
          end
        else
          let '(old, nd) := agetd (sw_raw w) k ([], 0) in
          SW (sw_start w) (sw_auto w) (sw_keys w) (sw_pend w) (aput (sw_raw w) k (old ++ vs, nd))
    end) (sw_keys w) w.

(* one step of the history together with the outcome the implementation reported
   (error class, 0 = success): only successful writes / commits count *)
Definition spec_step (s : spec_state) (o : wop) (code : Z) : spec_state :=
  let drop := SP (sp_chans s) (sp_comm s) None in
  match o with
  | WOpen keys start auto =>
      if code =? 0 then SP (sp_chans s) (sp_comm s) (Some (SW start auto keys [] [])) else drop
  | WWrite f =>
      match sp_w s with
      | None => s
      | Some w =>
          if code =? 0 then
            let w' := spec_write s w f in
            if sw_auto w then spec_commit s w' else SP (sp_chans s) (sp_comm s) (Some w')
          else drop
      end
  | WCommit =>
      match sp_w s with
      | None => s
      | Some w => if code =? 0 then spec_commit s w else drop
      end
  | WWriteFault f _ _ =>
      (* a write hit by an injected short write fails as a whole (code <> 0); if the fault did
         not fire it is an ordinary write *)
      match sp_w s with
      | None => s
      | Some w =>
          if code =? 0 then
            let w' := spec_write s w f in
            if sw_auto w then spec_commit s w' else SP (sp_chans s) (sp_comm s) (Some w')
          else drop
      end
  | WClose | WReopen => drop
  end.

Fixpoint spec_run (s : spec_state) (ops : list wop) (codes : list Z) : spec_state :=
  match ops, codes with
  | o :: r, c :: cs => spec_run (spec_step s o c) r cs
  | _, _ => s
  end.

Definition spec_init (chs : list (Z * Z * Z)) : spec_state :=
  SP (map (fun c => let k := fst (fst c) in let i := snd (fst c) in (k, if i =? 0 then k else i)) chs) [] None.

(* committed h ch *)
Definition committed (chs : list (Z * Z * Z)) (ops : list wop) (codes : list Z) (k : Z) : assoc :=
  agetd (sp_comm (spec_run (spec_init chs) ops codes)) k [].

Definition in_range (t : tr) (p : Z * Z) : bool := contains_stamp t (fst p).
Definition read_spec (a : assoc) (t : tr) : list Z := map snd (filter (in_range t) a).

(* ---- DB.Read on the model ---- *)
Definition DEFAULT_CHUNK : Z := 100000.
Definition eff_chunk (c : Z) : Z := if c =? 0 then DEFAULT_CHUNK else c.

Definition chan_layout (d : db) (k : Z) : list dom * list dom * bool :=
  match get_chan d k with
  | None => ([], [], false)
  | Some c => (doms_of d (c_index_key c), c_doms c, is_var (c_kind c))
  end.

(* one channel of DB.Read: SeekFirst; for Next(TimeSpanMax) { extend } *)
Fixpoint read_loop (fuel : nat) (P D : list dom) (var : bool) (i : uiter) (acc : list series) : list series :=
  match fuel with
  | O => acc
  | S f =>
      let i' := u_next P D var DEFAULT_CHUNK false i MAXTS in
      if u_valid i' then read_loop f P D var i' (acc ++ u_frame i') else acc
  end.

Definition read_chan (d : db) (k : Z) (t : tr) : list series :=
  let '(P, D, var) := chan_layout d k in
  let '(i, ok) := u_seek_first D (u_open t) in
  if negb ok then [] else read_loop (4 + length D) P D var i [].

(* ---- DB.Read over several channels (streamIterator: every command goes to every unary
   iterator, the acknowledgement is the OR; only valid iterators contribute their frame) ---- *)
Record rchan := RC { rc_key : Z; rc_P : list dom; rc_D : list dom; rc_var : bool; rc_it : uiter; rc_acc : list series }.

Definition rc_next (r : rchan) : rchan :=
  let i' := u_next (rc_P r) (rc_D r) (rc_var r) DEFAULT_CHUNK false (rc_it r) MAXTS in
  RC (rc_key r) (rc_P r) (rc_D r) (rc_var r) i'
     (if u_valid i' then rc_acc r ++ u_frame i' else rc_acc r).

Fixpoint db_read_loop (fuel : nat) (rs : list rchan) : list rchan :=
  match fuel with
  | O => rs
  | S f =>
      let rs' := map rc_next rs in
      if existsb (fun r => u_valid (rc_it r)) rs' then db_read_loop f rs' else rs'
  end.

(* None: a requested channel does not exist (OpenIterator fails with "not found") *)
Definition db_read (d : db) (keys : list Z) (t : tr) : option (list (Z * list series)) :=
  if negb (forallb (fun k => match get_chan d k with Some _ => true | None => false end) keys) then None else
  let opened := map (fun k => let '(P, D, var) := chan_layout d k in
                              let '(i, ok) := u_seek_first D (u_open t) in
                              (RC k P D var i [], ok)) keys in
  if negb (existsb snd opened) then Some (map (fun k => (k, [])) keys) else
  let fuel := (4 + fold_left (fun n r => n + length (rc_D (fst r))) opened 0)%nat in
  Some (map (fun r => (rc_key r, rc_acc r)) (db_read_loop fuel (map fst opened))).
