(* Cesium/ReadProofsBwd.v — SeekLast puts the view where the stored content of the bounds
   ends; a backward traversal from it visits every in-bounds sample exactly once. *)
From Coq Require Import ZArith List Bool Lia Sorting.Sorted.
From Synnax Require Import Cesium.LayoutOk Cesium.Store Cesium.StoreProofs Cesium.IndexSearch Cesium.IndexSearchProofs
     Cesium.Distance Cesium.Stamp Cesium.DomIterProofs Cesium.UnaryIter Cesium.UnaryIterViews
     Cesium.DistanceProofs Cesium.UnaryIterExact Cesium.SliceProofs Cesium.UnaryIterSpec Cesium.Read
     Cesium.UnaryIterViewsRun Cesium.UnaryIterRun Cesium.TruthProofs Cesium.UnaryWrite Cesium.ReadProofs.
Import ListNotations.
Local Open Scope Z_scope.

Section Reads.
Variable P D : list dom.
Variable var : bool.
Variable chunk : Z.
Hypothesis HL : layout_ok P D.

Notation truth := (layout_assoc P D).

Lemma HD' : lay D. Proof. apply HL. Qed.
Lemma asc_truth : asc truth. Proof. apply layout_assoc_asc; apply HL. Qed.

Lemma wrap64_id x : MINI64 <= x <= MAXTS -> wrap64 x = x.
Proof.
  intros H. unfold wrap64, MINI64, MAXTS in *.
  rewrite Z.mod_small by lia. lia.
Qed.

Lemma seek_last_spec i : inv i -> 0 <= t_s (u_b i) ->
  let i0 := fst (u_seek_last D i) in
  let b := u_b i in
  inv i0 /\ u_b i0 = b /\ u_err i0 = None /\ u_frame i0 = [] /\
  exists p0, u_view i0 = TR p0 p0 /\ t_s b <= p0 <= t_e b /\ read_spec truth (TR p0 (t_e b)) = [].
Proof.
  intros (Hs & Hb) H0. cbv zeta. destruct Hb as (V1 & V2 & V3).
  unfold u_seek_last, di_seek_last. unfold synced in Hs. rewrite Hs.
  rewrite wrap64_id by (unfold MINI64, MAXTS in *; lia).
  pose proof (seek_le_b D (u_di i) (t_e (u_b i) - 1)) as SB.
  pose proof (seek_le_spec' D (u_di i) (t_e (u_b i) - 1) HD') as SG. rewrite Hs in SG.
  destruct (le_pos_spec D (t_e (u_b i) - 1) HD') as (Rj & LE & GT).
  set (j := le_pos (t_e (u_b i) - 1) D) in *.
  destruct (di_seek_le D (u_di i) (t_e (u_b i) - 1)) as [dd ok] eqn:SEEK. cbn [fst snd] in *.
  split; [split; [unfold synced, u_seek_reset, u_set_di; cbn; rewrite SB; exact Hs|unfold u_seek_reset, u_set_di; cbn; repeat split; assumption]|].
  split; [reflexivity|]. split; [reflexivity|]. split; [reflexivity|].
  exists (t_e (bound_by (di_tr dd) (u_b i))).
  split; [unfold u_seek_reset; cbn [u_view]; apply point_eq|].
  destruct (bound_by_spec (di_tr dd) (u_b i) V2) as (_ & _ & A1 & A2 & _).
  split; [lia|].
  assert (AFTER : forall m d, znth D m = Some d -> j < m -> t_e (u_b i) <= t_s (d_tr d))
    by (intros m d Hm Hlt; specialize (GT m d Hm Hlt); lia).
  destruct (znth D j) as [p|] eqn:Hj.
  - pose proof (lay_nth_wf D HD' _ _ Hj) as Wp. unfold dwf in Wp.
    assert (Hps : t_s (d_tr p) < t_e (u_b i)) by (pose proof (LE j p Hj ltac:(lia)); lia).
    destruct (overlaps (d_tr p) (u_b i)) eqn:Ob.
    + inversion SG; subst dd ok. unfold di_tr. cbn [di_cur].
      destruct (Z.eq_dec (t_s (u_b i)) (t_e (u_b i))) as [Eb|Nb].
      * apply read_spec_empty. cbn [t_s t_e]. destruct (bound_by_spec (d_tr p) (u_b i) V2) as (_ & _ & a1 & a2 & _). lia.
      * rewrite (overlaps_nonempty (d_tr p) (u_b i) Wp ltac:(lia)) in Ob. apply Z.ltb_lt in Ob.
        rewrite bound_by_inter by lia. cbn [t_e].
        destruct (Z_le_gt_dec (t_e (u_b i)) (t_e (d_tr p))) as [Hle|Hgt].
        -- apply read_spec_empty. cbn [t_s t_e]. lia.
        -- rewrite Z.min_l by lia. apply (read_spec_no_domain P D _ HD'). cbn [t_s t_e].
           intros d Hd. destruct (In_znth_lt _ _ Hd) as (m & Rm & Hm).
           destruct (Z_lt_ge_dec j m) as [Hjm|Hjm]; [left; apply (AFTER m d Hm Hjm)|right].
           destruct (Z.eq_dec m j) as [->|Nmj]; [assert (d = p) by congruence; subst; lia|].
           destruct (lay_nth D HD' m j d p Hm Hj ltac:(lia)) as (X1 & X2 & X3). lia.
    + apply (read_spec_no_domain P D _ HD'). cbn [t_s t_e].
      assert (Hpe : t_e (d_tr p) <= t_s (u_b i)).
      { destruct (Z.eq_dec (t_s (u_b i)) (t_e (u_b i))) as [Eb|Nb].
        - rewrite (overlaps_valid (d_tr p) (u_b i) Wp V2) in Ob.
          destruct (t_s (u_b i) =? t_e (u_b i)) eqn:Q; zb; [|lia].
          unfold contains_stamp in Ob. apply andb_false_iff in Ob. destruct Ob; zb; lia.
        - rewrite (overlaps_nonempty (d_tr p) (u_b i) Wp ltac:(lia)) in Ob. apply Z.ltb_ge in Ob. lia. }
      intros d Hd. destruct (In_znth_lt _ _ Hd) as (m & Rm & Hm).
      destruct (Z_lt_ge_dec j m) as [Hjm|Hjm]; [left|right].
      * pose proof (AFTER m d Hm Hjm). destruct (bound_by_spec (di_tr dd) (u_b i) V2) as (_ & _ & _ & a2 & _). lia.
      * assert (t_e (d_tr d) <= t_e (d_tr p)).
        { destruct (Z.eq_dec m j) as [->|Nmj]; [assert (d = p) by congruence; subst; lia|].
          destruct (lay_nth D HD' m j d p Hm Hj ltac:(lia)) as (X1 & X2 & X3). lia. }
        destruct (bound_by_spec (di_tr dd) (u_b i) V2) as (_ & _ & a1 & _ & _). lia.
  - apply (read_spec_no_domain P D _ HD'). cbn [t_s t_e]. intros d Hd. left.
    destruct (In_znth_lt _ _ Hd) as (m & Rm & Hm).
    apply znth_None in Hj. pose proof (AFTER m d Hm ltac:(lia)).
    destruct (bound_by_spec (di_tr dd) (u_b i) V2) as (_ & _ & _ & a2 & _). lia.
Qed.

Definition bwd_cmd (c : cmd) : Prop := match c with Prev s => 0 <= s | PrevAuto => True | _ => False end.
Lemma bwd_cmd_ok c : bwd_cmd c -> cmd_ok c.
Proof. destruct c; simpl; auto; intros []. Qed.

Lemma bwd_traverse : forall steps i e0,
  inv i -> u_err i = None -> t_s (u_view i) = e0 -> t_s (u_b i) <= e0 <= t_e (u_b i) ->
  Forall bwd_cmd steps ->
  let os := u_run P D var chunk false i steps in
  Forall (fun o => o_err o = 0) os ->
  exists e1, t_s (u_b i) <= e1 <= e0 /\
    e1 = t_s (o_view (last os (observe i true))) /\
    concat (map (fun o => frame_data (o_frame o)) (rev os)) = read_spec truth (TR e1 e0).
Proof.
  induction steps as [|c cs IH]; intros i e0 Hi He Hv Hin Hst os Herr.
  - exists e0. subst os. cbn. split; [lia|]. split; [symmetry; exact Hv|]. rewrite read_spec_empty; [reflexivity|cbn; lia].
  - apply Forall_cons_iff in Hst. destruct Hst as [Hc Hcs]. subst os. cbn [u_run] in *.
    destruct (cmd_exact P D var chunk HL i c Hi (bwd_cmd_ok c Hc)) as (I1 & X1).
    assert (SPEC : let i' := fst (u_step P D var chunk false i c) in
                   u_b i' = u_b i /\ (errored i' = false -> in_bounds (u_b i) (u_view i') /\ t_e (u_view i') = e0)).
    { destruct Hi as (Hs & Hb). destruct c; cbn [bwd_cmd] in Hc; try contradiction; cbn [u_step fst]; unfold u_prev; cbv iota.
      - destruct (prev_fix_spec P D var chunk i span Hb (or_introl Hc)) as (B & _ & Q).
        split; [exact B|]. intros E. destruct (Q E) as (Q1 & Q2). split; [exact Q1|]. rewrite Q2; lia.
      - destruct (prev_fix_spec P D var chunk i AUTO Hb (or_intror eq_refl)) as (B & _ & Q).
        split; [exact B|]. intros E. destruct (Q E) as (Q1 & Q2). split; [exact Q1|]. rewrite Q2; lia. }
    destruct (u_step P D var chunk false i c) as [i1 ok1]. cbn [fst] in *. cbv zeta in SPEC.
    destruct SPEC as (Bb & SP).
    apply Forall_cons_iff in Herr. destruct Herr as [H0 Herr].
    assert (E1 : u_err i1 = None).
    { unfold observe in H0. cbn [o_err] in H0. destruct (u_err i1) as [e|]; [exfalso; exact (err_code_nonzero e H0)|reflexivity]. }
    assert (Er : errored i1 = false) by (unfold errored; rewrite E1; reflexivity).
    destruct (SP Er) as ((a1 & a2 & a3) & St).
    specialize (IH i1 (t_s (u_view i1)) I1 E1 eq_refl ltac:(rewrite Bb; lia) Hcs Herr).
    destruct IH as (e1 & R1 & L1 & C1). rewrite Bb in R1.
    exists e1. split; [lia|]. split.
    + rewrite L1. destruct (u_run P D var chunk false i1 cs) as [|o l] eqn:RUN; [reflexivity|].
      change (last (observe i1 ok1 :: o :: l) (observe i true)) with (last (o :: l) (observe i true)).
      rewrite (last_default l o (observe i true) (observe i1 true)). reflexivity.
    + cbn [rev]. rewrite map_app, concat_app. cbn [map concat]. rewrite app_nil_r. rewrite C1.
      unfold observe at 1. cbn [o_frame].
      rewrite (X1 E1).
      replace (read_spec truth (u_view i1)) with (read_spec truth (TR (t_s (u_view i1)) e0)) by (rewrite <- St; destruct (u_view i1); reflexivity).
      apply read_spec_adjacent; [exact asc_truth|lia].
Qed.

End Reads.

(* A full backward traversal: SeekLast, then backward steps of any spans (explicit or
   automatic) none of which reports an error, the last view reaching the start of the bounds:
   the values returned, taken in reverse step order, are the stored samples of the bounds —
   each exactly once, in ascending order. *)
Theorem full_traversal_bwd : forall P D var chunk b steps,
  layout_ok P D -> valid_bounds b -> 0 <= t_s b -> Forall bwd_cmd steps ->
  let os := u_run P D var chunk false (u_open b) (SeekLast :: steps) in
  Forall (fun o => o_err o = 0) os ->
  t_s (o_view (last os (observe (u_open b) true))) = t_s b ->
  concat (map (fun o => frame_data (o_frame o)) (rev os)) = read_spec (layout_assoc P D) b.
Proof.
  intros P D var chunk b steps HL Hb Hb0 Hst os Herr Hlast. subst os.
  assert (Hi : inv (u_open b)) by (split; [reflexivity|exact Hb]).
  destruct (seek_last_spec P D HL (u_open b) Hi Hb0) as (I0 & B0 & E0 & F0 & p0 & V0 & R0 & N0).
  cbn [u_run] in *. cbn [u_step] in *.
  destruct (u_seek_last D (u_open b)) as [i0 ok0]. cbn [fst] in *.
  change (u_b (u_open b)) with b in *.
  apply Forall_cons_iff in Herr. destruct Herr as [_ Herr].
  destruct (bwd_traverse P D var chunk HL steps i0 p0 I0 E0 ltac:(rewrite V0; reflexivity) ltac:(rewrite B0; lia) Hst Herr)
    as (e1 & R1 & L1 & C1).
  cbn [rev]. rewrite map_app, concat_app. cbn [map concat].
  change (o_frame (observe i0 ok0)) with (u_frame i0). rewrite F0.
  cbn [frame_data map concat app]. rewrite app_nil_r. rewrite C1.
  assert (e1 = t_s b).
  { rewrite L1. rewrite <- Hlast. destruct (u_run P D var chunk false i0 steps) as [|o l] eqn:RUN.
    - cbn [last]. unfold observe. cbn [o_view]. rewrite V0. reflexivity.
    - change (last (observe i0 ok0 :: o :: l) (observe (u_open b) true)) with (last (o :: l) (observe (u_open b) true)).
      rewrite (last_default l o (observe (u_open b) true) (observe i0 true)). reflexivity. }
  subst e1. rewrite H in *.
  replace (read_spec (layout_assoc P D) b) with (read_spec (layout_assoc P D) (TR (t_s b) (t_e b))) by (destruct b; reflexivity).
  rewrite <- (read_spec_adjacent (layout_assoc P D) (t_s b) p0 (t_e b)); [|apply layout_assoc_asc; apply HL|lia].
  rewrite N0, app_nil_r. reflexivity.
Qed.
