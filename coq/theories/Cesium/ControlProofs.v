(* Cesium/ControlProofs.v — lemmas about the control model: the precedence order, the
   order-independence of the map loops, the controller invariant and its preservation. *)
From Coq Require Import List Bool NArith ZArith Lia Permutation.
Import ListNotations.
From Synnax Require Import Cesium.Control.
Local Open Scope N_scope.

(* ---------- the precedence order ---------- *)
Lemma better_spec a b :
  better a b = true <->
  g_auth b < g_auth a \/ (g_auth a = g_auth b /\ g_pos a < g_pos b).
Proof.
  unfold better. rewrite orb_true_iff, andb_true_iff, !N.ltb_lt, N.eqb_eq. tauto.
Qed.

Lemma better_irrefl a : better a a = false.
Proof.
  destruct (better a a) eqn:E; auto. apply better_spec in E. lia.
Qed.

Lemma better_asym a b : better a b = true -> better b a = false.
Proof.
  intros H. destruct (better b a) eqn:E; auto.
  apply better_spec in H. apply better_spec in E. lia.
Qed.

Lemma better_trans a b c : better a b = true -> better b c = true -> better a c = true.
Proof. rewrite !better_spec. lia. Qed.

Lemma better_total a b : g_pos a <> g_pos b -> better a b = true \/ better b a = true.
Proof. rewrite !better_spec. lia. Qed.

Lemma better_auth a b : better a b = true -> g_auth b <= g_auth a.
Proof. rewrite better_spec. lia. Qed.

(* [m] takes precedence over every other element of the set *)
Definition is_max (m : gate) (S : gate -> Prop) : Prop :=
  S m /\ forall x, S x -> x = m \/ better m x = true.
Definition is_leader (g : gate) (gs : list gate) : Prop := is_max g (fun x => In x gs).

(* any two elements are the same gate or have different positions *)
Definition pos_distinct (S : gate -> Prop) : Prop :=
  forall x y, S x -> S y -> x = y \/ g_pos x <> g_pos y.

Lemma is_max_unique S m1 m2 : is_max m1 S -> is_max m2 S -> m1 = m2.
Proof.
  intros [H1 M1] [H2 M2].
  destruct (M1 _ H2) as [|B1]; auto. destruct (M2 _ H1) as [|B2]; auto.
  apply better_asym in B1. congruence.
Qed.

Definition oset (c : option gate) (l : list gate) : gate -> Prop :=
  fun x => c = Some x \/ In x l.

Lemma pick_spec : forall l c,
  pos_distinct (oset c l) ->
  match pick c l with
  | Some m => is_max m (oset c l)
  | None => c = None /\ l = []
  end.
Proof.
  induction l as [|a rest IH]; intros c D; simpl.
  - destruct c as [c0|]; [|auto].
    split; [left; auto|]. intros x [E|[]]. inversion E; auto.
  - set (c' := if should_ctl c a then Some a else c).
    assert (D' : pos_distinct (oset c' rest)).
    { intros x y Hx Hy. apply D.
      - destruct Hx as [E|I]; [|right; right; auto].
        unfold c' in E. destruct (should_ctl c a); [inversion E; right; left; auto|left; auto].
      - destruct Hy as [E|I]; [|right; right; auto].
        unfold c' in E. destruct (should_ctl c a); [inversion E; right; left; auto|left; auto]. }
    specialize (IH c' D').
    destruct (pick c' rest) as [m|] eqn:P.
    + destruct IH as [Sm Mm]. split.
      * destruct Sm as [E|I]; [|right; right; auto].
        unfold c' in E. destruct (should_ctl c a); [inversion E; right; left; auto|left; auto].
      * intros x Hx.
        assert (Hc' : forall y, c' = Some y -> y = m \/ better m y = true)
          by (intros y Ey; apply Mm; left; auto).
        destruct Hx as [E|[E|I]].
        -- (* x is the initial curr *)
           subst c. unfold c', should_ctl in Hc'.
           destruct (better a x) eqn:B.
           ++ destruct (Hc' a eq_refl) as [->|Bm]; [right; auto|right; eapply better_trans; eauto].
           ++ apply Hc'; auto.
        -- subst x. unfold c' in Hc'. destruct (should_ctl c a) eqn:Sc; [apply Hc'; auto|].
           destruct c as [c0|]; [|discriminate]. simpl in Sc.
           destruct (Hc' c0 eq_refl) as [->|Bm].
           ++ destruct (D a m) as [->|Np]; [right; left; auto|left; auto|left; auto|].
              destruct (better_total a m Np) as [B|B]; [congruence|right; auto].
           ++ destruct (D a c0) as [->|Np]; [right; left; auto|left; auto|right; auto|].
              destruct (better_total a c0 Np) as [B|B]; [congruence|].
              right; eapply better_trans; eauto.
        -- apply Mm. right; auto.
    + destruct IH as [E _]. unfold c' in E. destruct (should_ctl c a) eqn:Sc; [discriminate|].
      subst c. simpl in Sc. discriminate.
Qed.

Lemma is_max_ext S T m : (forall x, S x <-> T x) -> is_max m S -> is_max m T.
Proof. intros E [H M]. split; [apply E; auto|]. intros x Hx. apply M, E; auto. Qed.

(* the loop result does not depend on the iteration order *)
Lemma pick_perm c l l' :
  pos_distinct (oset c l) -> Permutation l l' -> pick c l = pick c l'.
Proof.
  intros D P.
  assert (E : forall x, oset c l x <-> oset c l' x).
  { intros x. unfold oset. split; intros [H|H]; auto; right.
    - eapply Permutation_in; eauto.
    - eapply Permutation_in; [apply Permutation_sym|]; eauto. }
  assert (D' : pos_distinct (oset c l')).
  { intros x y Hx Hy. apply D; apply E; auto. }
  pose proof (pick_spec l c D) as S1. pose proof (pick_spec l' c D') as S2.
  destruct (pick c l) as [m1|], (pick c l') as [m2|]; auto.
  - f_equal. apply (is_max_unique (oset c l')); auto.
    apply (is_max_ext (oset c l)); auto.
  - destruct S2 as [-> ->]. destruct S1 as [[E1|I1] _]; [discriminate|].
    apply Permutation_sym, Permutation_nil in P. subst. contradiction.
  - destruct S1 as [-> ->]. apply Permutation_nil in P. subst. simpl in S2.
    destruct S2 as [[E2|[]] _]. discriminate.
Qed.

(* ---------- gate lists ---------- *)
Fixpoint pos_sorted (gs : list gate) : Prop :=
  match gs with
  | [] => True
  | g :: rest => Forall (fun x => g_pos g < g_pos x) rest /\ pos_sorted rest
  end.

Lemma pos_sorted_distinct gs : pos_sorted gs -> pos_distinct (fun x => In x gs).
Proof.
  induction gs as [|g rest IH]; intros S x y Hx Hy; [destruct Hx|].
  destruct S as [F S]. rewrite Forall_forall in F.
  destruct Hx as [<-|Hx], Hy as [<-|Hy]; auto.
  - right. specialize (F _ Hy). lia.
  - right. specialize (F _ Hx). lia.
  - apply IH; auto.
Qed.

Lemma pos_sorted_snoc gs g :
  pos_sorted gs -> Forall (fun x => g_pos x < g_pos g) gs -> pos_sorted (gs ++ [g]).
Proof.
  induction gs as [|a rest IH]; simpl; intros S F.
  - split; auto.
  - destruct S as [Fa S]. inversion F; subst. split; [|apply IH; auto].
    apply Forall_app. split; auto.
Qed.

Lemma pos_sorted_filter f gs : pos_sorted gs -> pos_sorted (filter f gs).
Proof.
  induction gs as [|a rest IH]; simpl; auto. intros [F S].
  destruct (f a); simpl; auto. split; auto.
  rewrite Forall_forall in *. intros x Hx. apply F. apply filter_In in Hx. tauto.
Qed.

Lemma set_auth_pos h a gs : map g_pos (set_auth_gates h a gs) = map g_pos gs.
Proof.
  induction gs as [|g rest IH]; simpl; auto. rewrite IH. destruct (g_h g =? h); auto.
Qed.
Lemma set_auth_h h a gs : map g_h (set_auth_gates h a gs) = map g_h gs.
Proof.
  induction gs as [|g rest IH]; simpl; auto. rewrite IH. destruct (g_h g =? h); auto.
Qed.

Lemma pos_sorted_map gs gs' :
  map g_pos gs' = map g_pos gs -> pos_sorted gs -> pos_sorted gs'.
Proof.
  revert gs'. induction gs as [|g rest IH]; intros [|g' rest'] E; simpl in *; try discriminate; auto.
  inversion E. intros [F S]. split; [|apply IH; auto].
  apply Forall_forall. intros x Hx.
  assert (In (g_pos x) (map g_pos rest)) as I by (rewrite <- H1; apply in_map; auto).
  apply in_map_iff in I. destruct I as (y & Ey & Iy).
  rewrite Forall_forall in F. specialize (F _ Iy). lia.
Qed.

Lemma find_gate_some h gs g : find_gate h gs = Some g -> In g gs /\ g_h g = h.
Proof.
  unfold find_gate. intros H. apply find_some in H. rewrite N.eqb_eq in H. auto.
Qed.

Lemma find_gate_none h gs : find_gate h gs = None -> ~ In h (map g_h gs).
Proof.
  unfold find_gate. intros H I. apply in_map_iff in I. destruct I as (g & E & I).
  pose proof (find_none _ _ H _ I) as F. simpl in F. rewrite N.eqb_neq in F. auto.
Qed.

Lemma find_gate_in gs g :
  NoDup (map g_h gs) -> In g gs -> find_gate (g_h g) gs = Some g.
Proof.
  induction gs as [|a rest IH]; simpl; intros ND I; [destruct I|].
  inversion ND; subst. destruct I as [->|I].
  - rewrite N.eqb_refl. auto.
  - destruct (g_h a =? g_h g) eqn:E; [|apply IH; auto].
    apply N.eqb_eq in E. exfalso. apply H1. rewrite E. apply in_map; auto.
Qed.

Lemma find_gate_is_some h gs : In h (map g_h gs) -> exists g, find_gate h gs = Some g.
Proof.
  intros I. destruct (find_gate h gs) eqn:E; eauto. apply find_gate_none in E. contradiction.
Qed.

Lemma find_gate_app_l h gs gs' g :
  find_gate h gs = Some g -> find_gate h (gs ++ gs') = Some g.
Proof.
  unfold find_gate. induction gs as [|a rest IH]; simpl; [discriminate|].
  destruct (g_h a =? h); auto.
Qed.

Lemma find_gate_app_r h gs gs' :
  ~ In h (map g_h gs) -> find_gate h (gs ++ gs') = find_gate h gs'.
Proof.
  unfold find_gate. induction gs as [|a rest IH]; simpl; auto. intros N.
  destruct (g_h a =? h) eqn:E; [apply N.eqb_eq in E; exfalso; apply N; auto|].
  apply IH. intros I. apply N; auto.
Qed.

Lemma find_gate_filter h k gs :
  h <> k -> find_gate h (filter (fun g => negb (g_h g =? k)) gs) = find_gate h gs.
Proof.
  intros N. unfold find_gate. induction gs as [|a rest IH]; simpl; auto.
  destruct (g_h a =? k) eqn:E; simpl.
  - apply N.eqb_eq in E. destruct (g_h a =? h) eqn:E2; auto. apply N.eqb_eq in E2. congruence.
  - destruct (g_h a =? h); auto.
Qed.

Lemma filter_h_map k gs :
  map g_h (filter (fun g => negb (g_h g =? k)) gs) = filter (fun x => negb (x =? k)) (map g_h gs).
Proof.
  induction gs as [|a rest IH]; simpl; auto. destruct (g_h a =? k); simpl; rewrite IH; auto.
Qed.

Lemma NoDup_filter {A} (f : A -> bool) l : NoDup l -> NoDup (filter f l).
Proof.
  induction l as [|a rest IH]; simpl; intros ND; auto. inversion ND; subst.
  destruct (f a); auto. constructor; auto. intros I. apply filter_In in I. tauto.
Qed.

(* ---------- the region invariant ---------- *)
Definition hst (r : region) : option cstate := option_map (gstate r) (cur r).

Definition rinv (r : region) : Prop :=
  NoDup (map g_h (r_gates r)) /\
  pos_sorted (r_gates r) /\
  Forall (fun g => g_pos g < r_counter r) (r_gates r) /\
  exists l, cur r = Some l /\ r_curr r = Some (g_h l) /\ is_leader l (r_gates r).

(* the reported transfer names the holder before and after, or nothing changed *)
Definition xrel (x : xfer) (b a : option cstate) : Prop :=
  (x = X0 /\ b = a) \/ (x_from x = b /\ x_to x = a).

Lemma leader_auth l gs g : is_leader l gs -> In g gs -> g_auth g <= g_auth l.
Proof.
  intros [_ M] I. destruct (M _ I) as [->|B]; [lia|]. apply better_auth; auto.
Qed.

Lemma cur_some r l : r_curr r = Some (g_h l) -> NoDup (map g_h (r_gates r)) ->
  In l (r_gates r) -> cur r = Some l.
Proof. intros E ND I. unfold cur. rewrite E. apply find_gate_in; auto. Qed.

Lemma NoDup_snoc {A} (l : list A) a : NoDup l -> ~ In a l -> NoDup (l ++ [a]).
Proof.
  induction l as [|b rest IH]; simpl; intros ND N.
  - constructor; auto.
  - inversion ND; subst. constructor.
    + intros I. apply in_app_or in I. destruct I as [I|[E|[]]]; auto.
    + apply IH; auto.
Qed.

Lemma rinv_cur r : rinv r -> exists l, cur r = Some l /\ r_curr r = Some (g_h l) /\
  is_leader l (r_gates r) /\ find_gate (g_h l) (r_gates r) = Some l.
Proof.
  intros (ND & _ & _ & l & C & E & L). exists l. repeat split; auto; try apply L.
  unfold cur in C. rewrite E in C. auto.
Qed.

(* adding a gate at the end of a region *)
Lemma rinv_add r h sj a tr' (take : bool) :
  rinv r -> ~ In h (map g_h (r_gates r)) ->
  (forall l, cur r = Some l -> if take then g_auth l < a else a <= g_auth l) ->
  let g := Gate h sj a (r_counter r) in
  let r' := Region (r_res r) tr' (r_gates r ++ [g]) (if take then Some h else r_curr r) (r_counter r + 1) in
  rinv r' /\ cur r' = (if take then Some g else cur r).
Proof.
  intros I N T g r'. pose proof (rinv_cur _ I) as (l & C & E & L & FG).
  destruct I as (ND & PS & FC & _). specialize (T l C).
  assert (NDr : NoDup (map g_h (r_gates r ++ [g]))).
  { rewrite map_app. simpl. apply NoDup_snoc; auto. }
  assert (Cr : cur r' = if take then Some g else cur r).
  { unfold cur, r'. simpl. destruct take.
    - rewrite find_gate_app_r; auto. unfold find_gate. simpl. rewrite N.eqb_refl. auto.
    - rewrite E. rewrite (find_gate_app_l _ _ _ _ FG). unfold cur in C. rewrite E in C. auto. }
  split; auto. unfold rinv. simpl. repeat split; auto.
  - apply pos_sorted_snoc; auto.
  - apply Forall_app. split.
    + eapply Forall_impl; [|apply FC]. simpl. intros; lia.
    + constructor; auto. simpl. lia.
  - destruct L as [Ll Ml]. destruct take.
    + exists g. repeat split; auto.
      * apply in_or_app. right. left. auto.
      * intros x Hx. apply in_app_or in Hx. destruct Hx as [Hx|[<-|[]]]; auto.
        right. apply better_spec. left. simpl.
        assert (g_auth x <= g_auth l) by (apply (leader_auth l (r_gates r)); [split|]; auto). lia.
    + exists l. rewrite Cr. repeat split; auto.
      * apply in_or_app. auto.
      * intros x Hx. apply in_app_or in Hx. destruct Hx as [Hx|[<-|[]]]; auto.
        right. apply better_spec. simpl. rewrite Forall_forall in FC. specialize (FC _ Ll). lia.
Qed.

Lemma region_open_inv shared r c r' st x :
  rinv r -> ~ In (o_h c) (map g_h (r_gates r)) ->
  region_open shared r c = (r', st, x) ->
  rinv r' /\ r_res r' = r_res r /\ xrel x (hst r) (hst r') /\
  (st = Ok -> r_gates r' = r_gates r ++ [Gate (o_h c) (o_subj c) (o_auth c) (r_counter r)]) /\
  (st <> Ok -> r_gates r' = r_gates r /\ x = X0) /\ st <> Panic.
Proof.
  intros I N. pose proof (rinv_cur _ I) as (l & C & E & L & FG).
  unfold region_open. rewrite E, FG.
  destruct (o_eic c && is_some (Some (g_h l))).
  { intros H; inversion H; subst. repeat split; auto; try discriminate. left; auto. }
  destruct (existsb _ _).
  { intros H; inversion H; subst. repeat split; auto; try discriminate. left; auto. }
  destruct (g_auth l <? o_auth c) eqn:Lt.
  - apply N.ltb_lt in Lt. intros H; inversion H; subst.
    destruct (rinv_add r (o_h c) (o_subj c) (o_auth c) (tr_union (r_tr r) (o_tr c)) true I N) as [I' C'].
    { intros l' Cl'. rewrite C in Cl'. inversion Cl'; subst; auto. }
    simpl in I', C'. repeat split; auto; try discriminate.
    + right. unfold hst. rewrite C, C'. simpl. auto.
    + intros X; contradiction.
    + intros X; contradiction.
  - apply N.ltb_ge in Lt.
    destruct (o_eou c && _).
    + intros H; inversion H; subst. repeat split; auto; try discriminate.
      * apply I. * apply I. * apply I.
      * exists l. unfold cur. simpl. rewrite E. repeat split; auto; apply L.
      * left. split; auto. unfold hst, cur. simpl. auto.
    + intros H; inversion H; subst.
      destruct (rinv_add r (o_h c) (o_subj c) (o_auth c) (tr_union (r_tr r) (o_tr c)) false I N) as [I' C'].
      { intros l' Cl'. rewrite C in Cl'. inversion Cl'; subst; auto. }
      simpl in I', C'. rewrite E in *. repeat split; auto; try discriminate.
      * left. split; auto. unfold hst. rewrite C'. rewrite C. simpl. auto.
      * intros X; contradiction.
      * intros X; contradiction.
Qed.
