(* Cesium/ControlProofs.v — lemmas about the control model: the precedence order, the
   order-independence of the map loops, the controller invariant and its preservation. *)
From Coq Require Import List Bool NArith ZArith Lia Permutation.
Import ListNotations.
From Synnax Require Import Cesium.Control.
Local Open Scope N_scope.

(* ---------- the precedence order ---------- *)
Lemma better_spec a b :
  better a b = true <->
  g_auth b < g_auth a \/ (g_auth a = g_auth b /\ g_pos a < g_pos b).
Proof.
  unfold better. rewrite orb_true_iff, andb_true_iff, !N.ltb_lt, N.eqb_eq. tauto.
Qed.

Lemma better_irrefl a : better a a = false.
Proof.
  destruct (better a a) eqn:E; auto. apply better_spec in E. lia.
Qed.

Lemma better_asym a b : better a b = true -> better b a = false.
Proof.
  intros H. destruct (better b a) eqn:E; auto.
  apply better_spec in H. apply better_spec in E. lia.
Qed.

Lemma better_trans a b c : better a b = true -> better b c = true -> better a c = true.
Proof. rewrite !better_spec. lia. Qed.

Lemma better_total a b : g_pos a <> g_pos b -> better a b = true \/ better b a = true.
Proof. rewrite !better_spec. lia. Qed.

Lemma better_auth a b : better a b = true -> g_auth b <= g_auth a.
Proof. rewrite better_spec. lia. Qed.

(* [m] takes precedence over every other element of the set *)
Definition is_max (m : gate) (S : gate -> Prop) : Prop :=
  S m /\ forall x, S x -> x = m \/ better m x = true.
Definition is_leader (g : gate) (gs : list gate) : Prop := is_max g (fun x => In x gs).

(* any two elements are the same gate or have different positions *)
Definition pos_distinct (S : gate -> Prop) : Prop :=
  forall x y, S x -> S y -> x = y \/ g_pos x <> g_pos y.

Lemma is_max_unique S m1 m2 : is_max m1 S -> is_max m2 S -> m1 = m2.
Proof.
  intros [H1 M1] [H2 M2].
  destruct (M1 _ H2) as [|B1]; auto. destruct (M2 _ H1) as [|B2]; auto.
  apply better_asym in B1. congruence.
Qed.

Definition oset (c : option gate) (l : list gate) : gate -> Prop :=
  fun x => c = Some x \/ In x l.

Lemma pick_spec : forall l c,
  pos_distinct (oset c l) ->
  match pick c l with
  | Some m => is_max m (oset c l)
  | None => c = None /\ l = []
  end.
Proof.
  induction l as [|a rest IH]; intros c D; simpl.
  - destruct c as [c0|]; [|auto].
    split; [left; auto|]. intros x [E|[]]. inversion E; auto.
  - set (c' := if should_ctl c a then Some a else c).
    assert (D' : pos_distinct (oset c' rest)).
    { intros x y Hx Hy. apply D.
      - destruct Hx as [E|I]; [|right; right; auto].
        unfold c' in E. destruct (should_ctl c a); [inversion E; right; left; auto|left; auto].
      - destruct Hy as [E|I]; [|right; right; auto].
        unfold c' in E. destruct (should_ctl c a); [inversion E; right; left; auto|left; auto]. }
    specialize (IH c' D').
    destruct (pick c' rest) as [m|] eqn:P.
    + destruct IH as [Sm Mm]. split.
      * destruct Sm as [E|I]; [|right; right; auto].
        unfold c' in E. destruct (should_ctl c a); [inversion E; right; left; auto|left; auto].
      * intros x Hx.
        assert (Hc' : forall y, c' = Some y -> y = m \/ better m y = true)
          by (intros y Ey; apply Mm; left; auto).
        destruct Hx as [E|[E|I]].
        -- (* x is the initial curr *)
           subst c. unfold c', should_ctl in Hc'.
           destruct (better a x) eqn:B.
           ++ destruct (Hc' a eq_refl) as [->|Bm]; [right; auto|right; eapply better_trans; eauto].
           ++ apply Hc'; auto.
        -- subst x. unfold c' in Hc'. destruct (should_ctl c a) eqn:Sc; [apply Hc'; auto|].
           destruct c as [c0|]; [|discriminate]. simpl in Sc.
           destruct (Hc' c0 eq_refl) as [->|Bm].
           ++ destruct (D a m) as [->|Np]; [right; left; auto|left; auto|left; auto|].
              destruct (better_total a m Np) as [B|B]; [congruence|right; auto].
           ++ destruct (D a c0) as [->|Np]; [right; left; auto|left; auto|right; auto|].
              destruct (better_total a c0 Np) as [B|B]; [congruence|].
              right; eapply better_trans; eauto.
        -- apply Mm. right; auto.
    + destruct IH as [E _]. unfold c' in E. destruct (should_ctl c a) eqn:Sc; [discriminate|].
      subst c. simpl in Sc. discriminate.
Qed.

Lemma is_max_ext S T m : (forall x, S x <-> T x) -> is_max m S -> is_max m T.
Proof. intros E [H M]. split; [apply E; auto|]. intros x Hx. apply M, E; auto. Qed.

(* the loop result does not depend on the iteration order *)
Lemma pick_perm c l l' :
  pos_distinct (oset c l) -> Permutation l l' -> pick c l = pick c l'.
Proof.
  intros D P.
  assert (E : forall x, oset c l x <-> oset c l' x).
  { intros x. unfold oset. split; intros [H|H]; auto; right.
    - eapply Permutation_in; eauto.
    - eapply Permutation_in; [apply Permutation_sym|]; eauto. }
  assert (D' : pos_distinct (oset c l')).
  { intros x y Hx Hy. apply D; apply E; auto. }
  pose proof (pick_spec l c D) as S1. pose proof (pick_spec l' c D') as S2.
  destruct (pick c l) as [m1|], (pick c l') as [m2|]; auto.
  - f_equal. apply (is_max_unique (oset c l')); auto.
    apply (is_max_ext (oset c l)); auto.
  - destruct S2 as [-> ->]. destruct S1 as [[E1|I1] _]; [discriminate|].
    apply Permutation_sym, Permutation_nil in P. subst. contradiction.
  - destruct S1 as [-> ->]. apply Permutation_nil in P. subst. simpl in S2.
    destruct S2 as [[E2|[]] _]. discriminate.
Qed.

(* ---------- gate lists ---------- *)
Fixpoint pos_sorted (gs : list gate) : Prop :=
  match gs with
  | [] => True
  | g :: rest => Forall (fun x => g_pos g < g_pos x) rest /\ pos_sorted rest
  end.

Lemma pos_sorted_distinct gs : pos_sorted gs -> pos_distinct (fun x => In x gs).
Proof.
  induction gs as [|g rest IH]; intros S x y Hx Hy; [destruct Hx|].
  destruct S as [F S]. rewrite Forall_forall in F.
  destruct Hx as [<-|Hx], Hy as [<-|Hy]; auto.
  - right. specialize (F _ Hy). lia.
  - right. specialize (F _ Hx). lia.
  - apply IH; auto.
Qed.

Lemma pos_sorted_snoc gs g :
  pos_sorted gs -> Forall (fun x => g_pos x < g_pos g) gs -> pos_sorted (gs ++ [g]).
Proof.
  induction gs as [|a rest IH]; simpl; intros S F.
  - split; auto.
  - destruct S as [Fa S]. inversion F; subst. split; [|apply IH; auto].
    apply Forall_app. split; auto.
Qed.

Lemma pos_sorted_filter f gs : pos_sorted gs -> pos_sorted (filter f gs).
Proof.
  induction gs as [|a rest IH]; simpl; auto. intros [F S].
  destruct (f a); simpl; auto. split; auto.
  rewrite Forall_forall in *. intros x Hx. apply F. apply filter_In in Hx. tauto.
Qed.

Lemma set_auth_pos h a gs : map g_pos (set_auth_gates h a gs) = map g_pos gs.
Proof.
  induction gs as [|g rest IH]; simpl; auto. rewrite IH. destruct (g_h g =? h); auto.
Qed.
Lemma set_auth_h h a gs : map g_h (set_auth_gates h a gs) = map g_h gs.
Proof.
  induction gs as [|g rest IH]; simpl; auto. rewrite IH. destruct (g_h g =? h); auto.
Qed.

Lemma pos_sorted_map gs gs' :
  map g_pos gs' = map g_pos gs -> pos_sorted gs -> pos_sorted gs'.
Proof.
  revert gs'. induction gs as [|g rest IH]; intros [|g' rest'] E; simpl in *; try discriminate; auto.
  inversion E. intros [F S]. split; [|apply IH; auto].
  apply Forall_forall. intros x Hx.
  assert (In (g_pos x) (map g_pos rest)) as I by (rewrite <- H1; apply in_map; auto).
  apply in_map_iff in I. destruct I as (y & Ey & Iy).
  rewrite Forall_forall in F. specialize (F _ Iy). lia.
Qed.

Lemma find_gate_some h gs g : find_gate h gs = Some g -> In g gs /\ g_h g = h.
Proof.
  unfold find_gate. intros H. apply find_some in H. rewrite N.eqb_eq in H. auto.
Qed.

Lemma find_gate_none h gs : find_gate h gs = None -> ~ In h (map g_h gs).
Proof.
  unfold find_gate. intros H I. apply in_map_iff in I. destruct I as (g & E & I).
  pose proof (find_none _ _ H _ I) as F. simpl in F. rewrite N.eqb_neq in F. auto.
Qed.

Lemma find_gate_in gs g :
  NoDup (map g_h gs) -> In g gs -> find_gate (g_h g) gs = Some g.
Proof.
  induction gs as [|a rest IH]; simpl; intros ND I; [destruct I|].
  inversion ND; subst. destruct I as [->|I].
  - rewrite N.eqb_refl. auto.
  - destruct (g_h a =? g_h g) eqn:E; [|apply IH; auto].
    apply N.eqb_eq in E. exfalso. apply H1. rewrite E. apply in_map; auto.
Qed.

Lemma find_gate_is_some h gs : In h (map g_h gs) -> exists g, find_gate h gs = Some g.
Proof.
  intros I. destruct (find_gate h gs) eqn:E; eauto. apply find_gate_none in E. contradiction.
Qed.

Lemma find_gate_app_l h gs gs' g :
  find_gate h gs = Some g -> find_gate h (gs ++ gs') = Some g.
Proof.
  unfold find_gate. induction gs as [|a rest IH]; simpl; [discriminate|].
  destruct (g_h a =? h); auto.
Qed.

Lemma find_gate_app_r h gs gs' :
  ~ In h (map g_h gs) -> find_gate h (gs ++ gs') = find_gate h gs'.
Proof.
  unfold find_gate. induction gs as [|a rest IH]; simpl; auto. intros N.
  destruct (g_h a =? h) eqn:E; [apply N.eqb_eq in E; exfalso; apply N; auto|].
  apply IH. intros I. apply N; auto.
Qed.

Lemma find_gate_filter h k gs :
  h <> k -> find_gate h (filter (fun g => negb (g_h g =? k)) gs) = find_gate h gs.
Proof.
  intros N. unfold find_gate. induction gs as [|a rest IH]; simpl; auto.
  destruct (g_h a =? k) eqn:E; simpl.
  - apply N.eqb_eq in E. destruct (g_h a =? h) eqn:E2; auto. apply N.eqb_eq in E2. congruence.
  - destruct (g_h a =? h); auto.
Qed.

Lemma filter_h_map k gs :
  map g_h (filter (fun g => negb (g_h g =? k)) gs) = filter (fun x => negb (x =? k)) (map g_h gs).
Proof.
  induction gs as [|a rest IH]; simpl; auto. destruct (g_h a =? k); simpl; rewrite IH; auto.
Qed.

Lemma NoDup_filter {A} (f : A -> bool) l : NoDup l -> NoDup (filter f l).
Proof.
  induction l as [|a rest IH]; simpl; intros ND; auto. inversion ND; subst.
  destruct (f a); auto. constructor; auto. intros I. apply filter_In in I. tauto.
Qed.

(* ---------- the region invariant ---------- *)
Definition hst (r : region) : option cstate := option_map (gstate r) (cur r).

Definition rinv (r : region) : Prop :=
  NoDup (map g_h (r_gates r)) /\
  pos_sorted (r_gates r) /\
  Forall (fun g => g_pos g < r_counter r) (r_gates r) /\
  exists l, cur r = Some l /\ r_curr r = Some (g_h l) /\ is_leader l (r_gates r).

(* the reported transfer names the holder before and after, or nothing changed *)
Definition xrel (x : xfer) (b a : option cstate) : Prop :=
  (x = X0 /\ b = a) \/ (x_from x = b /\ x_to x = a).

Lemma leader_auth l gs g : is_leader l gs -> In g gs -> g_auth g <= g_auth l.
Proof.
  intros [_ M] I. destruct (M _ I) as [->|B]; [lia|]. apply better_auth; auto.
Qed.

Lemma cur_some r l : r_curr r = Some (g_h l) -> NoDup (map g_h (r_gates r)) ->
  In l (r_gates r) -> cur r = Some l.
Proof. intros E ND I. unfold cur. rewrite E. apply find_gate_in; auto. Qed.

Ltac splits := repeat match goal with |- _ /\ _ => split end.

Lemma NoDup_snoc {A} (l : list A) a : NoDup l -> ~ In a l -> NoDup (l ++ [a]).
Proof.
  induction l as [|b rest IH]; simpl; intros ND N.
  - constructor; auto.
  - inversion ND; subst. constructor.
    + intros I. apply in_app_or in I. destruct I as [I|[E|[]]]; auto.
    + apply IH; auto.
Qed.

Lemma rinv_cur r : rinv r -> exists l, cur r = Some l /\ r_curr r = Some (g_h l) /\
  is_leader l (r_gates r) /\ find_gate (g_h l) (r_gates r) = Some l.
Proof.
  intros (ND & _ & _ & l & C & E & L). exists l. splits; auto; try apply L.
  unfold cur in C. rewrite E in C. auto.
Qed.

(* adding a gate at the end of a region *)
Lemma rinv_add r h sj a tr' (take : bool) :
  rinv r -> ~ In h (map g_h (r_gates r)) ->
  (forall l, cur r = Some l -> if take then g_auth l < a else a <= g_auth l) ->
  let g := Gate h sj a (r_counter r) in
  let r' := Region (r_res r) tr' (r_gates r ++ [g]) (if take then Some h else r_curr r) (r_counter r + 1) in
  rinv r' /\ cur r' = (if take then Some g else cur r).
Proof.
  intros I N T g r'. pose proof (rinv_cur _ I) as (l & C & E & L & FG).
  destruct I as (ND & PS & FC & _). specialize (T l C).
  assert (NDr : NoDup (map g_h (r_gates r ++ [g]))).
  { rewrite map_app. simpl. apply NoDup_snoc; auto. }
  assert (Cr : cur r' = if take then Some g else cur r).
  { unfold cur, r'. simpl. destruct take.
    - rewrite find_gate_app_r; auto. unfold find_gate. simpl. rewrite N.eqb_refl. auto.
    - rewrite E. rewrite (find_gate_app_l _ _ _ _ FG). unfold cur in C. rewrite E in C. auto. }
  split; auto. unfold rinv. simpl. splits; auto.
  - apply pos_sorted_snoc; auto.
  - apply Forall_app. split.
    + eapply Forall_impl; [|apply FC]. simpl. intros; lia.
    + constructor; auto. simpl. lia.
  - destruct L as [Ll Ml]. destruct take.
    + exists g. splits; auto. split.
      * apply in_or_app. right. left. auto.
      * intros x Hx. apply in_app_or in Hx. destruct Hx as [Hx|[<-|[]]]; auto.
        right. apply better_spec. left. simpl.
        assert (g_auth x <= g_auth l) by (apply (leader_auth l (r_gates r)); [split|]; auto). lia.
    + exists l. rewrite Cr. splits; auto. split.
      * apply in_or_app. auto.
      * intros x Hx. apply in_app_or in Hx. destruct Hx as [Hx|[<-|[]]]; auto.
        right. apply better_spec. simpl. rewrite Forall_forall in FC. specialize (FC _ Ll). lia.
Qed.

Lemma region_open_inv shared r c r' st x :
  rinv r -> ~ In (o_h c) (map g_h (r_gates r)) ->
  region_open shared r c = (r', st, x) ->
  rinv r' /\ r_res r' = r_res r /\ xrel x (hst r) (hst r') /\
  (st = Ok -> r_gates r' = r_gates r ++ [Gate (o_h c) (o_subj c) (o_auth c) (r_counter r)]) /\
  (st <> Ok -> r_gates r' = r_gates r /\ x = X0) /\ st <> Panic.
Proof.
  intros I N. pose proof (rinv_cur _ I) as (l & C & E & L & FG).
  unfold region_open. rewrite E, FG.
  destruct (o_eic c && is_some (Some (g_h l))).
  { intros H; inversion H; subst. splits; auto; try discriminate. left; auto. }
  destruct (existsb _ _).
  { intros H; inversion H; subst. splits; auto; try discriminate. left; auto. }
  destruct (g_auth l <? o_auth c) eqn:Lt.
  - apply N.ltb_lt in Lt. intros H; inversion H; subst.
    destruct (rinv_add r (o_h c) (o_subj c) (o_auth c) (tr_union (r_tr r) (o_tr c)) true I N) as [I' C'].
    { intros l' Cl'. rewrite C in Cl'. inversion Cl'; subst; auto. }
    simpl in I', C'. splits; auto; try discriminate; try (intros X; contradiction).
    right. unfold hst. rewrite C, C'. simpl. auto.
  - apply N.ltb_ge in Lt.
    destruct (o_eou c && _).
    + intros H; inversion H; subst. splits; auto; try discriminate.
      * destruct I as (I1 & I2 & I3 & _). unfold rinv. simpl. splits; auto.
        exists l. unfold cur. simpl. splits; auto.
      * left. split; auto. unfold hst, cur, gstate. simpl. rewrite E. auto.
    + intros H; inversion H; subst.
      destruct (rinv_add r (o_h c) (o_subj c) (o_auth c) (tr_union (r_tr r) (o_tr c)) false I N) as [I' C'].
      { intros l' Cl'. rewrite C in Cl'. inversion Cl'; subst; auto. }
      simpl in I', C'. rewrite E in *. splits; auto; try discriminate; try (intros X; contradiction).
      left. split; auto. unfold hst. rewrite C'. rewrite C. simpl. auto.
Qed.

(* ---------- region.update ---------- *)
Definition is_perm (ord : list gate -> list gate) : Prop := forall l, Permutation l (ord l).

Definition upd_gate (h a : N) (g : gate) : gate :=
  if g_h g =? h then Gate (g_h g) (g_subj g) a (g_pos g) else g.

Lemma set_auth_gates_map h a gs : set_auth_gates h a gs = map (upd_gate h a) gs.
Proof. reflexivity. Qed.

Lemma find_gate_set_auth_other k h a gs :
  k <> h -> find_gate k (set_auth_gates h a gs) = find_gate k gs.
Proof.
  intros N. unfold find_gate. induction gs as [|g rest IH]; simpl; auto.
  destruct (g_h g =? h) eqn:E; simpl.
  - apply N.eqb_eq in E. destruct (g_h g =? k) eqn:E2; auto. apply N.eqb_eq in E2. congruence.
  - destruct (g_h g =? k); auto.
Qed.

Lemma find_gate_set_auth_same h a gs g :
  find_gate h gs = Some g ->
  find_gate h (set_auth_gates h a gs) = Some (Gate (g_h g) (g_subj g) a (g_pos g)).
Proof.
  unfold find_gate. induction gs as [|b rest IH]; simpl; [discriminate|].
  destruct (g_h b =? h) eqn:E; simpl.
  - rewrite E. intros X; inversion X; subst. auto.
  - rewrite E. auto.
Qed.

Lemma Forall_pos_map (P : N -> Prop) gs gs' :
  map g_pos gs' = map g_pos gs -> Forall (fun g => P (g_pos g)) gs -> Forall (fun g => P (g_pos g)) gs'.
Proof.
  revert gs'. induction gs as [|g rest IH]; intros [|g' rest'] E F; simpl in *; try discriminate; auto.
  inversion E. inversion F; subst. constructor; auto. rewrite H0; auto.
Qed.

Lemma in_set_auth x' h a gs :
  In x' (set_auth_gates h a gs) -> exists x, In x gs /\ x' = upd_gate h a x.
Proof.
  rewrite set_auth_gates_map. intros I. apply in_map_iff in I. destruct I as (x & E & I). eauto.
Qed.

Lemma NoDup_h_inj gs x y :
  NoDup (map g_h gs) -> In x gs -> In y gs -> g_h x = g_h y -> x = y.
Proof.
  induction gs as [|a rest IH]; simpl; intros ND Hx Hy E; [destruct Hx|].
  inversion ND; subst.
  destruct Hx as [<-|Hx], Hy as [<-|Hy]; auto.
  - exfalso. apply H1. rewrite E. apply in_map; auto.
  - exfalso. apply H1. rewrite <- E. apply in_map; auto.
Qed.

Lemma region_update_inv ord r h a r' st x :
  rinv r -> is_perm ord -> In h (map g_h (r_gates r)) ->
  region_update ord r h a = (r', st, x) ->
  rinv r' /\ st = Ok /\ r_res r' = r_res r /\ map g_h (r_gates r') = map g_h (r_gates r) /\
  xrel x (hst r) (hst r') /\ region_update (fun l => l) r h a = (r', st, x).
Proof.
  intros I P Hh. pose proof (rinv_cur _ I) as (l & C & E & L & FG).
  destruct I as (ND & PS & FC & _).
  destruct (find_gate_is_some _ _ Hh) as (g & Fg).
  destruct (find_gate_some _ _ _ Fg) as (Ig & Eh).
  set (g' := Gate (g_h g) (g_subj g) a (g_pos g)).
  set (gs' := set_auth_gates h a (r_gates r)).
  assert (Hh' : map g_h gs' = map g_h (r_gates r)) by apply set_auth_h.
  assert (Hp' : map g_pos gs' = map g_pos (r_gates r)) by apply set_auth_pos.
  assert (ND' : NoDup (map g_h gs')) by (rewrite Hh'; auto).
  assert (PS' : pos_sorted gs') by (eapply pos_sorted_map; eauto).
  assert (FC' : Forall (fun g => g_pos g < r_counter r) gs').
  { apply (Forall_pos_map (fun p => p < r_counter r) (r_gates r)); auto. }
  assert (Fg' : find_gate h gs' = Some g') by (apply find_gate_set_auth_same; auto).
  destruct (find_gate_some _ _ _ Fg') as (Ig' & _).
  assert (Cases : forall y, In y gs' -> y = g' \/ (In y (r_gates r) /\ g_h y <> h)).
  { intros y Iy. apply in_set_auth in Iy. destruct Iy as (y0 & Iy0 & ->). unfold upd_gate.
    destruct (g_h y0 =? h) eqn:Ey.
    - apply N.eqb_eq in Ey. left. assert (y0 = g) by (apply (NoDup_h_inj (r_gates r)); auto; congruence).
      subst. auto.
    - apply N.eqb_neq in Ey. right. auto. }
  assert (Keep : forall y, In y (r_gates r) -> g_h y <> h -> In y gs').
  { intros y Iy Ny. unfold gs'. rewrite set_auth_gates_map. apply in_map_iff. exists y. split; auto.
    unfold upd_gate. apply N.eqb_neq in Ny. rewrite Ny. auto. }
  assert (PD : pos_distinct (fun y => In y gs')) by (apply pos_sorted_distinct; auto).
  unfold region_update. rewrite Fg, E. fold g' gs'.
  destruct (g_h l =? h) eqn:El.
  - (* the holder changes its own authority *)
    apply N.eqb_eq in El.
    assert (l = g) by (apply (NoDup_h_inj (r_gates r)); auto; [apply L|congruence]). subst l.
    assert (PDo : forall o, Permutation gs' o -> pos_distinct (oset (Some g') o)).
    { intros o Po y z Hy Hz. apply PD.
      - destruct Hy as [Ey|Iy]; [inversion Ey; subst; auto|].
        eapply Permutation_in; [apply Permutation_sym|]; eauto.
      - destruct Hz as [Ez|Iz]; [inversion Ez; subst; auto|].
        eapply Permutation_in; [apply Permutation_sym|]; eauto. }
    assert (Eq : pick (Some g') (ord gs') = pick (Some g') gs').
    { symmetry. apply pick_perm; [apply PDo, Permutation_refl|apply P]. }
    rewrite Eq. pose proof (pick_spec gs' (Some g') (PDo _ (Permutation_refl _))) as PSp.
    destruct (pick (Some g') gs') as [m|] eqn:Pm.
    + intros H; inversion H; subst.
      assert (Lm : is_leader m gs').
      { eapply is_max_ext; [|apply PSp]. intros y. unfold oset. split; [intros [Ey|Iy]|]; auto.
        inversion Ey; subst; auto. }
      assert (Cm : cur (set_region_gates r gs' (Some (g_h m))) = Some m).
      { apply cur_some; simpl; auto. apply Lm. }
      splits; auto.
      * unfold rinv. simpl. splits; auto. exists m. splits; auto.
      * right. unfold hst. rewrite C, Cm. simpl. auto.
    + destruct PSp as [X _]. discriminate.
  - (* somebody else changes its authority *)
    apply N.eqb_neq in El.
    assert (Il : In l gs') by (apply Keep; auto; apply L).
    assert (Fl : find_gate (g_h l) gs' = Some l) by (apply find_gate_in; auto).
    rewrite Fl.
    assert (Others : forall y, In y gs' -> y <> g' -> y = l \/ better l y = true).
    { intros y Iy Ny. destruct (Cases y Iy) as [|[Iy0 _]]; [contradiction|]. apply L; auto. }
    destruct (better g' l) eqn:B.
    + intros H; inversion H; subst.
      assert (Cm : cur (set_region_gates r gs' (Some (g_h g))) = Some g').
      { apply (cur_some _ g'); simpl; auto. }
      splits; auto.
      * unfold rinv. simpl. splits; auto. exists g'. splits; auto. split; auto.
        intros y Iy. destruct (Cases y Iy) as [|[Iy0 Ny]]; auto. right.
        destruct (L) as [_ ML]. destruct (ML _ Iy0) as [->|By]; auto.
        eapply better_trans; eauto.
      * right. unfold hst. rewrite C, Cm. simpl. auto.
    + intros H; inversion H; subst.
      assert (Cm : cur (set_region_gates r gs' (Some (g_h l))) = Some l).
      { apply cur_some; simpl; auto. }
      splits; auto.
      * unfold rinv. simpl. splits; auto. exists l. splits; auto. split; auto.
        intros y Iy. destruct (Cases y Iy) as [->|[Iy0 Ny]].
        -- destruct (PD g' l Ig' Il) as [X|Np]; [left; auto|].
           destruct (better_total g' l Np) as [X|X]; [congruence|right; auto].
        -- apply L; auto.
      * left. split; auto. unfold hst. rewrite C, Cm. simpl. auto.
Qed.

(* ---------- region.release ---------- *)
Lemma region_release_inv ord r h r' x res rm :
  rinv r -> is_perm ord -> In h (map g_h (r_gates r)) ->
  region_release ord r h = (r', x, res, rm) ->
  r_res r' = r_res r /\
  r_gates r' = filter (fun g => negb (g_h g =? h)) (r_gates r) /\
  region_release (fun l => l) r h = (r', x, res, rm) /\
  (if rm then r_gates r' = [] /\ res = r_res r /\ x_from x = hst r /\ x_to x = None
   else rinv r' /\ xrel x (hst r) (hst r')).
Proof.
  intros I P Hh. pose proof (rinv_cur _ I) as (l & C & E & L & FG).
  destruct I as (ND & PS & FC & _).
  destruct (find_gate_is_some _ _ Hh) as (g & Fg).
  destruct (find_gate_some _ _ _ Fg) as (Ig & Eh).
  set (gs := filter (fun g => negb (g_h g =? h)) (r_gates r)).
  assert (NDs : NoDup (map g_h gs)).
  { unfold gs. rewrite filter_h_map. apply NoDup_filter; auto. }
  assert (PSs : pos_sorted gs) by (apply pos_sorted_filter; auto).
  assert (FCs : Forall (fun g => g_pos g < r_counter r) gs).
  { apply Forall_forall. intros y Iy. apply filter_In in Iy. rewrite Forall_forall in FC. apply FC; tauto. }
  assert (PD : pos_distinct (oset None gs)).
  { intros y z [Ey|Iy] [Ez|Iz]; try discriminate. apply (pos_sorted_distinct gs); auto. }
  unfold region_release. rewrite E, Fg. fold gs.
  destruct (g_h l =? h) eqn:El.
  - apply N.eqb_eq in El.
    assert (l = g) by (apply (NoDup_h_inj (r_gates r)); auto; [apply L|congruence]). subst l.
    assert (Eq : pick None (ord gs) = pick None gs).
    { symmetry. apply pick_perm; auto. }
    rewrite Eq. pose proof (pick_spec gs None PD) as PSp.
    destruct (pick None gs) as [m|] eqn:Pm; simpl.
    + intros H; inversion H; subst.
      assert (Lm : is_leader m gs).
      { eapply is_max_ext; [|apply PSp]. intros y. unfold oset. split; [intros [Ey|Iy]|]; auto.
        discriminate. }
      assert (Cm : cur (set_region_gates r gs (Some (g_h m))) = Some m).
      { apply cur_some; simpl; auto. apply Lm. }
      splits; auto.
      * unfold rinv. simpl. splits; auto. exists m. splits; auto.
      * right. unfold hst. rewrite C, Cm. simpl. auto.
    + intros H; inversion H; subst. destruct PSp as [_ Eg]. splits; auto.
      unfold hst. rewrite C. simpl. auto.
  - apply N.eqb_neq in El. intros H; inversion H; subst.
    assert (Il : In l gs).
    { apply filter_In. split; [apply L|]. apply negb_true_iff, N.eqb_neq. auto. }
    assert (Cm : cur (set_region_gates r gs (Some (g_h l))) = Some l).
    { apply cur_some; simpl; auto. }
    splits; auto.
    + unfold rinv. simpl. splits; auto. exists l. splits; auto. split; auto.
      intros y Iy. apply L. apply filter_In in Iy. tauto.
    + left. split; auto. unfold hst. rewrite C, Cm. simpl. auto.
Qed.

(* ---------- the controller ---------- *)
Definition handles (rs : list region) : list N := flat_map (fun r => map g_h (r_gates r)) rs.
Definition hold (s : ctl) : N -> option cstate := holder (c_regions s).

Definition cinv (s : ctl) : Prop :=
  Forall rinv (c_regions s) /\
  NoDup (handles (c_regions s)) /\
  (forall h, In h (c_live s) <-> In h (handles (c_regions s))) /\
  incl (handles (c_regions s)) (c_used s) /\
  NoDup (map r_res (c_regions s)) /\
  Forall (fun r => r_res r <= c_nres s) (c_regions s).

Lemma NoDup_app_iff {A} (l l' : list A) :
  NoDup (l ++ l') <-> NoDup l /\ NoDup l' /\ forall a, In a l -> ~ In a l'.
Proof.
  induction l as [|b rest IH]; simpl.
  - split; [intros H; splits; auto; constructor|tauto].
  - split.
    + intros ND. inversion ND; subst. apply IH in H2. destruct H2 as (N1 & N2 & D). splits; auto.
      * constructor; auto. intros I. apply H1. apply in_or_app; auto.
      * intros a [<-|Ia]; auto. intros I. apply H1. apply in_or_app; auto.
    + intros (N1 & N2 & D). inversion N1; subst. constructor.
      * intros I. apply in_app_or in I. destruct I as [I|I]; auto. apply (D b); auto.
      * apply IH. splits; auto.
Qed.

Lemma handles_app l1 l2 : handles (l1 ++ l2) = handles l1 ++ handles l2.
Proof. apply flat_map_app. Qed.
Lemma handles_mid l1 r l2 :
  handles (l1 ++ r :: l2) = handles l1 ++ map g_h (r_gates r) ++ handles l2.
Proof. rewrite handles_app. reflexivity. Qed.

Lemma in_mid {A} (x : A) a g b : In x (a ++ g ++ b) <-> In x a \/ In x g \/ In x b.
Proof. rewrite !in_app_iff. tauto. Qed.

Lemma NoDup_mid_replace {A} (a g g' b : list A) :
  NoDup (a ++ g ++ b) -> NoDup g' ->
  (forall x, In x g' -> ~ In x a /\ ~ In x b) -> NoDup (a ++ g' ++ b).
Proof.
  rewrite !NoDup_app_iff. intros (Na & (Ng & Nb & Dgb) & Dab) Ng' F. splits; auto.
  - intros x Ix. apply F; auto.
  - intros x Ix I. apply in_app_or in I. destruct I as [I|I].
    + destruct (F x I) as [Fa _]. auto.
    + apply (Dab x Ix). apply in_or_app; auto.
Qed.

Lemma NoDup_mid_remove {A} (a g b : list A) : NoDup (a ++ g ++ b) -> NoDup (a ++ b).
Proof.
  rewrite !NoDup_app_iff. intros (Na & (Ng & Nb & Dgb) & Dab). splits; auto.
  intros x Ix I. apply (Dab x Ix). apply in_or_app; auto.
Qed.

Lemma has_gate_iff h r : has_gate h r = true <-> In h (map g_h (r_gates r)).
Proof.
  unfold has_gate. split.
  - destruct (find_gate h (r_gates r)) eqn:E; [|discriminate]. intros _.
    apply find_gate_some in E. destruct E as [I <-]. apply in_map; auto.
  - intros I. destruct (find_gate_is_some _ _ I) as (g & ->). auto.
Qed.

Lemma on_region_split h rs :
  In h (handles rs) ->
  exists l1 r l2, rs = l1 ++ r :: l2 /\ In h (map g_h (r_gates r)) /\
    forall A (f : region -> region * A) d,
      on_region h f d rs = (l1 ++ fst (f r) :: l2, snd (f r)).
Proof.
  induction rs as [|r rest IH]; simpl; intros I; [destruct I|].
  destruct (has_gate h r) eqn:Hg.
  - apply has_gate_iff in Hg. exists [], r, rest. splits; auto.
    intros A f d. destruct (f r); auto.
  - apply in_app_or in I. destruct I as [I|I].
    + apply has_gate_iff in I. congruence.
    + destruct (IH I) as (l1 & r0 & l2 & -> & Hh & Eo).
      exists (r :: l1), r0, l2. splits; auto. intros A f d. rewrite Eo. auto.
Qed.

Lemma region_of_split h rs :
  In h (handles rs) ->
  exists l1 r l2, rs = l1 ++ r :: l2 /\ In h (map g_h (r_gates r)) /\ region_of h rs = Some r.
Proof.
  induction rs as [|r rest IH]; simpl; intros I; [destruct I|].
  destruct (has_gate h r) eqn:Hg.
  - apply has_gate_iff in Hg. exists [], r, rest. auto.
  - apply in_app_or in I. destruct I as [I|I].
    + apply has_gate_iff in I. congruence.
    + destruct (IH I) as (l1 & r0 & l2 & -> & Hh & Eo). exists (r :: l1), r0, l2. auto.
Qed.

Lemma open_in_split shared c rs :
  n_overlapping c rs = 1%nat ->
  exists l1 r l2 r' st x, rs = l1 ++ r :: l2 /\ region_open shared r c = (r', st, x) /\
    open_in shared c rs = (l1 ++ r' :: l2, st, x).
Proof.
  unfold n_overlapping. induction rs as [|r rest IH]; simpl; [discriminate|].
  destruct (overlaps (r_tr r) (o_tr c)); simpl.
  - intros _. destruct (region_open shared r c) as [[r' st] x] eqn:E.
    exists [], r, rest, r', st, x. auto.
  - intros H. destruct (IH H) as (l1 & r0 & l2 & r' & st & x & -> & E & Eo).
    exists (r :: l1), r0, l2, r', st, x. simpl. rewrite Eo. auto.
Qed.

(* holders *)
Lemma holder_none rs rho : ~ In rho (map r_res rs) -> holder rs rho = None.
Proof.
  induction rs as [|r rest IH]; simpl; auto. intros N.
  destruct (r_res r =? rho) eqn:E; [apply N.eqb_eq in E; exfalso; apply N; auto|].
  apply IH. intros I. apply N; auto.
Qed.

Lemma holder_app_other l1 l2 rho :
  ~ In rho (map r_res l1) -> holder (l1 ++ l2) rho = holder l2 rho.
Proof.
  induction l1 as [|r rest IH]; simpl; auto. intros N.
  destruct (r_res r =? rho) eqn:E; [apply N.eqb_eq in E; exfalso; apply N; auto|].
  apply IH. intros I. apply N; auto.
Qed.

Lemma holder_mid_at l1 r l2 :
  ~ In (r_res r) (map r_res l1) -> holder (l1 ++ r :: l2) (r_res r) = hst r.
Proof. intros N. rewrite holder_app_other; auto. simpl. rewrite N.eqb_refl. auto. Qed.

Lemma holder_mid_other l1 r l2 k :
  k <> r_res r -> holder (l1 ++ r :: l2) k = holder (l1 ++ l2) k.
Proof.
  intros N. induction l1 as [|a rest IH]; simpl.
  - destruct (r_res r =? k) eqn:E; auto. apply N.eqb_eq in E. congruence.
  - rewrite IH. auto.
Qed.

Lemma holder_res rs rho st : holder rs rho = Some st -> snd st = rho.
Proof.
  induction rs as [|r rest IH]; simpl; [discriminate|].
  destruct (r_res r =? rho) eqn:E; auto. apply N.eqb_eq in E.
  unfold hst. destruct (cur r); simpl; [|discriminate]. intros X; inversion X. auto.
Qed.

Lemma NoDup_res_mid l1 r l2 :
  NoDup (map r_res (l1 ++ r :: l2)) ->
  ~ In (r_res r) (map r_res l1) /\ ~ In (r_res r) (map r_res l2) /\ NoDup (map r_res (l1 ++ l2)).
Proof.
  rewrite !map_app. simpl. intros ND.
  pose proof (NoDup_remove_1 _ _ _ ND) as N1. pose proof (NoDup_remove_2 _ _ _ ND) as N2.
  splits; auto; intros I; apply N2; apply in_or_app; auto.
Qed.

Lemma remove_region_mid l1 r l2 :
  ~ In (r_res r) (map r_res l1) -> r_gates r = [] ->
  remove_region (r_res r) (l1 ++ r :: l2) = l1 ++ l2.
Proof.
  intros N G. induction l1 as [|a rest IH]; simpl.
  - rewrite N.eqb_refl, G. auto.
  - destruct (r_res a =? r_res r) eqn:E.
    + apply N.eqb_eq in E. exfalso. apply N. left; auto.
    + simpl. rewrite IH; auto. intros I. apply N. right; auto.
Qed.

Lemma Forall_mid {A} (P : A -> Prop) l1 x l2 :
  Forall P (l1 ++ x :: l2) <-> Forall P l1 /\ P x /\ Forall P l2.
Proof.
  rewrite Forall_app. split.
  - intros [F1 F2]. inversion F2; subst. auto.
  - intros (F1 & Px & F2). auto.
Qed.

Lemma cinv_mid s l1 r l2 r' nres' used' live' :
  cinv s -> c_regions s = l1 ++ r :: l2 -> rinv r' -> r_res r' = r_res r ->
  (forall x, In x (map g_h (r_gates r')) -> ~ In x (handles l1) /\ ~ In x (handles l2)) ->
  (forall x, In x live' <-> In x (handles l1) \/ In x (map g_h (r_gates r')) \/ In x (handles l2)) ->
  (forall x, In x (handles l1) \/ In x (map g_h (r_gates r')) \/ In x (handles l2) -> In x used') ->
  c_nres s <= nres' ->
  cinv (Ctl (l1 ++ r' :: l2) nres' used' live').
Proof.
  intros (FI & ND & LV & US & NR & FR) E I' ER Fresh LV' US' LE.
  rewrite E in *. apply Forall_mid in FI. destruct FI as (F1 & Ir & F2).
  apply Forall_mid in FR. destruct FR as (R1 & Rr & R2).
  unfold cinv. simpl. splits.
  - apply Forall_mid. auto.
  - rewrite handles_mid in *. eapply NoDup_mid_replace; eauto. apply I'.
  - intros x. rewrite handles_mid, in_mid. auto.
  - intros x. rewrite handles_mid, in_mid. auto.
  - rewrite map_app in *. simpl in *. rewrite ER. auto.
  - apply Forall_mid. splits.
    + eapply Forall_impl; [|apply R1]. simpl. intros; lia.
    + rewrite ER. lia.
    + eapply Forall_impl; [|apply R2]. simpl. intros; lia.
Qed.

Lemma cinv_remove s l1 r l2 used' live' :
  cinv s -> c_regions s = l1 ++ r :: l2 ->
  (forall x, In x live' <-> In x (handles l1) \/ In x (handles l2)) ->
  (forall x, In x (handles l1) \/ In x (handles l2) -> In x used') ->
  cinv (Ctl (l1 ++ l2) (c_nres s) used' live').
Proof.
  intros (FI & ND & LV & US & NR & FR) E LV' US'.
  rewrite E in *. apply Forall_mid in FI. destruct FI as (F1 & Ir & F2).
  apply Forall_mid in FR. destruct FR as (R1 & Rr & R2).
  unfold cinv. simpl. splits.
  - apply Forall_app. auto.
  - rewrite handles_mid in ND. rewrite handles_app. eapply NoDup_mid_remove; eauto.
  - intros x. rewrite handles_app, in_app_iff. auto.
  - intros x. rewrite handles_app, in_app_iff. auto.
  - apply NoDup_res_mid in NR. apply NR.
  - apply Forall_app. auto.
Qed.

Lemma cinv_insert s l1 l2 r' used' live' :
  cinv s -> c_regions s = l1 ++ l2 -> rinv r' -> r_res r' = c_nres s + 1 ->
  (forall x, In x (map g_h (r_gates r')) -> ~ In x (handles l1) /\ ~ In x (handles l2)) ->
  (forall x, In x live' <-> In x (handles l1) \/ In x (map g_h (r_gates r')) \/ In x (handles l2)) ->
  (forall x, In x (handles l1) \/ In x (map g_h (r_gates r')) \/ In x (handles l2) -> In x used') ->
  cinv (Ctl (l1 ++ r' :: l2) (c_nres s + 1) used' live').
Proof.
  intros (FI & ND & LV & US & NR & FR) E I' ER Fresh LV' US'.
  rewrite E in *. apply Forall_app in FI. destruct FI as (F1 & F2).
  apply Forall_app in FR. destruct FR as (R1 & R2).
  unfold cinv. simpl. splits.
  - apply Forall_mid. auto.
  - rewrite handles_mid. rewrite handles_app in ND.
    apply NoDup_app_iff in ND. destruct ND as (N1 & N2 & D).
    apply NoDup_app_iff. splits; auto.
    + apply NoDup_app_iff. splits; auto. apply I'. intros x Ix. apply Fresh; auto.
    + intros x Ix I. apply in_app_or in I. destruct I as [I|I].
      * destruct (Fresh x I) as [Fa _]. auto.
      * apply (D x); auto.
  - intros x. rewrite handles_mid, in_mid. auto.
  - intros x. rewrite handles_mid, in_mid. auto.
  - rewrite map_app in *. simpl. apply NoDup_app_iff in NR. destruct NR as (N1 & N2 & D).
    assert (Fr : forall l, Forall (fun r => r_res r <= c_nres s) l -> ~ In (r_res r') (map r_res l)).
    { intros l Fl I. apply in_map_iff in I. destruct I as (y & Ey & Iy).
      rewrite Forall_forall in Fl. specialize (Fl _ Iy). lia. }
    apply NoDup_app_iff. splits; auto.
    + constructor; auto.
    + intros x Ix [<-|I]; [apply (Fr l1); auto|apply (D x); auto].
  - apply Forall_mid. splits.
    + eapply Forall_impl; [|apply R1]. simpl. intros; lia.
    + lia.
    + eapply Forall_impl; [|apply R2]. simpl. intros; lia.
Qed.

(* ---------- one step preserves the invariant and reports the right transfer ---------- *)
Definition step_post (s s' : ctl) (ou : out) : Prop :=
  cinv s' /\
  exists rho, (forall k, k <> rho -> hold s' k = hold s k) /\
              xrel (out_x ou) (hold s rho) (hold s' rho).

Lemma step_post_same s used' st :
  cinv s -> incl (c_used s) used' ->
  step_post s (Ctl (c_regions s) (c_nres s) used' (c_live s)) (Out st false X0 0).
Proof.
  intros (FI & ND & LV & US & NR & FR) Inc. split.
  - unfold cinv. simpl. splits; auto. intros x Ix. apply Inc, US; auto.
  - exists 0. split; auto. left. auto.
Qed.

Lemma NoDup_mid_disj {A} (a g b : list A) x :
  NoDup (a ++ g ++ b) -> In x g -> ~ In x a /\ ~ In x b.
Proof.
  rewrite !NoDup_app_iff. intros (Na & (Ng & Nb & Dgb) & Dab) Ix. split.
  - intros I. apply (Dab x I). apply in_or_app; auto.
  - apply Dgb; auto.
Qed.

Lemma region_open_empty shared res tr c :
  region_open shared (Region res tr [] None 0) c =
  (Region res (tr_union tr (o_tr c)) [Gate (o_h c) (o_subj c) (o_auth c) 0] (Some (o_h c)) 1, Ok,
   X None (Some (o_subj c, o_auth c, res))).
Proof. unfold region_open. simpl. rewrite andb_false_r. reflexivity. Qed.

Lemma rinv_single res tr h sj a :
  rinv (Region res tr [Gate h sj a 0] (Some h) 1).
Proof.
  unfold rinv. splits.
  - simpl. constructor; [intros []|constructor].
  - simpl. split; auto.
  - simpl. constructor; [simpl; lia|constructor].
  - exists (Gate h sj a 0). unfold cur, find_gate. simpl. rewrite N.eqb_refl. splits; auto.
    split; [left; auto|]. intros x [<-|[]]. auto.
Qed.

Lemma existsb_eqb_false h l : existsb (N.eqb h) l = false -> ~ In h l.
Proof.
  intros E I. assert (existsb (N.eqb h) l = true); [|congruence].
  apply existsb_exists. exists h. split; auto. apply N.eqb_refl.
Qed.
Lemma existsb_eqb_true h l : existsb (N.eqb h) l = true -> In h l.
Proof.
  intros E. apply existsb_exists in E. destruct E as (x & I & E). apply N.eqb_eq in E. subst; auto.
Qed.

Lemma open_gate_core shared s c s' ou :
  cinv s -> open_gate true shared s c = (s', ou) -> step_post s s' ou.
Proof.
  intros I. unfold open_gate.
  destruct (existsb (N.eqb (o_h c)) (c_used s)) eqn:U.
  { intros H; inversion H; subst s' ou. destruct s as [rs nr us lv].
    apply (step_post_same (Ctl rs nr us lv) us Skip I). apply incl_refl. }
  apply existsb_eqb_false in U.
  assert (Inc : incl (c_used s) (c_used s ++ [o_h c])) by (apply incl_appl, incl_refl).
  destruct ((o_subj c =? 0) || tr_is_zero (o_tr c)).
  { intros H; inversion H; subst. apply step_post_same; auto. }
  pose proof I as (FI & ND & LV & US & NR & FR).
  assert (NH : ~ In (o_h c) (handles (c_regions s))) by (intros X; apply U, US; auto).
  destruct (n_overlapping c (c_regions s)) as [|[|n]] eqn:NO.
  - (* a new region *)
    unfold new_region. destruct (o_resfail c).
    { intros H; inversion H; subst. apply step_post_same; auto. }
    rewrite region_open_empty. unfold insert_region.
    set (r1 := Region (c_nres s + 1) (tr_union (o_tr c) (o_tr c))
                 [Gate (o_h c) (o_subj c) (o_auth c) 0] (Some (o_h c)) 1).
    set (i := bsearch _ _ _ _ _).
    set (l1 := firstn i (c_regions s)). set (l2 := skipn i (c_regions s)).
    assert (E : c_regions s = l1 ++ l2) by (symmetry; apply firstn_skipn).
    intros H; inversion H; subst s' ou. clear H.
    rewrite E, handles_app in NH.
    assert (Fresh : forall l, Forall (fun r => r_res r <= c_nres s) l -> ~ In (c_nres s + 1) (map r_res l)).
    { intros l Fl X. apply in_map_iff in X. destruct X as (y & Ey & Iy).
      rewrite Forall_forall in Fl. specialize (Fl _ Iy). lia. }
    split.
    + apply (cinv_insert s); auto.
      * apply rinv_single.
      * simpl. intros x [<-|[]]. split; intros X; apply NH, in_or_app; auto.
      * simpl. intros x. rewrite in_app_iff, LV, E, handles_app, in_app_iff. simpl. tauto.
      * simpl. intros x. rewrite in_app_iff. intros [X|[[<-|[]]|X]]; simpl; auto;
          left; apply US; rewrite E, handles_app; apply in_or_app; auto.
    + exists (c_nres s + 1). unfold hold. simpl. split.
      * intros k Nk. rewrite holder_mid_other; auto. rewrite E. auto.
      * right. simpl. rewrite (holder_none (c_regions s)); auto.
        split; auto. rewrite E in FR. apply Forall_app in FR.
        replace (c_nres s + 1) with (r_res r1) at 1 by reflexivity.
        rewrite holder_mid_at; [|apply Fresh; apply FR].
        unfold hst, cur, find_gate. simpl. rewrite N.eqb_refl. reflexivity.
  - (* exactly one overlapping region *)
    destruct (open_in_split shared c _ NO) as (l1 & r & l2 & r' & st & x & E & RO & ->).
    rewrite E in FI. apply Forall_mid in FI. destruct FI as (F1 & Ir & F2).
    rewrite E, handles_mid in NH, ND.
    assert (NHr : ~ In (o_h c) (map g_h (r_gates r))) by (intros X; apply NH, in_mid; auto).
    destruct (region_open_inv _ _ _ _ _ _ Ir NHr RO) as (Ir' & ER & XR & GOk & GNo & NP).
    destruct (NoDup_res_mid _ _ _ (eq_ind _ (fun l => NoDup (map r_res l)) NR _ E)) as (R1 & R2 & _).
    assert (HO : exists rho, (forall k, k <> rho -> holder (l1 ++ r' :: l2) k = hold s k) /\
                 xrel x (hold s rho) (holder (l1 ++ r' :: l2) rho)).
    { exists (r_res r). unfold hold. rewrite E. split.
      - intros k Nk. rewrite !holder_mid_other; auto. congruence.
      - rewrite holder_mid_at; auto. rewrite <- ER. rewrite holder_mid_at; [|rewrite ER; auto]. auto. }
    assert (NonOk : st <> Ok ->
      step_post s (Ctl (l1 ++ r' :: l2) (c_nres s) (c_used s ++ [o_h c]) (c_live s)) (Out st false x 0)).
    { intros N. destruct (GNo N) as [EG ->]. split; auto.
      apply (cinv_mid s l1 r l2); auto; try lia; rewrite EG.
      - intros y Iy. eapply NoDup_mid_disj; eauto.
      - intros y. rewrite LV, E, handles_mid, in_mid. tauto.
      - intros y Iy. apply in_or_app. left. apply US. rewrite E, handles_mid, in_mid. auto. }
    destruct st; try (intros H; inversion H; subst s' ou; apply NonOk; discriminate).
    intros H; inversion H; subst s' ou. clear H NonOk. split; auto.
    rewrite (GOk eq_refl) in *.
    apply (cinv_mid s l1 r l2); auto; try lia; rewrite (GOk eq_refl), map_app; simpl.
    + intros y Iy. apply in_app_or in Iy. destruct Iy as [Iy|[<-|[]]].
      * eapply NoDup_mid_disj; eauto.
      * split; intros X; apply NH, in_mid; auto.
    + intros y. rewrite !in_app_iff, LV, E, handles_mid, in_mid. simpl. tauto.
    + intros y Iy. rewrite in_app_iff in *. simpl.
      destruct Iy as [Iy|[[Iy|[<-|[]]]|Iy]]; auto; left; apply US; rewrite E, handles_mid, in_mid; auto.
  - intros H; inversion H; subst. apply step_post_same; auto.
Qed.

Lemma step_core ord shared s o s' ou :
  cinv s -> is_perm ord -> step_gen ord true shared s o = (s', ou) ->
  step_post s s' ou /\ step true shared s o = (s', ou).
Proof.
  intros I P. destruct o as [c|h a|h]; simpl.
  - intros H. split; auto. eapply open_gate_core; eauto.
  - (* SetAuthority *)
    unfold step. simpl.
    destruct (existsb (N.eqb h) (c_live s)) eqn:Lv.
    2:{ intros H; inversion H; subst s' ou. split; auto. destruct s as [rs nr us lv].
        apply (step_post_same (Ctl rs nr us lv) us Skip I). apply incl_refl. }
    apply existsb_eqb_true in Lv.
    pose proof I as (FI & ND & LV & US & NR & FR). apply LV in Lv.
    destruct (on_region_split h _ Lv) as (l1 & r & l2 & E & Hh & Eo).
    rewrite !Eo.
    rewrite E in FI. apply Forall_mid in FI. destruct FI as (F1 & Ir & F2).
    destruct (region_update ord r h a) as [[r' st] x] eqn:RU.
    destruct (region_update_inv _ _ _ _ _ _ _ Ir P Hh RU) as (Ir' & -> & ER & EH & XR & RU').
    rewrite RU'. simpl.
    intros H; inversion H; subst s' ou. clear H. split; auto.
    rewrite E, handles_mid in ND.
    destruct (NoDup_res_mid _ _ _ (eq_ind _ (fun l => NoDup (map r_res l)) NR _ E)) as (R1 & R2 & _).
    split.
    + apply (cinv_mid s l1 r l2); auto; try lia; rewrite EH.
      * intros y Iy. eapply NoDup_mid_disj; eauto.
      * intros y. rewrite LV, E, handles_mid, in_mid. tauto.
      * intros y Iy. apply US. rewrite E, handles_mid, in_mid. auto.
    + exists (r_res r). unfold hold. simpl. rewrite E. split.
      * intros k Nk. rewrite !holder_mid_other; auto. congruence.
      * rewrite holder_mid_at; auto. rewrite <- ER. rewrite holder_mid_at; [|rewrite ER; auto]. auto.
  - (* Release *)
    unfold step. simpl.
    destruct (existsb (N.eqb h) (c_live s)) eqn:Lv.
    2:{ intros H; inversion H; subst s' ou. split; auto. destruct s as [rs nr us lv].
        apply (step_post_same (Ctl rs nr us lv) us Skip I). apply incl_refl. }
    apply existsb_eqb_true in Lv.
    pose proof I as (FI & ND & LV & US & NR & FR). apply LV in Lv.
    destruct (on_region_split h _ Lv) as (l1 & r & l2 & E & Hh & Eo).
    rewrite !Eo.
    rewrite E in FI. apply Forall_mid in FI. destruct FI as (F1 & Ir & F2).
    destruct (region_release ord r h) as [[[r' x] res] rm] eqn:RR.
    destruct (region_release_inv _ _ _ _ _ _ _ Ir P Hh RR) as (ER & EG & RR' & Post).
    rewrite RR'. simpl.
    intros H; inversion H; subst s' ou. clear H. split; auto.
    rewrite E, handles_mid in ND.
    destruct (NoDup_res_mid _ _ _ (eq_ind _ (fun l => NoDup (map r_res l)) NR _ E)) as (R1 & R2 & _).
    assert (LiveF : forall y, In y (filter (fun k => negb (k =? h)) (c_live s)) <->
              In y (handles l1) \/ In y (map g_h (r_gates r')) \/ In y (handles l2)).
    { intros y. rewrite filter_In, LV, E, handles_mid, in_mid, EG, filter_h_map, filter_In.
      rewrite negb_true_iff, N.eqb_neq.
      destruct (NoDup_mid_disj _ _ _ h ND Hh) as [N1 N2].
      split; [tauto|]. intros [X|[X|X]]; split; try tauto; intros ->; tauto. }
    destruct rm.
    + destruct Post as (G0 & -> & XF & XT).
      rewrite <- ER. rewrite remove_region_mid; auto; [|rewrite ER; auto].
      split.
      * apply (cinv_remove s l1 r l2); auto.
        -- intros y. rewrite LiveF, G0. simpl. tauto.
        -- intros y Iy. apply US. rewrite E, handles_mid, in_mid. tauto.
      * exists (r_res r). unfold hold. simpl. rewrite E. split.
        -- intros k Nk. rewrite holder_mid_other; auto.
        -- right. rewrite holder_mid_at; auto. split; auto. rewrite XT.
           symmetry. apply holder_none. rewrite map_app. intros X. apply in_app_or in X. tauto.
    + destruct Post as (Ir' & XR). split.
      * apply (cinv_mid s l1 r l2); auto; try lia.
        -- intros y Iy. rewrite EG, filter_h_map in Iy. apply filter_In in Iy.
           eapply NoDup_mid_disj; eauto. tauto.
        -- intros y Iy. apply US. rewrite E, handles_mid, in_mid.
           rewrite EG, filter_h_map, filter_In in Iy. tauto.
      * exists (r_res r). unfold hold. simpl. rewrite E. split.
        -- intros k Nk. rewrite !holder_mid_other; auto. congruence.
        -- rewrite holder_mid_at; auto. rewrite <- ER. rewrite holder_mid_at; [|rewrite ER; auto]. auto.
Qed.

(* ---------- reachable states ---------- *)
Lemma is_perm_id : is_perm (fun l => l).
Proof. intros l. apply Permutation_refl. Qed.

Lemma cinv_init : cinv init.
Proof.
  unfold cinv, init. simpl. split; [constructor|]. split; [constructor|]. split; [tauto|].
  split; [intros x []|]. split; constructor.
Qed.

Lemma step_cinv shared s o : cinv s -> cinv (fst (step true shared s o)).
Proof.
  intros I. destruct (step true shared s o) as [s' ou] eqn:E.
  destruct (step_core (fun l => l) shared s o s' ou I is_perm_id E) as [[I' _] _]. auto.
Qed.

Lemma run_cinv shared ops : forall s, cinv s -> cinv (run true shared s ops).
Proof.
  induction ops as [|o rest IH]; simpl; auto. intros s I. apply IH, step_cinv; auto.
Qed.

(* every map iteration order gives the same run *)
Lemma run_gen_eq shared ops : forall s,
  cinv s -> Forall (fun p => is_perm (snd p)) ops ->
  run_gen true shared s ops = run true shared s (map fst ops).
Proof.
  induction ops as [|[o ord] rest IH]; simpl; auto. intros s I F. inversion F; subst.
  destruct (step_gen ord true shared s o) as [s' ou] eqn:E.
  destruct (step_core ord shared s o s' ou I H1 E) as [[I' _] Es]. rewrite Es. simpl.
  apply IH; auto.
Qed.

(* ---------- Authorize ---------- *)
Lemma authorize_spec shared s h :
  cinv s -> In h (c_live s) ->
  exists r g l, In r (c_regions s) /\ In g (r_gates r) /\ g_h g = h /\
    cur r = Some l /\ is_leader l (r_gates r) /\ NoDup (map g_h (r_gates r)) /\
    authorize shared s h =
      (if (if shared then g_auth l <=? g_auth g else g_h l =? h) then (true, r_res r) else (false, 0)).
Proof.
  intros (FI & ND & LV & _) Lv. apply LV in Lv.
  destruct (region_of_split h _ Lv) as (l1 & r & l2 & E & Hh & RO).
  rewrite E in FI. apply Forall_mid in FI. destruct FI as (_ & Ir & _).
  pose proof (rinv_cur _ Ir) as (l & C & Ec & L & FG).
  destruct (find_gate_is_some _ _ Hh) as (g & Fg).
  destruct (find_gate_some _ _ _ Fg) as (Ig & Eh).
  exists r, g, l. splits; auto.
  - rewrite E. apply in_or_app. right. left. auto.
  - apply Ir.
  - unfold authorize. rewrite RO, Fg, Ec, C. destruct shared; auto.
Qed.

(* ---------- transfers ---------- *)
Lemma occurred_same a : occurred (X a a) = false.
Proof.
  unfold occurred. simpl. destruct a as [[[sj au] rs]|]; auto. simpl. rewrite !N.eqb_refl. auto.
Qed.

Lemma not_occurred_eq f t rho :
  occurred (X f t) = false ->
  (forall st, f = Some st -> snd st = rho) -> (forall st, t = Some st -> snd st = rho) -> f = t.
Proof.
  unfold occurred. simpl. destruct f as [[[s1 a1] r1]|], t as [[[s2 a2] r2]|]; simpl; auto; try discriminate.
  intros H Hf Ht. apply negb_false_iff, andb_true_iff in H. destruct H as [E1 E2].
  apply N.eqb_eq in E1, E2. subst.
  specialize (Hf _ eq_refl). specialize (Ht _ eq_refl). simpl in *. subst. auto.
Qed.

Lemma transfer_exact shared s o s' ou :
  cinv s -> step true shared s o = (s', ou) ->
  (forall rho, hold s rho <> hold s' rho ->
     x_from (out_x ou) = hold s rho /\ x_to (out_x ou) = hold s' rho) /\
  ((forall rho, hold s rho = hold s' rho) -> occurred (out_x ou) = false) /\
  (forall rho1 rho2, hold s rho1 <> hold s' rho1 -> hold s rho2 <> hold s' rho2 -> rho1 = rho2).
Proof.
  intros I E.
  destruct (step_core (fun l => l) shared s o s' ou I is_perm_id E) as [[_ (rho0 & Oth & XR)] _].
  assert (Only : forall rho, hold s rho <> hold s' rho -> rho = rho0).
  { intros rho Nq. destruct (N.eq_dec rho rho0); auto. exfalso. apply Nq. symmetry. apply Oth; auto. }
  splits.
  - intros rho Nq. pose proof (Only _ Nq) as Er. subst rho.
    destruct XR as [[_ Eq]|XR]; [contradiction|auto].
  - intros Same. destruct XR as [[-> _]|[Ef Et]]; auto.
    destruct (out_x ou) as [f t]. simpl in *. subst. rewrite Same. apply occurred_same.
  - intros r1 r2 N1 N2. pose proof (Only _ N1). pose proof (Only _ N2). congruence.
Qed.

Lemma apply_xfer_step H x s s' rho0 :
  (forall k, H k = hold s k) ->
  (forall k, k <> rho0 -> hold s' k = hold s k) ->
  xrel x (hold s rho0) (hold s' rho0) ->
  forall k, apply_xfer H x k = hold s' k.
Proof.
  intros EH Oth XR k. unfold apply_xfer.
  destruct XR as [[-> Eq]|[Ef Et]].
  - simpl. rewrite EH. destruct (N.eq_dec k rho0) as [->|Nk]; auto. symmetry; auto.
  - destruct x as [f t]. simpl in *.
    assert (Rf : forall st, f = Some st -> snd st = rho0).
    { intros st ->. symmetry in Ef. apply holder_res in Ef. auto. }
    assert (Rt : forall st, t = Some st -> snd st = rho0).
    { intros st ->. symmetry in Et. apply holder_res in Et. auto. }
    destruct (occurred (X f t)) eqn:Oc.
    + destruct t as [st|].
      * rewrite (Rt _ eq_refl). destruct (k =? rho0) eqn:Ek.
        -- apply N.eqb_eq in Ek. subst. auto.
        -- apply N.eqb_neq in Ek. rewrite EH. symmetry; auto.
      * destruct f as [sf|].
        -- rewrite (Rf _ eq_refl). destruct (k =? rho0) eqn:Ek.
           ++ apply N.eqb_eq in Ek. subst. auto.
           ++ apply N.eqb_neq in Ek. rewrite EH. symmetry; auto.
        -- discriminate.
    + rewrite EH. destruct (N.eq_dec k rho0) as [->|Nk]; [|symmetry; auto].
      rewrite <- Ef, <- Et. eapply not_occurred_eq; eauto.
Qed.

Lemma reconstruct shared ops : forall s H,
  cinv s -> (forall k, H k = hold s k) ->
  forall k, fold_left apply_xfer (map out_x (outs true shared s ops)) H k
            = hold (run true shared s ops) k.
Proof.
  induction ops as [|o rest IH]; simpl; intros s H I EH k; auto.
  destruct (step true shared s o) as [s' ou] eqn:E. simpl.
  destruct (step_core (fun l => l) shared s o s' ou I is_perm_id E) as [[I' (rho0 & Oth & XR)] _].
  apply IH; auto. eapply apply_xfer_step; eauto.
Qed.

(* ---------- user-facing forms ---------- *)
Lemma leader_inv shared ops r :
  In r (c_regions (run true shared init ops)) ->
  exists l, cur r = Some l /\ In l (r_gates r) /\
    (forall g, In g (r_gates r) ->
       g = l \/ g_auth g < g_auth l \/ (g_auth g = g_auth l /\ g_pos l < g_pos g)) /\
    pos_sorted (r_gates r).
Proof.
  intros Ir. pose proof (run_cinv shared ops init cinv_init) as (FI & _).
  rewrite Forall_forall in FI. specialize (FI _ Ir).
  pose proof (rinv_cur _ FI) as (l & C & _ & [Il Ml] & _). exists l. splits; auto.
  - intros g Ig. destruct (Ml _ Ig) as [|B]; auto. apply better_spec in B. right. lia.
  - apply FI.
Qed.

Lemma authorize_iff shared ops h :
  let s := run true shared init ops in
  In h (c_live s) ->
  exists r g l, In r (c_regions s) /\ In g (r_gates r) /\ g_h g = h /\ cur r = Some l /\
    (fst (authorize shared s h) = true <->
       if shared then g_auth l <= g_auth g else g = l) /\
    (g_auth l <= g_auth g <-> g_auth g = g_auth l) /\
    snd (authorize shared s h) = (if fst (authorize shared s h) then r_res r else 0).
Proof.
  intros s Lv. pose proof (run_cinv shared ops init cinv_init) as I.
  destruct (authorize_spec shared _ h I Lv) as (r & g & l & Ir & Ig & Eh & C & L & ND & EA).
  exists r, g, l. fold s in EA. splits; auto.
  - rewrite EA. destruct shared.
    + destruct (g_auth l <=? g_auth g) eqn:Le; simpl.
      * apply N.leb_le in Le. tauto.
      * apply N.leb_gt in Le. split; [discriminate|lia].
    + destruct (g_h l =? h) eqn:El; simpl.
      * apply N.eqb_eq in El. split; auto. intros _.
        apply (NoDup_h_inj (r_gates r)); auto; [apply L|congruence].
      * apply N.eqb_neq in El. split; [discriminate|]. intros ->. congruence.
  - pose proof (leader_auth _ _ _ L Ig). lia.
  - rewrite EA. destruct (if shared then _ else _); auto.
Qed.

(* ---------- how one step changes the gate lists: the open order is kept ---------- *)
Definition hl (r : region) : list N := map g_h (r_gates r).
Definition neqb (h : N) : N -> bool := fun k => negb (k =? h).

Definition shape (s s' : ctl) : Prop :=
  (c_live s' = c_live s /\ map hl (c_regions s') = map hl (c_regions s)) \/
  (exists h l1 r l2 r', ~ In h (handles (c_regions s)) /\ c_regions s = l1 ++ r :: l2 /\
      c_regions s' = l1 ++ r' :: l2 /\ hl r' = hl r ++ [h] /\ c_live s' = c_live s ++ [h]) \/
  (exists h l1 l2 r', ~ In h (handles (c_regions s)) /\ c_regions s = l1 ++ l2 /\
      c_regions s' = l1 ++ r' :: l2 /\ hl r' = [h] /\ c_live s' = c_live s ++ [h]) \/
  (exists h l1 r l2, c_regions s = l1 ++ r :: l2 /\ In h (hl r) /\
      c_live s' = filter (neqb h) (c_live s) /\
      ((exists r', c_regions s' = l1 ++ r' :: l2 /\ hl r' = filter (neqb h) (hl r)) \/
       (c_regions s' = l1 ++ l2 /\ filter (neqb h) (hl r) = []))).

Lemma shape_same rs nr us lv us' : shape (Ctl rs nr us lv) (Ctl rs nr us' lv).
Proof. left. simpl. auto. Qed.

Lemma step_shape shared s o s' ou :
  cinv s -> step true shared s o = (s', ou) -> shape s s'.
Proof.
  intros I. pose proof I as (FI & ND & LV & US & NR & FR).
  destruct s as [rs nr us lv]. simpl in *.
  destruct o as [c|h a|h]; unfold step; simpl.
  - unfold open_gate. simpl.
    destruct (existsb (N.eqb (o_h c)) us) eqn:U.
    { intros H; inversion H; subst. apply shape_same. }
    apply existsb_eqb_false in U.
    destruct ((o_subj c =? 0) || tr_is_zero (o_tr c)).
    { intros H; inversion H; subst. apply shape_same. }
    assert (NH : ~ In (o_h c) (handles rs)) by (intros X; apply U, US; auto).
    destruct (n_overlapping c rs) as [|[|n]] eqn:NO.
    + unfold new_region. simpl. destruct (o_resfail c).
      { intros H; inversion H; subst. apply shape_same. }
      rewrite region_open_empty. unfold insert_region.
      set (i := bsearch _ _ _ _ _).
      intros H; inversion H; subst s' ou. clear H.
      right. right. left.
      exists (o_h c), (firstn i rs), (skipn i rs). eexists. simpl. splits; eauto.
      symmetry. apply firstn_skipn.
    + destruct (open_in_split shared c _ NO) as (l1 & r & l2 & r' & st & x & E & RO & ->).
      rewrite E in FI. apply Forall_mid in FI. destruct FI as (F1 & Ir & F2).
      assert (NHr : ~ In (o_h c) (map g_h (r_gates r))).
      { intros X. apply NH. rewrite E, handles_mid, in_mid. auto. }
      destruct (region_open_inv _ _ _ _ _ _ Ir NHr RO) as (Ir' & ER & XR & GOk & GNo & NP).
      assert (NonOk : st <> Ok -> shape (Ctl rs nr us lv) (Ctl (l1 ++ r' :: l2) nr (us ++ [o_h c]) lv)).
      { intros N. destruct (GNo N) as [EG _]. left. simpl. split; auto.
        rewrite E, !map_app. simpl. unfold hl at 2 4. rewrite EG. auto. }
      destruct st; try (intros H; inversion H; subst s' ou; apply NonOk; discriminate).
      intros H; inversion H; subst s' ou. clear H NonOk.
      right. left. exists (o_h c), l1, r, l2, r'. simpl. splits; auto.
      unfold hl. rewrite (GOk eq_refl), map_app. auto.
    + intros H; inversion H; subst. apply shape_same.
  - destruct (existsb (N.eqb h) lv) eqn:Lv.
    2:{ intros H; inversion H; subst. apply shape_same. }
    apply existsb_eqb_true in Lv. apply LV in Lv.
    destruct (on_region_split h _ Lv) as (l1 & r & l2 & E & Hh & Eo). rewrite Eo.
    rewrite E in FI. apply Forall_mid in FI. destruct FI as (F1 & Ir & F2).
    destruct (region_update (fun l => l) r h a) as [[r' st] x] eqn:RU.
    destruct (region_update_inv _ _ _ _ _ _ _ Ir is_perm_id Hh RU) as (Ir' & -> & ER & EH & XR & _).
    simpl. intros H; inversion H; subst s' ou. clear H.
    left. simpl. split; auto. rewrite E, !map_app. simpl. unfold hl at 2 4. rewrite EH. auto.
  - destruct (existsb (N.eqb h) lv) eqn:Lv.
    2:{ intros H; inversion H; subst. apply shape_same. }
    apply existsb_eqb_true in Lv. apply LV in Lv.
    destruct (on_region_split h _ Lv) as (l1 & r & l2 & E & Hh & Eo). rewrite Eo.
    rewrite E in FI. apply Forall_mid in FI. destruct FI as (F1 & Ir & F2).
    destruct (region_release (fun l => l) r h) as [[[r' x] res] rm] eqn:RR.
    destruct (region_release_inv _ _ _ _ _ _ _ Ir is_perm_id Hh RR) as (ER & EG & _ & Post).
    simpl. intros H; inversion H; subst s' ou. clear H.
    destruct (NoDup_res_mid _ _ _ (eq_ind _ (fun l => NoDup (map r_res l)) NR _ E)) as (R1 & R2 & _).
    assert (EHL : hl r' = filter (neqb h) (hl r)).
    { unfold hl. rewrite EG. apply filter_h_map. }
    right. right. right. exists h, l1, r, l2. simpl. splits; auto.
    destruct rm.
    + destruct Post as (G0 & -> & _). right. split.
      * rewrite <- ER. apply remove_region_mid; auto. rewrite ER; auto.
      * rewrite <- EHL. unfold hl. rewrite G0. auto.
    + left. exists r'. auto.
Qed.

(* ---------- the open order ---------- *)
Definition linv (s : ctl) : Prop :=
  forall l, In l (map hl (c_regions s)) -> restr l (c_live s) = l.

Lemma memb_iff h l : existsb (N.eqb h) l = true <-> In h l.
Proof. split; [apply existsb_eqb_true|]. intros I. apply existsb_exists. exists h. split; auto. apply N.eqb_refl. Qed.
Lemma memb_false h l : ~ In h l -> existsb (N.eqb h) l = false.
Proof. intros N. destruct (existsb (N.eqb h) l) eqn:E; auto. apply memb_iff in E. contradiction. Qed.

Lemma filter_comm {A} (f g : A -> bool) l : filter f (filter g l) = filter g (filter f l).
Proof.
  induction l as [|a rest IH]; simpl; auto.
  destruct (f a) eqn:Ef, (g a) eqn:Eg; simpl; rewrite ?Ef, ?Eg, IH; auto.
Qed.

Lemma filter_id {A} (f : A -> bool) l : (forall x, In x l -> f x = true) -> filter f l = l.
Proof.
  induction l as [|a rest IH]; simpl; auto. intros H. rewrite (H a); auto. rewrite IH; auto.
Qed.

Lemma filter_none {A} (f : A -> bool) l : (forall x, In x l -> f x = false) -> filter f l = [].
Proof.
  induction l as [|a rest IH]; simpl; auto. intros H. rewrite (H a); auto.
Qed.

Lemma in_hl_handles l rs : In l (map hl rs) -> forall h, In h l -> In h (handles rs).
Proof.
  intros I h Ih. apply in_map_iff in I. destruct I as (r & <- & Ir).
  unfold handles. apply in_flat_map. exists r. auto.
Qed.

Lemma shape_linv s s' : cinv s -> linv s -> shape s s' -> linv s'.
Proof.
  intros (FI & ND & LV & US & NR & FR) L Sh.
  destruct Sh as [(El & Eh)|[(h & l1 & r & l2 & r' & NH & E & E' & Eh & El)|
                 [(h & l1 & l2 & r' & NH & E & E' & Eh & El)|(h & l1 & r & l2 & E & Hh & El & Cs)]]].
  - intros l Il. rewrite El. apply L. rewrite <- Eh. auto.
  - assert (NL : ~ In h (c_live s)) by (intros X; apply NH, LV; auto).
    assert (Other : forall l, In l (map hl (c_regions s)) -> restr l (c_live s ++ [h]) = l).
    { intros l Il. unfold restr. rewrite filter_app. simpl.
      rewrite memb_false; [|intros X; apply NH; eapply in_hl_handles; eauto].
      rewrite app_nil_r. apply L; auto. }
    intros l Il. rewrite El. rewrite E', map_app in Il. simpl in Il.
    apply in_app_or in Il. destruct Il as [Il|[<-|Il]].
    + apply Other. rewrite E, map_app. apply in_or_app; auto.
    + rewrite Eh. unfold restr. rewrite filter_app. simpl.
      rewrite (proj2 (memb_iff h (hl r ++ [h]))); [|apply in_or_app; right; left; auto].
      f_equal. transitivity (restr (hl r) (c_live s));
        [|apply L; rewrite E, map_app; apply in_or_app; right; left; auto].
      unfold restr. apply filter_ext_in. intros x Ix.
      destruct (existsb (N.eqb x) (hl r)) eqn:Ex.
      * apply memb_iff. apply in_or_app. left. apply memb_iff; auto.
      * apply memb_false. intros X. apply in_app_or in X. destruct X as [X|[X|[]]].
        -- apply memb_iff in X. congruence.
        -- subst. contradiction.
    + apply Other. rewrite E, map_app. apply in_or_app; right; right; auto.
  - assert (NL : ~ In h (c_live s)) by (intros X; apply NH, LV; auto).
    intros l Il. rewrite El. rewrite E', map_app in Il. simpl in Il.
    assert (Other : forall l, In l (map hl (c_regions s)) -> restr l (c_live s ++ [h]) = l).
    { intros l0 Il0. unfold restr. rewrite filter_app. simpl.
      rewrite memb_false; [|intros X; apply NH; eapply in_hl_handles; eauto].
      rewrite app_nil_r. apply L; auto. }
    apply in_app_or in Il. destruct Il as [Il|[<-|Il]].
    + apply Other. rewrite E, map_app. apply in_or_app; auto.
    + rewrite Eh. unfold restr. rewrite filter_app. simpl. rewrite N.eqb_refl. simpl.
      rewrite filter_none; auto. intros x Ix. simpl.
      destruct (x =? h) eqn:Ex; auto. apply N.eqb_eq in Ex. subst. contradiction.
    + apply Other. rewrite E, map_app. apply in_or_app; auto.
  - rewrite E, handles_mid in ND.
    assert (Restr : forall l, restr l (filter (neqb h) (c_live s)) = filter (neqb h) (restr l (c_live s))).
    { intros l. unfold restr. apply filter_comm. }
    assert (Other : forall l, In l (map hl l1) \/ In l (map hl l2) ->
              restr l (filter (neqb h) (c_live s)) = l).
    { intros l Il. rewrite Restr. rewrite L.
      - apply filter_id. intros x Ix. unfold neqb. apply negb_true_iff, N.eqb_neq. intros ->.
        destruct (NoDup_mid_disj _ _ _ h ND Hh) as [N1 N2].
        destruct Il as [Il|Il]; [apply N1|apply N2]; eapply in_hl_handles; eauto.
      - rewrite E, map_app. simpl. apply in_or_app. destruct Il; auto. right; right; auto. }
    intros l Il. rewrite El.
    destruct Cs as [(r' & E' & Eh)|(E' & Eh)]; rewrite E', map_app in Il; simpl in Il;
      apply in_app_or in Il.
    + destruct Il as [Il|[<-|Il]]; [apply Other; auto| |apply Other; auto].
      rewrite Eh. rewrite Restr.
      transitivity (filter (neqb h) (restr (hl r) (c_live s)));
        [|f_equal; apply L; rewrite E, map_app; apply in_or_app; right; left; auto].
      unfold restr. rewrite filter_comm. rewrite (filter_comm (neqb h)).
      apply filter_ext_in. intros x Ix. apply filter_In in Ix. destruct Ix as [_ Nx].
      unfold neqb in Nx. apply negb_true_iff, N.eqb_neq in Nx.
      destruct (existsb (N.eqb x) (hl r)) eqn:Ex.
      * apply memb_iff. apply filter_In. split; [apply memb_iff; auto|].
        unfold neqb. apply negb_true_iff, N.eqb_neq. auto.
      * apply memb_false. intros X. apply filter_In in X. destruct X as [X _].
        apply memb_iff in X. congruence.
    + destruct Il as [Il|Il]; apply Other; auto.
Qed.

Lemma linv_init : linv init.
Proof. intros l []. Qed.

Lemma run_linv shared ops : forall s, cinv s -> linv s -> linv (run true shared s ops).
Proof.
  induction ops as [|o rest IH]; simpl; auto. intros s I L.
  destruct (step true shared s o) as [s' ou] eqn:E. simpl.
  apply IH.
  - pose proof (step_cinv shared s o I) as X. rewrite E in X. auto.
  - eapply shape_linv; eauto. eapply step_shape; eauto.
Qed.

Lemma step_live shared s o :
  c_live (fst (step true shared s o)) = live_next (c_live s) o (snd (step true shared s o)).
Proof.
  destruct o as [c|h a|h]; unfold step, step_gen, live_next.
  - unfold open_gate.
    destruct (existsb _ _); [reflexivity|].
    destruct (_ || _); [reflexivity|].
    destruct (n_overlapping c (c_regions s)) as [|[|n]].
    + unfold new_region. destruct (o_resfail c); [reflexivity|].
      rewrite region_open_empty. reflexivity.
    + destruct (open_in shared c (c_regions s)) as [[rs' st] x]. destruct st; reflexivity.
    + reflexivity.
  - destruct (existsb _ _); [|reflexivity].
    destruct (on_region _ _ _ _) as [rs' [st x]]. simpl.
    destruct st; reflexivity.
  - destruct (existsb _ _); [|reflexivity].
    destruct (on_region _ _ _ _) as [rs' [[x res] rm]]. reflexivity.
Qed.

Lemma run_live shared ops : forall s,
  c_live (run true shared s ops) = live_spec (c_live s) ops (outs true shared s ops).
Proof.
  induction ops as [|o rest IH]; simpl; auto. intros s.
  pose proof (step_live shared s o) as SL.
  destruct (step true shared s o) as [s' ou]. simpl in *. rewrite IH, SL. auto.
Qed.

Lemma gates_in_open_order shared ops r :
  In r (c_regions (run true shared init ops)) ->
  map g_h (r_gates r) = restr (map g_h (r_gates r)) (c_live (run true shared init ops)).
Proof.
  intros Ir. symmetry. apply (run_linv shared ops init cinv_init linv_init).
  apply in_map_iff. exists r. auto.
Qed.
