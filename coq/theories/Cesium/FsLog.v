(* Cesium/FsLog.v — the file-system mutation alphabet of one cesium channel directory and
   its semantics, copied from x/go/io/fs/mem.go (MemFS / memFile):
     - WriteAt / Write past EOF zero-fill the gap, inside the file they overwrite;
     - Truncate shrinks, or extends with zeros;
     - Rename replaces the target, Remove of a missing name is a no-op;
     - an operation on a missing file (other than a create) fails and changes nothing.
   A crash image is the effect of a prefix of the mutation log, optionally followed by a
   torn variant (a proper prefix of the payload) of the next write.  Model only: no proofs. *)
From Coq Require Import List NArith Bool Arith.
Import ListNotations.
Local Open Scope N_scope.

Notation bytes := (list N).

(* files of one channel directory *)
Inductive fname :=
| FIndex            (* index.domain   *)
| FCounter          (* counter.domain *)
| FMeta             (* meta.json      *)
| FMetaTmp          (* meta.json.tmp  *)
| FData (k : N)     (* <k>.domain     *)
| FGc (k : N)       (* <k>.domain_gc  *)
| FTmp (k : N).     (* <k>.domain_temp *)

Definition fname_eqb (a b : fname) : bool :=
  match a, b with
  | FIndex, FIndex | FCounter, FCounter | FMeta, FMeta | FMetaTmp, FMetaTmp => true
  | FData x, FData y | FGc x, FGc y | FTmp x, FTmp y => N.eqb x y
  | _, _ => false
  end.

Notation files := (list (fname * bytes)).

Fixpoint fget (fs : files) (f : fname) : option bytes :=
  match fs with
  | [] => None
  | (g, d) :: r => if fname_eqb g f then Some d else fget r f
  end.

Fixpoint fset (fs : files) (f : fname) (d : bytes) : files :=
  match fs with
  | [] => [(f, d)]
  | (g, e) :: r => if fname_eqb g f then (g, d) :: r else (g, e) :: fset r f d
  end.

Fixpoint fdel (fs : files) (f : fname) : files :=
  match fs with
  | [] => []
  | (g, e) :: r => if fname_eqb g f then fdel r f else (g, e) :: fdel r f
  end.

(* None: the directory does not exist (never created, or renamed away by a channel delete) *)
Notation dirst := (option files).

Inductive fsop :=
| OMkdir                                        (* FS.Sub creating the channel directory *)
| OCreate (f : fname)                           (* Open with O_CREATE on a missing file *)
| OWrite (positional : bool) (f : fname) (off : N) (bs : bytes)
    (* positional = true: File.WriteAt(bs, off); false: File.Write(bs) with the handle's
       write position at off.  Same effect on the bytes. *)
| OTrunc (f : fname) (n : N)                    (* File.Truncate(n) (also O_TRUNC: n = 0) *)
| ORename (f g : fname)
| ORemove (f : fname)
| ORenameDir                                    (* FS.Rename(<key>, <key>-DELETE-<r>) *)
| ORemoveDir.                                   (* FS.Remove(<key>-DELETE-<r>) *)

Definition pad (d : bytes) (n : nat) : bytes := d ++ repeat 0 (n - length d)%nat.

Definition write_at (d : bytes) (off : nat) (bs : bytes) : bytes :=
  let d' := pad d (off + length bs) in
  firstn off d' ++ bs ++ skipn (off + length bs) d'.

Definition trunc_to (d : bytes) (n : nat) : bytes := firstn n (pad d n).

Definition apply_files (fs : files) (o : fsop) : files :=
  match o with
  | OMkdir => fs
  | OCreate f => match fget fs f with Some _ => fs | None => fset fs f [] end
  | OWrite _ f off bs =>
      match fget fs f with
      | Some d => fset fs f (write_at d (N.to_nat off) bs)
      | None => fs
      end
  | OTrunc f n =>
      match fget fs f with
      | Some d => fset fs f (trunc_to d (N.to_nat n))
      | None => fs
      end
  | ORename f g =>
      match fget fs f with
      | Some d => fset (fdel fs f) g d
      | None => fs
      end
  | ORemove f => fdel fs f
  | ORenameDir | ORemoveDir => fs
  end.

Definition apply (s : dirst) (o : fsop) : dirst :=
  match s, o with
  | None, OMkdir => Some []
  | None, _ => None
  | Some _, ORenameDir => None
  | Some fs, _ => Some (apply_files fs o)
  end.

Definition apply_all (s : dirst) (l : list fsop) : dirst := fold_left apply l s.

(* torn variant of a write: only the first t bytes of the payload reached the file *)
Definition torn (o : fsop) (t : nat) : fsop :=
  match o with
  | OWrite p f off bs => OWrite p f off (firstn t bs)
  | _ => o
  end.

Definition payload_len (o : fsop) : nat :=
  match o with OWrite _ _ _ bs => length bs | _ => 0%nat end.

(* image (k, t): the first k operations, then (t > 0) the first t payload bytes of the
   k-th one.  t = 0 is the plain prefix. *)
Definition crash_image (s : dirst) (log : list fsop) (k t : nat) : dirst :=
  let s' := apply_all s (firstn k log) in
  match t, nth_error log k with
  | S _, Some o => apply s' (torn o t)
  | _, _ => s'
  end.

(* all crash images of a log: every prefix, and every proper-prefix torn variant of every
   write.  (The quantifier of property C02.) *)
Definition torn_points (o : fsop) : list nat := seq 1 (payload_len o - 1).

Definition crash_points (log : list fsop) : list (nat * nat) :=
  flat_map (fun k =>
      (k, 0%nat) ::
      match nth_error log k with
      | Some o => map (fun t => (k, t)) (torn_points o)
      | None => []
      end)
    (seq 0 (S (length log))).

Definition crash_images (s : dirst) (log : list fsop) : list dirst :=
  map (fun kt => crash_image s log (fst kt) (snd kt)) (crash_points log).

Definition fsop_eqb (a b : fsop) : bool :=
  match a, b with
  | OMkdir, OMkdir | ORenameDir, ORenameDir | ORemoveDir, ORemoveDir => true
  | OCreate f, OCreate g => fname_eqb f g
  | OWrite p f o bs, OWrite q g o' bs' =>
      Bool.eqb p q && fname_eqb f g && N.eqb o o' &&
      (Nat.eqb (length bs) (length bs') && forallb (fun xy => N.eqb (fst xy) (snd xy)) (combine bs bs'))
  | OTrunc f n, OTrunc g m => fname_eqb f g && N.eqb n m
  | ORename f g, ORename f' g' => fname_eqb f f' && fname_eqb g g'
  | ORemove f, ORemove g => fname_eqb f g
  | _, _ => false
  end.

Definition bytes_eqb (a b : bytes) : bool :=
  Nat.eqb (length a) (length b) && forallb (fun xy => N.eqb (fst xy) (snd xy)) (combine a b).

(* compact literal for payloads in generated case files: n bytes, big-endian value v *)
Fixpoint bytes_of_aux (n : nat) (v : N) (acc : bytes) : bytes :=
  match n with
  | O => acc
  | S m => bytes_of_aux m (v / 256) ((v mod 256) :: acc)
  end.
Definition B (n : nat) (v : N) : bytes := bytes_of_aux n v [].
