(* Cesium/GCProofs.v — garbage collection is invisible: for every channel satisfying the
   storage invariant, every file key and every threshold, garbageCollectFile leaves the time
   range, the size and the addressed samples of every pointer unchanged and preserves the
   invariant.  Core lemma: at most one key of offsetDeltaMap contains a pointer's time range
   (gc_resolve_unique), so the iteration order of the Go map cannot matter. *)
From Coq Require Import ZArith List Bool Lia.
From Synnax Require Import Cesium.Store Cesium.StoreProofs Cesium.IndexSearch Cesium.Distance
  Cesium.Stamp Cesium.DeleteModel Cesium.GCModel Cesium.DeleteBase.
Import ListNotations.
Local Open Scope Z_scope.

(* what a reader can see of a pointer: time range, size, samples *)
Definition pview (c : chan) (p : ptr) : tr * Z * list sample := (p_tr p, p_size p, ptr_samples c p).
Definition cview (c : chan) : list (tr * Z * list sample) := map (pview c) (c_ptrs c).

(* ------------------------------------------------------------------ sorted lists *)
Lemma sorted_ptrs_before l1 p l2 :
  sorted_ptrs (l1 ++ p :: l2) -> Forall (fun q => t_e (p_tr q) <= t_s (p_tr p)) l1.
Proof.
  induction l1 as [|x l1 IH]; simpl; intros H; [constructor|].
  constructor.
  - pose proof (sorted_ptrs_after _ _ H) as Ha. rewrite Forall_forall in Ha.
    apply Ha. apply in_or_app. right. left. reflexivity.
  - apply IH. eapply sorted_ptrs_tail; eauto.
Qed.

Lemma sorted_split_not_contains l1 p l2 q :
  sorted_ptrs (l1 ++ p :: l2) -> In q (l1 ++ l2) -> contains_range (p_tr q) (p_tr p) = false.
Proof.
  intros Hs Hq.
  pose proof (sorted_ptrs_before _ _ _ Hs) as Hb. rewrite Forall_forall in Hb.
  destruct (sorted_ptrs_app_inv _ _ Hs) as [_ Hp].
  pose proof (sorted_ptrs_head _ _ Hp) as Hne.
  pose proof (sorted_ptrs_after _ _ Hp) as Ha. rewrite Forall_forall in Ha.
  unfold contains_range. apply andb_false_iff.
  apply in_app_or in Hq as [Hq|Hq].
  - specialize (Hb q Hq). right. apply Z.leb_gt. lia.
  - destruct (Ha q Hq). left. apply Z.leb_gt. lia.
Qed.

Lemma sorted_ptrs_ext l l' :
  map p_tr l = map p_tr l' -> sorted_ptrs l -> sorted_ptrs l'.
Proof.
  revert l'. induction l as [|p l IH]; intros l' E H.
  - destruct l'; [constructor|discriminate].
  - destruct l' as [|p' l']; [discriminate|]. simpl in E. inversion E as [[E1 E2]].
    destruct l as [|q l].
    + destruct l'; [|discriminate]. constructor. rewrite <- E1. eapply sorted_ptrs_head; eauto.
    + destruct l' as [|q' l'']; [discriminate|]. simpl in E2. inversion E2 as [[E3 E4]].
      inversion H; subst. constructor.
      * rewrite <- E1. assumption.
      * rewrite <- E1, <- E3. assumption.
      * apply IH; [simpl; f_equal; assumption|assumption].
Qed.

Lemma contains_range_refl t : contains_range t t = true.
Proof. unfold contains_range. rewrite !Z.leb_refl. reflexivity. Qed.

(* ------------------------------------------------------------------ the delta map *)
Lemma resolve_dm_set_other t k d m :
  contains_range k t = false -> resolve_delta t (dm_set k d m) = resolve_delta t m.
Proof.
  intros H. induction m as [|[k' d'] m IH]; simpl.
  - rewrite H. reflexivity.
  - destruct (tr_eqb k k') eqn:E; simpl.
    + apply tr_eqb_eq in E. subst k'. rewrite H. reflexivity.
    + destruct (contains_range k' t); [reflexivity|exact IH].
Qed.

Lemma resolve_dm_set_hit t k d m :
  contains_range k t = true -> resolve_delta t m = None -> resolve_delta t (dm_set k d m) = Some d.
Proof.
  intros H. induction m as [|[k' d'] m IH]; simpl; intros Hn.
  - rewrite H. reflexivity.
  - destruct (contains_range k' t) eqn:E'; [discriminate|].
    destruct (tr_eqb k k') eqn:E; simpl.
    + apply tr_eqb_eq in E. subst k'. congruence.
    + rewrite E'. apply IH. exact Hn.
Qed.

Lemma gc_copy_fst c ps nf dm noff :
  fst (gc_copy c ps nf dm noff) = nf ++ flat_map (ptr_samples c) ps.
Proof.
  revert nf dm noff. induction ps as [|p ps IH]; intros; simpl.
  - rewrite app_nil_r. reflexivity.
  - rewrite IH. rewrite <- app_assoc. reflexivity.
Qed.

Lemma gc_copy_app c a b nf dm noff :
  gc_copy c (a ++ b) nf dm noff =
  gc_copy c b (fst (gc_copy c a nf dm noff)) (snd (gc_copy c a nf dm noff)) (noff + sum_sizes a).
Proof.
  revert nf dm noff. induction a as [|p a IH]; intros; simpl.
  - rewrite Z.add_0_r. reflexivity.
  - rewrite IH. f_equal. lia.
Qed.

(* pointers whose range does not contain t leave the answer for t unchanged *)
Lemma gc_copy_resolve_other c ps nf dm noff t :
  (forall q, In q ps -> contains_range (p_tr q) t = false) ->
  resolve_delta t (snd (gc_copy c ps nf dm noff)) = resolve_delta t dm.
Proof.
  revert nf dm noff. induction ps as [|p ps IH]; intros nf dm noff H; simpl; [reflexivity|].
  rewrite IH by (intros q Hq; apply H; right; exact Hq).
  destruct (noff =? p_off p); [reflexivity|].
  apply resolve_dm_set_other. apply H. left. reflexivity.
Qed.

(* Core lemma.  In the map built from a sorted pointer list, the only key that contains the
   range of pointer p is p's own; hence resolvePointerOffset(p) is the same whatever order
   the Go map is iterated in: p's own delta if it moved, "not found" if it did not. *)
Lemma gc_resolve_unique c a p b :
  (forall q, In q (a ++ b) -> contains_range (p_tr q) (p_tr p) = false) ->
  resolve_delta (p_tr p) (snd (gc_copy c (a ++ p :: b) [] [] 0)) =
  if sum_sizes a =? p_off p then None else Some (p_off p - sum_sizes a).
Proof.
  intros H. rewrite gc_copy_app. simpl.
  rewrite gc_copy_resolve_other by (intros q Hq; apply H; apply in_or_app; right; exact Hq).
  assert (Ha : resolve_delta (p_tr p) (snd (gc_copy c a [] [] 0)) = None).
  { rewrite gc_copy_resolve_other by (intros q Hq; apply H; apply in_or_app; left; exact Hq).
    reflexivity. }
  destruct (sum_sizes a =? p_off p); [exact Ha|].
  apply resolve_dm_set_hit; [apply contains_range_refl|exact Ha].
Qed.

(* any entry that answers for p is p's own: order independence stated on the entries *)
Lemma gc_entry_unique l1 p l2 (q : ptr) :
  sorted_ptrs (l1 ++ p :: l2) -> In q (l1 ++ p :: l2) ->
  contains_range (p_tr q) (p_tr p) = true -> p_tr q = p_tr p.
Proof.
  intros Hs Hq Hc. eapply sorted_contains_unique; eauto.
  apply in_or_app. right. left. reflexivity.
Qed.

(* ------------------------------------------------------------------ one file *)
Lemma sum_sizes_bytes c ps :
  Forall (ptr_aligned c) ps -> bytes_of (flat_map (ptr_samples c) ps) = sum_sizes ps.
Proof.
  induction 1 as [|p ps Hp _ IH]; simpl; [reflexivity|].
  rewrite bytes_of_app, IH, (ptr_samples_bytes c p Hp). reflexivity.
Qed.

Lemma flat_map_pos c ps :
  files_pos c -> Forall (ptr_aligned c) ps -> pos_samples (flat_map (ptr_samples c) ps).
Proof.
  intros Hf. induction 1 as [|p ps Hp _ IH]; simpl; [constructor|].
  apply pos_samples_app. split; [apply ptr_samples_pos; assumption|exact IH].
Qed.

Lemma filter_split {A} (f : A -> bool) l1 x l2 :
  f x = true -> filter f (l1 ++ x :: l2) = filter f l1 ++ x :: filter f l2.
Proof. intros H. rewrite filter_app. simpl. rewrite H. reflexivity. Qed.

Section GCFile.
Variables (g : gcfg) (c : chan) (k : Z).
Hypothesis Hwf : wf_chan c.

Let ps := filter (on_file k) (c_ptrs c).
Let nf := fst (gc_copy c ps [] [] 0).
Let dm := snd (gc_copy c ps [] [] 0).
Let c' := Chan (c_isidx c) (c_index c) (c_var c) (c_dens c)
               (map (remap_ptr k dm) (c_ptrs c)) (aset k nf (c_files c)) (c_open c) (c_counter c).

Lemma gc_nf_eq : nf = flat_map (ptr_samples c) ps.
Proof. unfold nf. rewrite gc_copy_fst. reflexivity. Qed.

Lemma ps_aligned : Forall (ptr_aligned c) ps.
Proof.
  unfold ps. pose proof (wf_aligned c Hwf) as H. rewrite Forall_forall in *.
  intros x Hx. apply filter_In in Hx as [Hx _]. auto.
Qed.

Lemma nf_pos : pos_samples nf.
Proof. rewrite gc_nf_eq. apply flat_map_pos; [apply Hwf|apply ps_aligned]. Qed.

Lemma file_of_c'_k : file_of c' k = nf.
Proof. unfold file_of, c'. simpl. rewrite alookup_aset_eq. reflexivity. Qed.

Lemma file_of_c'_other k' : k' <> k -> file_of c' k' = file_of c k'.
Proof. intros H. unfold file_of, c'. simpl. rewrite alookup_aset_ne by exact H. reflexivity. Qed.

(* a pointer on the collected file gets the offset "bytes of the live pointers before it" *)
Lemma remap_on_file l1 p l2 :
  c_ptrs c = l1 ++ p :: l2 -> p_file p = k ->
  remap_ptr k dm p = Ptr (p_tr p) (p_file p) (sum_sizes (filter (on_file k) l1)) (p_size p).
Proof.
  intros E Hk. unfold remap_ptr. rewrite Hk, Z.eqb_refl.
  assert (Hon : on_file k p = true) by (unfold on_file; rewrite Hk; apply Z.eqb_refl).
  unfold dm, ps. rewrite E, (filter_split _ _ _ _ Hon).
  rewrite gc_resolve_unique.
  - destruct (sum_sizes (filter (on_file k) l1) =? p_off p) eqn:E1.
    + apply Z.eqb_eq in E1. destruct p; simpl in *. subst. reflexivity.
    + f_equal. lia.
  - intros q Hq. eapply sorted_split_not_contains.
    + rewrite <- E. apply Hwf.
    + apply in_app_or in Hq as [Hq|Hq]; apply filter_In in Hq as [Hq _]; apply in_or_app; auto.
Qed.

Lemma remap_off_file p : p_file p <> k -> remap_ptr k dm p = p.
Proof.
  intros H. unfold remap_ptr. destruct (p_file p =? k) eqn:E; [apply Z.eqb_eq in E; contradiction|reflexivity].
Qed.

(* the samples a remapped pointer addresses in the new state are the old ones *)
Lemma remap_samples l1 p l2 :
  c_ptrs c = l1 ++ p :: l2 ->
  ptr_samples c' (remap_ptr k dm p) = ptr_samples c p /\
  ptr_aligned c' (remap_ptr k dm p).
Proof.
  intros E.
  assert (Hp : ptr_aligned c p).
  { pose proof (wf_aligned c Hwf) as H. rewrite Forall_forall in H. apply H.
    rewrite E. apply in_or_app. right. left. reflexivity. }
  destruct (Z.eq_dec (p_file p) k) as [Hk|Hk].
  - rewrite (remap_on_file _ _ _ E Hk).
    assert (Hon : on_file k p = true) by (unfold on_file; rewrite Hk; apply Z.eqb_refl).
    set (A := filter (on_file k) l1). set (B := filter (on_file k) l2).
    assert (Hnf : nf = flat_map (ptr_samples c) A ++ ptr_samples c p ++ flat_map (ptr_samples c) B).
    { rewrite gc_nf_eq. unfold ps. rewrite E, (filter_split _ _ _ _ Hon).
      rewrite flat_map_app. simpl. reflexivity. }
    assert (HA : Forall (ptr_aligned c) A).
    { pose proof (wf_aligned c Hwf) as H. rewrite Forall_forall in *. intros x Hx.
      apply filter_In in Hx as [Hx _]. apply H. rewrite E. apply in_or_app. auto. }
    assert (Hal : aligned nf (sum_sizes A) (p_size p) (ptr_samples c p)).
    { exists (flat_map (ptr_samples c) A), (flat_map (ptr_samples c) B).
      split; [exact Hnf|]. split; [apply sum_sizes_bytes; exact HA|apply ptr_samples_bytes; exact Hp]. }
    assert (Hs : ptr_samples c' (Ptr (p_tr p) (p_file p) (sum_sizes A) (p_size p)) = ptr_samples c p).
    { unfold ptr_samples at 1. simpl. rewrite Hk, file_of_c'_k.
      apply aligned_slice; [apply nf_pos|exact Hal]. }
    split; [exact Hs|].
    unfold ptr_aligned. rewrite Hs. simpl. rewrite Hk, file_of_c'_k. exact Hal.
  - rewrite (remap_off_file _ Hk).
    assert (Hs : ptr_samples c' p = ptr_samples c p).
    { unfold ptr_samples. rewrite file_of_c'_other by exact Hk. reflexivity. }
    split; [exact Hs|].
    unfold ptr_aligned. rewrite Hs, file_of_c'_other by exact Hk. exact Hp.
Qed.

Lemma remap_tr_size p : p_tr (remap_ptr k dm p) = p_tr p /\ p_size (remap_ptr k dm p) = p_size p /\
                        p_file (remap_ptr k dm p) = p_file p.
Proof.
  unfold remap_ptr. destruct (p_file p =? k); [|auto].
  destruct (resolve_delta (p_tr p) dm); simpl; auto.
Qed.

Lemma gc_rewrite_view : cview c' = cview c.
Proof.
  unfold cview. simpl. rewrite map_map.
  assert (H : forall l1 l2, c_ptrs c = l1 ++ l2 ->
              map (fun x => pview c' (remap_ptr k dm x)) l2 = map (pview c) l2).
  { intros l1 l2. revert l1. induction l2 as [|p l2 IH]; intros l1 E; [reflexivity|].
    simpl. f_equal.
    - unfold pview. destruct (remap_samples _ _ _ E) as [Hs _].
      destruct (remap_tr_size p) as (Ht & Hz & _). rewrite Hs, Ht, Hz. reflexivity.
    - apply (IH (l1 ++ [p])). rewrite <- app_assoc. exact E. }
  apply (H []). reflexivity.
Qed.

Lemma gc_rewrite_wf : wf_chan c'.
Proof.
  constructor.
  - intros k' f. unfold c'. simpl. destruct (Z.eq_dec k' k) as [->|Hne].
    + rewrite alookup_aset_eq. intros [= <-]. apply nf_pos.
    + rewrite alookup_aset_ne by exact Hne. apply Hwf.
  - simpl.
    assert (H : forall l1 l2, c_ptrs c = l1 ++ l2 -> Forall (ptr_aligned c') (map (remap_ptr k dm) l2)).
    { intros l1 l2. revert l1. induction l2 as [|p l2 IH]; intros l1 E; [constructor|].
      simpl. constructor.
      - destruct (remap_samples _ _ _ E) as [_ Ha]. exact Ha.
      - apply (IH (l1 ++ [p])). rewrite <- app_assoc. exact E. }
    apply (H []). reflexivity.
  - simpl. eapply sorted_ptrs_ext; [|apply Hwf].
    rewrite map_map. apply map_ext. intros p. destruct (remap_tr_size p) as [H _]. symmetry. exact H.
Qed.

End GCFile.

(* garbageCollectFile, whatever the threshold decides *)
Lemma gc_file_view g c k : wf_chan c -> cview (gc_file g c k) = cview c.
Proof.
  intros H. unfold gc_file.
  destruct (file_size c k - sum_sizes (filter (on_file k) (c_ptrs c)) <? g_thr g); [reflexivity|].
  destruct (gc_copy c (filter (on_file k) (c_ptrs c)) [] [] 0) as [nf dm] eqn:E.
  pose proof (gc_rewrite_view c k H) as V. rewrite E in V. exact V.
Qed.

Lemma gc_file_wf g c k : wf_chan c -> wf_chan (gc_file g c k).
Proof.
  intros H. unfold gc_file.
  destruct (file_size c k - sum_sizes (filter (on_file k) (c_ptrs c)) <? g_thr g); [exact H|].
  destruct (gc_copy c (filter (on_file k) (c_ptrs c)) [] [] 0) as [nf dm] eqn:E.
  pose proof (gc_rewrite_wf c k H) as V. rewrite E in V. exact V.
Qed.

Lemma gc_file_static g c k :
  c_isidx (gc_file g c k) = c_isidx c /\ c_index (gc_file g c k) = c_index c /\
  c_var (gc_file g c k) = c_var c /\ c_dens (gc_file g c k) = c_dens c /\
  c_open (gc_file g c k) = c_open c /\ c_counter (gc_file g c k) = c_counter c.
Proof.
  unfold gc_file.
  destruct (file_size c k - sum_sizes (filter (on_file k) (c_ptrs c)) <? g_thr g); [repeat split|].
  destruct (gc_copy c (filter (on_file k) (c_ptrs c)) [] [] 0). repeat split.
Qed.

(* ------------------------------------------------------------------ all files, all channels *)
Lemma gc_files_view g c ks : wf_chan c -> cview (gc_files g c ks) = cview c /\ wf_chan (gc_files g c ks).
Proof.
  revert c. induction ks as [|k ks IH]; intros c H; simpl; [auto|].
  destruct (existsb (Z.eqb k) (c_open c)).
  - apply IH. exact H.
  - destruct (IH (gc_file g c k) (gc_file_wf g c k H)) as [V W].
    split; [rewrite V; apply gc_file_view; exact H|exact W].
Qed.

Lemma gc_files_static g c ks :
  c_isidx (gc_files g c ks) = c_isidx c /\ c_index (gc_files g c ks) = c_index c /\
  c_var (gc_files g c ks) = c_var c /\ c_dens (gc_files g c ks) = c_dens c.
Proof.
  revert c. induction ks as [|k ks IH]; intros c; simpl; [auto|].
  destruct (existsb (Z.eqb k) (c_open c)); [apply IH|].
  destruct (IH (gc_file g c k)) as (A & B & C & D).
  destruct (gc_file_static g c k) as (A' & B' & C' & D' & _).
  rewrite A, B, C, D. auto.
Qed.

(* closing pooled writer handles touches neither pointers nor files *)
Lemma set_open_view c o :
  let c1 := Chan (c_isidx c) (c_index c) (c_var c) (c_dens c) (c_ptrs c) (c_files c) o (c_counter c) in
  cview c1 = cview c /\ (wf_chan c -> wf_chan c1).
Proof.
  simpl. split; [reflexivity|]. intros [A B C]. constructor; assumption.
Qed.

Theorem gc_chan_view g c : wf_chan c -> cview (gc_chan g c) = cview c /\ wf_chan (gc_chan g c).
Proof.
  intros H. unfold gc_chan.
  set (o := filter (fun k => file_size c k <? g_fsz g) (c_open c)).
  destruct (set_open_view c o) as [V W]. simpl in V, W.
  match goal with |- cview (gc_files g ?c1 ?ks) = _ /\ _ =>
    destruct (gc_files_view g c1 ks (W H)) as [V' W'] end.
  split; [rewrite V'; exact V|exact W'].
Qed.

Lemma gc_chan_static g c :
  c_isidx (gc_chan g c) = c_isidx c /\ c_index (gc_chan g c) = c_index c /\
  c_var (gc_chan g c) = c_var c /\ c_dens (gc_chan g c) = c_dens c.
Proof.
  unfold gc_chan.
  match goal with |- context [gc_files g ?c1 ?ks] => destruct (gc_files_static g c1 ks) as (A & B & C & D) end.
  simpl in *. auto.
Qed.

(* ------------------------------------------------------------------ reads see views only *)
Definition chan_equiv (c c' : chan) : Prop :=
  c_isidx c = c_isidx c' /\ c_index c = c_index c' /\ c_var c = c_var c' /\
  c_dens c = c_dens c' /\ cview c = cview c'.

Definition db_equiv (d d' : db) : Prop :=
  Forall2 (fun kc kc' => fst kc = fst kc' /\ chan_equiv (snd kc) (snd kc')) d d'.

Definition wf_db (d : db) : Prop := Forall (fun kc => wf_chan (snd kc)) d.

Lemma chan_equiv_refl c : chan_equiv c c.
Proof. repeat split. Qed.

Lemma chan_equiv_sym c c' : chan_equiv c c' -> chan_equiv c' c.
Proof. intros (A & B & C & D & E). repeat split; auto. Qed.

Lemma chan_equiv_trans a b c : chan_equiv a b -> chan_equiv b c -> chan_equiv a c.
Proof.
  intros (A & B & C & D & E) (A' & B' & C' & D' & E'). repeat split; congruence.
Qed.

Lemma db_equiv_refl d : db_equiv d d.
Proof. induction d; constructor; auto. split; [reflexivity|apply chan_equiv_refl]. Qed.

Lemma db_equiv_sym d d' : db_equiv d d' -> db_equiv d' d.
Proof.
  induction 1; constructor; auto. destruct H. split; [auto|apply chan_equiv_sym; auto].
Qed.

Lemma db_equiv_trans a b c : db_equiv a b -> db_equiv b c -> db_equiv a c.
Proof.
  intros H. revert c. induction H; intros c' H'; inversion H'; subst; constructor.
  - destruct H, H3. split; [congruence|eapply chan_equiv_trans; eauto].
  - apply IHForall2. assumption.
Qed.

Lemma alookup_equiv d d' k :
  db_equiv d d' ->
  match alookup k d, alookup k d' with
  | Some c, Some c' => chan_equiv c c'
  | None, None => True
  | _, _ => False
  end.
Proof.
  induction 1 as [|[k1 c1] [k2 c2] d d' [Hk Hc] _ IH]; simpl; [exact I|].
  simpl in Hk. subst k2. destruct (k =? k1); [exact Hc|exact IH].
Qed.

Lemma doms_of_view c :
  doms c = map (fun v => Dom (fst (fst v)) (map s_val (snd v))) (cview c).
Proof. unfold doms, cview. rewrite map_map. reflexivity. Qed.

Lemma chan_equiv_doms c c' : chan_equiv c c' -> doms c = doms c'.
Proof. intros (_ & _ & _ & _ & E). rewrite !doms_of_view, E. reflexivity. Qed.

Lemma cview_ptrs c c' :
  cview c = cview c' -> Forall2 (fun p p' => pview c p = pview c' p') (c_ptrs c) (c_ptrs c').
Proof.
  unfold cview. generalize (c_ptrs c) (c_ptrs c'). induction l as [|p l IH]; intros l' E.
  - destruct l'; [constructor|discriminate].
  - destruct l' as [|p' l']; [discriminate|]. simpl in E.
    assert (E1 : pview c p = pview c' p') by congruence.
    assert (E2 : map (pview c) l = map (pview c') l') by congruence.
    constructor; [exact E1|apply IH; exact E2].
Qed.

Lemma byte_offset_ext c c' p p' idx :
  pview c p = pview c' p' -> c_var c = c_var c' -> c_dens c = c_dens c' ->
  byte_offset c p idx = byte_offset c' p' idx.
Proof.
  unfold pview, byte_offset. intros E V D. inversion E as [[E1 E2 E3]].
  rewrite V, D, E2, E3. reflexivity.
Qed.

Lemma slice_ptr_ext P c c' p p' v :
  pview c p = pview c' p' -> c_var c = c_var c' -> c_dens c = c_dens c' ->
  slice_ptr P c p v = slice_ptr P c' p' v.
Proof.
  intros E V D. unfold slice_ptr.
  pose proof (fun i => byte_offset_ext c c' p p' i E V D) as HB.
  unfold pview in E. inversion E as [[E1 E2 E3]].
  unfold domain_sample_count. rewrite E1, E2, E3, V, D.
  destruct (distance P _ true) as [sa|e]; simpl; [|reflexivity].
  rewrite HB. destruct (byte_offset c' p' _) as [so|e]; simpl; [|reflexivity].
  match goal with |- rbind ?x _ = rbind ?x _ => destruct x as [ea|e] end; simpl; [|reflexivity].
  rewrite HB. reflexivity.
Qed.

Lemma read_loop_ext P c c' first ps ps' b v :
  c_var c = c_var c' -> c_dens c = c_dens c' ->
  Forall2 (fun p p' => pview c p = pview c' p') ps ps' ->
  read_loop P c first ps b v = read_loop P c' first ps' b v.
Proof.
  intros V D H. revert first. induction H as [|p p' ps ps' E _ IH]; intros first; simpl; [reflexivity|].
  assert (Et : p_tr p = p_tr p') by (unfold pview in E; inversion E; reflexivity).
  rewrite Et, (slice_ptr_ext P c c' p p' v E V D), !IH. reflexivity.
Qed.

Lemma Forall2_skipn {A B} (R : A -> B -> Prop) n l l' :
  Forall2 R l l' -> Forall2 R (skipn n l) (skipn n l').
Proof.
  intros H. revert n. induction H; intros [|n]; simpl; auto.
Qed.

Lemma read_chan_ext P c c' b : chan_equiv c c' -> read_chan P c b = read_chan P c' b.
Proof.
  intros H. pose proof (chan_equiv_doms _ _ H) as Hd. destruct H as (_ & _ & V & D & E).
  unfold read_chan. rewrite Hd.
  destruct (di_seek_first (doms c') (di_open b)) as [it ok].
  destruct (negb ok); [reflexivity|].
  destruct (_ =? _); [reflexivity|]. destruct (_ || _); [reflexivity|].
  rewrite (read_loop_ext P c c' true _ (skipn (Z.to_nat (di_pos it)) (c_ptrs c')) b _ V D).
  - reflexivity.
  - apply Forall2_skipn. apply cview_ptrs. exact E.
Qed.

(* reads are a function of the views: equivalent databases read the same everywhere *)
Theorem read_equiv d d' k b : db_equiv d d' -> read d k b = read d' k b.
Proof.
  intros H. unfold read. pose proof (alookup_equiv d d' k H) as Hk.
  destruct (alookup k d) as [c|], (alookup k d') as [c'|]; try contradiction; [|reflexivity].
  assert (Hi : index_doms d c = index_doms d' c').
  { unfold index_doms. destruct Hk as (_ & Hix & _). rewrite Hix.
    pose proof (alookup_equiv d d' (c_index c') H) as Hj.
    destruct (alookup (c_index c') d), (alookup (c_index c') d'); try contradiction; [|reflexivity].
    apply chan_equiv_doms. exact Hj. }
  rewrite Hi. apply read_chan_ext. exact Hk.
Qed.

(* garbage collection of the whole database, any threshold *)
Theorem gc_db_equiv g d : wf_db d -> db_equiv (gc_db g d) d /\ wf_db (gc_db g d).
Proof.
  unfold gc_db, wf_db. induction 1 as [|[k c] d Hc _ [IH1 IH2]]; simpl.
  - split; constructor.
  - simpl in Hc. destruct (gc_chan_view g c Hc) as [V W].
    destruct (gc_chan_static g c) as (A & B & C & D).
    split; constructor; auto. simpl. split; [reflexivity|]. repeat split; auto.
Qed.

Theorem gc_invisible g d k b : wf_db d -> read (gc_db g d) k b = read d k b.
Proof. intros H. apply read_equiv. apply gc_db_equiv. exact H. Qed.

(* reopen *)
Theorem reopen_db_equiv d : db_equiv (reopen_db d) d /\ (wf_db d -> wf_db (reopen_db d)).
Proof.
  unfold reopen_db, wf_db. induction d as [|[k c] d [IH1 IH2]]; simpl.
  - split; [constructor|auto].
  - split.
    + constructor; auto. simpl. split; [reflexivity|]. repeat split.
    + intros H. inversion H; subst. constructor; auto. simpl in *.
      destruct H2 as [A B C]. constructor; assumption.
Qed.

Theorem reopen_invisible d k b : read (reopen_db d) k b = read d k b.
Proof. apply read_equiv. apply reopen_db_equiv. Qed.
