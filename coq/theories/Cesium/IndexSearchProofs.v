(* Cesium/IndexSearchProofs.v — search_spec: on a strictly increasing stamp list the binary
   search of index.Domain.search returns Exactly i when the stamp is the i-th sample and
   Between (k-1) k otherwise, k being the number of samples before the stamp. *)
From Coq Require Import ZArith List Bool Lia Sorting.Sorted.
From Synnax Require Import Cesium.Store Cesium.StoreProofs Cesium.IndexSearch.
Import ListNotations.
Local Open Scope Z_scope.

Definition inc (l : list Z) : Prop := StronglySorted Z.lt l.
Definition cnt_lt (ts : Z) (l : list Z) : Z := zlen (filter (fun x => x <? ts) l).
Definition mem (ts : Z) (l : list Z) : bool := existsb (Z.eqb ts) l.

Lemma mem_In ts l : mem ts l = true <-> In ts l.
Proof.
  unfold mem. rewrite existsb_exists. split.
  - intros (x & Hx & E). apply Z.eqb_eq in E. subst. exact Hx.
  - intros H. exists ts. split; [exact H|apply Z.eqb_refl].
Qed.

Lemma znth_In {A} (l : list A) i x : znth l i = Some x -> In x l.
Proof. unfold znth. destruct (i <? 0); [discriminate|]. apply nth_error_In. Qed.

Lemma In_znth {A} (l : list A) x : In x l -> exists i, znth l i = Some x.
Proof.
  intros H. apply In_nth_error in H. destruct H as [n H]. exists (Z.of_nat n).
  unfold znth. destruct (Z.of_nat n <? 0) eqn:E; zb; [lia|]. rewrite Nat2Z.id. exact H.
Qed.

Lemma inc_nth l : inc l -> forall i j x y, znth l i = Some x -> znth l j = Some y -> i < j -> x < y.
Proof.
  induction 1 as [|a l S IH F]; intros i j x y Hi Hj Hij.
  - unfold znth in Hi. destruct (i <? 0); [discriminate|]. destruct (Z.to_nat i); discriminate.
  - pose proof (znth_Some _ _ _ Hi) as Ri. pose proof (znth_Some _ _ _ Hj) as Rj.
    destruct (Z.eq_dec i 0) as [->|Ni].
    + rewrite znth_0 in Hi. inversion Hi; subst. rewrite znth_cons in Hj by lia.
      rewrite Forall_forall in F. apply F. eapply znth_In; eauto.
    + rewrite znth_cons in Hi by lia. rewrite znth_cons in Hj by lia.
      eapply IH; eauto. lia.
Qed.

Lemma inc_nth_inj l : inc l -> forall i j x, znth l i = Some x -> znth l j = Some x -> i = j.
Proof.
  intros S i j x Hi Hj. destruct (Z.lt_trichotomy i j) as [H|[H|H]]; [|exact H|].
  - pose proof (inc_nth l S i j x x Hi Hj H). lia.
  - pose proof (inc_nth l S j i x x Hj Hi H). lia.
Qed.

(* if everything before position k is below ts and nothing from k on is, then k counts them *)
Lemma cnt_lt_char ts l k :
  0 <= k <= zlen l ->
  (forall j x, znth l j = Some x -> j < k -> x < ts) ->
  (forall j x, znth l j = Some x -> k <= j -> ts <= x) ->
  cnt_lt ts l = k.
Proof.
  unfold cnt_lt. revert k. induction l as [|a l IH]; intros k Hk Hlo Hhi.
  - unfold zlen in *. simpl in *. lia.
  - simpl. destruct (Z.eq_dec k 0) as [->|Nk].
    + assert (Ha : ts <= a) by (apply (Hhi 0 a); [reflexivity|lia]).
      destruct (a <? ts) eqn:E; zb; [lia|].
      apply IH.
      * unfold zlen in *. simpl in Hk. lia.
      * intros j x Hj Hjk. pose proof (znth_Some _ _ _ Hj). lia.
      * intros j x Hj Hjk. apply (Hhi (j + 1) x); [|lia]. rewrite znth_cons by (pose proof (znth_Some _ _ _ Hj); lia).
        replace (j + 1 - 1) with j by lia. exact Hj.
    + assert (Ha : a < ts) by (apply (Hlo 0 a); [reflexivity|lia]).
      destruct (a <? ts) eqn:E; zb; [|lia].
      unfold zlen in *. simpl length. rewrite Nat2Z.inj_succ.
      rewrite (IH (k - 1)); [lia| simpl in Hk; lia | |].
      * intros j x Hj Hjk. apply (Hlo (j + 1) x); [|lia]. rewrite znth_cons by (pose proof (znth_Some _ _ _ Hj); lia).
        replace (j + 1 - 1) with j by lia. exact Hj.
      * intros j x Hj Hjk. apply (Hhi (j + 1) x); [|lia]. rewrite znth_cons by (pose proof (znth_Some _ _ _ Hj); lia).
        replace (j + 1 - 1) with j by lia. exact Hj.
Qed.

Lemma filter_len_le {A} (f : A -> bool) l : (length (filter f l) <= length l)%nat.
Proof. induction l; simpl; [lia|]. destruct (f a); simpl; lia. Qed.
Lemma cnt_lt_range ts l : 0 <= cnt_lt ts l <= zlen l.
Proof.
  unfold cnt_lt, zlen. pose proof (filter_len_le (fun x => x <? ts) l). lia.
Qed.

(* on an increasing list the samples below ts are exactly the first cnt_lt ts l ones *)
Lemma inc_cnt_lt l ts : inc l -> forall j x, znth l j = Some x -> (x < ts <-> j < cnt_lt ts l).
Proof.
  induction 1 as [|a l S IH F]; intros j x Hj.
  - pose proof (znth_Some _ _ _ Hj). unfold zlen in *. simpl in *. lia.
  - unfold cnt_lt. simpl. pose proof (znth_Some _ _ _ Hj) as Rj.
    destruct (Z.eq_dec j 0) as [->|Nj].
    + rewrite znth_0 in Hj. inversion Hj; subst.
      destruct (x <? ts) eqn:E; zb.
      * unfold zlen. simpl length. lia.
      * split; [lia|]. intros H0.
        (* nothing in l is below ts either *)
        assert (Hf : filter (fun y => y <? ts) l = []).
        { assert (F' : Forall (fun y => (y <? ts) = false) l).
          { apply Forall_forall. intros y Hy. rewrite Forall_forall in F. specialize (F y Hy). apply Z.ltb_ge. lia. }
          clear -F'. induction F' as [|y l' Hy _ IHF']; simpl; [reflexivity|]. rewrite Hy. exact IHF'. }
        rewrite Hf in H0. unfold zlen in H0. simpl in H0. lia.
    + rewrite znth_cons in Hj by lia. specialize (IH (j - 1) x Hj). unfold cnt_lt in IH.
      destruct (a <? ts) eqn:E; zb.
      * unfold zlen in *. simpl length. rewrite Nat2Z.inj_succ. lia.
      * (* a >= ts, so all of l >= ts *)
        assert (Hf : filter (fun y => y <? ts) l = []).
        { assert (F' : Forall (fun y => (y <? ts) = false) l).
          { apply Forall_forall. intros y Hy. rewrite Forall_forall in F. specialize (F y Hy). apply Z.ltb_ge. lia. }
          clear -F'. induction F' as [|y l' Hy _ IHF']; simpl; [reflexivity|]. rewrite Hy. exact IHF'. }
        rewrite Hf. unfold zlen. simpl.
        rewrite Forall_forall in F. pose proof (F x (znth_In _ _ _ Hj)). lia.
Qed.

Lemma inc_mem_at l ts : inc l -> mem ts l = true -> znth l (cnt_lt ts l) = Some ts.
Proof.
  intros S M. apply mem_In in M. destruct (In_znth _ _ M) as [i Hi].
  assert (i = cnt_lt ts l).
  { pose proof (inc_cnt_lt l ts S i ts Hi) as A.
    pose proof (cnt_lt_range ts l) as R.
    destruct (Z.lt_trichotomy i (cnt_lt ts l)) as [H|[H|H]]; [apply A in H; lia|exact H|].
    (* i > cnt: the element at cnt is < ... *)
    destruct (znth_in_range l (cnt_lt ts l)) as [y Hy]; [pose proof (znth_Some _ _ _ Hi); lia|].
    pose proof (inc_nth l S _ _ _ _ Hy Hi H) as Lt.
    apply (inc_cnt_lt l ts S _ _ Hy) in Lt. lia. }
  subst. exact Hi.
Qed.

(* the approximation search is specified to return *)
Definition search_result (ts : Z) (l : list Z) : approx :=
  let k := cnt_lt ts l in if mem ts l then AP k k else AP (k - 1) k.

Lemma isearch_go_spec l ts : inc l -> forall fuel lo hi,
  0 <= lo -> hi < zlen l -> lo <= hi + 1 ->
  (forall j x, znth l j = Some x -> j < lo -> x < ts) ->
  (forall j x, znth l j = Some x -> hi < j -> ts < x) ->
  hi - lo + 1 < Z.of_nat fuel ->
  isearch_go fuel l ts lo hi = Ok (search_result ts l).
Proof.
  intros S. induction fuel as [|f IH]; intros lo hi Hlo Hhi Hle Hbelow Habove Hfuel; [lia|].
  cbn [isearch_go]. destruct (lo <=? hi) eqn:E; zb.
  - set (mid := (lo + hi) / 2).
    assert (Hmid : lo <= mid <= hi) by (unfold mid; split; [apply Z.div_le_lower_bound|apply Z.div_le_upper_bound]; lia).
    destruct (znth_in_range l mid) as [m Hm]; [lia|].
    unfold rd. rewrite Hm.
    destruct (ts =? m) eqn:Em; zb.
    + subst m. unfold search_result.
      assert (M : mem ts l = true) by (apply mem_In; eapply znth_In; eauto).
      rewrite M. pose proof (inc_mem_at l ts S M) as At.
      rewrite (inc_nth_inj l S _ _ _ Hm At). reflexivity.
    + destruct (m <? ts) eqn:Elt; zb.
      * apply IH; try lia.
        -- intros j x Hj Hjl. destruct (Z.eq_dec j mid) as [->|N]; [congruence|].
           destruct (Z_lt_ge_dec j lo); [eapply Hbelow; eauto|].
           assert (j < mid) by lia. pose proof (inc_nth l S _ _ _ _ Hj Hm H). lia.
        -- exact Habove.
      * apply IH; try lia.
        -- exact Hbelow.
        -- intros j x Hj Hjl. destruct (Z.eq_dec j mid) as [->|N]; [assert (x = m) by congruence; lia|].
           destruct (Z_lt_ge_dec hi j); [eapply Habove; eauto|].
           assert (mid < j) by lia. pose proof (inc_nth l S _ _ _ _ Hm Hj H). lia.
  - assert (lo = hi + 1) by lia. subst lo.
    unfold search_result.
    assert (K : cnt_lt ts l = hi + 1).
    { apply cnt_lt_char; [pose proof (zlen_nonneg l); lia| |].
      - exact Hbelow.
      - intros j x Hj Hjk. assert (ts < x) by (eapply Habove; eauto; lia). lia. }
    assert (M : mem ts l = false).
    { destruct (mem ts l) eqn:M; [|reflexivity]. pose proof (inc_mem_at l ts S M) as At. rewrite K in At.
      pose proof (Habove _ _ At ltac:(lia)). lia. }
    rewrite M, K. f_equal. f_equal. lia.
Qed.

(* search_spec *)
Theorem isearch_spec l ts : inc l -> isearch ts l = Ok (search_result ts l).
Proof.
  intros S. unfold isearch. apply isearch_go_spec; try assumption.
  - lia.
  - lia.
  - pose proof (zlen_nonneg l). lia.
  - intros j x Hj Hlt. pose proof (znth_Some _ _ _ Hj). lia.
  - intros j x Hj Hlt. pose proof (znth_Some _ _ _ Hj). lia.
  - unfold zlen. lia.
Qed.

(* reading of the result *)
Corollary isearch_exact l ts : inc l -> mem ts l = true ->
  exists i, isearch ts l = Ok (AP i i) /\ znth l i = Some ts /\ i = cnt_lt ts l.
Proof.
  intros S M. exists (cnt_lt ts l). rewrite (isearch_spec l ts S). unfold search_result. rewrite M.
  split; [reflexivity|]. split; [apply inc_mem_at; assumption|reflexivity].
Qed.
Corollary isearch_between l ts : inc l -> mem ts l = false ->
  isearch ts l = Ok (AP (cnt_lt ts l - 1) (cnt_lt ts l)).
Proof. intros S M. rewrite (isearch_spec l ts S). unfold search_result. rewrite M. reflexivity. Qed.
