(* Cesium/RelayInv.v — invariants of every reachable state of the LTS of Cesium/Relay.v and
   step-local facts, from which the clauses of C20 follow for all interleavings. *)
From stdpp Require Import base list numbers.
From Coq Require Import NArith Bool List Lia Sorting.Sorted.
Import ListNotations.
From Synnax Require Import Cesium.Relay Cesium.RelayProofs.
Local Open Scope N_scope.

Definition tag (f : frame) : N * N := (f_w f, f_seq f).
Definition itag (i : item) : N * N := (i_w i, i_seq i).

(* ------------------------------------------------------------------ association lists *)
Lemma alookup_aupdate {A} k s (g : A -> A) l :
  alookup k (aupdate s g l) = if k =? s then option_map g (alookup k l) else alookup k l.
Proof.
  induction l as [|[k' v] r IH]; simpl; [destruct (k =? s); reflexivity|].
  destruct (s =? k') eqn:E1; simpl.
  - apply N.eqb_eq in E1. subst k'. destruct (k =? s) eqn:E2; reflexivity.
  - destruct (k =? k') eqn:E2.
    + apply N.eqb_eq in E2. subst k'. rewrite N.eqb_sym, E1. reflexivity.
    + exact IH.
Qed.

Lemma alookup_app_new {A} k w (v : A) l :
  alookup w l = None ->
  alookup k (l ++ [(w, v)]) = match alookup k l with Some x => Some x | None => if k =? w then Some v else None end.
Proof.
  intros Hn. induction l as [|[k' x] r IH]; simpl in *; [reflexivity|].
  destruct (w =? k') eqn:E; [discriminate|]. destruct (k =? k'); [reflexivity|auto].
Qed.

(* ------------------------------------------------------------------ effect of a step *)
Inductive wchange (ws : list (N * writer)) : list (N * writer) -> Prop :=
| wc_same : wchange ws ws
| wc_upd w g : (forall wr, alookup w ws = Some wr -> w_seq wr <= w_seq (g wr) /\ w_mode (g wr) = w_mode wr) ->
               wchange ws (aupdate w g ws)
| wc_new w wr : alookup w ws = None -> wchange ws (ws ++ [(w, wr)]).

Inductive quiet_strs (ss : list (N * streamer)) : list (N * streamer) -> Prop :=
| qs_same : quiet_strs ss ss
| qs_upd s g : keeps_inbox g -> quiet_strs ss (aupdate s g ss)
| qs_new s ks : quiet_strs ss (ss ++ [(s, new_streamer ks)]).

Inductive effect (st st' : state) : Prop :=
| eff_quiet :
    st_unowned st' = st_unowned st -> st_deadinlet st' = st_deadinlet st -> st_chans st' = st_chans st ->
    st_cap st' = st_cap st ->
    st_hist st' = st_hist st -> st_fifo st' = st_fifo st ->
    wchange (st_writers st) (st_writers st') -> quiet_strs (st_strs st) (st_strs st') -> effect st st'
| eff_push w wr ks :
    st_unowned st' = st_unowned st -> st_deadinlet st' = st_deadinlet st -> st_chans st' = st_chans st ->
    st_cap st' = st_cap st ->
    open_writer_of st w = Some wr -> streams (w_mode wr) = true ->
    (length (st_fifo st) <= st_cap st)%nat ->
    let f := Frame w (w_seq wr + 1) (relayed_keys st w wr ks) ks (unauth_keys st w wr ks) in
    st_hist st' = st_hist st ++ [f] -> st_fifo st' = st_fifo st ++ [f] ->
    st_writers st' = aupdate w (fun x => Writer (w_open x) (w_mode x) (w_chans x) (w_pos x) (w_seq wr + 1))
                             (st_writers st) ->
    st_strs st' = st_strs st -> effect st st'
| eff_pop f :
    st_unowned st' = st_unowned st -> st_deadinlet st' = st_deadinlet st -> st_chans st' = st_chans st ->
    st_cap st' = st_cap st ->
    st_hist st' = st_hist st -> st_fifo st = f :: st_fifo st' -> st_writers st' = st_writers st ->
    (In (st_strs st') (deliver_all f (st_strs st)) \/ In (st_strs st') (deliver_prefix f (st_strs st))) ->
    (In st' (deliver_succs st) \/ (st_closed st = false /\ st_closed st' = true)) ->
    effect st st'.

Lemma open_writer_of_seq st w wr :
  open_writer_of st w = Some wr -> alookup w (st_writers st) = Some wr.
Proof.
  unfold open_writer_of. destruct (alookup w (st_writers st)) as [x|]; [|discriminate].
  destruct (w_open x); congruence.
Qed.

Lemma dw_result_effect st w wr ks st' :
  open_writer_of st w = Some wr -> dw_result st w wr ks st' -> effect st st'.
Proof.
  intros Ew H. destruct H.
  - apply eff_quiet; simpl; auto; try constructor. intros x _. simpl. split; [lia|reflexivity].
  - apply eff_quiet; simpl; auto; try constructor.
    intros x Hx. simpl. rewrite (open_writer_of_seq _ _ _ Ew) in Hx. injection Hx as <-. split; [lia|reflexivity].
  - eapply (eff_push st _ w wr ks); simpl; auto.
Qed.

(* the same from a state that differs only in the background-writer table *)
Lemma dw_result_effect_bg st b w wr ks st' :
  open_writer_of st w = Some wr -> dw_result (set_bg st b) w wr ks st' -> effect st st'.
Proof.
  intros Ew H. destruct H.
  - apply eff_quiet; simpl; auto; try constructor. intros x _. simpl. split; [lia|reflexivity].
  - apply eff_quiet; simpl; auto; try constructor.
    intros x Hx. simpl. rewrite (open_writer_of_seq _ _ _ Ew) in Hx. injection Hx as <-. split; [lia|reflexivity].
  - eapply (eff_push st _ w wr ks); simpl; auto.
Qed.

Lemma vstep_effect st o st' : In st' (vstep st o) -> effect st st'.
Proof.
  unfold vstep. destruct (driver_blocked st); [intros []|].
  destruct o; simpl.
  - destruct (alookup w (st_writers st)) eqn:El; [intros [<-|[]]; apply eff_quiet; auto; constructor|].
    destruct (open_writer_ok st w chans auths); intros [<-|[]]; apply eff_quiet; simpl; auto; try constructor.
    exact El.
  - destruct (bg_active st w); intros [<-|[]]; apply eff_quiet; simpl; auto; try constructor.
    intros wr _. simpl. split; [lia|reflexivity].
  - destruct (bg_active st w); intros [<-|[]]; apply eff_quiet; simpl; auto; try constructor.
    intros wr _. simpl. split; [lia|reflexivity].
  - destruct (open_writer_of st w) as [wr|] eqn:Ew; [|intros [<-|[]]; apply eff_quiet; auto; constructor].
    destruct (bg_active st w); [intros [<-|[]]; apply eff_quiet; auto; constructor|].
    intros H. apply do_write_cases in H. eapply dw_result_effect; eauto.
  - destruct (st_closed st); [intros [<-|[]]; apply eff_quiet; auto; constructor|].
    destruct (alookup s (st_strs st)); intros [<-|[]]; apply eff_quiet; simpl; auto; constructor.
  - destruct (st_closed st); intros [<-|[]]; apply eff_quiet; simpl; auto; try constructor.
    intros x. destruct (s_closing x); reflexivity.
  - destruct (st_closed st); intros [<-|[]]; apply eff_quiet; simpl; auto; try constructor.
    intros x. reflexivity.
  - destruct (st_closed st); intros [<-|[]]; apply eff_quiet; simpl; auto; try constructor.
    intros x. destruct (s_closing x); reflexivity.
  - destruct (st_closed st); intros [<-|[]]; apply eff_quiet; simpl; auto; try constructor.
    intros x. destruct (s_closing x); reflexivity.
  - destruct (st_closed st); [intros [<-|[]]; apply eff_quiet; auto; constructor|].
    destruct (sync_ready st); intros H; [destruct H as [<-|[]]; apply eff_quiet; auto; constructor|destruct H].
  - destruct (st_closed st) eqn:Ec; [intros [<-|[]]; apply eff_quiet; auto; constructor|].
    intros H. apply in_app_or in H. destruct H as [H|H].
    + destruct (length (st_fifo st) <=? st_cap st)%nat; [|destruct H].
      destruct H as [<-|[]]. apply eff_quiet; simpl; auto; constructor.
    + destruct (st_fifo st) as [|f q] eqn:Ef; [destruct H|].
      apply in_map_iff in H. destruct H as (ss & <- & Hss). apply (eff_pop st _ f); simpl; auto.
  - destruct (open_writer_of st w); [|intros [<-|[]]; apply eff_quiet; auto; constructor].
    destruct (bg_active st w); intros [<-|[]]; apply eff_quiet; simpl; auto; constructor.
  - destruct (alookup w (st_bg st)) as [[|? ?]|]; intros H; try destruct H as [<-|[]];
      try (apply eff_quiet; simpl; auto; constructor). destruct H.
Qed.

Lemma hsucc_effect st st' : In st' (hsucc st) -> effect st st'.
Proof.
  unfold hsucc. intros H. apply in_app_or in H. destruct H as [H|H]; [|apply in_app_or in H; destruct H as [H|H];
    [|apply in_app_or in H; destruct H as [H|H]]].
  - pose proof H as Hd. unfold deliver_succs in H. destruct (st_closed st); [destruct H|].
    destruct (st_fifo st) as [|f q] eqn:Ef; [destruct H|].
    apply in_map_iff in H. destruct H as (ss & <- & Hss). apply (eff_pop st _ f); simpl; auto.
  - unfold apply_succs in H. apply in_flat_map in H. destruct H as ([s x0] & _ & H). simpl in H.
    destruct (alookup s (st_strs st)) as [x|]; [|destruct H].
    destruct (can_apply st x); [|destruct H]. destruct H as [<-|[]].
    apply eff_quiet; simpl; auto; try constructor.
    intros y. unfold apply_req. destruct (s_pend y); reflexivity.
  - unfold disc_succs in H. apply in_flat_map in H. destruct H as ([s x0] & _ & H). simpl in H.
    destruct (alookup s (st_strs st)) as [x|]; [|destruct H].
    destruct (can_disc st x); [|destruct H]. destruct H as [<-|[]].
    apply eff_quiet; simpl; auto; try constructor. intros y. reflexivity.
  - unfold bg_succs in H. apply in_flat_map in H. destruct H as ([w kss0] & _ & H). simpl in H.
    destruct (alookup w (st_bg st)) as [[|ks rest]|]; try destruct H.
    destruct (open_writer_of st w) as [wr|] eqn:Ew.
    + apply do_write_cases in H. eapply dw_result_effect_bg; [exact Ew|exact H].
    + destruct H as [<-|[]]. apply eff_quiet; simpl; auto; constructor.
Qed.

Lemma lstep_effect st l st' : lstep st l st' -> effect st st'.
Proof. destruct l; simpl; [apply hsucc_effect|apply vstep_effect]. Qed.

(* ------------------------------------------------------------------ the invariant *)
Definition frame_ok (f : frame) : Prop :=
  incl (f_keys f) (f_orig f) /\ (forall k, In k (f_keys f) -> ~ In k (f_unauth f)).

Definition items_from (dl : list frame) (inbox : list item) : Prop :=
  forall it, In it inbox ->
    exists f, In f dl /\ tag f = itag it /\ i_keys it <> [] /\ incl (i_keys it) (f_keys f).

Record Inv (st : state) : Prop := {
  inv_dl : exists dl, st_hist st = dl ++ st_fifo st /\
             forall s x, In (s, x) (st_strs st) ->
               sublist (map itag (s_inbox x)) (map tag dl) /\ items_from dl (s_inbox x);
  inv_w : forall f, In f (st_hist st) ->
            exists wr, alookup (f_w f) (st_writers st) = Some wr /\ f_seq f <= w_seq wr /\
                       streams (w_mode wr) = true;
  inv_nodup : List.NoDup (map tag (st_hist st));
  inv_sorted : forall w, StronglySorted N.lt (map f_seq (filter (fun f => f_w f =? w) (st_hist st)));
  inv_frames : forall f, In f (st_hist st) -> frame_ok f;
  inv_cap : (length (st_fifo st) <= S (st_cap st))%nat
}.

Lemma Inv_init u d chans cap : Inv (init_gen u d chans cap).
Proof.
  split; simpl.
  - exists []. split; [reflexivity|]. intros s x [].
  - intros f [].
  - constructor.
  - intros w. constructor.
  - intros f [].
  - lia.
Qed.

Lemma wchange_lookup ws ws' k wr :
  wchange ws ws' -> alookup k ws = Some wr ->
  exists wr', alookup k ws' = Some wr' /\ w_seq wr <= w_seq wr' /\ w_mode wr' = w_mode wr.
Proof.
  destruct 1; intros Hl.
  - exists wr. split; [exact Hl|]. split; [lia|reflexivity].
  - rewrite alookup_aupdate, Hl. simpl. destruct (k =? w) eqn:E.
    + apply N.eqb_eq in E. subst k. exists (g wr). split; [reflexivity|]. apply H. exact Hl.
    + exists wr. split; [reflexivity|]. split; [lia|reflexivity].
  - rewrite (alookup_app_new k w wr0 ws H), Hl. exists wr. split; [reflexivity|]. split; [lia|reflexivity].
Qed.

Lemma hand_inbox f x :
  s_inbox (hand f x) = s_inbox x \/
  (keep f (s_keys x) <> [] /\ s_inbox (hand f x) = s_inbox x ++ [Item (f_w f) (f_seq f) (keep f (s_keys x))]).
Proof.
  unfold hand. simpl. destruct (keep f (s_keys x)) eqn:E; [left; reflexivity|right].
  split; [discriminate|reflexivity].
Qed.

Lemma keep_incl f ks : incl (keep f ks) (f_keys f).
Proof. unfold keep. intros k Hk. apply filter_In in Hk. tauto. Qed.

(* where each streamer of the result of a delivery comes from *)
Lemma deliver_all_in f ss ss' s x' :
  In ss' (deliver_all f ss) -> In (s, x') ss' ->
  exists x, In (s, x) ss /\ (x' = x \/ x' = hand f x).
Proof.
  revert ss'. induction ss as [|[k y] r IH]; simpl; intros ss' H Hin.
  - destruct H as [<-|[]]. destruct Hin.
  - assert (Hgen : forall y' t, In t (deliver_all f r) -> (y' = y \/ y' = hand f y) ->
                   In (s, x') ((k, y') :: t) -> exists x, ((k, y) = (s, x) \/ In (s, x) r) /\ (x' = x \/ x' = hand f x)).
    { intros y' t Ht Hy [[= -> ->]|Hi].
      - exists y. split; [left; reflexivity|exact Hy].
      - destruct (IH t Ht Hi) as (x & Hx & Hxx). exists x. split; [right; exact Hx|exact Hxx]. }
    destruct (s_conn y).
    + apply in_app_or in H. destruct H as [H|H].
      * apply in_map_iff in H. destruct H as (t & <- & Ht). apply (Hgen (hand f y) t Ht); auto.
      * destruct (s_ready y); [destruct H|].
        apply in_map_iff in H. destruct H as (t & <- & Ht). apply (Hgen y t Ht); auto.
    + apply in_map_iff in H. destruct H as (t & <- & Ht). apply (Hgen y t Ht); auto.
Qed.

Lemma deliver_prefix_in f ss ss' s x' :
  In ss' (deliver_prefix f ss) -> In (s, x') ss' ->
  exists x, In (s, x) ss /\ (x' = x \/ x' = hand f x).
Proof.
  revert ss'. induction ss as [|[k y] r IH]; simpl; intros ss' H Hin; [destruct H as [<-|[]]; destruct Hin|].
  destruct H as [<-|H].
  { exists x'. split; [exact Hin|left; reflexivity]. }
  assert (Hgen : forall y' t, In t (deliver_prefix f r) -> (y' = y \/ y' = hand f y) ->
                 In (s, x') ((k, y') :: t) -> exists x, ((k, y) = (s, x) \/ In (s, x) r) /\ (x' = x \/ x' = hand f x)).
  { intros y' t Ht Hy [[= -> ->]|Hi].
    - exists y. split; [left; reflexivity|exact Hy].
    - destruct (IH t Ht Hi) as (x & Hx & Hxx). exists x. split; [right; exact Hx|exact Hxx]. }
  destruct (s_conn y).
  - apply in_app_or in H. destruct H as [H|H].
    + apply in_map_iff in H. destruct H as (t & <- & Ht). apply (Hgen (hand f y) t Ht); auto.
    + destruct (s_ready y); [destruct H|].
      apply in_map_iff in H. destruct H as (t & <- & Ht). apply (Hgen y t Ht); auto.
  - apply in_map_iff in H. destruct H as (t & <- & Ht). apply (Hgen y t Ht); auto.
Qed.

Lemma aupdate_in {A} s (g : A -> A) l k x' :
  In (k, x') (aupdate s g l) -> exists x, In (k, x) l /\ (x' = x \/ x' = g x).
Proof.
  induction l as [|[k' y] r IH]; simpl; [tauto|].
  destruct (s =? k').
  - intros [[= -> <-]|H].
    + exists y. split; [left; reflexivity|right; reflexivity].
    + exists x'. split; [right; exact H|left; reflexivity].
  - intros [[= -> <-]|H].
    + exists y. split; [left; reflexivity|left; reflexivity].
    + destruct (IH H) as (x & Hx & Hxx). exists x. split; [right; exact Hx|exact Hxx].
Qed.

Lemma quiet_strs_inbox ss ss' s x' :
  quiet_strs ss ss' -> In (s, x') ss' -> s_inbox x' = [] \/ exists x, In (s, x) ss /\ s_inbox x' = s_inbox x.
Proof.
  destruct 1; intros Hin.
  - right. exists x'. auto.
  - right. destruct (aupdate_in _ _ _ _ _ Hin) as (x & Hx & [->| ->]); exists x; split; auto.
  - apply in_app_or in Hin. destruct Hin as [Hin|[[= <- <-]|[]]].
    + right. exists x'. auto.
    + left. reflexivity.
Qed.

Lemma sorted_snoc l x : StronglySorted N.lt l -> Forall (fun y => y < x) l -> StronglySorted N.lt (l ++ [x]).
Proof.
  induction 1; simpl; intros Hf.
  - constructor; constructor.
  - inversion Hf; subst. constructor; [auto|]. apply Forall_app. split; [exact H0|]. constructor; [exact H3|constructor].
Qed.

Lemma filter_snoc {A} (p : A -> bool) l x : filter p (l ++ [x]) = filter p l ++ (if p x then [x] else []).
Proof. induction l as [|y r IH]; simpl; [reflexivity|]. rewrite IH. destruct (p y); reflexivity. Qed.

Lemma relayed_keys_ok st w wr ks :
  frame_ok (Frame w (w_seq wr + 1) (relayed_keys st w wr ks) ks (unauth_keys st w wr ks)).
Proof.
  split; simpl.
  - intros k Hk. unfold relayed_keys in Hk. apply filter_In in Hk. tauto.
  - intros k Hk Hu. unfold relayed_keys in Hk. unfold unauth_keys in Hu.
    apply filter_In in Hk. apply filter_In in Hu. destruct Hk as [_ Hk]. destruct Hu as [_ Hu].
    unfold relayed in Hk. rewrite Hu in Hk. discriminate.
Qed.

Lemma Inv_step st st' : effect st st' -> Inv st -> Inv st'.
Proof.
  intros He [Hdl Hw Hnd Hso Hfr Hc]. destruct He as [_ _ _ Hcap Hh Hf Hwc Hq|w wr ks _ _ _ Hcap Ho Hs Hguard f Hh Hf Hws Hss|f _ _ _ Hcap Hh Hf Hws Hd Hcause].
  - (* quiet *)
    split.
    + destruct Hdl as (dl & Hd1 & Hd2). exists dl. rewrite Hh, Hf. split; [exact Hd1|].
      intros s x' Hin. destruct (quiet_strs_inbox _ _ _ _ Hq Hin) as [E|(x & Hx & E)].
      * rewrite E. simpl. split; [apply sublist_nil_l|intros it []].
      * rewrite E. apply (Hd2 s x Hx).
    + rewrite Hh. intros g Hg. destruct (Hw g Hg) as (wr & Hl & Hle & Hm).
      destruct (wchange_lookup _ _ _ _ Hwc Hl) as (wr' & Hl' & Hle' & Hm').
      exists wr'. split; [exact Hl'|]. split; [lia|]. rewrite Hm'. exact Hm.
    + rewrite Hh. exact Hnd.
    + rewrite Hh. exact Hso.
    + rewrite Hh. exact Hfr.
    + rewrite Hf, Hcap. exact Hc.
  - (* push *)
    pose proof (open_writer_of_seq _ _ _ Ho) as Hl.
    assert (Hold : forall g, In g (st_hist st) -> f_w g = w -> f_seq g <= w_seq wr).
    { intros g Hg Hgw. destruct (Hw g Hg) as (wr0 & Hl0 & Hle & _). rewrite Hgw, Hl in Hl0.
      injection Hl0 as <-. exact Hle. }
    split.
    + destruct Hdl as (dl & Hd1 & Hd2). exists dl. rewrite Hh, Hf, Hss, Hd1, app_assoc.
      split; [reflexivity|exact Hd2].
    + rewrite Hh, Hws. intros g Hg. apply in_app_or in Hg. destruct Hg as [Hg|[<-|[]]].
      * destruct (Hw g Hg) as (wr0 & Hl0 & Hle & Hm). rewrite alookup_aupdate, Hl0. simpl.
        destruct (f_w g =? w) eqn:E.
        -- apply N.eqb_eq in E. pose proof (Hold g Hg E).
           eexists. split; [reflexivity|]. simpl. split; [lia|exact Hm].
        -- exists wr0. auto.
      * simpl. rewrite alookup_aupdate, Hl, N.eqb_refl. simpl. eexists. split; [reflexivity|].
        simpl. split; [lia|exact Hs].
    + rewrite Hh, map_app. simpl. apply NoDup_ListNoDup. apply NoDup_app. split; [apply NoDup_ListNoDup; exact Hnd|].
      split; [|apply NoDup_singleton].
      intros t Ht Ht2. apply elem_of_list_singleton in Ht2. subst t.
      apply elem_of_list_In in Ht. apply in_map_iff in Ht. destruct Ht as (g & Hgt & Hg).
      unfold tag in Hgt. simpl in Hgt. injection Hgt as Hgw Hgs.
      pose proof (Hold g Hg Hgw). lia.
    + intros w0. rewrite Hh, filter_snoc, map_app. simpl. destruct (w =? w0) eqn:E; simpl.
      * apply sorted_snoc; [apply Hso|]. apply N.eqb_eq in E. subst w0.
        apply Forall_forall. intros q Hq. apply in_map_iff in Hq. destruct Hq as (g & <- & Hg).
        apply filter_In in Hg. destruct Hg as [Hg Hgw]. apply N.eqb_eq in Hgw.
        pose proof (Hold g Hg Hgw). lia.
      * rewrite app_nil_r. apply Hso.
    + rewrite Hh. intros g Hg. apply in_app_or in Hg. destruct Hg as [Hg|[<-|[]]]; [auto|].
      apply relayed_keys_ok.
    + rewrite Hf, Hcap, app_length. simpl. lia.
  - (* pop *)
    split.
    + destruct Hdl as (dl & Hd1 & Hd2). exists (dl ++ [f]). rewrite Hh, Hd1, Hf, <- app_assoc.
      split; [reflexivity|]. intros s x' Hin.
      assert (Hsrc : exists x, In (s, x) (st_strs st) /\ (x' = x \/ x' = hand f x)).
      { destruct Hd as [Hd|Hd]; [eapply deliver_all_in|eapply deliver_prefix_in]; eauto. }
      destruct Hsrc as (x & Hx & Hxx). destruct (Hd2 s x Hx) as [Hsub Hit].
      assert (Hkeep : sublist (map itag (s_inbox x)) (map tag (dl ++ [f])) /\ items_from (dl ++ [f]) (s_inbox x)).
      { split.
        - rewrite map_app. apply sublist_inserts_r. exact Hsub.
        - intros it Hi. destruct (Hit it Hi) as (g & Hg & Hrest). exists g. split; [apply in_or_app; left; exact Hg|exact Hrest]. }
      destruct Hxx as [->| ->]; [exact Hkeep|].
      destruct (hand_inbox f x) as [E|[Hne E]]; rewrite E; [exact Hkeep|].
      split.
      * rewrite !map_app. simpl. apply sublist_app; [exact Hsub|]. unfold itag, tag. simpl. reflexivity.
      * intros it Hi. apply in_app_or in Hi. destruct Hi as [Hi|[<-|[]]].
        -- destruct (Hit it Hi) as (g & Hg & Hrest). exists g. split; [apply in_or_app; left; exact Hg|exact Hrest].
        -- exists f. split; [apply in_or_app; right; left; reflexivity|]. split; [reflexivity|].
           split; [exact Hne|apply keep_incl].
    + rewrite Hh, Hws. exact Hw.
    + rewrite Hh. exact Hnd.
    + rewrite Hh. exact Hso.
    + rewrite Hh. exact Hfr.
    + rewrite Hf in Hc. simpl in Hc. rewrite Hcap. lia.
Qed.

Lemma Inv_run st ls st' : run st ls st' -> Inv st -> Inv st'.
Proof. induction 1; auto. intros Hi. apply IHrun. eapply Inv_step; [eapply lstep_effect|]; eauto. Qed.

Lemma Inv_reachable_gen u d chans cap ls st : run (init_gen u d chans cap) ls st -> Inv st.
Proof. intros H. eapply Inv_run; [exact H|apply Inv_init]. Qed.

Lemma run_flags st ls st' :
  run st ls st' ->
  st_unowned st' = st_unowned st /\ st_deadinlet st' = st_deadinlet st /\ st_chans st' = st_chans st /\
  st_cap st' = st_cap st.
Proof.
  induction 1; [auto|]. apply lstep_effect in H.
  destruct IHrun as (A & B & C & D). rewrite A, B, C, D.
  destruct H; auto.
Qed.
