(* Cesium/Control.v — executable model of cesium/internal/control (controller.go, region.go,
   gate.go) and the parts of x/go/control and x/go/telem it uses.  No proofs here.

   The model copies the Go algorithm: regions in controller order (binary-search insert),
   region.open / release / update with their error paths and the time-range widening,
   Gate.Authorize in exclusive and shared mode.  Go's map iteration over region.gates is an
   explicit parameter [ord] (a reordering applied to the gate list before each loop); the
   executable instance uses the identity, the theorems quantify over every permutation.

   [fixed = true] is OpenGate as in /repo (multi-region overlap detected before any region is
   touched); [fixed = false] is the pinned upstream loop (finding F14).  *)
From Coq Require Import List Bool NArith ZArith.
Import ListNotations.
Local Open Scope N_scope.

(* ---------- x/go/telem TimeRange (only what the controller uses) ---------- *)
Record trange := TR { t_start : Z; t_end : Z }.

Definition tr_eqb (a b : trange) : bool :=
  (t_start a =? t_start b)%Z && (t_end a =? t_end b)%Z.
Definition tr_is_zero (a : trange) : bool := (t_start a =? 0)%Z && (t_end a =? 0)%Z.
(* Valid: Span() >= 0 *)
Definition tr_valid (a : trange) : bool := (0 <=? t_end a - t_start a)%Z.
Definition tr_make_valid (a : trange) : trange :=
  if tr_valid a then a else TR (t_end a) (t_start a).
Definition contains_stamp (a : trange) (s : Z) : bool :=
  (t_start a <=? s)%Z && (s <? t_end a)%Z.
(* OverlapsWith: note the last four tests use the receiver as given (not made valid). *)
Definition overlaps (tr rng : trange) : bool :=
  if tr_eqb tr rng then true else
  let v := tr_make_valid tr in
  let rng := tr_make_valid rng in
  if (t_start rng =? t_start v)%Z then true else
  if (t_end rng =? t_start v)%Z || (t_start rng =? t_end v)%Z then false else
  contains_stamp tr (t_end rng) || contains_stamp tr (t_start rng) ||
  contains_stamp rng (t_start tr) || contains_stamp rng (t_end tr).
Definition tr_union (a b : trange) : trange :=
  TR (Z.min (t_start a) (t_start b)) (Z.max (t_end a) (t_end b)).

(* ---------- gates, regions, controller ---------- *)
Record gate := Gate { g_h : N;      (* handle: identity of the *Gate object *)
                      g_subj : N;   (* subject key "s<n>"; 0 is the empty key *)
                      g_auth : N;   (* control.Authority, uint8 *)
                      g_pos : N }.  (* region.counter at open *)

Record region := Region { r_res : N;             (* resource (ChannelKey of the harness resource) *)
                          r_tr : trange;
                          r_gates : list gate;    (* the set region.gates, kept in open order *)
                          r_curr : option N;      (* handle of region.curr *)
                          r_counter : N }.

Record ctl := Ctl { c_regions : list region;
                    c_nres : N;           (* OpenResource calls that succeeded *)
                    c_used : list N;      (* handles ever passed to an attempted open *)
                    c_live : list N }.    (* handles the caller holds: returned and not released *)

Definition init : ctl := Ctl [] 0 [] [].

(* control.State: subject, authority, resource *)
Definition cstate : Type := N * N * N.
Record xfer := X { x_from : option cstate; x_to : option cstate }.
Definition X0 : xfer := X None None.

Definition cstate_eqb (a b : cstate) : bool :=
  (fst (fst a) =? fst (fst b)) && (snd (fst a) =? snd (fst b)) && (snd a =? snd b).
(* Transfer.Occurred *)
Definition occurred (x : xfer) : bool :=
  match x_from x, x_to x with
  | Some f, Some t => negb ((fst (fst f) =? fst (fst t)) && (snd (fst f) =? snd (fst t)))
  | None, None => false
  | _, _ => true
  end.

Definition find_gate (h : N) (gs : list gate) : option gate :=
  find (fun g => g_h g =? h) gs.
Definition cur (r : region) : option gate :=
  match r_curr r with Some h => find_gate h (r_gates r) | None => None end.
Definition gstate (r : region) (g : gate) : cstate := (g_subj g, g_auth g, r_res r).

(* [better a b]: a takes precedence over b — higher authority, or equal authority and
   earlier position (region.shouldBeInControl candidate=a against curr=b). *)
Definition better (a b : gate) : bool :=
  (g_auth b <? g_auth a) || ((g_auth a =? g_auth b) && (g_pos a <? g_pos b)).
Definition should_ctl (curr : option gate) (cand : gate) : bool :=
  match curr with None => true | Some c => better cand c end.
(* the "for candidate := range r.gates { if shouldBeInControl … r.curr = candidate }" loop *)
Fixpoint pick (curr : option gate) (cands : list gate) : option gate :=
  match cands with
  | [] => curr
  | c :: rest => pick (if should_ctl curr c then Some c else curr) rest
  end.

(* Valid: validate.ErrValidation (duplicate subject); Config: config validation (PathError) *)
Inductive ostat := Ok | Unauth | Valid | Multi | ResFail | Skip | Panic | Config.

Record ocfg := OCfg { o_h : N; o_subj : N; o_auth : N; o_tr : trange;
                      o_eic : bool; o_eou : bool; o_resfail : bool }.

Inductive op := Open (c : ocfg) | SetAuth (h a : N) | Release (h : N).

Definition is_some {A} (o : option A) : bool := match o with Some _ => true | None => false end.

(* region.open *)
Definition region_open (shared : bool) (r : region) (c : ocfg) : region * ostat * xfer :=
  if o_eic c && is_some (r_curr r) then (r, Unauth, X0)
  else if existsb (fun g => g_subj g =? o_subj c) (r_gates r) then (r, Valid, X0)
  else
    let g := Gate (o_h c) (o_subj c) (o_auth c) (r_counter r) in
    let tr' := tr_union (r_tr r) (o_tr c) in
    let add (x : xfer) (curr' : option N) :=
        (Region (r_res r) tr' (r_gates r ++ [g]) curr' (r_counter r + 1), Ok, x) in
    match r_curr r with
    | None => add (X None (Some (gstate r g))) (Some (o_h c))
    | Some ch =>
        match find_gate ch (r_gates r) with
        | None => (r, Panic, X0)
        | Some cg =>
            if g_auth cg <? o_auth c
            then add (X (Some (gstate r cg)) (Some (gstate r g))) (Some (o_h c))
            else if o_eou c && (negb shared || negb (o_auth c =? g_auth cg))
            then (Region (r_res r) tr' (r_gates r) (r_curr r) (r_counter r), Unauth, X0)
            else add X0 (r_curr r)
        end
    end.

(* slices.BinarySearchFunc(regions, r, a.Start - b.Start) *)
Fixpoint bsearch (fuel : nat) (starts : list Z) (t : Z) (i j : nat) : nat :=
  match fuel with
  | O => i
  | S f =>
      if (i <? j)%nat then
        let h := Nat.div (i + j) 2 in
        if (nth h starts 0 <? t)%Z then bsearch f starts t (S h) j else bsearch f starts t i h
      else i
  end.
Definition insert_region (r : region) (rs : list region) : list region :=
  let i := bsearch (S (length rs)) (map (fun x => t_start (r_tr x)) rs) (t_start (r_tr r)) 0 (length rs) in
  firstn i rs ++ r :: skipn i rs.

(* open in the first region whose range overlaps (used when exactly one does) *)
Fixpoint open_in (shared : bool) (c : ocfg) (rs : list region) : list region * ostat * xfer :=
  match rs with
  | [] => ([], Panic, X0)
  | r :: rest =>
      if overlaps (r_tr r) (o_tr c)
      then let '(r', st, x) := region_open shared r c in (r' :: rest, st, x)
      else let '(rest', st, x) := open_in shared c rest in (r :: rest', st, x)
  end.

(* the pinned upstream loop of OpenGate: returns (regions, exists, status, transfer) *)
Fixpoint og_loop (shared : bool) (c : ocfg) (rs : list region) (ex : bool) (x : xfer)
  : list region * bool * ostat * xfer :=
  match rs with
  | [] => ([], ex, Ok, x)
  | r :: rest =>
      if overlaps (r_tr r) (o_tr c) then
        if ex then (r :: rest, true, Multi, x)
        else
          let '(r', st, x') := region_open shared r c in
          match st with
          | Ok => let '(rest', ex', st', x'') := og_loop shared c rest true x' in
                  (r' :: rest', ex', st', x'')
          | _ => (r' :: rest, true, st, x')
          end
      else
        let '(rest', ex', st', x'') := og_loop shared c rest ex x in (r :: rest', ex', st', x'')
  end.

Record out := Out { out_st : ostat; out_gate : bool; out_x : xfer; out_res : N }.

Definition new_region (shared : bool) (s : ctl) (c : ocfg) (used' : list N) : ctl * out :=
  if o_resfail c then (Ctl (c_regions s) (c_nres s) used' (c_live s), Out ResFail false X0 0)
  else
    let res := c_nres s + 1 in
    let '(r1, st, x) := region_open shared (Region res (o_tr c) [] None 0) c in
    match st with
    | Ok => (Ctl (insert_region r1 (c_regions s)) res used' (c_live s ++ [o_h c]), Out Ok true x 0)
    | _ => (Ctl (insert_region r1 (c_regions s)) res used' (c_live s), Out st false x 0)
    end.

Definition n_overlapping (c : ocfg) (rs : list region) : nat :=
  length (filter (fun r => overlaps (r_tr r) (o_tr c)) rs).

Definition open_gate (fixed shared : bool) (s : ctl) (c : ocfg) : ctl * out :=
  if existsb (N.eqb (o_h c)) (c_used s) then (s, Out Skip false X0 0) else
  let used' := c_used s ++ [o_h c] in
  if (o_subj c =? 0) || tr_is_zero (o_tr c)
  then (Ctl (c_regions s) (c_nres s) used' (c_live s), Out Config false X0 0)
  else if fixed then
    match n_overlapping c (c_regions s) with
    | O => new_region shared s c used'
    | S O =>
        let '(rs', st, x) := open_in shared c (c_regions s) in
        match st with
        | Ok => (Ctl rs' (c_nres s) used' (c_live s ++ [o_h c]), Out Ok true x 0)
        | _ => (Ctl rs' (c_nres s) used' (c_live s), Out st false x 0)
        end
    | _ => (Ctl (c_regions s) (c_nres s) used' (c_live s), Out Multi false X0 0)
    end
  else
    let '(rs', ex, st, x) := og_loop shared c (c_regions s) false X0 in
    match st with
    | Ok => if ex then (Ctl rs' (c_nres s) used' (c_live s ++ [o_h c]), Out Ok true x 0)
            else new_region shared s c used'
    | _ => (Ctl rs' (c_nres s) used' (c_live s), Out st false x 0)
    end.

Definition has_gate (h : N) (r : region) : bool := is_some (find_gate h (r_gates r)).

Definition set_region_gates (r : region) (gs : list gate) (curr : option N) : region :=
  Region (r_res r) (r_tr r) gs curr (r_counter r).

(* region.release; returns (region, transfer, returned resource, remove?) *)
Definition region_release (ord : list gate -> list gate) (r : region) (h : N)
  : region * xfer * N * bool :=
  let gs := filter (fun g => negb (g_h g =? h)) (r_gates r) in
  match r_curr r, find_gate h (r_gates r) with
  | Some ch, Some g =>
      if ch =? h then
        let nc := pick None (ord gs) in
        (set_region_gates r gs (option_map g_h nc),
         X (Some (gstate r g)) (option_map (gstate r) nc), r_res r,
         negb (is_some nc))
      else (set_region_gates r gs (r_curr r), X0, 0, false)
  | _, _ => (set_region_gates r gs (r_curr r), X0, 0, false)
  end.

Definition set_auth_gates (h a : N) (gs : list gate) : list gate :=
  map (fun g => if g_h g =? h then Gate (g_h g) (g_subj g) a (g_pos g) else g) gs.

(* region.update *)
Definition region_update (ord : list gate -> list gate) (r : region) (h a : N)
  : region * ostat * xfer :=
  match find_gate h (r_gates r) with
  | None => (r, Skip, X0)
  | Some g =>
      let g' := Gate (g_h g) (g_subj g) a (g_pos g) in
      let gs' := set_auth_gates h a (r_gates r) in
      match r_curr r with
      | None => (set_region_gates r gs' None, Panic, X0)
      | Some ch =>
          if ch =? h then
            match pick (Some g') (ord gs') with
            | Some n => (set_region_gates r gs' (Some (g_h n)), Ok,
                         X (Some (gstate r g)) (Some (gstate r n)))
            | None => (set_region_gates r gs' None, Panic, X0)
            end
          else
            match find_gate ch gs' with
            | None => (set_region_gates r gs' (Some ch), Panic, X0)
            | Some cg =>
                if better g' cg
                then (set_region_gates r gs' (Some h), Ok,
                      X (Some (gstate r cg)) (Some (gstate r g')))
                else (set_region_gates r gs' (Some ch), Ok, X0)
            end
      end
  end.

(* apply f to the first region holding gate h *)
Fixpoint on_region {A} (h : N) (f : region -> region * A) (dflt : A) (rs : list region)
  : list region * A :=
  match rs with
  | [] => ([], dflt)
  | r :: rest =>
      if has_gate h r then let '(r', a) := f r in (r' :: rest, a)
      else let '(rest', a) := on_region h f dflt rest in (r :: rest', a)
  end.

(* Controller.remove after a release that left nobody in control *)
Fixpoint remove_region (res : N) (rs : list region) : list region :=
  match rs with
  | [] => []
  | r :: rest =>
      if (r_res r =? res) && (match r_gates r with [] => true | _ => false end)
      then rest else r :: remove_region res rest
  end.

Definition step_gen (ord : list gate -> list gate) (fixed shared : bool) (s : ctl) (o : op)
  : ctl * out :=
  match o with
  | Open c => open_gate fixed shared s c
  | SetAuth h a =>
      if existsb (N.eqb h) (c_live s) then
        let '(rs', (st, x)) :=
          on_region h (fun r => let '(r', st, x) := region_update ord r h a in (r', (st, x)))
                    (Skip, X0) (c_regions s) in
        (Ctl rs' (c_nres s) (c_used s) (c_live s), Out st false x 0)
      else (s, Out Skip false X0 0)
  | Release h =>
      if existsb (N.eqb h) (c_live s) then
        let '(rs', (x, res, rm)) :=
          on_region h (fun r => let '(r', x, res, rm) := region_release ord r h in (r', (x, res, rm)))
                    (X0, 0, false) (c_regions s) in
        let rs'' := if rm then remove_region res rs' else rs' in
        (Ctl rs'' (c_nres s) (c_used s) (filter (fun k => negb (k =? h)) (c_live s)),
         Out Ok false x res)
      else (s, Out Skip false X0 0)
  end.

Definition step := step_gen (fun l => l).

Fixpoint run (fixed shared : bool) (s : ctl) (ops : list op) : ctl :=
  match ops with [] => s | o :: rest => run fixed shared (fst (step fixed shared s o)) rest end.
Fixpoint outs (fixed shared : bool) (s : ctl) (ops : list op) : list out :=
  match ops with
  | [] => []
  | o :: rest => let '(s', ou) := step fixed shared s o in ou :: outs fixed shared s' rest
  end.
(* one reordering per step: the map iteration order of that call *)
Fixpoint run_gen (fixed shared : bool) (s : ctl) (ops : list (op * (list gate -> list gate))) : ctl :=
  match ops with
  | [] => s
  | (o, ord) :: rest => run_gen fixed shared (fst (step_gen ord fixed shared s o)) rest
  end.

(* ---------- Gate.Authorize, Controller.LeadingState ---------- *)
Fixpoint region_of (h : N) (rs : list region) : option region :=
  match rs with
  | [] => None
  | r :: rest => if has_gate h r then Some r else region_of h rest
  end.

(* (authorized, returned resource) *)
Definition authorize (shared : bool) (s : ctl) (h : N) : bool * N :=
  match region_of h (c_regions s) with
  | None => (false, 0)
  | Some r =>
      match find_gate h (r_gates r), r_curr r, cur r with
      | Some g, Some ch, Some cg =>
          if shared then (if g_auth cg <=? g_auth g then (true, r_res r) else (false, 0))
          else (if ch =? h then (true, r_res r) else (false, 0))
      | _, _, _ => (false, 0)
      end
  end.

Definition leading_state (s : ctl) : option cstate :=
  match c_regions s with
  | [] => None
  | r :: _ => match r_gates r with [] => None | _ => option_map (gstate r) (cur r) end
  end.

(* the controller of the region with resource [res], as a control.State *)
Fixpoint holder (rs : list region) (res : N) : option cstate :=
  match rs with
  | [] => None
  | r :: rest => if r_res r =? res then option_map (gstate r) (cur r) else holder rest res
  end.

(* what a consumer of the transfers does with them *)
Definition apply_xfer (H : N -> option cstate) (x : xfer) : N -> option cstate :=
  if occurred x then
    match x_to x, x_from x with
    | Some t, _ => fun k => if k =? snd t then Some t else H k
    | None, Some f => fun k => if k =? snd f then None else H k
    | None, None => H
    end
  else H.

(* the handles the caller holds, in order of (successful) open: what [c_live] is meant to be *)
Definition live_next (l : list N) (o : op) (ou : out) : list N :=
  match o, out_st ou with
  | Open c, Ok => l ++ [o_h c]
  | Release h, Ok => filter (fun k => negb (k =? h)) l
  | _, _ => l
  end.
Fixpoint live_spec (l : list N) (ops : list op) (os : list out) : list N :=
  match ops, os with
  | o :: ops', ou :: os' => live_spec (live_next l o ou) ops' os'
  | _, _ => l
  end.
(* the sub-list of [live] made of the handles in [l] *)
Definition restr (l live : list N) : list N := filter (fun h => existsb (N.eqb h) l) live.

(* all interleavings of per-goroutine scripts: each element of the result is the head of one
   thread (every call is one atomic step of the model) *)
Inductive interleaving {A} : list (list A) -> list A -> Prop :=
| il_nil : forall ts, Forall (fun t => t = []) ts -> interleaving ts []
| il_step : forall ts1 a t ts2 l,
    interleaving (ts1 ++ t :: ts2) l -> interleaving (ts1 ++ (a :: t) :: ts2) (a :: l).
