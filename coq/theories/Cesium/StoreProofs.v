(* Cesium/StoreProofs.v — facts about the time-range operations and list indexing used by
   every other proof file of the cesium read/write model. *)
From Coq Require Import ZArith List Bool Lia.
From Synnax Require Import Cesium.Store.
Import ListNotations.
Local Open Scope Z_scope.

(* ---- time ranges ---- *)
Lemma tr_eqb_eq a b : tr_eqb a b = true <-> a = b.
Proof.
  destruct a, b; unfold tr_eqb; simpl. rewrite andb_true_iff, !Z.eqb_eq.
  split; [intros [-> ->]; reflexivity | intros H; inversion H; auto].
Qed.

Lemma make_valid_valid t : t_s t <= t_e t -> make_valid t = t.
Proof. intros H. unfold make_valid, tr_valid, tspan. destruct (0 <=? t_e t - t_s t) eqn:E; [reflexivity|lia]. Qed.

Lemma point_eq ts : point ts = TR ts ts.
Proof.
  unfold point, span_range, add_clamp. simpl.
  rewrite Z.add_0_r. apply make_valid_valid. simpl. lia.
Qed.

Ltac zb :=
  repeat match goal with
         | H : (_ <=? _) = true |- _ => apply Z.leb_le in H
         | H : (_ <=? _) = false |- _ => apply Z.leb_gt in H
         | H : (_ <? _) = true |- _ => apply Z.ltb_lt in H
         | H : (_ <? _) = false |- _ => apply Z.ltb_ge in H
         | H : (_ =? _) = true |- _ => apply Z.eqb_eq in H
         | H : (_ =? _) = false |- _ => apply Z.eqb_neq in H
         end.
Ltac zcases :=
  repeat match goal with
         | |- context [?a <=? ?b] => let E := fresh "E" in destruct (a <=? b) eqn:E
         | |- context [?a <? ?b] => let E := fresh "E" in destruct (a <? b) eqn:E
         | |- context [?a =? ?b] => let E := fresh "E" in destruct (a =? b) eqn:E
         end; zb.

(* a domain with a non-empty range overlaps a point exactly when it contains it *)
Lemma overlaps_point t ts : t_s t < t_e t -> overlaps t (TR ts ts) = contains_stamp t ts.
Proof.
  intros H. unfold overlaps.
  destruct (tr_eqb t (TR ts ts)) eqn:E.
  - apply tr_eqb_eq in E. subst. simpl in H. lia.
  - rewrite (make_valid_valid t) by lia. rewrite (make_valid_valid (TR ts ts)) by (simpl; lia).
    unfold contains_stamp. simpl.
    zcases; simpl; try reflexivity; try lia.
Qed.

(* two non-empty ranges overlap exactly when the later start is before the earlier end *)
Lemma overlaps_nonempty t r :
  t_s t < t_e t -> t_s r < t_e r ->
  overlaps t r = (Z.max (t_s t) (t_s r) <? Z.min (t_e t) (t_e r)).
Proof.
  intros Ht Hr. unfold overlaps.
  destruct (tr_eqb t r) eqn:E.
  - apply tr_eqb_eq in E. subst. symmetry. apply Z.ltb_lt. lia.
  - rewrite (make_valid_valid t), (make_valid_valid r) by lia.
    unfold contains_stamp.
    zcases; simpl; try reflexivity; try lia.
Qed.

(* a non-empty range against an arbitrary valid (possibly empty) range *)
Lemma overlaps_valid t r :
  t_s t < t_e t -> t_s r <= t_e r ->
  overlaps t r = if t_s r =? t_e r then contains_stamp t (t_s r)
                 else (Z.max (t_s t) (t_s r) <? Z.min (t_e t) (t_e r)).
Proof.
  intros Ht Hr. destruct (t_s r =? t_e r) eqn:E; zb.
  - destruct r as [a b]. simpl in *. subst. apply overlaps_point. exact Ht.
  - apply overlaps_nonempty; lia.
Qed.

Lemma bound_by_eq t b :
  bound_by t b = TR (Z.min (Z.max (t_s t) (t_s b)) (t_e b)) (Z.min (Z.max (t_e t) (t_s b)) (t_e b)).
Proof.
  unfold bound_by.
  destruct (Z.ltb_spec (t_s t) (t_s b)), (Z.ltb_spec (t_e t) (t_s b)); cbv zeta;
  match goal with |- TR (if ?c then _ else _) (if ?d then _ else _) = _ =>
    destruct c eqn:C; destruct d eqn:D end; zb; f_equal; lia.
Qed.

Lemma bound_by_spec t b :
  t_s b <= t_e b ->
  t_s b <= t_s (bound_by t b) /\ t_s (bound_by t b) <= t_e b /\
  t_s b <= t_e (bound_by t b) /\ t_e (bound_by t b) <= t_e b /\
  (t_s t <= t_e t -> t_s (bound_by t b) <= t_e (bound_by t b)).
Proof. intros H. rewrite bound_by_eq. simpl. repeat split; intros; lia. Qed.

(* bounding by a range that already contains the start / end leaves that end point alone *)
Lemma bound_by_start t b :
  t_s b <= t_s t <= t_e b -> t_s (bound_by t b) = t_s t.
Proof. intros H. rewrite bound_by_eq. simpl. lia. Qed.
Lemma bound_by_end t b :
  t_s b <= t_e t <= t_e b -> t_e (bound_by t b) = t_e t.
Proof. intros H. rewrite bound_by_eq. simpl. lia. Qed.

Lemma bound_by_inter t b :
  t_s t <= t_e t -> t_s b <= t_e b -> Z.max (t_s t) (t_s b) <= Z.min (t_e t) (t_e b) ->
  bound_by t b = TR (Z.max (t_s t) (t_s b)) (Z.min (t_e t) (t_e b)).
Proof. intros. rewrite bound_by_eq. f_equal; lia. Qed.

Lemma add_clamp_nonneg a b : 0 <= b -> a <= MAXTS -> a <= add_clamp a b <= MAXTS /\ (a + b <= MAXTS -> add_clamp a b = a + b).
Proof.
  intros. unfold add_clamp, MAXTS, MINI64 in *.
  destruct ((0 <? b) && (9223372036854775807 - b <? a)) eqn:E.
  - apply andb_true_iff in E. destruct E as [E1 E2]. zb. lia.
  - destruct ((b <? 0) && (a <? -9223372036854775808 - b)) eqn:E2.
    + apply andb_true_iff in E2. destruct E2 as [E3 _]. zb. lia.
    + apply andb_false_iff in E. destruct E; zb; lia.
Qed.

Lemma add_clamp_nonpos a b : b <= 0 -> MINI64 <= a -> MINI64 <= add_clamp a b <= a /\ (MINI64 <= a + b -> add_clamp a b = a + b).
Proof.
  intros. unfold add_clamp, MAXTS, MINI64 in *.
  destruct ((0 <? b) && (9223372036854775807 - b <? a)) eqn:E.
  - apply andb_true_iff in E. destruct E as [E1 E2]. zb. lia.
  - destruct ((b <? 0) && (a <? -9223372036854775808 - b)) eqn:E2.
    + apply andb_true_iff in E2. destruct E2 as [E3 E4]. zb. lia.
    + apply andb_false_iff in E2. destruct E2; zb; lia.
Qed.

Lemma span_range_fwd ts sp : 0 <= sp -> ts <= MAXTS ->
  t_s (span_range ts sp) = ts /\ ts <= t_e (span_range ts sp) <= MAXTS /\
  (ts + sp <= MAXTS -> t_e (span_range ts sp) = ts + sp).
Proof.
  intros H1 H2. destruct (add_clamp_nonneg ts sp H1 H2) as [[A B] C].
  unfold span_range. rewrite make_valid_valid by (simpl; lia). simpl. auto.
Qed.

Lemma span_range_bwd ts sp : 0 <= sp -> MINI64 <= ts ->
  t_e (span_range ts (-1 * sp)) = ts /\ MINI64 <= t_s (span_range ts (-1 * sp)) <= ts /\
  (MINI64 <= ts - sp -> t_s (span_range ts (-1 * sp)) = ts - sp).
Proof.
  intros H1 H2. destruct (add_clamp_nonpos ts (-1 * sp) ltac:(lia) H2) as [[A B] C].
  unfold span_range. remember (add_clamp ts (-1 * sp)) as c.
  unfold make_valid, tr_valid, tspan. cbn [t_s t_e].
  destruct (0 <=? c - ts) eqn:E; zb; cbn [t_s t_e].
  - assert (Hc : c = ts) by lia. rewrite Hc in *.
    split; [reflexivity|]. split; [lia|]. intros HH. specialize (C HH). lia.
  - split; [reflexivity|]. split; [lia|]. intros HH. specialize (C HH). lia.
Qed.

(* ---- list indexing ---- *)
Lemma znth_Some {A} (l : list A) i x : znth l i = Some x -> 0 <= i < zlen l.
Proof.
  unfold znth, zlen. destruct (i <? 0) eqn:E; [discriminate|]. zb. intros H.
  assert (Z.to_nat i < length l)%nat by (apply nth_error_Some; congruence). lia.
Qed.

Lemma znth_in_range {A} (l : list A) i : 0 <= i < zlen l -> exists x, znth l i = Some x.
Proof.
  unfold znth, zlen. intros H. destruct (i <? 0) eqn:E; zb; [lia|].
  destruct (nth_error l (Z.to_nat i)) eqn:N; [eauto|].
  apply nth_error_None in N. lia.
Qed.

Lemma znth_None {A} (l : list A) i : znth l i = None <-> (i < 0 \/ zlen l <= i).
Proof.
  unfold znth, zlen. destruct (i <? 0) eqn:E; zb.
  - split; auto.
  - rewrite nth_error_None. lia.
Qed.

Lemma zlen_nonneg {A} (l : list A) : 0 <= zlen l.
Proof. unfold zlen. lia. Qed.

Lemma znth_cons {A} (x : A) l i : 0 < i -> znth (x :: l) i = znth l (i - 1).
Proof.
  intros H. unfold znth. destruct (i <? 0) eqn:E, (i - 1 <? 0) eqn:E2; zb; try lia.
  replace (Z.to_nat i) with (S (Z.to_nat (i - 1))) by lia. reflexivity.
Qed.
Lemma znth_0 {A} (x : A) l : znth (x :: l) 0 = Some x.
Proof. reflexivity. Qed.

Lemma znth_app_l {A} (l1 l2 : list A) i : i < zlen l1 -> znth (l1 ++ l2) i = znth l1 i.
Proof.
  unfold znth, zlen. intros H. destruct (i <? 0) eqn:E; [reflexivity|]. zb.
  apply nth_error_app1. lia.
Qed.
Lemma znth_app_r {A} (l1 l2 : list A) i : zlen l1 <= i -> znth (l1 ++ l2) i = znth l2 (i - zlen l1).
Proof.
  unfold znth, zlen. intros H. destruct (i <? 0) eqn:E, (i - Z.of_nat (length l1) <? 0) eqn:E2; zb; try lia.
  rewrite nth_error_app2 by lia. f_equal. lia.
Qed.

Lemma list_eqb_refl {A} (eqb : A -> A -> bool) (l : list A) :
  (forall x, eqb x x = true) -> list_eqb eqb l l = true.
Proof. intros H. induction l; simpl; [reflexivity|]. rewrite H, IHl. reflexivity. Qed.
Lemma list_eqb_Z_eq (a b : list Z) : list_eqb Z.eqb a b = true <-> a = b.
Proof.
  revert b. induction a as [|x a IH]; destruct b as [|y b]; simpl; split; intros H; try discriminate; try reflexivity.
  - apply andb_true_iff in H. destruct H as [H1 H2]. apply Z.eqb_eq in H1. apply IH in H2. subst. reflexivity.
  - inversion H; subst. rewrite Z.eqb_refl. simpl. apply IH. reflexivity.
Qed.
