(* Proofs for Cesium/Serial.v: independent actions commute; hence every interleaving of
   threads whose cross-thread actions are independent equals their serial composition. *)
From stdpp Require Import gmap.
From Coq Require Import ZArith Lia Permutation.
From Synnax Require Import Common.Commute Cesium.Serial.
Local Open Scope Z_scope.

(* ---- actions as lists of single-key partial alterations ---- *)
Notation atom := (Z * (option content -> option content))%type.

Definition apply_atom (st : store) (a : atom) : store := partial_alter a.2 a.1 st.
Definition apply_atoms (st : store) (l : list atom) : store := fold_left apply_atom l st.

Definition h_create (o : option content) : option content :=
  match o with Some c => Some c | None => Some ∅ end.

Definition atoms (a : action) : list atom :=
  match a with
  | Write g stamps =>
      [(idx_key g, fmap (fun c => add_samples c (map (fun t => (t, t)) stamps)));
       (data_key g, fmap (fun c => add_samples c (map (fun t => (t, enc g t)) stamps)))]
  | Delete g a b idx =>
      (data_key g, fmap (del_range a b)) ::
      (if idx then [(idx_key g, fmap (del_range a b))] else [])
  | Create k => [(k, h_create)]
  | PWrite k stamps => [(k, fmap (fun c => add_samples c (map (fun t => (t, t)) stamps)))]
  | DelChan k => [(k, fun _ => None)]
  | PDelete k a b => [(k, fmap (del_range a b))]
  | WriteIdx g stamps => [(idx_key g, fmap (fun c => add_samples c (map (fun t => (t, t)) stamps)))]
  | WriteData g stamps => [(data_key g, fmap (fun c => add_samples c (map (fun t => (t, enc g t)) stamps)))]
  | DeleteIdx g a b => [(idx_key g, fmap (del_range a b))]
  | Noop => []
  end.

Lemma upd_alter (st : store) k f : upd st k f = partial_alter (fmap f) k st.
Proof.
  unfold upd. apply map_eq. intros i. destruct (decide (i = k)) as [->|Hne].
  - rewrite lookup_partial_alter. destruct (st !! k) as [c|] eqn:E.
    + rewrite lookup_insert. reflexivity.
    + rewrite E. reflexivity.
  - rewrite lookup_partial_alter_ne by congruence.
    destruct (st !! k); [rewrite lookup_insert_ne by congruence|]; reflexivity.
Qed.

Lemma step_atoms st a : step st a = apply_atoms st (atoms a).
Proof.
  destruct a as [g s|g a b idx|k|k s|k|k a b|g s|g s|g a b|]; simpl; unfold apply_atoms, apply_atom; simpl.
  - rewrite !upd_alter. reflexivity.
  - destruct idx; simpl; rewrite !upd_alter; reflexivity.
  - apply map_eq. intros i. destruct (decide (i = k)) as [->|Hne].
    + rewrite lookup_partial_alter. destruct (st !! k) as [c|] eqn:E; simpl.
      * assumption.
      * apply lookup_insert.
    + rewrite lookup_partial_alter_ne by congruence.
      destruct (st !! k); [|rewrite lookup_insert_ne by congruence]; reflexivity.
  - rewrite upd_alter. reflexivity.
  - apply map_eq. intros i. destruct (decide (i = k)) as [->|Hne].
    + rewrite lookup_partial_alter, lookup_delete. reflexivity.
    + rewrite lookup_partial_alter_ne, lookup_delete_ne by congruence. reflexivity.
  - rewrite upd_alter. reflexivity.
  - rewrite upd_alter. reflexivity.
  - rewrite upd_alter. reflexivity.
  - rewrite upd_alter. reflexivity.
  - reflexivity.
Qed.

Definition atom_commute (x y : atom) : Prop :=
  x.1 <> y.1 \/ (forall o, x.2 (y.2 o) = y.2 (x.2 o)).

Lemma apply_atom_commute st x y :
  atom_commute x y -> apply_atom (apply_atom st x) y = apply_atom (apply_atom st y) x.
Proof.
  destruct x as [k h], y as [k' h']. unfold atom_commute, apply_atom. simpl.
  intros [Hne|Hc].
  - apply partial_alter_commute. congruence.
  - destruct (decide (k = k')) as [->|Hne]; [|apply partial_alter_commute; congruence].
    rewrite <- !partial_alter_compose. apply partial_alter_ext. intros o _. simpl. symmetry. apply Hc.
Qed.

Lemma apply_atoms_commute1 x l : forall st,
  Forall (atom_commute x) l ->
  apply_atoms (apply_atom st x) l = apply_atom (apply_atoms st l) x.
Proof.
  induction l as [|y l IH]; intros st Hall; simpl.
  - reflexivity.
  - inversion Hall as [|? ? Hy Hl]; subst. unfold apply_atoms in *. simpl.
    rewrite (apply_atom_commute st x y Hy). apply IH. assumption.
Qed.

Lemma apply_atoms_commute l1 : forall l2 st,
  Forall (fun x => Forall (atom_commute x) l2) l1 ->
  apply_atoms (apply_atoms st l1) l2 = apply_atoms (apply_atoms st l2) l1.
Proof.
  induction l1 as [|x l1 IH]; intros l2 st Hall.
  - reflexivity.
  - inversion Hall as [|? ? Hx Hl]; subst.
    change (apply_atoms st (x :: l1)) with (apply_atoms (apply_atom st x) l1).
    rewrite IH by assumption. rewrite (apply_atoms_commute1 x l2 st Hx). reflexivity.
Qed.

(* ---- content-level commutation facts ---- *)
Lemma list_to_map_keys_disjoint (l1 l2 : list (Z * Z)) :
  (forall k, In k (map fst l1) -> In k (map fst l2) -> False) ->
  (list_to_map l1 : content) ##ₘ list_to_map l2.
Proof.
  intros H. apply map_disjoint_spec. intros k v1 v2 H1 H2.
  apply elem_of_list_to_map_2 in H1, H2.
  apply elem_of_list_In in H1, H2.
  apply (H k); [apply (in_map fst _ _ H1)|apply (in_map fst _ _ H2)].
Qed.

Lemma add_samples_comm (c : content) l1 l2 :
  (forall k, In k (map fst l1) -> In k (map fst l2) -> False) ->
  add_samples (add_samples c l1) l2 = add_samples (add_samples c l2) l1.
Proof.
  intros H. unfold add_samples. rewrite !map_union_assoc. f_equal.
  apply map_union_comm. apply list_to_map_keys_disjoint. intros k H2 H1. eauto.
Qed.

Lemma del_range_add_samples a b (c : content) l :
  (forall k, In k (map fst l) -> negb ((a <=? k) && (k <? b)) = true) ->
  del_range a b (add_samples c l) = add_samples (del_range a b c) l.
Proof.
  intros H. unfold del_range, add_samples. apply map_eq. intros k.
  rewrite map_filter_lookup, !lookup_union, map_filter_lookup.
  destruct (list_to_map l !! k) as [v|] eqn:El.
  - assert (Hk : negb ((a <=? k) && (k <? b)) = true).
    { apply H. apply elem_of_list_to_map_2 in El. apply elem_of_list_In in El.
      apply (in_map fst _ _ El). }
    destruct (c !! k) as [w|]; simpl; repeat case_option_guard; simpl in *;
      try reflexivity; try congruence.
  - destruct (c !! k) as [w|]; simpl; repeat case_option_guard; simpl in *;
      try reflexivity; try congruence.
Qed.

Lemma del_range_comm a b a' b' (c : content) :
  del_range a b (del_range a' b' c) = del_range a' b' (del_range a b c).
Proof.
  unfold del_range. rewrite !map_filter_filter. apply map_filter_ext. intros k v _. tauto.
Qed.

Lemma disjointb_spec l1 l2 : disjointb l1 l2 = true -> forall k, In k l1 -> In k l2 -> False.
Proof.
  unfold disjointb. rewrite forallb_forall. intros H k H1 H2.
  specialize (H k H1). apply negb_true_iff in H.
  assert (existsb (Z.eqb k) l2 = true); [|congruence].
  apply existsb_exists. exists k. split; [assumption|apply Z.eqb_refl].
Qed.

Lemma outside_spec a b s : outside a b s = true ->
  forall k, In k s -> negb ((a <=? k) && (k <? b)) = true.
Proof. unfold outside. rewrite forallb_forall. auto. Qed.

Lemma map_fst_pairs {B} (f : Z -> B) (s : list Z) : map fst (map (fun t => (t, f t)) s) = s.
Proof. induction s; simpl; congruence. Qed.

Lemma idx_data_ne g : idx_key g <> data_key g.
Proof. unfold idx_key, data_key. lia. Qed.

Lemma fmap_commute (f g : content -> content) :
  (forall c, f (g c) = g (f c)) -> forall o : option content, fmap f (fmap g o) = fmap g (fmap f o).
Proof. intros H [c|]; simpl; [rewrite H|]; reflexivity. Qed.

(* disjoint channel sets: every pair of atoms is on different keys *)
Lemma atoms_keys a : forall x, In x (atoms a) -> In x.1 (chans a).
Proof.
  destruct a as [g s|g a b idx|k|k s|k|k a b|g s|g s|g a b|]; simpl; intros x Hx.
  - destruct Hx as [<-|[<-|[]]]; simpl; auto.
  - destruct idx; simpl in Hx.
    + destruct Hx as [<-|[<-|[]]]; simpl; auto.
    + destruct Hx as [<-|[]]; simpl; auto.
  - destruct Hx as [<-|[]]; simpl; auto.
  - destruct Hx as [<-|[]]; simpl; auto.
  - destruct Hx as [<-|[]]; simpl; auto.
  - destruct Hx as [<-|[]]; simpl; auto.
  - destruct Hx as [<-|[]]; simpl; auto.
  - destruct Hx as [<-|[]]; simpl; auto.
  - destruct Hx as [<-|[]]; simpl; auto.
  - contradiction.
Qed.

Ltac fa := repeat match goal with |- Forall _ _ => constructor end.

Lemma independent_atoms x y :
  independent x y = true ->
  Forall (fun ax => Forall (atom_commute ax) (atoms y)) (atoms x).
Proof.
  unfold independent. intros H. apply orb_true_iff in H. destruct H as [Hd|H].
  { pose proof (disjointb_spec _ _ Hd) as Hk.
    apply Forall_forall. intros ax Hax. apply Forall_forall. intros ay Hay. left.
    apply elem_of_list_In in Hax, Hay.
    intros Heq. apply (Hk ax.1); [apply atoms_keys; assumption|].
    rewrite Heq. apply atoms_keys; assumption. }
  destruct x as [g s|g a b idx|k|k s|k|k a b|g s|g s|g a b|], y as [g' s'|g' a' b' idx'|k'|k' s'|k'|k' a' b'|g' s'|g' s'|g' a' b'|];
    try discriminate; try (simpl; fa; fail).
  - (* Write / Write, same group, disjoint stamps *)
    apply andb_true_iff in H. destruct H as [Hg Hs]. apply Z.eqb_eq in Hg. subst g'.
    pose proof (disjointb_spec _ _ Hs) as Hds.
    simpl. fa.
    + right. simpl. apply fmap_commute. intros c. apply add_samples_comm.
      intros k. rewrite !map_fst_pairs. intros H2 H1. eauto.
    + left. simpl. apply idx_data_ne.
    + left. simpl. apply not_eq_sym, idx_data_ne.
    + right. simpl. apply fmap_commute. intros c. apply add_samples_comm.
      intros k. rewrite !map_fst_pairs. intros H2 H1. eauto.
  - (* Write / Delete *)
    apply andb_true_iff in H. destruct H as [Hg Ho]. apply Z.eqb_eq in Hg. subst g'.
    pose proof (outside_spec _ _ _ Ho) as Hout.
    assert (Hi : forall o : option content,
      fmap (fun c => add_samples c (map (fun t => (t, t)) s)) (fmap (del_range a' b') o) =
      fmap (del_range a' b') (fmap (fun c => add_samples c (map (fun t => (t, t)) s)) o)).
    { apply fmap_commute. intros c. symmetry. apply del_range_add_samples.
      intros k. rewrite map_fst_pairs. apply Hout. }
    assert (Hd : forall o : option content,
      fmap (fun c => add_samples c (map (fun t => (t, enc g t)) s)) (fmap (del_range a' b') o) =
      fmap (del_range a' b') (fmap (fun c => add_samples c (map (fun t => (t, enc g t)) s)) o)).
    { apply fmap_commute. intros c. symmetry. apply del_range_add_samples.
      intros k. rewrite map_fst_pairs. apply Hout. }
    destruct idx'; simpl; fa;
      try (left; simpl; first [apply idx_data_ne|apply not_eq_sym, idx_data_ne]);
      try (right; simpl; assumption).
  - (* Delete / Write *)
    apply andb_true_iff in H. destruct H as [Hg Ho]. apply Z.eqb_eq in Hg. subst g'.
    pose proof (outside_spec _ _ _ Ho) as Hout.
    assert (Hi : forall o : option content,
      fmap (del_range a b) (fmap (fun c => add_samples c (map (fun t => (t, t)) s')) o) =
      fmap (fun c => add_samples c (map (fun t => (t, t)) s')) (fmap (del_range a b) o)).
    { apply fmap_commute. intros c. apply del_range_add_samples.
      intros k. rewrite map_fst_pairs. apply Hout. }
    assert (Hd : forall o : option content,
      fmap (del_range a b) (fmap (fun c => add_samples c (map (fun t => (t, enc g t)) s')) o) =
      fmap (fun c => add_samples c (map (fun t => (t, enc g t)) s')) (fmap (del_range a b) o)).
    { apply fmap_commute. intros c. apply del_range_add_samples.
      intros k. rewrite map_fst_pairs. apply Hout. }
    destruct idx; simpl; fa;
      try (left; simpl; first [apply idx_data_ne|apply not_eq_sym, idx_data_ne]);
      try (right; simpl; assumption).
  - (* Delete / Delete *)
    apply Z.eqb_eq in H. subst g'.
    assert (Hc : forall o : option content,
      fmap (del_range a b) (fmap (del_range a' b') o) = fmap (del_range a' b') (fmap (del_range a b) o)).
    { apply fmap_commute. intros c. apply del_range_comm. }
    destruct idx, idx'; simpl; fa;
      try (left; simpl; first [apply idx_data_ne|apply not_eq_sym, idx_data_ne]);
      try (right; simpl; assumption).
  - (* Delete / Noop *) destruct idx; simpl; fa.
  - (* PWrite / PWrite *)
    apply andb_true_iff in H. destruct H as [Hk Hs]. apply Z.eqb_eq in Hk. subst k'.
    pose proof (disjointb_spec _ _ Hs) as Hds.
    simpl. fa. right. simpl. apply fmap_commute. intros c. apply add_samples_comm.
    intros t. rewrite !map_fst_pairs. intros H2 H1. eauto.
  - (* PWrite / PDelete *)
    apply andb_true_iff in H. destruct H as [Hk Ho]. apply Z.eqb_eq in Hk. subst k'.
    pose proof (outside_spec _ _ _ Ho) as Hout.
    simpl. fa. right. simpl. apply fmap_commute. intros c. symmetry. apply del_range_add_samples.
    intros t. rewrite map_fst_pairs. apply Hout.
  - (* PDelete / PWrite *)
    apply andb_true_iff in H. destruct H as [Hk Ho]. apply Z.eqb_eq in Hk. subst k'.
    pose proof (outside_spec _ _ _ Ho) as Hout.
    simpl. fa. right. simpl. apply fmap_commute. intros c. apply del_range_add_samples.
    intros t. rewrite map_fst_pairs. apply Hout.
  - (* PDelete / PDelete *)
    apply Z.eqb_eq in H. subst k'.
    simpl. fa. right. simpl. apply fmap_commute. intros c. apply del_range_comm.
Qed.

Lemma step_commute x y st :
  independent x y = true -> step (step st x) y = step (step st y) x.
Proof.
  intros H. rewrite !step_atoms. apply apply_atoms_commute. apply independent_atoms. assumption.
Qed.

(* step as a function with (trivial) output, to instantiate Common.Commute *)
Definition ostep (st : store) (a : action) : store * unit := (step st a, tt).

Lemma ostep_commute x y : independent x y = true -> commute ostep x y.
Proof.
  intros H st. unfold ostep. simpl. split; [apply step_commute; assumption|auto].
Qed.

Lemma orun_run st l : fst (Commute.run ostep st l) = run st l.
Proof.
  revert st; induction l as [|a l IH]; intros st; simpl.
  - reflexivity.
  - specialize (IH (step st a)). destruct (Commute.run ostep (step st a) l). simpl in *. assumption.
Qed.

Lemma cross_independent_spec ts :
  cross_independent ts = true -> cross_commute ostep ts.
Proof.
  unfold cross_independent. rewrite forallb_forall. intros H i j ti tj a b Hne Hi Hj Ha Hb.
  apply ostep_commute.
  assert (Hin : In (i, j) (list_prod (seq 0 (length ts)) (seq 0 (length ts)))).
  { apply in_prod; apply in_seq; split; try lia; simpl.
    - apply nth_error_Some. congruence.
    - apply nth_error_Some. congruence. }
  specialize (H _ Hin). simpl in H. apply orb_true_iff in H. destruct H as [H|H].
  - apply Nat.eqb_eq in H. contradiction.
  - rewrite forallb_forall in H.
    rewrite (nth_error_nth _ _ _ Hi) in H. specialize (H a Ha).
    rewrite forallb_forall in H. rewrite (nth_error_nth _ _ _ Hj) in H. apply H. assumption.
Qed.

(* C09 (logical core): every interleaving of threads whose cross-thread actions are
   independent leaves exactly the content of running the threads one after another. *)
Theorem serialisable ts l st :
  interleave_all ts l -> cross_independent ts = true ->
  run st l = run st (concat ts).
Proof.
  intros Hil Hci.
  destruct (interleave_all_serial ostep ts l Hil (cross_independent_spec ts Hci) st) as (Hs & _).
  rewrite !orun_run in Hs. assumption.
Qed.

