(* Cesium/DomIterProofs.v — the domain index search (unprotectedSearch) and the domain
   iterator on a sorted, non-overlapping list of non-empty domains. *)
From Coq Require Import ZArith List Bool Lia Sorting.Sorted.
From Synnax Require Import Cesium.Store Cesium.StoreProofs.
Import ListNotations.
Local Open Scope Z_scope.

(* ---- layouts ---- *)
Definition dwf (d : dom) : Prop := t_s (d_tr d) < t_e (d_tr d).
Definition dbefore (a b : dom) : Prop := t_e (d_tr a) <= t_s (d_tr b).
Definition lay (L : list dom) : Prop := Forall dwf L /\ StronglySorted dbefore L.

Lemma lay_nth_wf L : lay L -> forall i d, znth L i = Some d -> dwf d.
Proof.
  intros [W _] i d H. rewrite Forall_forall in W. apply W.
  unfold znth in H. destruct (i <? 0); [discriminate|]. eapply nth_error_In; eauto.
Qed.

Lemma sorted_nth L : StronglySorted dbefore L ->
  forall i j a b, znth L i = Some a -> znth L j = Some b -> i < j -> dbefore a b.
Proof.
  induction 1 as [|x L S IH F]; intros i j a b Hi Hj Hij.
  - unfold znth in Hi. destruct (i <? 0); [discriminate|]. destruct (Z.to_nat i); discriminate.
  - pose proof (znth_Some _ _ _ Hi) as Ri. pose proof (znth_Some _ _ _ Hj) as Rj.
    destruct (Z.eq_dec i 0) as [->|Ni].
    + rewrite znth_0 in Hi. inversion Hi; subst. rewrite znth_cons in Hj by lia.
      rewrite Forall_forall in F. apply F.
      unfold znth in Hj. destruct (j - 1 <? 0); [discriminate|]. eapply nth_error_In; eauto.
    + rewrite znth_cons in Hi by lia. rewrite znth_cons in Hj by lia.
      eapply IH; eauto. lia.
Qed.

Lemma lay_nth L : lay L -> forall i j a b, znth L i = Some a -> znth L j = Some b -> i < j ->
  t_s (d_tr a) < t_e (d_tr a) /\ t_e (d_tr a) <= t_s (d_tr b) /\ t_s (d_tr b) < t_e (d_tr b).
Proof.
  intros HL i j a b Hi Hj Hij. pose proof (lay_nth_wf L HL _ _ Hi). pose proof (lay_nth_wf L HL _ _ Hj).
  destruct HL as [_ S]. pose proof (sorted_nth L S _ _ _ _ Hi Hj Hij). unfold dwf, dbefore in *. lia.
Qed.

Lemma lay_tail d L : lay (d :: L) -> lay L.
Proof. intros [W S]. inversion W; inversion S; subst. split; assumption. Qed.

(* ---- counting a prefix ---- *)
Lemma count_char {A} (f : A -> bool) (l : list A) k :
  0 <= k <= zlen l ->
  (forall j x, znth l j = Some x -> j < k -> f x = true) ->
  (forall j x, znth l j = Some x -> k <= j -> f x = false) ->
  zlen (filter f l) = k.
Proof.
  revert k. induction l as [|a l IH]; intros k Hk Hlo Hhi.
  - unfold zlen in *. simpl in *. lia.
  - simpl. destruct (Z.eq_dec k 0) as [->|Nk].
    + rewrite (Hhi 0 a) by (reflexivity || lia).
      apply IH.
      * unfold zlen in *. simpl in Hk. lia.
      * intros j x Hj Hjk. pose proof (znth_Some _ _ _ Hj). lia.
      * intros j x Hj Hjk. apply (Hhi (j + 1) x); [|lia]. rewrite znth_cons by (pose proof (znth_Some _ _ _ Hj); lia).
        replace (j + 1 - 1) with j by lia. exact Hj.
    + rewrite (Hlo 0 a) by (reflexivity || lia).
      unfold zlen in *. simpl length. rewrite Nat2Z.inj_succ.
      rewrite (IH (k - 1)); [lia| simpl in Hk; lia | |].
      * intros j x Hj Hjk. apply (Hlo (j + 1) x); [|lia]. rewrite znth_cons by (pose proof (znth_Some _ _ _ Hj); lia).
        replace (j + 1 - 1) with j by lia. exact Hj.
      * intros j x Hj Hjk. apply (Hhi (j + 1) x); [|lia]. rewrite znth_cons by (pose proof (znth_Some _ _ _ Hj); lia).
        replace (j + 1 - 1) with j by lia. exact Hj.
Qed.

(* number of domains that end at or before ts *)
Definition dcnt (ts : Z) (L : list dom) : Z := zlen (filter (fun d => t_e (d_tr d) <=? ts) L).

Lemma dcnt_range ts L : 0 <= dcnt ts L <= zlen L.
Proof.
  unfold dcnt, zlen.
  assert (forall (f : dom -> bool), (length (filter f L) <= length L)%nat).
  { intros f. induction L; simpl; [lia|]. destruct (f a); simpl; lia. }
  specialize (H (fun d => t_e (d_tr d) <=? ts)). lia.
Qed.

(* on a layout the domains ending at or before ts are exactly the first dcnt ts L ones *)
Lemma lay_dcnt L ts : lay L -> forall j d, znth L j = Some d -> (t_e (d_tr d) <= ts <-> j < dcnt ts L).
Proof.
  intros HL j d Hj.
  (* k := number of leading domains ending <= ts, characterised through count_char on the
     position of the first domain ending after ts *)
  assert (EX : exists k, 0 <= k <= zlen L /\
      (forall j x, znth L j = Some x -> j < k -> t_e (d_tr x) <= ts) /\
      (forall j x, znth L j = Some x -> k <= j -> ts < t_e (d_tr x))).
  { clear j d Hj. induction L as [|a L IH].
    - exists 0. unfold zlen. simpl. split; [lia|]. split; intros j x H; unfold znth in H;
        destruct (j <? 0); try discriminate; destruct (Z.to_nat j); discriminate.
    - destruct (Z_le_gt_dec (t_e (d_tr a)) ts) as [Ha|Ha].
      + destruct (IH (lay_tail _ _ HL)) as (k & Rk & Lo & Hi).
        exists (k + 1). unfold zlen in *. simpl length. rewrite Nat2Z.inj_succ. split; [lia|]. split.
        * intros j x Hj Hjk. destruct (Z.eq_dec j 0) as [->|N]; [rewrite znth_0 in Hj; inversion Hj; subst; lia|].
          pose proof (znth_Some _ _ _ Hj). rewrite znth_cons in Hj by lia. apply (Lo (j - 1) x Hj). lia.
        * intros j x Hj Hjk. pose proof (znth_Some _ _ _ Hj). rewrite znth_cons in Hj by lia. apply (Hi (j - 1) x Hj). lia.
      + exists 0. split; [pose proof (zlen_nonneg (a :: L)); lia|]. split.
        * intros j x Hj Hjk. pose proof (znth_Some _ _ _ Hj). lia.
        * intros j x Hj _. destruct (Z.eq_dec j 0) as [->|N]; [rewrite znth_0 in Hj; inversion Hj; subst; lia|].
          pose proof (znth_Some _ _ _ Hj).
          destruct (lay_nth _ HL 0 j a x (znth_0 _ _) Hj ltac:(lia)) as (A & B & C). lia. }
  destruct EX as (k & Rk & Lo & Hi).
  assert (K : dcnt ts L = k).
  { unfold dcnt. apply count_char; [exact Rk| |].
    - intros j' x Hj' Hlt. apply Z.leb_le. eapply Lo; eauto.
    - intros j' x Hj' Hge. apply Z.leb_gt. eapply Hi; eauto. }
  rewrite K. split; intros H.
  - destruct (Z_lt_ge_dec j k); [assumption|]. pose proof (Hi j d Hj ltac:(lia)). lia.
  - eapply Lo; eauto.
Qed.

(* a domain containing ts sits at position dcnt ts L *)
Lemma lay_contains_at L ts j d : lay L -> znth L j = Some d -> contains_stamp (d_tr d) ts = true ->
  j = dcnt ts L.
Proof.
  intros HL Hj C. unfold contains_stamp in C. apply andb_true_iff in C. destruct C as [C1 C2]. zb.
  pose proof (dcnt_range ts L) as R. pose proof (znth_Some _ _ _ Hj) as Rj.
  pose proof (lay_dcnt L ts HL j d Hj) as A.
  destruct (Z.lt_trichotomy j (dcnt ts L)) as [H|[H|H]]; [apply A in H; lia|exact H|].
  destruct (znth_in_range L (dcnt ts L)) as [x Hx]; [lia|].
  pose proof (lay_dcnt L ts HL _ x Hx) as B.
  destruct (lay_nth _ HL _ _ _ _ Hx Hj H) as (X1 & X2 & X3).
  assert (t_e (d_tr x) <= ts) by lia. apply B in H0. lia.
Qed.

(* ---- unprotectedSearch on a point ---- *)
Definition point_result (ts : Z) (L : list dom) : Z * bool :=
  let k := dcnt ts L in
  match znth L k with
  | Some d => if contains_stamp (d_tr d) ts then (k, true) else (k - 1, false)
  | None => (k - 1, false)
  end.

Lemma usearch_go_point L ts : lay L -> forall fuel lo hi,
  0 <= lo -> hi < zlen L -> lo <= hi + 1 ->
  (forall j d, znth L j = Some d -> j < lo -> t_e (d_tr d) <= ts) ->
  (forall j d, znth L j = Some d -> hi < j -> ts < t_s (d_tr d)) ->
  hi - lo + 1 < Z.of_nat fuel ->
  usearch_go fuel L (TR ts ts) lo hi = point_result ts L.
Proof.
  intros HL. induction fuel as [|f IH]; intros lo hi Hlo Hhi Hle Hbelow Habove Hfuel; [lia|].
  cbn [usearch_go]. destruct (lo <=? hi) eqn:E; zb.
  - set (mid := (lo + hi) / 2).
    assert (Hmid : lo <= mid <= hi) by (unfold mid; split; [apply Z.div_le_lower_bound|apply Z.div_le_upper_bound]; lia).
    destruct (znth_in_range L mid) as [p Hp]; [lia|]. rewrite Hp.
    pose proof (lay_nth_wf L HL _ _ Hp) as Wp. unfold dwf in Wp.
    rewrite (overlaps_point (d_tr p) ts Wp).
    destruct (contains_stamp (d_tr p) ts) eqn:C.
    + unfold point_result. rewrite <- (lay_contains_at L ts mid p HL Hp C). rewrite Hp, C. reflexivity.
    + cbn [t_s]. unfold contains_stamp in C.
      destruct (ts <? t_s (d_tr p)) eqn:Elt; zb.
      * apply IH; try lia; [exact Hbelow|].
        intros j d Hj Hjl. destruct (Z.eq_dec j mid) as [->|N]; [assert (d = p) by congruence; subst; lia|].
        destruct (Z_lt_ge_dec hi j); [eapply Habove; eauto|].
        destruct (lay_nth _ HL mid j p d Hp Hj ltac:(lia)) as (X1 & X2 & X3). lia.
      * assert (t_e (d_tr p) <= ts).
        { apply andb_false_iff in C. destruct C; zb; lia. }
        apply IH; try lia; [|exact Habove].
        intros j d Hj Hjl. destruct (Z.eq_dec j mid) as [->|N]; [assert (d = p) by congruence; subst; lia|].
        destruct (Z_lt_ge_dec j lo); [eapply Hbelow; eauto|].
        destruct (lay_nth _ HL j mid d p Hj Hp ltac:(lia)) as (X1 & X2 & X3). lia.
  - assert (lo = hi + 1) by lia. subst lo.
    assert (K : dcnt ts L = hi + 1).
    { unfold dcnt. apply count_char; [pose proof (zlen_nonneg L); lia| |].
      - intros j d Hj Hjk. apply Z.leb_le. eapply Hbelow; eauto.
      - intros j d Hj Hjk. apply Z.leb_gt. pose proof (Habove j d Hj ltac:(lia)).
        pose proof (lay_nth_wf L HL _ _ Hj). unfold dwf in *. lia. }
    unfold point_result. rewrite K.
    destruct (znth L (hi + 1)) as [d|] eqn:Hd.
    + pose proof (Habove _ _ Hd ltac:(lia)).
      assert (C : contains_stamp (d_tr d) ts = false).
      { unfold contains_stamp. apply andb_false_iff. left. apply Z.leb_gt. lia. }
      rewrite C. f_equal. lia.
    + f_equal. lia.
Qed.

Theorem usearch_point L ts : lay L -> usearch L (TR ts ts) = point_result ts L.
Proof.
  intros HL. unfold usearch. destruct L as [|a L'] eqn:EL.
  - unfold point_result, dcnt, zlen. simpl. reflexivity.
  - rewrite <- EL in *. pose proof (zlen_nonneg L) as Z0. apply usearch_go_point.
    + assumption.
    + lia.
    + lia.
    + lia.
    + intros j d Hj Hlt. pose proof (znth_Some _ _ _ Hj). lia.
    + intros j d Hj Hlt. pose proof (znth_Some _ _ _ Hj). lia.
    + unfold zlen. lia.
Qed.

(* ---- searchGE / searchLE ---- *)
Lemma search_ge_spec L ts : lay L -> search_ge L ts = dcnt ts L.
Proof.
  intros HL. unfold search_ge. rewrite point_eq, (usearch_point L ts HL). unfold point_result.
  pose proof (dcnt_range ts L) as R.
  destruct (znth L (dcnt ts L)) as [d|] eqn:Hd.
  - destruct (contains_stamp (d_tr d) ts); [reflexivity|].
    destruct (dcnt ts L - 1 =? zlen L) eqn:E; zb; lia.
  - destruct (dcnt ts L - 1 =? zlen L) eqn:E; zb; lia.
Qed.

Lemma search_le_spec L ts : lay L ->
  search_le L ts = match znth L (dcnt ts L) with
                   | Some d => if contains_stamp (d_tr d) ts then dcnt ts L else dcnt ts L - 1
                   | None => dcnt ts L - 1
                   end.
Proof.
  intros HL. unfold search_le. rewrite point_eq, (usearch_point L ts HL). unfold point_result.
  destruct (znth L (dcnt ts L)) as [d|]; [destruct (contains_stamp (d_tr d) ts)|]; reflexivity.
Qed.

(* ---- the iterator positioned on a domain ---- *)
Definition at_pos (L : list dom) (it : diter) (j : Z) (d : dom) : Prop :=
  di_pos it = j /\ di_cur it = d /\ znth L j = Some d /\ di_valid it = true.

Lemma reload_spec L it : di_valid it = true -> di_pos it <> -1 ->
  match znth L (di_pos it) with
  | Some p => if overlaps (d_tr p) (di_b it)
              then di_reload L it = (DI (di_b it) (di_pos it) p true, true)
              else di_reload L it = (DI (di_b it) (di_pos it) (di_cur it) false, false)
  | None => di_reload L it = (DI (di_b it) (di_pos it) (di_cur it) false, false)
  end.
Proof.
  intros V N. unfold di_reload. destruct (di_pos it =? -1) eqn:E; zb; [contradiction|].
  destruct (znth L (di_pos it)) as [p|]; [|reflexivity].
  destruct (overlaps (d_tr p) (di_b it)); [rewrite V|]; reflexivity.
Qed.

Lemma seek_ge_spec L it ts : lay L ->
  let k := dcnt ts L in
  match znth L k with
  | Some p => if overlaps (d_tr p) (di_b it)
              then di_seek_ge L it ts = (DI (di_b it) k p true, true)
              else snd (di_seek_ge L it ts) = false
  | None => snd (di_seek_ge L it ts) = false
  end.
Proof.
  intros HL k. unfold di_seek_ge. rewrite (search_ge_spec L ts HL). fold k.
  pose proof (dcnt_range ts L) as R. fold k in R.
  pose proof (reload_spec L (DI (di_b it) k (di_cur it) true) eq_refl) as RS. cbn [di_pos di_b di_cur] in RS.
  specialize (RS ltac:(lia)).
  destruct (znth L k) as [p|]; [destruct (overlaps (d_tr p) (di_b it))|]; rewrite RS; reflexivity.
Qed.

Lemma seek_le_spec L it ts : lay L ->
  let k := dcnt ts L in
  let j := match znth L k with
           | Some d => if contains_stamp (d_tr d) ts then k else k - 1
           | None => k - 1 end in
  match znth L j with
  | Some p => if overlaps (d_tr p) (di_b it)
              then di_seek_le L it ts = (DI (di_b it) j p true, true)
              else snd (di_seek_le L it ts) = false
  | None => snd (di_seek_le L it ts) = false
  end.
Proof.
  intros HL k j. unfold di_seek_le. rewrite (search_le_spec L ts HL). fold k. fold j.
  destruct (Z.eq_dec j (-1)) as [E|N].
  - rewrite E. unfold di_reload. cbn [di_pos]. rewrite Z.eqb_refl.
    replace (znth L (-1)) with (@None dom) by reflexivity. reflexivity.
  - pose proof (reload_spec L (DI (di_b it) j (di_cur it) true) eq_refl) as RS. cbn [di_pos di_b di_cur] in RS.
    specialize (RS N).
    destruct (znth L j) as [p|]; [destruct (overlaps (d_tr p) (di_b it))|]; rewrite RS; reflexivity.
Qed.

Lemma next_spec L it j d : at_pos L it j d ->
  match znth L (j + 1) with
  | Some p => if overlaps (d_tr p) (di_b it)
              then di_next L it = (DI (di_b it) (j + 1) p true, true)
              else di_next L it = (DI (di_b it) j d false, false)
  | None => di_next L it = (DI (di_b it) j d false, false)
  end.
Proof.
  intros (Hp & Hc & Hn & Hv). destruct it as [b pos cur valid]. cbn [di_pos di_cur di_valid di_b] in *. subst.
  unfold di_next. cbn [di_valid negb di_b di_pos di_cur].
  pose proof (znth_Some _ _ _ Hn) as R.
  pose proof (reload_spec L (DI b (j + 1) d true) eq_refl) as RS.
  cbn [di_pos di_b di_cur di_valid] in RS. specialize (RS ltac:(lia)).
  destruct (znth L (j + 1)) as [p|].
  - destruct (overlaps (d_tr p) b); rewrite RS; cbn [di_b di_pos di_cur di_valid]; [reflexivity|].
    f_equal. f_equal. lia.
  - rewrite RS. cbn [di_b di_pos di_cur di_valid]. f_equal. f_equal. lia.
Qed.

Lemma prev_spec L it j d : at_pos L it j d ->
  if j =? 0 then di_prev L it = (DI (di_b it) 0 d false, false) else
  match znth L (j - 1) with
  | Some p => if overlaps (d_tr p) (di_b it)
              then di_prev L it = (DI (di_b it) (j - 1) p true, true)
              else di_prev L it = (DI (di_b it) (j - 1) d false, false)
  | None => di_prev L it = (DI (di_b it) (j - 1) d false, false)
  end.
Proof.
  intros (Hp & Hc & Hn & Hv). destruct it as [b pos cur valid]. cbn [di_pos di_cur di_valid di_b] in *. subst.
  unfold di_prev. cbn [di_valid negb di_b di_pos di_cur].
  pose proof (znth_Some _ _ _ Hn) as R.
  destruct (j =? 0) eqn:E; zb.
  - subst j. reflexivity.
  - pose proof (reload_spec L (DI b (j - 1) d true) eq_refl) as RS.
    cbn [di_pos di_b di_cur di_valid] in RS. specialize (RS ltac:(lia)).
    destruct (znth L (j - 1)) as [p|]; [destruct (overlaps (d_tr p) b)|]; rewrite RS; reflexivity.
Qed.

(* position chosen by searchLE: the last domain that starts at or before ts *)
Definition le_pos (ts : Z) (L : list dom) : Z :=
  let k := dcnt ts L in
  match znth L k with
  | Some d => if contains_stamp (d_tr d) ts then k else k - 1
  | None => k - 1
  end.

Lemma le_pos_spec L ts : lay L ->
  -1 <= le_pos ts L < zlen L /\
  (forall m d, znth L m = Some d -> m <= le_pos ts L -> t_s (d_tr d) <= ts) /\
  (forall m d, znth L m = Some d -> le_pos ts L < m -> ts < t_s (d_tr d)).
Proof.
  intros HL. unfold le_pos. set (k := dcnt ts L). pose proof (dcnt_range ts L) as R. fold k in R.
  assert (BEFORE : forall m d, znth L m = Some d -> m < k -> t_s (d_tr d) <= ts).
  { intros m d Hm Hlt. apply (lay_dcnt L ts HL m d Hm) in Hlt. pose proof (lay_nth_wf L HL _ _ Hm) as W. unfold dwf in W. lia. }
  assert (AFTERK : forall m d, znth L m = Some d -> k <= m -> ts < t_e (d_tr d)).
  { intros m d Hm Hge. destruct (Z_lt_ge_dec ts (t_e (d_tr d))); [assumption|].
    assert (m < k) by (apply (lay_dcnt L ts HL m d Hm); lia). lia. }
  destruct (znth L k) as [p|] eqn:Hk.
  - pose proof (znth_Some _ _ _ Hk) as Rk.
    destruct (contains_stamp (d_tr p) ts) eqn:C.
    + unfold contains_stamp in C. apply andb_true_iff in C. destruct C as [C1 C2]. zb.
      split; [lia|]. split.
      * intros m d Hm Hle. destruct (Z.eq_dec m k) as [->|N]; [assert (d = p) by congruence; subst; lia|].
        apply (BEFORE m d Hm). lia.
      * intros m d Hm Hlt. destruct (lay_nth L HL k m p d Hk Hm Hlt) as (A & B & C). lia.
    + split; [lia|]. split.
      * intros m d Hm Hle. apply (BEFORE m d Hm). lia.
      * intros m d Hm Hlt. pose proof (AFTERK k p Hk ltac:(lia)) as Pe.
        assert (Ps : ts < t_s (d_tr p)).
        { unfold contains_stamp in C. apply andb_false_iff in C. destruct C; zb; lia. }
        destruct (Z.eq_dec m k) as [->|N]; [assert (d = p) by congruence; subst; lia|].
        destruct (lay_nth L HL k m p d Hk Hm ltac:(lia)) as (A & B & C'). lia.
  - apply znth_None in Hk. split; [lia|]. split.
    + intros m d Hm Hle. apply (BEFORE m d Hm). lia.
    + intros m d Hm Hlt. pose proof (znth_Some _ _ _ Hm). lia.
Qed.

Lemma seek_le_spec' L it ts : lay L ->
  match znth L (le_pos ts L) with
  | Some p => if overlaps (d_tr p) (di_b it)
              then di_seek_le L it ts = (DI (di_b it) (le_pos ts L) p true, true)
              else snd (di_seek_le L it ts) = false
  | None => snd (di_seek_le L it ts) = false
  end.
Proof. intros HL. exact (seek_le_spec L it ts HL). Qed.

(* ---- the iterator bounds are only changed by SetBounds ---- *)
Lemma reload_b L it : di_b (fst (di_reload L it)) = di_b it.
Proof.
  unfold di_reload. destruct (di_pos it =? -1); [reflexivity|].
  destruct (znth L (di_pos it)) as [p|]; [|reflexivity]. destruct (overlaps (d_tr p) (di_b it)); reflexivity.
Qed.
Lemma seek_ge_b L it ts : di_b (fst (di_seek_ge L it ts)) = di_b it.
Proof. unfold di_seek_ge. rewrite reload_b. reflexivity. Qed.
Lemma seek_le_b L it ts : di_b (fst (di_seek_le L it ts)) = di_b it.
Proof. unfold di_seek_le. rewrite reload_b. reflexivity. Qed.
Lemma next_b L it : di_b (fst (di_next L it)) = di_b it.
Proof.
  unfold di_next. destruct (negb (di_valid it)); [reflexivity|].
  pose proof (reload_b L (DI (di_b it) (di_pos it + 1) (di_cur it) (di_valid it))) as R.
  destruct (di_reload L _) as [it' ok]. cbn [fst di_b] in *. destruct ok; cbn [fst di_b]; exact R.
Qed.
Lemma prev_b L it : di_b (fst (di_prev L it)) = di_b it.
Proof.
  unfold di_prev. destruct (negb (di_valid it)); [reflexivity|]. destruct (di_pos it =? 0); [reflexivity|].
  rewrite reload_b. reflexivity.
Qed.
