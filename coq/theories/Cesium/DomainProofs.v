(* Cesium/DomainProofs.v — index-level lemmas for Cesium/Domain.v:
   well-formed sorted indexes, specification of unprotectedSearch, insert and update. *)
From stdpp Require Import gmap.
From Coq Require Import ZArith NArith List Bool Lia Sorted.
From Synnax Require Import Common.Telem Common.TelemProofs Cesium.Domain.
Import ListNotations.
Local Open Scope Z_scope.

(* ------------------------------------------------------------------ generic list / index facts *)
Lemma getp_Some {A} (ps : list A) i p : getp ps i = Some p -> 0 <= i < zlen ps.
Proof.
  unfold getp, zlen. intros H. destruct (Z.ltb_spec i 0); [discriminate|].
  assert (Hn : (Z.to_nat i < length ps)%nat) by (apply nth_error_Some; congruence). lia.
Qed.

Lemma getp_lookup {A} (ps : list A) i : 0 <= i < zlen ps -> exists p, getp ps i = Some p.
Proof.
  unfold getp, zlen. intros H. destruct (Z.ltb_spec i 0); [lia|].
  destruct (nth_error ps (Z.to_nat i)) eqn:E; [eauto|].
  apply nth_error_None in E. lia.
Qed.

Lemma getp_None {A} (ps : list A) i : getp ps i = None -> i < 0 \/ zlen ps <= i.
Proof.
  intros H. destruct (Z_lt_le_dec i 0); [auto|]. destruct (Z_lt_le_dec i (zlen ps)); [|auto].
  destruct (getp_lookup ps i) as [p Hp]; [lia|congruence].
Qed.

Lemma getp_In {A} (ps : list A) i p : getp ps i = Some p -> In p ps.
Proof.
  unfold getp. destruct (i <? 0); [discriminate|]. apply nth_error_In.
Qed.

Lemma In_getp {A} (ps : list A) p : In p ps -> exists i, getp ps i = Some p.
Proof.
  intros H. apply In_nth_error in H. destruct H as [n Hn]. exists (Z.of_nat n).
  unfold getp. destruct (Z.ltb_spec (Z.of_nat n) 0); [lia|]. rewrite Nat2Z.id. exact Hn.
Qed.

Lemma getp_nat {A} (ps : list A) (n : nat) : getp ps (Z.of_nat n) = nth_error ps n.
Proof. unfold getp. destruct (Z.ltb_spec (Z.of_nat n) 0); [lia|]. rewrite Nat2Z.id. reflexivity. Qed.

Lemma getp_cons_0 {A} (x : A) l : getp (x :: l) 0 = Some x.
Proof. reflexivity. Qed.

Lemma getp_cons_S {A} (x : A) l i : 0 <= i -> getp (x :: l) (i + 1) = getp l i.
Proof.
  intros H. unfold getp. destruct (Z.ltb_spec (i + 1) 0); [lia|]. destruct (Z.ltb_spec i 0); [lia|].
  replace (Z.to_nat (i + 1)) with (S (Z.to_nat i)) by lia. reflexivity.
Qed.

Lemma getp_app_l {A} (l1 l2 : list A) i : 0 <= i < zlen l1 -> getp (l1 ++ l2) i = getp l1 i.
Proof.
  unfold getp, zlen. intros H. destruct (i <? 0); [reflexivity|]. apply nth_error_app1. lia.
Qed.

Lemma getp_app_r {A} (l1 l2 : list A) i : zlen l1 <= i -> getp (l1 ++ l2) i = getp l2 (i - zlen l1).
Proof.
  unfold getp, zlen. intros H. destruct (Z.ltb_spec i 0); [lia|].
  destruct (Z.ltb_spec (i - Z.of_nat (length l1)) 0); [lia|].
  rewrite nth_error_app2 by lia. f_equal. lia.
Qed.

Lemma zlen_app {A} (l1 l2 : list A) : zlen (l1 ++ l2) = zlen l1 + zlen l2.
Proof. unfold zlen. rewrite app_length. lia. Qed.

Lemma zlen_nonneg {A} (l : list A) : 0 <= zlen l.
Proof. unfold zlen. lia. Qed.

Lemma zlen_firstn {A} (l : list A) k : 0 <= k <= zlen l -> zlen (firstn (Z.to_nat k) l) = k.
Proof. unfold zlen. intros H. rewrite firstn_length. lia. Qed.

Lemma zlen_skipn {A} (l : list A) k : 0 <= k <= zlen l -> zlen (skipn (Z.to_nat k) l) = zlen l - k.
Proof. unfold zlen. intros H. rewrite skipn_length. lia. Qed.

(* ------------------------------------------------------------------ well-formed indexes *)
(* a pointer occupies a non-empty range of representable stamps *)
Definition ptr_wf (p : pointer) : Prop := tr_in_range (p_tr p) /\ p_start p < p_end p.
(* p lies entirely before q (adjacency allowed) *)
Definition before (p q : pointer) : Prop := p_end p <= p_start q.
(* time-ordered, pairwise non-overlapping, non-empty *)
Definition idx_ok (ps : list pointer) : Prop := StronglySorted before ps /\ Forall ptr_wf ps.

Lemma idx_ok_nil : idx_ok [].
Proof. split; constructor. Qed.

Lemma idx_ok_wf ps i p : idx_ok ps -> getp ps i = Some p -> ptr_wf p.
Proof.
  intros [_ Hwf] H. rewrite Forall_forall in Hwf. apply Hwf. eapply getp_In; eauto.
Qed.

Lemma idx_ok_lookup_lt ps : idx_ok ps -> forall i j p q,
  getp ps i = Some p -> getp ps j = Some q -> i < j -> p_end p <= p_start q.
Proof.
  induction ps as [|x l IH]; intros Hok i j p q Hi Hj Hlt.
  - destruct (getp_Some _ _ _ Hi) as [? Hz]. unfold zlen in Hz. simpl in Hz. lia.
  - destruct Hok as [Hs Hw]. apply StronglySorted_inv in Hs. destruct Hs as [Hs Hall].
    inversion Hw as [|? ? Hwx Hwl]; subst.
    pose proof (getp_Some _ _ _ Hi) as [Hi0 _].
    destruct (Z.eq_dec i 0) as [->|Hne].
    + rewrite getp_cons_0 in Hi. inversion Hi; subst.
      replace j with ((j - 1) + 1) in Hj by lia. rewrite getp_cons_S in Hj by lia.
      rewrite Forall_forall in Hall. apply Hall. eapply getp_In; eauto.
    + replace i with ((i - 1) + 1) in Hi by lia. rewrite getp_cons_S in Hi by lia.
      replace j with ((j - 1) + 1) in Hj by lia. rewrite getp_cons_S in Hj by lia.
      eapply (IH (conj Hs Hwl) (i - 1) (j - 1)); eauto. lia.
Qed.

(* two positions holding pointers with the same start are the same position *)
Lemma idx_ok_start_inj ps i j p q : idx_ok ps ->
  getp ps i = Some p -> getp ps j = Some q -> p_start p = p_start q -> i = j.
Proof.
  intros Hok Hi Hj He.
  pose proof (idx_ok_wf _ _ _ Hok Hi) as [_ Hp]. pose proof (idx_ok_wf _ _ _ Hok Hj) as [_ Hq].
  destruct (Z.lt_trichotomy i j) as [H|[H|H]]; [|assumption|].
  - pose proof (idx_ok_lookup_lt _ Hok _ _ _ _ Hi Hj H). lia.
  - pose proof (idx_ok_lookup_lt _ Hok _ _ _ _ Hj Hi H). lia.
Qed.

Lemma not_overlaps_math p tr :
  ptr_wf p -> tr_in_range tr -> tr_start tr <= tr_end tr ->
  overlaps_with (p_tr p) tr = false ->
  p_start p <> tr_start tr /\ (tr_end tr <= p_start p \/ p_end p <= tr_start tr).
Proof.
  intros [Hr Hlt] Htr Ho Hf. unfold p_start, p_end in *.
  assert (Hn : ~ overlaps_math (p_tr p) tr).
  { intros Hm. apply (overlaps_with_spec (p_tr p) tr) in Hm; try assumption; [congruence|lia]. }
  unfold overlaps_math in Hn. lia.
Qed.

(* ------------------------------------------------------------------ unprotectedSearch *)
Definition usearch_post (ps : list pointer) (tr : TimeRange) (r : Z * bool) : Prop :=
  match r with
  | (i, true) => exists p, getp ps i = Some p /\ overlaps_with (p_tr p) tr = true
  | (i, false) =>
      -1 <= i < zlen ps /\
      (forall j p, getp ps j = Some p -> j <= i -> p_end p <= tr_start tr) /\
      (forall j p, getp ps j = Some p -> i < j -> tr_start tr < p_start p /\ tr_end tr <= p_start p)
  end.

Lemma usearch_loop_spec ps tr :
  idx_ok ps -> tr_in_range tr -> tr_start tr <= tr_end tr ->
  forall fuel lo hi,
    0 <= lo -> hi < zlen ps -> lo <= hi + 1 -> hi - lo + 1 < Z.of_nat fuel ->
    (forall j p, getp ps j = Some p -> j < lo -> p_end p <= tr_start tr) ->
    (forall j p, getp ps j = Some p -> hi < j -> tr_start tr < p_start p /\ tr_end tr <= p_start p) ->
    usearch_post ps tr (usearch_loop fuel ps tr lo hi).
Proof.
  intros Hok Htr Hord. induction fuel as [|f IH]; intros lo hi Hlo Hhi Hle Hfuel HL HR.
  - simpl in Hfuel. lia.
  - simpl. destruct (Z.leb_spec lo hi) as [Hlh|Hlh].
    + set (mid := (lo + hi) / 2).
      assert (Hmid : lo <= mid <= hi).
      { subst mid. split; [apply Z.div_le_lower_bound|apply Z.div_le_upper_bound]; lia. }
      destruct (getp_lookup ps mid) as [ptr Hptr]; [lia|]. rewrite Hptr.
      destruct (overlaps_with (p_tr ptr) tr) eqn:Hov.
      * simpl. eauto.
      * pose proof (idx_ok_wf _ _ _ Hok Hptr) as Hwf.
        destruct (not_overlaps_math _ _ Hwf Htr Hord Hov) as [Hne Hside].
        destruct Hwf as [_ Hplt].
        destruct (Z.ltb_spec (tr_start tr) (p_start ptr)) as [Hb|Hb].
        -- apply IH; try lia.
           ++ exact HL.
           ++ intros j p Hj Hgt. destruct (Z.eq_dec j mid) as [->|Hnm].
              ** rewrite Hptr in Hj. inversion Hj; subst. lia.
              ** destruct (Z_lt_le_dec hi j) as [Hh|Hh]; [apply (HR j p Hj Hh)|].
                 pose proof (idx_ok_lookup_lt _ Hok mid j ptr p Hptr Hj ltac:(lia)). lia.
        -- apply IH; try lia.
           ++ intros j p Hj Hlt. destruct (Z.eq_dec j mid) as [->|Hnm].
              ** rewrite Hptr in Hj. inversion Hj; subst. lia.
              ** destruct (Z_lt_le_dec j lo) as [Hh|Hh]; [apply (HL j p Hj Hh)|].
                 pose proof (idx_ok_lookup_lt _ Hok j mid p ptr Hj Hptr ltac:(lia)).
                 pose proof (idx_ok_wf _ _ _ Hok Hj) as [_ ?]. lia.
           ++ exact HR.
    + simpl. split; [lia|]. split.
      * intros j p Hj Hji. apply (HL j p Hj). lia.
      * intros j p Hj Hji. apply (HR j p Hj). lia.
Qed.

(* Binary-search specification: on a well-formed index and an ordered query range,
   (i, true)  : position i holds a pointer overlapping the query;
   (i, false) : no pointer overlaps; positions <= i end at or before the query start,
                positions > i start after the query start and at or after its end
                (i = -1: before all; i = len-1: after all). *)
Lemma usearch_spec ps tr :
  idx_ok ps -> tr_in_range tr -> tr_start tr <= tr_end tr -> usearch_post ps tr (usearch ps tr).
Proof.
  intros Hok Htr Hord. unfold usearch. destruct ps as [|x l] eqn:E.
  - simpl. split; [unfold zlen; simpl; lia|]. split; intros j p Hj; apply getp_Some in Hj;
      unfold zlen in Hj; simpl in Hj; lia.
  - rewrite <- E in *. apply usearch_loop_spec; try assumption; try lia.
    + unfold zlen. lia.
    + unfold zlen. lia.
    + intros j p Hj Hlt. apply getp_Some in Hj. lia.
    + intros j p Hj Hlt. apply getp_Some in Hj. lia.
Qed.

(* when some pointer overlaps the (ordered) query, the search reports an overlap *)
Lemma usearch_finds ps tr q :
  idx_ok ps -> tr_in_range tr -> tr_start tr <= tr_end tr ->
  In q ps -> overlaps_with (p_tr q) tr = true -> snd (usearch ps tr) = true.
Proof.
  intros Hok Htr Hord Hin Hov. pose proof (usearch_spec ps tr Hok Htr Hord) as Hs.
  destruct (usearch ps tr) as [i [|]]; [reflexivity|]. exfalso.
  destruct Hs as (_ & HL & HR). destruct (In_getp _ _ Hin) as [j Hj].
  pose proof (idx_ok_wf _ _ _ Hok Hj) as Hwf.
  apply (overlaps_with_spec (p_tr q) tr) in Hov; try assumption;
    [|apply Hwf|destruct Hwf; unfold p_start, p_end in *; lia].
  unfold overlaps_math in Hov. destruct Hwf as [_ Hlt]. unfold p_start, p_end in *.
  destruct (Z_le_gt_dec j i) as [H|H].
  - pose proof (HL j q Hj H). unfold p_end in *. lia.
  - pose proof (HR j q Hj ltac:(lia)) as [? ?]. unfold p_start in *. lia.
Qed.

(* ------------------------------------------------------------------ splitting and splicing *)
Lemma SS_app {A} (R : A -> A -> Prop) l1 l2 :
  StronglySorted R (l1 ++ l2) <->
  StronglySorted R l1 /\ StronglySorted R l2 /\ (forall a b, In a l1 -> In b l2 -> R a b).
Proof.
  induction l1 as [|x l IH]; simpl.
  - split; [intros H; repeat split; [constructor|assumption|intros ? ? []]|tauto].
  - split.
    + intros H. apply StronglySorted_inv in H. destruct H as [Hs Ha].
      apply IH in Hs. destruct Hs as (H1 & H2 & H3). rewrite Forall_app in Ha. destruct Ha as [Ha1 Ha2].
      repeat split; [constructor; assumption|assumption|].
      intros a b [->|Hin] Hb; [rewrite Forall_forall in Ha2; auto|auto].
    + intros (H1 & H2 & H3). apply StronglySorted_inv in H1. destruct H1 as [H1 Ha].
      constructor; [apply IH; repeat split; auto|].
      rewrite Forall_app. split; [assumption|]. rewrite Forall_forall. auto.
Qed.

Lemma idx_ok_app l1 l2 :
  idx_ok (l1 ++ l2) <-> idx_ok l1 /\ idx_ok l2 /\ (forall a b, In a l1 -> In b l2 -> before a b).
Proof.
  unfold idx_ok. rewrite SS_app, Forall_app. tauto.
Qed.

Lemma idx_ok_cons p l :
  idx_ok (p :: l) <-> ptr_wf p /\ idx_ok l /\ (forall b, In b l -> before p b).
Proof.
  change (p :: l) with ([p] ++ l). rewrite idx_ok_app. split.
  - intros ([_ Hw] & Hl & Hc). inversion Hw; subst. split; [assumption|]. split; [assumption|].
    intros b Hb. apply Hc; simpl; auto.
  - intros (Hw & Hl & Hc). split; [|split; [assumption|]].
    + split; [repeat constructor|constructor; [assumption|constructor]].
    + intros a b [->|[]] Hb. auto.
Qed.

Lemma In_firstn_getp {A} (ps : list A) k q : 0 <= k ->
  In q (firstn (Z.to_nat k) ps) -> exists j, 0 <= j < k /\ getp ps j = Some q.
Proof.
  intros Hk Hin. destruct (In_getp _ _ Hin) as [j Hj]. pose proof (getp_Some _ _ _ Hj) as Hr.
  exists j. assert (Hlen : zlen (firstn (Z.to_nat k) ps) <= k).
  { unfold zlen. rewrite firstn_length. lia. }
  split; [lia|]. rewrite <- (firstn_skipn (Z.to_nat k) ps). rewrite getp_app_l; assumption.
Qed.

Lemma In_skipn_getp {A} (ps : list A) k q : 0 <= k ->
  In q (skipn (Z.to_nat k) ps) -> exists j, k <= j /\ getp ps j = Some q.
Proof.
  intros Hk Hin. destruct (In_getp _ _ Hin) as [j Hj]. pose proof (getp_Some _ _ _ Hj) as Hr.
  assert (Hkl : k <= zlen ps).
  { destruct (Z_le_gt_dec k (zlen ps)); [assumption|]. unfold zlen in *.
    rewrite skipn_all2 in Hr by lia. simpl in Hr. lia. }
  exists (j + k). split; [lia|]. rewrite <- (firstn_skipn (Z.to_nat k) ps).
  rewrite getp_app_r; rewrite zlen_firstn by lia; [|lia]. replace (j + k - k) with j by lia. exact Hj.
Qed.

Lemma In_firstn {A} (ps : list A) n q : In q (firstn n ps) -> In q ps.
Proof. intros H. rewrite <- (firstn_skipn n ps). apply in_or_app. auto. Qed.
Lemma In_skipn {A} (ps : list A) n q : In q (skipn n ps) -> In q ps.
Proof. intros H. rewrite <- (firstn_skipn n ps). apply in_or_app. auto. Qed.

Lemma idx_ok_firstn ps n : idx_ok ps -> idx_ok (firstn n ps).
Proof. intros H. rewrite <- (firstn_skipn n ps) in H. apply idx_ok_app in H. tauto. Qed.
Lemma idx_ok_skipn ps n : idx_ok ps -> idx_ok (skipn n ps).
Proof. intros H. rewrite <- (firstn_skipn n ps) in H. apply idx_ok_app in H. tauto. Qed.

(* replacing the stretch [k1, k2) of a well-formed index by a well-formed list that fits *)
Lemma idx_ok_splice ps k1 k2 mid :
  idx_ok ps -> idx_ok mid -> 0 <= k1 <= k2 ->
  (forall a m, In a (firstn (Z.to_nat k1) ps) -> In m mid -> before a m) ->
  (forall m b, In m mid -> In b (skipn (Z.to_nat k2) ps) -> before m b) ->
  idx_ok (firstn (Z.to_nat k1) ps ++ mid ++ skipn (Z.to_nat k2) ps).
Proof.
  intros Hok Hmid Hk H1 H2. apply idx_ok_app. split; [apply idx_ok_firstn; assumption|]. split.
  - apply idx_ok_app. split; [assumption|]. split; [apply idx_ok_skipn; assumption|]. exact H2.
  - intros a b Ha Hb. apply in_app_or in Hb. destruct Hb as [Hb|Hb]; [apply H1; assumption|].
    destruct (In_firstn_getp ps k1 a ltac:(lia) Ha) as (i & Hi & Hgi).
    destruct (In_skipn_getp ps k2 b ltac:(lia) Hb) as (j & Hj & Hgj).
    apply (idx_ok_lookup_lt _ Hok i j a b Hgi Hgj). lia.
Qed.

(* ------------------------------------------------------------------ insert *)
Lemma insert_at_splice {A} (ps : list A) k p :
  insert_at ps k p = firstn (Z.to_nat k) ps ++ [p] ++ skipn (Z.to_nat k) ps.
Proof. reflexivity. Qed.

Lemma last_end_max ps l q : idx_ok ps -> getp ps (zlen ps - 1) = Some l -> In q ps -> p_end q <= p_end l.
Proof.
  intros Hok Hl Hin. destruct (In_getp _ _ Hin) as [j Hj]. pose proof (getp_Some _ _ _ Hj).
  destruct (Z.eq_dec j (zlen ps - 1)) as [->|Hne].
  - rewrite Hl in Hj. inversion Hj. lia.
  - pose proof (idx_ok_lookup_lt _ Hok j (zlen ps - 1) q l Hj Hl ltac:(lia)).
    pose proof (idx_ok_wf _ _ _ Hok Hl) as [_ ?]. lia.
Qed.

Lemma first_start_min f l q : idx_ok (f :: l) -> In q (f :: l) -> p_start f <= p_start q.
Proof.
  intros Hok [->|Hin]; [lia|]. apply idx_ok_cons in Hok. destruct Hok as ([_ Hlt] & _ & Hc).
  specialize (Hc q Hin). unfold before in Hc. lia.
Qed.

(* Result of a successful insert: p is spliced in at some position and the index stays
   well formed.  Covers the afterLast / beforeFirst fast paths. *)
Lemma insert_ok ps p ps' :
  idx_ok ps -> ptr_wf p -> insert ps p = inl ps' ->
  idx_ok ps' /\ exists n, ps' = firstn n ps ++ p :: skipn n ps.
Proof.
  intros Hok Hwf. unfold insert. destruct (p_file p =? 0)%N; [discriminate|].
  assert (Hp1 : idx_ok [p]).
  { apply idx_ok_cons. split; [assumption|]. split; [apply idx_ok_nil|intros ? []]. }
  assert (Hins : forall k, 0 <= k ->
     (forall a, In a (firstn (Z.to_nat k) ps) -> before a p) ->
     (forall b, In b (skipn (Z.to_nat k) ps) -> before p b) ->
     idx_ok (insert_at ps k p) /\ exists n, insert_at ps k p = firstn n ps ++ p :: skipn n ps).
  { intros k Hk H1 H2. split; [|eexists; reflexivity]. rewrite insert_at_splice.
    apply idx_ok_splice; auto; try lia.
    - intros a m Ha [->|[]]. auto.
    - intros m b [->|[]] Hb. auto. }
  destruct ps as [|f l] eqn:E.
  { intros H. inversion H; subst. apply Hins; [lia| |]; simpl; intros ? []. }
  rewrite <- E in *.
  destruct (after_last ps (p_start p)) eqn:Hal.
  { intros H. inversion H; subst ps'. unfold after_last in Hal.
    destruct (getp ps (zlen ps - 1)) as [lst|] eqn:Hl; [|discriminate]. apply Z.ltb_lt in Hal.
    apply Hins; [apply zlen_nonneg| |].
    - intros a Ha. apply In_firstn in Ha. pose proof (last_end_max _ _ _ Hok Hl Ha). unfold before. lia.
    - unfold zlen. rewrite Nat2Z.id, skipn_all. intros ? []. }
  destruct (before_first ps (p_end p)) eqn:Hbf; simpl.
  { intros H. inversion H; subst ps'. rewrite E in Hbf. simpl in Hbf. apply Z.ltb_lt in Hbf.
    apply Hins; [lia| |].
    - simpl. intros ? [].
    - simpl. intros b Hb. rewrite E in Hok. pose proof (first_start_min _ _ _ Hok ltac:(rewrite <- E; exact Hb)).
      unfold before. lia. }
  destruct Hwf as [Hr Hlt].
  pose proof (usearch_spec ps (p_tr p) Hok Hr ltac:(unfold p_start, p_end in *; lia)) as Hs.
  destruct (usearch ps (p_tr p)) as [i [|]]; [discriminate|].
  intros H. inversion H; subst ps'. destruct Hs as (Hi & HL & HR).
  apply Hins; [lia| |].
  - intros a Ha. destruct (In_firstn_getp ps (i + 1) a ltac:(lia) Ha) as (j & Hj & Hg).
    apply (HL j a Hg). lia.
  - intros b Hb. destruct (In_skipn_getp ps (i + 1) b ltac:(lia) Hb) as (j & Hj & Hg).
    destruct (HR j b Hg ltac:(lia)) as [_ ?]. assumption.
Qed.

(* A pointer overlapping existing data is never inserted. *)
Lemma insert_conflict ps p q :
  idx_ok ps -> ptr_wf p -> (p_file p <> 0)%N -> In q ps -> overlaps_math (p_tr q) (p_tr p) ->
  insert ps p = inr EConflict.
Proof.
  intros Hok Hwf Hfile Hin Hov. unfold insert. destruct (N.eqb_spec (p_file p) 0); [contradiction|].
  destruct (In_getp _ _ Hin) as [j Hj]. pose proof (idx_ok_wf _ _ _ Hok Hj) as [Hqr Hqlt].
  destruct Hwf as [Hr Hlt]. unfold overlaps_math in Hov. unfold p_start, p_end in *.
  destruct ps as [|f l] eqn:E; [destruct Hin|]. rewrite <- E in *.
  assert (Hal : after_last ps (tr_start (p_tr p)) = false).
  { unfold after_last. destruct (getp ps (zlen ps - 1)) as [lst|] eqn:Hl; [|reflexivity].
    apply Z.ltb_ge. pose proof (last_end_max _ _ _ Hok Hl Hin). unfold p_end in *. lia. }
  unfold p_start. rewrite Hal.
  assert (Hbf : before_first ps (tr_end (p_tr p)) = false).
  { rewrite E. simpl. apply Z.ltb_ge. rewrite E in Hok.
    pose proof (first_start_min _ _ _ Hok ltac:(rewrite <- E; exact Hin)). unfold p_start in *. lia. }
  unfold p_end. rewrite Hbf. simpl.
  assert (Hf : snd (usearch ps (p_tr p)) = true).
  { apply (usearch_finds ps (p_tr p) q); try assumption; [lia|].
    apply overlaps_with_spec; try assumption; lia. }
  destruct (usearch ps (p_tr p)) as [i b]. simpl in Hf. subst b. reflexivity.
Qed.

(* ------------------------------------------------------------------ update *)
Lemma replace_at_splice {A} (ps : list A) k p : 0 <= k ->
  replace_at ps k p = firstn (Z.to_nat k) ps ++ [p] ++ skipn (Z.to_nat (k + 1)) ps.
Proof. intros H. unfold replace_at. replace (Z.to_nat (k + 1)) with (S (Z.to_nat k)) by lia. reflexivity. Qed.

(* position that update selects, when the writer's own pointer (start = p.Start) is present *)
Lemma update_position ps p k own :
  idx_ok ps -> ptr_wf p -> getp ps k = Some own -> p_start own = p_start p ->
  match getp ps (zlen ps - 1) with
  | Some l => if p_start p =? p_start l then zlen ps - 1
              else fst (usearch ps (ts_span_range (p_start p) 0))
  | None => zlen ps - 1
  end = k.
Proof.
  intros Hok [[Hr _] Hlt] Hk He. pose proof (getp_Some _ _ _ Hk) as Hkr.
  destruct (getp_lookup ps (zlen ps - 1)) as [l Hl]; [lia|]. rewrite Hl.
  destruct (Z.eqb_spec (p_start p) (p_start l)) as [e|ne].
  - symmetry. eapply idx_ok_start_inj; eauto. congruence.
  - unfold p_start in *. rewrite span_range0 by assumption.
    set (q := mkTR (tr_start (p_tr p)) (tr_start (p_tr p))).
    assert (Hq : tr_in_range q) by (split; assumption).
    pose proof (usearch_spec ps q Hok Hq ltac:(simpl; lia)) as Hs.
    pose proof (idx_ok_wf _ _ _ Hok Hk) as [Hor Holt]. unfold p_start, p_end in *.
    destruct (usearch ps q) as [i [|]]; simpl.
    + destruct Hs as (x & Hx & Hov).
      pose proof (idx_ok_wf _ _ _ Hok Hx) as [Hxr Hxlt]. unfold p_start, p_end in *.
      apply overlaps_with_spec in Hov; try assumption; [|lia|simpl; lia].
      unfold overlaps_math in Hov. simpl in Hov.
      destruct (Z.eq_dec (tr_start (p_tr x)) (tr_start (p_tr p))) as [e|n].
      * eapply idx_ok_start_inj; eauto. unfold p_start. congruence.
      * exfalso. destruct (Z.lt_trichotomy i k) as [H|[H|H]].
        -- pose proof (idx_ok_lookup_lt _ Hok i k x own Hx Hk H). unfold p_start, p_end in *. lia.
        -- subst i. rewrite Hk in Hx. inversion Hx; subst. lia.
        -- pose proof (idx_ok_lookup_lt _ Hok k i own x Hk Hx H). unfold p_start, p_end in *. lia.
    + exfalso. destruct Hs as (_ & HL & HR). simpl in *.
      destruct (Z_le_gt_dec k i) as [H|H].
      * pose proof (HL k own Hk H). unfold p_end in *. lia.
      * pose proof (HR k own Hk ltac:(lia)) as [? _]. unfold p_start in *. lia.
Qed.

Lemma update_ok ps p ps' :
  idx_ok ps -> ptr_wf p -> update ps p = inl ps' ->
  idx_ok ps' /\ exists k old, getp ps k = Some old /\ p_start old = p_start p /\
                 ps' = firstn (Z.to_nat k) ps ++ p :: skipn (S (Z.to_nat k)) ps.
Proof.
  intros Hok Hwf. unfold update. destruct ps as [|f l] eqn:E; [discriminate|]. rewrite <- E in *.
  set (k := match getp ps (zlen ps - 1) with
            | Some l0 => if p_start p =? p_start l0 then zlen ps - 1
                         else fst (usearch ps (ts_span_range (p_start p) 0))
            | None => zlen ps - 1 end).
  destruct (getp ps k) as [old|] eqn:Hold; [|discriminate].
  destruct (Z.eqb_spec (p_start old) (p_start p)) as [He|]; [simpl|discriminate].
  pose proof (getp_Some _ _ _ Hold) as Hkr.
  destruct (negb (k =? 0) && match getp ps (k - 1) with Some n => overlaps_with (p_tr n) (p_tr p) | None => false end);
    [discriminate|].
  destruct (negb (k =? zlen ps - 1) && match getp ps (k + 1) with Some n => overlaps_with (p_tr n) (p_tr p) | None => false end) eqn:Hnext;
    [discriminate|].
  intros H. inversion H; subst ps'. split; [|exists k, old; auto].
  rewrite replace_at_splice by lia.
  assert (Hp1 : idx_ok [p]).
  { apply idx_ok_cons. split; [assumption|]. split; [apply idx_ok_nil|intros ? []]. }
  pose proof (idx_ok_wf _ _ _ Hok Hold) as [_ Holt]. destruct Hwf as [Hpr Hplt].
  apply idx_ok_splice; auto; try lia.
  - intros a m Ha [<-|[]]. destruct (In_firstn_getp ps k a ltac:(lia) Ha) as (j & Hj & Hg).
    pose proof (idx_ok_lookup_lt _ Hok j k a old Hg Hold ltac:(lia)). unfold before. lia.
  - intros m b [<-|[]] Hb. destruct (In_skipn_getp ps (k + 1) b ltac:(lia) Hb) as (j & Hj & Hg).
    pose proof (getp_Some _ _ _ Hg) as Hjr.
    destruct (Z.eqb_spec k (zlen ps - 1)) as [Hkl|Hkl]; [lia|]. simpl in Hnext.
    destruct (getp_lookup ps (k + 1)) as [nx Hnx]; [lia|]. rewrite Hnx in Hnext.
    pose proof (idx_ok_wf _ _ _ Hok Hnx) as Hnwf.
    destruct (not_overlaps_math nx (p_tr p) Hnwf Hpr ltac:(unfold p_start, p_end in *; lia) Hnext) as [_ Hside].
    pose proof (idx_ok_lookup_lt _ Hok k (k + 1) old nx Hold Hnx ltac:(lia)).
    destruct Hnwf as [_ Hnlt]. unfold before.
    destruct (Z.eq_dec j (k + 1)) as [->|Hne].
    + rewrite Hnx in Hg. inversion Hg; subst. unfold p_start, p_end in *. lia.
    + pose proof (idx_ok_lookup_lt _ Hok (k + 1) j nx b Hnx Hg ltac:(lia)). unfold p_start, p_end in *. lia.
Qed.

(* An update whose new range overlaps another domain is refused (the neighbour check is
   sufficient on a well-formed index). *)
Lemma update_conflict ps p k own q :
  idx_ok ps -> ptr_wf p -> getp ps k = Some own -> p_start own = p_start p ->
  In q ps -> p_start q <> p_start p -> overlaps_math (p_tr q) (p_tr p) ->
  update ps p = inr EConflict.
Proof.
  intros Hok Hwf Hk He Hin Hne Hov. unfold update.
  destruct ps as [|f l] eqn:E; [destruct Hin|]. rewrite <- E in *.
  rewrite (update_position ps p k own Hok Hwf Hk He). rewrite Hk.
  destruct (Z.eqb_spec (p_start own) (p_start p)) as [_|]; [simpl|contradiction].
  destruct (In_getp _ _ Hin) as [j Hj].
  pose proof (idx_ok_wf _ _ _ Hok Hj) as [Hqr Hqlt]. pose proof (idx_ok_wf _ _ _ Hok Hk) as [_ Holt].
  pose proof (getp_Some _ _ _ Hj) as Hjr. pose proof (getp_Some _ _ _ Hk) as Hkr.
  destruct Hwf as [Hpr Hplt]. unfold overlaps_math in Hov.
  assert (Hjk : k < j).
  { destruct (Z.lt_trichotomy j k) as [H|[H|H]]; [|subst j; rewrite Hk in Hj; inversion Hj; subst; congruence|assumption].
    pose proof (idx_ok_lookup_lt _ Hok j k q own Hj Hk H). unfold p_start, p_end in *. lia. }
  destruct (getp_lookup ps (k + 1)) as [nx Hnx]; [lia|].
  pose proof (idx_ok_wf _ _ _ Hok Hnx) as [Hnr Hnlt].
  pose proof (idx_ok_lookup_lt _ Hok k (k + 1) own nx Hk Hnx ltac:(lia)) as Hon.
  assert (Hnq : p_start nx <= p_start q).
  { destruct (Z.eq_dec j (k + 1)) as [->|Hn]; [rewrite Hnx in Hj; inversion Hj; lia|].
    pose proof (idx_ok_lookup_lt _ Hok (k + 1) j nx q Hnx Hj ltac:(lia)). lia. }
  assert (Hon' : overlaps_with (p_tr nx) (p_tr p) = true).
  { apply overlaps_with_spec; try assumption; unfold p_start, p_end in *; try lia.
    unfold overlaps_math. right. lia. }
  rewrite Hnx, Hon'.
  destruct (Z.eqb_spec k (zlen ps - 1)); [lia|]. simpl.
  destruct (negb (k =? 0) && _); reflexivity.
Qed.
