(* C09, pointer level: two successful inserts into the domain index (two writers committing on
   disjoint time regions of ONE channel) commute — the index ends up identical in both orders.
   Built on the C03 model (Cesium/Domain.v) and its insert specification. *)
From Coq Require Import List ZArith Lia Permutation Sorted.
Import ListNotations.
From Synnax Require Import Common.Telem Common.TelemProofs Cesium.Domain Cesium.DomainProofs.
Local Open Scope Z_scope.

Lemma sorted_perm_eq (l1 : list pointer) : forall l2,
  StronglySorted before l1 -> StronglySorted before l2 -> Forall ptr_wf l1 ->
  Permutation l1 l2 -> l1 = l2.
Proof.
  induction l1 as [|x l1 IH]; intros l2 S1 S2 W1 P.
  - apply Permutation_nil in P. subst. reflexivity.
  - destruct l2 as [|y l2]; [apply Permutation_sym, Permutation_nil in P; discriminate|].
    assert (Hxy : x = y).
    { assert (Hx : In x (y :: l2)) by (eapply Permutation_in; [exact P|left; reflexivity]).
      destruct Hx as [->|Hx]; [reflexivity|].
      assert (Hy : In y (x :: l1)) by (eapply Permutation_in; [apply Permutation_sym; exact P|left; reflexivity]).
      destruct Hy as [->|Hy]; [reflexivity|].
      exfalso.
      inversion S1 as [|? ? _ F1]; subst. inversion S2 as [|? ? _ F2]; subst.
      rewrite Forall_forall in F1, F2.
      pose proof (F1 _ Hy) as B1. pose proof (F2 _ Hx) as B2. unfold before in B1, B2.
      inversion W1 as [|? ? Wx Wl]; subst. rewrite Forall_forall in Wl.
      destruct Wx as [_ Wx]. destruct (Wl _ Hy) as [_ Wy]. lia. }
    subst y. f_equal. apply IH.
    + inversion S1; assumption.
    + inversion S2; assumption.
    + inversion W1; assumption.
    + eapply Permutation_cons_inv; exact P.
Qed.

Lemma insert_perm ps p ps' :
  idx_ok ps -> ptr_wf p -> insert ps p = inl ps' -> idx_ok ps' /\ Permutation ps' (p :: ps).
Proof.
  intros Hok Hwf H. destruct (insert_ok ps p ps' Hok Hwf H) as (Hok' & n & ->).
  split; [assumption|].
  apply Permutation_sym. rewrite <- (firstn_skipn n ps) at 1. apply Permutation_middle.
Qed.

(* Both orders of two successful inserts give the same index. *)
Theorem insert_commute ps p q a ab b ba :
  idx_ok ps -> ptr_wf p -> ptr_wf q ->
  insert ps p = inl a -> insert a q = inl ab ->
  insert ps q = inl b -> insert b p = inl ba ->
  ab = ba.
Proof.
  intros Hok Hp Hq Ha Hab Hb Hba.
  destruct (insert_perm _ _ _ Hok Hp Ha) as (Oa & Pa).
  destruct (insert_perm _ _ _ Oa Hq Hab) as (Oab & Pab).
  destruct (insert_perm _ _ _ Hok Hq Hb) as (Ob & Pb).
  destruct (insert_perm _ _ _ Ob Hp Hba) as (Oba & Pba).
  destruct Oab as [Sab Wab]. destruct Oba as [Sba _].
  apply sorted_perm_eq; try assumption.
  eapply perm_trans; [exact Pab|].
  eapply perm_trans; [apply perm_skip; exact Pa|].
  eapply perm_trans; [apply perm_swap|].
  apply Permutation_sym. eapply perm_trans; [exact Pba|]. apply perm_skip. exact Pb.
Qed.
