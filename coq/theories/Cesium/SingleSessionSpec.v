(* Cesium/SingleSessionSpec.v — what a single writer session makes visible ([visible], the
   summary used by the refinement theorem of SingleSession.v) is what the abstract specification
   [committed] of Read.v computes for the same history with every step successful. *)
From Coq Require Import ZArith List Bool Lia Sorting.Sorted.
From Synnax Require Import Cesium.LayoutOk Cesium.Store Cesium.StoreProofs Cesium.IndexSearchProofs
     Cesium.UnaryIter Cesium.UnaryWrite Cesium.Read Cesium.SingleSession.
Import ListNotations.
Local Open Scope Z_scope.

Lemma zipz_combine a : forall b, zipz a b = combine a b.
Proof.
  induction a as [|x a IH]; intros b.
  - destruct b; reflexivity.
  - destruct b as [|y b].
    + reflexivity.
    + change (zipz (x :: a) (y :: b)) with ((x, y) :: zipz a b). rewrite IH. reflexivity.
Qed.

Lemma agetd_aput_same {V} (l : list (Z * V)) k v d : agetd (aput l k v) k d = v.
Proof.
  unfold agetd. induction l as [|[k' v'] l IH]; cbn [aput aget]; [rewrite Z.eqb_refl; reflexivity|].
  destruct (k' =? k) eqn:E; cbn [aget]; [rewrite Z.eqb_refl; reflexivity|rewrite E; exact IH].
Qed.
Lemma agetd_aput_other {V} (l : list (Z * V)) k k2 v d : k <> k2 -> agetd (aput l k v) k2 d = agetd l k2 d.
Proof.
  intros N. unfold agetd. induction l as [|[k' v'] l IH]; cbn [aput aget].
  - destruct (k =? k2) eqn:E; [apply Z.eqb_eq in E; contradiction|reflexivity].
  - destruct (k' =? k) eqn:E; cbn [aget].
    + apply Z.eqb_eq in E. subst k'. destruct (k =? k2) eqn:E2; [apply Z.eqb_eq in E2; contradiction|reflexivity].
    + destruct (k' =? k2); [reflexivity|exact IH].
Qed.

(* inserting a pair whose stamp is above every stamp of the list appends it *)
Lemma ins_sorted_last p l : (forall q, In q l -> fst q <= fst p) -> ins_sorted p l = l ++ [p].
Proof.
  induction l as [|q l IH]; intros H; [reflexivity|]. cbn [ins_sorted].
  destruct (fst p <? fst q) eqn:E; [apply Z.ltb_lt in E; specialize (H q (or_introl eq_refl)); lia|].
  cbn [app]. f_equal. apply IH. intros r Hr. apply H. right. exact Hr.
Qed.

Lemma merge_sorted_append ps : forall l,
  StronglySorted (fun p q => fst p < fst q) ps ->
  (forall q p, In q l -> In p ps -> fst q < fst p) ->
  merge_sorted ps l = l ++ ps.
Proof.
  unfold merge_sorted. induction ps as [|p ps IH]; intros l S C; [cbn; rewrite app_nil_r; reflexivity|].
  cbn [fold_left]. inversion S as [|? ? S' F]; subst.
  rewrite ins_sorted_last by (intros q Hq; specialize (C q p Hq (or_introl eq_refl)); lia).
  rewrite IH; [rewrite <- app_assoc; reflexivity|exact S'|].
  intros q r Hq Hr. apply in_app_or in Hq. destruct Hq as [Hq|[<-|[]]].
  - apply C; [exact Hq|right; exact Hr].
  - rewrite Forall_forall in F. apply F, Hr.
Qed.

Lemma combine_app {A B} (a1 a2 : list A) (b1 b2 : list B) : length a1 = length b1 ->
  combine (a1 ++ a2) (b1 ++ b2) = combine a1 b1 ++ combine a2 b2.
Proof.
  revert b1. induction a1 as [|x a1 IH]; intros b1 H; destruct b1; try discriminate; [reflexivity|].
  cbn. f_equal. apply IH. cbn in H. lia.
Qed.

Lemma combine_sorted S X : inc S -> StronglySorted (fun p q : Z * Z => fst p < fst q) (combine S X).
Proof.
  revert X. induction S as [|x S IH]; intros X HI; [constructor|]. destruct X as [|y X]; [constructor|].
  cbn [combine]. inversion HI as [|? ? HI' F]; subst. constructor; [apply IH, HI'|].
  apply Forall_forall. intros [a b] Hab. apply in_combine_l in Hab. rewrite Forall_forall in F. cbn [fst]. apply F, Hab.
Qed.

Section Spec.
Variable kind start : Z.

Notation chs := [(1, 0, 0); (2, 1, kind)].
(* the specification state while the session is open *)
Definition sspec (comm pend : list (Z * assoc)) : spec_state :=
  SP [(1, 1); (2, 1)] comm (Some (SW start false [1; 2] pend [])).

Lemma spec_open : spec_step (spec_init chs) (WOpen [1; 2] start false) 0 = sspec [] [].
Proof. reflexivity. Qed.

Lemma spec_write comm pend st vs :
  spec_step (sspec comm pend) (WWrite [(1, st); (2, vs)]) 0 =
  sspec comm (aput (aput pend 1 (agetd pend 1 [] ++ zipz st st)) 2
                   (agetd (aput pend 1 (agetd pend 1 [] ++ zipz st st)) 2 [] ++ zipz st vs)).
Proof. reflexivity. Qed.

Definition pend_shape (pend : list (Z * assoc)) : Prop :=
  pend = [] \/ exists A B, pend = [(1, A); (2, B)].

Lemma spec_commit_shape comm pend : pend_shape pend ->
  exists comm', spec_step (sspec comm pend) WCommit 0 =
                sspec comm' (map (fun kp => (fst kp, [])) pend) /\
    agetd comm' 1 [] = merge_sorted (agetd pend 1 []) (agetd comm 1 []) /\
    agetd comm' 2 [] = merge_sorted (agetd pend 2 []) (agetd comm 2 []).
Proof.
  intros [->|(A & B & ->)].
  - exists comm. split; [reflexivity|]. split; reflexivity.
  - eexists. split; [reflexivity|]. cbn [fold_left fst snd sw_pend sp_comm sspec].
    change (agetd [(1, A); (2, B)] 1 []) with A. change (agetd [(1, A); (2, B)] 2 []) with B. split.
    + rewrite agetd_aput_other by discriminate. rewrite agetd_aput_same. reflexivity.
    + rewrite agetd_aput_same. rewrite agetd_aput_other by discriminate. reflexivity.
Qed.

(* the specification state and the session summary agree *)
Definition rel (a : abs) (comm pend : list (Z * assoc)) : Prop :=
  exists Sc Vc Sp Vp,
    a_S a = Sc ++ Sp /\ a_V a = Vc ++ Vp /\ length Sc = length Vc /\ length Sp = length Vp /\
    a_C a = match Sc with [] => None | _ => Some (last Sc start + 1, Sc, Vc) end /\
    a_unc a = match Sp with [] => false | _ => true end /\
    pend_shape pend /\
    agetd pend 1 [] = combine Sp Sp /\ agetd pend 2 [] = combine Sp Vp /\
    agetd comm 1 [] = combine Sc Sc /\ agetd comm 2 [] = combine Sc Vc.

Lemma rel0 : rel (abs0 start) [] [].
Proof. exists [], [], [], []. unfold abs0, pend_shape. cbn. repeat split; auto. Qed.

Lemma zlen_length {A B} (a : list A) (b : list B) : zlen a = zlen b -> length a = length b.
Proof. unfold zlen. lia. Qed.

Lemma rel_step a o comm pend : ainv start a -> legal_op start a o -> rel a comm pend ->
  exists comm' pend', spec_step (sspec comm pend) (sop_wop o) 0 = sspec comm' pend' /\
                      rel (abs_step a o) comm' pend'.
Proof.
  intros HA Hl (Sc & Vc & Sp & Vp & ES & EV & LC & LP & EC & EU & PS & P1 & P2 & C1 & C2).
  destruct o as [st vs|]; cbn [sop_wop legal_op] in *.
  - cbn [abs_step]. destruct Hl as (L1 & L2 & L3 & L4). rewrite spec_write. eexists _, _. split; [reflexivity|].
    exists Sc, Vc, (Sp ++ st), (Vp ++ vs). cbn [a_S a_V a_C a_unc].
    rewrite ES, EV, <- !app_assoc. split; [reflexivity|]. split; [reflexivity|]. split; [exact LC|].
    split; [rewrite !app_length; apply zlen_length in L1; lia|]. split; [exact EC|].
    split; [destruct Sp; [destruct st; [contradiction|reflexivity]|reflexivity]|].
    split; [right; destruct PS as [->|(A & B & ->)]; eexists _, _; reflexivity|].
    set (X := agetd pend 1 [] ++ zipz st st).
    set (Y := agetd (aput pend 1 X) 2 [] ++ zipz st vs).
    split.
    + rewrite (agetd_aput_other (aput pend 1 X) 2 1 Y []) by discriminate.
      rewrite agetd_aput_same. unfold X. rewrite P1.
      replace (zipz st st) with (combine st st) by (symmetry; apply zipz_combine).
      rewrite combine_app by reflexivity. reflexivity.
    + rewrite agetd_aput_same. unfold Y. rewrite (agetd_aput_other pend 1 2 X []) by discriminate.
      rewrite P2.
      replace (zipz st vs) with (combine st vs) by (symmetry; apply zipz_combine).
      rewrite combine_app by exact LP. split; [reflexivity|]. split; assumption.
  - destruct (spec_commit_shape comm pend PS) as (comm' & Hs & G1 & G2). rewrite Hs.
    eexists _, _. split; [reflexivity|].
    assert (PS' : pend_shape (map (fun kp : Z * assoc => (fst kp, @nil (Z * Z))) pend)).
    { destruct PS as [->|(A & B & ->)]; [left; reflexivity|right; eexists _, _; reflexivity]. }
    assert (PE : forall k, agetd (map (fun kp : Z * assoc => (fst kp, @nil (Z * Z))) pend) k [] = []).
    { intros k. destruct PS as [->|(A & B & ->)]; [reflexivity|]. unfold agetd. cbn [map fst aget].
      destruct (1 =? k); [reflexivity|]. destruct (2 =? k); reflexivity. }
    destruct HA as (HL & HI & HF & Hh & HC).
    (* the pending stamps lie above the committed ones and ascend *)
    assert (M : forall X Y, length Sc = length X -> length Sp = length Y ->
                merge_sorted (combine Sp Y) (combine Sc X) = combine (Sc ++ Sp) (X ++ Y)).
    { intros X Y LX LY. rewrite combine_app by exact LX. apply merge_sorted_append.
      - apply combine_sorted. rewrite ES in HI. clear -HI.
        induction Sc as [|x Sc IH]; [exact HI|]. apply IH. inversion HI; assumption.
      - intros [q1 q2] [p1 p2] Hq Hp. apply in_combine_l in Hq. apply in_combine_l in Hp. cbn [fst].
        rewrite ES in HI. clear -HI Hq Hp. induction Sc as [|x Sc IH]; [destruct Hq|].
        inversion HI as [|? ? HI' F]; subst. destruct Hq as [<-|Hq].
        + rewrite Forall_forall in F. apply F. apply in_or_app. right. exact Hp.
        + apply IH; assumption. }
    destruct (list_eq_dec Z.eq_dec Sp []) as [ESp|NSp].
    + (* nothing pending: the summary does not move *)
      subst Sp.
      assert (AS : abs_step a SCommit = a).
      { cbn [abs_step]. rewrite EU. destruct (a_S a); reflexivity. }
      rewrite AS.
      exists Sc, Vc, [], Vp. destruct Vp; [|discriminate].
      repeat split; try assumption; try (rewrite PE; reflexivity).
      * rewrite G1, P1, C1. reflexivity.
      * rewrite G2, P2, C2. reflexivity.
    + assert (EU' : a_unc a = true) by (rewrite EU; destruct Sp; [contradiction|reflexivity]).
      assert (NS : a_S a <> []) by (rewrite ES; destruct Sc; [exact NSp|discriminate]).
      assert (AS : abs_step a SCommit =
                   Abs (a_S a) (a_V a) (Some (a_hwm a + 1, a_S a, a_V a)) (a_hwm a) false (a_hwm a + 1)).
      { cbn [abs_step]. rewrite EU'. destruct (a_S a); [contradiction|reflexivity]. }
      rewrite AS.
      exists (Sc ++ Sp), (Vc ++ Vp), [], []. cbn [a_S a_V a_C a_unc]. rewrite !app_nil_r.
      split; [exact ES|]. split; [exact EV|]. split; [rewrite !app_length; lia|]. split; [reflexivity|].
      split.
      * rewrite Hh, <- ES, <- EV. destruct (a_S a); [contradiction|reflexivity].
      * split; [reflexivity|]. split; [exact PS'|]. split; [apply PE|]. split; [apply PE|].
        split.
        -- rewrite G1, P1, C1. apply M; reflexivity.
        -- rewrite G2, P2, C2. apply M; assumption.
Qed.

Lemma rel_run : forall ops a comm pend, ainv start a -> legal start a ops -> rel a comm pend ->
  exists comm' pend',
    spec_run (sspec comm pend) (map sop_wop ops) (map (fun _ => 0) ops) = sspec comm' pend' /\
    rel (fold_left abs_step ops a) comm' pend'.
Proof.
  induction ops as [|o r IH]; intros a comm pend HA Hl HR.
  - exists comm, pend. split; [reflexivity|exact HR].
  - cbn [legal] in Hl. destruct Hl as [H1 H2].
    destruct (rel_step a o comm pend HA H1 HR) as (c1 & p1 & S1 & R1).
    destruct (IH (abs_step a o) c1 p1 (ainv_step kind start a o HA H1) H2 R1) as (c2 & p2 & S2 & R2).
    exists c2, p2. cbn [map spec_run fold_left]. rewrite S1. split; [exact S2|exact R2].
Qed.

Lemma spec_run_app s l1 l2 c1 c2 : length l1 = length c1 ->
  spec_run s (l1 ++ l2) (c1 ++ c2) = spec_run (spec_run s l1 c1) l2 c2.
Proof.
  revert s c1. induction l1 as [|o l1 IH]; intros s c1 H; destruct c1; try discriminate; [reflexivity|].
  cbn [app spec_run]. apply IH. cbn in H. lia.
Qed.

(* the specification [committed] agrees with the summary [visible] of the session *)
Theorem visible_is_committed ops : legal start (abs0 start) ops ->
  let h := session_history start ops in
  let '(Sc, Vc) := visible start ops in
  committed chs h (map (fun _ => 0) h) 1 = combine Sc Sc /\
  committed chs h (map (fun _ => 0) h) 2 = combine Sc Vc.
Proof.
  intros Hl. cbv zeta. unfold committed, session_history.
  cbn [map spec_run]. rewrite spec_open.
  rewrite map_app. rewrite spec_run_app by (rewrite !map_length; reflexivity).
  rewrite map_map.
  destruct (rel_run ops (abs0 start) [] [] (ainv0 start) Hl rel0) as (c & p & SR & RR). rewrite SR.
  cbn [map spec_run spec_step sspec sp_comm].
  destruct RR as (Sc & Vc & Sp & Vp & ES & EV & LC & LP & EC & EU & PS & P1 & P2 & C1 & C2).
  unfold visible, abs_run. rewrite EC. destruct Sc as [|x Sc'].
  - destruct Vc; [|discriminate]. rewrite C1, C2. split; reflexivity.
  - rewrite C1, C2. split; reflexivity.
Qed.

End Spec.
