(* Cesium/ReadExact.v — what DB.Read returns for one channel, in terms of the channel's
   content: when the index look-ups of the read succeed, the series it returns, paired with
   the index stamps of their time ranges, are exactly the stored (stamp, sample) pairs whose
   stamp lies in the requested range. *)
From Coq Require Import ZArith List Bool Lia.
From Synnax Require Import Cesium.Store Cesium.StoreProofs Cesium.IndexSearch Cesium.Distance
  Cesium.Stamp Cesium.DeleteModel Cesium.DeleteBase Cesium.DeleteSearch Cesium.DeleteDistance
  Cesium.DeleteOffsets Cesium.DeleteContent Cesium.DeleteExact.
Import ListNotations.
Local Open Scope Z_scope.

(* the read result with the error of the iterator exposed (DB.Read drops it: an iterator
   that hits an error is invalid and its frame is not returned) *)
Definition read_chan_res (P : list dom) (c : chan) (b : tr) : res (list rseries) :=
  let '(it, ok) := di_seek_first (doms c) (di_open b) in
  if negb ok then Ok [] else
  let s0 := t_s (bound_by (di_tr it) b) in
  if s0 =? t_e b then Ok [] else
  let v := bound_by (span_range s0 MAXTS) b in
  if (tspan v =? 0) || (t_e v <=? t_s (di_tr it)) then Ok [] else
  read_loop P c true (skipn (Z.to_nat (di_pos it)) (c_ptrs c)) b v.

Lemma read_chan_of_res P c b :
  read_chan P c b = match read_chan_res P c b with Ok l => l | Err _ => [] end.
Proof.
  unfold read_chan, read_chan_res. destruct (di_seek_first (doms c) (di_open b)) as [it ok].
  destruct (negb ok); [reflexivity|]. destruct (_ =? _); [reflexivity|]. destruct (_ || _); reflexivity.
Qed.

(* a series paired with the index stamps of its time range *)
Definition stamp_series (G : list Z) (s : rseries) : list (Z * sample) :=
  combine (stamps_in G (t_s (rs_tr s)) (t_e (rs_tr s))) (rs_data s).
Definition read_content (G : list Z) (l : list rseries) : list (Z * sample) :=
  flat_map (stamp_series G) l.

Definition inside_r (rs re : Z) (ts : Z * sample) : bool := in_range rs re (fst ts).

(* ------------------------------------------------------------------ one pointer *)
Lemma pick_sample_offset_ok P ds te a :
  widx P -> ds <= te -> distance P (TR ds te) true = Ok a ->
  pick_sample_offset a = cnt_lt te (allst P) - cnt_lt ds (allst P).
Proof.
  intros Hw Hle Hd. destruct (Z.eq_dec ds te) as [->|Hne].
  - rewrite (distance_zero_ok P te a Hd). unfold pick_sample_offset. simpl. lia.
  - destruct (distance_ok P ds te a Hw ltac:(lia) Hd) as (Hhi & Hlo & _ & _).
    unfold pick_sample_offset, da_exact. rewrite Hhi, Hlo.
    set (k := cnt_lt te (allst P) - cnt_lt ds (allst P)).
    destruct (da_se a), (da_ee a); simpl.
    + replace (k - 0 =? k + 0) with true by (symmetry; apply Z.eqb_eq; lia). simpl. lia.
    + replace (k - 1 =? k + 0) with false by (symmetry; apply Z.eqb_neq; lia). simpl. lia.
    + replace (k - 0 =? k + 1) with false by (symmetry; apply Z.eqb_neq; lia). simpl. lia.
    + replace (k - 1 =? k + 1) with false by (symmetry; apply Z.eqb_neq; lia). simpl.
      replace (k - 1 + (k + 1)) with (k * 2) by lia. rewrite Z.quot_mul; lia.
Qed.

Lemma take_drop_sub l i j : pos_samples l -> (i <= j <= length l)%nat ->
  take_bytes (bytes_of (firstn j l) - bytes_of (firstn i l)) (drop_bytes (bytes_of (firstn i l)) l) =
  firstn (j - i) (skipn i l).
Proof.
  intros Hp Hij.
  assert (Hl : l = firstn i l ++ firstn (j - i) (skipn i l) ++ skipn j l).
  { rewrite <- (firstn_skipn i l) at 1. f_equal. rewrite <- (firstn_skipn (j - i) (skipn i l)) at 1. f_equal.
    rewrite <- skipn_add. f_equal. lia. }
  assert (Hb : bytes_of (firstn j l) = bytes_of (firstn i l) + bytes_of (firstn (j - i) (skipn i l))).
  { replace j with (i + (j - i))%nat at 1 by lia. rewrite firstn_add, bytes_of_app. reflexivity. }
  rewrite Hb. replace (bytes_of (firstn i l) + bytes_of (firstn (j - i) (skipn i l)) - bytes_of (firstn i l))
    with (bytes_of (firstn (j - i) (skipn i l))) by lia.
  assert (HA : pos_samples (firstn i l)) by (apply pos_firstn; exact Hp).
  assert (HB : pos_samples (firstn (j - i) (skipn i l))) by (apply pos_firstn; apply pos_skipn; exact Hp).
  remember (firstn i l) as A. remember (firstn (j - i) (skipn i l)) as B. remember (skipn j l) as C.
  rewrite Hl. rewrite drop_bytes_app by exact HA. apply take_bytes_app. exact HB.
Qed.

Section Slice.
Variables (P : list dom) (c : chan) (p : ptr) (rs re : Z).
Hypothesis Hw : widx P.
Let G := allst P.
Hypothesis Hd : dens_ok c.
Hypothesis Hf : files_pos c.
Hypothesis Hpa : ptr_aligned c p.
Hypothesis Hal : aligned_ptr G c p.
Let ts := t_s (p_tr p).
Let te := t_e (p_tr p).
Let smp := ptr_samples c p.
Hypothesis Hne : ts < te.
(* the view [s0, re) of the read, restricted to this pointer *)
Variable s0 : Z.
Hypothesis Hv : s0 < re.
Hypothesis Hov : Z.max ts s0 < Z.min te re.

Let x1 := Z.max ts s0.
Let x2 := Z.min te re.
Let k1 := cnt_lt x1 G - cnt_lt ts G.
Let k2 := cnt_lt x2 G - cnt_lt ts G.
Let HG : sincr G := allst_sincr P Hw.

Lemma k12 : 0 <= k1 <= k2 /\ k2 <= zlen smp.
Proof using All.
  unfold k1, k2, x1, x2. unfold aligned_ptr in Hal. fold ts te smp in Hal.
  pose proof (cnt_lt_mono G ts (Z.max ts s0) ltac:(lia)).
  pose proof (cnt_lt_mono G (Z.max ts s0) (Z.min te re) ltac:(lia)).
  pose proof (cnt_lt_mono G (Z.min te re) te ltac:(lia)). lia.
Qed.

Lemma slice_ptr_ok s :
  slice_ptr P c p (TR s0 re) = Ok s ->
  rs_tr s = TR x1 x2 /\ rs_data s = sub smp k1 k2.
Proof using All.
  unfold slice_ptr. fold ts te. simpl t_s. simpl t_e.
  destruct k12 as [Hk1 Hk2].
  assert (Hbo : forall k, 0 <= k <= zlen smp -> byte_offset c p k = Ok (bytes_of (firstn (Z.to_nat k) smp)))
    by (intros; apply byte_offset_spec; assumption).
  (* start offset *)
  assert (Hstart : forall a, distance P (if ts <? s0 then TR ts s0 else point ts) true = Ok a ->
                     pick_sample_offset a = k1).
  { intros a Ha. unfold k1, x1. destruct (ts <? s0) eqn:E.
    - apply Z.ltb_lt in E. rewrite (pick_sample_offset_ok P ts s0 a Hw ltac:(lia) Ha). fold G.
      replace (Z.max ts s0) with s0 by lia. reflexivity.
    - apply Z.ltb_ge in E. rewrite point_eq in Ha. rewrite (pick_sample_offset_ok P ts ts a Hw ltac:(lia) Ha).
      replace (Z.max ts s0) with ts by lia. lia. }
  destruct (distance P (if ts <? s0 then TR ts s0 else point ts) true) as [sa|e] eqn:Esa; simpl; [|discriminate].
  rewrite (Hstart sa eq_refl), (Hbo k1 ltac:(lia)). simpl.
  (* end offset *)
  assert (Hend : forall ea, (if re <? te then distance P (TR ts re) true
                             else Ok (DA (domain_sample_count c p) (domain_sample_count c p) false false)) = Ok ea ->
                   pick_sample_offset ea = k2).
  { intros ea Hea. unfold k2, x2. destruct (re <? te) eqn:E.
    - apply Z.ltb_lt in E. rewrite (pick_sample_offset_ok P ts re ea Hw ltac:(lia) Hea). fold G.
      replace (Z.min te re) with re by lia. reflexivity.
    - apply Z.ltb_ge in E. inversion Hea; subst ea. unfold pick_sample_offset, da_exact. simpl.
      rewrite Z.eqb_refl. simpl. rewrite (domain_sample_count_spec c p Hd Hpa).
      unfold aligned_ptr in Hal. fold ts te smp in Hal. fold smp. replace (Z.min te re) with te by lia. lia. }
  match goal with |- rbind ?x _ = _ -> _ => destruct x as [ea|e] eqn:Eea end; simpl; [|discriminate].
  rewrite (Hend ea eq_refl), (Hbo k2 ltac:(lia)). simpl.
  pose proof (ptr_samples_pos c p Hf Hpa) as Hpos. fold smp in Hpos.
  destruct (bytes_firstn_mono smp (Z.to_nat k1) (Z.to_nat k2) Hpos ltac:(unfold zlen in *; lia)) as [Hmono _].
  destruct (_ <? 0) eqn:Eneg; [apply Z.ltb_lt in Eneg; lia|].
  intros [= <-]. simpl. split.
  - rewrite bound_by_inter by (simpl; lia). simpl. reflexivity.
  - fold smp. rewrite take_drop_sub by (assumption || (unfold zlen in *; lia)).
    unfold sub. f_equal. lia.
Qed.

(* the samples of this pointer stamped inside [rs, re), when s0 = max rs (first start) *)
Lemma filter_inside :
  (rs <= x1 /\ (x1 <= rs \/ x1 = ts)) ->
  filter (inside_r rs re) (ptr_content G c p) = combine (stamps_in G x1 x2) (sub smp k1 k2).
Proof using All.
  intros Hx1. destruct k12 as [Hk1 Hk2].
  (* split the pointer's content at x1 and x2 *)
  rewrite (ptr_content_split G c p x2 HG Hal ltac:(fold ts te; unfold x2; lia)). fold ts te smp k2. cbv zeta.
  rewrite filter_app.
  assert (Hlast : filter (inside_r rs re) (combine (stamps_in G x2 te) (skipn (Z.to_nat k2) smp)) = []).
  { destruct (Z.eq_dec x2 te) as [->|Hne2]; [rewrite stamps_empty by assumption; reflexivity|].
    apply filter_none. intros y Hy. apply combine_fst_in in Hy. apply stamps_in_range in Hy.
    unfold inside_r, in_range. destruct (fst y <? re) eqn:E; [apply Z.ltb_lt in E; unfold x2 in *; lia|].
    apply andb_false_r. }
  rewrite Hlast, app_nil_r.
  rewrite (stamps_in_split G ts x1 x2 HG ltac:(unfold x1, x2; lia)).
  assert (Hsplit : firstn (Z.to_nat k2) smp = firstn (Z.to_nat k1) smp ++ sub smp k1 k2).
  { unfold sub. replace (Z.to_nat k2) with (Z.to_nat k1 + Z.to_nat (k2 - k1))%nat at 1 by lia. apply firstn_add. }
  rewrite Hsplit, combine_app.
  - rewrite filter_app.
    assert (Hfirst : filter (inside_r rs re) (combine (stamps_in G ts x1) (firstn (Z.to_nat k1) smp)) = []).
    { destruct Hx1 as [_ [Hx|Hx]].
      - apply filter_none. intros y Hy. apply combine_fst_in in Hy. apply stamps_in_range in Hy.
        unfold inside_r, in_range. destruct (rs <=? fst y) eqn:E; [apply Z.leb_le in E; lia|reflexivity].
      - rewrite Hx, stamps_empty by assumption. reflexivity. }
    rewrite Hfirst. simpl. apply filter_all. intros y Hy. apply combine_fst_in in Hy. apply stamps_in_range in Hy.
    unfold inside_r, in_range. destruct Hx1 as [Hx1 _].
    destruct (rs <=? fst y) eqn:E1; [|apply Z.leb_gt in E1; lia].
    destruct (fst y <? re) eqn:E2; [reflexivity|apply Z.ltb_ge in E2; unfold x2 in *; lia].
  - pose proof (stamps_in_zlen G ts x1 HG ltac:(unfold x1; lia)) as Hz. unfold zlen in Hz.
    rewrite firstn_length. unfold k1 in *. unfold zlen in *. lia.
Qed.
End Slice.

(* ------------------------------------------------------------------ the loop over the domains *)
Lemma span_range_max_end ref : 0 <= ref <= MAXTS -> span_range ref MAXTS = TR ref MAXTS.
Proof.
  intros H. unfold span_range, add_clamp, MAXTS, MINI64 in *.
  destruct ((0 <? 9223372036854775807) && (9223372036854775807 - 9223372036854775807 <? ref)) eqn:E.
  - apply make_valid_valid. simpl. lia.
  - simpl in E. apply Z.ltb_ge in E. assert (ref = 0) by lia. subst. vm_compute. reflexivity.
Qed.

Lemma overlaps_ne (t : tr) s e : t_s t < t_e t -> s < e ->
  overlaps t (TR s e) = (Z.max (t_s t) s <? Z.min (t_e t) e).
Proof. intros H1 H2. rewrite overlaps_nonempty by (simpl; lia). reflexivity. Qed.

Lemma stamp_series_nil G t : stamp_series G (RS t []) = [].
Proof. unfold stamp_series. simpl. apply combine_nil. Qed.

Lemma filter_flat_map_none {A B} (f : B -> bool) (g : A -> list B) l :
  (forall x, In x l -> filter f (g x) = []) -> filter f (flat_map g l) = [].
Proof.
  induction l as [|x l IH]; intros H; simpl; [reflexivity|].
  rewrite filter_app, (H x (or_introl eq_refl)), IH by (intros; apply H; right; assumption). reflexivity.
Qed.

Section Loop.
Variables (P : list dom) (c : chan) (rs re s0 : Z).
Hypothesis Hw : widx P.
Let G := allst P.
Hypothesis Hok : chan_ok G c.
Hypothesis Hr : rs <= s0 < re.

Lemma read_loop_ok : forall ql first l,
  sorted_ptrs ql -> (forall q, In q ql -> In q (c_ptrs c)) ->
  (forall q, In q ql -> rs <= Z.max (t_s (p_tr q)) s0 /\
                        (Z.max (t_s (p_tr q)) s0 <= rs \/ Z.max (t_s (p_tr q)) s0 = t_s (p_tr q))) ->
  (first = false -> forall q, In q ql -> s0 <= t_s (p_tr q)) ->
  (first = true -> match ql with q :: _ => overlaps (p_tr q) (TR s0 re) = true | [] => True end) ->
  read_loop P c first ql (TR rs re) (TR s0 re) = Ok l ->
  read_content G l = filter (inside_r rs re) (flat_map (ptr_content G c) ql).
Proof.
  induction ql as [|q ql IH]; intros first l Hs Hin Hc Hnf Hf; simpl.
  - intros [= <-]. reflexivity.
  - pose proof (sorted_ptrs_head _ _ Hs) as Hne.
    pose proof (sorted_ptrs_after _ _ Hs) as Hafter. rewrite Forall_forall in Hafter.
    assert (Hqin : In q (c_ptrs c)) by (apply Hin; left; reflexivity).
    destruct Hok as [[Hfp Hpa _] Hd Hal _]. rewrite Forall_forall in Hpa, Hal.
    (* once a pointer starts at or after re, nothing of it or of the later ones is inside *)
    assert (Hstop : re <= t_s (p_tr q) ->
              filter (inside_r rs re) (flat_map (ptr_content G c) (q :: ql)) = []).
    { intros Hge. apply filter_flat_map_none. intros x Hx.
      assert (Hxs : re <= t_s (p_tr x)).
      { destruct Hx as [<-|Hx]; [exact Hge|]. destruct (Hafter x Hx). lia. }
      apply filter_none. intros y Hy. apply combine_fst_in in Hy. apply stamps_in_range in Hy.
      unfold inside_r, in_range. destruct (fst y <? re) eqn:E; [apply Z.ltb_lt in E; lia|]. apply andb_false_r. }
    destruct (negb first && negb (overlaps (p_tr q) (TR rs re))) eqn:E1.
    + (* not the first domain, and outside the bounds *)
      apply andb_true_iff in E1 as [Ef Eo]. apply negb_true_iff in Ef, Eo. subst first.
      rewrite overlaps_ne in Eo by lia. apply Z.ltb_ge in Eo.
      pose proof (Hnf eq_refl q (or_introl eq_refl)).
      intros [= <-]. simpl. symmetry. apply Hstop. lia.
    + destruct (negb (overlaps (p_tr q) (TR s0 re))) eqn:E2.
      * apply negb_true_iff in E2. destruct first.
        -- specialize (Hf eq_refl). simpl in Hf. congruence.
        -- rewrite overlaps_ne in E2 by lia. apply Z.ltb_ge in E2.
           pose proof (Hnf eq_refl q (or_introl eq_refl)).
           intros [= <-]. simpl. symmetry. apply Hstop. lia.
      * apply negb_false_iff in E2. rewrite overlaps_ne in E2 by lia. apply Z.ltb_lt in E2.
        destruct (slice_ptr P c q (TR s0 re)) as [s|e] eqn:Es; simpl; [|discriminate].
        destruct (read_loop P c false ql (TR rs re) (TR s0 re)) as [rest|e] eqn:Er; simpl; [|discriminate].
        intros [= <-].
        destruct (slice_ptr_ok P c q rs re Hw Hd Hfp (Hpa q Hqin) (Hal q Hqin) Hne s0 ltac:(lia) E2 s Es) as [Htr Hdata].
        pose proof (filter_inside P c q rs re Hw Hd Hfp (Hpa q Hqin) (Hal q Hqin) Hne s0 ltac:(lia) E2 (Hc q (or_introl eq_refl))) as Hfi.
        fold G in Hfi, Hdata.
        assert (Hrest : read_content G rest = filter (inside_r rs re) (flat_map (ptr_content G c) ql)).
        { apply (IH false rest); auto.
          - eapply sorted_ptrs_tail; eauto.
          - intros x Hx. apply Hin. right. exact Hx.
          - intros x Hx. apply Hc. right. exact Hx.
          - intros _ x Hx. destruct (Hafter x Hx) as [Hx1 _]. lia.
          - discriminate. }
        rewrite filter_app, Hfi, <- Hrest.
        assert (Hser : stamp_series G s = combine (stamps_in G (Z.max (t_s (p_tr q)) s0) (Z.min (t_e (p_tr q)) re))
                                           (sub (ptr_samples c q) (cnt_lt (Z.max (t_s (p_tr q)) s0) G - cnt_lt (t_s (p_tr q)) G)
                                                (cnt_lt (Z.min (t_e (p_tr q)) re) G - cnt_lt (t_s (p_tr q)) G))).
        { unfold stamp_series. rewrite Htr, Hdata. reflexivity. }
        destruct (rs_data s) eqn:Edata.
        -- rewrite <- Hser. unfold stamp_series. rewrite Edata, combine_nil. reflexivity.
        -- unfold read_content. simpl. rewrite Hser. reflexivity.
Qed.
End Loop.

(* ------------------------------------------------------------------ DB.Read of one channel *)
Lemma content_before_none G c L rs re :
  (forall q, In q L -> t_e (p_tr q) <= rs) ->
  filter (inside_r rs re) (flat_map (ptr_content G c) L) = [].
Proof.
  intros H. apply filter_flat_map_none. intros x Hx. apply filter_none. intros y Hy.
  apply combine_fst_in in Hy. apply stamps_in_range in Hy. pose proof (H x Hx).
  unfold inside_r, in_range. destruct (rs <=? fst y) eqn:E; [apply Z.leb_le in E; lia|reflexivity].
Qed.

Lemma content_after_none G c R rs re :
  (forall q, In q R -> re <= t_s (p_tr q)) ->
  filter (inside_r rs re) (flat_map (ptr_content G c) R) = [].
Proof.
  intros H. apply filter_flat_map_none. intros x Hx. apply filter_none. intros y Hy.
  apply combine_fst_in in Hy. apply stamps_in_range in Hy. pose proof (H x Hx).
  unfold inside_r, in_range. destruct (fst y <? re) eqn:E; [apply Z.ltb_lt in E; lia|]. apply andb_false_r.
Qed.

Theorem read_exact_ok P c rs re l :
  widx P -> chan_ok (allst P) c -> 0 <= rs < re -> re <= MAXTS ->
  read_chan_res P c (TR rs re) = Ok l ->
  read_content (allst P) l = filter (inside_r rs re) (content (allst P) c).
Proof.
  intros Hw Hok Hr HM. set (G := allst P) in *.
  assert (Hsorted : sorted_ptrs (c_ptrs c)) by apply Hok.
  unfold read_chan_res, di_seek_first, di_open, di_seek_ge, search_ge. cbn [di_b t_s t_e di_cur].
  destruct (usearch (doms c) (point rs)) as [sd0 sx] eqn:Eus.
  assert (HzD : zlen (doms c) = zlen (c_ptrs c)) by (unfold doms, zlen; rewrite map_length; reflexivity).
  destruct (start_pos c Hsorted rs sd0 sx Eus) as [(Hsx & Hsd & Hall)|(L & p0 & R & E & Hl & HLa & Hsc)].
  - (* the range starts after every domain *)
    subst sx. simpl in Hsd.
    destruct (sd0 =? zlen (doms c)) eqn:E0; [apply Z.eqb_eq in E0; lia|].
    rewrite di_reload_none by (apply znth_None; right; lia). simpl.
    intros [= <-]. simpl. symmetry. apply content_before_none. exact Hall.
  - set (sd := if sx then sd0 else sd0 + 1) in *.
    assert (Hp0 : znth (c_ptrs c) sd = Some p0) by (rewrite E, <- Hl; apply znth_mid).
    pose proof (znth_Some _ _ _ Hp0) as Hsdr.
    assert (Hpos : (if sx then sd0 else if sd0 =? zlen (doms c) then -1 else sd0 + 1) = sd).
    { unfold sd. destruct sx; [reflexivity|]. destruct (sd0 =? zlen (doms c)) eqn:E0; [apply Z.eqb_eq in E0; unfold sd in *; lia|reflexivity]. }
    rewrite Hpos.
    rewrite (di_reload_at (doms c) (TR rs re) sd zero_dom (dom_of c p0) (doms_znth c sd p0 Hp0) ltac:(lia)).
    cbn [d_tr dom_of].
    assert (Hp0in : In p0 (c_ptrs c)) by (rewrite E; apply In_app_mid).
    assert (Hne0 : t_s (p_tr p0) < t_e (p_tr p0)).
    { pose proof (sorted_ptrs_nonempty _ Hsorted) as Hn. rewrite Forall_forall in Hn. apply Hn. exact Hp0in. }
    assert (HR : forall q, In q R -> t_e (p_tr p0) <= t_s (p_tr q)).
    { rewrite E in Hsorted. apply sorted_ptrs_app_inv in Hsorted as [_ Hs2].
      pose proof (sorted_ptrs_after _ _ Hs2) as Ha. rewrite Forall_forall in Ha. intros q Hq. apply Ha. exact Hq. }
    unfold content. rewrite E, flat_map_app, filter_app, (content_before_none G c L rs re HLa). simpl app.
    rewrite overlaps_ne by lia.
    destruct (Z.max (t_s (p_tr p0)) rs <? Z.min (t_e (p_tr p0)) re) eqn:Eo; cbv beta iota zeta; cbn [negb].
    2:{ (* the first candidate domain starts at or after re *)
        apply Z.ltb_ge in Eo. intros [= <-]. simpl. symmetry. apply (content_after_none G c (p0 :: R) rs re).
        assert (Hge : re <= t_s (p_tr p0)) by (destruct sx; lia).
        intros q [<-|Hq]; [exact Hge|]. pose proof (HR q Hq). lia. }
    apply Z.ltb_lt in Eo. unfold di_tr. cbn [di_cur d_tr dom_of di_pos].
    rewrite bound_by_inter by (simpl; lia). cbn [t_s t_e].
    set (s0 := Z.max (t_s (p_tr p0)) rs) in *.
    destruct (s0 =? re) eqn:E1; [apply Z.eqb_eq in E1; lia|].
    assert (Hs00 : 0 <= s0 <= MAXTS) by (unfold s0; lia).
    rewrite (span_range_max_end s0 Hs00). rewrite bound_by_inter by (simpl; lia). simpl.
    replace (Z.max s0 rs) with s0 by lia. replace (Z.min MAXTS re) with re by lia.
    unfold tspan. simpl.
    destruct (re - s0 =? 0) eqn:E2; [apply Z.eqb_eq in E2; lia|].
    destruct (re <=? t_s (p_tr p0)) eqn:E3; [apply Z.leb_le in E3; unfold s0 in *; lia|]. simpl.
    rewrite <- Hl, skipn_zlen_app.
    intros Hloop. change (ptr_content G c p0 ++ flat_map (ptr_content G c) R) with (flat_map (ptr_content G c) (p0 :: R)).
    apply (read_loop_ok P c rs re s0 Hw Hok ltac:(unfold s0; lia) (p0 :: R) true l); try assumption.
    + rewrite E in Hsorted. apply sorted_ptrs_app_inv in Hsorted as [_ Hs2]. exact Hs2.
    + intros q Hq. rewrite E. apply in_or_app. right. exact Hq.
    + intros q [Hq|Hq].
      * subst q. unfold s0. split; [lia|]. destruct (Z_le_gt_dec (t_s (p_tr p0)) rs); [left; lia|right; lia].
      * pose proof (HR q Hq). unfold s0 in *. split; [lia|right; lia].
    + discriminate.
    + intros _. rewrite overlaps_ne by lia. apply Z.ltb_lt. unfold s0 in *. lia.
Qed.
