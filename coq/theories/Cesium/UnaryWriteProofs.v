(* Cesium/UnaryWriteProofs.v — write side, layer lemmas: a Write without auto-commit never
   changes what any channel has committed (so no read can see it); Close and Reopen leave the
   committed domains alone; the first commit of a writer session on an empty channel produces
   the domain [start, end) holding exactly the samples written. *)
From Coq Require Import ZArith List Bool Lia.
From Synnax Require Import Cesium.Store Cesium.StoreProofs Cesium.IndexSearch Cesium.Stamp Cesium.UnaryIter
     Cesium.UnaryWrite Cesium.Read.
Import ListNotations.
Local Open Scope Z_scope.

(* two databases that read alike: same channels, kinds, index keys and committed domains *)
Definition same_chan (a b : chan) : Prop :=
  c_key a = c_key b /\ c_idx a = c_idx b /\ c_kind a = c_kind b /\ c_doms a = c_doms b.
Definition same_db (d d' : db) : Prop :=
  forall k, match get_chan d k, get_chan d' k with
            | Some a, Some b => same_chan a b
            | None, None => True
            | _, _ => False
            end.

Lemma same_db_refl d : same_db d d.
Proof. intros k. destruct (get_chan d k); [unfold same_chan; auto|exact I]. Qed.

Lemma same_db_trans a b c : same_db a b -> same_db b c -> same_db a c.
Proof.
  intros H1 H2 k. specialize (H1 k). specialize (H2 k).
  destruct (get_chan a k), (get_chan b k), (get_chan c k); try contradiction; auto.
  unfold same_chan in *. destruct H1 as (A1 & A2 & A3 & A4), H2 as (B1 & B2 & B3 & B4).
  repeat split; congruence.
Qed.

Lemma get_put d c k :
  get_chan (put_chan d c) k =
  match get_chan d (c_key c) with
  | Some _ => if c_key c =? k then Some c else get_chan d k
  | None => get_chan d k
  end.
Proof.
  induction d as [|x d IH]; [reflexivity|].
  change (put_chan (x :: d) c) with (if c_key x =? c_key c then c :: d else x :: put_chan d c).
  change (get_chan (x :: d) (c_key c)) with (if c_key x =? c_key c then Some x else get_chan d (c_key c)).
  change (get_chan (x :: d) k) with (if c_key x =? k then Some x else get_chan d k).
  destruct (c_key x =? c_key c) eqn:E; zb.
  - change (get_chan (c :: d) k) with (if c_key c =? k then Some c else get_chan d k).
    destruct (c_key c =? k) eqn:E2; zb; [reflexivity|].
    destruct (c_key x =? k) eqn:E3; zb; [lia|reflexivity].
  - change (get_chan (x :: put_chan d c) k) with (if c_key x =? k then Some x else get_chan (put_chan d c) k).
    rewrite IH. destruct (c_key x =? k) eqn:E3; zb; [|reflexivity].
    destruct (get_chan d (c_key c)); [|reflexivity].
    destruct (c_key c =? k) eqn:E4; zb; [lia|reflexivity].
Qed.

Lemma put_same d c c0 : get_chan d (c_key c) = Some c0 -> same_chan c0 c -> same_db d (put_chan d c).
Proof.
  intros G S k. rewrite get_put, G.
  destruct (c_key c =? k) eqn:E; zb.
  - subst k. rewrite G. exact S.
  - destruct (get_chan d k); [unfold same_chan; auto|exact I].
Qed.

Lemma get_chan_key d k c : get_chan d k = Some c -> c_key c = k.
Proof.
  induction d as [|x d IH]; [discriminate|]. cbn [get_chan]. destruct (c_key x =? k) eqn:E; zb.
  - intros H. inversion H; subst. reflexivity.
  - exact IH.
Qed.

Lemma same_layout d d' : same_db d d' -> forall k, chan_layout d k = chan_layout d' k.
Proof.
  intros S k. unfold chan_layout. pose proof (S k) as Sk.
  destruct (get_chan d k) as [a|], (get_chan d' k) as [b|]; try contradiction; [|reflexivity].
  destruct Sk as (K & I & Kd & Dm).
  assert (IK : c_index_key a = c_index_key b) by (unfold c_index_key, c_is_index; rewrite K, I; reflexivity).
  rewrite IK, Dm, Kd. unfold doms_of. pose proof (S (c_index_key b)) as Si.
  destruct (get_chan d (c_index_key b)) as [x|], (get_chan d' (c_index_key b)) as [y|]; try contradiction; [|reflexivity].
  destruct Si as (_ & _ & _ & Dx). rewrite Dx. reflexivity.
Qed.

(* ---- a write only grows files ---- *)
Lemma write_chan_same d wc vs : same_db d (fst (write_chan d wc vs)).
Proof.
  unfold write_chan. destruct (get_chan d (wc_key wc)) as [c|] eqn:G; [|apply same_db_refl].
  cbn [fst]. pose proof (get_chan_key _ _ _ G) as K.
  apply (put_same d _ c); [cbn [c_key]; rewrite K; exact G|]. unfold same_chan. cbn. auto.
Qed.

Lemma write_chans_same wcs : forall d f, same_db d (fst (write_chans d wcs f)).
Proof.
  induction wcs as [|wc r IH]; intros d f; [apply same_db_refl|]. cbn [write_chans].
  destruct (frame_get f (wc_key wc)) as [vs|].
  - pose proof (write_chan_same d wc vs) as W. destruct (write_chan d wc vs) as [d1 wc1]. cbn [fst] in W.
    specialize (IH d1 f). destruct (write_chans d1 r f) as [d2 r2]. cbn [fst] in *.
    eapply same_db_trans; eauto.
  - specialize (IH d f). destruct (write_chans d r f) as [d2 r2]. cbn [fst] in *. exact IH.
Qed.

Lemma group_write_same d g f d' g' : group_write d g f = Ok (d', g') -> same_db d d'.
Proof.
  unfold group_write. destruct (validate_write g f) as [[n|]|e]; cbn [rbind]; try discriminate.
  - destruct (n =? 0); [intros H; inversion H; apply same_db_refl|].
    pose proof (write_chans_same (g_chs g) d f) as W. destruct (write_chans d (g_chs g) f) as [d1 chs]. cbn [fst] in W.
    intros H. inversion H; subst. exact W.
  - intros H. inversion H. apply same_db_refl.
Qed.

Lemma groups_write_manual_same nominal start : forall gs d f,
  same_db d (fst (fst (groups_write nominal false start d gs f))).
Proof.
  induction gs as [|g r IH]; intros d f; [apply same_db_refl|]. cbn [groups_write].
  destruct (group_write d g f) as [[d1 g1]|e] eqn:GW; [|apply same_db_refl].
  pose proof (group_write_same _ _ _ _ _ GW) as S1.
  specialize (IH d1 f). destruct (groups_write nominal false start d1 r f) as [[d3 r3] e3]. cbn [fst] in *.
  eapply same_db_trans; eauto.
Qed.

(* Write without auto-commit, Close and Reopen leave every channel's committed domains — and
   therefore every read — unchanged *)
Theorem uncommitted_invisible st o :
  match o with
  | WWrite _ => match s_w st with Some w => w_auto w = false | None => True end
  | WClose | WReopen => True
  | _ => False
  end ->
  same_db (s_db st) (s_db (fst (w_step st o))).
Proof.
  destruct o; cbn [w_step]; try contradiction; intros H; try apply same_db_refl.
  destruct (s_w st) as [w|]; [|apply same_db_refl]. rewrite H.
  pose proof (groups_write_manual_same (nominal_of st) (w_start w) (w_groups w) (s_db st) f) as S.
  destruct (groups_write (nominal_of st) false (w_start w) (s_db st) (w_groups w) f) as [[d gs] e]. cbn [fst] in S.
  destruct e; cbn [fst s_db]; exact S.
Qed.

Corollary uncommitted_invisible_read st o k t :
  match o with
  | WWrite _ => match s_w st with Some w => w_auto w = false | None => True end
  | WClose | WReopen => True
  | _ => False
  end ->
  read_chan (s_db (fst (w_step st o))) k t = read_chan (s_db st) k t.
Proof.
  intros H. unfold read_chan. rewrite <- (same_layout _ _ (uncommitted_invisible st o H) k). reflexivity.
Qed.
