(* Cesium/DistanceProofs.v — index.Domain.Distance inside one index domain: for a range
   [a, t) that starts in an index domain q and ends in it (or exactly at its end), Distance
   with the continuous policy succeeds and the sample offset the iterator picks from its
   approximation (pickSampleOffset) is exactly the number of index stamps in [a, t). *)
From Coq Require Import ZArith List Bool Lia Sorting.Sorted.
From Synnax Require Import Cesium.Store Cesium.StoreProofs Cesium.IndexSearch Cesium.IndexSearchProofs
     Cesium.Distance Cesium.DomIterProofs Cesium.UnaryIter.
Import ListNotations.
Local Open Scope Z_scope.

(* index domains: strictly increasing stamps inside the domain's range *)
Definition iwf (q : dom) : Prop :=
  inc (d_data q) /\ Forall (fun x => t_s (d_tr q) <= x < t_e (d_tr q)) (d_data q).
Definition ilay (P : list dom) : Prop := lay P /\ Forall iwf P.

Lemma a_exact_result ts l : a_exact (search_result ts l) = mem ts l.
Proof.
  unfold search_result, a_exact. destruct (mem ts l); simpl; [apply Z.eqb_refl|apply Z.eqb_neq; lia].
Qed.

Section OneDomain.
Variable P : list dom.
Variable k : Z.
Variable q : dom.
Hypothesis HP : lay P.
Hypothesis Hq : znth P k = Some q.
Hypothesis Hinc : inc (d_data q).

Variable a t : Z.
Hypothesis Ha : t_s (d_tr q) <= a < t_e (d_tr q).
Hypothesis Ht : a <= t <= t_e (d_tr q).

Let T := TR a t.

Lemma Wq : t_s (d_tr q) < t_e (d_tr q).
Proof. exact (lay_nth_wf P HP _ _ Hq). Qed.

Lemma k_is_dcnt : dcnt a P = k.
Proof.
  symmetry. apply (lay_contains_at P a k q HP Hq).
  unfold contains_stamp. apply andb_true_iff. split; [apply Z.leb_le|apply Z.ltb_lt]; lia.
Qed.

Lemma q_overlaps_T : overlaps (d_tr q) T = true.
Proof.
  rewrite (overlaps_valid (d_tr q) T Wq) by (unfold T; simpl; lia). unfold T. cbn [t_s t_e].
  destruct (a =? t) eqn:E; zb.
  - unfold contains_stamp. apply andb_true_iff. split; [apply Z.leb_le|apply Z.ltb_lt]; lia.
  - apply Z.ltb_lt. lia.
Qed.

Lemma seek_first_T it : di_b it = T -> di_seek_first P it = (DI T k q true, true).
Proof.
  intros Hb. unfold di_seek_first. rewrite Hb. unfold T at 1. cbn [t_s].
  pose proof (seek_ge_spec P it a HP) as SG. cbv zeta in SG. rewrite k_is_dcnt, Hq, Hb, q_overlaps_T in SG.
  exact SG.
Qed.

Lemma later_not_T p : znth P (k + 1) = Some p -> overlaps (d_tr p) T = false.
Proof.
  intros Hp. destruct (lay_nth P HP k (k + 1) q p Hq Hp ltac:(lia)) as (A & B & C).
  rewrite (overlaps_valid (d_tr p) T C) by (unfold T; simpl; lia). unfold T. cbn [t_s t_e].
  destruct (a =? t) eqn:E; zb.
  - unfold contains_stamp. apply andb_false_iff. left. apply Z.leb_gt. lia.
  - apply Z.ltb_ge. lia.
Qed.

Lemma next_from_q : di_next P (DI T k q true) = (DI T k q false, false).
Proof.
  pose proof (next_spec P (DI T k q true) k q) as NS. cbn [di_b] in NS.
  specialize (NS ltac:(unfold at_pos; cbn; auto)).
  destruct (znth P (k + 1)) as [p|] eqn:Hp; [|exact NS].
  rewrite (later_not_T p Hp) in NS. exact NS.
Qed.

Lemma fwd_eff_T : fwd_eff P (DI T k q true) = (DI T k q false, d_tr q, dlen q).
Proof.
  unfold fwd_eff. cbn [fwd_eff_go]. rewrite next_from_q. reflexivity.
Qed.

(* the number of index stamps of q in [a, t) *)
Definition between : Z := cnt_lt t (d_data q) - cnt_lt a (d_data q).

Theorem distance_one_domain :
  exists da, distance P T true = Ok da /\ pick_sample_offset da = between.
Proof.
  unfold distance, distance_gen.
  rewrite (seek_first_T (di_open T) eq_refl).
  rewrite fwd_eff_T. rewrite (seek_first_T (DI T k q false) eq_refl). cbn [negb].
  assert (CR : contains_range (d_tr q) T = true).
  { unfold contains_range, T. cbn [t_s t_e]. apply andb_true_iff. split; apply Z.leb_le; lia. }
  rewrite CR. cbn [negb andb].
  unfold tspan, T. cbn [t_s t_e].
  destruct (t - a =? 0) eqn:E0; zb.
  - exists da_zero. split; [reflexivity|]. unfold between. replace t with a by lia.
    unfold pick_sample_offset, da_zero, da_exact. simpl. lia.
  - unfold di_tr. cbn [di_cur].
    rewrite (isearch_spec (d_data q) a Hinc). cbn [rbind].
    assert (CE : contains_stamp (d_tr q) t || (t =? t_e (d_tr q)) = true).
    { destruct (t =? t_e (d_tr q)) eqn:Q; [apply orb_true_r|]. zb. rewrite orb_false_r.
      unfold contains_stamp. apply andb_true_iff. split; [apply Z.leb_le|apply Z.ltb_lt]; lia. }
    rewrite CE. rewrite (isearch_spec (d_data q) t Hinc). cbn [rbind].
    eexists. split; [reflexivity|].
    unfold pick_sample_offset, da_exact. cbn [da_lo da_hi da_se da_ee].
    rewrite !a_exact_result. unfold between, search_result.
    pose proof (cnt_lt_range a (d_data q)). pose proof (cnt_lt_range t (d_data q)).
    assert (MONO : cnt_lt a (d_data q) <= cnt_lt t (d_data q)).
    { (* every stamp below a is below t *)
      unfold cnt_lt, zlen. assert (Hl : forall l : list Z, (length (filter (fun x : Z => (x <? a)%Z) l) <= length (filter (fun x : Z => (x <? t)%Z) l))%nat).
      { induction l as [|x l IH]; simpl; [lia|]. destruct (x <? a)%Z eqn:Q1, (x <? t)%Z eqn:Q2; zb; simpl; lia. }
      specialize (Hl (d_data q)). lia. }
    destruct (mem a (d_data q)), (mem t (d_data q)); cbn [a_lo a_hi];
      repeat match goal with |- context [?x =? ?y] => destruct (x =? y) eqn:?; zb end;
      cbn [orb]; try lia.
    (* neither end is a sample: the midpoint of (kt-1-ka, kt-ka+1) *)
    replace (cnt_lt t (d_data q) - 1 - cnt_lt a (d_data q) + (cnt_lt t (d_data q) - (cnt_lt a (d_data q) - 1)))
      with (2 * (cnt_lt t (d_data q) - cnt_lt a (d_data q))) by lia.
    rewrite Z.mul_comm. apply Z.quot_mul. lia.
Qed.

End OneDomain.
