(* Cesium/DeleteDistance.v — what index.Domain.Distance and Stamp (models of Cesium/Distance.v
   and Stamp.v, continuous policy) return WHEN they succeed, over a well-formed index
   channel, stated on the sorted list of all its stamps:
     Distance [ds, te)  ~  k = #stamps in [ds, te), hi = k + [start inexact], lo = k - [end inexact]
     Stamp(ds, off).Upper = the (#stamps < ds + off)-th stamp, Lower = Upper if ds is a stamp.
   Which return site produced the value (first domain, a later contiguous domain, the end of
   a domain) does not matter for these facts; continuity only decides success. *)
From Coq Require Import ZArith List Bool Lia.
From Synnax Require Import Cesium.Store Cesium.StoreProofs Cesium.IndexSearch Cesium.Distance
  Cesium.Stamp Cesium.DeleteSearch.
Import ListNotations.
Local Open Scope Z_scope.

(* ------------------------------------------------------------------ well-formed index *)
Definition wdom (d : dom) : Prop :=
  sincr (d_data d) /\ (forall j x, znth (d_data d) j = Some x -> dom_s d <= x < dom_e d).

Definition widx (P : list dom) : Prop :=
  sdoms P /\ (forall i d, znth P i = Some d -> wdom d).

Definition allst (P : list dom) : list Z := flat_map d_data P.

Lemma zlen_app {A} (a b : list A) : zlen (a ++ b) = zlen a + zlen b.
Proof. unfold zlen. rewrite app_length. lia. Qed.

Lemma znth_In {A} (l : list A) i x : znth l i = Some x -> In x l.
Proof.
  unfold znth. destruct (i <? 0); [discriminate|]. apply nth_error_In.
Qed.

Lemma In_znth {A} (l : list A) x : In x l -> exists i, znth l i = Some x.
Proof.
  intros H. apply In_nth_error in H as [n H]. exists (Z.of_nat n). unfold znth.
  destruct (Z.of_nat n <? 0) eqn:E; [apply Z.ltb_lt in E; lia|]. rewrite Nat2Z.id. exact H.
Qed.

Lemma znth_mid {A} (pre : list A) d rest : znth (pre ++ d :: rest) (zlen pre) = Some d.
Proof. rewrite znth_app_r by lia. rewrite Z.sub_diag. apply znth_0. Qed.

Lemma znth_after {A} (pre : list A) d rest i :
  0 <= i -> znth (pre ++ d :: rest) (zlen pre + 1 + i) = znth rest i.
Proof.
  intros H. rewrite znth_app_r by lia. rewrite znth_cons by lia. f_equal. lia.
Qed.

Lemma cnt_lt_app x a b : cnt_lt x (a ++ b) = cnt_lt x a + cnt_lt x b.
Proof. unfold cnt_lt. rewrite filter_app, zlen_app. reflexivity. Qed.

Lemma cnt_lt_all x l : (forall y, In y l -> y < x) -> cnt_lt x l = zlen l.
Proof.
  induction l as [|y l IH]; intros H; [reflexivity|].
  rewrite cnt_lt_cons, zlen_cons, IH by (intros; apply H; right; assumption).
  pose proof (H y (or_introl eq_refl)). destruct (y <? x) eqn:E; [lia|apply Z.ltb_ge in E; lia].
Qed.

Lemma cnt_lt_none x l : (forall y, In y l -> x <= y) -> cnt_lt x l = 0.
Proof.
  induction l as [|y l IH]; intros H; [reflexivity|].
  rewrite cnt_lt_cons, IH by (intros; apply H; right; assumption).
  pose proof (H y (or_introl eq_refl)). destruct (y <? x) eqn:E; [apply Z.ltb_lt in E; lia|lia].
Qed.

Lemma zmem_app x a b : zmem x (a ++ b) = zmem x a || zmem x b.
Proof. unfold zmem. apply existsb_app. Qed.

Lemma zmem_false x l : (forall y, In y l -> y <> x) -> zmem x l = false.
Proof.
  intros H. destruct (zmem x l) eqn:E; [|reflexivity]. unfold zmem in E.
  apply existsb_exists in E as (y & Hy & Ey). apply Z.eqb_eq in Ey. subst. exfalso. eapply H; eauto.
Qed.

Section Split.
Variables (P pre rest : list dom) (d0 : dom).
Hypothesis HP : P = pre ++ d0 :: rest.
Hypothesis Hw : widx P.

Lemma split_d0 : wdom d0 /\ dom_s d0 < dom_e d0.
Proof.
  destruct Hw as [[Hn _] Hd]. pose proof (znth_mid pre d0 rest) as H. rewrite <- HP in H.
  split; [eapply Hd; eauto|eapply Hn; eauto].
Qed.

Lemma split_d0_stamps x : In x (d_data d0) -> dom_s d0 <= x < dom_e d0.
Proof. intros H. apply In_znth in H as [j Hj]. destruct split_d0 as [[_ Hr] _]. eapply Hr; eauto. Qed.

Lemma split_pre_stamps x : In x (allst pre) -> x < dom_s d0.
Proof.
  unfold allst. intros H. apply in_flat_map in H as (d & Hd & Hx).
  apply In_znth in Hd as [i Hi]. pose proof (znth_Some _ _ _ Hi) as Hr.
  assert (HiP : znth P i = Some d) by (rewrite HP, znth_app_l by lia; exact Hi).
  pose proof (znth_mid pre d0 rest) as H0. rewrite <- HP in H0.
  destruct Hw as [[Hn Ho] Hd']. pose proof (Ho i (zlen pre) d d0 HiP H0 ltac:(lia)).
  destruct (Hd' i d HiP) as [_ Hrange]. apply In_znth in Hx as [j Hj]. pose proof (Hrange j x Hj). lia.
Qed.

Lemma split_rest_doms i d : znth rest i = Some d -> znth P (zlen pre + 1 + i) = Some d.
Proof. intros H. pose proof (znth_Some _ _ _ H). rewrite HP, znth_after by lia. exact H. Qed.

Lemma split_rest_dom_start d : In d rest -> dom_e d0 <= dom_s d /\ dom_s d < dom_e d /\ wdom d.
Proof.
  intros H. apply In_znth in H as [i Hi]. pose proof (znth_Some _ _ _ Hi).
  pose proof (split_rest_doms i d Hi) as HiP.
  pose proof (znth_mid pre d0 rest) as H0. rewrite <- HP in H0.
  destruct Hw as [[Hn Ho] Hd']. split; [eapply (Ho (zlen pre)); eauto; lia|]. split; [eapply Hn; eauto|eapply Hd'; eauto].
Qed.

Lemma split_rest_stamps x : In x (allst rest) -> dom_e d0 <= x.
Proof.
  unfold allst. intros H. apply in_flat_map in H as (d & Hd & Hx).
  destruct (split_rest_dom_start d Hd) as (A & B & [_ C]). apply In_znth in Hx as [j Hj].
  pose proof (C j x Hj). lia.
Qed.

Lemma allst_split : allst P = allst pre ++ d_data d0 ++ allst rest.
Proof. unfold allst. rewrite HP, flat_map_app. reflexivity. Qed.

(* counting below a point at or after the start of d0 *)
Lemma cntG_from x : dom_s d0 <= x ->
  cnt_lt x (allst P) = zlen (allst pre) + cnt_lt x (d_data d0 ++ allst rest).
Proof.
  intros H. rewrite allst_split, cnt_lt_app. f_equal.
  apply cnt_lt_all. intros y Hy. pose proof (split_pre_stamps y Hy). lia.
Qed.

Lemma cntG_in x : dom_s d0 <= x <= dom_e d0 ->
  cnt_lt x (allst P) = zlen (allst pre) + cnt_lt x (d_data d0).
Proof.
  intros H. rewrite cntG_from by lia. rewrite cnt_lt_app. rewrite (cnt_lt_none x (allst rest)); [lia|].
  intros y Hy. pose proof (split_rest_stamps y Hy). lia.
Qed.

Lemma zmemG_in x : dom_s d0 <= x < dom_e d0 -> zmem x (allst P) = zmem x (d_data d0).
Proof.
  intros H. rewrite allst_split, !zmem_app.
  rewrite (zmem_false x (allst pre)) by (intros y Hy; pose proof (split_pre_stamps y Hy); lia).
  rewrite (zmem_false x (allst rest)) by (intros y Hy; pose proof (split_rest_stamps y Hy); lia).
  rewrite orb_false_r. reflexivity.
Qed.

(* the tail is a well-formed index again *)
Lemma split_rest_widx : widx rest.
Proof.
  destruct Hw as [[Hn Ho] Hd]. split; [split|].
  - intros i d Hi. eapply Hn. apply split_rest_doms. exact Hi.
  - intros i j d e Hi Hj Hij. pose proof (znth_Some _ _ _ Hi).
    eapply (Ho (zlen pre + 1 + i) (zlen pre + 1 + j)); try (apply split_rest_doms; eassumption). lia.
  - intros i d Hi. eapply Hd. apply split_rest_doms. exact Hi.
Qed.
End Split.

(* the domain containing a point, as a split of the list *)
Lemma widx_find P i d : znth P i = Some d -> exists pre rest, P = pre ++ d :: rest /\ zlen pre = i.
Proof.
  intros H. pose proof (znth_Some _ _ _ H) as Hr. unfold znth in H.
  destruct (i <? 0) eqn:E; [discriminate|]. apply nth_error_split in H as (pre & rest & -> & Hl).
  exists pre, rest. split; [reflexivity|]. unfold zlen. lia.
Qed.

(* ------------------------------------------------------------------ the domain iterator *)
Lemma di_reload_at P b pos cur d :
  znth P pos = Some d -> pos <> -1 ->
  di_reload P (DI b pos cur true) =
  if overlaps (d_tr d) b then (DI b pos d true, true) else (DI b pos cur false, false).
Proof.
  intros H Hp. unfold di_reload. simpl. destruct (pos =? -1) eqn:E; [apply Z.eqb_eq in E; contradiction|].
  rewrite H. destruct (overlaps (d_tr d) b); reflexivity.
Qed.

Lemma di_reload_none P b pos cur :
  znth P pos = None -> di_reload P (DI b pos cur true) = (DI b pos cur false, false).
Proof.
  intros H. unfold di_reload. simpl. destruct (pos =? -1); [reflexivity|]. rewrite H. reflexivity.
Qed.

(* seeking a stamp that lies inside domain d0 = P[|pre|] *)
Lemma seek_ge_inside P pre d0 rest b cur0 ts :
  widx P -> P = pre ++ d0 :: rest -> dom_s d0 <= ts < dom_e d0 -> overlaps (d_tr d0) b = true ->
  di_seek_ge P (DI b 0 cur0 false) ts = (DI b (zlen pre) d0 true, true).
Proof.
  intros Hw HP Hin Ho. unfold di_seek_ge, search_ge. simpl di_b.
  rewrite (upoint_hit P ts (zlen pre) d0 (proj1 Hw)); [|rewrite HP; apply znth_mid|exact Hin].
  rewrite (di_reload_at P b (zlen pre) _ d0); [rewrite Ho; reflexivity|rewrite HP; apply znth_mid|].
  pose proof (zlen_nonneg pre). lia.
Qed.

(* seeking a stamp that lies in no domain: the iterator lands on a domain starting after it,
   or nowhere *)
Lemma seek_ge_outside P b cur0 ts it :
  widx P -> (forall i d, znth P i = Some d -> ~ (dom_s d <= ts < dom_e d)) ->
  di_seek_ge P (DI b 0 cur0 false) ts = (it, true) -> ts < t_s (di_tr it).
Proof.
  intros Hw Hno. unfold di_seek_ge, search_ge. simpl di_b.
  pose proof (usearch_point P ts (proj1 Hw)) as Hu.
  destruct (usearch P (point ts)) as [j [|]]; simpl in Hu.
  - destruct Hu as (d & Hd & Hr). exfalso. eapply Hno; eauto.
  - destruct Hu as (Hj & _ & Hafter).
    destruct (j =? zlen P) eqn:E; [apply Z.eqb_eq in E; lia|].
    destruct (znth P (j + 1)) as [d|] eqn:Ed.
    + rewrite (di_reload_at P b (j + 1) _ d Ed ltac:(lia)).
      destruct (overlaps (d_tr d) b); intros [= <-]; [|discriminate].
      unfold di_tr. simpl. apply (Hafter (j + 1) d Ed). lia.
    + rewrite di_reload_none by exact Ed. discriminate.
Qed.

Lemma di_next_some P pre cur d1 r b :
  P = pre ++ cur :: d1 :: r ->
  di_next P (DI b (zlen pre) cur true) =
  if overlaps (d_tr d1) b then (DI b (zlen pre + 1) d1 true, true)
  else (DI b (zlen pre) cur false, false).
Proof.
  intros HP. unfold di_next. simpl.
  assert (H1 : znth P (zlen pre + 1) = Some d1).
  { rewrite HP. replace (zlen pre + 1) with (zlen pre + 1 + 0) by lia. rewrite znth_after by lia. apply znth_0. }
  pose proof (zlen_nonneg pre).
  rewrite (di_reload_at P b (zlen pre + 1) cur d1 H1 ltac:(lia)).
  destruct (overlaps (d_tr d1) b); simpl; [reflexivity|].
  f_equal. f_equal. lia.
Qed.

Lemma di_next_last P pre cur b :
  P = pre ++ [cur] -> di_next P (DI b (zlen pre) cur true) = (DI b (zlen pre) cur false, false).
Proof.
  intros HP. unfold di_next. simpl.
  rewrite di_reload_none.
  - simpl. f_equal. f_equal. lia.
  - apply znth_None. right. rewrite HP, zlen_app. unfold zlen at 2. simpl. lia.
Qed.

Lemma app_cons_assoc {A} (pre : list A) x r : pre ++ x :: r = (pre ++ [x]) ++ r.
Proof. rewrite <- app_assoc. reflexivity. Qed.

Lemma zlen_snoc {A} (pre : list A) x : zlen (pre ++ [x]) = zlen pre + 1.
Proof. rewrite zlen_app. reflexivity. Qed.

(* the effective-domain walk keeps the iterator's bounds and the start of the range *)
Lemma di_next_bounds P it : di_b (fst (di_next P it)) = di_b it.
Proof.
  unfold di_next. destruct (negb (di_valid it)); [reflexivity|].
  unfold di_reload. simpl. destruct (_ =? -1); [reflexivity|].
  destruct (znth P _); [|reflexivity]. destruct (overlaps _ _); reflexivity.
Qed.

Lemma fwd_eff_go_start fuel P it b n :
  let r := fwd_eff_go fuel P it b n in
  t_s (snd (fst r)) = t_s b /\ di_b (fst (fst r)) = di_b it.
Proof.
  revert it b n. induction fuel as [|f IH]; intros it b n; simpl; [auto|].
  pose proof (di_next_bounds P it) as Hb.
  destruct (di_next P it) as [it' ok]. simpl in Hb.
  destruct (negb ok); simpl; [auto|].
  destruct (negb (_ =? _)); simpl; [auto|].
  destruct (IH it' (TR (t_s b) (t_e (di_tr it'))) (n + dlen (di_cur it'))) as [A B].
  simpl in A. rewrite A, B. auto.
Qed.

Lemma fwd_eff_start P it :
  t_s (snd (fst (fwd_eff P it))) = t_s (di_tr it) /\ di_b (fst (fst (fwd_eff P it))) = di_b it.
Proof. unfold fwd_eff. apply fwd_eff_go_start. Qed.

(* a seek looks only at the bounds of the iterator it is applied to *)
Lemma di_seek_ge_bounds P it it' ts :
  di_b it = di_b it' -> fst (di_seek_ge P it ts) = fst (di_seek_ge P it' ts) \/
  snd (di_seek_ge P it ts) = false /\ snd (di_seek_ge P it' ts) = false.
Proof.
  intros Hb. unfold di_seek_ge. rewrite Hb. unfold di_reload. simpl.
  destruct (_ =? -1); [right; auto|].
  destruct (znth P _); [|right; auto]. destruct (overlaps _ _); [left; reflexivity|right; auto].
Qed.

Lemma di_seek_ge_ok_indep P it it' ts r :
  di_b it = di_b it' -> di_seek_ge P it ts = (r, true) -> di_seek_ge P it' ts = (r, true).
Proof.
  intros Hb. unfold di_seek_ge. rewrite Hb. unfold di_reload. simpl.
  destruct (_ =? -1); [discriminate|].
  destruct (znth P _); [|discriminate]. destruct (overlaps _ _); [auto|discriminate].
Qed.
