(* Cesium/DeleteDistance.v — what index.Domain.Distance and Stamp (models of Cesium/Distance.v
   and Stamp.v, continuous policy) return WHEN they succeed, over a well-formed index
   channel, stated on the sorted list of all its stamps:
     Distance [ds, te)  ~  k = #stamps in [ds, te), hi = k + [start inexact], lo = k - [end inexact]
     Stamp(ds, off).Upper = the (#stamps < ds + off)-th stamp, Lower = Upper if ds is a stamp.
   Which return site produced the value (first domain, a later contiguous domain, the end of
   a domain) does not matter for these facts; continuity only decides success. *)
From Coq Require Import ZArith List Bool Lia.
From Synnax Require Import Cesium.Store Cesium.StoreProofs Cesium.IndexSearch Cesium.Distance
  Cesium.Stamp Cesium.DeleteSearch.
Import ListNotations.
Local Open Scope Z_scope.

(* ------------------------------------------------------------------ well-formed index *)
Definition wdom (d : dom) : Prop :=
  sincr (d_data d) /\ (forall j x, znth (d_data d) j = Some x -> dom_s d <= x < dom_e d).

Definition widx (P : list dom) : Prop :=
  sdoms P /\ (forall i d, znth P i = Some d -> wdom d).

Definition allst (P : list dom) : list Z := flat_map d_data P.
Arguments allst : simpl never.
Arguments cnt_lt : simpl never.
Arguments zmem : simpl never.

Lemma zlen_app {A} (a b : list A) : zlen (a ++ b) = zlen a + zlen b.
Proof. unfold zlen. rewrite app_length. lia. Qed.

Lemma znth_In {A} (l : list A) i x : znth l i = Some x -> In x l.
Proof.
  unfold znth. destruct (i <? 0); [discriminate|]. apply nth_error_In.
Qed.

Lemma In_znth {A} (l : list A) x : In x l -> exists i, znth l i = Some x.
Proof.
  intros H. apply In_nth_error in H as [n H]. exists (Z.of_nat n). unfold znth.
  destruct (Z.of_nat n <? 0) eqn:E; [apply Z.ltb_lt in E; lia|]. rewrite Nat2Z.id. exact H.
Qed.

Lemma znth_mid {A} (pre : list A) d rest : znth (pre ++ d :: rest) (zlen pre) = Some d.
Proof. rewrite znth_app_r by lia. rewrite Z.sub_diag. apply znth_0. Qed.

Lemma znth_after {A} (pre : list A) d rest i :
  0 <= i -> znth (pre ++ d :: rest) (zlen pre + 1 + i) = znth rest i.
Proof.
  intros H. rewrite znth_app_r by lia. rewrite znth_cons by lia. f_equal. lia.
Qed.

Lemma cnt_lt_app x a b : cnt_lt x (a ++ b) = cnt_lt x a + cnt_lt x b.
Proof. unfold cnt_lt. rewrite filter_app, zlen_app. reflexivity. Qed.

Lemma cnt_lt_all x l : (forall y, In y l -> y < x) -> cnt_lt x l = zlen l.
Proof.
  induction l as [|y l IH]; intros H; [reflexivity|].
  rewrite cnt_lt_cons, zlen_cons, IH by (intros; apply H; right; assumption).
  pose proof (H y (or_introl eq_refl)). destruct (y <? x) eqn:E; [lia|apply Z.ltb_ge in E; lia].
Qed.

Lemma cnt_lt_none x l : (forall y, In y l -> x <= y) -> cnt_lt x l = 0.
Proof.
  induction l as [|y l IH]; intros H; [reflexivity|].
  rewrite cnt_lt_cons, IH by (intros; apply H; right; assumption).
  pose proof (H y (or_introl eq_refl)). destruct (y <? x) eqn:E; [apply Z.ltb_lt in E; lia|lia].
Qed.

Lemma zmem_app x a b : zmem x (a ++ b) = zmem x a || zmem x b.
Proof. unfold zmem. apply existsb_app. Qed.

Lemma zmem_false x l : (forall y, In y l -> y <> x) -> zmem x l = false.
Proof.
  intros H. destruct (zmem x l) eqn:E; [|reflexivity]. unfold zmem in E.
  apply existsb_exists in E as (y & Hy & Ey). apply Z.eqb_eq in Ey. subst. exfalso. eapply H; eauto.
Qed.

Section Split.
Variables (P pre rest : list dom) (d0 : dom).
Hypothesis HP : P = pre ++ d0 :: rest.
Hypothesis Hw : widx P.

Lemma split_d0 : wdom d0 /\ dom_s d0 < dom_e d0.
Proof.
  destruct Hw as [[Hn _] Hd]. pose proof (znth_mid pre d0 rest) as H. rewrite <- HP in H.
  split; [eapply Hd; eauto|eapply Hn; eauto].
Qed.

Lemma split_d0_stamps x : In x (d_data d0) -> dom_s d0 <= x < dom_e d0.
Proof. intros H. apply In_znth in H as [j Hj]. destruct split_d0 as [[_ Hr] _]. eapply Hr; eauto. Qed.

Lemma split_pre_stamps x : In x (allst pre) -> x < dom_s d0.
Proof.
  unfold allst. intros H. apply in_flat_map in H as (d & Hd & Hx).
  apply In_znth in Hd as [i Hi]. pose proof (znth_Some _ _ _ Hi) as Hr.
  assert (HiP : znth P i = Some d) by (rewrite HP, znth_app_l by lia; exact Hi).
  pose proof (znth_mid pre d0 rest) as H0. rewrite <- HP in H0.
  destruct Hw as [[Hn Ho] Hd']. pose proof (Ho i (zlen pre) d d0 HiP H0 ltac:(lia)).
  destruct (Hd' i d HiP) as [_ Hrange]. apply In_znth in Hx as [j Hj]. pose proof (Hrange j x Hj). lia.
Qed.

Lemma split_rest_doms i d : znth rest i = Some d -> znth P (zlen pre + 1 + i) = Some d.
Proof. intros H. pose proof (znth_Some _ _ _ H). rewrite HP, znth_after by lia. exact H. Qed.

Lemma split_rest_dom_start d : In d rest -> dom_e d0 <= dom_s d /\ dom_s d < dom_e d /\ wdom d.
Proof.
  intros H. apply In_znth in H as [i Hi]. pose proof (znth_Some _ _ _ Hi).
  pose proof (split_rest_doms i d Hi) as HiP.
  pose proof (znth_mid pre d0 rest) as H0. rewrite <- HP in H0.
  destruct Hw as [[Hn Ho] Hd']. split; [eapply (Ho (zlen pre)); eauto; lia|]. split; [eapply Hn; eauto|eapply Hd'; eauto].
Qed.

Lemma split_rest_stamps x : In x (allst rest) -> dom_e d0 <= x.
Proof.
  unfold allst. intros H. apply in_flat_map in H as (d & Hd & Hx).
  destruct (split_rest_dom_start d Hd) as (A & B & [_ C]). apply In_znth in Hx as [j Hj].
  pose proof (C j x Hj). lia.
Qed.

Lemma allst_split : allst P = allst pre ++ d_data d0 ++ allst rest.
Proof. unfold allst. rewrite HP, flat_map_app. reflexivity. Qed.

(* counting below a point at or after the start of d0 *)
Lemma cntG_from x : dom_s d0 <= x ->
  cnt_lt x (allst P) = zlen (allst pre) + cnt_lt x (d_data d0 ++ allst rest).
Proof.
  intros H. rewrite allst_split, cnt_lt_app. f_equal.
  apply cnt_lt_all. intros y Hy. pose proof (split_pre_stamps y Hy). lia.
Qed.

Lemma cntG_in x : dom_s d0 <= x <= dom_e d0 ->
  cnt_lt x (allst P) = zlen (allst pre) + cnt_lt x (d_data d0).
Proof.
  intros H. rewrite cntG_from by lia. rewrite cnt_lt_app. rewrite (cnt_lt_none x (allst rest)); [lia|].
  intros y Hy. pose proof (split_rest_stamps y Hy). lia.
Qed.

Lemma zmemG_in x : dom_s d0 <= x < dom_e d0 -> zmem x (allst P) = zmem x (d_data d0).
Proof.
  intros H. rewrite allst_split, !zmem_app.
  rewrite (zmem_false x (allst pre)) by (intros y Hy; pose proof (split_pre_stamps y Hy); lia).
  rewrite (zmem_false x (allst rest)) by (intros y Hy; pose proof (split_rest_stamps y Hy); lia).
  rewrite orb_false_r. reflexivity.
Qed.

(* the tail is a well-formed index again *)
Lemma split_rest_widx : widx rest.
Proof.
  destruct Hw as [[Hn Ho] Hd]. split; [split|].
  - intros i d Hi. eapply Hn. apply split_rest_doms. exact Hi.
  - intros i j d e Hi Hj Hij. pose proof (znth_Some _ _ _ Hi).
    eapply (Ho (zlen pre + 1 + i) (zlen pre + 1 + j)); try (apply split_rest_doms; eassumption). lia.
  - intros i d Hi. eapply Hd. apply split_rest_doms. exact Hi.
Qed.
End Split.

(* the domain containing a point, as a split of the list *)
Lemma widx_find (P : list dom) i d : znth P i = Some d -> exists pre rest, P = pre ++ d :: rest /\ zlen pre = i.
Proof.
  intros H. pose proof (znth_Some _ _ _ H) as Hr. unfold znth in H.
  destruct (i <? 0) eqn:E; [discriminate|]. apply nth_error_split in H as (pre & rest & -> & Hl).
  exists pre, rest. split; [reflexivity|]. unfold zlen. lia.
Qed.

(* ------------------------------------------------------------------ the domain iterator *)
Lemma di_reload_at P b pos cur d :
  znth P pos = Some d -> pos <> -1 ->
  di_reload P (DI b pos cur true) =
  if overlaps (d_tr d) b then (DI b pos d true, true) else (DI b pos cur false, false).
Proof.
  intros H Hp. unfold di_reload. simpl. destruct (pos =? -1) eqn:E; [apply Z.eqb_eq in E; contradiction|].
  rewrite H. destruct (overlaps (d_tr d) b); reflexivity.
Qed.

Lemma di_reload_none P b pos cur :
  znth P pos = None -> di_reload P (DI b pos cur true) = (DI b pos cur false, false).
Proof.
  intros H. unfold di_reload. simpl. destruct (pos =? -1); [reflexivity|]. rewrite H. reflexivity.
Qed.

(* seeking a stamp that lies inside domain d0 = P[|pre|] *)
Lemma seek_ge_inside P pre d0 rest b cur0 ts :
  sdoms P -> P = pre ++ d0 :: rest -> dom_s d0 <= ts < dom_e d0 -> overlaps (d_tr d0) b = true ->
  di_seek_ge P (DI b 0 cur0 false) ts = (DI b (zlen pre) d0 true, true).
Proof.
  intros Hw HP Hin Ho. unfold di_seek_ge, search_ge. simpl di_b.
  rewrite (upoint_hit P ts (zlen pre) d0 Hw); [|rewrite HP; apply znth_mid|exact Hin].
  rewrite (di_reload_at P b (zlen pre) _ d0); [rewrite Ho; reflexivity|rewrite HP; apply znth_mid|].
  pose proof (zlen_nonneg pre). lia.
Qed.

(* seeking a stamp that lies in no domain: the iterator lands on a domain starting after it,
   or nowhere *)
Lemma seek_ge_outside P b cur0 ts it :
  widx P -> (forall i d, znth P i = Some d -> ~ (dom_s d <= ts < dom_e d)) ->
  di_seek_ge P (DI b 0 cur0 false) ts = (it, true) ->
  ts < t_s (di_tr it) /\ overlaps (di_tr it) b = true /\ exists i, znth P i = Some (di_cur it).
Proof.
  intros Hw Hno. unfold di_seek_ge, search_ge. simpl di_b.
  pose proof (usearch_point P ts (proj1 Hw)) as Hu.
  destruct (usearch P (point ts)) as [j [|]]; simpl in Hu.
  - destruct Hu as (d & Hd & Hr). exfalso. eapply Hno; eauto.
  - destruct Hu as (Hj & _ & Hafter).
    destruct (j =? zlen P) eqn:E; [apply Z.eqb_eq in E; lia|].
    destruct (znth P (j + 1)) as [d|] eqn:Ed.
    + rewrite (di_reload_at P b (j + 1) _ d Ed ltac:(lia)).
      destruct (overlaps (d_tr d) b) eqn:Eo; [|discriminate]. intros [= <-].
      unfold di_tr. simpl. split; [apply (Hafter (j + 1) d Ed); lia|]. split; [exact Eo|eauto].
    + rewrite di_reload_none by exact Ed. discriminate.
Qed.

Lemma di_next_some P pre cur d1 r b :
  P = pre ++ cur :: d1 :: r ->
  di_next P (DI b (zlen pre) cur true) =
  if overlaps (d_tr d1) b then (DI b (zlen pre + 1) d1 true, true)
  else (DI b (zlen pre) cur false, false).
Proof.
  intros HP. unfold di_next. simpl.
  assert (H1 : znth P (zlen pre + 1) = Some d1).
  { rewrite HP. replace (zlen pre + 1) with (zlen pre + 1 + 0) by lia. rewrite znth_after by lia. apply znth_0. }
  pose proof (zlen_nonneg pre).
  rewrite (di_reload_at P b (zlen pre + 1) cur d1 H1 ltac:(lia)).
  destruct (overlaps (d_tr d1) b); simpl; [reflexivity|].
  f_equal. f_equal. lia.
Qed.

Lemma di_next_last P pre cur b :
  P = pre ++ [cur] -> di_next P (DI b (zlen pre) cur true) = (DI b (zlen pre) cur false, false).
Proof.
  intros HP. unfold di_next. simpl.
  rewrite di_reload_none.
  - simpl. f_equal. f_equal. lia.
  - apply znth_None. right. rewrite HP, zlen_app. unfold zlen at 2. simpl. lia.
Qed.

Lemma app_cons_assoc {A} (pre : list A) x r : pre ++ x :: r = (pre ++ [x]) ++ r.
Proof. rewrite <- app_assoc. reflexivity. Qed.

Lemma zlen_snoc {A} (pre : list A) x : zlen (pre ++ [x]) = zlen pre + 1.
Proof. rewrite zlen_app. reflexivity. Qed.

(* the effective-domain walk keeps the iterator's bounds and the start of the range *)
Lemma di_reload_bounds P it : di_b (fst (di_reload P it)) = di_b it.
Proof.
  unfold di_reload. destruct (di_pos it =? -1); [reflexivity|].
  destruct (znth P (di_pos it)); [|reflexivity]. destruct (overlaps _ _); reflexivity.
Qed.

Lemma di_next_bounds P it : di_b (fst (di_next P it)) = di_b it.
Proof.
  unfold di_next. destruct (negb (di_valid it)); [reflexivity|].
  pose proof (di_reload_bounds P (DI (di_b it) (di_pos it + 1) (di_cur it) (di_valid it))) as H.
  destruct (di_reload P _) as [it' ok]. simpl in H. destruct ok; simpl; exact H.
Qed.

Lemma fwd_eff_go_start fuel P it b n :
  let r := fwd_eff_go fuel P it b n in
  t_s (snd (fst r)) = t_s b /\ di_b (fst (fst r)) = di_b it.
Proof.
  revert it b n. induction fuel as [|f IH]; intros it b n; simpl; [auto|].
  pose proof (di_next_bounds P it) as Hb.
  destruct (di_next P it) as [it' ok]. simpl in Hb.
  destruct (negb ok); simpl; [auto|].
  destruct (negb (_ =? _)); simpl; [auto|].
  destruct (IH it' (TR (t_s b) (t_e (di_tr it'))) (n + dlen (di_cur it'))) as [A B].
  simpl in A. rewrite A, B. auto.
Qed.

Lemma fwd_eff_start P it :
  t_s (snd (fst (fwd_eff P it))) = t_s (di_tr it) /\ di_b (fst (fst (fwd_eff P it))) = di_b it.
Proof. unfold fwd_eff. apply fwd_eff_go_start. Qed.

Lemma seek_ge_result_bounds P it ts r ok : di_seek_ge P it ts = (r, ok) -> di_b r = di_b it.
Proof.
  unfold di_seek_ge. intros H.
  pose proof (di_reload_bounds P (DI (di_b it) (search_ge P ts) (di_cur it) true)) as Hr.
  rewrite H in Hr. exact Hr.
Qed.

(* a seek looks only at the bounds of the iterator it is applied to *)
Lemma di_seek_ge_bounds P it it' ts :
  di_b it = di_b it' -> fst (di_seek_ge P it ts) = fst (di_seek_ge P it' ts) \/
  snd (di_seek_ge P it ts) = false /\ snd (di_seek_ge P it' ts) = false.
Proof.
  intros Hb. unfold di_seek_ge. rewrite Hb. unfold di_reload. simpl.
  destruct (_ =? -1); [right; auto|].
  destruct (znth P _); [|right; auto]. destruct (overlaps _ _); [left; reflexivity|right; auto].
Qed.

Lemma di_seek_ge_ok_indep P it it' ts r :
  di_b it = di_b it' -> di_seek_ge P it ts = (r, true) -> di_seek_ge P it' ts = (r, true).
Proof.
  intros Hb. unfold di_seek_ge. rewrite Hb. unfold di_reload. simpl.
  destruct (_ =? -1); [discriminate|].
  destruct (znth P _); [|discriminate]. destruct (overlaps _ _); [auto|discriminate].
Qed.

(* resolveForwardEffectiveDomainTR as a recursion over the following domains: where the chain
   of immediately contiguous domains inside the iterator bounds B ends *)
Fixpoint chain_end (B : tr) (cur_end : Z) (rest : list dom) : Z :=
  match rest with
  | [] => cur_end
  | d :: r => if overlaps (d_tr d) B && (cur_end =? dom_s d) then chain_end B (dom_e d) r else cur_end
  end.

Lemma fwd_eff_go_end B : forall rest pre cur fuel b n,
  (length rest < fuel)%nat -> t_e b = dom_e cur ->
  t_e (snd (fst (fwd_eff_go fuel (pre ++ cur :: rest) (DI B (zlen pre) cur true) b n))) =
  chain_end B (dom_e cur) rest.
Proof.
  induction rest as [|d1 r IH]; intros pre cur fuel b n Hf Hb; (destruct fuel as [|f]; [lia|]); simpl.
  - rewrite (di_next_last (pre ++ [cur]) pre cur B eq_refl). simpl. exact Hb.
  - rewrite (di_next_some (pre ++ cur :: d1 :: r) pre cur d1 r B eq_refl).
    destruct (overlaps (d_tr d1) B); simpl; [|exact Hb].
    unfold di_tr at 1 2. simpl di_cur. unfold dom_e, dom_s.
    destruct (t_e (d_tr cur) =? t_s (d_tr d1)) eqn:E; simpl; [|exact Hb].
    rewrite (app_cons_assoc pre cur (d1 :: r)), <- (zlen_snoc pre cur).
    unfold di_tr. simpl di_cur.
    rewrite IH; [reflexivity|simpl in Hf; lia|reflexivity].
Qed.

Lemma fwd_eff_end B pre cur rest :
  t_e (snd (fst (fwd_eff (pre ++ cur :: rest) (DI B (zlen pre) cur true)))) = chain_end B (dom_e cur) rest.
Proof.
  unfold fwd_eff. apply fwd_eff_go_end; [rewrite app_length; simpl; lia|reflexivity].
Qed.

(* ------------------------------------------------------------------ Distance *)
(* the traversal loop of Distance as a recursion over the domains after the current one *)
Fixpoint dloop (B eff : tr) (te : Z) (rest : list dom) (s2f : approx) (tot : Z) (se : bool)
  : res dapprox :=
  match rest with
  | [] => Err EDisc
  | d :: r =>
      if negb (overlaps (d_tr d) B) || negb (contains_range eff (d_tr d)) then Err EDisc
      else if contains_stamp (d_tr d) te || (te =? dom_e d) then
        do e <- isearch te (d_data d);
        Ok (DA (a_lo s2f + tot + a_lo e) (a_hi s2f + tot + a_hi e) se (a_exact e))
      else dloop B eff te r s2f (tot + dlen d) se
  end.

Lemma dist_loop_eq B eff s2f se : forall rest pre cur fuel tot,
  (length rest < fuel)%nat ->
  dist_loop false fuel (pre ++ cur :: rest) (DI B (zlen pre) cur true) B eff true s2f tot se =
  dloop B eff (t_e B) rest s2f tot se.
Proof.
  induction rest as [|d1 r IH]; intros pre cur fuel tot Hf; (destruct fuel as [|f]; [lia|]); simpl.
  - rewrite (di_next_last (pre ++ [cur]) pre cur B eq_refl). reflexivity.
  - rewrite (di_next_some (pre ++ cur :: d1 :: r) pre cur d1 r B eq_refl).
    destruct (overlaps (d_tr d1) B); simpl; [|reflexivity].
    unfold di_tr at 1. simpl di_cur.
    destruct (contains_range eff (d_tr d1)); simpl; [|reflexivity].
    unfold di_tr, dom_e. simpl di_cur.
    destruct (contains_stamp (d_tr d1) (t_e B) || (t_e B =? t_e (d_tr d1))); [reflexivity|].
    rewrite (app_cons_assoc pre cur (d1 :: r)), <- (zlen_snoc pre cur).
    apply IH. simpl in Hf. lia.
Qed.

Lemma a_exact_result ts l : a_exact (isearch_result ts l) = zmem ts l.
Proof.
  unfold isearch_result, a_exact. destruct (zmem ts l); simpl; [apply Z.eqb_refl|].
  apply Z.eqb_neq. lia.
Qed.

Lemma isearch_result_hi ts l : a_hi (isearch_result ts l) = cnt_lt ts l.
Proof. unfold isearch_result. destruct (zmem ts l); reflexivity. Qed.

Lemma isearch_result_lo ts l :
  a_lo (isearch_result ts l) = cnt_lt ts l - (if zmem ts l then 0 else 1).
Proof. unfold isearch_result. destruct (zmem ts l); simpl; lia. Qed.

Lemma widx_cons_inv d r : widx (d :: r) -> wdom d /\ dom_s d < dom_e d /\ widx r /\
  (forall x, In x (allst r) -> dom_e d <= x) /\ (forall x, In x (d_data d) -> dom_s d <= x < dom_e d).
Proof.
  intros H. pose proof (split_d0 (d :: r) [] r d eq_refl H) as [A B].
  split; [exact A|]. split; [exact B|]. split; [apply (split_rest_widx (d :: r) [] r d eq_refl H)|].
  split; [apply (split_rest_stamps (d :: r) [] r d eq_refl H)|apply (split_d0_stamps (d :: r) [] r d eq_refl H)].
Qed.

Lemma allst_cons d r : allst (d :: r) = d_data d ++ allst r.
Proof. reflexivity. Qed.

(* what the loop returns when it succeeds *)
Lemma dloop_ok ds te eff s2f se : ds < te -> forall rest tot a,
  widx rest -> dloop (TR ds te) eff te rest s2f tot se = Ok a ->
  da_hi a = a_hi s2f + tot + cnt_lt te (allst rest) /\
  da_lo a = a_lo s2f + tot + cnt_lt te (allst rest) - (if da_ee a then 0 else 1) /\
  da_se a = se.
Proof.
  intros Hlt. induction rest as [|d r IH]; intros tot a Hw; simpl; [discriminate|].
  destruct (widx_cons_inv d r Hw) as ([Hinc _] & Hne & Hr & Hafter & Hin).
  destruct (overlaps (d_tr d) (TR ds te)) eqn:Eo; simpl; [|discriminate].
  destruct (contains_range eff (d_tr d)); simpl; [|discriminate].
  rewrite overlaps_nonempty in Eo by (simpl; assumption). simpl in Eo. apply Z.ltb_lt in Eo.
  unfold dom_s, dom_e in *.
  rewrite allst_cons, cnt_lt_app.
  destruct (contains_stamp (d_tr d) te || (te =? t_e (d_tr d))) eqn:Ec.
  - rewrite (isearch_spec te _ Hinc). simpl. intros [= <-]. simpl.
    rewrite a_exact_result, isearch_result_hi, isearch_result_lo.
    assert (Hz : cnt_lt te (allst r) = 0).
    { apply cnt_lt_none. intros y Hy. pose proof (Hafter y Hy).
      apply orb_true_iff in Ec as [Ec|Ec].
      - unfold contains_stamp in Ec. apply andb_true_iff in Ec as [_ Ec]. apply Z.ltb_lt in Ec. lia.
      - apply Z.eqb_eq in Ec. lia. }
    rewrite Hz. repeat split; lia.
  - apply orb_false_iff in Ec as [Ec1 Ec2]. apply Z.eqb_neq in Ec2.
    unfold contains_stamp in Ec1. apply andb_false_iff in Ec1.
    assert (Hgt : t_e (d_tr d) < te).
    { destruct Ec1 as [Ec1|Ec1]; [apply Z.leb_gt in Ec1; lia|apply Z.ltb_ge in Ec1; lia]. }
    intros Ha. destruct (IH (tot + dlen d) a Hr Ha) as (A & B & C).
    assert (Hall : cnt_lt te (d_data d) = dlen d).
    { apply cnt_lt_all. intros y Hy. pose proof (Hin y Hy). lia. }
    rewrite Hall. repeat split; try lia; exact C.
Qed.

Lemma overlaps_inside (t : tr) ds te :
  t_s t < t_e t -> t_s t <= ds < t_e t -> ds < te -> overlaps t (TR ds te) = true.
Proof.
  intros Hne Hin Hlt. rewrite overlaps_nonempty by (simpl; lia). simpl. apply Z.ltb_lt. lia.
Qed.

(* Distance over a range starting inside domain d0 *)
Local Opaque dist_loop.
Lemma distance_unfold P pre d0 rest ds te :
  widx P -> P = pre ++ d0 :: rest -> dom_s d0 <= ds < dom_e d0 -> ds < te ->
  exists eff, t_s eff = dom_s d0 /\ t_e eff = chain_end (TR ds te) (dom_e d0) rest /\
  distance P (TR ds te) true =
    if negb (contains_range eff (TR ds te)) then Err EDisc else
    let s := isearch_result ds (d_data d0) in
    if contains_stamp (d_tr d0) te || (te =? dom_e d0) then
      let e := isearch_result te (d_data d0) in
      Ok (DA (a_lo e - a_hi s) (a_hi e - a_lo s) (a_exact s) (a_exact e))
    else if negb (contains_stamp eff te) && negb (t_e eff =? te) then Err EDisc
    else dloop (TR ds te) eff te rest (AP (dlen d0 - a_hi s) (dlen d0 - a_lo s)) 0 (a_exact s).
Proof.
  intros Hw HP Hin Hlt.
  destruct (split_d0 P pre rest d0 HP Hw) as [[Hinc _] Hne].
  assert (Ho : overlaps (d_tr d0) (TR ds te) = true) by (apply overlaps_inside; assumption).
  unfold distance, distance_gen, di_seek_first, di_open. simpl di_b. simpl t_s.
  rewrite (seek_ge_inside P pre d0 rest (TR ds te) zero_dom ds (proj1 Hw) HP Hin Ho).
  simpl negb. cbv iota.
  pose proof (fwd_eff_start P (DI (TR ds te) (zlen pre) d0 true)) as [Hs Hb].
  pose proof (fwd_eff_end (TR ds te) pre d0 rest) as He. rewrite <- HP in He.
  destruct (fwd_eff P (DI (TR ds te) (zlen pre) d0 true)) as [[it1 eff] n]. simpl in Hs, Hb, He.
  exists eff. split; [exact Hs|]. split; [exact He|].
  rewrite Hb. simpl t_s.
  rewrite (di_seek_ge_ok_indep P (DI (TR ds te) 0 zero_dom false) it1 ds _ (eq_sym Hb)
             (seek_ge_inside P pre d0 rest (TR ds te) zero_dom ds (proj1 Hw) HP Hin Ho)).
  simpl negb. cbv iota. rewrite andb_true_r.
  destruct (negb (contains_range eff (TR ds te))); [reflexivity|].
  unfold tspan. simpl t_e. simpl t_s.
  destruct (te - ds =? 0) eqn:E0; [apply Z.eqb_eq in E0; lia|].
  simpl di_cur. rewrite (isearch_spec ds _ Hinc). simpl rbind.
  unfold di_tr. simpl di_cur. unfold dom_e.
  destruct (contains_stamp (d_tr d0) te || (te =? t_e (d_tr d0))).
  - rewrite (isearch_spec te _ Hinc). reflexivity.
  - simpl andb.
    destruct (negb (contains_stamp eff te) && negb (t_e eff =? te)); [reflexivity|].
    rewrite HP. rewrite (dist_loop_eq (TR ds te) eff _ _ rest pre d0); [reflexivity|].
    rewrite app_length. simpl. lia.
Qed.

Local Transparent dist_loop.

(* the global statement: the stamps of the whole index, in order *)
Theorem distance_ok P ds te a :
  widx P -> ds < te -> distance P (TR ds te) true = Ok a ->
  let k := cnt_lt te (allst P) - cnt_lt ds (allst P) in
  da_hi a = k + (if da_se a then 0 else 1) /\
  da_lo a = k - (if da_ee a then 0 else 1) /\
  da_se a = zmem ds (allst P) /\
  exists i d0, znth P i = Some d0 /\ dom_s d0 <= ds < dom_e d0.
Proof.
  intros Hw Hlt Hd.
  (* the start lies inside some domain, otherwise Distance fails *)
  destruct (usearch P (point ds)) as [j ex] eqn:Eu.
  pose proof (usearch_point P ds (proj1 Hw)) as Hu. rewrite Eu in Hu.
  destruct ex.
  2:{ exfalso. simpl in Hu. destruct Hu as (Hj & Hbefore & Hafter).
      unfold distance, distance_gen, di_seek_first, di_open in Hd. simpl di_b in Hd. simpl t_s in Hd.
      destruct (di_seek_ge P (DI (TR ds te) 0 zero_dom false) ds) as [it ok] eqn:Es.
      destruct ok; simpl in Hd; [|discriminate].
      assert (Hout : ds < t_s (di_tr it)).
      { eapply (proj1 (seek_ge_outside _ _ _ _ _ Hw _ Es)). Unshelve.
        intros i d Hi Hin. destruct (Z_le_gt_dec i j).
        - pose proof (Hbefore i d Hi ltac:(lia)). lia.
        - pose proof (Hafter i d Hi ltac:(lia)). lia. }
      pose proof (fwd_eff_start P it) as [Hs Hb].
      destruct (fwd_eff P it) as [[it1 eff] n]. simpl in Hs, Hb.
      pose proof (seek_ge_result_bounds _ _ _ _ _ Es) as Hbit. simpl in Hbit.
      assert (Hs2 : di_seek_ge P it1 (t_s (di_b it1)) = (it, true)).
      { rewrite Hb, Hbit. simpl t_s.
        eapply di_seek_ge_ok_indep; [|exact Es]. simpl. rewrite Hb, Hbit. reflexivity. }
      rewrite Hs2 in Hd. simpl in Hd.
      assert (Hc : contains_range eff (TR ds te) = false).
      { unfold contains_range. simpl. apply andb_false_iff. left. apply Z.leb_gt. lia. }
      rewrite Hc in Hd. simpl in Hd. discriminate. }
  simpl in Hu. destruct Hu as (d0 & Hd0 & Hin).
  destruct (widx_find P j d0 Hd0) as (pre & rest & HP & Hlen).
  destruct (distance_unfold P pre d0 rest ds te Hw HP Hin Hlt) as (eff & Heff & _ & Heq).
  rewrite Heq in Hd. clear Heq.
  destruct (negb (contains_range eff (TR ds te))); [discriminate|]. cbv zeta in Hd.
  destruct (split_d0 P pre rest d0 HP Hw) as [_ Hne].
  assert (Hcs : cnt_lt ds (allst P) = zlen (allst pre) + cnt_lt ds (d_data d0))
    by (apply (cntG_in P pre rest d0 HP Hw); lia).
  assert (Hms : zmem ds (allst P) = zmem ds (d_data d0)) by (apply (zmemG_in P pre rest d0 HP Hw); lia).
  cut (da_hi a = cnt_lt te (allst P) - cnt_lt ds (allst P) + (if da_se a then 0 else 1) /\
       da_lo a = cnt_lt te (allst P) - cnt_lt ds (allst P) - (if da_ee a then 0 else 1) /\
       da_se a = zmem ds (allst P)).
  { intros (A & B & C). cbv zeta. repeat split; auto. exists j, d0. auto. }
  rewrite Hms, Hcs.
  destruct (contains_stamp (d_tr d0) te || (te =? dom_e d0)) eqn:Ec.
  - assert (Hce : cnt_lt te (allst P) = zlen (allst pre) + cnt_lt te (d_data d0)).
    { apply (cntG_in P pre rest d0 HP Hw). apply orb_true_iff in Ec as [Ec|Ec].
      - unfold contains_stamp in Ec. apply andb_true_iff in Ec as [_ Ec]. apply Z.ltb_lt in Ec.
        unfold dom_e. lia.
      - apply Z.eqb_eq in Ec. lia. }
    rewrite Hce. inversion Hd; subst a; simpl.
    rewrite !a_exact_result, !isearch_result_hi, !isearch_result_lo.
    destruct (zmem ds (d_data d0)), (zmem te (d_data d0)); repeat split; lia.
  - destruct (negb (contains_stamp eff te) && negb (t_e eff =? te)); [discriminate|].
    destruct (dloop_ok ds te eff _ _ Hlt rest 0 a (split_rest_widx P pre rest d0 HP Hw) Hd) as (A & B & C).
    assert (Hgt : dom_e d0 < te).
    { apply orb_false_iff in Ec as [Ec1 Ec2]. apply Z.eqb_neq in Ec2. unfold contains_stamp in Ec1.
      apply andb_false_iff in Ec1. unfold dom_s, dom_e in *.
      destruct Ec1 as [Ec1|Ec1]; [apply Z.leb_gt in Ec1; lia|apply Z.ltb_ge in Ec1; lia]. }
    assert (Hce : cnt_lt te (allst P) = zlen (allst pre) + dlen d0 + cnt_lt te (allst rest)).
    { rewrite (cntG_from P pre rest d0 HP Hw te ltac:(lia)), cnt_lt_app.
      rewrite (cnt_lt_all te (d_data d0)).
      - unfold dlen, zlen. lia.
      - intros y Hy. pose proof (split_d0_stamps P pre rest d0 HP Hw y Hy). lia. }
    rewrite Hce. simpl in A, B. rewrite isearch_result_lo in A. rewrite isearch_result_hi in B.
    rewrite C, a_exact_result in *.
    destruct (zmem ds (d_data d0)); repeat split; lia.
Qed.

(* an empty range: whatever happens, a successful Distance reports zero, inexact *)
Lemma distance_zero_ok P ds a : distance P (TR ds ds) true = Ok a -> a = da_zero.
Proof.
  unfold distance, distance_gen.
  destruct (di_seek_first P (di_open (TR ds ds))) as [it ok]. destruct (negb ok); [discriminate|].
  destruct (fwd_eff P it) as [[it1 eff] n].
  destruct (di_seek_first P it1) as [it2 ok2]. destruct (negb ok2); [intros [= <-]; reflexivity|].
  destruct (negb (contains_range eff (TR ds ds)) && true); [discriminate|].
  unfold tspan. simpl. rewrite Z.sub_diag. simpl. intros [= <-]. reflexivity.
Qed.

(* ------------------------------------------------------------------ Stamp *)
Lemma allst_znth_d0 P pre rest d0 k u :
  P = pre ++ d0 :: rest -> znth (d_data d0) k = Some u ->
  znth (allst P) (zlen (allst pre) + k) = Some u.
Proof.
  intros HP Hk. pose proof (znth_Some _ _ _ Hk).
  rewrite (allst_split P pre rest d0 HP).
  rewrite znth_app_r by lia. replace (zlen (allst pre) + k - zlen (allst pre)) with k by lia.
  rewrite znth_app_l by lia. exact Hk.
Qed.

Lemma allst_znth_rest P pre rest d0 k u :
  P = pre ++ d0 :: rest -> 0 <= k -> znth (allst rest) k = Some u ->
  znth (allst P) (zlen (allst pre) + dlen d0 + k) = Some u.
Proof.
  intros HP Hk0 Hk.
  rewrite (allst_split P pre rest d0 HP).
  rewrite znth_app_r by (unfold dlen; lia).
  rewrite znth_app_r by (unfold dlen, zlen; lia).
  rewrite <- Hk. f_equal. unfold dlen, zlen. lia.
Qed.

(* the seek of zeroStamp / forwardStamp: a successful seek whose bounds start at ref and
   whose first domain does not start after ref lands on the domain containing ref *)
Lemma seek_first_inside P b ref it :
  widx P -> t_s b = ref -> ref < t_e b ->
  di_seek_first P (di_open b) = (it, true) -> t_s (di_tr it) <= ref ->
  exists pre d0 rest, P = pre ++ d0 :: rest /\ dom_s d0 <= ref < dom_e d0 /\
                      it = DI b (zlen pre) d0 true.
Proof.
  intros Hw Hs Hlt Hseek Hle.
  unfold di_seek_first, di_open in Hseek. simpl di_b in Hseek. rewrite Hs in Hseek.
  destruct (usearch P (point ref)) as [j ex] eqn:Eu.
  pose proof (usearch_point P ref (proj1 Hw)) as Hu. rewrite Eu in Hu.
  destruct ex; simpl in Hu.
  - destruct Hu as (d0 & Hd0 & Hin).
    destruct (widx_find P j d0 Hd0) as (pre & rest & HP & Hlen).
    exists pre, d0, rest. split; [exact HP|]. split; [exact Hin|].
    destruct (split_d0 P pre rest d0 HP Hw) as [_ Hne].
    assert (Ho : overlaps (d_tr d0) b = true).
    { destruct b as [bs be]. simpl in *. subst bs. apply overlaps_inside; unfold dom_s, dom_e in *; lia. }
    rewrite (seek_ge_inside P pre d0 rest b zero_dom ref (proj1 Hw) HP Hin Ho) in Hseek.
    inversion Hseek. reflexivity.
  - exfalso. destruct Hu as (Hj & Hbefore & Hafter).
    assert (Hno : forall i d, znth P i = Some d -> ~ (dom_s d <= ref < dom_e d)).
    { intros i d Hi Hin. destruct (Z_le_gt_dec i j).
      - pose proof (Hbefore i d Hi ltac:(lia)). lia.
      - pose proof (Hafter i d Hi ltac:(lia)). lia. }
    destruct (seek_ge_outside P b zero_dom ref it Hw Hno Hseek) as (Hout & _). lia.
Qed.

Lemma wrap64_small z : - 9223372036854775808 <= z < 9223372036854775808 -> wrap64 z = z.
Proof. intros H. unfold wrap64. rewrite Z.mod_small by lia. lia. Qed.

Theorem zero_stamp_ok P ref st :
  widx P -> 0 <= ref < MAXTS -> zero_stamp P ref = Ok st ->
  znth (allst P) (cnt_lt ref (allst P)) = Some (s_hi st) /\
  (zmem ref (allst P) = true -> s_lo st = s_hi st).
Proof.
  intros Hw Href. unfold zero_stamp. unfold MAXTS in Href.
  rewrite wrap64_small by lia.
  destruct (di_seek_first P (di_open (TR ref (ref + 1)))) as [it ok] eqn:Es.
  destruct ok; simpl; [|discriminate].
  (* the seeked domain overlaps [ref, ref+1), hence contains ref *)
  assert (Hle : t_s (di_tr it) <= ref).
  { destruct (Z_le_gt_dec (t_s (di_tr it)) ref) as [H|H]; [exact H|exfalso].
    unfold di_seek_first, di_open in Es. simpl di_b in Es. simpl t_s in Es.
    assert (Hno : forall i d, znth P i = Some d -> ~ (dom_s d <= ref < dom_e d)).
    { intros i d Hi Hin.
      destruct (widx_find P i d Hi) as (pre & rest & HP & _).
      destruct (split_d0 P pre rest d HP Hw) as [_ Hne].
      assert (Ho : overlaps (d_tr d) (TR ref (ref + 1)) = true)
        by (apply overlaps_inside; unfold dom_s, dom_e in *; lia).
      rewrite (seek_ge_inside P pre d rest _ zero_dom ref (proj1 Hw) HP Hin Ho) in Es.
      inversion Es; subst it. unfold di_tr in H. simpl in H. unfold dom_s in Hin. lia. }
    destruct (seek_ge_outside P _ zero_dom ref it Hw Hno Es) as (Hout & Ho & (i & Hi)).
    destruct (widx_find P i _ Hi) as (pre & rest & HP & _).
    destruct (split_d0 P pre rest _ HP Hw) as [_ Hne].
    unfold di_tr in *. rewrite overlaps_nonempty in Ho by (simpl; unfold dom_s, dom_e in *; lia).
    simpl in Ho. apply Z.ltb_lt in Ho. lia. }
  destruct (seek_first_inside P (TR ref (ref + 1)) ref it Hw eq_refl ltac:(simpl; lia) Es Hle)
    as (pre & d0 & rest & HP & Hin & ->).
  simpl di_cur.
  destruct (split_d0 P pre rest d0 HP Hw) as [[Hinc _] Hne].
  rewrite (isearch_spec ref _ Hinc).
  rewrite a_exact_result, isearch_result_hi.
  assert (Hc : cnt_lt ref (allst P) = zlen (allst pre) + cnt_lt ref (d_data d0))
    by (apply (cntG_in P pre rest d0 HP Hw); lia).
  assert (Hm : zmem ref (allst P) = zmem ref (d_data d0)) by (apply (zmemG_in P pre rest d0 HP Hw); lia).
  rewrite Hc, Hm. unfold rd.
  destruct (znth (d_data d0) (cnt_lt ref (d_data d0))) as [u|] eqn:Eu;
    [|destruct (negb (zmem ref (d_data d0))); discriminate].
  pose proof (allst_znth_d0 P pre rest d0 _ u HP Eu) as Hg.
  destruct (zmem ref (d_data d0)); simpl; intros [= <-]; simpl; (split; [exact Hg|]); auto; discriminate.
Qed.

(* the forward traversal of forwardStamp as a recursion over the following domains *)
Fixpoint floop (B : tr) (rest : list dom) (endoff tot : Z) : res (dom * Z) :=
  match rest with
  | [] => Err EDisc
  | d :: r =>
      if negb (overlaps (d_tr d) B) then Err EDisc else
      let tot' := tot + dlen d in
      if endoff <? tot' then Ok (d, endoff - tot) else floop B r endoff tot'
  end.

Definition fproj (r : res (diter * Z + sapprox)) : res (dom * Z) :=
  match r with
  | Ok (inl (it, e)) => Ok (di_cur it, e)
  | Ok (inr _) => Err EPanic
  | Err e => Err e
  end.

Lemma fstamp_loop_eq B endoff : forall rest pre cur fuel tot,
  (length rest < fuel)%nat ->
  fproj (fstamp_loop fuel (pre ++ cur :: rest) (DI B (zlen pre) cur true) true endoff tot) =
  floop B rest endoff tot.
Proof.
  induction rest as [|d1 r IH]; intros pre cur fuel tot Hf; (destruct fuel as [|f]; [lia|]); simpl.
  - rewrite (di_next_last (pre ++ [cur]) pre cur B eq_refl). reflexivity.
  - rewrite (di_next_some (pre ++ cur :: d1 :: r) pre cur d1 r B eq_refl).
    destruct (overlaps (d_tr d1) B); simpl; [|reflexivity].
    destruct (endoff <? tot + dlen d1); simpl; [f_equal; f_equal; lia|].
    rewrite (app_cons_assoc pre cur (d1 :: r)), <- (zlen_snoc pre cur).
    apply IH. simpl in Hf. lia.
Qed.

Lemma fstamp_loop_no_inr P endoff : forall fuel it tot sa,
  fstamp_loop fuel P it true endoff tot <> Ok (inr sa).
Proof.
  induction fuel as [|f IH]; intros it tot sa; simpl; [discriminate|].
  destruct (di_next P it) as [it' ok]. destruct (negb ok); [discriminate|].
  destruct (endoff <? tot + dlen (di_cur it')); [discriminate|apply IH].
Qed.

Lemma floop_ok B : forall rest endoff tot d e u,
  floop B rest endoff tot = Ok (d, e) -> tot <= endoff ->
  znth (d_data d) e = Some u -> znth (allst rest) (endoff - tot) = Some u.
Proof.
  induction rest as [|d1 r IH]; intros endoff tot d e u; simpl; [discriminate|].
  destruct (negb (overlaps (d_tr d1) B)); [discriminate|].
  rewrite allst_cons.
  destruct (endoff <? tot + dlen d1) eqn:E.
  - apply Z.ltb_lt in E. intros [= <- <-] Hle Hu.
    rewrite znth_app_l by (unfold dlen, zlen in *; lia). exact Hu.
  - apply Z.ltb_ge in E. intros Hf Hle Hu.
    rewrite znth_app_r by (unfold dlen, zlen in *; lia).
    replace (endoff - tot - zlen (d_data d1)) with (endoff - (tot + dlen d1)) by (unfold dlen, zlen; lia).
    eapply IH; eauto.
Qed.

Lemma approximate_stamp_ok P it upper lower st :
  approximate_stamp P it upper lower = Ok st ->
  znth (d_data (di_cur it)) upper = Some (s_hi st) /\ (lower = upper -> s_lo st = s_hi st).
Proof.
  unfold approximate_stamp, rd, rbind.
  destruct (znth (d_data (di_cur it)) upper) as [u|] eqn:Eu; cbv beta iota; [|discriminate].
  destruct (0 <=? lower) eqn:El.
  - destruct (znth (d_data (di_cur it)) lower) as [l|] eqn:Elo; cbv beta iota; [|discriminate].
    intros [= <-]. simpl. split; [reflexivity|]. intros ->. congruence.
  - apply Z.leb_gt in El. destruct (di_prev P it) as [it' ok]. destruct (negb ok); [discriminate|].
    destruct (znth (d_data (di_cur it')) _); cbv beta iota; [|discriminate]. intros [= <-]. simpl. split; [reflexivity|].
    intros ->. pose proof (znth_Some _ _ _ Eu). lia.
Qed.

Lemma span_range_max ref : 0 <= ref < MAXTS ->
  t_s (span_range ref MAXTS) = ref /\ ref < t_e (span_range ref MAXTS).
Proof.
  intros H. destruct (span_range_fwd ref MAXTS ltac:(unfold MAXTS; lia) ltac:(lia)) as (A & B & C).
  split; [exact A|]. unfold span_range in *.
  unfold add_clamp, MAXTS, MINI64 in *.
  destruct ((0 <? 9223372036854775807) && (9223372036854775807 - 9223372036854775807 <? ref)) eqn:E.
  - rewrite make_valid_valid by (simpl; lia). simpl. lia.
  - simpl in E. apply Z.ltb_ge in E. assert (ref = 0) by lia. subst. vm_compute. reflexivity.
Qed.

Local Opaque fstamp_loop.
Theorem forward_stamp_ok P ref off st :
  widx P -> 0 <= ref < MAXTS -> 0 < off -> forward_stamp P ref off true = Ok st ->
  znth (allst P) (cnt_lt ref (allst P) + off) = Some (s_hi st) /\
  (zmem ref (allst P) = true -> s_lo st = s_hi st).
Proof.
  intros Hw Href Hoff. unfold forward_stamp.
  destruct (span_range_max ref Href) as [HBs HBe]. set (B := span_range ref MAXTS) in *.
  destruct (di_seek_first P (di_open B)) as [it ok] eqn:Es.
  destruct ok; simpl; [|discriminate].
  pose proof (fwd_eff_start P it) as [Hs Hb].
  destruct (fwd_eff P it) as [[it1 effb] efflen]. simpl in Hs, Hb.
  destruct (contains_stamp effb ref) eqn:Ecs; simpl; [|discriminate].
  destruct (efflen <=? off); [discriminate|].
  assert (Hle : t_s (di_tr it) <= ref).
  { unfold contains_stamp in Ecs. apply andb_true_iff in Ecs as [Ecs _]. apply Z.leb_le in Ecs. lia. }
  destruct (seek_first_inside P B ref it Hw HBs HBe Es Hle) as (pre & d0 & rest & HP & Hin & ->).
  (* the second seek repeats the first *)
  assert (Hs2 : di_seek_first P it1 = (DI B (zlen pre) d0 true, true)).
  { unfold di_seek_first in *. simpl in Hb. rewrite Hb.
    eapply di_seek_ge_ok_indep; [|exact Es]. simpl. symmetry. exact Hb. }
  rewrite Hs2. simpl di_cur.
  destruct (split_d0 P pre rest d0 HP Hw) as [[Hinc _] Hne].
  rewrite (isearch_spec ref _ Hinc). simpl rbind.
  rewrite a_exact_result, isearch_result_hi.
  destruct (_ && _ || _ && _); [discriminate|].
  assert (Hc : cnt_lt ref (allst P) = zlen (allst pre) + cnt_lt ref (d_data d0))
    by (apply (cntG_in P pre rest d0 HP Hw); lia).
  assert (Hm : zmem ref (allst P) = zmem ref (d_data d0)) by (apply (zmemG_in P pre rest d0 HP Hw); lia).
  rewrite Hc, Hm.
  assert (Hspan : zmem ref (d_data d0) = true -> a_span (isearch_result ref (d_data d0)) = 0).
  { intros Hz. unfold isearch_result, a_span. rewrite Hz. simpl. lia. }
  set (c0 := cnt_lt ref (d_data d0)) in *.
  destruct (dlen d0 <=? c0 + off) eqn:En.
  - apply Z.leb_le in En.
    pose proof (fstamp_loop_eq B (c0 + off) rest pre d0 (S (length P)) (dlen d0)) as Hl.
    rewrite <- HP in Hl. specialize (Hl ltac:(rewrite HP, app_length; simpl; lia)).
    destruct (fstamp_loop (S (length P)) P (DI B (zlen pre) d0 true) true (c0 + off) (dlen d0))
      as [[[it' e']|sa]|er] eqn:Efl; simpl in Hl; simpl rbind; try discriminate.
    2:{ exfalso. eapply fstamp_loop_no_inr; eauto. }
    intros Ha. destruct (approximate_stamp_ok P it' e' _ st Ha) as [Hu Hlo].
    symmetry in Hl. pose proof (floop_ok B rest (c0 + off) (dlen d0) _ e' _ Hl En Hu) as Hr.
    split.
    + replace (zlen (allst pre) + c0 + off) with (zlen (allst pre) + dlen d0 + (c0 + off - dlen d0)) by lia.
      eapply allst_znth_rest; eauto. lia.
    + intros Hz. apply Hlo. rewrite (Hspan Hz). lia.
  - simpl rbind. intros Ha. destruct (approximate_stamp_ok P _ _ _ st Ha) as [Hu Hlo]. simpl in Hu.
    split.
    + replace (zlen (allst pre) + c0 + off) with (zlen (allst pre) + (c0 + off)) by lia.
      eapply allst_znth_d0; eauto.
    + intros Hz. apply Hlo. rewrite (Hspan Hz). lia.
Qed.

Local Transparent fstamp_loop.

(* index.Domain.Stamp with a non-negative offset, continuous policy *)
Theorem stamp_ok P ref off st :
  widx P -> 0 <= ref < MAXTS -> 0 <= off -> stamp P ref off true = Ok st ->
  znth (allst P) (cnt_lt ref (allst P) + off) = Some (s_hi st) /\
  (zmem ref (allst P) = true -> s_lo st = s_hi st).
Proof.
  intros Hw Href Hoff. unfold stamp.
  destruct (off =? 0) eqn:E0.
  - apply Z.eqb_eq in E0. subst. rewrite Z.add_0_r. apply zero_stamp_ok; assumption.
  - apply Z.eqb_neq in E0. destruct (off <? 0) eqn:E1; [apply Z.ltb_lt in E1; lia|].
    apply forward_stamp_ok; try assumption. lia.
Qed.
