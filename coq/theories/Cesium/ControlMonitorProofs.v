(* Cesium/ControlMonitorProofs.v — the decidable monitor of C05 accepts every trace of the model. *)
From Coq Require Import List Bool NArith ZArith Lia Permutation.
Import ListNotations.
From Synnax Require Import Cesium.Control Cesium.ControlProofs Cesium.ControlMonitor.
Local Open Scope N_scope.

(* ---------- small facts ---------- *)
Lemma st_code_ok st : st_code st = 0 <-> st = Ok.
Proof. destruct st; simpl; split; intros H; try discriminate; auto. Qed.

Lemma cstate_eqb_spec a b : cstate_eqb a b = true <-> a = b.
Proof.
  destruct a as [[a1 a2] a3], b as [[b1 b2] b3]. unfold cstate_eqb. simpl.
  rewrite !andb_true_iff, !N.eqb_eq. split; [intros [[-> ->] ->]; auto|intros H; inversion H; auto].
Qed.

Lemma ocs_eqb_spec a b : ocs_eqb a b = true <-> a = b.
Proof.
  destruct a, b; simpl; try (split; [discriminate|discriminate]); [|tauto].
  rewrite cstate_eqb_spec. split; [intros ->; auto|intros H; inversion H; auto].
Qed.

Lemma ocs_eqb_refl a : ocs_eqb a a = true.
Proof. apply ocs_eqb_spec. auto. Qed.

Lemma listN_eqb_refl l : listN_eqb l l = true.
Proof. induction l; simpl; auto. rewrite N.eqb_refl. auto. Qed.

Lemma insN_perm x l : Permutation (insN x l) (x :: l).
Proof.
  induction l as [|y r IH]; simpl; auto. destruct (x <=? y); auto.
  eapply perm_trans; [apply perm_skip, IH|]. apply perm_swap.
Qed.

Lemma sortN_perm l : Permutation (sortN l) l.
Proof.
  induction l as [|x r IH]; simpl; auto.
  eapply perm_trans; [apply insN_perm|]. auto.
Qed.

Lemma gh_obs shared s h : gh (obs_gate shared s h) = h.
Proof.
  unfold obs_gate. destruct (region_of h (c_regions s)); auto.
  destruct (find_gate h (r_gates r)); auto. destruct (authorize shared s h). auto.
Qed.

(* ---------- a handle belongs to exactly one region ---------- *)
Lemma handles_unique rs r1 r2 h :
  NoDup (handles rs) -> In r1 rs -> In r2 rs -> In h (hl r1) -> In h (hl r2) -> r1 = r2.
Proof.
  induction rs as [|r rest IH]; simpl; intros ND I1 I2 H1 H2; [destruct I1|].
  apply NoDup_app_iff in ND. destruct ND as (N1 & N2 & D).
  assert (Inrest : forall q, In q rest -> In h (hl q) -> In h (handles rest)).
  { intros q Iq Hq. unfold handles. apply in_flat_map. exists q. auto. }
  destruct I1 as [<-|I1], I2 as [<-|I2]; auto.
  - exfalso. apply (D h H1). eauto.
  - exfalso. apply (D h H2). eauto.
Qed.

Lemma region_of_gate s r g :
  cinv s -> In r (c_regions s) -> In g (r_gates r) ->
  region_of (g_h g) (c_regions s) = Some r /\ find_gate (g_h g) (r_gates r) = Some g.
Proof.
  intros (FI & ND & _) Ir Ig.
  assert (Hh : In (g_h g) (hl r)) by (apply in_map; auto).
  assert (Ih : In (g_h g) (handles (c_regions s))).
  { unfold handles. apply in_flat_map. exists r. auto. }
  destruct (region_of_split _ _ Ih) as (l1 & r' & l2 & E & Hh' & RO).
  assert (r' = r).
  { apply (handles_unique (c_regions s) r' r (g_h g)); auto. rewrite E. apply in_or_app. right. left. auto. }
  subst r'. split; auto. apply find_gate_in; auto.
  rewrite Forall_forall in FI. apply (FI r Ir).
Qed.

Lemma obs_gate_of shared s r g :
  cinv s -> In r (c_regions s) -> In g (r_gates r) ->
  obs_gate shared s (g_h g) =
    (g_h g, g_subj g, g_auth g, r_res r,
     if fst (authorize shared s (g_h g)) then 1 else 0, snd (authorize shared s (g_h g))).
Proof.
  intros I Ir Ig. destruct (region_of_gate s r g I Ir Ig) as [RO FG].
  unfold obs_gate. rewrite RO, FG. destruct (authorize shared s (g_h g)). auto.
Qed.

(* ---------- members of a region, as the monitor computes them ---------- *)
Lemma filter_eqb_nodup h l : NoDup l -> In h l -> filter (fun k => k =? h) l = [h].
Proof.
  induction l as [|a rest IH]; simpl; intros ND I; [destruct I|].
  inversion ND; subst. destruct (a =? h) eqn:E.
  - apply N.eqb_eq in E. subst. f_equal. apply filter_none. intros x Ix.
    apply N.eqb_neq. intros ->. contradiction.
  - apply N.eqb_neq in E. destruct I as [|I]; [contradiction|]. auto.
Qed.

Lemma filter_map {A B} (f : A -> B) (p : B -> bool) l :
  filter p (map f l) = map f (filter (fun x => p (f x)) l).
Proof.
  induction l as [|a rest IH]; simpl; auto. destruct (p (f a)); simpl; rewrite IH; auto.
Qed.

Lemma filter_andb {A} (p q : A -> bool) l :
  filter (fun x => p x && q x) l = filter q (filter p l).
Proof.
  induction l as [|a rest IH]; simpl; auto.
  destruct (p a); simpl; [destruct (q a); rewrite IH; auto|auto].
Qed.

Lemma flat_map_single {A B} (f : A -> B) (p : A -> bool) l :
  flat_map (fun x => if p x then [f x] else []) l = map f (filter p l).
Proof.
  induction l as [|a rest IH]; simpl; auto. destruct (p a); simpl; rewrite IH; auto.
Qed.

Lemma flat_map_ext_in' {A B} (f g : A -> list B) l :
  (forall x, In x l -> f x = g x) -> flat_map f l = flat_map g l.
Proof.
  induction l as [|a rest IH]; simpl; auto. intros H. rewrite (H a), IH; auto.
Qed.

Lemma members_eq shared s rho :
  NoDup (c_live s) ->
  members rho (obs_gates shared s) (c_live s) =
  map (obs_gate shared s) (filter (fun h => gres (obs_gate shared s h) =? rho) (c_live s)).
Proof.
  intros ND. unfold members, obs_gates.
  rewrite <- flat_map_single. apply flat_map_ext_in'. intros h Ih.
  rewrite filter_andb, filter_map.
  assert (E : filter (fun x => gh (obs_gate shared s x) =? h) (sortN (c_live s)) = [h]).
  { rewrite (filter_ext _ (fun k => k =? h)); [|intros k; rewrite gh_obs; auto].
    apply filter_eqb_nodup.
    - eapply Permutation_NoDup; [apply Permutation_sym, sortN_perm|]; auto.
    - eapply Permutation_in; [apply Permutation_sym, sortN_perm|]; auto. }
  rewrite E. simpl. destruct (gres (obs_gate shared s h) =? rho); auto.
Qed.

(* the handles whose region has resource rho are the gates of that region, in open order *)
Lemma members_region shared s r :
  cinv s -> linv s -> In r (c_regions s) ->
  filter (fun h => gres (obs_gate shared s h) =? r_res r) (c_live s) = hl r.
Proof.
  intros I L Ir. pose proof I as (FI & ND & LV & US & NR & FR).
  transitivity (restr (hl r) (c_live s)); [|apply L; apply in_map; auto].
  unfold restr. apply filter_ext_in. intros h Ih. apply LV in Ih.
  destruct (region_of_split _ _ Ih) as (l1 & r' & l2 & E & Hh' & RO).
  assert (Ir' : In r' (c_regions s)) by (rewrite E; apply in_or_app; right; left; auto).
  apply in_map_iff in Hh'. destruct Hh' as (g & Eg & Ig). subst h.
  rewrite (obs_gate_of shared s r' g I Ir' Ig). simpl.
  destruct (existsb (N.eqb (g_h g)) (hl r)) eqn:Ex.
  - apply memb_iff in Ex.
    assert (r' = r) by (apply (handles_unique (c_regions s) r' r (g_h g)); auto; apply in_map; auto).
    subst. apply N.eqb_refl.
  - apply N.eqb_neq. intros Er.
    assert (r' = r).
    { clear - NR Ir Ir' Er. induction (c_regions s) as [|a rest IH]; [destruct Ir|].
      simpl in NR. inversion NR; subst.
      destruct Ir as [<-|Ir], Ir' as [<-|Ir']; auto.
      - exfalso. apply H1. rewrite <- Er. apply in_map; auto.
      - exfalso. apply H1. rewrite Er. apply in_map; auto. }
    subst. assert (existsb (N.eqb (g_h g)) (hl r) = true); [|congruence].
    apply memb_iff. apply in_map; auto.
Qed.

Lemma members_no_region shared s rho :
  cinv s -> ~ In rho (map r_res (c_regions s)) ->
  filter (fun h => gres (obs_gate shared s h) =? rho) (c_live s) = [].
Proof.
  intros I Nr. pose proof I as (FI & ND & LV & US & NR & FR).
  apply filter_none. intros h Ih. apply LV in Ih.
  destruct (region_of_split _ _ Ih) as (l1 & r' & l2 & E & Hh' & RO).
  assert (Ir' : In r' (c_regions s)) by (rewrite E; apply in_or_app; right; left; auto).
  apply in_map_iff in Hh'. destruct Hh' as (g & Eg & Ig). subst h.
  rewrite (obs_gate_of shared s r' g I Ir' Ig). simpl.
  apply N.eqb_neq. intros <-. apply Nr. apply in_map; auto.
Qed.

(* ---------- the monitor's leader is the model's leader ---------- *)
Fixpoint gleader (gs : list gate) : option gate :=
  match gs with
  | [] => None
  | g :: rest =>
      match gleader rest with
      | None => Some g
      | Some m => if g_auth m <=? g_auth g then Some g else Some m
      end
  end.

Lemma leader_map (F : gate -> gobs) gs :
  (forall g, gauth (F g) = g_auth g) -> leader (map F gs) = option_map F (gleader gs).
Proof.
  intros HF. induction gs as [|g rest IH]; simpl; auto. rewrite IH.
  destruct (gleader rest) as [m|]; simpl; auto. rewrite !HF. destruct (g_auth m <=? g_auth g); auto.
Qed.

Lemma gleader_is_leader gs :
  pos_sorted gs -> gs <> [] -> exists m, gleader gs = Some m /\ is_leader m gs.
Proof.
  induction gs as [|g rest IH]; intros PS NE; [contradiction|]. simpl in *.
  destruct PS as [F PS]. rewrite Forall_forall in F.
  destruct rest as [|g2 rest'].
  - simpl. exists g. split; auto. split; [left; auto|]. intros x [<-|[]]. auto.
  - destruct (IH PS) as (m & Em & [Im Mm]); [discriminate|]. rewrite Em.
    destruct (g_auth m <=? g_auth g) eqn:Le.
    + apply N.leb_le in Le. exists g. split; auto. split; [left; auto|].
      intros x [<-|Ix]; auto. right. apply better_spec.
      specialize (F _ Ix). destruct (Mm _ Ix) as [->|B]; [lia|].
      apply better_auth in B. lia.
    + apply N.leb_gt in Le. exists m. split; auto. split; [right; auto|].
      intros x [<-|Ix]; [right; apply better_spec; lia|]. apply Mm; auto.
Qed.

Lemma leader_members shared s r :
  cinv s -> linv s -> NoDup (c_live s) -> In r (c_regions s) ->
  exists l, cur r = Some l /\ In l (r_gates r) /\
    leader (members (r_res r) (obs_gates shared s) (c_live s)) = Some (obs_gate shared s (g_h l)).
Proof.
  intros I L NDl Ir. pose proof I as (FI & _).
  rewrite Forall_forall in FI. specialize (FI _ Ir).
  pose proof (rinv_cur _ FI) as (l & C & _ & Ll & _). destruct FI as (_ & PS & _).
  exists l. split; auto. split; [apply Ll|].
  rewrite members_eq; auto. rewrite members_region; auto.
  unfold hl. rewrite map_map.
  set (F := fun g => (g_h g, g_subj g, g_auth g, r_res r,
                      (if fst (authorize shared s (g_h g)) then 1 else 0),
                      snd (authorize shared s (g_h g))) : gobs).
  rewrite (map_ext_in _ F); [|intros g Ig; apply obs_gate_of; auto].
  rewrite leader_map; [|intros g; reflexivity].
  destruct (gleader_is_leader (r_gates r) PS) as (m & Em & Lm).
  { intros E. destruct Ll as [Il _]. rewrite E in Il. destruct Il. }
  rewrite Em. simpl. assert (m = l) by (eapply is_max_unique; eauto). subst m.
  f_equal. symmetry. apply obs_gate_of; auto. apply Ll.
Qed.

Lemma spec_holder_hold shared s rho :
  cinv s -> linv s -> NoDup (c_live s) ->
  spec_holder (obs_gates shared s) (c_live s) rho = hold s rho.
Proof.
  intros I L NDl. unfold spec_holder, hold.
  destruct (in_dec N.eq_dec rho (map r_res (c_regions s))) as [In_|Nin].
  - apply in_map_iff in In_. destruct In_ as (r & <- & Ir).
    destruct (leader_members shared s r I L NDl Ir) as (l & C & Il & ->).
    rewrite (obs_gate_of shared s r l I Ir Il). simpl.
    pose proof I as (_ & _ & _ & _ & NR & _).
    apply in_split in Ir. destruct Ir as (l1 & l2 & E). rewrite E in *.
    apply NoDup_res_mid in NR. rewrite holder_mid_at; [|apply NR].
    unfold hst. rewrite C. reflexivity.
  - rewrite members_eq; auto. rewrite members_no_region; auto. simpl.
    symmetry. apply holder_none; auto.
Qed.

(* ---------- the reconstructed-holders map ---------- *)
Lemma hget_hdel H k rho : hget (hdel H k) rho = if rho =? k then None else hget H rho.
Proof.
  unfold hget, hdel. induction H as [|[k0 v] rest IH]; simpl.
  - destruct (rho =? k); auto.
  - destruct (k0 =? k) eqn:E; simpl.
    + apply N.eqb_eq in E. subst. destruct (k =? rho) eqn:E2.
      * apply N.eqb_eq in E2. subst. rewrite N.eqb_refl in *. auto.
      * rewrite IH. auto.
    + destruct (k0 =? rho) eqn:E2; auto.
      apply N.eqb_eq in E2. subst. rewrite E. auto.
Qed.

Lemma hget_happly H x rho :
  hget (happly H x) rho = apply_xfer (hget H) (X (fst x) (snd x)) rho.
Proof.
  unfold happly, apply_xfer, xoccurred. simpl. destruct (occurred (X (fst x) (snd x))); auto.
  destruct (snd x) as [t|].
  - unfold hget at 1. simpl. rewrite (N.eqb_sym (snd t) rho). destruct (rho =? snd t) eqn:E; auto.
    fold (hget (hdel H (snd t)) rho). rewrite hget_hdel, E. auto.
  - destruct (fst x) as [f|]; auto. rewrite hget_hdel. auto.
Qed.

(* ---------- the caller's handle list has no duplicates ---------- *)
Lemma shape_live_nodup s s' : cinv s -> NoDup (c_live s) -> shape s s' -> NoDup (c_live s').
Proof.
  intros (_ & _ & LV & _) ND Sh.
  destruct Sh as [(El & _)|[(h & l1 & r & l2 & r' & NH & _ & _ & _ & El)|
                 [(h & l1 & l2 & r' & NH & _ & _ & _ & El)|(h & l1 & r & l2 & _ & _ & El & _)]]];
    rewrite El; auto.
  - apply NoDup_snoc; auto. intros X. apply NH, LV; auto.
  - apply NoDup_snoc; auto. intros X. apply NH, LV; auto.
  - apply NoDup_filter; auto.
Qed.

Definition good (s : ctl) : Prop := cinv s /\ linv s /\ NoDup (c_live s).

Lemma good_init : good init.
Proof. split; [apply cinv_init|]. split; [apply linv_init|constructor]. Qed.

Lemma good_step shared s o : good s -> good (fst (step true shared s o)).
Proof.
  intros (I & L & ND). destruct (step true shared s o) as [s' ou] eqn:E. simpl.
  pose proof (step_shape shared s o s' ou I E) as Sh.
  pose proof (step_cinv shared s o I) as I'. rewrite E in I'. simpl in I'.
  split; [exact I'|]. split; [exact (shape_linv s s' I L Sh)|exact (shape_live_nodup s s' I ND Sh)].
Qed.

(* ---------- one monitored step ---------- *)
Lemma next_order_live l o ou : next_order l o (st_code (out_st ou)) = live_next l o ou.
Proof.
  unfold next_order, live_next. destruct o; auto; destruct (out_st ou); auto.
Qed.

Lemma dedup_in x l : In x (dedup l) <-> In x l.
Proof.
  induction l as [|a rest IH]; simpl; [tauto|].
  destruct (existsb (N.eqb a) rest) eqn:E.
  - rewrite IH. split; auto. intros [<-|I]; auto. apply memb_iff; auto.
  - simpl. rewrite IH. tauto.
Qed.

Lemma dedup_nodup l : NoDup (dedup l).
Proof.
  induction l as [|a rest IH]; simpl; [constructor|].
  destruct (existsb (N.eqb a) rest) eqn:E; auto.
  constructor; auto. rewrite dedup_in. intros I. apply memb_iff in I. congruence.
Qed.

Lemma nodup_all_eq (l : list N) a : NoDup l -> (forall x, In x l -> x = a) -> l = [] \/ l = [a].
Proof.
  intros ND H. destruct l as [|x [|y rest]]; auto.
  - right. rewrite (H x); simpl; auto.
  - exfalso. inversion ND as [|? ? Nx _]; subst. apply Nx. rewrite (H x), (H y); simpl; auto.
Qed.

Lemma c3_ok (b a : N -> option cstate) (x : xobs) rho0 rhos :
  NoDup rhos -> (forall k, k <> rho0 -> a k = b k) ->
  xrel (X (fst x) (snd x)) (b rho0) (a rho0) -> (~ In rho0 rhos -> b rho0 = a rho0) ->
  match filter (fun rho => negb (ocs_eqb (b rho) (a rho))) rhos with
  | [] => negb (xoccurred x)
  | [rho] => ocs_eqb (fst x) (b rho) && ocs_eqb (snd x) (a rho)
  | _ => false
  end = true.
Proof.
  intros ND Oth XR Out.
  set (ch := filter (fun rho => negb (ocs_eqb (b rho) (a rho))) rhos).
  assert (All : forall k, In k ch -> k = rho0).
  { intros k Ik. apply filter_In in Ik. destruct Ik as [_ Nk].
    destruct (N.eq_dec k rho0); auto. rewrite (Oth k n), ocs_eqb_refl in Nk. discriminate. }
  destruct (nodup_all_eq ch rho0 (NoDup_filter _ _ ND) All) as [E|E]; rewrite E.
  - assert (Same : b rho0 = a rho0).
    { destruct (in_dec N.eq_dec rho0 rhos) as [I|N]; auto.
      destruct (ocs_eqb (b rho0) (a rho0)) eqn:Eq; [apply ocs_eqb_spec; auto|].
      assert (In rho0 ch) by (apply filter_In; split; auto; rewrite Eq; auto).
      rewrite E in H. destruct H. }
    unfold xoccurred. destruct XR as [[-> _]|[Ef Et]]; auto. simpl in *.
    rewrite Ef, Et, Same. rewrite occurred_same. auto.
  - assert (In rho0 ch) as I by (rewrite E; left; auto).
    apply filter_In in I. destruct I as [_ Nq]. apply negb_true_iff in Nq.
    destruct XR as [[_ Eq]|[Ef Et]].
    + rewrite Eq, ocs_eqb_refl in Nq. discriminate.
    + simpl in *. rewrite Ef, Et, !ocs_eqb_refl. auto.
Qed.

Lemma regions_res_observed shared s r :
  cinv s -> In r (c_regions s) -> In (r_res r) (map gres (obs_gates shared s)).
Proof.
  intros I Ir. pose proof I as (FI & ND & LV & _).
  rewrite Forall_forall in FI. pose proof (rinv_cur _ (FI _ Ir)) as (l & _ & _ & [Il _] & _).
  apply in_map_iff. exists (obs_gate shared s (g_h l)). split.
  - rewrite (obs_gate_of shared s r l I Ir Il). reflexivity.
  - unfold obs_gates. apply in_map.
    eapply Permutation_in; [apply Permutation_sym, sortN_perm|].
    apply LV. unfold handles. apply in_flat_map. exists r. split; auto. apply in_map; auto.
Qed.

Definition Rel (shared : bool) (m : mstate) (s : ctl) : Prop :=
  m_gs m = obs_gates shared s /\ m_order m = c_live s /\ forall rho, hget (m_H m) rho = hold s rho.

Lemma ok_step_model shared m s o s' ou :
  good s -> Rel shared m s -> step true shared s o = (s', ou) ->
  fst (ok_step shared m o (obs_out ou, obs_state shared s')) = true /\
  Rel shared (snd (ok_step shared m o (obs_out ou, obs_state shared s'))) s'.
Proof.
  intros G (Egs & Eord & EH) E. pose proof G as (I & L & NDl).
  pose proof (good_step shared s o G) as G'. rewrite E in G'. simpl in G'.
  destruct G' as (I' & L' & NDl').
  destruct (step_core (fun l => l) shared s o s' ou I is_perm_id E) as [[_ (rho0 & Oth & XR)] _].
  pose proof (step_live shared s o) as SL. rewrite E in SL. simpl in SL.
  unfold ok_step, obs_out, obs_state. simpl.
  set (x := (x_from (out_x ou), x_to (out_x ou))).
  set (order := next_order (m_order m) o (st_code (out_st ou))).
  set (H' := happly (m_H m) x).
  assert (Eorder : order = c_live s').
  { unfold order. rewrite next_order_live, Eord. auto. }
  assert (EH' : forall rho, hget H' rho = hold s' rho).
  { intros rho. unfold H'. rewrite hget_happly.
    apply (apply_xfer_step (hget (m_H m)) _ s s' rho0); auto.
    unfold x. simpl. destruct (out_x ou); auto. }
  split; [|split; [|split]]; auto.
  set (rhos := dedup _).
  assert (Before : forall rho, spec_holder (m_gs m) (m_order m) rho = hold s rho).
  { intros rho. rewrite Egs, Eord. apply spec_holder_hold; auto. }
  assert (After : forall rho, spec_holder (obs_gates shared s') order rho = hold s' rho).
  { intros rho. rewrite Eorder. apply spec_holder_hold; auto. }
  repeat (apply andb_true_iff; split).
  - (* c1 *)
    rewrite Eorder. unfold obs_gates. rewrite map_map.
    rewrite (map_ext _ (fun h => h)); [|intros; apply gh_obs]. rewrite map_id. apply listN_eqb_refl.
  - (* c2 *)
    apply forallb_forall. intros g Ig. unfold obs_gates in Ig. apply in_map_iff in Ig.
    destruct Ig as (h & <- & Ih).
    assert (Lv : In h (c_live s')) by (eapply Permutation_in; [apply sortN_perm|]; auto).
    destruct (authorize_spec shared s' h I' Lv) as (r & g0 & l & Ir & Ig0 & Eh & C & Ll & _ & EA).
    subst h. rewrite (obs_gate_of shared s' r g0 I' Ir Ig0). simpl. rewrite Eorder.
    destruct (leader_members shared s' r I' L' NDl' Ir) as (l' & C' & Il' & ->).
    rewrite C in C'. inversion C'; subst l'.
    rewrite (obs_gate_of shared s' r l I' Ir Il'). simpl. rewrite EA.
    pose proof (leader_auth _ _ _ Ll Ig0) as Le.
    destruct shared.
    + destruct (g_auth l <=? g_auth g0) eqn:Le2; simpl.
      * apply N.leb_le in Le2. replace (g_auth g0 =? g_auth l) with true; auto.
        symmetry. apply N.eqb_eq. lia.
      * apply N.leb_gt in Le2. replace (g_auth g0 =? g_auth l) with false; auto.
        symmetry. apply N.eqb_neq. lia.
    + rewrite (N.eqb_sym (g_h g0) (g_h l)). destruct (g_h l =? g_h g0); auto.
  - (* c3 *)
    rewrite (filter_ext _ (fun rho => negb (ocs_eqb (hold s rho) (hold s' rho))));
      [|intros rho; rewrite Before, After; auto].
    pose proof (c3_ok (hold s) (hold s') x rho0 rhos (dedup_nodup _) Oth) as C3.
    assert (XR' : xrel (X (fst x) (snd x)) (hold s rho0) (hold s' rho0)).
    { unfold x. simpl. destruct (out_x ou); auto. }
    assert (Out : ~ In rho0 rhos -> hold s rho0 = hold s' rho0).
    { intros Nin. unfold rhos in Nin. rewrite dedup_in, !in_app_iff in Nin.
      unfold hold. rewrite !holder_none; auto.
      - intros X. apply in_map_iff in X. destruct X as (r & <- & Ir).
        apply Nin. right. left. apply regions_res_observed; auto.
      - intros X. apply in_map_iff in X. destruct X as (r & <- & Ir).
        apply Nin. left. rewrite Egs. apply regions_res_observed; auto. }
    specialize (C3 XR' Out).
    destruct (filter _ rhos) as [|k [|k2 rest]]; auto.
    rewrite Before, After. auto.
  - (* c4 *)
    apply forallb_forall. intros rho _. rewrite EH', After. apply ocs_eqb_refl.
  - (* c5 *)
    unfold leading_state. pose proof I' as (FI' & _ & LV' & _).
    destruct (c_regions s') as [|r rest] eqn:Er.
    + assert (c_live s' = []) as El.
      { destruct (c_live s') as [|h t] eqn:El; auto. exfalso.
        assert (In h (handles [])) as X by (apply LV'; left; auto). destruct X. }
      unfold obs_gates. rewrite El. reflexivity.
    + inversion FI'; subst. pose proof (rinv_cur _ H1) as (l & C & _ & [Il _] & _).
      destruct (r_gates r) eqn:Eg; [destruct Il|]. rewrite C. simpl.
      rewrite After. unfold hold. rewrite Er. simpl. rewrite N.eqb_refl. unfold hst. rewrite C.
      apply ocs_eqb_refl.
Qed.

Lemma ok_trace_cons shared m o io tr :
  ok_trace shared m ((o, io) :: tr) =
  fst (ok_step shared m o io) && ok_trace shared (snd (ok_step shared m o io)) tr.
Proof. simpl. destruct (ok_step shared m o io). reflexivity. Qed.

Lemma model_trace_cons shared s o ops :
  model_trace true shared s (o :: ops) =
  (obs_out (snd (step true shared s o)), obs_state shared (fst (step true shared s o)))
    :: model_trace true shared (fst (step true shared s o)) ops.
Proof. simpl. destruct (step true shared s o). reflexivity. Qed.

Lemma ok_trace_model shared ops : forall m s,
  good s -> Rel shared m s ->
  ok_trace shared m (combine ops (model_trace true shared s ops)) = true.
Proof.
  induction ops as [|o rest IH]; [reflexivity|]. intros m s G R.
  rewrite model_trace_cons. cbn [combine]. rewrite ok_trace_cons.
  destruct (step true shared s o) as [s' ou] eqn:E. cbn [fst snd].
  destruct (ok_step_model shared m s o s' ou G R E) as [B R'].
  rewrite B. cbn [andb]. apply IH; auto.
  pose proof (good_step shared s o G) as G'. rewrite E in G'. auto.
Qed.

Theorem monitor_accepts_model shared ops :
  ok_trace shared (MS [] [] []) (combine ops (model_trace true shared init ops)) = true.
Proof.
  apply ok_trace_model; [apply good_init|]. split; [|split]; auto.
Qed.
