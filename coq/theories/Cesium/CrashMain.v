(* Cesium/CrashMain.v — crash consistency of the persistence protocol over whole histories,
   and the witnesses that refute it inside the three windows. *)
From Coq Require Import List NArith ZArith Bool Arith Lia.
From Synnax Require Import Cesium.FsLog Cesium.Crash Cesium.CrashProofs Cesium.CrashInv Generated.Consts_C02.
Import ListNotations.

(* ------------------------------------------------------------------ every operation *)
Lemma step_all_good : forall s w o, Inv s w -> step_good s w o.
Proof.
  intros s w o HI s' es oc Hstep Hleg.
  assert (HI0 : Inv (clear_out s) w) by (apply inv_clear; exact HI).
  rewrite <- legal_step_clear in Hleg.
  assert (Hgen : forall sd r, (clear_out sd, rev (s_out sd), r) = (s', es, oc) ->
                 do_good (clear_out s) w o sd r ->
                 s_fs s' = apply_all (s_fs s) es /\ Inv s' (fold_left win_step es w) /\ cuts_ok (s_fs s) w es /\
                 (idx_written es = true -> disk_ptrs (s_fs s') = s_ptrs s')).
  { intros sd r E Hd. step_inj E.
    destruct (Hd Hleg) as [es0 [Ho [Hf [HI1 [Hc Hsy]]]]].
    simpl in Ho. rewrite app_nil_r in Ho. rewrite Ho, rev_involutive.
    split; [exact Hf|]. split; [apply inv_clear; exact HI1|]. split; [exact Hc|exact Hsy]. }
  unfold step in Hstep.
  destruct o.
  - destruct (do_create (clear_out s) meta) as [sd r] eqn:E. eapply Hgen; eauto. eapply do_create_good; eauto.
  - destruct (do_openw (clear_out s) w0 start md hint) as [sd r] eqn:E. eapply Hgen; eauto. eapply do_openw_good; eauto.
  - destruct (do_write (clear_out s) w0 bs) as [sd r] eqn:E. eapply Hgen; eauto. eapply do_write_good; eauto.
  - destruct (do_commit (clear_out s) w0 e hint) as [sd r] eqn:E. eapply Hgen; eauto. eapply do_commit_good; eauto.
  - destruct (do_closew (clear_out s) w0) as [sd r] eqn:E. eapply Hgen; eauto. eapply do_closew_good; eauto.
  - destruct (do_delete (clear_out s) a b res) as [sd r] eqn:E. eapply Hgen; eauto. eapply do_delete_good; eauto.
  - destruct (do_gc (clear_out s)) as [sd r] eqn:E. eapply Hgen; eauto. eapply do_gc_good; eauto.
  - destruct (do_reopen (clear_out s)) as [sd r] eqn:E. eapply Hgen; eauto. eapply do_reopen_good; eauto.
  - destruct (do_delchan (clear_out s)) as [sd r] eqn:E. eapply Hgen; eauto. eapply do_delchan_good; eauto.
  - destruct (do_writefail (clear_out s) w0 bs j) as [sd r] eqn:E. eapply Hgen; eauto. eapply do_writefail_good; eauto.
  - destruct (do_commit_tf (clear_out s) w0 e) as [sd r] eqn:E. eapply Hgen; eauto. eapply do_commit_tf_good; eauto.
Qed.

(* ------------------------------------------------------------------ whole histories *)
(* the image looks like the directory right before or right after the operation whose
   calls the cut falls in (operation i issued the calls es, after the calls pre of the
   operations before it) *)
Definition adjacent (d : dirst) (ess : list (list fsop)) (k : nat) (v : option view) : Prop :=
  (ess = [] /\ v = view_of d) \/
  exists i es, nth_error ess i = Some es /\
    (length (concat (firstn i ess)) <= k <= length (concat (firstn i ess)) + length es)%nat /\
    (v = view_of (apply_all d (concat (firstn i ess))) \/
     v = view_of (apply_all d (concat (firstn i ess) ++ es))).

Lemma torn_ok_head : forall a b t, (0 < t)%nat -> torn_ok (a ++ b) (length a) t -> b <> [].
Proof.
  intros a b t Ht [H|[o [H1 _]]]; [lia|]. intros ->. rewrite app_nil_r in H1.
  assert (nth_error a (length a) = None) by (apply nth_error_None; lia). congruence.
Qed.

Lemma run_cuts : forall h s w,
  Inv s w -> legal_run s h = true ->
  forall k t,
    let ess := snd (fst (run s h)) in
    (k <= length (concat ess))%nat -> torn_ok (concat ess) k t ->
    win_class (win_from w (concat ess) k t) = 0%nat ->
    adjacent (s_fs s) ess k (view_of (crash_image (s_fs s) (concat ess) k t)).
Proof.
  induction h as [|o r IH]; intros s w HI Hleg k t ess Hk Ht Hc.
  - left. subst ess. simpl in *. split; auto. assert (k = 0%nat) by lia. subst.
    unfold crash_image. simpl. destruct t; reflexivity.
  - subst ess. simpl in *.
    destruct (step s o) as [[s1 es] oc] eqn:Es.
    apply andb_true_iff in Hleg. destruct Hleg as [Hl1 Hl2].
    destruct (step_all_good s w o HI s1 es oc Es Hl1) as [Hfs1 [HI1 [Hcuts _]]].
    destruct (run s1 r) as [[s2 ess'] ocs] eqn:Er. simpl in *.
    specialize (IH s1 _ HI1 Hl2). rewrite Er in IH. simpl in IH.
    right.
    destruct (Nat.lt_ge_cases k (length es)) as [Hlt|Hge].
    + (* the cut falls strictly inside the first operation *)
      exists 0%nat, es. simpl. split; [reflexivity|]. split; [lia|].
      rewrite crash_image_app_l by auto. rewrite win_from_app_l in Hc by auto.
      apply torn_ok_app_l in Ht; auto.
      destruct (Hcuts k t ltac:(lia) Ht Hc) as [H|H]; [left|right]; exact H.
    + destruct (Nat.eq_dec k (length es)) as [Heq|Hne].
      * destruct t as [|t'].
        -- (* exactly at the end of the first operation *)
           exists 0%nat, es. simpl. split; [reflexivity|]. split; [lia|]. right.
           subst k. unfold crash_image. rewrite firstn_app, firstn_all, Nat.sub_diag. simpl.
           rewrite app_nil_r. reflexivity.
        -- (* a torn call of the next operation *)
           subst k. replace (length es) with (length es + 0)%nat in * by lia.
           rewrite crash_image_app_r. rewrite win_from_app_r in Hc.
           apply torn_ok_app_r in Ht. rewrite <- Hfs1.
           destruct (IH 0%nat (S t') ltac:(lia) Ht Hc) as [[He _]|[i [es' [Hn [Hr Hv]]]]].
           ++ exfalso. subst ess'. simpl in Ht. destruct Ht as [Ht|[o' [H1 _]]]; [discriminate|discriminate].
           ++ remember (view_of (crash_image (s_fs s1) (concat ess') 0 (S t'))) as v eqn:Ev. clear Ev.
              exists (S i), es'. simpl. split; [exact Hn|].
              rewrite app_length. split; [lia|].
              destruct Hv as [Hv|Hv]; [left|right]; rewrite Hv.
              ** rewrite (apply_all_app es), Hfs1. reflexivity.
              ** rewrite <- (app_assoc es), (apply_all_app es), Hfs1. reflexivity.
      * replace k with (length es + (k - length es))%nat in * by lia.
        rewrite crash_image_app_r. rewrite win_from_app_r in Hc.
        apply torn_ok_app_r in Ht. rewrite app_length in Hk. rewrite <- Hfs1.
        destruct (IH (k - length es)%nat t ltac:(lia) Ht Hc) as [[He _]|[i [es' [Hn [Hr Hv]]]]].
        -- exfalso. subst ess'. simpl in Hk. lia.
        -- remember (view_of (crash_image (s_fs s1) (concat ess') (k - length es) t)) as v eqn:Ev. clear Ev.
           exists (S i), es'. simpl. split; [exact Hn|].
           rewrite app_length. split; [lia|].
           destruct Hv as [Hv|Hv]; [left|right]; rewrite Hv.
           ++ rewrite (apply_all_app es), Hfs1. reflexivity.
           ++ rewrite <- (app_assoc es), (apply_all_app es), Hfs1. reflexivity.
Qed.

Lemma inv_init : forall cap thr, Inv (init cap thr) win0.
Proof.
  intros. constructor; simpl; auto.
  - intros p [].
  - intros id x H. discriminate.
Qed.

(* The partial theorem: for every history that meets the side conditions, every cut point
   and every torn length outside the three windows. *)
Theorem crash_consistent_partial : forall cap thr h k t,
  legal cap thr h = true ->
  let log := fslog cap thr h in
  (k <= length log)%nat -> torn_ok log k t ->
  win_class (win_image log k t) = 0%nat ->
  adjacent None (snd (fst (run (init cap thr) h))) k (view_of (crash_image None log k t)).
Proof.
  intros cap thr h k t Hleg log Hk Ht Hc.
  exact (run_cuts h (init cap thr) win0 (inv_init cap thr) Hleg k t Hk Ht Hc).
Qed.

Local Open Scope Z_scope.

(* ------------------------------------------------------------------ durability *)
(* the state reached by a legal history satisfies the invariant *)
Lemma run_inv : forall h s w, Inv s w -> legal_run s h = true ->
  exists w', Inv (fst (fst (run s h))) w'.
Proof.
  induction h as [|o r IH]; intros s w HI Hleg; simpl in *.
  - exists w. exact HI.
  - destruct (step s o) as [[s1 es] oc] eqn:Es.
    apply andb_true_iff in Hleg. destruct Hleg as [Hl1 Hl2].
    destruct (step_all_good s w o HI s1 es oc Es Hl1) as [_ [HI1 _]].
    destruct (IH s1 _ HI1 Hl2) as [w' Hw']. destruct (run s1 r) as [[s2 ess] ocs]. simpl in *.
    exists w'. exact Hw'.
Qed.

(* After any legal history, an operation whose calls include an index WriteAt (a commit of
   an always-persist or manual writer, the Close of a lazily persisted writer, a delete,
   a GC pass) leaves on disk exactly the in-memory pointer list, and every pointer on disk
   designates bytes that are there: a restart (recover) serves exactly that. *)
Lemma persisted_is_durable : forall cap thr h o s' es oc,
  legal cap thr h = true ->
  let s := fst (fst (run (init cap thr) h)) in
  step s o = (s', es, oc) -> legal_step s o s' oc = true ->
  idx_written es = true ->
  disk_ptrs (s_fs s') = s_ptrs s' /\
  s_ptrs (recover cap thr (s_fs s')) = s_ptrs s' /\
  forall p, In p (s_ptrs s') -> read_d (s_fs s') p <> None.
Proof.
  intros cap thr h o s' es oc Hleg s Hstep Hl Hiw.
  destruct (run_inv h (init cap thr) win0 (inv_init cap thr) Hleg) as [w HI].
  destruct (step_all_good _ w o HI s' es oc Hstep Hl) as [_ [HI' [_ Hsy]]].
  specialize (Hsy Hiw). split; [exact Hsy|]. split.
  - rewrite <- Hsy. unfold recover, disk_ptrs, fresh, fexists. simpl.
    destruct (dget (s_fs s') FIndex) eqn:E; simpl; rewrite ?E; simpl.
    + destruct (match dget (s_fs s') FCounter with Some _ => true | None => false end); reflexivity.
    + destruct (s_fs s') as [fs'|] eqn:Ef; simpl in *.
      * rewrite E. simpl. rewrite fget_fset_same. simpl.
        destruct (match fget (fset fs' FIndex []) FCounter with Some _ => true | None => false end); reflexivity.
      * reflexivity.
  - intros p Hp. destruct HI' as [_ _ Hmem _ _ _]. specialize (Hmem p Hp).
    unfold inrb in Hmem. unfold read_d.
    destruct (dget (s_fs s') (FData (p_file p))); [|discriminate].
    destruct (N.eqb (p_size p) 0); [discriminate|]. rewrite Hmem. discriminate.
Qed.

(* which operations rewrite the index: a successful commit of pending bytes by a writer that
   is not lazily persisted ... *)
Lemma idx_written_rev : forall l, idx_written (rev l) = idx_written l.
Proof.
  intros. unfold idx_written. induction l as [|a l IH]; simpl; auto.
  rewrite existsb_app. simpl. rewrite IH. rewrite orb_false_r. apply orb_comm.
Qed.

Lemma acquire_out : forall s hint s' k size,
  acquire s hint = (s', k, size) -> exists es0, s_out s' = es0 ++ s_out s.
Proof.
  intros. destruct (acquire_spec _ _ _ _ _ H) as [_ [_ [_ [_ [_ [es [_ [Ho _]]]]]]]].
  exists (rev es). exact Ho.
Qed.

Lemma commit_rewrites_index : forall s wid e hint s' es x,
  step s (DCommit wid e hint) = (s', es, ROk) ->
  assoc (s_ws s) wid = Some x -> w_mode x <> MLazy -> w_len x <> 0%N ->
  idx_written es = true.
Proof.
  intros s wid e hint s' es x Hstep Hx Hm Hl.
  unfold step in Hstep.
  destruct (do_commit (clear_out s) wid e hint) as [sd r] eqn:Ed.
  step_inj Hstep. rewrite idx_written_rev.
  unfold do_commit in Ed. simpl s_ws in Ed. rewrite Hx in Ed.
  destruct (N.eqb_spec (w_len x) 0); [contradiction|].
  destruct (negb (w_prev x =? 0) && negb (N.leb (real_cap (clear_out s)) (w_fsize x)) && (e <? w_prev x));
    [inversion Ed|].
  destruct (negb (w_start x <? e)); [inversion Ed|].
  destruct (if w_prev x =? 0 then _ else _) as [[r0 ps] at_] in Ed.
  destruct r0; try (inversion Ed; fail).
  assert (Hp : forall st n, idx_written (s_out (persist st n)) = true) by reflexivity.
  assert (Hroll : forall st, idx_written (s_out st) = true ->
            forall s4 k size, acquire (release st (w_file x)) hint = (s4, k, size) ->
            idx_written (s_out s4) = true).
  { intros st Hst s4 k size Ea. destruct (acquire_out _ _ _ _ _ Ea) as [es0 Ho]. rewrite Ho.
    destruct (release_fields st (w_file x)) as [_ [Ro _]]. rewrite Ro.
    unfold idx_written in *. rewrite existsb_app, Hst. apply orb_true_r. }
  destruct (w_mode x) eqn:Em; try contradiction.
  - destruct (N.leb (real_cap (clear_out s)) (w_fsize x)).
    + match type of Ed with context [acquire ?a ?b] => destruct (acquire a b) as [[s4 k] size] eqn:Ea end.
      inversion Ed; subst sd. simpl s_out. eapply Hroll; [|exact Ea]. first [apply Hp|reflexivity].
    + inversion Ed; subst sd. first [reflexivity|simpl s_out; apply Hp].
  - destruct (N.leb (real_cap (clear_out s)) (w_fsize x)).
    + match type of Ed with context [acquire ?a ?b] => destruct (acquire a b) as [[s4 k] size] eqn:Ea end.
      inversion Ed; subst sd. simpl s_out. eapply Hroll; [|exact Ea]. first [apply Hp|reflexivity].
    + inversion Ed; subst sd. first [reflexivity|simpl s_out; apply Hp].
Qed.

(* ... and the Close of a lazily persisted writer *)
Lemma lazy_close_rewrites_index : forall s wid s' es oc x,
  step s (DCloseW wid) = (s', es, oc) ->
  assoc (s_ws s) wid = Some x -> w_mode x = MLazy ->
  idx_written es = true.
Proof.
  intros s wid s' es oc x Hstep Hx Hm.
  unfold step, do_closew in Hstep. simpl s_ws in Hstep. rewrite Hx, Hm in Hstep.
  step_inj Hstep. rewrite idx_written_rev. reflexivity.
Qed.

(* ------------------------------------------------------------------ the windows are real *)

(* the directory at the boundary after the first j operations of a history *)
Definition boundary (cap : N) (thr : Z) (h : list dop) (j : nat) : dirst :=
  s_fs (fst (fst (run (init cap thr) (firstn j h)))).

Definition ptr_in (p : ptr) (l : list ptr) : bool := existsb (ptr_eqb p) l.

(* a pointer of the image's index that is in the index of no boundary of the history *)
Definition alien_pointer (cap : N) (thr : Z) (h : list dop) (img : dirst) (p : ptr) : bool :=
  ptr_in p (disk_ptrs img) &&
  forallb (fun j => negb (ptr_in p (disk_ptrs (boundary cap thr h j)))) (seq 0 (S (length h))).

Definition wit_cap : N := 1000000%N.
Definition wit_meta : bytes := [123; 125]%N.
Definition samples (l : list N) : bytes := flat_map (le_bytes 8) l.

(* one domain [10,13) committed and persisted, the writer closed; a second writer commits
   [30,32): the index grows from one to two records *)
Definition h_gap : list dop :=
  [DCreate wit_meta; DOpenW 0 10 MAlways 0; DWrite 0 (samples [10; 11; 12]%N); DCommit 0 13 0; DCloseW 0;
   DOpenW 1 30 MAlways 0; DWrite 1 (samples [30; 31]%N); DCommit 1 32 0].

(* a legitimate later write on the recovered directory *)
Definition later_write : list dop :=
  [DOpenW 9 100 MManual 0; DWrite 9 [1; 2; 3; 4; 5; 6; 7; 8]%N; DCommit 9 110 0; DCloseW 9].

Definition zero_ptr : ptr := mkPtr 0 0 0 0 0.

(* F2: the crash falls between Truncate(52) and WriteAt of the second commit (cut 13).
   The image carries a zero pointer no boundary has; reopening works and the persisted
   domain [10,13) is found; after one more legitimate write it is no longer found and a
   writer opening inside it is accepted. *)
Lemma truncate_gap_refuted :
  let log := fslog wit_cap 0 h_gap in
  let img := crash_image None log 13 0 in
  legal wit_cap 0 h_gap = true /\
  win_class (win_image log 13 0) = 2%nat /\
  alien_pointer wit_cap 0 h_gap img zero_ptr = true /\
  let r := recover wit_cap 0 img in
  seek_found r 12 = Some (10, 13) /\
  let '(r2, _, ocs) := run r later_write in
  ocs = [ROk; ROk; ROk; ROk] /\
  seek_found r2 12 = None /\
  snd (usearch (s_ptrs r2) (span0 12)) = false.
Proof. vm_compute. repeat split; reflexivity. Qed.

(* F2, torn variant: 30 of the 52 bytes of that WriteAt landed *)
Lemma torn_index_refuted :
  let log := fslog wit_cap 0 h_gap in
  let img := crash_image None log 13 30 in
  win_class (win_image log 13 30) = 3%nat /\
  alien_pointer wit_cap 0 h_gap img (mkPtr 30 0 0 0 0) = true.
Proof. vm_compute. split; reflexivity. Qed.

(* the channel directory exists without meta.json: cesium.Open fails on it (meta.Open cannot
   build the channel from its key alone) while no boundary looks like that *)
Lemma meta_window_refuted :
  let log := fslog wit_cap 0 h_gap in
  forallb (fun k =>
     let img := crash_image None log k 0 in
     Nat.eqb (win_class (win_image log k 0)) 1 &&
     match view_of img with Some v => negb (v_meta v) | None => false end) [1; 2; 3]%nat = true /\
  forallb (fun j => match view_of (boundary wit_cap 0 h_gap j) with
                    | Some v => v_meta v | None => true end) (seq 0 9) = true.
Proof. vm_compute. split; reflexivity. Qed.

(* GC: [10,12) deleted from a closed domain of four samples, restart, GC rewrites file 1 *)
Definition h_gc : list dop :=
  [DCreate wit_meta; DOpenW 0 10 MAlways 0; DWrite 0 (samples [10; 11; 12; 13]%N); DCommit 0 14 0; DCloseW 0;
   DDelete 10 12 [(10, (0%N, 10, 16%N, 12))]; DReopen; DGC].

Definition unreadable (d : dirst) : bool :=
  existsb (fun p => match read_d d p with None => true | Some _ => false end) (disk_ptrs d).

(* between the first file rename and the index rewrite the persisted pointer [12,14)
   designates bytes that are not there (cuts 16-19); at every boundary all pointers read *)
Lemma gc_window_refuted :
  let log := fslog wit_cap 0 h_gc in
  legal wit_cap 0 h_gc = true /\
  forallb (fun k => Nat.eqb (win_class (win_image log k 0)) 4 && unreadable (crash_image None log k 0))
          [16; 17; 18; 19]%nat = true /\
  forallb (fun j => negb (unreadable (boundary wit_cap 0 h_gc j))) (seq 0 9) = true.
Proof. vm_compute. repeat split; reflexivity. Qed.

(* ------------------------------------------------------------------ non-vacuity *)
(* the partial theorem applies to real cut points: in the gap history 10 of the 15 plain
   cuts and all torn variants of the data appends lie outside the windows *)
Definition outside (log : list fsop) (kt : nat * nat) : bool :=
  Nat.eqb (win_class (win_image log (fst kt) (snd kt))) 0.

Lemma partial_nonvacuous :
  let log := fslog wit_cap 0 h_gap in
  legal wit_cap 0 h_gap = true /\
  length (filter (outside log) (map (fun k => (k, 0%nat)) (seq 0 15))) = 10%nat /\
  length (filter (outside log) (crash_points log)) = 51%nat /\
  (* e.g. cut 8 with 5 bytes of the first data append: the view is the one before the write *)
  outside log (8%nat, 5%nat) = true /\
  view_of (crash_image None log 8 5) = view_of (boundary wit_cap 0 h_gap 2).
Proof. vm_compute. repeat split; reflexivity. Qed.
