(* Cesium/CrashProofs.v — lemmas about the mutation-log semantics (FsLog) and about what a
   restart sees (Crash.view_of): which calls cannot change the view, and what the
   Truncate-then-WriteAt index rewrite leaves behind at each of its cut points. *)
From Coq Require Import List NArith ZArith Bool Arith Lia.
From Synnax Require Import Cesium.FsLog Cesium.Crash Generated.Consts_C02.
Import ListNotations.

(* ------------------------------------------------------------------ file maps *)
Lemma fname_eqb_eq : forall a b, fname_eqb a b = true <-> a = b.
Proof.
  destruct a, b; simpl; split; intros H; try discriminate; try reflexivity;
    try (apply N.eqb_eq in H; subst; reflexivity);
    try (inversion H; subst; apply N.eqb_refl).
Qed.

Lemma fname_eqb_refl : forall a, fname_eqb a a = true.
Proof. intros; apply fname_eqb_eq; reflexivity. Qed.

Lemma fname_eqb_neq : forall a b, a <> b -> fname_eqb a b = false.
Proof.
  intros a b H. destruct (fname_eqb a b) eqn:E; auto. apply fname_eqb_eq in E. contradiction.
Qed.

Lemma fname_eq_dec : forall a b : fname, {a = b} + {a <> b}.
Proof.
  intros a b. destruct (fname_eqb a b) eqn:E.
  - left; apply fname_eqb_eq; exact E.
  - right; intros H; subst; rewrite fname_eqb_refl in E; discriminate.
Qed.

Lemma fget_fset_same : forall fs f d, fget (fset fs f d) f = Some d.
Proof.
  induction fs as [|[g e] r IH]; intros; simpl.
  - rewrite fname_eqb_refl; reflexivity.
  - destruct (fname_eqb g f) eqn:E; simpl; rewrite E; auto.
Qed.

Lemma fget_fset_other : forall fs f g d, f <> g -> fget (fset fs f d) g = fget fs g.
Proof.
  induction fs as [|[h e] r IH]; intros f g d Hne; simpl.
  - rewrite fname_eqb_neq; auto.
  - destruct (fname_eqb h f) eqn:E; simpl.
    + apply fname_eqb_eq in E; subst h. rewrite (fname_eqb_neq f g Hne). reflexivity.
    + destruct (fname_eqb h g); auto.
Qed.

Lemma fget_fdel_same : forall fs f, fget (fdel fs f) f = None.
Proof.
  induction fs as [|[g e] r IH]; intros; simpl; auto.
  destruct (fname_eqb g f) eqn:E; simpl; auto. rewrite E; auto.
Qed.

Lemma fget_fdel_other : forall fs f g, f <> g -> fget (fdel fs f) g = fget fs g.
Proof.
  induction fs as [|[h e] r IH]; intros f g Hne; simpl; auto.
  destruct (fname_eqb h f) eqn:E; simpl.
  - apply fname_eqb_eq in E; subst h. rewrite (fname_eqb_neq f g Hne). auto.
  - destruct (fname_eqb h g); auto.
Qed.

Lemma apply_all_app : forall l1 l2 s, apply_all s (l1 ++ l2) = apply_all (apply_all s l1) l2.
Proof. intros; unfold apply_all; apply fold_left_app. Qed.

Lemma apply_all_cons : forall o l s, apply_all s (o :: l) = apply_all (apply s o) l.
Proof. reflexivity. Qed.

Lemma apply_all_nil : forall s, apply_all s [] = s.
Proof. reflexivity. Qed.

(* ------------------------------------------------------------------ which files a call touches *)
(* the files whose content or existence a call can change *)
Definition touches (o : fsop) (f : fname) : Prop :=
  match o with
  | OMkdir | ORenameDir | ORemoveDir => False
  | OCreate g | OWrite _ g _ _ | OTrunc g _ | ORemove g => g = f
  | ORename g h => g = f \/ h = f
  end.

Lemma apply_files_untouched : forall fs o f, ~ touches o f -> fget (apply_files fs o) f = fget fs f.
Proof.
  intros fs o f H. destruct o; simpl in *; auto.
  - destruct (fget fs f0); auto. apply fget_fset_other; auto.
  - destruct (fget fs f0); auto. apply fget_fset_other; auto.
  - destruct (fget fs f0); auto. apply fget_fset_other; auto.
  - destruct (fget fs f0) eqn:E; auto.
    rewrite fget_fset_other by tauto. apply fget_fdel_other; tauto.
  - apply fget_fdel_other; auto.
Qed.

Definition keeps_dir (o : fsop) : Prop := match o with OMkdir | ORenameDir => False | _ => True end.

Lemma apply_some : forall fs o, o <> ORenameDir -> apply (Some fs) o = Some (apply_files fs o).
Proof. intros fs o H. destruct o; simpl; auto; contradiction. Qed.

Lemma dget_apply_untouched : forall fs o f,
  o <> ORenameDir -> ~ touches o f -> dget (apply (Some fs) o) f = fget fs f.
Proof. intros. rewrite apply_some by auto. simpl. apply apply_files_untouched; auto. Qed.

(* ------------------------------------------------------------------ views *)
Lemma view_ext : forall fs fs',
  fget fs FIndex = fget fs' FIndex ->
  fget fs FMeta = fget fs' FMeta ->
  (forall p, In p (disk_ptrs (Some fs)) -> read_d (Some fs) p = read_d (Some fs') p) ->
  view_of (Some fs) = view_of (Some fs').
Proof.
  intros fs fs' Hi Hm Hr. unfold view_of, has_meta, disk_ptrs in *. simpl in *.
  rewrite <- Hi, <- Hm. f_equal. f_equal.
  apply map_ext_in. intros p Hp. f_equal. apply Hr. exact Hp.
Qed.

(* a call that touches neither the index, nor meta.json, nor any data file *)
Definition side_file (f : fname) : Prop :=
  match f with FCounter | FMetaTmp | FGc _ | FTmp _ => True | _ => False end.

Definition side_op (o : fsop) : Prop :=
  match o with
  | OCreate g | OWrite _ g _ _ | OTrunc g _ | ORemove g => side_file g
  | ORename g h => side_file g /\ side_file h
  | ORemoveDir => True
  | _ => False
  end.

Lemma side_not_touch : forall o f, side_op o -> ~ side_file f -> ~ touches o f.
Proof.
  intros o f Hs Hn Ht. destruct o; simpl in *; try contradiction; subst; try contradiction.
  destruct Hs, Ht; subst; contradiction.
Qed.

Lemma side_op_view : forall fs o, side_op o -> view_of (apply (Some fs) o) = view_of (Some fs).
Proof.
  intros fs o Hs.
  assert (Hne : o <> ORenameDir) by (intros ->; simpl in Hs; contradiction).
  rewrite apply_some by auto. symmetry. apply view_ext.
  - symmetry. apply apply_files_untouched. apply side_not_touch; auto.
  - symmetry. apply apply_files_untouched. apply side_not_touch; auto.
  - intros p _. unfold read_d. simpl.
    rewrite apply_files_untouched; auto. apply side_not_touch; auto.
Qed.

Lemma side_op_torn : forall o t, side_op o -> side_op (torn o t).
Proof. intros o t H. destruct o; simpl in *; auto. Qed.

(* creating index.domain / counter.domain / a data file nobody points into *)
Lemma decode_nil : decode_ptrs [] = [].
Proof. reflexivity. Qed.

Lemma create_index_view : forall fs, view_of (apply (Some fs) (OCreate FIndex)) = view_of (Some fs).
Proof.
  intros fs. simpl. destruct (fget fs FIndex) eqn:E; auto.
  unfold view_of, has_meta, disk_ptrs. simpl.
  rewrite fget_fset_same, E. rewrite fget_fset_other by discriminate.
  f_equal.
Qed.

(* every pointer on disk designates bytes inside an existing file *)
Definition disk_inr (d : dirst) : Prop := forall p, In p (disk_ptrs d) -> inrb d p = true.

Lemma read_d_ext_file : forall fs fs' p,
  fget fs (FData (p_file p)) = fget fs' (FData (p_file p)) ->
  read_d (Some fs) p = read_d (Some fs') p.
Proof. intros. unfold read_d. simpl. rewrite H. reflexivity. Qed.

Lemma create_data_view : forall fs k,
  disk_inr (Some fs) -> view_of (apply (Some fs) (OCreate (FData k))) = view_of (Some fs).
Proof.
  intros fs k Hin. simpl. destruct (fget fs (FData k)) eqn:E; auto.
  symmetry. apply view_ext.
  - symmetry; apply fget_fset_other; discriminate.
  - symmetry; apply fget_fset_other; discriminate.
  - intros p Hp. apply read_d_ext_file.
    destruct (N.eq_dec (p_file p) k) as [Hk|Hne].
    + specialize (Hin p Hp). unfold inrb in Hin. simpl in Hin. rewrite Hk, E in Hin. discriminate.
    + symmetry. apply fget_fset_other. intros H; inversion H; congruence.
Qed.

(* appending to a data file: the bytes inside the old length stay *)
Lemma firstn_skipn_app_inside : forall (A : Type) (d x : list A) off n,
  (off + n <= length d)%nat -> firstn n (skipn off (d ++ x)) = firstn n (skipn off d).
Proof.
  intros A d x off n H.
  rewrite skipn_app. rewrite firstn_app.
  replace (n - length (skipn off d))%nat with 0%nat by (rewrite skipn_length; lia).
  simpl. rewrite app_nil_r. reflexivity.
Qed.

Lemma write_at_end : forall d bs, write_at d (length d) bs = d ++ bs.
Proof.
  intros d bs. unfold write_at, pad.
  replace (length d + length bs - length d)%nat with (length bs) by lia.
  rewrite firstn_app, firstn_all, Nat.sub_diag. simpl. rewrite app_nil_r.
  rewrite skipn_all2. 2:{ rewrite app_length, repeat_length. lia. }
  rewrite app_nil_r. reflexivity.
Qed.

Lemma append_view : forall fs k data bs b,
  disk_inr (Some fs) ->
  fget fs (FData k) = Some data ->
  view_of (apply (Some fs) (OWrite b (FData k) (N.of_nat (length data)) bs)) = view_of (Some fs).
Proof.
  intros fs k data bs b Hin E. simpl. rewrite E. rewrite Nat2N.id, write_at_end.
  symmetry. apply view_ext.
  - symmetry; apply fget_fset_other; discriminate.
  - symmetry; apply fget_fset_other; discriminate.
  - intros p Hp. unfold read_d. simpl.
    destruct (N.eq_dec (p_file p) k) as [Hk|Hne].
    + rewrite Hk, fget_fset_same, E.
      specialize (Hin p Hp). unfold inrb in Hin. simpl in Hin. rewrite Hk, E in Hin.
      apply N.leb_le in Hin.
      destruct (N.eqb (p_size p) 0); auto.
      assert (Hle : (p_off p + p_size p <= N.of_nat (length (data ++ bs)))%N).
      { rewrite app_length, Nat2N.inj_add. lia. }
      apply N.leb_le in Hle. rewrite Hle.
      assert (Hin' : (p_off p + p_size p <=? N.of_nat (length data))%N = true) by (apply N.leb_le; exact Hin).
      rewrite Hin'. f_equal. symmetry. apply firstn_skipn_app_inside. lia.
    + rewrite fget_fset_other; auto. intros H; inversion H; congruence.
Qed.

Lemma append_inr : forall fs k data bs b,
  disk_inr (Some fs) ->
  fget fs (FData k) = Some data ->
  disk_inr (apply (Some fs) (OWrite b (FData k) (N.of_nat (length data)) bs)).
Proof.
  intros fs k data bs b Hin E p Hp. simpl in *. rewrite E in *.
  unfold disk_ptrs in Hp. simpl in Hp. rewrite fget_fset_other in Hp by discriminate.
  specialize (Hin p Hp). unfold inrb in *. simpl in *.
  destruct (N.eq_dec (p_file p) k) as [Hk|Hne].
  - rewrite Hk, fget_fset_same. rewrite Hk, E in Hin. apply N.leb_le in Hin. apply N.leb_le.
    rewrite Nat2N.id, write_at_end, app_length, Nat2N.inj_add. lia.
  - rewrite fget_fset_other; auto. intros H; inversion H; congruence.
Qed.

Lemma firstn_firstn_le : forall (A : Type) (l : list A) a b, (a <= b)%nat -> firstn a (firstn b l) = firstn a l.
Proof. intros. rewrite firstn_firstn. f_equal. lia. Qed.

(* ------------------------------------------------------------------ the 26-byte record *)
Lemma psz_26 : psz = 26%nat.
Proof. reflexivity. Qed.

Lemma le_bytes_length : forall w n, length (le_bytes w n) = w.
Proof. induction w; intros; simpl; auto. Qed.

Lemma le_val_le_bytes : forall w n, le_val (le_bytes w n) = (n mod 256 ^ N.of_nat w)%N.
Proof.
  induction w; intros n.
  - simpl. rewrite N.mod_1_r. reflexivity.
  - cbn [le_bytes le_val]. rewrite IHw.
    rewrite Nat2N.inj_succ, N.pow_succ_r'.
    rewrite N.mod_mul_r by (try apply N.pow_nonzero; discriminate).
    reflexivity.
Qed.

Lemma firstn_app_exact : forall (A : Type) (a b : list A) n, length a = n -> firstn n (a ++ b) = a.
Proof. intros; subst. rewrite firstn_app, firstn_all, Nat.sub_diag. simpl. apply app_nil_r. Qed.

Lemma skipn_app_exact : forall (A : Type) (a b : list A) n, length a = n -> skipn n (a ++ b) = b.
Proof. intros; subst. rewrite skipn_app, skipn_all, Nat.sub_diag. reflexivity. Qed.

Lemma slice_app_skip : forall (a b : bytes) n i j,
  length a = n -> (n <= i)%nat -> slice (a ++ b) i j = slice b (i - n) (j - n).
Proof.
  intros a b n i j Hl Hi. unfold slice.
  rewrite skipn_app. rewrite skipn_all2 by lia. simpl. rewrite Hl. f_equal. lia.
Qed.

Lemma slice_head : forall (a b : bytes) n, length a = n -> slice (a ++ b) 0 n = a.
Proof. intros. unfold slice. simpl. rewrite Nat.sub_0_r. apply firstn_app_exact; auto. Qed.

Lemma i64_u64 : forall z, in_i64 z = true -> i64 (u64 z) = z.
Proof.
  intros z H. unfold in_i64 in H. apply andb_true_iff in H. destruct H as [H1 H2].
  apply Z.leb_le in H1. apply Z.ltb_lt in H2.
  unfold i64, u64, two63, two64 in *.
  rewrite Z2N.id by (apply Z.mod_pos_bound; lia).
  destruct (Z_lt_dec z 0).
  - replace (z mod 18446744073709551616)%Z with (z + 18446744073709551616)%Z.
    2:{ apply Zmod_unique with (q := (-1)%Z); lia. }
    destruct (Z.ltb_spec (z + 18446744073709551616) 9223372036854775808); lia.
  - rewrite Z.mod_small by lia.
    destruct (Z.ltb_spec z 9223372036854775808); lia.
Qed.

Lemma u64_lt : forall z, (u64 z < 256 ^ 8)%N.
Proof.
  intros z. unfold u64, two64.
  assert (H := Z.mod_pos_bound z 18446744073709551616 ltac:(lia)).
  change (256 ^ 8)%N with (Z.to_N 18446744073709551616). apply Z2N.inj_lt; lia.
Qed.

Lemma enc_ptr_length : forall p, length (enc_ptr p) = 26%nat.
Proof. intros. unfold enc_ptr. repeat rewrite app_length. repeat rewrite le_bytes_length. reflexivity. Qed.

Lemma dec_enc_ptr : forall p, wf_ptr p = true -> dec_ptr (enc_ptr p) = p.
Proof.
  intros [s e f o z] H. unfold wf_ptr in H. simpl in H.
  apply andb_true_iff in H; destruct H as [H Hz].
  apply andb_true_iff in H; destruct H as [H Ho].
  apply andb_true_iff in H; destruct H as [H Hf].
  apply andb_true_iff in H; destruct H as [Hs He].
  apply N.ltb_lt in Hz, Ho, Hf.
  unfold dec_ptr, enc_ptr. simpl p_s; simpl p_e; simpl p_file; simpl p_off; simpl p_size.
  rewrite slice_head by apply le_bytes_length.
  rewrite (slice_app_skip _ _ 8 8 16) by (try apply le_bytes_length; lia).
  rewrite (slice_app_skip _ _ 8 16 18) by (try apply le_bytes_length; lia).
  rewrite (slice_app_skip _ _ 8 18 22) by (try apply le_bytes_length; lia).
  rewrite (slice_app_skip _ _ 8 22 26) by (try apply le_bytes_length; lia).
  simpl Nat.sub.
  rewrite slice_head by apply le_bytes_length.
  rewrite (slice_app_skip _ _ 8 8 10) by (try apply le_bytes_length; lia).
  rewrite (slice_app_skip _ _ 8 10 14) by (try apply le_bytes_length; lia).
  rewrite (slice_app_skip _ _ 8 14 18) by (try apply le_bytes_length; lia).
  simpl Nat.sub.
  rewrite slice_head by apply le_bytes_length.
  rewrite (slice_app_skip _ _ 2 2 6) by (try apply le_bytes_length; lia).
  rewrite (slice_app_skip _ _ 2 6 10) by (try apply le_bytes_length; lia).
  simpl Nat.sub.
  rewrite slice_head by apply le_bytes_length.
  rewrite (slice_app_skip _ _ 4 4 8) by (try apply le_bytes_length; lia).
  simpl Nat.sub.
  assert (Hl : slice (le_bytes 4 z) 0 4 = le_bytes 4 z).
  { unfold slice. simpl skipn. simpl Nat.sub. apply firstn_all2. rewrite le_bytes_length. lia. }
  rewrite Hl. repeat rewrite le_val_le_bytes.
  rewrite (N.mod_small (u64 s)) by apply u64_lt.
  rewrite (N.mod_small (u64 e)) by apply u64_lt.
  change (256 ^ N.of_nat 2)%N with 65536%N.
  change (256 ^ N.of_nat 4)%N with two32.
  rewrite (N.mod_small f) by assumption.
  rewrite (N.mod_small o) by assumption.
  rewrite (N.mod_small z) by assumption.
  rewrite !i64_u64 by assumption. reflexivity.
Qed.

Lemma encode_ptrs_length : forall l, length (encode_ptrs l) = (26 * length l)%nat.
Proof.
  induction l; [reflexivity|]. unfold encode_ptrs in *. cbn [flat_map].
  rewrite app_length, enc_ptr_length, IHl. simpl length. lia.
Qed.

Lemma encode_ptrs_app : forall a b, encode_ptrs (a ++ b) = encode_ptrs a ++ encode_ptrs b.
Proof. intros. unfold encode_ptrs. apply flat_map_app. Qed.

Lemma dec_n_encode : forall l rest,
  forallb wf_ptr l = true -> dec_n (length l) (encode_ptrs l ++ rest) = l.
Proof.
  induction l as [|p l IH]; intros rest H; [reflexivity|].
  cbn [forallb] in H. apply andb_true_iff in H. destruct H as [Hp Hl].
  unfold encode_ptrs. cbn [flat_map length dec_n]. fold (encode_ptrs l).
  rewrite psz_26. rewrite <- app_assoc.
  rewrite firstn_app_exact by apply enc_ptr_length.
  rewrite skipn_app_exact by apply enc_ptr_length.
  rewrite dec_enc_ptr by auto. f_equal. apply IH. exact Hl.
Qed.

Lemma decode_encode : forall l, forallb wf_ptr l = true -> decode_ptrs (encode_ptrs l) = l.
Proof.
  intros l H. unfold decode_ptrs. rewrite encode_ptrs_length, psz_26.
  replace (26 * length l / 26)%nat with (length l) by (rewrite Nat.mul_comm, Nat.div_mul; lia).
  rewrite <- (app_nil_r (encode_ptrs l)). apply dec_n_encode. exact H.
Qed.

Lemma firstn_encode : forall l k, firstn (26 * k) (encode_ptrs l) = encode_ptrs (firstn k l).
Proof.
  induction l as [|p l IH]; intros k.
  - simpl. rewrite !firstn_nil. reflexivity.
  - destruct k.
    + rewrite Nat.mul_0_r. reflexivity.
    + cbn [encode_ptrs flat_map firstn]. fold (encode_ptrs l). fold (encode_ptrs (firstn k l)).
      replace (26 * S k)%nat with (26 + 26 * k)%nat by lia.
      rewrite firstn_app. rewrite enc_ptr_length.
      rewrite firstn_all2 by (rewrite enc_ptr_length; lia).
      replace (26 + 26 * k - 26)%nat with (26 * k)%nat by lia.
      rewrite IH. reflexivity.
Qed.

(* ------------------------------------------------------------------ the index rewrite *)
Lemma pad_length : forall d n, length (pad d n) = Nat.max (length d) n.
Proof. intros. unfold pad. rewrite app_length, repeat_length. lia. Qed.

Lemma trunc_to_length : forall d n, length (trunc_to d n) = n.
Proof. intros. unfold trunc_to. rewrite firstn_length, pad_length. lia. Qed.

Lemma trunc_to_same : forall d, trunc_to d (length d) = d.
Proof.
  intros. unfold trunc_to, pad. rewrite Nat.sub_diag. simpl. rewrite app_nil_r. apply firstn_all.
Qed.

Lemma firstn_pad : forall d n k, (k <= length d)%nat -> firstn k (pad d n) = firstn k d.
Proof.
  intros. unfold pad. rewrite firstn_app.
  replace (k - length d)%nat with 0%nat by lia. simpl. apply app_nil_r.
Qed.

(* Truncate(26*|P|) then WriteAt(26*sd, encode(P[sd:])) over an index whose first 26*sd
   bytes already encode P[:sd] leaves exactly encode(P) *)
Lemma index_rewrite : forall ib P sd,
  (sd <= length P)%nat ->
  firstn (26 * sd) ib = encode_ptrs (firstn sd P) ->
  write_at (trunc_to ib (26 * length P)) (26 * sd) (encode_ptrs (skipn sd P)) = encode_ptrs P.
Proof.
  intros ib P sd Hsd Hag.
  assert (Hlen : (26 * sd <= length ib)%nat).
  { assert (H := f_equal (@length N) Hag). rewrite firstn_length, encode_ptrs_length, firstn_length in H. lia. }
  assert (Hbs : length (encode_ptrs (skipn sd P)) = (26 * (length P - sd))%nat).
  { rewrite encode_ptrs_length, skipn_length. reflexivity. }
  unfold write_at. rewrite Hbs.
  replace (26 * sd + 26 * (length P - sd))%nat with (26 * length P)%nat by lia.
  set (T := trunc_to ib (26 * length P)).
  assert (HT : length T = (26 * length P)%nat) by apply trunc_to_length.
  assert (Hpad : pad T (26 * length P) = T).
  { unfold pad. rewrite HT, Nat.sub_diag. simpl. apply app_nil_r. }
  rewrite Hpad. rewrite (skipn_all2 (n := (26 * length P)%nat) T) by (rewrite HT; lia). rewrite app_nil_r.
  unfold T, trunc_to. rewrite firstn_firstn_le by lia.
  rewrite firstn_pad by lia. rewrite Hag.
  rewrite <- encode_ptrs_app. rewrite firstn_skipn. reflexivity.
Qed.

(* ------------------------------------------------------------------ crash images of a call list *)
Lemma crash_image_0 : forall d es m, crash_image d es m 0 = apply_all d (firstn m es).
Proof. intros. unfold crash_image. reflexivity. Qed.

Lemma crash_image_app_l : forall d a b m t,
  (m < length a)%nat -> crash_image d (a ++ b) m t = crash_image d a m t.
Proof.
  intros. unfold crash_image.
  rewrite firstn_app. replace (m - length a)%nat with 0%nat by lia. simpl. rewrite app_nil_r.
  rewrite nth_error_app1 by lia. reflexivity.
Qed.

Lemma crash_image_app_r : forall d a b m t,
  crash_image d (a ++ b) (length a + m) t = crash_image (apply_all d a) b m t.
Proof.
  intros. unfold crash_image.
  rewrite firstn_app. rewrite firstn_all2 by lia.
  replace (length a + m - length a)%nat with m by lia.
  rewrite apply_all_app. rewrite nth_error_app2 by lia.
  replace (length a + m - length a)%nat with m by lia. reflexivity.
Qed.

Lemma crash_image_end : forall d es t, crash_image d es (length es) t = apply_all d es.
Proof.
  intros. unfold crash_image. rewrite firstn_all.
  assert (H : nth_error es (length es) = None) by (apply nth_error_None; lia).
  rewrite H. destruct t; reflexivity.
Qed.

(* window state of image (m, t) of a call list issued from window state w *)
Definition win_from (w : win) (es : list fsop) (m t : nat) : win :=
  let w' := fold_left win_step (firstn m es) w in
  match t, nth_error es m with
  | S _, Some o => win_torn w' o
  | _, _ => w'
  end.

Lemma win_from_app_l : forall w a b m t, (m < length a)%nat -> win_from w (a ++ b) m t = win_from w a m t.
Proof.
  intros. unfold win_from.
  rewrite firstn_app. replace (m - length a)%nat with 0%nat by lia. simpl. rewrite app_nil_r.
  rewrite nth_error_app1 by lia. reflexivity.
Qed.

Lemma win_from_app_r : forall w a b m t,
  win_from w (a ++ b) (length a + m) t = win_from (fold_left win_step a w) b m t.
Proof.
  intros. unfold win_from.
  rewrite firstn_app. rewrite firstn_all2 by lia.
  replace (length a + m - length a)%nat with m by lia.
  rewrite fold_left_app. rewrite nth_error_app2 by lia.
  replace (length a + m - length a)%nat with m by lia. reflexivity.
Qed.

(* torn lengths the property quantifies over: proper prefixes of the payload *)
Definition torn_ok (es : list fsop) (m t : nat) : Prop :=
  t = 0%nat \/ exists o, nth_error es m = Some o /\ (0 < t < payload_len o)%nat.

(* every image of es outside the windows looks like the state before or after es *)
Definition cuts_ok (d : dirst) (w : win) (es : list fsop) : Prop :=
  forall m t, (m <= length es)%nat -> torn_ok es m t ->
    win_class (win_from w es m t) = 0%nat ->
    view_of (crash_image d es m t) = view_of d \/
    view_of (crash_image d es m t) = view_of (apply_all d es).

(* every image of es (windows or not, any torn length) looks like the state before es *)
Definition all_same (d : dirst) (es : list fsop) : Prop :=
  forall m t, (m <= length es)%nat -> view_of (crash_image d es m t) = view_of d.

Lemma all_same_cuts_ok : forall d w es, all_same d es -> cuts_ok d w es.
Proof. intros d w es H m t Hm _ _. left. apply H. exact Hm. Qed.

Lemma all_same_end : forall d es, all_same d es -> view_of (apply_all d es) = view_of d.
Proof. intros d es H. rewrite <- (crash_image_end d es 0). apply H. lia. Qed.

Lemma all_same_nil : forall d, all_same d [].
Proof.
  intros d m t Hm. simpl in Hm. assert (m = 0%nat) by lia. subst.
  unfold crash_image. simpl. destruct t; reflexivity.
Qed.

Lemma torn_ok_app_l : forall a b m t, (m < length a)%nat -> torn_ok (a ++ b) m t -> torn_ok a m t.
Proof.
  intros a b m t Hm [H|[o [H1 H2]]]; [left; auto|right].
  exists o. rewrite nth_error_app1 in H1 by lia. auto.
Qed.

Lemma torn_ok_app_r : forall a b m t, torn_ok (a ++ b) (length a + m) t -> torn_ok b m t.
Proof.
  intros a b m t [H|[o [H1 H2]]]; [left; auto|right].
  exists o. rewrite nth_error_app2 in H1 by lia.
  replace (length a + m - length a)%nat with m in H1 by lia. auto.
Qed.

Lemma all_same_app : forall d a b, all_same d a -> all_same (apply_all d a) b -> all_same d (a ++ b).
Proof.
  intros d a b Ha Hb m t Hm.
  destruct (Nat.lt_ge_cases m (length a)).
  - rewrite crash_image_app_l by auto. apply Ha. lia.
  - replace m with (length a + (m - length a))%nat by lia.
    rewrite crash_image_app_r. rewrite Hb.
    + apply all_same_end. exact Ha.
    + rewrite app_length in Hm. lia.
Qed.

(* composition: one of the two parts does not change the view as a whole *)
Lemma cuts_ok_app : forall d w a b,
  cuts_ok d w a ->
  cuts_ok (apply_all d a) (fold_left win_step a w) b ->
  (view_of (apply_all d a) = view_of d \/
   view_of (apply_all (apply_all d a) b) = view_of (apply_all d a)) ->
  cuts_ok d w (a ++ b).
Proof.
  intros d w a b Ha Hb Hv m t Hm Ht Hc.
  rewrite apply_all_app.
  destruct (Nat.lt_ge_cases m (length a)) as [Hlt|Hge].
  - rewrite crash_image_app_l by auto. rewrite win_from_app_l in Hc by auto.
    destruct (Ha m t ltac:(lia) (torn_ok_app_l _ _ _ _ Hlt Ht) Hc) as [H|H]; [left; exact H|].
    destruct Hv as [Hv|Hv]; [left; congruence|right; congruence].
  - replace m with (length a + (m - length a))%nat in * by lia.
    rewrite crash_image_app_r. rewrite win_from_app_r in Hc.
    rewrite app_length in Hm.
    destruct (Hb (m - length a)%nat t ltac:(lia) (torn_ok_app_r _ _ _ _ Ht) Hc) as [H|H]; [|right; exact H].
    destruct Hv as [Hv|Hv]; [left; congruence|right; congruence].
Qed.

(* a single call that cannot change the view, whatever prefix of its payload lands *)
Definition calm (d : dirst) (o : fsop) : Prop :=
  forall t, view_of (apply d (torn o t)) = view_of d.

Lemma torn_full : forall o t, (payload_len o <= t)%nat -> torn o t = o.
Proof. intros o t H. destruct o; simpl in *; auto. rewrite firstn_all2; auto. Qed.

Lemma calm_apply : forall d o, calm d o -> view_of (apply d o) = view_of d.
Proof. intros d o H. rewrite <- (torn_full o (payload_len o)) at 1 by lia. apply H. Qed.

Lemma all_same_one : forall d o, calm d o -> all_same d [o].
Proof.
  intros d o H m t Hm. simpl in Hm.
  destruct m as [|[|m]]; try lia.
  - unfold crash_image. simpl. destruct t; [reflexivity|]. apply H.
  - change 1%nat with (length [o]). rewrite (crash_image_end d [o] t). simpl. apply calm_apply. exact H.
Qed.

Lemma all_same_cons : forall d o es, calm d o -> all_same (apply d o) es -> all_same d (o :: es).
Proof.
  intros d o es Ho Hes. change (o :: es) with ([o] ++ es).
  apply all_same_app; [apply all_same_one; auto| exact Hes].
Qed.

Lemma side_op_calm : forall fs o, side_op o -> calm (Some fs) o.
Proof. intros fs o H t. apply side_op_view. apply side_op_torn. exact H. Qed.

(* ------------------------------------------------------------------ the persist pair *)
Lemma to_nat_mul_ptr : forall n, N.to_nat (N.of_nat n * ptr_size) = (26 * n)%nat.
Proof. intros. rewrite N2Nat.inj_mul, Nat2N.id. change (N.to_nat ptr_size) with 26%nat. lia. Qed.

Definition persist_ops (P : list ptr) (sd : nat) : list fsop :=
  [OTrunc FIndex (N.of_nat (length P) * ptr_size)%N;
   OWrite true FIndex (N.of_nat sd * ptr_size)%N (encode_ptrs (skipn sd P))].

Lemma fset_same_view : forall fs f d, fget fs f = Some d -> view_of (Some (fset fs f d)) = view_of (Some fs).
Proof.
  intros fs f d H. symmetry. apply view_ext.
  - destruct (fname_eq_dec f FIndex) as [->|Hn]; [rewrite fget_fset_same; auto|symmetry; apply fget_fset_other; auto].
  - destruct (fname_eq_dec f FMeta) as [->|Hn]; [rewrite fget_fset_same; auto|symmetry; apply fget_fset_other; auto].
  - intros p _. apply read_d_ext_file.
    destruct (fname_eq_dec f (FData (p_file p))) as [->|Hn]; [rewrite fget_fset_same; auto|symmetry; apply fget_fset_other; auto].
Qed.

Lemma persist_result : forall fs ib P sd,
  fget fs FIndex = Some ib ->
  (sd <= length P)%nat ->
  firstn (26 * sd) ib = encode_ptrs (firstn sd P) ->
  apply_all (Some fs) (persist_ops P sd) =
    Some (fset (fset fs FIndex (trunc_to ib (26 * length P))) FIndex (encode_ptrs P)).
Proof.
  intros fs ib P sd Hi Hsd Hag. unfold persist_ops, apply_all. simpl.
  rewrite Hi. rewrite fget_fset_same. rewrite !to_nat_mul_ptr.
  rewrite index_rewrite by auto. reflexivity.
Qed.

Lemma fset_fset : forall fs f a b g, fget (fset (fset fs f a) f b) g = fget (fset fs f b) g.
Proof.
  intros. destruct (fname_eq_dec f g) as [->|Hn].
  - rewrite !fget_fset_same. reflexivity.
  - rewrite !fget_fset_other by auto. reflexivity.
Qed.

Lemma persist_pair_cuts : forall fs w ib P sd,
  fget fs FIndex = Some ib ->
  wi_idxlen w = N.of_nat (length ib) ->
  (sd <= length P)%nat ->
  firstn (26 * sd) ib = encode_ptrs (firstn sd P) ->
  cuts_ok (Some fs) w (persist_ops P sd).
Proof.
  intros fs w ib P sd Hi Hw Hsd Hag m t Hm Ht Hc.
  unfold persist_ops in *. simpl in Hm.
  destruct m as [|[|[|m]]]; try lia.
  - (* nothing issued yet *)
    destruct Ht as [->|[o [H1 H2]]].
    + left. reflexivity.
    + simpl in H1. inversion H1; subst o. simpl in H2. lia.
  - (* after the Truncate *)
    destruct Ht as [->|[o [H1 H2]]].
    + left. unfold crash_image. simpl. rewrite Hi.
      unfold win_from in Hc. simpl in Hc. unfold win_class in Hc. simpl in Hc.
      destruct (wi_dir w && negb (wi_meta w)); [discriminate|].
      destruct (wi_trunc w); simpl in Hc; [discriminate|].
      destruct (N.eqb_spec (N.of_nat (length P) * ptr_size) (wi_idxlen w)) as [E|E]; simpl in Hc; [|discriminate].
      rewrite to_nat_mul_ptr.
      assert (Hl : (26 * length P)%nat = length ib).
      { rewrite Hw in E. rewrite <- to_nat_mul_ptr. rewrite E. apply Nat2N.id. }
      rewrite Hl, trunc_to_same. apply fset_same_view. exact Hi.
    + exfalso. simpl in H1. inversion H1; subst o.
      unfold win_from in Hc. simpl in Hc. destruct t; [lia|]. simpl in Hc.
      unfold win_class in Hc. simpl in Hc.
      destruct (wi_dir w && negb (wi_meta w)); discriminate.
  - (* both calls completed *)
    right. change 2%nat with (length (persist_ops P sd)). unfold persist_ops.
    rewrite crash_image_end. reflexivity.
Qed.

Lemma persist_view : forall fs ib P sd,
  fget fs FIndex = Some ib ->
  (sd <= length P)%nat ->
  firstn (26 * sd) ib = encode_ptrs (firstn sd P) ->
  exists fs', apply_all (Some fs) (persist_ops P sd) = Some fs' /\
              fget fs' FIndex = Some (encode_ptrs P) /\
              (forall f, f <> FIndex -> fget fs' f = fget fs f).
Proof.
  intros. eexists. split; [apply persist_result; eauto|]. split.
  - apply fget_fset_same.
  - intros f Hf. rewrite !fget_fset_other by auto. reflexivity.
Qed.
