(* Cesium/CrashProofs.v — lemmas about the mutation-log semantics and the persistence protocol. *)
From Coq Require Import List NArith ZArith Bool Arith Lia.
From Synnax Require Import Cesium.FsLog Cesium.Crash.
Import ListNotations.

Lemma apply_all_app : forall l1 l2 s, apply_all s (l1 ++ l2) = apply_all (apply_all s l1) l2.
Proof. intros; unfold apply_all; apply fold_left_app. Qed.
