(* Cesium/ReadSuccess.v — when do the index look-ups of a read succeed?  Distance over
   [ds, te) succeeds exactly when the index domain containing ds starts a chain of immediately
   contiguous domains reaching te ("coverage").  If every pointer of a channel is covered by its
   index, DB.Read never hits an iterator error, so it returns exactly the channel's content of
   the requested range (ReadExact.read_exact_ok without its success hypothesis). *)
From Coq Require Import ZArith List Bool Lia.
From Synnax Require Import Cesium.Store Cesium.StoreProofs Cesium.IndexSearch Cesium.Distance
  Cesium.Stamp Cesium.DeleteModel Cesium.DeleteBase Cesium.DeleteSearch Cesium.DeleteDistance
  Cesium.DeleteOffsets Cesium.DeleteContent Cesium.DeleteExact Cesium.ReadExact.
Import ListNotations.
Local Open Scope Z_scope.

(* ------------------------------------------------------------------ the effective domain *)
Lemma chain_end_ge B e rest : e <= chain_end B e rest \/ True.
Proof. auto. Qed.

(* the chain end never moves backwards *)
Lemma chain_end_mono B : forall rest e,
  (forall d, In d rest -> dom_s d < dom_e d) -> e <= chain_end B e rest.
Proof.
  induction rest as [|d r IH]; intros e Hne; simpl; [lia|].
  destruct (overlaps (d_tr d) B && (e =? dom_s d)) eqn:E; [|lia].
  apply andb_true_iff in E as [_ E]. apply Z.eqb_eq in E.
  pose proof (Hne d (or_introl eq_refl)).
  pose proof (IH (dom_e d) (fun x Hx => Hne x (or_intror Hx))). lia.
Qed.

(* ------------------------------------------------------------------ Distance succeeds *)
Lemma dloop_succeeds ds te eff s2f se : ds < te -> forall rest tot e0,
  widx rest -> (forall d, In d rest -> e0 <= dom_s d) ->
  e0 < te -> te <= chain_end (TR ds te) e0 rest ->
  t_s eff <= e0 -> chain_end (TR ds te) e0 rest <= t_e eff ->
  exists a, dloop (TR ds te) eff te rest s2f tot se = Ok a.
Proof.
  intros Hlt. induction rest as [|d r IH]; intros tot e0 Hw Hafter He0 Hce Hes Hee; simpl in *.
  - lia.
  - destruct (widx_cons_inv d r Hw) as ([Hinc _] & Hne & Hr & Hafter_r & _).
    destruct (overlaps (d_tr d) (TR ds te) && (e0 =? dom_s d)) eqn:E; [|lia].
    apply andb_true_iff in E as [Eo Ec]. apply Z.eqb_eq in Ec. rewrite Eo. simpl.
    assert (Hmono : dom_e d <= chain_end (TR ds te) (dom_e d) r).
    { apply chain_end_mono. intros x Hx. destruct (widx_cons_inv d r Hw) as (_ & _ & Hr' & _).
      apply In_znth in Hx as [i Hi]. destruct Hr' as [[Hn _] _]. eapply Hn; eauto. }
    assert (Hcr : contains_range eff (d_tr d) = true).
    { unfold contains_range. apply andb_true_iff. unfold dom_s, dom_e in *. split; apply Z.leb_le; lia. }
    rewrite Hcr. simpl.
    destruct (contains_stamp (d_tr d) te || (te =? dom_e d)) eqn:Et.
    + rewrite (isearch_spec te _ Hinc). simpl. eauto.
    + apply orb_false_iff in Et as [Et1 Et2]. apply Z.eqb_neq in Et2.
      unfold contains_stamp in Et1. apply andb_false_iff in Et1. unfold dom_s, dom_e in *.
      assert (Hgt : t_e (d_tr d) < te).
      { destruct Et1 as [Et1|Et1]; [apply Z.leb_gt in Et1; lia|apply Z.ltb_ge in Et1; lia]. }
      apply (IH (tot + dlen d) (t_e (d_tr d))); auto; try lia.
      intros x Hx. pose proof (In_znth _ _ Hx) as [i Hi].
      destruct Hw as [[_ Ho] _]. pose proof (znth_Some _ _ _ Hi).
      apply (Ho 0 (i + 1) d x); [apply znth_0| |lia].
      rewrite znth_cons by lia. replace (i + 1 - 1) with i by lia. exact Hi.
Qed.

(* coverage of [s, e) by the index P *)
Definition covered (P : list dom) (s e : Z) : Prop :=
  exists pre d0 rest, P = pre ++ d0 :: rest /\ dom_s d0 <= s < dom_e d0 /\
                      e <= chain_end (TR s e) (dom_e d0) rest.

Lemma distance_succeeds P ds te :
  widx P -> ds < te -> covered P ds te -> exists a, distance P (TR ds te) true = Ok a.
Proof.
  intros Hw Hlt (pre & d0 & rest & HP & Hin & Hce).
  destruct (distance_unfold P pre d0 rest ds te Hw HP Hin Hlt) as (eff & Hes & Hee & Heq). rewrite Heq. clear Heq.
  destruct (split_d0 P pre rest d0 HP Hw) as [_ Hne].
  assert (Hcr : contains_range eff (TR ds te) = true).
  { unfold contains_range. simpl. apply andb_true_iff. split; apply Z.leb_le; lia. }
  rewrite Hcr. simpl.
  destruct (contains_stamp (d_tr d0) te || (te =? dom_e d0)) eqn:Ec; [eauto|].
  apply orb_false_iff in Ec as [Ec1 Ec2]. apply Z.eqb_neq in Ec2.
  unfold contains_stamp in Ec1. apply andb_false_iff in Ec1. unfold dom_s, dom_e in *.
  assert (Hgt : t_e (d_tr d0) < te).
  { destruct Ec1 as [Ec1|Ec1]; [apply Z.leb_gt in Ec1; lia|apply Z.ltb_ge in Ec1; lia]. }
  assert (Hcs : negb (contains_stamp eff te) && negb (t_e eff =? te) = false).
  { unfold contains_stamp. destruct (Z.eq_dec (t_e eff) te) as [He|He].
    - rewrite He, Z.eqb_refl. simpl. apply andb_false_r.
    - assert (te < t_e eff) by lia.
      replace (t_s eff <=? te) with true by (symmetry; apply Z.leb_le; lia).
      replace (te <? t_e eff) with true by (symmetry; apply Z.ltb_lt; lia). reflexivity. }
  rewrite Hcs.
  apply (dloop_succeeds ds te eff _ _ Hlt rest 0 (t_e (d_tr d0))); try lia.
  - apply (split_rest_widx P pre rest d0 HP Hw).
  - intros d Hd. destruct (split_rest_dom_start P pre rest d0 HP Hw d Hd) as [A _]. exact A.
Qed.

(* an empty range at a point inside some index domain *)
Lemma distance_zero_succeeds P ds :
  widx P -> (exists i d0, znth P i = Some d0 /\ dom_s d0 <= ds < dom_e d0) ->
  exists a, distance P (TR ds ds) true = Ok a.
Proof.
  intros Hw (i & d0 & Hd0 & Hin).
  destruct (widx_find P i d0 Hd0) as (pre & rest & HP & _).
  destruct (split_d0 P pre rest d0 HP Hw) as [_ Hne].
  unfold distance, distance_gen, di_seek_first, di_open. simpl di_b. simpl t_s.
  assert (Ho : overlaps (d_tr d0) (TR ds ds) = true).
  { rewrite overlaps_point by (unfold dom_s, dom_e in *; lia). unfold contains_stamp.
    unfold dom_s, dom_e in *. apply andb_true_iff. split; [apply Z.leb_le|apply Z.ltb_lt]; lia. }
  rewrite (seek_ge_inside P pre d0 rest (TR ds ds) zero_dom ds (proj1 Hw) HP Hin Ho). simpl negb. cbv iota.
  pose proof (fwd_eff_start P (DI (TR ds ds) (zlen pre) d0 true)) as [Hs Hb].
  pose proof (fwd_eff_end (TR ds ds) pre d0 rest) as He. rewrite <- HP in He.
  destruct (fwd_eff P (DI (TR ds ds) (zlen pre) d0 true)) as [[it1 eff] n]. simpl in Hs, Hb, He.
  rewrite Hb. simpl t_s.
  rewrite (di_seek_ge_ok_indep P (DI (TR ds ds) 0 zero_dom false) it1 ds _ (eq_sym Hb)
             (seek_ge_inside P pre d0 rest (TR ds ds) zero_dom ds (proj1 Hw) HP Hin Ho)).
  simpl negb. cbv iota.
  assert (Hm : t_e (d_tr d0) <= t_e eff).
  { rewrite He. apply chain_end_mono. intros x Hx.
    destruct (split_rest_dom_start P pre rest d0 HP Hw x Hx) as (_ & A & _). exact A. }
  assert (Hcr : contains_range eff (TR ds ds) = true).
  { unfold contains_range. simpl. unfold di_tr in Hs. simpl in Hs. unfold dom_s, dom_e in *.
    apply andb_true_iff. split; apply Z.leb_le; lia. }
  rewrite Hcr. simpl. unfold tspan. simpl. rewrite Z.sub_diag. simpl. eauto.
Qed.

(* coverage of a range covers its prefixes *)
Lemma chain_end_prefix s e x : forall rest e0,
  (forall d, In d rest -> dom_s d < dom_e d) ->
  s < x -> x <= e -> x <= chain_end (TR s e) e0 rest -> s <= e0 -> x <= chain_end (TR s x) e0 rest.
Proof.
  induction rest as [|d r IH]; intros e0 Hne Hsx Hxe Hc Hs0; simpl in *; [exact Hc|].
  pose proof (Hne d (or_introl eq_refl)) as Hd.
  destruct (Z_le_gt_dec x e0) as [Hle|Hgt].
  - (* already reached *)
    destruct (overlaps (d_tr d) (TR s x) && (e0 =? dom_s d)) eqn:E; [|exact Hle].
    apply andb_true_iff in E as [_ E]. apply Z.eqb_eq in E.
    pose proof (chain_end_mono (TR s x) r (dom_e d) (fun y Hy => Hne y (or_intror Hy))). lia.
  - destruct (overlaps (d_tr d) (TR s e) && (e0 =? dom_s d)) eqn:E; [|lia].
    apply andb_true_iff in E as [Eo Ec]. rewrite Ec. apply Z.eqb_eq in Ec.
    assert (Eo' : overlaps (d_tr d) (TR s x) = true).
    { unfold dom_s, dom_e in *. rewrite overlaps_nonempty by (simpl; lia). simpl. apply Z.ltb_lt. lia. }
    rewrite Eo'. simpl. apply IH; auto; try lia.
Qed.

Lemma covered_prefix P s e x : widx P -> covered P s e -> s < x <= e -> covered P s x.
Proof.
  intros Hw (pre & d0 & rest & HP & Hin & Hce) Hx. exists pre, d0, rest. split; [exact HP|]. split; [exact Hin|].
  apply (chain_end_prefix s e x); try lia; try assumption.
  intros d Hd. destruct (split_rest_dom_start P pre rest d0 HP Hw d Hd) as (_ & A & _). exact A.
Qed.

Lemma covered_inside P s e : covered P s e -> exists i d0, znth P i = Some d0 /\ dom_s d0 <= s < dom_e d0.
Proof.
  intros (pre & d0 & rest & HP & Hin & _). exists (zlen pre), d0. split; [rewrite HP; apply znth_mid|exact Hin].
Qed.

(* ------------------------------------------------------------------ reads succeed *)
Section Success.
Variables (P : list dom) (c : chan).
Hypothesis Hw : widx P.
Let G := allst P.
Hypothesis Hok : chan_ok G c.
Hypothesis Hcov : forall p, In p (c_ptrs c) -> covered P (t_s (p_tr p)) (t_e (p_tr p)).

Lemma slice_ptr_succeeds p s0 re :
  In p (c_ptrs c) -> s0 < re -> Z.max (t_s (p_tr p)) s0 < Z.min (t_e (p_tr p)) re ->
  exists s, slice_ptr P c p (TR s0 re) = Ok s.
Proof.
  intros Hp Hv Hov. set (ts := t_s (p_tr p)) in *. set (te := t_e (p_tr p)) in *.
  destruct Hok as [[Hfp Hpa Hs] Hd Hal _]. rewrite Forall_forall in Hpa, Hal.
  pose proof (sorted_ptrs_nonempty _ Hs) as Hne. rewrite Forall_forall in Hne. specialize (Hne p Hp). fold ts te in Hne.
  specialize (Hcov p Hp). fold ts te in Hcov.
  unfold slice_ptr. fold ts te. simpl t_s. simpl t_e.
  (* start *)
  assert (Hsa : exists sa, distance P (if ts <? s0 then TR ts s0 else point ts) true = Ok sa).
  { destruct (ts <? s0) eqn:E.
    - apply Z.ltb_lt in E. apply distance_succeeds; [exact Hw|lia|]. apply (covered_prefix P ts te s0 Hw Hcov). lia.
    - rewrite point_eq. apply distance_zero_succeeds; [exact Hw|]. eapply covered_inside; eauto. }
  destruct Hsa as [sa Hsa]. rewrite Hsa. simpl.
  assert (Hk1 : pick_sample_offset sa = cnt_lt (Z.max ts s0) G - cnt_lt ts G).
  { destruct (ts <? s0) eqn:E.
    - apply Z.ltb_lt in E. rewrite (pick_sample_offset_ok P ts s0 sa Hw ltac:(lia) Hsa). fold G.
      replace (Z.max ts s0) with s0 by lia. reflexivity.
    - apply Z.ltb_ge in E. rewrite point_eq in Hsa. rewrite (pick_sample_offset_ok P ts ts sa Hw ltac:(lia) Hsa).
      replace (Z.max ts s0) with ts by lia. lia. }
  pose proof (allst_sincr P Hw) as HG. fold G in HG.
  assert (Hal' := Hal p Hp). unfold aligned_ptr in Hal'. fold ts te G in Hal'.
  assert (Hk1r : 0 <= pick_sample_offset sa <= zlen (ptr_samples c p)).
  { rewrite Hk1, Hal'. pose proof (cnt_lt_mono G ts (Z.max ts s0) ltac:(lia)).
    pose proof (cnt_lt_mono G (Z.max ts s0) te ltac:(lia)). lia. }
  rewrite (byte_offset_spec c p _ Hd (Hpa p Hp) Hk1r). simpl.
  (* end *)
  assert (Hea : exists ea, (if re <? te then distance P (TR ts re) true
                            else Ok (DA (domain_sample_count c p) (domain_sample_count c p) false false)) = Ok ea).
  { destruct (re <? te) eqn:E; [|eauto].
    apply Z.ltb_lt in E. apply distance_succeeds; [exact Hw|lia|]. apply (covered_prefix P ts te re Hw Hcov). lia. }
  destruct Hea as [ea Hea]. rewrite Hea. simpl.
  assert (Hk2 : pick_sample_offset ea = cnt_lt (Z.min te re) G - cnt_lt ts G).
  { destruct (re <? te) eqn:E.
    - apply Z.ltb_lt in E. rewrite (pick_sample_offset_ok P ts re ea Hw ltac:(lia) Hea). fold G.
      replace (Z.min te re) with re by lia. reflexivity.
    - apply Z.ltb_ge in E. inversion Hea; subst ea. unfold pick_sample_offset, da_exact. simpl.
      rewrite Z.eqb_refl. simpl. rewrite (domain_sample_count_spec c p Hd (Hpa p Hp)).
      replace (Z.min te re) with te by lia. lia. }
  assert (Hk2r : pick_sample_offset sa <= pick_sample_offset ea <= zlen (ptr_samples c p)).
  { rewrite Hk1, Hk2, Hal'. pose proof (cnt_lt_mono G (Z.max ts s0) (Z.min te re) ltac:(lia)).
    pose proof (cnt_lt_mono G (Z.min te re) te ltac:(lia)). lia. }
  rewrite (byte_offset_spec c p (pick_sample_offset ea) Hd (Hpa p Hp) ltac:(lia)). simpl.
  pose proof (ptr_samples_pos c p Hfp (Hpa p Hp)) as Hpos.
  destruct (bytes_firstn_mono (ptr_samples c p) (Z.to_nat (pick_sample_offset sa)) (Z.to_nat (pick_sample_offset ea))
              Hpos ltac:(unfold zlen in *; lia)) as [Hmono _].
  destruct (_ <? 0) eqn:Eneg; [apply Z.ltb_lt in Eneg; lia|]. eauto.
Qed.

Lemma read_loop_succeeds rs re s0 : rs <= s0 < re -> forall ql first,
  sorted_ptrs ql -> (forall q, In q ql -> In q (c_ptrs c)) ->
  (first = false -> forall q, In q ql -> s0 <= t_s (p_tr q)) ->
  (first = true -> match ql with q :: _ => overlaps (p_tr q) (TR s0 re) = true | [] => True end) ->
  exists l, read_loop P c first ql (TR rs re) (TR s0 re) = Ok l.
Proof.
  intros Hr. induction ql as [|q ql IH]; intros first Hs Hin Hnf Hf; simpl; [eauto|].
  pose proof (sorted_ptrs_head _ _ Hs) as Hne.
  pose proof (sorted_ptrs_after _ _ Hs) as Hafter. rewrite Forall_forall in Hafter.
  destruct (negb first && negb (overlaps (p_tr q) (TR rs re))); [eauto|].
  destruct (negb (overlaps (p_tr q) (TR s0 re))) eqn:E2.
  - destruct first; [|eauto]. specialize (Hf eq_refl). simpl in Hf. apply negb_true_iff in E2. congruence.
  - apply negb_false_iff in E2. rewrite overlaps_ne in E2 by lia. apply Z.ltb_lt in E2.
    destruct (slice_ptr_succeeds q s0 re (Hin q (or_introl eq_refl)) ltac:(lia) E2) as [s Hs']. rewrite Hs'. simpl.
    destruct (IH false (sorted_ptrs_tail _ _ Hs) (fun x Hx => Hin x (or_intror Hx))) as [rest Hrest].
    + intros _ x Hx. destruct (Hafter x Hx). lia.
    + discriminate.
    + rewrite Hrest. simpl. eauto.
Qed.

Theorem read_chan_succeeds rs re :
  0 <= rs < re -> re <= MAXTS -> exists l, read_chan_res P c (TR rs re) = Ok l.
Proof.
  intros Hr HM.
  assert (Hsorted : sorted_ptrs (c_ptrs c)) by apply Hok.
  unfold read_chan_res, di_seek_first, di_open, di_seek_ge, search_ge. cbn [di_b t_s t_e di_cur].
  destruct (usearch (doms c) (point rs)) as [sd0 sx] eqn:Eus.
  assert (HzD : zlen (doms c) = zlen (c_ptrs c)) by (unfold doms, zlen; rewrite map_length; reflexivity).
  destruct (start_pos c Hsorted rs sd0 sx Eus) as [(Hsx & Hsd & Hall)|(L & p0 & R & E & Hl & HLa & Hsc)].
  - subst sx. simpl in Hsd.
    destruct (sd0 =? zlen (doms c)) eqn:E0; [apply Z.eqb_eq in E0; lia|].
    rewrite di_reload_none by (apply znth_None; right; lia). simpl. eauto.
  - set (sd := if sx then sd0 else sd0 + 1) in *.
    assert (Hp0 : znth (c_ptrs c) sd = Some p0) by (rewrite E, <- Hl; apply znth_mid).
    pose proof (znth_Some _ _ _ Hp0) as Hsdr.
    assert (Hpos : (if sx then sd0 else if sd0 =? zlen (doms c) then -1 else sd0 + 1) = sd).
    { unfold sd. destruct sx; [reflexivity|]. destruct (sd0 =? zlen (doms c)) eqn:E0; [apply Z.eqb_eq in E0; unfold sd in *; lia|reflexivity]. }
    rewrite Hpos.
    rewrite (di_reload_at (doms c) (TR rs re) sd zero_dom (dom_of c p0) (doms_znth c sd p0 Hp0) ltac:(lia)).
    cbn [d_tr dom_of].
    assert (Hp0in : In p0 (c_ptrs c)) by (rewrite E; apply In_app_mid).
    assert (Hne0 : t_s (p_tr p0) < t_e (p_tr p0)).
    { pose proof (sorted_ptrs_nonempty _ Hsorted) as Hn. rewrite Forall_forall in Hn. apply Hn. exact Hp0in. }
    rewrite overlaps_ne by lia.
    destruct (Z.max (t_s (p_tr p0)) rs <? Z.min (t_e (p_tr p0)) re) eqn:Eo; cbv beta iota zeta; cbn [negb]; [|eauto].
    apply Z.ltb_lt in Eo. unfold di_tr. cbn [di_cur d_tr dom_of di_pos].
    rewrite bound_by_inter by (simpl; lia). cbn [t_s t_e].
    set (s0 := Z.max (t_s (p_tr p0)) rs) in *.
    destruct (s0 =? re) eqn:E1; [eauto|].
    assert (Hs00 : 0 <= s0 <= MAXTS) by (unfold s0; lia).
    rewrite (span_range_max_end s0 Hs00). rewrite bound_by_inter by (simpl; lia). simpl.
    replace (Z.max s0 rs) with s0 by lia. replace (Z.min MAXTS re) with re by lia.
    destruct (_ || _); [eauto|].
    rewrite E, <- Hl, skipn_zlen_app.
    apply (read_loop_succeeds rs re s0 ltac:(unfold s0; lia) (p0 :: R) true).
    + rewrite E in Hsorted. apply sorted_ptrs_app_inv in Hsorted as [_ Hs2]. exact Hs2.
    + intros q Hq. rewrite E. apply in_or_app. right. exact Hq.
    + discriminate.
    + intros _. rewrite overlaps_ne by lia. apply Z.ltb_lt. unfold s0 in *. lia.
Qed.
End Success.

(* ------------------------------------------------------------------ coverage of sub-ranges *)
Lemma chain_end_bounds s x e : forall rest e0,
  s <= x < e -> (forall d, In d rest -> x <= dom_s d /\ dom_s d < dom_e d) ->
  chain_end (TR s e) e0 rest = chain_end (TR x e) e0 rest.
Proof.
  induction rest as [|d r IH]; intros e0 Hx Hd; simpl; [reflexivity|].
  destruct (Hd d (or_introl eq_refl)) as [H1 H2]. unfold dom_s, dom_e in *.
  rewrite !overlaps_nonempty by (simpl; lia). simpl.
  replace (Z.max (t_s (d_tr d)) s) with (t_s (d_tr d)) by lia.
  replace (Z.max (t_s (d_tr d)) x) with (t_s (d_tr d)) by lia.
  rewrite IH by (auto; intros y Hy; apply Hd; right; exact Hy). reflexivity.
Qed.

Lemma covered_suffix_aux s x e : s <= x < e -> forall rest pre d0,
  widx (pre ++ d0 :: rest) -> dom_s d0 <= x -> e <= chain_end (TR s e) (dom_e d0) rest ->
  covered (pre ++ d0 :: rest) x e.
Proof.
  intros Hx. induction rest as [|d1 r IH]; intros pre d0 Hw H0 Hce.
  - simpl in Hce. exists pre, d0, []. split; [reflexivity|]. split; [lia|]. simpl. lia.
  - destruct (split_d0 _ pre (d1 :: r) d0 eq_refl Hw) as [_ Hne].
    assert (Hrest : forall d, In d (d1 :: r) -> dom_e d0 <= dom_s d /\ dom_s d < dom_e d).
    { intros d Hd. destruct (split_rest_dom_start _ pre (d1 :: r) d0 eq_refl Hw d Hd) as (A & B & _). auto. }
    destruct (Z_lt_le_dec x (dom_e d0)) as [Hlt|Hge].
    + exists pre, d0, (d1 :: r). split; [reflexivity|]. split; [lia|].
      rewrite <- (chain_end_bounds s x e (d1 :: r) (dom_e d0) Hx); [exact Hce|].
      intros d Hd. destruct (Hrest d Hd). lia.
    + simpl in Hce.
      destruct (overlaps (d_tr d1) (TR s e) && (dom_e d0 =? dom_s d1)) eqn:E; [|lia].
      apply andb_true_iff in E as [_ Ec]. apply Z.eqb_eq in Ec.
      rewrite (app_cons_assoc pre d0 (d1 :: r)). apply IH.
      * rewrite <- app_cons_assoc. exact Hw.
      * lia.
      * exact Hce.
Qed.

Lemma covered_suffix P s e x : widx P -> covered P s e -> s <= x < e -> covered P x e.
Proof.
  intros Hw (pre & d0 & rest & HP & Hin & Hce) Hx. subst P.
  apply (covered_suffix_aux s x e Hx rest pre d0 Hw); [lia|exact Hce].
Qed.

Lemma covered_sub P s e x y : widx P -> covered P s e -> s <= x -> x < y -> y <= e -> covered P x y.
Proof.
  intros Hw Hc H1 H2 H3. apply (covered_prefix P x e y Hw); [|lia].
  apply (covered_suffix P s e x Hw Hc). lia.
Qed.
