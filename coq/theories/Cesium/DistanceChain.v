(* Cesium/DistanceChain.v — index.Domain.Distance over a run of immediately contiguous index
   domains (the index file rolled over inside the range): for a range [a, t) that starts in the
   first domain q of the run and ends in (or exactly at the end of) a later domain qe, Distance
   with the continuous policy succeeds and pickSampleOffset yields the number of index stamps
   in [a, t): the stamps of q from a on, all stamps of the domains in between, and the stamps
   of qe below t. *)
From Coq Require Import ZArith List Bool Lia Sorting.Sorted.
From Synnax Require Import Cesium.Store Cesium.StoreProofs Cesium.IndexSearch Cesium.IndexSearchProofs
     Cesium.Distance Cesium.DomIterProofs Cesium.UnaryIter Cesium.DistanceProofs Cesium.UnaryIterExact.
Import ListNotations.
Local Open Scope Z_scope.

(* consecutive domains touch: the end of one is the start of the next *)
Fixpoint contig (l : list dom) : Prop :=
  match l with
  | a :: ((b :: _) as r) => t_e (d_tr a) = t_s (d_tr b) /\ contig r
  | _ => True
  end.

Lemma last_cons {A} (l : list A) y x : last (y :: l) x = last l y.
Proof.
  revert y x. induction l as [|d l IH]; intros y x; [reflexivity|].
  change (last (y :: d :: l) x) with (last (d :: l) x). rewrite !IH. reflexivity.
Qed.

Definition sum_len (l : list dom) : Z := fold_right (fun d acc => dlen d + acc) 0 l.

Lemma sum_len_nonneg l : 0 <= sum_len l.
Proof.
  induction l as [|y m IH]; [cbn; lia|]. change (sum_len (y :: m)) with (dlen y + sum_len m).
  unfold dlen. pose proof (zlen_nonneg (d_data y)). unfold zlen in *. lia.
Qed.

Lemma fwd_eff_go_b P fuel : forall it b n, di_b (fst (fst (fwd_eff_go fuel P it b n))) = di_b it.
Proof.
  induction fuel as [|f IH]; intros it b n; [reflexivity|]. cbn [fwd_eff_go].
  pose proof (next_b P it) as NB. destruct (di_next P it) as [it' ok]. cbn [fst] in NB.
  destruct ok; cbn [negb]; [|exact NB].
  destruct (negb (t_e (di_tr it) =? t_s (di_tr it'))); [exact NB|]. rewrite IH. exact NB.
Qed.

Section Chain.
Variable P : list dom.
Hypothesis HP : lay P.
Variable a t : Z.
Let T := TR a t.
Hypothesis Hat : a < t.

Lemma ovT d : dwf d -> overlaps (d_tr d) T = (Z.max (t_s (d_tr d)) a <? Z.min (t_e (d_tr d)) t).
Proof. intros W. rewrite (overlaps_nonempty (d_tr d) T W) by (unfold T; simpl; lia). reflexivity. Qed.

(* one move of the domain iterator inside P *)
Lemma next_to A x y R : P = A ++ x :: y :: R -> overlaps (d_tr y) T = true ->
  di_next P (DI T (zlen A) x true) = (DI T (zlen A + 1) y true, true).
Proof.
  intros HPeq Ov. pose proof (next_spec P (DI T (zlen A) x true) (zlen A) x) as NS. cbn [di_b] in NS.
  assert (Hx : znth P (zlen A) = Some x) by (rewrite HPeq; apply znth_mid).
  specialize (NS ltac:(unfold at_pos; cbn; auto)).
  assert (Hy : znth P (zlen A + 1) = Some y) by (rewrite HPeq, znth_after; reflexivity).
  rewrite Hy, Ov in NS. exact NS.
Qed.

Lemma next_stop A x R : P = A ++ x :: R ->
  match R with [] => True | y :: _ => overlaps (d_tr y) T = false end ->
  di_next P (DI T (zlen A) x true) = (DI T (zlen A) x false, false).
Proof.
  intros HPeq St. pose proof (next_spec P (DI T (zlen A) x true) (zlen A) x) as NS. cbn [di_b] in NS.
  assert (Hx : znth P (zlen A) = Some x) by (rewrite HPeq; apply znth_mid).
  specialize (NS ltac:(unfold at_pos; cbn; auto)).
  destruct R as [|y R'].
  - assert (Hy : znth P (zlen A + 1) = None) by (rewrite HPeq, znth_after; reflexivity). rewrite Hy in NS. exact NS.
  - assert (Hy : znth P (zlen A + 1) = Some y) by (rewrite HPeq, znth_after; reflexivity). rewrite Hy, St in NS. exact NS.
Qed.

Lemma zlen_snoc {A} (l : list A) x : zlen (l ++ [x]) = zlen l + 1.
Proof. unfold zlen. rewrite app_length. simpl. lia. Qed.

(* the effective-domain walk along the run *)
Lemma fwd_eff_chain : forall ys A x B fuel b n,
  P = A ++ x :: ys ++ B -> contig (x :: ys) ->
  (forall y, In y ys -> overlaps (d_tr y) T = true) ->
  match B with [] => True | y :: _ => overlaps (d_tr y) T = false end ->
  (length ys < fuel)%nat -> t_e b = t_e (d_tr x) ->
  snd (fst (fwd_eff_go fuel P (DI T (zlen A) x true) b n)) = TR (t_s b) (t_e (d_tr (last ys x))).
Proof.
  induction ys as [|y ys IH]; intros A x B fuel b n HPeq Hc Hov Hst Hf Hb.
  - destruct fuel as [|f]; [simpl in Hf; lia|]. cbn [fwd_eff_go].
    rewrite (next_stop A x B HPeq Hst). cbn [negb snd fst last]. rewrite <- Hb. destruct b; reflexivity.
  - destruct fuel as [|f]; [simpl in Hf; lia|]. cbn [fwd_eff_go].
    rewrite (next_to A x y (ys ++ B)) by (exact HPeq || apply Hov; left; reflexivity).
    cbn [negb]. unfold di_tr. cbn [di_cur].
    destruct Hc as [Hxy Hc']. rewrite Hxy, Z.eqb_refl. cbn [negb].
    specialize (IH (A ++ [x]) y B f (TR (t_s b) (t_e (d_tr y))) (n + dlen y)).
    rewrite zlen_snoc in IH. rewrite IH.
    + cbn [t_s]. rewrite (last_cons ys y x). reflexivity.
    + rewrite <- app_assoc. exact HPeq.
    + exact Hc'.
    + intros z Hz. apply Hov. right. exact Hz.
    + exact Hst.
    + simpl in Hf. lia.
    + reflexivity.
Qed.

(* the traversal loop of Distance along the run, up to the domain holding the range end *)
Lemma dist_loop_chain : forall mid A x qe B fuel eff s2f tot se,
  P = A ++ x :: mid ++ qe :: B ->
  (forall y, In y mid -> overlaps (d_tr y) T = true /\ contains_range eff (d_tr y) = true /\
                         contains_stamp (d_tr y) t = false /\ t <> t_e (d_tr y)) ->
  overlaps (d_tr qe) T = true -> contains_range eff (d_tr qe) = true ->
  contains_stamp (d_tr qe) t || (t =? t_e (d_tr qe)) = true ->
  (length mid < fuel)%nat ->
  dist_loop false fuel P (DI T (zlen A) x true) T eff true s2f tot se =
  (do e <- isearch t (d_data qe);
   Ok (DA (a_lo s2f + (tot + sum_len mid) + a_lo e) (a_hi s2f + (tot + sum_len mid) + a_hi e) se (a_exact e))).
Proof.
  induction mid as [|y mid IH]; intros A x qe B fuel eff s2f tot se HPeq Hmid Oq Cq Eq Hf.
  - destruct fuel as [|f]; [simpl in Hf; lia|]. cbn [dist_loop].
    rewrite (next_to A x qe B HPeq Oq). cbn [negb orb]. unfold di_tr. cbn [di_cur].
    rewrite Cq. cbn [negb andb orb]. cbn [T t_e]. unfold T. cbn [t_e].
    rewrite Eq. cbn [sum_len fold_right]. rewrite Z.add_0_r. reflexivity.
  - destruct fuel as [|f]; [simpl in Hf; lia|]. cbn [dist_loop].
    destruct (Hmid y (or_introl eq_refl)) as (Oy & Cy & Ny & Ey).
    rewrite (next_to A x y (mid ++ qe :: B)) by (exact HPeq || exact Oy).
    cbn [negb orb]. unfold di_tr. cbn [di_cur]. rewrite Cy. cbn [negb andb orb]. unfold T. cbn [t_e].
    rewrite Ny. assert ((t =? t_e (d_tr y)) = false) as -> by (apply Z.eqb_neq; exact Ey). cbn [orb negb andb].
    specialize (IH (A ++ [x]) y qe B f eff s2f (tot + dlen y) se).
    rewrite zlen_snoc in IH. fold T. rewrite IH.
    + cbn [sum_len fold_right]. fold (sum_len mid).
      replace (tot + dlen y + sum_len mid) with (tot + (dlen y + sum_len mid)) by lia. reflexivity.
    + rewrite <- app_assoc. exact HPeq.
    + intros z Hz. apply Hmid. right. exact Hz.
    + exact Oq.
    + exact Cq.
    + exact Eq.
    + simpl in Hf. lia.
Qed.

End Chain.

Lemma stop_after a t (qe : dom) (L2 : list dom) : a < t -> lay (qe :: L2) -> t <= t_e (d_tr qe) ->
  match L2 with [] => True | z :: _ => overlaps (d_tr z) (TR a t) = false end.
Proof.
  intros Hat HL Ht. destruct L2 as [|z R]; [exact I|].
  destruct (lay_split [] qe (z :: R) HL) as (_ & Wq & (W & _) & _ & G).
  apply Forall_cons_iff in W. destruct W as [Wz _].
  rewrite (ovT a t Hat z Wz). apply Z.ltb_ge. specialize (G z (or_introl eq_refl)). unfold dbefore in G.
  unfold dwf in Wz. lia.
Qed.

(* ---- Distance over a run q :: mid ++ [qe] ---- *)
Section Run.
Variable L1 mid L2 : list dom.
Variable q qe : dom.
Let P := L1 ++ q :: mid ++ qe :: L2.
Hypothesis HP : lay P.
Hypothesis Hcontig : contig (q :: mid ++ [qe]).
Hypothesis Hiq : inc (d_data q).
Hypothesis Hiqe : inc (d_data qe).
Variable a t : Z.
Hypothesis Ha : t_s (d_tr q) <= a < t_e (d_tr q).
Hypothesis Ht : t_s (d_tr qe) < t <= t_e (d_tr qe).

Let T := TR a t.
Let k := zlen L1.

Lemma P_split : lay L1 /\ dwf q /\ lay (mid ++ qe :: L2) /\
  (forall y, In y (mid ++ qe :: L2) -> dbefore q y).
Proof. destruct (lay_split L1 q (mid ++ qe :: L2) HP) as (A & B & C & _ & E). auto. Qed.

Lemma mid_split : lay mid /\ dwf qe /\ lay L2 /\
  (forall y, In y mid -> dbefore y qe) /\ (forall z, In z L2 -> dbefore qe z).
Proof. destruct P_split as (_ & _ & L & _). destruct (lay_split mid qe L2 L) as (A & B & C & D & E). auto. Qed.

Lemma q_before_qe : t_e (d_tr q) <= t_s (d_tr qe).
Proof. destruct P_split as (_ & _ & _ & F). apply F. apply in_or_app. right. left. reflexivity. Qed.

Lemma a_lt_t : a < t.
Proof. pose proof q_before_qe. lia. Qed.

Lemma mid_facts y : In y mid ->
  dwf y /\ t_e (d_tr q) <= t_s (d_tr y) /\ t_e (d_tr y) <= t_s (d_tr qe).
Proof.
  intros Hy. destruct P_split as (_ & _ & _ & F). destruct mid_split as ((W & _) & _ & _ & G & _).
  rewrite Forall_forall in W. split; [apply W, Hy|]. split.
  - apply F. apply in_or_app. left. exact Hy.
  - apply G, Hy.
Qed.

Lemma znth_q : znth P k = Some q.
Proof. unfold P, k. apply znth_mid. Qed.

Lemma k_dcnt : dcnt a P = k.
Proof.
  symmetry. apply (lay_contains_at P a k q HP znth_q).
  unfold contains_stamp. apply andb_true_iff. split; [apply Z.leb_le|apply Z.ltb_lt]; lia.
Qed.

Lemma ov_q : overlaps (d_tr q) T = true.
Proof.
  destruct P_split as (_ & Wq & _). unfold T. rewrite (ovT a t a_lt_t q Wq). apply Z.ltb_lt.
  pose proof q_before_qe. unfold dwf in Wq. lia.
Qed.

Lemma seek_first_run it : di_b it = T -> di_seek_first P it = (DI T k q true, true).
Proof.
  intros Hb. unfold di_seek_first. rewrite Hb. unfold T at 1. cbn [t_s].
  pose proof (seek_ge_spec P it a HP) as SG. cbv zeta in SG. rewrite k_dcnt, znth_q, Hb, ov_q in SG. exact SG.
Qed.

Lemma ov_mid y : In y mid -> overlaps (d_tr y) T = true.
Proof.
  intros Hy. destruct (mid_facts y Hy) as (W & A & B). unfold T. rewrite (ovT a t a_lt_t y W). apply Z.ltb_lt.
  unfold dwf in W. lia.
Qed.

Lemma ov_qe : overlaps (d_tr qe) T = true.
Proof.
  destruct mid_split as (_ & W & _). unfold T. rewrite (ovT a t a_lt_t qe W). apply Z.ltb_lt.
  pose proof q_before_qe. unfold dwf in W. lia.
Qed.

Lemma stop_L2 : match L2 with [] => True | z :: _ => overlaps (d_tr z) T = false end.
Proof.
  apply (stop_after a t qe L2); [exact a_lt_t| |lia].
  destruct mid_split as (_ & W & L & _ & G).
  split; [constructor; [exact W|apply L]|constructor; [apply L|apply Forall_forall; exact G]].
Qed.

Let eff := TR (t_s (d_tr q)) (t_e (d_tr qe)).

Lemma fwd_eff_run : exists it1 n1, fwd_eff P (DI T k q true) = (it1, eff, n1) /\ di_b it1 = T.
Proof.
  unfold T, k. unfold fwd_eff, di_tr. cbn [di_cur].
  pose proof (fwd_eff_go_b P (S (length P)) (DI (TR a t) (zlen L1) q true) (d_tr q) (dlen q)) as GB.
  pose proof (fwd_eff_chain P a t (mid ++ [qe]) L1 q L2 (S (length P)) (d_tr q) (dlen q)) as FC.
  destruct (fwd_eff_go (S (length P)) P (DI (TR a t) (zlen L1) q true) (d_tr q) (dlen q)) as [[it1 e1] n1].
  cbn [fst snd] in *. exists it1, n1. split; [|exact GB].
  rewrite FC.
  - unfold eff. rewrite last_last. reflexivity.
  - unfold P. rewrite <- app_assoc. reflexivity.
  - exact Hcontig.
  - intros y Hy. apply in_app_or in Hy. destruct Hy as [Hy|[<-|[]]]; [apply ov_mid, Hy|apply ov_qe].
  - exact stop_L2.
  - unfold P. rewrite !app_length. simpl. rewrite app_length. simpl. lia.
  - reflexivity.
Qed.

(* the number of index stamps of the run in [a, t) *)
Definition run_between : Z :=
  (zlen (d_data q) - cnt_lt a (d_data q)) + sum_len mid + cnt_lt t (d_data qe).

Theorem distance_run :
  exists da, distance P T true = Ok da /\ pick_sample_offset da = run_between.
Proof.
  pose proof a_lt_t as Hlt. pose proof q_before_qe as Hqq.
  destruct P_split as (_ & Wq & _). destruct mid_split as (_ & Wqe & _). unfold dwf in Wq, Wqe.
  unfold distance, distance_gen.
  rewrite (seek_first_run (di_open T) eq_refl). cbn [negb].
  destruct fwd_eff_run as (it1 & n1 & FE & B1). rewrite FE.
  rewrite (seek_first_run it1 B1). cbn [negb].
  assert (CR : contains_range eff T = true).
  { unfold contains_range, eff, T. cbn [t_s t_e]. apply andb_true_iff. split; apply Z.leb_le; lia. }
  rewrite CR. cbn [negb andb].
  assert (Z0 : (tspan T =? 0) = false) by (apply Z.eqb_neq; unfold tspan, T; cbn; lia).
  rewrite Z0. unfold di_tr. cbn [di_cur]. unfold T. cbn [t_s t_e].
  rewrite (isearch_spec (d_data q) a Hiq). cbn [rbind].
  assert (NC : contains_stamp (d_tr q) t || (t =? t_e (d_tr q)) = false).
  { apply orb_false_iff. split.
    - unfold contains_stamp. apply andb_false_iff. right. apply Z.ltb_ge. lia.
    - apply Z.eqb_neq. lia. }
  rewrite NC.
  assert (NE : negb (contains_stamp eff t) && negb (t_e eff =? t) = false).
  { unfold eff. cbn [t_s t_e]. destruct (t =? t_e (d_tr qe)) eqn:Q; zb.
    - subst t. rewrite Z.eqb_refl. cbn [negb]. apply andb_false_r.
    - assert (C : contains_stamp (TR (t_s (d_tr q)) (t_e (d_tr qe))) t = true).
      { unfold contains_stamp. cbn [t_s t_e]. apply andb_true_iff. split; [apply Z.leb_le|apply Z.ltb_lt]; lia. }
      rewrite C. reflexivity. }
  rewrite NE.
  rewrite (dist_loop_chain P a t mid L1 q qe L2 (S (length P)) eff).
  - rewrite (isearch_spec (d_data qe) t Hiqe). cbn [rbind].
    eexists. split; [reflexivity|].
    unfold pick_sample_offset, da_exact. cbn [da_lo da_hi da_se da_ee a_lo a_hi].
    rewrite !a_exact_result. unfold run_between, search_result.
    pose proof (cnt_lt_range a (d_data q)) as R1. pose proof (cnt_lt_range t (d_data qe)) as R2.
    pose proof (sum_len_nonneg mid) as SL.
    destruct (mem a (d_data q)), (mem t (d_data qe)); cbn [a_lo a_hi];
      repeat match goal with |- context [?x =? ?y] => destruct (x =? y) eqn:?; zb end;
      cbn [orb]; try lia.
    replace (zlen (d_data q) - cnt_lt a (d_data q) + (0 + sum_len mid) + (cnt_lt t (d_data qe) - 1) +
             (zlen (d_data q) - (cnt_lt a (d_data q) - 1) + (0 + sum_len mid) + cnt_lt t (d_data qe)))
      with (2 * (zlen (d_data q) - cnt_lt a (d_data q) + sum_len mid + cnt_lt t (d_data qe))) by lia.
    rewrite Z.mul_comm. apply Z.quot_mul. lia.
  - reflexivity.
  - intros y Hy. destruct (mid_facts y Hy) as (W & A & B). unfold dwf in W.
    split; [apply ov_mid, Hy|]. split.
    + unfold contains_range, eff. cbn [t_s t_e]. apply andb_true_iff. split; apply Z.leb_le; lia.
    + split; [|lia]. unfold contains_stamp. apply andb_false_iff. right. apply Z.ltb_ge. lia.
  - exact ov_qe.
  - unfold contains_range, eff. cbn [t_s t_e]. apply andb_true_iff. split; apply Z.leb_le; lia.
  - destruct (t =? t_e (d_tr qe)) eqn:Q; [apply orb_true_r|]. zb. rewrite orb_false_r.
    unfold contains_stamp. apply andb_true_iff. split; [apply Z.leb_le|apply Z.ltb_lt]; lia.
  - unfold P. rewrite !app_length. simpl. rewrite app_length. simpl. lia.
Qed.

End Run.

(* ---- the count Distance returns is the count over all index stamps ---- *)
Lemma cnt_lt_app z l1 l2 : cnt_lt z (l1 ++ l2) = cnt_lt z l1 + cnt_lt z l2.
Proof. unfold cnt_lt, zlen. rewrite filter_app, app_length. lia. Qed.

Lemma cnt_lt_all_lt z l : Forall (fun x => x < z) l -> cnt_lt z l = zlen l.
Proof.
  induction 1 as [|x l Hx _ IH]; [reflexivity|]. unfold cnt_lt, zlen in *. simpl.
  destruct (x <? z) eqn:E; zb; [|lia]. simpl length. lia.
Qed.

Lemma cnt_lt_none z l : Forall (fun x => z <= x) l -> cnt_lt z l = 0.
Proof.
  induction 1 as [|x l Hx _ IH]; [reflexivity|]. unfold cnt_lt, zlen in *. simpl.
  destruct (x <? z) eqn:E; zb; [lia|exact IH].
Qed.

Definition all_stamps (l : list dom) : list Z := concat (map d_data l).

Lemma cnt_doms_below z l : Forall iwf l -> (forall d, In d l -> t_e (d_tr d) <= z) ->
  cnt_lt z (all_stamps l) = sum_len l.
Proof.
  intros W H. induction l as [|d l IH]; [reflexivity|].
  unfold all_stamps in *. cbn [map concat]. rewrite cnt_lt_app.
  apply Forall_cons_iff in W. destruct W as [Wd W'].
  rewrite IH by (assumption || (intros; apply H; right; assumption)).
  change (sum_len (d :: l)) with (dlen d + sum_len l). f_equal.
  apply cnt_lt_all_lt. destruct Wd as [_ F]. eapply Forall_impl; [|exact F]. cbn.
  intros x Hx. specialize (H d (or_introl eq_refl)). lia.
Qed.

Lemma cnt_doms_above z l : Forall iwf l -> (forall d, In d l -> z <= t_s (d_tr d)) ->
  cnt_lt z (all_stamps l) = 0.
Proof.
  intros W H. induction l as [|d l IH]; [reflexivity|].
  unfold all_stamps in *. cbn [map concat]. rewrite cnt_lt_app.
  apply Forall_cons_iff in W. destruct W as [Wd W'].
  rewrite IH by (assumption || (intros; apply H; right; assumption)).
  rewrite cnt_lt_none; [lia|]. destruct Wd as [_ F]. eapply Forall_impl; [|exact F]. cbn.
  intros x Hx. specialize (H d (or_introl eq_refl)). lia.
Qed.

Lemma run_between_count L1 q mid qe L2 a t :
  let P := L1 ++ q :: mid ++ qe :: L2 in
  lay P -> Forall iwf P ->
  t_s (d_tr q) <= a < t_e (d_tr q) -> t_s (d_tr qe) < t <= t_e (d_tr qe) ->
  cnt_lt t (all_stamps P) - cnt_lt a (all_stamps P) = run_between mid q qe a t.
Proof.
  intros P HP HW Ha Ht.
  destruct (lay_split L1 q (mid ++ qe :: L2) HP) as (Lpre & Wq & Lrest & Bef & Aft).
  destruct (lay_split mid qe L2 Lrest) as (Lmid & Wqe & L2l & Bmid & Aqe).
  unfold P in HW. apply Forall_app in HW. destruct HW as [W1 HW]. apply Forall_cons_iff in HW. destruct HW as [Wiq HW].
  apply Forall_app in HW. destruct HW as [Wm HW]. apply Forall_cons_iff in HW. destruct HW as [Wiqe W2].
  assert (Hqq : t_e (d_tr q) <= t_s (d_tr qe)) by (apply Aft; apply in_or_app; right; left; reflexivity).
  unfold dwf, dbefore in *.
  unfold P, all_stamps. rewrite !map_app, !concat_app. cbn [map concat]. rewrite !map_app, !concat_app. cbn [map concat].
  rewrite !cnt_lt_app.
  fold (all_stamps L1) (all_stamps mid) (all_stamps L2).
  (* t *)
  rewrite (cnt_doms_below t L1 W1) by (intros d Hd; specialize (Bef d Hd); lia).
  rewrite (cnt_lt_all_lt t (d_data q)) by (destruct Wiq as [_ F]; eapply Forall_impl; [|exact F]; cbn; intros; lia).
  rewrite (cnt_doms_below t mid Wm) by (intros d Hd; specialize (Bmid d Hd); lia).
  rewrite (cnt_doms_above t L2 W2) by (intros d Hd; specialize (Aqe d Hd); lia).
  (* a *)
  rewrite (cnt_doms_below a L1 W1) by (intros d Hd; specialize (Bef d Hd); lia).
  rewrite (cnt_doms_above a mid Wm)
    by (intros d Hd; assert (dbefore q d) by (apply Aft; apply in_or_app; left; exact Hd); unfold dbefore in *; lia).
  rewrite (cnt_lt_none a (d_data qe)) by (destruct Wiqe as [_ F]; eapply Forall_impl; [|exact F]; cbn; intros; lia).
  rewrite (cnt_doms_above a L2 W2) by (intros d Hd; specialize (Aqe d Hd); lia).
  unfold run_between. lia.
Qed.
