(* Cesium/Relay.v — executable model (labelled transition system) of cesium's streaming
   pipeline, for property C20.
   Copies:
     cesium/writer_stream.go  streamWriter.write (exclusion of unauthorized keys, the
                              unconditional push into the relay inlet iff Mode.Stream()),
                              idxWriter.write (index unauthorized => whole group held back),
                              idxWriter.validateWrite (a group is written whole or not at all),
                              virtualWriter.write (keys the writer does not hold are skipped,
                              i.e. stay in the relayed frame)
     cesium/internal/control  region.open/release/update + Gate.Authorize, through the
                              invariant "curr = highest authority, earliest position";
                              virtual channels are ConcurrencyShared (authority >= curr's),
                              unary channels ConcurrencyExclusive (gate == curr)
     cesium/relay.go          openRelay (buffered inlet = FIFO of capacity BufferSize),
                              connect (rendezvous), disconnect (drain + rendezvous)
     x/go/confluence/delta.go DynamicDeltaMultiplier.Flow: one frame at a time, to every
                              connected inlet in connection order; SendToEachWithTimeout
                              drops for an inlet only when its consumer is not ready
     cesium/streamer.go       streamer.Flow: select { request -> replace key set;
                              frame -> KeepKeys(current set), forward if non-empty }
     cesium/db.go             DB.Close: cancels the relay; frames left in the inlet are
                              never delivered; writers keep pushing into the dead inlet.
   Ghost fields (st_hist, f_orig, f_unauth, s_everpaused, s_inbox) record history
   for the theorems; they do not influence any step.
   No proofs in this file. *)
From stdpp Require Import base list numbers.
From Coq Require Import NArith Bool List.
Import ListNotations.
Local Open Scope N_scope.

Inductive wmode := PS | SO | PO.          (* persist+stream | stream-only | persist-only *)
Inductive ckind := KV | KI | KD (idx : N). (* virtual | index | data indexed by idx *)

Global Instance wmode_eq_dec : EqDecision wmode. Proof. solve_decision. Defined.
Global Instance ckind_eq_dec : EqDecision ckind. Proof. solve_decision. Defined.

Definition streams (m : wmode) : bool := match m with PO => false | _ => true end.

Record writer := Writer {
  w_open : bool;            (* false once closed (ids are never reused) *)
  w_mode : wmode;
  w_chans : list (N * N);   (* channel key, authority *)
  w_pos : N;                (* open order: position of its gates *)
  w_seq : N                 (* number of Write calls so far *)
}.
Global Instance writer_eq_dec : EqDecision writer. Proof. solve_decision. Defined.

Record frame := Frame {
  f_w : N; f_seq : N;
  f_keys : list N;          (* keys relayed: written keys minus the unauthorized ones *)
  f_orig : list N;          (* ghost: keys as written *)
  f_unauth : list N         (* ghost: keys the writer was not authorized on at the write *)
}.
Global Instance frame_eq_dec : EqDecision frame. Proof. solve_decision. Defined.

Record item := Item {
  i_w : N; i_seq : N;
  i_keys : list N           (* keys of the frame handed to the consumer *)
}.
Global Instance item_eq_dec : EqDecision item. Proof. solve_decision. Defined.

Record streamer := Streamer {
  s_conn : bool;                 (* inlet registered in the relay's delta *)
  s_keys : list N;               (* current key set *)
  s_pend : list (list N);        (* re-subscribe requests queued on its inlet *)
  s_closing : bool;              (* its inlet has been closed *)
  s_ready : bool;                (* consumer drains the outlet *)
  s_everpaused : bool;           (* ghost: consumer was not ready at some point *)
  s_inbox : list item            (* ghost: what the consumer received, in order *)
}.
Global Instance streamer_eq_dec : EqDecision streamer. Proof. solve_decision. Defined.

Record state := State {
  st_unowned : bool;                 (* true = behaviour of the pinned upstream tree: a series for a
                                        channel the writer never opened is relayed; false = /repo
                                        after the fix: it is held back *)
  st_deadinlet : bool;               (* true = pinned upstream tree: after DB.Close writers keep sending
                                        into the relay inlet nobody drains; false = /repo after the
                                        fix: frames written after DB.Close are dropped *)
  st_chans : list (N * ckind);
  st_cap : nat;                      (* relay inlet capacity (BufferSize) *)
  st_writers : list (N * writer);    (* writers, closed ones included (ids are never reused) *)
  st_bg : list (N * list (list N));  (* writers driven by a background goroutine: the frames
                                        (key lists) it still has to write, in order *)
  st_npos : N;
  st_fifo : list frame;              (* relay inlet, head first *)
  st_strs : list (N * streamer);     (* streamers, in connection order *)
  st_closed : bool;
  st_hist : list frame               (* ghost: every frame ever pushed, in push order *)
}.
Global Instance state_eq_dec : EqDecision state. Proof. solve_decision. Defined.

Definition init_gen (unowned deadinlet : bool) (chans : list (N * ckind)) (cap : nat) : state :=
  State unowned deadinlet chans cap [] [] 0 [] [] false [].
Definition init := init_gen false false.

(* boolean equality, cheap under vm_compute: [andb]/[existsb] evaluate both arguments under
   call-by-value, so conjunctions are written with [if] (lazy) and the most discriminating
   fields come first *)
Notation "a &&& b" := (if a then b else false) (at level 40, left associativity).
Fixpoint list_eqb {A} (e : A -> A -> bool) (a b : list A) : bool :=
  match a, b with
  | [], [] => true
  | x :: a', y :: b' => e x y &&& list_eqb e a' b'
  | _, _ => false
  end.
Definition keys_eqb : list N -> list N -> bool := list_eqb N.eqb.
Definition wmode_eqb (a b : wmode) : bool :=
  match a, b with PS, PS | SO, SO | PO, PO => true | _, _ => false end.
Definition ckind_eqb (a b : ckind) : bool :=
  match a, b with KV, KV | KI, KI => true | KD i, KD j => i =? j | _, _ => false end.
Definition frame_eqb (a b : frame) : bool :=
  (f_w a =? f_w b) &&& (f_seq a =? f_seq b) &&& keys_eqb (f_keys a) (f_keys b) &&&
  keys_eqb (f_orig a) (f_orig b) &&& keys_eqb (f_unauth a) (f_unauth b).
Definition item_eqb (a b : item) : bool :=
  (i_w a =? i_w b) &&& (i_seq a =? i_seq b) &&& keys_eqb (i_keys a) (i_keys b).
Definition streamer_eqb (a b : streamer) : bool :=
  Bool.eqb (s_conn a) (s_conn b) &&& (length (s_inbox a) =? length (s_inbox b))%nat &&&
  keys_eqb (s_keys a) (s_keys b) &&&
  list_eqb keys_eqb (s_pend a) (s_pend b) &&&
  Bool.eqb (s_closing a) (s_closing b) &&& Bool.eqb (s_ready a) (s_ready b) &&&
  Bool.eqb (s_everpaused a) (s_everpaused b) &&&
  list_eqb item_eqb (s_inbox a) (s_inbox b).
Definition writer_eqb (a b : writer) : bool :=
  Bool.eqb (w_open a) (w_open b) &&& wmode_eqb (w_mode a) (w_mode b) &&&
  list_eqb (fun x y => (x.1 =? y.1) &&& (x.2 =? y.2)) (w_chans a) (w_chans b) &&&
  (w_pos a =? w_pos b) &&& (w_seq a =? w_seq b).
Definition state_eqb (a b : state) : bool :=
  (length (st_fifo a) =? length (st_fifo b))%nat &&&
  list_eqb (fun x y => (x.1 =? y.1) &&& streamer_eqb x.2 y.2) (st_strs a) (st_strs b) &&&
  list_eqb frame_eqb (st_fifo a) (st_fifo b) &&& Bool.eqb (st_closed a) (st_closed b) &&&
  list_eqb (fun x y => (x.1 =? y.1) &&& writer_eqb x.2 y.2) (st_writers a) (st_writers b) &&&
  list_eqb (fun x y => (x.1 =? y.1) &&& list_eqb keys_eqb x.2 y.2) (st_bg a) (st_bg b) &&&
  (st_npos a =? st_npos b) &&& (st_cap a =? st_cap b)%nat &&& Bool.eqb (st_unowned a) (st_unowned b) &&& Bool.eqb (st_deadinlet a) (st_deadinlet b) &&&
  list_eqb (fun x y => (x.1 =? y.1) &&& ckind_eqb x.2 y.2) (st_chans a) (st_chans b) &&&
  list_eqb frame_eqb (st_hist a) (st_hist b).
Fixpoint inb (st : state) (sts : list state) : bool :=
  match sts with
  | [] => false
  | x :: r => if state_eqb st x then true else inb st r
  end.
Fixpoint dedup (sts : list state) : list state :=
  match sts with
  | [] => []
  | x :: r => if inb x r then dedup r else x :: dedup r
  end.

(* ---- association lists *)
Fixpoint alookup {A} (k : N) (l : list (N * A)) : option A :=
  match l with
  | [] => None
  | (k', v) :: r => if k =? k' then Some v else alookup k r
  end.
Fixpoint aremove {A} (k : N) (l : list (N * A)) : list (N * A) :=
  match l with
  | [] => []
  | (k', v) :: r => if k =? k' then aremove k r else (k', v) :: aremove k r
  end.
Fixpoint aupdate {A} (k : N) (f : A -> A) (l : list (N * A)) : list (N * A) :=
  match l with
  | [] => []
  | (k', v) :: r => if k =? k' then (k', f v) :: r else (k', v) :: aupdate k f r
  end.
Definition memN (k : N) (l : list N) : bool := existsb (N.eqb k) l.
Fixpoint countN (k : N) (l : list N) : nat :=
  match l with [] => O | x :: r => ((if N.eqb k x then 1 else 0) + countN k r)%nat end.
Fixpoint nodupN (l : list N) : bool :=
  match l with [] => true | x :: r => negb (memN x r) && nodupN r end.

(* ---- record updates *)
Definition set_writers (st : state) (ws : list (N * writer)) : state :=
  State (st_unowned st) (st_deadinlet st) (st_chans st) (st_cap st) ws (st_bg st) (st_npos st) (st_fifo st) (st_strs st) (st_closed st) (st_hist st).
Definition set_strs (st : state) (ss : list (N * streamer)) : state :=
  State (st_unowned st) (st_deadinlet st) (st_chans st) (st_cap st) (st_writers st) (st_bg st) (st_npos st) (st_fifo st) ss (st_closed st) (st_hist st).
Definition set_fifo (st : state) (q : list frame) : state :=
  State (st_unowned st) (st_deadinlet st) (st_chans st) (st_cap st) (st_writers st) (st_bg st) (st_npos st) q (st_strs st) (st_closed st) (st_hist st).
Definition set_bg (st : state) (bg : list (N * list (list N))) : state :=
  State (st_unowned st) (st_deadinlet st) (st_chans st) (st_cap st) (st_writers st) bg (st_npos st) (st_fifo st)
        (st_strs st) (st_closed st) (st_hist st).
Definition bg_active (st : state) (w : N) : bool :=
  match alookup w (st_bg st) with Some _ => true | None => false end.
Definition upd_str (st : state) (s : N) (f : streamer -> streamer) : state :=
  set_strs st (aupdate s f (st_strs st)).

(* ---- control: who is authorized on a channel *)
Definition kind_of (st : state) (k : N) : option ckind := alookup k (st_chans st).
Definition owned (wr : writer) (k : N) : bool :=
  match alookup k (w_chans wr) with Some _ => true | None => false end.
Definition auth_of (wr : writer) (k : N) : N := default 0 (alookup k (w_chans wr)).

(* gates on channel k: (writer, authority, position) *)
Definition gates (ws : list (N * writer)) (k : N) : list (N * N * N) :=
  flat_map (fun '(w, wr) => if w_open wr && owned wr k then [(w, auth_of wr k, w_pos wr)] else []) ws.
Definition better (a b : N * N * N) : bool :=   (* region.shouldBeInControl *)
  let '(_, aa, ap) := a in let '(_, ba, bp) := b in (ba <? aa) || ((aa =? ba) && (ap <? bp)).
Fixpoint best (gs : list (N * N * N)) : option (N * N * N) :=
  match gs with
  | [] => None
  | g :: r => match best r with
              | None => Some g
              | Some h => if better h g then Some h else Some g
              end
  end.
Definition authorized (st : state) (w : N) (wr : writer) (k : N) : bool :=
  match best (gates (st_writers st) k) with
  | None => false
  | Some (cw, ca, _) =>
      match kind_of st k with
      | Some KV => ca <=? auth_of wr k      (* ConcurrencyShared: authority >= curr's *)
      | _ => w =? cw                        (* ConcurrencyExclusive: gate == curr *)
      end
  end.
(* key k of a frame with keys ks is held back from the relay *)
Definition excluded (st : state) (w : N) (wr : writer) (ks : list N) (k : N) : bool :=
  owned wr k &&
  (negb (authorized st w wr k) ||
   match kind_of st k with
   | Some (KD i) => memN i ks && owned wr i && negb (authorized st w wr i)
   | _ => false
   end).
Definition unauth_keys (st : state) (w : N) (wr : writer) (ks : list N) : list N :=
  filter (fun k => excluded st w wr ks k) ks.
(* keys that reach the relay: not excluded, and (after the fix) held by the writer *)
Definition relayed (st : state) (w : N) (wr : writer) (ks : list N) (k : N) : bool :=
  negb (excluded st w wr ks k) && (st_unowned st || owned wr k).
Definition relayed_keys (st : state) (w : N) (wr : writer) (ks : list N) : list N :=
  filter (relayed st w wr ks) ks.

Definition group_of (st : state) (k : N) : option N :=
  match kind_of st k with
  | Some KI => Some k
  | Some (KD i) => Some i
  | _ => None
  end.
(* idxWriter.validateWrite: each touched index group is written whole, one series each *)
Definition valid_frame (st : state) (wr : writer) (ks : list N) : bool :=
  forallb (fun k =>
    match group_of st k with
    | Some g =>
        negb (owned wr k) ||
        forallb (fun ca => negb (bool_decide (group_of st ca.1 = Some g)) || Nat.eqb (countN ca.1 ks) 1)
                (w_chans wr)
    | None => true
    end) ks.

(* ---- visible operations (driver script) and hidden steps *)
Inductive op :=
| OpenW (w : N) (m : wmode) (chans auths : list N)
| CloseW (w : N)
| SetAuth (w a : N)
| Write (w : N) (keys : list N) (bad : bool)
| OpenS (s : N) (keys : list N)
| Resub (s : N) (keys : list N)
| CloseS (s : N)
| Pause (s : N)
| Resume (s : N)
| Sync
| CloseDB
| BgWrites (w : N) (kss : list (list N))   (* a goroutine starts writing these frames with w *)
| Join (w : N).                             (* wait until it is done *)
Global Instance op_eq_dec : EqDecision op. Proof. solve_decision. Defined.

(* the driver waits inside close_streamer until the streamer's outlet is closed *)
Definition driver_blocked (st : state) : bool :=
  negb (st_closed st) &&
  existsb (fun ss => s_closing ss.2 && s_conn ss.2) (st_strs st).

Fixpoint zip_auths (chans auths : list N) : option (list (N * N)) :=
  match chans, auths with
  | [], [] => Some []
  | c :: cr, a :: ar => match zip_auths cr ar with Some l => Some ((c, a) :: l) | None => None end
  | _, _ => None
  end.
Definition chan_auths (chans auths : list N) : option (list (N * N)) :=
  match auths with
  | [a] => Some (map (fun c => (c, a)) chans)
  | _ => zip_auths chans auths
  end.

Definition open_writer_ok (st : state) (w : N) (chans auths : list N) : option (list (N * N)) :=
  if st_closed st then None else
  match chans with
  | [] => None
  | _ =>
    if forallb (fun c => match kind_of st c with Some _ => true | None => false end) chans
       && nodupN chans
    then chan_auths chans auths else None
  end.

Definition close_writer (st : state) (w : N) : state :=
  set_writers st (aupdate w (fun wr => Writer false (w_mode wr) (w_chans wr) (w_pos wr) (w_seq wr))
                          (st_writers st)).
Definition open_writer_of (st : state) (w : N) : option writer :=
  match alookup w (st_writers st) with
  | Some wr => if w_open wr then Some wr else None
  | None => None
  end.
(* the harness makes a write malformed (wrong data type) only on a held virtual channel *)
Definition bad_hits (st : state) (wr : writer) (ks : list N) (bad : bool) : bool :=
  bad && match ks with
         | k :: _ => owned wr k && bool_decide (kind_of st k = Some KV)
         | [] => false
         end.

Definition new_streamer (ks : list N) : streamer := Streamer true ks [] false true false [].

Definition sync_ready (st : state) : bool :=
  match st_fifo st with [] => true | _ => false end &&
  forallb (fun ss => negb (s_conn ss.2 && s_ready ss.2 && negb (s_closing ss.2)) ||
                     match s_pend ss.2 with [] => true | _ => false end) (st_strs st).

(* streamer.Flow on one frame: KeepKeys(current set), forward if non-empty *)
Definition keep (f : frame) (ks : list N) : list N := filter (fun k => memN k ks) (f_keys f).
Definition hand (f : frame) (s : streamer) : streamer :=
  let kk := keep f (s_keys s) in
  Streamer (s_conn s) (s_keys s) (s_pend s) (s_closing s) (s_ready s) (s_everpaused s)
           (match kk with [] => s_inbox s | _ => s_inbox s ++ [Item (f_w f) (f_seq f) kk] end).
Definition drop (f : frame) (s : streamer) : streamer := s.

(* all outcomes of sending f to every connected streamer, in connection order *)
Fixpoint deliver_all (f : frame) (ss : list (N * streamer)) : list (list (N * streamer)) :=
  match ss with
  | [] => [[]]
  | (k, s) :: r =>
      let rs := deliver_all f r in
      if s_conn s then
        map (cons (k, hand f s)) rs ++
        (if s_ready s then [] else map (cons (k, drop f s)) rs)
      else map (cons (k, s)) rs
  end.
(* outcomes of a send interrupted by the relay's cancellation: a prefix (in connection
   order) of the streamers served, the others not *)
Fixpoint deliver_prefix (f : frame) (ss : list (N * streamer)) : list (list (N * streamer)) :=
  match ss with
  | [] => [[]]
  | (k, s) :: r =>
      [ (k, s) :: r ] ++
      (if s_conn s then
         map (cons (k, hand f s)) (deliver_prefix f r) ++
         (if s_ready s then [] else map (cons (k, drop f s)) (deliver_prefix f r))
       else map (cons (k, s)) (deliver_prefix f r))
  end.

(* streamWriter.write for one frame of writer w (record wr) *)
Definition do_write (st : state) (w : N) (wr : writer) (ks : list N) (bad : bool) : list state :=
  if bad_hits st wr ks bad || negb (valid_frame st wr ks) then [close_writer st w] else
  let seq := w_seq wr + 1 in
  let st1 := set_writers st (aupdate w (fun wr => Writer (w_open wr) (w_mode wr) (w_chans wr) (w_pos wr) seq)
                                     (st_writers st)) in
  if streams (w_mode wr) && negb (st_closed st && negb (st_deadinlet st)) then
    (* open DB: [st_cap] frames in the inlet buffer plus the one the relay goroutine
       holds while it sends it to the streamers; closed DB: the buffer only *)
    if (if st_closed st then (length (st_fifo st) <? st_cap st)%nat
        else (length (st_fifo st) <=? st_cap st)%nat) then
      let f := Frame w seq (relayed_keys st w wr ks) ks (unauth_keys st w wr ks) in
      [State (st_unowned st1) (st_deadinlet st1) (st_chans st1) (st_cap st1) (st_writers st1) (st_bg st1) (st_npos st1) (st_fifo st1 ++ [f])
             (st_strs st1) (st_closed st1) (st_hist st1 ++ [f])]
    else []      (* the send into the full inlet blocks *)
  else [st1].

Definition vstep (st : state) (o : op) : list state :=
  if driver_blocked st then [] else
  match o with
  | OpenW w m chans auths =>
      match alookup w (st_writers st), open_writer_ok st w chans auths with
      | None, Some ca =>
          [State (st_unowned st) (st_deadinlet st) (st_chans st) (st_cap st) (st_writers st ++ [(w, Writer true m ca (st_npos st) 0)]) (st_bg st)
                 (st_npos st + 1) (st_fifo st) (st_strs st) (st_closed st) (st_hist st)]
      | _, _ => [st]
      end
  | CloseW w => if bg_active st w then [st] else [close_writer st w]
  | SetAuth w a =>
      if bg_active st w then [st] else
      [set_writers st (aupdate w (fun wr => Writer (w_open wr) (w_mode wr) (map (fun ca => (ca.1, a)) (w_chans wr))
                                                   (w_pos wr) (w_seq wr)) (st_writers st))]
  | Write w ks bad =>
      match open_writer_of st w with
      | None => [st]
      | Some wr => if bg_active st w then [st] else do_write st w wr ks bad
      end
  | OpenS s ks =>
      if st_closed st then [st] else
      match alookup s (st_strs st) with
      | Some _ => [st]
      | None => [set_strs st (st_strs st ++ [(s, new_streamer ks)])]
      end
  | Resub s ks =>
      if st_closed st then [st] else
      [upd_str st s (fun x => if s_closing x then x else
         Streamer (s_conn x) (s_keys x) (s_pend x ++ [ks]) (s_closing x) (s_ready x) (s_everpaused x)
                  (s_inbox x))]
  | CloseS s =>
      if st_closed st then [st] else
      [upd_str st s (fun x =>
         Streamer (s_conn x) (s_keys x) (s_pend x) true true (s_everpaused x) (s_inbox x))]
  | Pause s =>
      if st_closed st then [st] else
      [upd_str st s (fun x => if s_closing x then x else
         Streamer (s_conn x) (s_keys x) (s_pend x) (s_closing x) false true (s_inbox x))]
  | Resume s =>
      if st_closed st then [st] else
      [upd_str st s (fun x => if s_closing x then x else
         Streamer (s_conn x) (s_keys x) (s_pend x) (s_closing x) true (s_everpaused x) (s_inbox x))]
  | Sync => if st_closed st then [st] else if sync_ready st then [st] else []
  | CloseDB =>
      if st_closed st then [st] else
      let stc := State (st_unowned st) (st_deadinlet st) (st_chans st) (st_cap st) (st_writers st) (st_bg st) (st_npos st) (st_fifo st) (st_strs st)
                       true (st_hist st) in
      (if (length (st_fifo st) <=? st_cap st)%nat then [stc] else []) ++
             match st_fifo st with
             | [] => []
             | f :: q => map (fun ss => set_fifo (set_strs stc ss) q) (deliver_prefix f (st_strs st))
             end
  | BgWrites w kss =>
      match open_writer_of st w with
      | None => [st]
      | Some _ => if bg_active st w then [st] else [set_bg st (st_bg st ++ [(w, kss)])]
      end
  | Join w =>
      match alookup w (st_bg st) with
      | None => [st]
      | Some [] => [set_bg st (aremove w (st_bg st))]
      | Some (_ :: _) => []        (* the goroutine has not finished *)
      end
  end.

(* hidden steps: relay delivers the head frame; a streamer applies a queued request;
   a closing streamer disconnects *)
Definition deliver_succs (st : state) : list state :=
  if st_closed st then [] else
  match st_fifo st with
  | [] => []
  | f :: q => map (fun ss => set_fifo (set_strs st ss) q) (deliver_all f (st_strs st))
  end.
Definition apply_req (x : streamer) : streamer :=
  match s_pend x with
  | [] => x
  | ks :: r => Streamer (s_conn x) ks r (s_closing x) (s_ready x) (s_everpaused x) (s_inbox x)
  end.
Definition can_apply (st : state) (x : streamer) : bool :=
  negb (st_closed st) && s_conn x && match s_pend x with [] => false | _ => true end.
Definition disconnect (x : streamer) : streamer :=
  Streamer false (s_keys x) (s_pend x) (s_closing x) (s_ready x) (s_everpaused x) (s_inbox x).
Definition can_disc (st : state) (x : streamer) : bool :=
  negb (st_closed st) && s_conn x && s_closing x && match s_pend x with [] => true | _ => false end.
Definition apply_succs (st : state) : list state :=
  flat_map (fun ss => match alookup ss.1 (st_strs st) with
                      | Some x => if can_apply st x then [upd_str st ss.1 apply_req] else []
                      | None => []
                      end) (st_strs st).
Definition disc_succs (st : state) : list state :=
  flat_map (fun ss => match alookup ss.1 (st_strs st) with
                      | Some x => if can_disc st x then [upd_str st ss.1 disconnect] else []
                      | None => []
                      end) (st_strs st).
(* the background goroutine of writer w performs its next Write (nothing if w is closed) *)
Definition bg_succs (st : state) : list state :=
  flat_map (fun e => match alookup e.1 (st_bg st) with
                     | Some (ks :: rest) =>
                         let st0 := set_bg st (aupdate e.1 (fun _ => rest) (st_bg st)) in
                         match open_writer_of st e.1 with
                         | None => [st0]
                         | Some wr => do_write st0 e.1 wr ks false
                         end
                     | _ => []
                     end) (st_bg st).
Definition hsucc (st : state) : list state :=
  deliver_succs st ++ apply_succs st ++ disc_succs st ++ bg_succs st.

(* the LTS: a step is a hidden step or a visible step labelled by a driver operation *)
Inductive label := Tau | Vis (o : op).
Definition lstep (st : state) (l : label) (st' : state) : Prop :=
  match l with
  | Tau => In st' (hsucc st)
  | Vis o => In st' (vstep st o)
  end.
Inductive run : state -> list label -> state -> Prop :=
| run_nil st : run st [] st
| run_cons st l st1 ls st2 : lstep st l st1 -> run st1 ls st2 -> run st (l :: ls) st2.
Definition reachable (chans : list (N * ckind)) (cap : nat) (st : state) : Prop :=
  exists ls, run (init chans cap) ls st.
Fixpoint visible (ls : list label) : list op :=
  match ls with
  | [] => []
  | Tau :: r => visible r
  | Vis o :: r => o :: visible r
  end.

(* ---- observations and the trace-inclusion checker *)
Definition obs_item : Type := N * N * list N.
Definition proj_item (i : item) : obs_item := (i_w i, i_seq i, i_keys i).
Definition observation : Type := list (N * list obs_item).
Definition observe (st : state) : observation :=
  map (fun ss => (ss.1, map proj_item (s_inbox ss.2))) (st_strs st).

Definition oitem_eqb (x y : obs_item) : bool :=
  (x.1.1 =? y.1.1) &&& (x.1.2 =? y.1.2) &&& list_eqb N.eqb x.2 y.2.
Fixpoint is_prefix (a b : list obs_item) : bool :=
  match a, b with
  | [], _ => true
  | x :: a', y :: b' => oitem_eqb x y &&& is_prefix a' b'
  | _ :: _, [] => false
  end.
Definition compat (obs : observation) (st : state) : bool :=
  forallb (fun ss => is_prefix (map proj_item (s_inbox ss.2)) (default [] (alookup ss.1 obs))) (st_strs st).

(* hidden-step measure: bounds the depth of hidden-step sequences *)
Definition measure (st : state) : nat :=
  (length (st_fifo st) + 2 * list_sum (map (fun e => length e.2) (st_bg st)) +
   list_sum (map (fun ss => length (s_pend ss.2) + (if s_conn ss.2 then 1 else 0)) (st_strs st)))%nat.

(* The checker works on states whose ghost history of pushed frames is erased: the history
   influences no step, but it records the order of pushes, which would keep apart hidden
   states that can never be told apart again. The same holds for what is left in the relay
   inlet once the database is closed. *)
Definition erase (st : state) : state :=
  State (st_unowned st) (st_deadinlet st) (st_chans st) (st_cap st) (st_writers st) (st_bg st) (st_npos st)
        (* once the DB is closed (and writers no longer push into the dead inlet) the
           content of the inlet is never looked at again *)
        (if st_closed st && negb (st_deadinlet st) then [] else st_fifo st)
        (st_strs st) (st_closed st) [].
Definition hsucc_e (st : state) : list state := map erase (hsucc st).
Definition vstep_e (st : state) (o : op) : list state := map erase (vstep st o).

(* breadth-first closure under compatible hidden steps: [seen] includes [frontier], and
   every compatible hidden successor of a seen state outside the frontier is seen *)
Fixpoint bfs (fuel : nat) (obs : observation) (seen frontier : list state) : list state :=
  match fuel with
  | O => seen
  | S n =>
      let cand := filter (compat obs) (flat_map hsucc_e frontier) in
      let new := dedup (filter (fun st => negb (inb st seen)) cand) in
      bfs n obs (seen ++ new) new
  end.
Definition max_measure (sts : list state) : nat := fold_right Nat.max O (map measure sts).
Definition closure (obs : observation) (sts : list state) : list state :=
  let s0 := dedup (filter (compat obs) sts) in
  bfs (max_measure s0) obs s0 s0.

Definition after_op (obs : observation) (sts : list state) (o : op) : list state :=
  closure obs (flat_map (fun st => vstep_e st o) sts).
Definition states_after (chans : list (N * ckind)) (cap : nat) (script : list op)
           (obs : observation) : list state :=
  fold_left (after_op obs) script (closure obs [init chans cap]).
Definition obs_eqb (a b : observation) : bool :=
  list_eqb (fun x y => (x.1 =? y.1) &&& list_eqb oitem_eqb x.2 y.2) a b.
Definition final_ok (obs : observation) (st : state) : bool :=
  negb (driver_blocked st) &&& obs_eqb (observe st) obs.
Definition accepts (chans : list (N * ckind)) (cap : nat) (script : list op)
           (obs : observation) : bool :=
  existsb (final_ok obs) (states_after chans cap script obs).

(* ---- deterministic outcome of a driver operation (same in every state of the set) *)
Inductive outcome := OOk (flag : bool) | OSkip | OErr.
Global Instance outcome_eq_dec : EqDecision outcome. Proof. solve_decision. Defined.
Definition op_outcome (st : state) (o : op) : outcome :=
  match o with
  | OpenW w m chans auths =>
      match alookup w (st_writers st) with
      | Some _ => OSkip
      | None => match open_writer_ok st w chans auths with Some _ => OOk false | None => OErr end
      end
  | CloseW w | SetAuth w _ =>
      match open_writer_of st w with Some _ => if bg_active st w then OSkip else OOk false | None => OSkip end
  | BgWrites w _ =>
      match open_writer_of st w with Some _ => if bg_active st w then OSkip else OOk false | None => OSkip end
  | Join w => if bg_active st w then OOk false else OSkip
  | Write w ks bad =>
      match open_writer_of st w with
      | None => OSkip
      | Some wr => if bg_active st w then OSkip else if bad_hits st wr ks bad || negb (valid_frame st wr ks) then OErr
                   else OOk (match unauth_keys st w wr ks with [] => true | _ => false end)
      end
  | OpenS s _ =>
      match alookup s (st_strs st) with
      | Some _ => OSkip
      | None => if st_closed st then OErr else OOk false
      end
  | Resub s _ | Pause s | Resume s =>
      match alookup s (st_strs st) with
      | Some x => if s_closing x || st_closed st then OSkip else OOk false
      | None => OSkip
      end
  | CloseS s =>
      match alookup s (st_strs st) with
      | Some x => if s_closing x || st_closed st then OSkip else OOk true
      | None => OSkip
      end
  | Sync => OOk false
  | CloseDB => if st_closed st then OSkip else OOk false
  end.
