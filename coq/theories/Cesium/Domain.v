(* Cesium/Domain.v — executable model of /repo/cesium/internal/domain
   (index.go, writer.go, delete.go, iterator.go, the writer pool of file_controller.go).
   Model only: no proofs here (DomainProofs*.v).

   What is copied, function by function (quirks included):
     index.unprotectedSearch / insert (afterLast, beforeFirst fast paths) / update (neighbour
     check, "inconceivable" branches, the out-of-range index that panics) / searchLE /
     searchGE / getGE / overlap / timeRange;
     DB.OpenWriter (WriterConfig.Domain, overlap check, End resolution), Writer.Write,
     Writer.commit (preset-end bound, resolveCommitEnd with the file-size rollover,
     validateCommitRange, insert-vs-update by prevCommit = 0, file switch), Writer.Close;
     DB.Delete (start/end domain search, validateDelete, pointer split) with the offset
     resolvers as parameters;
     Iterator.SeekFirst/SeekGE/SeekLE/Next/reload (what a user can enumerate).

   Conventions: time stamps are [Z] (Go int64; see Common/Telem.v), index positions are [Z]
   (Go int, with the -1 sentinel), sizes and offsets are [N]; the uint32 casts of
   writer.go / delete.go are written explicitly ([u32]).

   Simplifications (stated, not hidden):
   - a DB that starts on an empty FS; a restart ([Reopen]) reloads the in-memory index
     unchanged and leaves no file in use (writers.open / writers.unopened are not told
     apart: both hold files that are not in use and acquirable below the nominal size);
     descriptor-limit paths (gcWriters/gcReaders, blocking on release) and GarbageCollect
     are not modelled;
   - Go's map iteration order in acquireWriter is an explicit oracle argument ([key]) of
     the operations that acquire a file;
   - uint16(counter) file keys are not reduced mod 2^16 (fewer than 65536 files);
   - index persistence (indexPersist) and the persist timing are not modelled (C02);
   - histories are sequential except for [DeleteC]: writer operations that run while
     DB.Delete executes its offset resolvers (the window the "repêchage" exists for). *)
From stdpp Require Import gmap.
From Coq Require Import ZArith NArith List Bool.
From Synnax Require Import Common.Telem.
Import ListNotations.
Local Open Scope Z_scope.

(* ------------------------------------------------------------------ errors / results *)
(* error classes as the harness canonicalises them:
   EConflict   errors.Is(err, domain.ErrWriteConflict)  (wraps validate.ErrValidation)
   EValidation errors.Is(err, validate.ErrValidation) otherwise
   ENotFound   errors.Is(err, query.ErrNotFound)        (ErrRangeNotFound)
   EClosed     errors.Is(err, resource.ErrClosed)
   EOther      any other error
   EPanic      the call panicked (index out of range in index.update) *)
Inductive err := EConflict | EValidation | ENotFound | EClosed | EOther | EPanic.
(* RBadOp: the script addresses a writer id that does not exist / already exists; the
   harness performs no call. *)
Inductive res := ROk | RErr (e : err) | RBadOp.

Definition is_validation (r : res) : bool :=
  match r with RErr EConflict | RErr EValidation => true | _ => false end.
Definition is_ok (r : res) : bool := match r with ROk => true | _ => false end.

(* ------------------------------------------------------------------ pointers *)
(* type pointer struct { telem.TimeRange; fileKey uint16; offset uint32; size uint32 } *)
Record pointer : Type := mkPtr { p_tr : TimeRange; p_file : N; p_off : N; p_size : N }.
Definition p_start (p : pointer) : Z := tr_start (p_tr p).
Definition p_end (p : pointer) : Z := tr_end (p_tr p).

Definition u32 (n : N) : N := (n mod 2 ^ 32)%N.
(* uint32(x) of an int64 x (telem.Size) *)
Definition u32z (z : Z) : N := Z.to_N (z mod 2 ^ 32).
(* a - b in uint32 arithmetic *)
Definition u32_sub (a b : N) : N := ((a + 2 ^ 32 - u32 b) mod 2 ^ 32)%N.

Definition zlen {A} (l : list A) : Z := Z.of_nat (length l).
(* ps[i] for a Go int index; None = index out of range (a run-time panic in Go) *)
Definition getp {A} (ps : list A) (i : Z) : option A :=
  if i <? 0 then None else nth_error ps (Z.to_nat i).

(* ------------------------------------------------------------------ index.go *)
(* func (idx *index) unprotectedSearch(tr) (int, bool): binary search for a pointer
   overlapping tr; (position, true) if found, else (end, false) where end is the last
   position whose start is <= tr.Start (or -1).  [fuel] = len + 1 iterations suffice. *)
Fixpoint usearch_loop (fuel : nat) (ps : list pointer) (tr : TimeRange) (lo hi : Z) : Z * bool :=
  match fuel with
  | O => (hi, false)
  | S f =>
      if lo <=? hi then
        let mid := (lo + hi) / 2 in
        match getp ps mid with
        | None => (hi, false)
        | Some ptr =>
            if overlaps_with (p_tr ptr) tr then (mid, true)
            else if tr_start tr <? p_start ptr then usearch_loop f ps tr lo (mid - 1)
            else usearch_loop f ps tr (mid + 1) hi
        end
      else (hi, false)
  end.

Definition usearch (ps : list pointer) (tr : TimeRange) : Z * bool :=
  match ps with
  | [] => (-1, false)
  | _ => usearch_loop (S (length ps)) ps tr 0 (zlen ps - 1)
  end.

(* afterLast / beforeFirst (only called with a non-empty index) *)
Definition after_last (ps : list pointer) (ts : Z) : bool :=
  match getp ps (zlen ps - 1) with Some l => p_end l <? ts | None => false end.
Definition before_first (ps : list pointer) (ts : Z) : bool :=
  match ps with f :: _ => ts <? p_start f | [] => false end.

Definition insert_at {A} (ps : list A) (k : Z) (p : A) : list A :=
  firstn (Z.to_nat k) ps ++ p :: skipn (Z.to_nat k) ps.
Definition replace_at {A} (ps : list A) (k : Z) (p : A) : list A :=
  firstn (Z.to_nat k) ps ++ p :: skipn (S (Z.to_nat k)) ps.

(* func (idx *index) insert(ctx, p, persist) error *)
Definition insert (ps : list pointer) (p : pointer) : list pointer + err :=
  if (p_file p =? 0)%N then inr EOther
  else
    let at_ : option Z :=
      match ps with
      | [] => Some 0
      | _ =>
          if after_last ps (p_start p) then Some (zlen ps)
          else if negb (before_first ps (p_end p)) then
            let '(i, overlap) := usearch ps (p_tr p) in
            if overlap then None else Some (i + 1)
          else Some 0
      end in
    match at_ with
    | None => inr EConflict
    | Some k => inl (insert_at ps k p)
    end.

(* func (idx *index) update(ctx, p, persist) error *)
Definition update (ps : list pointer) (p : pointer) : list pointer + err :=
  match ps with
  | [] => inr ENotFound                       (* "cannot update a database with no domains" *)
  | _ =>
      let lastI := zlen ps - 1 in
      let updateAt :=
        match getp ps lastI with
        | Some l => if p_start p =? p_start l then lastI
                    else fst (usearch ps (ts_span_range (p_start p) 0))
        | None => lastI
        end in
      match getp ps updateAt with
      | None => inr EPanic                    (* ptrs[-1]: index out of range *)
      | Some oldP =>
          if negb (p_start oldP =? p_start p) then inr ENotFound
          else
            let ovNext := negb (updateAt =? zlen ps - 1) &&
                          match getp ps (updateAt + 1) with
                          | Some n => overlaps_with (p_tr n) (p_tr p) | None => false end in
            let ovPrev := negb (updateAt =? 0) &&
                          match getp ps (updateAt - 1) with
                          | Some n => overlaps_with (p_tr n) (p_tr p) | None => false end in
            if ovPrev then inr EConflict
            else if ovNext then inr EConflict
            else inl (replace_at ps updateAt p)
      end
  end.

(* func (idx *index) overlap(tr) bool *)
Definition idx_overlap (ps : list pointer) (tr : TimeRange) : bool := snd (usearch ps tr).

(* func (idx *index) timeRange() *)
Definition idx_time_range (ps : list pointer) : TimeRange :=
  match ps, getp ps (zlen ps - 1) with
  | f :: _, Some l => mkTR (p_start f) (p_end l)
  | _, _ => tr_zero
  end.

(* func (idx *index) searchLE(ctx, ts) int *)
Definition search_le (ps : list pointer) (ts : Z) : Z := fst (usearch ps (ts_span_range ts 0)).

(* func (idx *index) searchGE(ctx, ts) int *)
Definition search_ge (ps : list pointer) (ts : Z) : Z :=
  let '(i, exact) := usearch ps (ts_span_range ts 0) in
  if exact then i else if i =? zlen ps then -1 else i + 1.

(* func (idx *index) getGE(ctx, ts) (pointer, bool) *)
Definition get_ge (ps : list pointer) (ts : Z) : option pointer :=
  let '(i, exact) := usearch ps (ts_span_range ts 0) in
  if exact then getp ps i
  else if i =? zlen ps then None else getp ps (i + 1).

(* ------------------------------------------------------------------ iterator.go *)
(* Iterator.reload + Next loop from a position: the pointers enumerated by
   `for ok := SeekX(); ok; ok = Next()`; [fuel] bounds the walk by the index length. *)
Fixpoint iter_from (fuel : nat) (ps : list pointer) (bounds : TimeRange) (pos : Z) : list pointer :=
  match fuel with
  | O => []
  | S f =>
      if pos =? -1 then []
      else match getp ps pos with
           | None => []
           | Some ptr =>
               if overlaps_with (p_tr ptr) bounds then ptr :: iter_from f ps bounds (pos + 1)
               else []
           end
  end.

(* OpenIterator(IterRange(bounds)); SeekFirst; Next* *)
Definition iter_all (ps : list pointer) (bounds : TimeRange) : list pointer :=
  iter_from (S (length ps)) ps bounds (search_ge ps (tr_start bounds)).

(* ------------------------------------------------------------------ file_controller.go *)
(* One data file "<key>.domain" together with its entry in fileController.writers.open:
   f_data  the bytes of the file;
   f_off, f_len  the trackedWriteCloser's offset / len;
   f_inuse controllerEntry.inUse. *)
Record file : Type := mkFile { f_data : list N; f_off : N; f_len : N; f_inuse : bool }.
Definition f_size (f : file) : N := N.of_nat (length (f_data f)).

(* files are kept in a list: key k (1-based, the counter) is element k-1 *)
Definition get_file (fs : list file) (k : N) : option file :=
  if (k =? 0)%N then None else nth_error fs (N.to_nat (k - 1)).
Definition set_file (fs : list file) (k : N) (f : file) : list file :=
  if (k =? 0)%N then fs
  else match nth_error fs (N.to_nat (k - 1)) with
       | Some _ => firstn (N.to_nat (k - 1)) fs ++ f :: skipn (S (N.to_nat (k - 1))) fs
       | None => fs
       end.

(* size < int64(fc.FileSize) && w.tryAcquire() *)
Definition eligible (nominal : N) (f : file) : bool :=
  negb (f_inuse f) && (f_size f <? nominal)%N.
(* tryAcquire: inUse false->true, then Reset(): offset += len; len = 0 *)
Definition try_acquire (f : file) : file :=
  mkFile (f_data f) (f_off f + f_len f)%N 0%N true.

Fixpoint first_eligible (nominal : N) (fs : list file) (k : N) : option N :=
  match fs with
  | [] => None
  | f :: rest => if eligible nominal f then Some k else first_eligible nominal rest (k + 1)%N
  end.

(* func (fc *fileController) acquireWriter: returns (key, size, files').  [choice] is the
   oracle for the map iteration order: if it names an eligible file, that file is taken;
   otherwise the lowest eligible key; if no file is eligible a new file (counter + 1) is
   created (newWriter with unopened = {}). *)
Definition acquire (nominal : N) (fs : list file) (choice : N) : N * N * list file :=
  let take k f := (k, f_size f, set_file fs k (try_acquire f)) in
  let fallback :=
    match first_eligible nominal fs 1%N with
    | Some k => match get_file fs k with
                | Some f => take k f
                | None => (0%N, 0%N, fs)   (* unreachable *)
                end
    | None => (N.of_nat (length fs) + 1, 0, fs ++ [mkFile [] 0 0 true])%N
    end in
  match get_file fs choice with
  | Some f => if eligible nominal f then take choice f else fallback
  | None => fallback
  end.

(* controlledWriter.Close: inUse true->false *)
Definition release (fs : list file) (k : N) : list file :=
  match get_file fs k with
  | Some f => set_file fs k (mkFile (f_data f) (f_off f) (f_len f) false)
  | None => fs
  end.

(* ------------------------------------------------------------------ writer.go *)
Record writer : Type := mkW {
  w_start : Z;      (* WriterConfig.Start (moves on rollover) *)
  w_end : Z;        (* WriterConfig.End: preset end, or next domain start / MAX *)
  w_preset : bool;  (* presetEnd *)
  w_prev : Z;       (* prevCommit *)
  w_file : N;       (* fileKey *)
  w_fsize : N;      (* fileSize *)
  w_closed : bool
}.

Notation writers := (gmap N writer).

Record db : Type := mkDB {
  d_nominal : N;             (* fc.FileSize (after Config.Override: round(0.8 * FileSize)) *)
  d_cap : N;                 (* fc.realFileSizeCap() *)
  d_ptrs : list pointer;     (* idx.mu.pointers *)
  d_files : list file;
  d_writers : writers
}.

Definition init (nominal cap : N) : db := mkDB nominal cap [] [] ∅.

Definition with_ptrs (st : db) (ps : list pointer) : db :=
  mkDB (d_nominal st) (d_cap st) ps (d_files st) (d_writers st).
Definition with_files (st : db) (fs : list file) : db :=
  mkDB (d_nominal st) (d_cap st) (d_ptrs st) fs (d_writers st).
Definition with_writer (st : db) (w : N) (wr : writer) : db :=
  mkDB (d_nominal st) (d_cap st) (d_ptrs st) (d_files st) (<[w := wr]> (d_writers st)).

(* func (w WriterConfig) Domain() telem.TimeRange *)
Definition cfg_domain (start end_ : Z) : TimeRange :=
  if ts_is_zero end_ then ts_span_range start 0 else mkTR start end_.

(* The writer operations; they may also run inside a resolver of Delete (see [DeleteC]).
   [key] is the file-choice oracle (see [acquire]). *)
Inductive wop :=
| WOpen (w : N) (start end_ : Z) (key : N)
| WWrite (w : N) (data : list N)
| WCommit (w : N) (end_ : Z) (key : N)
| WClose (w : N).

(* Operations of a history. *)
Inductive op :=
| Open (w : N) (start end_ : Z) (key : N)
| Write (w : N) (data : list N)
| Commit (w : N) (end_ : Z) (key : N)
| Close (w : N)
| Delete (a b : Z)
(* Delete(a,b) during which other writers act: [sops] run while the start-offset resolver
   is executing, [eops] while the end-offset resolver is executing (DB.Delete holds no
   index lock during the resolvers; a resolver only runs when the bound lies inside a
   domain).  Delete a b behaves as DeleteC a b [] [] (DomainInv.delete_c_nil). *)
| DeleteC (a b : Z) (sops eops : list wop)
(* Restart of the channel: every open writer is closed, DB.Close, domain.Open on the same
   file system.  The index that is loaded is the one that was in memory (Writer.Close and
   the commit / delete paths have flushed it; persistence itself is C02's subject), the
   file controller starts with no file in use. *)
| Reopen.

(* func (w WriterConfig) Validate() error; true = passes.
   v.Ternary("end", !w.End.IsZero() && w.End.Before(w.Start), ...); return v.Error() *)
Definition cfg_validate (start end_ : Z) : bool :=
  negb (negb (ts_is_zero end_) && (end_ <? start)).
(* The pinned upstream tree returned nil unconditionally (finding F19, fixed in /repo). *)
Definition cfg_validate_upstream (start end_ : Z) : bool := true.

(* func (db *DB) OpenWriter(ctx, cfg): config.New (Override + Validate), overlap check,
   acquireWriter, End resolution. *)
Definition open_writer (st : db) (w : N) (start end_ : Z) (key : N) : db * res :=
  match d_writers st !! w with
  | Some _ => (st, RBadOp)
  | None =>
      if negb (cfg_validate start end_) then (st, RErr EOther)
      else if idx_overlap (d_ptrs st) (cfg_domain start end_) then (st, RErr EConflict)
      else
        let '(k, size, fs') := acquire (d_nominal st) (d_files st) key in
        let preset := negb (ts_is_zero end_) in
        let wend :=
          if preset then end_
          else match get_ge (d_ptrs st) start with
               | Some p => p_start p
               | None => ts_max
               end in
        (with_writer (with_files st fs') w (mkW start wend preset 0 k size false), ROk)
  end.

(* func (w *Writer) Write(p []byte) *)
Definition write (st : db) (w : N) (data : list N) : db * res :=
  match d_writers st !! w with
  | None => (st, RBadOp)
  | Some wr =>
      if w_closed wr then (st, RErr EClosed)
      else match get_file (d_files st) (w_file wr) with
           | None => (st, RErr EOther)     (* unreachable: a live writer holds a file *)
           | Some f =>
               let n := N.of_nat (length data) in
               let f' := mkFile (f_data f ++ data) (f_off f) (f_len f + n)%N (f_inuse f) in
               let wr' := mkW (w_start wr) (w_end wr) (w_preset wr) (w_prev wr) (w_file wr)
                              (w_fsize wr + n)%N false in
               (with_writer (with_files st (set_file (d_files st) (w_file wr) f')) w wr', ROk)
           end
  end.

(* func (w *Writer) resolveCommitEnd(end) (TimeStamp, bool) *)
Definition resolve_commit_end (cap : N) (wr : writer) (end_ : Z) : Z * bool :=
  if (cap <=? w_fsize wr)%N then (end_, true)
  else (if w_preset wr then w_end wr else end_, false).

(* func (w *Writer) validateCommitRange(end, switchingFile) error; true = passes *)
Definition validate_commit_range (wr : writer) (end_ : Z) (switching : bool) : bool :=
  if negb (ts_is_zero (w_prev wr)) && negb (switching && w_preset wr) && (end_ <? w_prev wr)
  then false
  else if negb (w_start wr <? end_) then false
  else true.
(* The pinned upstream tree skipped the previous-commit test on every file switch
   (finding F18, fixed in /repo). *)
Definition validate_commit_range_upstream (wr : writer) (end_ : Z) (switching : bool) : bool :=
  if negb (ts_is_zero (w_prev wr)) && negb switching && (end_ <? w_prev wr) then false
  else if negb (w_start wr <? end_) then false
  else true.

(* func (w *Writer) commit(ctx, end, shouldPersist) error *)
Definition commit (st : db) (w : N) (end_ : Z) (key : N) : db * res :=
  match d_writers st !! w with
  | None => (st, RBadOp)
  | Some wr =>
      if w_closed wr then (st, RErr EClosed)
      else if w_preset wr && (w_end wr <? end_) then (st, RErr EOther)
      else match get_file (d_files st) (w_file wr) with
           | None => (st, RErr EOther)     (* unreachable *)
           | Some f =>
               if (f_len f =? 0)%N then (st, ROk)
               else
                 let '(commitEnd, switching) := resolve_commit_end (d_cap st) wr end_ in
                 if negb (validate_commit_range wr commitEnd switching) then (st, RErr EValidation)
                 else
                   let ptr := mkPtr (mkTR (w_start wr) commitEnd) (w_file wr)
                                    (u32 (f_off f)) (u32 (f_len f)) in
                   let r := if ts_is_zero (w_prev wr) then insert (d_ptrs st) ptr
                            else update (d_ptrs st) ptr in
                   match r with
                   | inr e => (st, RErr e)
                   | inl ps' =>
                       if switching then
                         let fs1 := release (d_files st) (w_file wr) in
                         let '(k, size, fs2) := acquire (d_nominal st) fs1 key in
                         let wr' := mkW commitEnd (w_end wr) (w_preset wr) 0 k size false in
                         (with_writer (with_files (with_ptrs st ps') fs2) w wr', ROk)
                       else
                         let wr' := mkW (w_start wr) (w_end wr) (w_preset wr) commitEnd
                                        (w_file wr) (w_fsize wr) false in
                         (with_writer (with_ptrs st ps') w wr', ROk)
                   end
           end
  end.

(* func (w *Writer) Close() error *)
Definition close_writer (st : db) (w : N) : db * res :=
  match d_writers st !! w with
  | None => (st, RBadOp)
  | Some wr =>
      if w_closed wr then (st, ROk)
      else
        let wr' := mkW (w_start wr) (w_end wr) (w_preset wr) (w_prev wr) (w_file wr)
                       (w_fsize wr) true in
        (with_writer (with_files st (release (d_files st) (w_file wr))) w wr', ROk)
  end.

(* ------------------------------------------------------------------ delete.go *)
(* OffsetResolver: domainStart -> ts -> (offset : telem.Size (int64), snapped ts) | error *)
Definition resolver := Z -> Z -> option (Z * Z).

(* func validateDelete(startPosition, endPosition, *startOffset, *endOffset, idx) (bool, error)
   returns (proceed, error?, startOffset', endOffset') *)
Definition validate_delete (ps : list pointer) (sp ep : Z) (so eo : Z) : bool * bool * Z * Z :=
  if sp =? zlen ps then (false, false, so, eo)
  else if ep =? -1 then (false, false, so, eo)
  else
    let so := if so <? 0 then 0 else so in
    let eo := if eo <? 0 then 0 else eo in
    match getp ps sp, getp ps ep with
    | Some s, Some e =>
        let sl := Z.of_N (p_size s) in
        let el := Z.of_N (p_size e) in
        let so := if sl <? so then sl else so in
        let eo := if el <? eo then el else eo in
        if (ep <? sp) && (negb (sp =? ep + 1) || negb (so =? 0) || negb (eo =? 0))
        then (false, true, so, eo)
        else if (sp =? ep) && (sl <? so + eo) then (false, true, so, eo)
        else if ((sp =? ep - 1) && (so =? sl) && (eo =? el)) || ((sp =? ep) && (so + eo =? sl))
        then (false, false, so, eo)
        else (true, false, so, eo)
    | _, _ => (false, true, so, eo)   (* index out of range: unreachable from [delete] *)
    end.

(* func (db *DB) Delete(ctx, tr, calculateStartOffset, calculateEndOffset) error,
   in the three stages of the Go function.  A stage yields
     inr r          the call returns r at this point,
     inl None       "delete nothing": the call returns nil,
     inl (Some (position, pointer, offset, adjusted bound)). *)
Definition del_part : Type := option (Z * pointer * Z * Z) + res.

(* start position: the domain containing tr.Start, else the first domain after it *)
Definition delete_start (rs : resolver) (ps : list pointer) (a : Z) : del_part :=
  let '(sd0, exact) := usearch ps (ts_span_range a 0) in
  if exact then
    match getp ps sd0 with
    | Some s => match rs (p_start s) a with
                | Some (so, a') => inl (Some (sd0, s, so, a'))
                | None => inr (RErr EOther)
                end
    | None => inr (RErr EOther)            (* unreachable *)
    end
  else
    let sd := sd0 + 1 in
    if sd =? zlen ps then inl None          (* delete nothing *)
    else match getp ps sd with
         | Some s => inl (Some (sd, s, 0, p_start s))
         | None => inr (RErr EOther)        (* unreachable *)
         end.

(* end position: the domain containing tr.End, else the last domain before it;
   endOffset = end.size - calculateEndOffset(...) *)
Definition delete_end (re : resolver) (ps : list pointer) (b : Z) : del_part :=
  let '(ed0, exact) := usearch ps (ts_span_range b 0) in
  if exact then
    match getp ps ed0 with
    | Some e => match re (p_start e) b with
                | Some (eo, b') => inl (Some (ed0, e, Z.of_N (p_size e) - eo, b'))
                | None => inr (RErr EOther)
                end
    | None => inr (RErr EOther)             (* unreachable *)
    end
  else if ed0 =? -1 then inl None           (* delete nothing *)
  else match getp ps ed0 with
       | Some e => inl (Some (ed0, e, 0, p_end e))
       | None => inr (RErr EOther)          (* unreachable *)
       end.

(* validateDelete, removal of pointers[sd..ed], insertion of the (at most two) partial
   pointers at sd *)
Definition delete_apply (ps : list pointer) (sd : Z) (s : pointer) (so a' : Z)
                        (ed : Z) (e : pointer) (eo b' : Z) : list pointer * res :=
  let '(ok, is_err, so, eo) := validate_delete ps sd ed so eo in
  if negb ok then (ps, if is_err then RErr EOther else ROk)
  else
    let kept := firstn (Z.to_nat sd) ps ++ skipn (Z.to_nat (ed + 1)) ps in
    let new_s :=
      if so =? 0 then []
      else [mkPtr (mkTR (p_start s) a') (p_file s) (p_off s) (u32z so)] in
    let new_e :=
      if eo =? 0 then []
      else [mkPtr (mkTR b' (p_end e)) (p_file e)
                  (u32_sub (u32 (p_off e + p_size e)) (u32z eo)) (u32z eo)] in
    (firstn (Z.to_nat sd) kept ++ new_s ++ new_e ++ skipn (Z.to_nat sd) kept, ROk).

Definition delete (rs re : resolver) (ps : list pointer) (a b : Z) : list pointer * res :=
  match delete_start rs ps a with
  | inr r => (ps, r)
  | inl None => (ps, ROk)
  | inl (Some (sd, s, so, a')) =>
      match delete_end re ps b with
      | inr r => (ps, r)
      | inl None => (ps, ROk)
      | inl (Some (ed, e, eo, b')) => delete_apply ps sd s so a' ed e eo b'
      end
  end.

(* the resolvers the C03 harness passes: one byte per tick, no snapping *)
Definition lin_resolver : resolver := fun ds ts => Some (ts - ds, ts).

(* ------------------------------------------------------------------ histories *)
Definition wstep (st : db) (x : wop) : db * res :=
  match x with
  | WOpen w s e k => open_writer st w s e k
  | WWrite w d => write st w d
  | WCommit w e k => commit st w e k
  | WClose w => close_writer st w
  end.
Fixpoint wrun (st : db) (ws : list wop) : db :=
  match ws with [] => st | x :: rest => wrun (fst (wstep st x)) rest end.
Fixpoint wtrace (st : db) (ws : list wop) : list (db * res) :=
  match ws with [] => [] | x :: rest => let sr := wstep st x in sr :: wtrace (fst sr) rest end.

Definition ptr_eqb (p q : pointer) : bool :=
  tr_eqb (p_tr p) (p_tr q) && (p_file p =? p_file q)%N && (p_off p =? p_off q)%N &&
  (p_size p =? p_size q)%N.

(* "Repêchage" of DB.Delete, under the index write lock: the positions found before the
   resolvers ran are re-resolved when the index changed underneath.
     if pointers[startDomain] != start { startDomain, exact = search(start.TimeRange);
                                         if !exact { startDomain += 1 } }
     if pointers[endDomain] != end { endDomain, _ = search(end.TimeRange) }
   (an index that only grew cannot make pointers[startDomain] go out of range) *)
Definition repechage_start (ps : list pointer) (sd : Z) (s : pointer) : Z :=
  match getp ps sd with
  | Some x => if ptr_eqb x s then sd
              else let '(i, exact) := usearch ps (p_tr s) in if exact then i else i + 1
  | None => let '(i, exact) := usearch ps (p_tr s) in if exact then i else i + 1
  end.
Definition repechage_end (ps : list pointer) (ed : Z) (e : pointer) : Z :=
  match getp ps ed with
  | Some x => if ptr_eqb x e then ed else fst (usearch ps (p_tr e))
  | None => fst (usearch ps (p_tr e))
  end.

(* DB.Delete with the linear resolvers and writer operations running inside them.
   Returns the final state, the result of Delete, and the states/results of the nested
   operations that ran (in order). *)
Definition delete_c (st : db) (a b : Z) (sops eops : list wop) : db * res * list (db * res) :=
  let ps0 := d_ptrs st in
  let called1 := snd (usearch ps0 (ts_span_range a 0)) in
  match delete_start lin_resolver ps0 a with
  | inr r => (st, r, [])
  | inl None => (st, ROk, [])
  | inl (Some (sd, s, so, a')) =>
      let tr1 := if called1 then wtrace st sops else [] in
      let st1 := if called1 then wrun st sops else st in
      let ps1 := d_ptrs st1 in
      let called2 := snd (usearch ps1 (ts_span_range b 0)) in
      match delete_end lin_resolver ps1 b with
      | inr r => (st1, r, tr1)
      | inl None => (st1, ROk, tr1)
      | inl (Some (ed, e, eo, b')) =>
          let tr2 := if called2 then wtrace st1 eops else [] in
          let st2 := if called2 then wrun st1 eops else st1 in
          let ps2 := d_ptrs st2 in
          let sd' := repechage_start ps2 sd s in
          let ed' := repechage_end ps2 ed e in
          let '(ps', r) := delete_apply ps2 sd' s so a' ed' e eo b' in
          (with_ptrs st2 ps', r, tr1 ++ tr2)
      end
  end.

(* Close of every writer, DB.Close, domain.Open: all writers closed, no file in use; the
   pointers, the files and their bytes are what they were.  (After Open the data files
   that are not full sit in fileController.writers.unopened instead of writers.open; both
   are "not in use, acquirable while below the nominal size", which is all [acquire]
   looks at; a tracked writer opened later starts at the file's size, as [try_acquire]
   computes.) *)
Definition reopen (st : db) : db :=
  mkDB (d_nominal st) (d_cap st) (d_ptrs st)
       (map (fun f => mkFile (f_data f) (f_off f) (f_len f) false) (d_files st))
       ((fun wr => mkW (w_start wr) (w_end wr) (w_preset wr) (w_prev wr) (w_file wr) (w_fsize wr) true)
          <$> d_writers st).

Definition step (st : db) (o : op) : db * res :=
  match o with
  | Open w s e k => open_writer st w s e k
  | Write w d => write st w d
  | Commit w e k => commit st w e k
  | Close w => close_writer st w
  | Delete a b =>
      let '(ps', r) := delete lin_resolver lin_resolver (d_ptrs st) a b in (with_ptrs st ps', r)
  | DeleteC a b sops eops => fst (delete_c st a b sops eops)
  | Reopen => (reopen st, ROk)
  end.

(* states/results of the operations that ran inside the resolvers of [o] *)
Definition step_nested (st : db) (o : op) : list (db * res) :=
  match o with
  | DeleteC a b sops eops => snd (delete_c st a b sops eops)
  | _ => []
  end.

Fixpoint run (st : db) (ops : list op) : db :=
  match ops with
  | [] => st
  | o :: rest => run (fst (step st o)) rest
  end.

(* states and results after each operation *)
Fixpoint trace (st : db) (ops : list op) : list (db * res) :=
  match ops with
  | [] => []
  | o :: rest => let sr := step st o in sr :: trace (fst sr) rest
  end.

(* ------------------------------------------------------------------ what a user can read *)
(* the bytes a Reader opened on pointer p returns *)
Definition content (fs : list file) (p : pointer) : list N :=
  match get_file fs (p_file p) with
  | Some f => firstn (N.to_nat (p_size p)) (skipn (N.to_nat (p_off p)) (f_data f))
  | None => []
  end.

(* enumeration through OpenIterator(TimeRangeMax): (range, size, bytes) per domain *)
Definition readable (st : db) : list (TimeRange * N * list N) :=
  map (fun p => (p_tr p, p_size p, content (d_files st) p)) (iter_all (d_ptrs st) tr_max).
