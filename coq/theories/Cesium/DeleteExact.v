(* Cesium/DeleteExact.v — domain.DB.Delete with the offset resolvers of unary/delete.go
   (code of /repo, fx = true) removes exactly the samples stamped in [a,b) from one channel
   and re-establishes the storage invariant and the alignment with the index. *)
From Coq Require Import ZArith List Bool Lia.
From Synnax Require Import Cesium.Store Cesium.StoreProofs Cesium.IndexSearch Cesium.Distance
  Cesium.Stamp Cesium.DeleteModel Cesium.DeleteBase Cesium.DeleteSearch Cesium.DeleteDistance
  Cesium.DeleteOffsets Cesium.DeleteContent.
Import ListNotations.
Local Open Scope Z_scope.

(* everything the delete and read proofs need to know about one channel, relative to the
   sorted list G of all stamps of its index channel *)
Record chan_ok (G : list Z) (c : chan) : Prop := {
  ok_wf : wf_chan c;
  ok_dens : dens_ok c;
  ok_al : Forall (aligned_ptr G c) (c_ptrs c);
  ok_rng : Forall (fun p => 0 <= t_s (p_tr p) /\ t_e (p_tr p) <= MAXTS) (c_ptrs c)
}.

(* ------------------------------------------------------------------ bytes and counts *)
Lemma bytes_firstn_skipn l k :
  bytes_of (firstn k l) + bytes_of (skipn k l) = bytes_of l.
Proof. rewrite <- bytes_of_app, firstn_skipn. reflexivity. Qed.

Lemma pos_firstn l k : pos_samples l -> pos_samples (firstn k l).
Proof. intros H. unfold pos_samples in *. rewrite Forall_forall in *. intros x Hx. apply H. eapply firstn_in; eauto. Qed.

Lemma skipn_in {A} n (l : list A) x : In x (skipn n l) -> In x l.
Proof. revert l. induction n; intros [|y l] H; simpl in *; auto. Qed.

Lemma pos_skipn l k : pos_samples l -> pos_samples (skipn k l).
Proof. intros H. unfold pos_samples in *. rewrite Forall_forall in *. intros x Hx. apply H. eapply skipn_in; eauto. Qed.

(* with non-empty samples the byte length of a prefix determines its length *)
Lemma bytes_firstn_mono l j k :
  pos_samples l -> (j <= k <= length l)%nat ->
  bytes_of (firstn j l) <= bytes_of (firstn k l) /\
  (bytes_of (firstn j l) = bytes_of (firstn k l) -> j = k).
Proof.
  intros Hp. revert j k. induction Hp as [|s l Hs Hl IH]; intros j k H.
  - simpl in H. assert (j = 0 /\ k = 0)%nat as [-> ->] by lia. simpl. lia.
  - destruct j as [|j], k as [|k]; simpl in *; try lia.
    + pose proof (bytes_of_nonneg (firstn k l) (pos_firstn l k Hl)). split; [lia|]. intros. lia.
    + destruct (IH j k ltac:(lia)) as [A B]. split; [lia|]. intros E. f_equal. apply B. lia.
Qed.

Lemma bytes_firstn_zero l k :
  pos_samples l -> (k <= length l)%nat -> bytes_of (firstn k l) = 0 -> k = 0%nat.
Proof.
  intros Hp Hk E. destruct (bytes_firstn_mono l 0 k Hp ltac:(lia)) as [_ B]. symmetry. apply B. simpl. lia.
Qed.

(* ------------------------------------------------------------------ the two halves of a pointer *)
Lemma set_ptrs_samples c ps p : ptr_samples (set_ptrs c ps) p = ptr_samples c p.
Proof. reflexivity. Qed.

Section Halves.
Variables (c : chan) (p : ptr).
Hypothesis Hf : files_pos c.
Hypothesis Hp : ptr_aligned c p.
Let smp := ptr_samples c p.

Lemma left_half t k :
  let q := Ptr t (p_file p) (p_off p) (bytes_of (firstn k smp)) in
  ptr_samples c q = firstn k smp /\ ptr_aligned c q.
Proof.
  intros q. destruct Hp as (pre & post & E & Eo & Es). fold smp in E, Es.
  assert (Hal : aligned (file_of c (p_file p)) (p_off p) (bytes_of (firstn k smp)) (firstn k smp)).
  { exists pre, (skipn k smp ++ post). split; [|split; [exact Eo|reflexivity]].
    rewrite E. rewrite <- (firstn_skipn k smp) at 1. rewrite <- app_assoc. reflexivity. }
  assert (Hs : ptr_samples c q = firstn k smp).
  { unfold ptr_samples, q. simpl. apply aligned_slice; [apply file_of_pos; exact Hf|exact Hal]. }
  split; [exact Hs|]. unfold ptr_aligned. rewrite Hs. exact Hal.
Qed.

Lemma right_half t k :
  let eo := p_size p - bytes_of (firstn k smp) in
  let q := Ptr t (p_file p) (p_off p + p_size p - eo) eo in
  ptr_samples c q = skipn k smp /\ ptr_aligned c q /\ eo = bytes_of (skipn k smp).
Proof.
  intros eo q. destruct Hp as (pre & post & E & Eo & Es). fold smp in E, Es.
  assert (Heo : eo = bytes_of (skipn k smp)).
  { unfold eo. rewrite <- Es. pose proof (bytes_firstn_skipn smp k). lia. }
  assert (Hal : aligned (file_of c (p_file p)) (p_off p + p_size p - eo) eo (skipn k smp)).
  { exists (pre ++ firstn k smp), post. split; [|split].
    - rewrite E. rewrite <- (firstn_skipn k smp) at 1. rewrite <- !app_assoc. reflexivity.
    - rewrite bytes_of_app, Eo. unfold eo. lia.
    - symmetry. exact Heo. }
  assert (Hs : ptr_samples c q = skipn k smp).
  { unfold ptr_samples, q. simpl. apply aligned_slice; [apply file_of_pos; exact Hf|exact Hal]. }
  split; [exact Hs|]. split; [|exact Heo]. unfold ptr_aligned. rewrite Hs. exact Hal.
Qed.
End Halves.

(* ------------------------------------------------------------------ filtering one pointer *)
Section OnePtr.
Variables (G : list Z) (c : chan) (p : ptr) (a b : Z).
Hypothesis HG : sincr G.
Hypothesis Hal : aligned_ptr G c p.
Let ts := t_s (p_tr p).
Let te := t_e (p_tr p).
Let smp := ptr_samples c p.
Let kof x := Z.to_nat (cnt_lt x G - cnt_lt ts G).

Lemma stamps_empty x : stamps_in G x x = [].
Proof. rewrite stamps_in_sub by (assumption || lia). apply sub_nil. lia. Qed.

Lemma combine_nil_l {A B} (l : list B) : combine (@nil A) l = [].
Proof. reflexivity. Qed.

(* keep the part before xs and the part from xe on *)
Lemma filter_both xs xe :
  ts <= xs -> xs <= xe -> xe <= te ->
  (xs <= a \/ xs = ts) -> a <= xs -> (b <= xe \/ xe = te) -> xe <= b ->
  filter (outside_ab a b) (ptr_content G c p) =
  combine (stamps_in G ts xs) (firstn (kof xs) smp) ++
  combine (stamps_in G xe te) (skipn (kof xe) smp).
Proof.
  intros H1 H2 H3 Hxs Haxs Hxe Hxeb.
  (* split at xe, then the first half at xs *)
  rewrite (ptr_content_split G c p xe HG Hal ltac:(fold ts te; lia)). fold ts te smp. cbv zeta.
  rewrite filter_app. f_equal.
  2:{ destruct Hxe as [Hxe|Hxe].
      - apply combine_keep_after. exact Hxe.
      - subst xe. rewrite stamps_empty. reflexivity. }
  (* the first kof xe samples against the stamps of [ts, xe) *)
  fold (kof xe).
  rewrite (stamps_in_split G ts xs xe HG ltac:(lia)).
  assert (Hk : (kof xs <= kof xe)%nat).
  { unfold kof. pose proof (cnt_lt_mono G xs xe H2). pose proof (cnt_lt_mono G ts xs H1). lia. }
  assert (Hkn : (kof xe <= length smp)%nat).
  { unfold kof. pose proof (cnt_lt_mono G xe te H3). unfold aligned_ptr in Hal. fold smp ts te in Hal.
    unfold zlen in Hal. lia. }
  assert (Hsplit : firstn (kof xe) smp = firstn (kof xs) smp ++ firstn (kof xe - kof xs) (skipn (kof xs) smp)).
  { replace (kof xe) with (kof xs + (kof xe - kof xs))%nat at 1 by lia. apply firstn_add. }
  rewrite Hsplit, combine_app.
  - rewrite filter_app.
    rewrite (combine_drop G _ xs xe a b Haxs Hxeb), app_nil_r.
    destruct Hxs as [Hxs|Hxs].
    + apply combine_keep_before. exact Hxs.
    + subst xs. rewrite stamps_empty. reflexivity.
  - pose proof (stamps_in_zlen G ts xs HG H1) as Hz. unfold zlen in Hz.
    rewrite firstn_length. unfold kof in *. pose proof (cnt_lt_mono G ts xs H1). lia.
Qed.
End OnePtr.

(* ------------------------------------------------------------------ list positions *)
Lemma to_nat_zlen {A} (l : list A) : Z.to_nat (zlen l) = length l.
Proof. unfold zlen. lia. Qed.

Lemma firstn_zlen_app {A} (l r : list A) : firstn (Z.to_nat (zlen l)) (l ++ r) = l.
Proof. rewrite to_nat_zlen, firstn_app, firstn_all, Nat.sub_diag. simpl. apply app_nil_r. Qed.

Lemma skipn_zlen_app {A} (l r : list A) : skipn (Z.to_nat (zlen l)) (l ++ r) = r.
Proof. rewrite to_nat_zlen, skipn_app, skipn_all, Nat.sub_diag. reflexivity. Qed.

Lemma app_eq_len {A} (l1 l2 r1 r2 : list A) :
  l1 ++ r1 = l2 ++ r2 -> length l1 = length l2 -> l1 = l2 /\ r1 = r2.
Proof.
  revert l2. induction l1 as [|x l1 IH]; intros [|y l2] E H; simpl in *; try discriminate.
  - auto.
  - inversion E; subst. destruct (IH l2 H2 ltac:(lia)) as [-> ->]. auto.
Qed.

(* a list split at two positions, the first not after the second *)
Lemma split_two {A} (L R L' R' : list A) x y :
  L ++ x :: R = L' ++ y :: R' -> (length L < length L')%nat ->
  exists M, R = M ++ y :: R' /\ L' = L ++ x :: M.
Proof.
  revert L'. induction L as [|h t IH]; intros [|h' t'] E Hlt; simpl in *; try lia.
  - inversion E; subst. exists t'. auto.
  - inversion E; subst. destruct (IH t' H1 ltac:(lia)) as (M & -> & ->). exists M. auto.
Qed.

(* ------------------------------------------------------------------ where a and b fall *)
Section Positions.
Variables (c : chan).
Hypothesis Hs : sorted_ptrs (c_ptrs c).
Let ps := c_ptrs c.
Let D := doms c.

Lemma ptrs_index_facts :
  (forall i p, znth ps i = Some p -> t_s (p_tr p) < t_e (p_tr p)) /\
  (forall i j p q, znth ps i = Some p -> znth ps j = Some q -> i < j -> t_e (p_tr p) <= t_s (p_tr q)).
Proof. apply sorted_ptrs_index. exact Hs. Qed.

Lemma znth_split_at {A} (l : list A) i x : znth l i = Some x ->
  exists L R, l = L ++ x :: R /\ zlen L = i.
Proof.
  intros H. pose proof (znth_Some _ _ _ H). unfold znth in H. destruct (i <? 0); [discriminate|].
  apply nth_error_split in H as (L & R & -> & Hl). exists L, R. split; [reflexivity|]. unfold zlen. lia.
Qed.

Lemma in_split_index {A} (L R : list A) x q :
  In q L -> exists i, znth (L ++ x :: R) i = Some q /\ i < zlen L.
Proof.
  intros H. apply In_znth in H as [i Hi]. pose proof (znth_Some _ _ _ Hi). exists i.
  split; [rewrite znth_app_l by lia; exact Hi|lia].
Qed.

Lemma in_split_index_r {A} (L R : list A) x q :
  In q R -> exists i, znth (L ++ x :: R) i = Some q /\ zlen L < i.
Proof.
  intros H. apply In_znth in H as [i Hi]. pose proof (znth_Some _ _ _ Hi). exists (zlen L + 1 + i).
  split; [rewrite znth_after by lia; exact Hi|lia].
Qed.

(* start position *)
Lemma start_pos a sd0 sx :
  usearch D (point a) = (sd0, sx) ->
  let sd := if sx then sd0 else sd0 + 1 in
  (sx = false /\ sd = zlen ps /\ forall q, In q ps -> t_e (p_tr q) <= a) \/
  (exists L sp R, ps = L ++ sp :: R /\ zlen L = sd /\ (forall q, In q L -> t_e (p_tr q) <= a) /\
     (if sx then t_s (p_tr sp) <= a < t_e (p_tr sp) else a < t_s (p_tr sp))).
Proof.
  intros Hu. cbv zeta. pose proof (usearch_point D a (sdoms_doms c Hs)) as Hp. rewrite Hu in Hp.
  destruct ptrs_index_facts as [Hne Hord].
  destruct sx; simpl in Hp.
  - right. destruct Hp as (d & Hd & Hin). apply doms_znth_inv in Hd as (sp & Hsp & ->).
    destruct (znth_split_at ps sd0 sp Hsp) as (L & R & E & Hl).
    exists L, sp, R. split; [exact E|]. split; [exact Hl|]. split; [|exact Hin].
    intros q Hq. destruct (in_split_index L R sp q Hq) as (i & Hi & Hlt). rewrite <- E in Hi.
    pose proof (Hord i sd0 q sp Hi Hsp ltac:(lia)). unfold dom_s in Hin. simpl in Hin. lia.
  - destruct Hp as (Hj & Hbefore & Hafter).
    destruct (Z.eq_dec (sd0 + 1) (zlen ps)) as [Heq|Hneq].
    + left. split; [reflexivity|]. split; [exact Heq|].
      intros q Hq. apply In_znth in Hq as [i Hi]. pose proof (znth_Some _ _ _ Hi).
      pose proof (Hbefore i (dom_of c q) (doms_znth c i q Hi) ltac:(lia)) as Hx. unfold dom_e in Hx. exact Hx.
    + right. assert (Hd : zlen D = zlen ps) by (unfold D, doms, zlen; rewrite map_length; reflexivity).
      destruct (znth_in_range ps (sd0 + 1) ltac:(lia)) as [sp Hsp].
      destruct (znth_split_at ps (sd0 + 1) sp Hsp) as (L & R & E & Hl).
      exists L, sp, R. split; [exact E|]. split; [exact Hl|]. split.
      * intros q Hq. destruct (in_split_index L R sp q Hq) as (i & Hi & Hlt). rewrite <- E in Hi.
        pose proof (Hbefore i (dom_of c q) (doms_znth c i q Hi) ltac:(lia)) as Hx. unfold dom_e in Hx. exact Hx.
      * pose proof (Hafter (sd0 + 1) (dom_of c sp) (doms_znth c _ sp Hsp) ltac:(lia)) as Hx. unfold dom_s in Hx. exact Hx.
Qed.

(* end position *)
Lemma end_pos b ed ex :
  usearch D (point b) = (ed, ex) ->
  (ex = false /\ ed = -1 /\ forall q, In q ps -> b < t_s (p_tr q)) \/
  (exists L ep R, ps = L ++ ep :: R /\ zlen L = ed /\ (forall q, In q R -> b <= t_s (p_tr q)) /\
     (if ex then t_s (p_tr ep) <= b < t_e (p_tr ep) else t_e (p_tr ep) <= b)).
Proof.
  intros Hu. pose proof (usearch_point D b (sdoms_doms c Hs)) as Hp. rewrite Hu in Hp.
  destruct ptrs_index_facts as [Hne Hord].
  destruct ex; simpl in Hp.
  - right. destruct Hp as (d & Hd & Hin). apply doms_znth_inv in Hd as (ep & Hep & ->).
    destruct (znth_split_at ps ed ep Hep) as (L & R & E & Hl).
    exists L, ep, R. split; [exact E|]. split; [exact Hl|]. split; [|exact Hin].
    intros q Hq. destruct (in_split_index_r L R ep q Hq) as (i & Hi & Hlt). rewrite <- E in Hi.
    pose proof (Hord ed i ep q Hep Hi ltac:(lia)). unfold dom_e in Hin. simpl in Hin. lia.
  - destruct Hp as (Hj & Hbefore & Hafter).
    destruct (Z.eq_dec ed (-1)) as [Heq|Hneq].
    + left. split; [reflexivity|]. split; [exact Heq|].
      intros q Hq. apply In_znth in Hq as [i Hi]. pose proof (znth_Some _ _ _ Hi).
      pose proof (Hafter i (dom_of c q) (doms_znth c i q Hi) ltac:(lia)) as Hx. unfold dom_s in Hx. exact Hx.
    + right. assert (Hd : zlen D = zlen ps) by (unfold D, doms, zlen; rewrite map_length; reflexivity).
      destruct (znth_in_range ps ed ltac:(lia)) as [ep Hep].
      destruct (znth_split_at ps ed ep Hep) as (L & R & E & Hl).
      exists L, ep, R. split; [exact E|]. split; [exact Hl|]. split.
      * intros q Hq. destruct (in_split_index_r L R ep q Hq) as (i & Hi & Hlt). rewrite <- E in Hi.
        pose proof (Hafter i (dom_of c q) (doms_znth c i q Hi) ltac:(lia)) as Hx. unfold dom_s in Hx. simpl in Hx. lia.
      * pose proof (Hbefore ed (dom_of c ep) (doms_znth c _ ep Hep) ltac:(lia)) as Hx. unfold dom_e in Hx. exact Hx.
Qed.
End Positions.

(* ------------------------------------------------------------------ sortedness, pairwise *)
Definition ne (p : ptr) : Prop := t_s (p_tr p) < t_e (p_tr p).
Definition ord (p q : ptr) : Prop := t_e (p_tr p) <= t_s (p_tr q).

Lemma sorted_iff l : sorted_ptrs l <-> Forall ne l /\ ForallOrdPairs ord l.
Proof.
  split.
  - induction l as [|p l IH]; intros H; [split; constructor|].
    destruct (IH (sorted_ptrs_tail _ _ H)) as [A B].
    split; constructor; auto.
    + eapply sorted_ptrs_head; eauto.
    + eapply Forall_impl; [|apply (sorted_ptrs_after _ _ H)]. simpl. intros q [Hq _]. exact Hq.
  - induction l as [|p l IH]; intros [A B]; [constructor|].
    inversion A; subst. inversion B; subst.
    destruct l as [|q r]; [constructor; assumption|].
    inversion H3; subst. constructor; auto.
Qed.

Lemma fop_app {A} (R : A -> A -> Prop) l1 l2 :
  ForallOrdPairs R (l1 ++ l2) <->
  ForallOrdPairs R l1 /\ ForallOrdPairs R l2 /\ (forall x y, In x l1 -> In y l2 -> R x y).
Proof.
  induction l1 as [|a l1 IH]; simpl.
  - split; [intros H; repeat split; [constructor|exact H|intros x y []]|intros (_ & H & _); exact H].
  - split.
    + intros H. inversion H; subst. apply IH in H3 as (A1 & A2 & A3).
      rewrite Forall_app in H2. destruct H2 as [F1 F2]. rewrite Forall_forall in F2.
      repeat split; [constructor; assumption|assumption|].
      intros x y [->|Hx] Hy; auto.
    + intros (H1 & H2 & H3). inversion H1; subst. constructor.
      * rewrite Forall_app. split; [assumption|]. rewrite Forall_forall. intros y Hy. apply H3; auto.
      * apply IH. repeat split; auto.
Qed.

Lemma fop_cons_inv {A} (R : A -> A -> Prop) x l :
  ForallOrdPairs R (x :: l) -> Forall (R x) l /\ ForallOrdPairs R l.
Proof. intros H. inversion H; subst. auto. Qed.

(* replacing a middle segment by pointers that stay inside its hull keeps the list sorted *)
Lemma sorted_splice L M R N lo hi :
  sorted_ptrs (L ++ M ++ R) -> sorted_ptrs N ->
  (forall x, In x L -> t_e (p_tr x) <= lo) -> (forall z, In z R -> hi <= t_s (p_tr z)) ->
  (forall y, In y N -> lo <= t_s (p_tr y) /\ t_e (p_tr y) <= hi) ->
  sorted_ptrs (L ++ N ++ R).
Proof.
  intros Hs HN HL HR HNb. apply sorted_iff in Hs as [Hne Hord]. apply sorted_iff in HN as [Nne Nord].
  apply sorted_iff.
  rewrite !Forall_app in Hne. destruct Hne as (NL & NM & NR).
  apply fop_app in Hord as (OL & OMR & OLMR). apply fop_app in OMR as (OM & OR & OMR').
  assert (Hnn : forall y, In y N -> ne y) by (rewrite Forall_forall in Nne; exact Nne).
  split.
  - rewrite !Forall_app. auto.
  - apply fop_app. split; [exact OL|]. split.
    + apply fop_app. split; [exact Nord|]. split; [exact OR|].
      intros y z Hy Hz. destruct (HNb y Hy). pose proof (HR z Hz). unfold ord. lia.
    + intros x y Hx Hy. apply in_app_or in Hy as [Hy|Hy].
      * destruct (HNb y Hy). pose proof (HL x Hx). unfold ord. lia.
      * apply OLMR; [exact Hx|]. apply in_or_app. right. exact Hy.
Qed.

(* ------------------------------------------------------------------ replacing a segment *)
Lemma filter_flat_map_keep {A B} (f : B -> bool) (g : A -> list B) l :
  (forall x, In x l -> filter f (g x) = g x) -> filter f (flat_map g l) = flat_map g l.
Proof.
  induction l as [|x l IH]; intros H; simpl; [reflexivity|].
  rewrite filter_app, (H x (or_introl eq_refl)), IH by (intros; apply H; right; assumption). reflexivity.
Qed.

Section Splice.
Variables (G : list Z) (c : chan) (L M R N : list ptr) (a b lo hi : Z).
Hypothesis Hok : chan_ok G c.
Hypothesis HE : c_ptrs c = L ++ M ++ R.
Hypothesis HL : forall x, In x L -> t_e (p_tr x) <= a /\ t_e (p_tr x) <= lo.
Hypothesis HR : forall z, In z R -> b <= t_s (p_tr z) /\ hi <= t_s (p_tr z).
Hypothesis HNs : sorted_ptrs N.
Hypothesis HNb : forall y, In y N -> lo <= t_s (p_tr y) /\ t_e (p_tr y) <= hi.
Hypothesis HNa : Forall (ptr_aligned c) N.
Hypothesis HNal : Forall (aligned_ptr G c) N.
Hypothesis HNr : Forall (fun p => 0 <= t_s (p_tr p) /\ t_e (p_tr p) <= MAXTS) N.
Hypothesis HNc : flat_map (ptr_content G c) N = filter (outside_ab a b) (flat_map (ptr_content G c) M).

Lemma splice_ok :
  let c' := set_ptrs c (L ++ N ++ R) in
  chan_ok G c' /\ content G c' = filter (outside_ab a b) (content G c).
Proof.
  intros c'. destruct Hok as [[Hf Ha Hs] Hd Hal Hrng]. rewrite HE in *.
  rewrite !Forall_app in Ha, Hal, Hrng.
  destruct Ha as (AL & AM & AR). destruct Hal as (BL & BM & BR). destruct Hrng as (CL & CM & CR).
  split.
  - constructor.
    + constructor.
      * exact Hf.
      * unfold c'. simpl. rewrite !Forall_app. auto.
      * unfold c'. simpl. eapply sorted_splice; eauto; intros; [apply HL|apply HR]; assumption.
    + exact Hd.
    + unfold c'. simpl. rewrite !Forall_app. auto.
    + unfold c'. simpl. rewrite !Forall_app. auto.
  - unfold content, c'. simpl c_ptrs. rewrite HE.
    assert (Hext : forall l, flat_map (ptr_content G (set_ptrs c (L ++ N ++ R))) l = flat_map (ptr_content G c) l)
      by (intros l; apply flat_map_ext; intros p; reflexivity).
    rewrite Hext. rewrite !flat_map_app, !filter_app. rewrite HNc. f_equal; [|f_equal].
    + symmetry. apply filter_flat_map_keep. intros x Hx. apply ptr_content_keep_before. apply HL. exact Hx.
    + symmetry. apply filter_flat_map_keep. intros x Hx. apply ptr_content_keep_after. apply HR. exact Hx.
Qed.
End Splice.

(* ------------------------------------------------------------------ what the resolvers give *)
Section Resolvers.
Variables (P : list dom) (c : chan).
Hypothesis Hw : widx P.
Let G := allst P.
Hypothesis Hok : chan_ok G c.

Lemma ptr_in_facts L p R :
  c_ptrs c = L ++ p :: R ->
  ptr_aligned c p /\ aligned_ptr G c p /\ 0 <= t_s (p_tr p) < MAXTS /\ t_e (p_tr p) <= MAXTS /\
  t_s (p_tr p) < t_e (p_tr p).
Proof.
  intros E. destruct Hok as [[Hf Ha Hs] Hd Hal Hrng].
  assert (Hin : In p (c_ptrs c)) by (rewrite E; apply in_or_app; right; left; reflexivity).
  rewrite Forall_forall in Ha, Hal, Hrng.
  pose proof (sorted_ptrs_nonempty _ Hs) as Hne. rewrite Forall_forall in Hne.
  specialize (Hne p Hin). destruct (Hrng p Hin). repeat split; auto; lia.
Qed.

(* start: ks samples of sp are kept on the left *)
Lemma start_facts L sp R a (sx : bool) so a' :
  c_ptrs c = L ++ sp :: R ->
  (if sx then t_s (p_tr sp) <= a < t_e (p_tr sp) else a < t_s (p_tr sp)) ->
  (if sx then calc_start_offset true P c (t_s (p_tr sp)) a else Ok (0, t_s (p_tr sp))) = Ok (so, a') ->
  let xs := if sx then a else t_s (p_tr sp) in
  let ks := cnt_lt xs G - cnt_lt (t_s (p_tr sp)) G in
  0 <= ks <= zlen (ptr_samples c sp) /\
  so = bytes_of (firstn (Z.to_nat ks) (ptr_samples c sp)) /\
  t_s (p_tr sp) <= xs <= t_e (p_tr sp) /\ a <= xs /\ (xs <= a \/ xs = t_s (p_tr sp)) /\
  cnt_lt a' G = cnt_lt xs G /\ a' <= xs /\ (0 < ks -> t_s (p_tr sp) < a') /\ (sx = false -> ks = 0).
Proof.
  intros E Hc Hr. destruct (ptr_in_facts L sp R E) as (Hpa & Hal & Hr0 & Hr1 & Hne).
  destruct Hok as [Hwf Hd _ _]. cbv zeta. destruct sx.
  - destruct (calc_start_ok P c L sp R Hw Hwf Hd E Hr0 Hal a so a' Hc Hr) as (A1 & A2 & A3 & A4 & A5).
    fold G in A1, A2, A3, A5. repeat split; auto; try lia; try discriminate.
  - inversion Hr; subst so a'. rewrite Z.sub_diag. simpl. repeat split; try lia.
    pose proof (zlen_nonneg (ptr_samples c sp)). lia.
Qed.

(* end: the samples of ep from index ke on are kept on the right *)
Lemma end_facts L ep R b (ex : bool) eo b' :
  c_ptrs c = L ++ ep :: R ->
  (if ex then t_s (p_tr ep) <= b < t_e (p_tr ep) else t_e (p_tr ep) <= b) ->
  (if ex then do r <- calc_end_offset true P c (t_s (p_tr ep)) b; Ok (p_size ep - fst r, snd r)
   else Ok (0, t_e (p_tr ep))) = Ok (eo, b') ->
  let xe := if ex then b else t_e (p_tr ep) in
  let ke := cnt_lt xe G - cnt_lt (t_s (p_tr ep)) G in
  0 <= ke <= zlen (ptr_samples c ep) /\
  eo = p_size ep - bytes_of (firstn (Z.to_nat ke) (ptr_samples c ep)) /\
  t_s (p_tr ep) <= xe <= t_e (p_tr ep) /\ xe <= b /\ (b <= xe \/ xe = t_e (p_tr ep)) /\
  (ke < zlen (ptr_samples c ep) -> cnt_lt b' G = cnt_lt xe G /\ xe <= b' < t_e (p_tr ep)) /\
  (ex = false -> ke = zlen (ptr_samples c ep)).
Proof.
  intros E Hc Hr. destruct (ptr_in_facts L ep R E) as (Hpa & Hal & Hr0 & Hr1 & Hne).
  destruct Hok as [Hwf Hd _ _]. cbv zeta. destruct ex.
  - destruct (calc_end_offset true P c (t_s (p_tr ep)) b) as [[bo bb]|e] eqn:Ec; simpl in Hr; [|discriminate].
    inversion Hr; subst eo b'.
    destruct (calc_end_ok P c L ep R Hw Hwf Hd E Hr0 Hal b bo bb Hc Ec) as (A1 & A2 & A3).
    fold G in A1, A2, A3. subst bo. repeat split; auto; try lia; try discriminate.
  - inversion Hr; subst eo b'. unfold aligned_ptr in Hal. fold G in Hal. rewrite <- Hal.
    rewrite to_nat_zlen, firstn_all, (ptr_samples_bytes c ep Hpa).
    pose proof (zlen_nonneg (ptr_samples c ep)). repeat split; try lia.
Qed.
End Resolvers.

(* validateDelete once the offsets are known to be within the pointers *)
Lemma validate_simple ps sd ed so eo sp ep :
  znth ps sd = Some sp -> znth ps ed = Some ep ->
  0 <= so <= p_size sp -> 0 <= eo <= p_size ep ->
  validate_delete true ps sd ed so eo =
  if (ed <? sd) && (negb (sd =? ed + 1) || negb (so =? 0) || negb (eo =? 0)) then VErr
  else if (sd =? ed) && (p_size sp <? so + eo) then VErr
  else if ((sd =? ed - 1) && (so =? p_size sp) && (eo =? p_size ep)) ||
          ((sd =? ed) && (so + eo =? p_size sp)) then VSkip
  else VGo so eo.
Proof.
  intros Hs He Hso Heo. unfold validate_delete.
  pose proof (znth_Some _ _ _ Hs). pose proof (znth_Some _ _ _ He).
  destruct (sd =? zlen ps) eqn:E1; [apply Z.eqb_eq in E1; lia|].
  destruct (ed =? -1) eqn:E2; [apply Z.eqb_eq in E2; lia|].
  destruct (so <? 0) eqn:E3; [apply Z.ltb_lt in E3; lia|].
  destruct (eo <? 0) eqn:E4; [apply Z.ltb_lt in E4; lia|].
  rewrite Hs, He.
  destruct (p_size sp <? so) eqn:E5; [apply Z.ltb_lt in E5; lia|].
  destruct (p_size ep <? eo) eqn:E6; [apply Z.ltb_lt in E6; lia|].
  reflexivity.
Qed.

(* ------------------------------------------------------------------ the new pointers *)
Section NewPtrs.
Variables (G : list Z) (c : chan).
Hypothesis HG : sincr G.
Hypothesis Hf : files_pos c.

Lemma left_ptr_ok sp a' xs ks :
  ptr_aligned c sp -> aligned_ptr G c sp ->
  0 <= t_s (p_tr sp) -> t_e (p_tr sp) <= MAXTS ->
  ks = cnt_lt xs G - cnt_lt (t_s (p_tr sp)) G -> 0 < ks <= zlen (ptr_samples c sp) ->
  t_s (p_tr sp) <= xs <= t_e (p_tr sp) ->
  cnt_lt a' G = cnt_lt xs G -> a' <= xs -> t_s (p_tr sp) < a' ->
  let PL := Ptr (TR (t_s (p_tr sp)) a') (p_file sp) (p_off sp)
                (bytes_of (firstn (Z.to_nat ks) (ptr_samples c sp))) in
  ptr_aligned c PL /\ aligned_ptr G c PL /\ ne PL /\
  (0 <= t_s (p_tr PL) /\ t_e (p_tr PL) <= MAXTS) /\
  ptr_content G c PL = combine (stamps_in G (t_s (p_tr sp)) xs) (firstn (Z.to_nat ks) (ptr_samples c sp)).
Proof.
  intros Hpa Hal H0 HM Hks Hkr Hxs Hcnt Hle Hlt PL.
  destruct (left_half c sp Hf Hpa (TR (t_s (p_tr sp)) a') (Z.to_nat ks)) as [Hs Ha]. fold PL in Hs, Ha.
  split; [exact Ha|]. split; [|split; [|split]].
  - unfold aligned_ptr. rewrite Hs. simpl. rewrite zlen_firstn by lia. lia.
  - unfold ne. simpl. lia.
  - simpl. lia.
  - unfold ptr_content. rewrite Hs. simpl. f_equal. apply stamps_in_cnt; try assumption; try lia.
Qed.

Lemma right_ptr_ok ep b' xe ke :
  ptr_aligned c ep -> aligned_ptr G c ep ->
  0 <= t_s (p_tr ep) -> t_e (p_tr ep) <= MAXTS ->
  ke = cnt_lt xe G - cnt_lt (t_s (p_tr ep)) G -> 0 <= ke < zlen (ptr_samples c ep) ->
  t_s (p_tr ep) <= xe <= t_e (p_tr ep) ->
  cnt_lt b' G = cnt_lt xe G -> xe <= b' < t_e (p_tr ep) ->
  let eo := p_size ep - bytes_of (firstn (Z.to_nat ke) (ptr_samples c ep)) in
  let PR := Ptr (TR b' (t_e (p_tr ep))) (p_file ep) (p_off ep + p_size ep - eo) eo in
  ptr_aligned c PR /\ aligned_ptr G c PR /\ ne PR /\
  (0 <= t_s (p_tr PR) /\ t_e (p_tr PR) <= MAXTS) /\
  ptr_content G c PR = combine (stamps_in G xe (t_e (p_tr ep))) (skipn (Z.to_nat ke) (ptr_samples c ep)).
Proof.
  intros Hpa Hal H0 HM Hke Hkr Hxe Hcnt Hb eo PR.
  destruct (right_half c ep Hf Hpa (TR b' (t_e (p_tr ep))) (Z.to_nat ke)) as (Hs & Ha & _). fold eo PR in Hs, Ha.
  split; [exact Ha|]. split; [|split; [|split]].
  - unfold aligned_ptr in *. rewrite Hs. simpl. unfold zlen in *. rewrite skipn_length. lia.
  - unfold ne. simpl. lia.
  - simpl. lia.
  - unfold ptr_content. rewrite Hs. simpl. f_equal. apply stamps_in_cnt; try assumption; try lia.
Qed.
End NewPtrs.

Lemma set_ptrs_same c : set_ptrs c (c_ptrs c) = c.
Proof. destruct c; reflexivity. Qed.

Lemma content_noop G c L R a b :
  c_ptrs c = L ++ R -> (forall x, In x L -> t_e (p_tr x) <= a) -> (forall z, In z R -> b <= t_s (p_tr z)) ->
  filter (outside_ab a b) (content G c) = content G c.
Proof.
  intros E HL HR. unfold content. rewrite E, flat_map_app, filter_app. f_equal.
  - apply filter_flat_map_keep. intros x Hx. apply ptr_content_keep_before. auto.
  - apply filter_flat_map_keep. intros x Hx. apply ptr_content_keep_after. auto.
Qed.

Lemma so_zero_iff l k : pos_samples l -> 0 <= k <= zlen l ->
  (bytes_of (firstn (Z.to_nat k) l) =? 0) = (k =? 0).
Proof.
  intros Hp Hk. destruct (k =? 0) eqn:E.
  - apply Z.eqb_eq in E. subst. reflexivity.
  - apply Z.eqb_neq in E. apply Z.eqb_neq. intros H.
    pose proof (bytes_firstn_zero l (Z.to_nat k) Hp ltac:(unfold zlen in Hk; lia) H). lia.
Qed.

Lemma bytes_firstn_bounds l k : pos_samples l ->
  0 <= bytes_of (firstn k l) <= bytes_of l.
Proof.
  intros Hp. pose proof (bytes_firstn_skipn l k).
  pose proof (bytes_of_nonneg _ (pos_firstn l k Hp)). pose proof (bytes_of_nonneg _ (pos_skipn l k Hp)). lia.
Qed.

Lemma eo_zero_iff l k : pos_samples l -> 0 <= k <= zlen l ->
  (bytes_of l - bytes_of (firstn (Z.to_nat k) l) =? 0) = (k =? zlen l).
Proof.
  intros Hp Hk. pose proof (bytes_firstn_skipn l (Z.to_nat k)) as Hs.
  destruct (k =? zlen l) eqn:E.
  - apply Z.eqb_eq in E. subst. rewrite to_nat_zlen, firstn_all. apply Z.eqb_eq. lia.
  - apply Z.eqb_neq in E. apply Z.eqb_neq. intros H.
    assert (Hz : bytes_of (skipn (Z.to_nat k) l) = 0) by lia.
    apply bytes_of_zero in Hz; [|apply pos_skipn; exact Hp].
    assert (length (skipn (Z.to_nat k) l) = 0%nat) by (rewrite Hz; reflexivity).
    rewrite skipn_length in H0. unfold zlen in *. lia.
Qed.

(* ------------------------------------------------------------------ the cases of Delete *)
Lemma In_app_mid {A} (L R : list A) x : In x (L ++ x :: R).
Proof. apply in_or_app. right. left. reflexivity. Qed.

Lemma filter_mid_nil G c Mid a b :
  (forall q, In q Mid -> a <= t_s (p_tr q) /\ t_e (p_tr q) <= b) ->
  filter (outside_ab a b) (flat_map (ptr_content G c) Mid) = [].
Proof.
  induction Mid as [|q Mid IH]; intros H; simpl; [reflexivity|].
  rewrite filter_app, IH by (intros; apply H; right; assumption).
  destruct (H q (or_introl eq_refl)). rewrite ptr_content_drop by assumption. reflexivity.
Qed.

(* nothing of p lies in [a,b) when the two cut points count the same stamps *)
Lemma filter_id_equal_counts G c a b p x1 x2 :
  sincr G -> aligned_ptr G c p ->
  t_s (p_tr p) <= x1 -> x1 <= x2 -> x2 <= t_e (p_tr p) ->
  (x1 <= a \/ x1 = t_s (p_tr p)) -> a <= x1 -> (b <= x2 \/ x2 = t_e (p_tr p)) -> x2 <= b ->
  cnt_lt x1 G = cnt_lt x2 G ->
  filter (outside_ab a b) (ptr_content G c p) = ptr_content G c p.
Proof.
  intros HG Hal H1 H2 H3 H4 H5 H6 H7 Hc.
  rewrite (filter_both G c p a b HG Hal x1 x2) by assumption.
  rewrite (ptr_content_split G c p x1 HG Hal ltac:(lia)). cbv zeta. f_equal.
  rewrite Hc. f_equal. apply stamps_in_cnt; try assumption; try lia.
Qed.

(* a pointer of the new state addresses the samples of an old pointer that correspond to its
   own (narrower) time range *)
Definition refines_ptr (G : list Z) (c : chan) (q : ptr) : Prop :=
  exists sp, In sp (c_ptrs c) /\ t_s (p_tr sp) <= t_s (p_tr q) /\ t_e (p_tr q) <= t_e (p_tr sp) /\
    ptr_samples c q = sub (ptr_samples c sp) (cnt_lt (t_s (p_tr q)) G - cnt_lt (t_s (p_tr sp)) G)
                                             (cnt_lt (t_e (p_tr q)) G - cnt_lt (t_s (p_tr sp)) G).

Lemma sub_all {A} (l : list A) : sub l 0 (zlen l) = l.
Proof. unfold sub. rewrite Z.sub_0_r, to_nat_zlen. simpl. apply firstn_all. Qed.

Lemma refines_self G c p : aligned_ptr G c p -> In p (c_ptrs c) -> refines_ptr G c p.
Proof.
  intros Hal Hin. exists p. split; [exact Hin|]. split; [lia|]. split; [lia|].
  rewrite Z.sub_diag. unfold aligned_ptr in Hal. rewrite <- Hal. symmetry. apply sub_all.
Qed.

Lemma refines_all_self G c : chan_ok G c -> Forall (refines_ptr G c) (c_ptrs c).
Proof.
  intros Hok. pose proof (ok_al G c Hok) as Hal. rewrite Forall_forall in *. intros p Hp.
  apply refines_self; auto.
Qed.

Section Cases.
Variables (G : list Z) (c : chan) (a b : Z).
Hypothesis HG : sincr G.
Hypothesis Hok : chan_ok G c.
Hypothesis Hab : a <= b.
(* start side *)
Variables (sp : ptr) (xs a' so : Z).
Let ks := cnt_lt xs G - cnt_lt (t_s (p_tr sp)) G.
Hypothesis Hspin : In sp (c_ptrs c).
Hypothesis Hks : 0 <= ks <= zlen (ptr_samples c sp).
Hypothesis Hso : so = bytes_of (firstn (Z.to_nat ks) (ptr_samples c sp)).
Hypothesis Hxs : t_s (p_tr sp) <= xs <= t_e (p_tr sp).
Hypothesis Haxs : a <= xs.
Hypothesis Hxsa : xs <= a \/ xs = t_s (p_tr sp).
Hypothesis Hca' : cnt_lt a' G = cnt_lt xs G.
Hypothesis Ha'xs : a' <= xs.
Hypothesis Ha'lt : 0 < ks -> t_s (p_tr sp) < a'.
(* end side *)
Variables (ep : ptr) (xe b' eo : Z).
Let ke := cnt_lt xe G - cnt_lt (t_s (p_tr ep)) G.
Hypothesis Hepin : In ep (c_ptrs c).
Hypothesis Hke : 0 <= ke <= zlen (ptr_samples c ep).
Hypothesis Heo : eo = p_size ep - bytes_of (firstn (Z.to_nat ke) (ptr_samples c ep)).
Hypothesis Hxe : t_s (p_tr ep) <= xe <= t_e (p_tr ep).
Hypothesis Hxeb : xe <= b.
Hypothesis Hbxe : b <= xe \/ xe = t_e (p_tr ep).
Hypothesis Hb' : ke < zlen (ptr_samples c ep) -> cnt_lt b' G = cnt_lt xe G /\ xe <= b' < t_e (p_tr ep).

Let PL := Ptr (TR (t_s (p_tr sp)) a') (p_file sp) (p_off sp) so.
Let PR := Ptr (TR b' (t_e (p_tr ep))) (p_file ep) (p_off ep + p_size ep - eo) eo.
Let nl := if so =? 0 then [] else [PL].
Let nr := if eo =? 0 then [] else [PR].

Let Hfp : files_pos c := wf_files c (ok_wf G c Hok).

Lemma in_facts p : In p (c_ptrs c) ->
  ptr_aligned c p /\ aligned_ptr G c p /\ 0 <= t_s (p_tr p) /\ t_e (p_tr p) <= MAXTS /\ ne p.
Proof using All.
  intros Hin. pose proof Hok as Hok'. destruct Hok' as [[Hf Ha Hs] Hd Hal Hrng].
  rewrite Forall_forall in Ha, Hal, Hrng.
  pose proof (sorted_ptrs_nonempty _ Hs) as Hne. rewrite Forall_forall in Hne.
  destruct (Hrng p Hin). repeat split; auto. apply Hne. exact Hin.
Qed.

Lemma so_zero : (so =? 0) = (ks =? 0).
Proof using All.
  destruct (in_facts sp Hspin) as (Hpa & _). rewrite Hso. apply so_zero_iff; [|exact Hks].
  apply ptr_samples_pos; assumption.
Qed.

Lemma eo_zero : (eo =? 0) = (ke =? zlen (ptr_samples c ep)).
Proof using All.
  destruct (in_facts ep Hepin) as (Hpa & _). rewrite Heo, <- (ptr_samples_bytes c ep Hpa).
  apply eo_zero_iff; [|exact Hke]. apply ptr_samples_pos; assumption.
Qed.

(* the new pointers: invariants and content *)
Lemma nl_facts :
  Forall (ptr_aligned c) nl /\ Forall (aligned_ptr G c) nl /\
  Forall (fun p => 0 <= t_s (p_tr p) /\ t_e (p_tr p) <= MAXTS) nl /\
  (forall y, In y nl -> ne y /\ t_s (p_tr sp) <= t_s (p_tr y) /\ t_e (p_tr y) <= xs) /\
  flat_map (ptr_content G c) nl =
    combine (stamps_in G (t_s (p_tr sp)) xs) (firstn (Z.to_nat ks) (ptr_samples c sp)).
Proof using All.
  destruct (in_facts sp Hspin) as (Hpa & Hal & H0 & HM & Hne).
  unfold nl. rewrite so_zero. destruct (ks =? 0) eqn:E.
  - apply Z.eqb_eq in E. rewrite E. replace (Z.to_nat 0) with 0%nat by lia.
    cbn [firstn flat_map]. rewrite combine_nil.
    repeat split; try constructor; try (intros ? []); try contradiction.
  - apply Z.eqb_neq in E.
    destruct (left_ptr_ok G c HG Hfp sp a' xs ks Hpa Hal H0 HM eq_refl ltac:(lia) Hxs Hca' Ha'xs ltac:(apply Ha'lt; lia))
      as (A1 & A2 & A3 & A4 & A5).
    unfold PL. rewrite Hso.
    split; [|split; [|split; [|split]]]; try (constructor; [assumption|constructor]).
    + intros y [<-|[]]. split; [exact A3|]. simpl. lia.
    + simpl. rewrite app_nil_r. exact A5.
Qed.

Lemma nr_facts :
  Forall (ptr_aligned c) nr /\ Forall (aligned_ptr G c) nr /\
  Forall (fun p => 0 <= t_s (p_tr p) /\ t_e (p_tr p) <= MAXTS) nr /\
  (forall y, In y nr -> ne y /\ xe <= t_s (p_tr y) /\ t_e (p_tr y) <= t_e (p_tr ep)) /\
  flat_map (ptr_content G c) nr =
    combine (stamps_in G xe (t_e (p_tr ep))) (skipn (Z.to_nat ke) (ptr_samples c ep)).
Proof using All.
  destruct (in_facts ep Hepin) as (Hpa & Hal & H0 & HM & Hne).
  unfold nr. rewrite eo_zero. destruct (ke =? zlen (ptr_samples c ep)) eqn:E.
  - apply Z.eqb_eq in E. rewrite E, to_nat_zlen, skipn_all. cbn [flat_map]. rewrite combine_nil.
    repeat split; try constructor; try (intros ? []); try contradiction.
  - apply Z.eqb_neq in E. destruct (Hb' ltac:(lia)) as [Hc Hbb].
    destruct (right_ptr_ok G c HG Hfp ep b' xe ke Hpa Hal H0 HM eq_refl ltac:(lia) Hxe Hc Hbb)
      as (A1 & A2 & A3 & A4 & A5).
    unfold PR. rewrite Heo.
    split; [|split; [|split; [|split]]]; try (constructor; [assumption|constructor]).
    + intros y [<-|[]]. split; [exact A3|]. simpl. lia.
    + simpl. rewrite app_nil_r. exact A5.
Qed.

Lemma sorted_nl_nr : xs <= xe -> sorted_ptrs (nl ++ nr).
Proof using All.
  intros Hle. destruct nl_facts as (_ & _ & _ & Hl & _). destruct nr_facts as (_ & _ & _ & Hr & _).
  apply sorted_iff. split.
  - rewrite Forall_app. split; rewrite Forall_forall; intros y Hy; [apply Hl|apply Hr]; exact Hy.
  - apply fop_app. split; [|split].
    + unfold nl. destruct (so =? 0); repeat constructor.
    + unfold nr. destruct (eo =? 0); repeat constructor.
    + intros x y Hx Hy. destruct (Hl x Hx) as (_ & _ & A). destruct (Hr y Hy) as (_ & B & _). unfold ord. lia.
Qed.

(* one domain holds both bounds *)
Lemma case_single L R :
  sp = ep -> c_ptrs c = L ++ [sp] ++ R -> xs <= xe ->
  (forall x, In x L -> t_e (p_tr x) <= a) -> (forall z, In z R -> b <= t_s (p_tr z)) ->
  let c' := set_ptrs c (L ++ (nl ++ nr) ++ R) in
  chan_ok G c' /\ content G c' = filter (outside_ab a b) (content G c).
Proof using All.
  intros Hsame E Hle HL HR.
  destruct nl_facts as (L1 & L2 & L3 & L4 & L5). destruct nr_facts as (R1 & R2 & R3 & R4 & R5).
  destruct (in_facts sp Hspin) as (Hpa & Hal & H0 & HM & Hne).
  assert (Hs : sorted_ptrs (c_ptrs c)) by apply Hok. rewrite E in Hs.
  apply sorted_iff in Hs as [_ Ho]. apply fop_app in Ho as (_ & Ho & HoL). apply fop_app in Ho as (_ & _ & HoR).
  apply (splice_ok G c L [sp] R (nl ++ nr) a b (t_s (p_tr sp)) (t_e (p_tr sp)) Hok E).
  - intros x Hx. split; [apply HL; exact Hx|]. apply (HoL x sp Hx). apply in_or_app. left. left. reflexivity.
  - intros z Hz. split; [apply HR; exact Hz|]. apply (HoR sp z); [left; reflexivity|exact Hz].
  - apply sorted_nl_nr. exact Hle.
  - intros y Hy. apply in_app_or in Hy as [Hy|Hy].
    + destruct (L4 y Hy) as (_ & A & B). lia.
    + destruct (R4 y Hy) as (_ & A & B). subst ep. lia.
  - rewrite Forall_app. auto.
  - rewrite Forall_app. auto.
  - rewrite Forall_app. auto.
  - rewrite flat_map_app, L5, R5. simpl flat_map. rewrite app_nil_r. subst ep.
    symmetry. apply filter_both; try assumption; lia.
Qed.

(* the bounds fall into two different domains *)
Lemma case_multi L Mid R :
  c_ptrs c = L ++ (sp :: Mid ++ [ep]) ++ R ->
  (forall x, In x L -> t_e (p_tr x) <= a) -> (forall z, In z R -> b <= t_s (p_tr z)) ->
  let c' := set_ptrs c (L ++ (nl ++ nr) ++ R) in
  chan_ok G c' /\ content G c' = filter (outside_ab a b) (content G c).
Proof using All.
  intros E HL HR.
  destruct nl_facts as (L1 & L2 & L3 & L4 & L5). destruct nr_facts as (R1 & R2 & R3 & R4 & R5).
  destruct (in_facts sp Hspin) as (Hpa & Hal & H0 & HM & Hne).
  destruct (in_facts ep Hepin) as (Hpa' & Hal' & H0' & HM' & Hne').
  assert (Hs : sorted_ptrs (c_ptrs c)) by apply Hok. rewrite E in Hs.
  apply sorted_iff in Hs as [_ Ho]. apply fop_app in Ho as (_ & Ho & HoL). apply fop_app in Ho as (HoM & _ & HoR).
  destruct (fop_cons_inv _ _ _ HoM) as [Hsp_after HoM'].
  rewrite Forall_app in Hsp_after. destruct Hsp_after as [Hsp_mid Hsp_ep].
  rewrite Forall_forall in Hsp_mid. pose proof (Forall_inv Hsp_ep) as Hspep.
  apply fop_app in HoM' as (_ & _ & Hmid_ep).
  unfold ord in *.
  apply (splice_ok G c L (sp :: Mid ++ [ep]) R (nl ++ nr) a b (t_s (p_tr sp)) (t_e (p_tr ep)) Hok E).
  - intros x Hx. split; [apply HL; exact Hx|]. apply (HoL x sp Hx). left. reflexivity.
  - intros z Hz. split; [apply HR; exact Hz|]. apply (HoR ep z); [|exact Hz].
    right. apply in_or_app. right. left. reflexivity.
  - apply sorted_nl_nr. unfold ne in *. lia.
  - intros y Hy. unfold ne in *. apply in_app_or in Hy as [Hy|Hy].
    + destruct (L4 y Hy) as (_ & A & B). lia.
    + destruct (R4 y Hy) as (_ & A & B). lia.
  - rewrite Forall_app. auto.
  - rewrite Forall_app. auto.
  - rewrite Forall_app. auto.
  - rewrite flat_map_app, L5, R5. simpl flat_map. rewrite flat_map_app. simpl flat_map.
    rewrite app_nil_r, !filter_app.
    unfold ne in *.
    rewrite (filter_both G c sp a b HG Hal xs (t_e (p_tr sp))); try lia.
    rewrite (filter_both G c ep a b HG Hal' (t_s (p_tr ep)) xe); try lia.
    rewrite !stamps_empty by assumption.
    rewrite filter_mid_nil.
    2:{ intros q Hq. pose proof (Hsp_mid q Hq). pose proof (Hmid_ep q ep Hq (or_introl eq_refl)). lia. }
    replace (skipn (Z.to_nat (cnt_lt (t_e (p_tr sp)) G - cnt_lt (t_s (p_tr sp)) G)) (ptr_samples c sp)) with (@nil sample).
    2:{ symmetry. unfold aligned_ptr in Hal. rewrite <- Hal, to_nat_zlen. apply skipn_all. }
    rewrite Z.sub_diag. simpl. rewrite !app_nil_r.
    destruct (stamps_in G (t_s (p_tr sp)) xs); reflexivity.
Qed.
Lemma skip_single L R :
  sp = ep -> c_ptrs c = L ++ [sp] ++ R -> xs <= xe -> ks = ke ->
  (forall x, In x L -> t_e (p_tr x) <= a) -> (forall z, In z R -> b <= t_s (p_tr z)) ->
  content G c = filter (outside_ab a b) (content G c).
Proof using All.
  intros Hsame E Hle Hk HL HR. destruct (in_facts sp Hspin) as (_ & Hal & _).
  unfold content. rewrite E, !flat_map_app, !filter_app. simpl flat_map. rewrite app_nil_r.
  rewrite (filter_flat_map_keep _ _ L) by (intros x Hx; apply ptr_content_keep_before; auto).
  rewrite (filter_flat_map_keep _ _ R) by (intros x Hx; apply ptr_content_keep_after; auto).
  f_equal. f_equal. symmetry. subst ep.
  apply (filter_id_equal_counts G c a b sp xs xe); try assumption; try lia.
Qed.

Lemma skip_multi L R :
  c_ptrs c = L ++ [sp; ep] ++ R -> ks = zlen (ptr_samples c sp) -> ke = 0 ->
  (forall x, In x L -> t_e (p_tr x) <= a) -> (forall z, In z R -> b <= t_s (p_tr z)) ->
  content G c = filter (outside_ab a b) (content G c).
Proof using All.
  intros E Hk1 Hk2 HL HR.
  destruct (in_facts sp Hspin) as (_ & Hal & _ & _ & Hne).
  destruct (in_facts ep Hepin) as (_ & Hal' & _ & _ & Hne').
  assert (Hs : sorted_ptrs (c_ptrs c)) by apply Hok. rewrite E in Hs.
  apply sorted_iff in Hs as [_ Ho]. apply fop_app in Ho as (_ & Ho & _). apply fop_app in Ho as (Ho & _ & _).
  destruct (fop_cons_inv _ _ _ Ho) as [Hspep _]. pose proof (Forall_inv Hspep) as Hord. unfold ord, ne in *.
  unfold content. rewrite E, !flat_map_app, !filter_app. simpl flat_map. rewrite app_nil_r, filter_app.
  rewrite (filter_flat_map_keep _ _ L) by (intros x Hx; apply ptr_content_keep_before; auto).
  rewrite (filter_flat_map_keep _ _ R) by (intros x Hx; apply ptr_content_keep_after; auto).
  f_equal. f_equal. f_equal.
  - symmetry. apply (filter_id_equal_counts G c a b sp xs (t_e (p_tr sp))); try assumption; try lia.
    unfold aligned_ptr in Hal. unfold ks in Hk1. lia.
  - symmetry. apply (filter_id_equal_counts G c a b ep (t_s (p_tr ep)) xe); try assumption; try lia.
Qed.
(* the new pointers address sub-lists of the old pointers' samples *)
Lemma nl_refines : Forall (refines_ptr G c) nl.
Proof using All.
  destruct (in_facts sp Hspin) as (Hpa & Hal & H0 & HM & Hne).
  unfold nl. rewrite so_zero. destruct (ks =? 0) eqn:E; [constructor|]. apply Z.eqb_neq in E.
  constructor; [|constructor]. exists sp. split; [exact Hspin|].
  destruct (left_half c sp Hfp Hpa (TR (t_s (p_tr sp)) a') (Z.to_nat ks)) as [Hs _].
  unfold PL. rewrite Hso. simpl t_s. simpl t_e. split; [lia|]. split; [lia|].
  rewrite Hs, Z.sub_diag, Hca'. unfold sub. fold ks. rewrite Z.sub_0_r. reflexivity.
Qed.

Lemma nr_refines : Forall (refines_ptr G c) nr.
Proof using All.
  destruct (in_facts ep Hepin) as (Hpa & Hal & H0 & HM & Hne).
  unfold nr. rewrite eo_zero. destruct (ke =? zlen (ptr_samples c ep)) eqn:E; [constructor|]. apply Z.eqb_neq in E.
  destruct (Hb' ltac:(lia)) as [Hc Hbb].
  constructor; [|constructor]. exists ep. split; [exact Hepin|].
  destruct (right_half c ep Hfp Hpa (TR b' (t_e (p_tr ep))) (Z.to_nat ke)) as (Hs & _ & _).
  unfold PR. rewrite Heo. simpl t_s. simpl t_e. split; [lia|]. split; [lia|].
  rewrite Hs, Hc. fold ke. unfold aligned_ptr in Hal. rewrite <- Hal.
  unfold sub. rewrite firstn_all2; [reflexivity|]. rewrite skipn_length. unfold zlen in *. lia.
Qed.

Lemma result_refines L M R :
  c_ptrs c = L ++ M ++ R -> Forall (refines_ptr G c) (L ++ (nl ++ nr) ++ R).
Proof using All.
  intros E. pose proof (refines_all_self G c Hok) as Hall. rewrite E in Hall.
  rewrite !Forall_app in Hall. destruct Hall as (HL & _ & HR).
  rewrite !Forall_app. split; [exact HL|]. split; [|exact HR]. split; [apply nl_refines|apply nr_refines].
Qed.
End Cases.

(* ------------------------------------------------------------------ the theorem *)
Lemma zlen_app3 {A} (L : list A) x : zlen (L ++ [x]) = zlen L + 1.
Proof. apply zlen_snoc. Qed.

Theorem dom_delete_exact P c a b c' :
  widx P -> chan_ok (allst P) c -> a <= b ->
  dom_delete true P c (TR a b) = Ok c' ->
  chan_ok (allst P) c' /\
  content (allst P) c' = filter (outside_ab a b) (content (allst P) c) /\
  Forall (refines_ptr (allst P) c) (c_ptrs c').
Proof.
  intros Hw Hok Hab Hdel. set (G := allst P) in *.
  pose proof (allst_sincr P Hw) as HG. fold G in HG.
  assert (Hsorted : sorted_ptrs (c_ptrs c)) by apply Hok.
  assert (Hfp : files_pos c) by apply Hok.
  assert (Hnoop : forall L R, c_ptrs c = L ++ R -> (forall x, In x L -> t_e (p_tr x) <= a) ->
            (forall z, In z R -> b <= t_s (p_tr z)) ->
            chan_ok G c /\ content G c = filter (outside_ab a b) (content G c) /\
            Forall (refines_ptr G c) (c_ptrs c)).
  { intros L R E HL HR. split; [exact Hok|]. split; [symmetry; eapply content_noop; eauto|].
    apply refines_all_self. exact Hok. }
  unfold dom_delete in Hdel. simpl t_s in Hdel. simpl t_e in Hdel.
  destruct (usearch (doms c) (point a)) as [sd0 sx] eqn:Eus.
  destruct (start_pos c Hsorted a sd0 sx Eus) as [(Hsx & Hsd & Hall)|(L & sp & R & E & Hl & HLa & Hsc)].
  { subst sx. simpl in Hdel, Hsd. rewrite Hsd, Z.eqb_refl in Hdel. inversion Hdel; subst c'.
    apply (Hnoop (c_ptrs c) []); [rewrite app_nil_r; reflexivity|exact Hall|intros z []]. }
  set (sd := if sx then sd0 else sd0 + 1) in *.
  assert (Hsp : znth (c_ptrs c) sd = Some sp) by (rewrite E, <- Hl; apply znth_mid).
  assert (Hsdlt : sd <> zlen (c_ptrs c)) by (pose proof (znth_Some _ _ _ Hsp); lia).
  replace (negb sx && (sd =? zlen (c_ptrs c))) with false in Hdel
    by (destruct (sd =? zlen (c_ptrs c)) eqn:E0; [apply Z.eqb_eq in E0; contradiction|rewrite andb_false_r; reflexivity]).
  rewrite Hsp in Hdel.
  destruct (if sx then calc_start_offset true P c (t_s (p_tr sp)) a else Ok (0, t_s (p_tr sp)))
    as [[so a']|e] eqn:Est; simpl in Hdel; [|discriminate].
  destruct (start_facts P c Hw Hok L sp R a sx so a' E Hsc Est)
    as (Hks & Hso & Hxs & Haxs & Hxsa & Hca' & Ha'xs & Ha'lt & Hksx).
  fold G in Hks, Hso, Hca', Ha'lt, Hksx.
  set (xs := if sx then a else t_s (p_tr sp)) in *.
  set (ks := cnt_lt xs G - cnt_lt (t_s (p_tr sp)) G) in *.
  destruct (usearch (doms c) (point b)) as [ed ex] eqn:Eue.
  destruct (end_pos c Hsorted b ed ex Eue) as [(Hex & Hed & Hall)|(L' & ep & R' & E' & Hl' & HRb & Hec)].
  { subst ex ed. simpl in Hdel. inversion Hdel; subst c'.
    apply (Hnoop [] (c_ptrs c)); [reflexivity|intros x []|intros z Hz; pose proof (Hall z Hz); lia]. }
  assert (Hep : znth (c_ptrs c) ed = Some ep) by (rewrite E', <- Hl'; apply znth_mid).
  assert (Hedne : ed <> -1) by (pose proof (znth_Some _ _ _ Hep); lia).
  replace (negb ex && (ed =? -1)) with false in Hdel
    by (destruct (ed =? -1) eqn:E0; [apply Z.eqb_eq in E0; contradiction|rewrite andb_false_r; reflexivity]).
  rewrite Hep in Hdel.
  match type of Hdel with rbind ?x _ = _ => destruct x as [[eo b']|e] eqn:Een end; simpl in Hdel; [|discriminate].
  destruct (end_facts P c Hw Hok L' ep R' b ex eo b' E' Hec Een)
    as (Hke & Heo & Hxe & Hxeb & Hbxe & Hb' & Hkex).
  fold G in Hke, Heo, Hb', Hkex.
  set (xe := if ex then b else t_e (p_tr ep)) in *.
  set (ke := cnt_lt xe G - cnt_lt (t_s (p_tr ep)) G) in *.
  assert (Hspin : In sp (c_ptrs c)) by (rewrite E; apply In_app_mid).
  assert (Hepin : In ep (c_ptrs c)) by (rewrite E'; apply In_app_mid).
  destruct (ptr_in_facts P c Hok L sp R E) as (Hspa & Hspal & Hsp0 & HspM & Hspne). fold G in Hspal.
  destruct (ptr_in_facts P c Hok L' ep R' E') as (Hepa & Hepal & Hep0 & HepM & Hepne). fold G in Hepal.
  pose proof (ptr_samples_pos c sp Hfp Hspa) as Hpos_s.
  pose proof (ptr_samples_pos c ep Hfp Hepa) as Hpos_e.
  pose proof (ptr_samples_bytes c sp Hspa) as Hbs. pose proof (ptr_samples_bytes c ep Hepa) as Hbe.
  pose proof (bytes_firstn_bounds (ptr_samples c sp) (Z.to_nat ks) Hpos_s) as Hsob.
  pose proof (bytes_firstn_bounds (ptr_samples c ep) (Z.to_nat ke) Hpos_e) as Heob.
  rewrite (validate_simple (c_ptrs c) sd ed so eo sp ep Hsp Hep ltac:(lia) ltac:(lia)) in Hdel.
  (* the two generic outcomes *)
  pose proof (case_single G c a b HG Hok Hab sp xs a' so Hspin Hks Hso Hxs Haxs Hxsa Hca' Ha'xs Ha'lt
                ep xe b' eo Hepin Hke Heo Hxe Hxeb Hbxe Hb') as Hsingle.
  pose proof (case_multi G c a b HG Hok Hab sp xs a' so Hspin Hks Hso Hxs Haxs Hxsa Hca' Ha'xs Ha'lt
                ep xe b' eo Hepin Hke Heo Hxe Hxeb Hbxe Hb') as Hmulti.
  pose proof (skip_single G c a b HG Hok Hab sp xs a' so Hspin Hks Hso Hxs Haxs Hxsa Hca' Ha'xs Ha'lt
                ep xe b' eo Hepin Hke Heo Hxe Hxeb Hbxe Hb') as Hss.
  pose proof (skip_multi G c a b HG Hok Hab sp xs a' so Hspin Hks Hso Hxs Haxs Hxsa Hca' Ha'xs Ha'lt
                ep xe b' eo Hepin Hke Heo Hxe Hxeb Hbxe Hb') as Hsm.
  pose proof (result_refines G c a b HG Hok Hab sp xs a' so Hspin Hks Hso Hxs Haxs Hxsa Hca' Ha'xs Ha'lt
                ep xe b' eo Hepin Hke Heo Hxe Hxeb Hbxe Hb') as Hrefs.
  cbv zeta in Hsingle, Hmulti. fold ks ke in Hss, Hsm.
  destruct (Z.lt_trichotomy sd ed) as [Hlt|[Heq|Hgt]].
  - (* the bounds fall into different domains *)
    destruct (split_two L R L' R' sp ep ltac:(rewrite <- E; exact E') ltac:(unfold zlen in *; lia))
      as (Mid & HR & HL').
    replace (ed <? sd) with false in Hdel by (symmetry; apply Z.ltb_ge; lia).
    replace (sd =? ed) with false in Hdel by (symmetry; apply Z.eqb_neq; lia).
    simpl in Hdel.
    assert (Hps : c_ptrs c = L ++ (sp :: Mid ++ [ep]) ++ R').
    { rewrite E, HR. simpl. rewrite <- app_assoc. reflexivity. }
    destruct ((sd =? ed - 1) && (so =? p_size sp) && (eo =? p_size ep)) eqn:Eskip.
    + (* adjacent domains, nothing between the snapped bounds *)
      inversion Hdel; subst c'. split; [exact Hok|]. split; [|apply refines_all_self; exact Hok].
      apply andb_true_iff in Eskip as [Eskip E3]. apply andb_true_iff in Eskip as [E1 E2].
      apply Z.eqb_eq in E1, E2, E3.
      assert (Mid = []).
      { rewrite HL' in Hl'. rewrite zlen_app, zlen_cons in Hl'. destruct Mid; [reflexivity|].
        rewrite zlen_cons in Hl'. pose proof (zlen_nonneg Mid). lia. }
      subst Mid. apply (Hsm L R').
      * exact Hps.
      * (* so = size: every sample of sp is kept *)
        destruct (bytes_firstn_mono (ptr_samples c sp) (Z.to_nat ks) (length (ptr_samples c sp)) Hpos_s
                    ltac:(unfold zlen in Hks; lia)) as [_ Hinj].
        rewrite firstn_all in Hinj. unfold zlen. specialize (Hinj ltac:(lia)). lia.
      * (* eo = size: no sample of ep is dropped *)
        pose proof (bytes_firstn_zero (ptr_samples c ep) (Z.to_nat ke) Hpos_e ltac:(unfold zlen in Hke; lia) ltac:(lia)). lia.
      * exact HLa.
      * exact HRb.
    + inversion Hdel; subst c'. clear Hdel.
      assert (Hlist : firstn (Z.to_nat sd) (firstn (Z.to_nat sd) (c_ptrs c) ++ skipn (Z.to_nat (ed + 1)) (c_ptrs c)) ++
                ((if so =? 0 then [] else [Ptr (TR (t_s (p_tr sp)) a') (p_file sp) (p_off sp) so]) ++
                 (if eo =? 0 then [] else [Ptr (TR b' (t_e (p_tr ep))) (p_file ep) (p_off ep + p_size ep - eo) eo])) ++
                skipn (Z.to_nat sd) (firstn (Z.to_nat sd) (c_ptrs c) ++ skipn (Z.to_nat (ed + 1)) (c_ptrs c)) =
              L ++ ((if so =? 0 then [] else [Ptr (TR (t_s (p_tr sp)) a') (p_file sp) (p_off sp) so]) ++
                    (if eo =? 0 then [] else [Ptr (TR b' (t_e (p_tr ep))) (p_file ep) (p_off ep + p_size ep - eo) eo])) ++ R').
      { assert (H1 : firstn (Z.to_nat sd) (c_ptrs c) = L) by (rewrite Hps, <- Hl; apply firstn_zlen_app).
        assert (H2 : skipn (Z.to_nat (ed + 1)) (c_ptrs c) = R').
        { rewrite E', (app_cons_assoc L' ep R'), <- Hl', <- (zlen_snoc L' ep). apply skipn_zlen_app. }
        rewrite H1, H2, <- Hl, firstn_zlen_app, skipn_zlen_app. reflexivity. }
      rewrite Hlist. destruct (Hmulti L Mid R' Hps HLa HRb) as [A1 A2].
      split; [exact A1|]. split; [exact A2|]. simpl c_ptrs. apply (Hrefs L (sp :: Mid ++ [ep]) R' Hps).
  - (* both bounds in the same domain *)
    assert (HLL : L = L' /\ sp :: R = ep :: R').
    { apply app_eq_len; [rewrite <- E; exact E'|unfold zlen in *; lia]. }
    destruct HLL as [<- HRR]. inversion HRR as [[Hspep HRR']]. subst R'.
    replace (ed <? sd) with false in Hdel by (symmetry; apply Z.ltb_ge; lia).
    replace (sd =? ed) with true in Hdel by (symmetry; apply Z.eqb_eq; lia).
    replace (sd =? ed - 1) with false in Hdel by (symmetry; apply Z.eqb_neq; lia).
    simpl in Hdel.
    assert (Hxle : xs <= xe).
    { unfold xs, xe. destruct sx, ex; rewrite <- ?Hspep in *; lia. }
    assert (Hps : c_ptrs c = L ++ [sp] ++ R) by (rewrite E; reflexivity).
    destruct (p_size sp <? so + eo) eqn:Ebad; [discriminate|]. apply Z.ltb_ge in Ebad.
    destruct (so + eo =? p_size sp) eqn:Eskip.
    + inversion Hdel; subst c'. split; [exact Hok|]. split; [|apply refines_all_self; exact Hok].
      apply Z.eqb_eq in Eskip.
      apply (Hss L R Hspep Hps Hxle); try assumption.
      (* equal byte counts of the two prefixes: equal sample counts *)
      rewrite <- Hspep in *.
      assert (Hb2 : bytes_of (firstn (Z.to_nat ks) (ptr_samples c sp)) = bytes_of (firstn (Z.to_nat ke) (ptr_samples c sp))) by lia.
      destruct (Z_le_gt_dec ks ke).
      * destruct (bytes_firstn_mono (ptr_samples c sp) (Z.to_nat ks) (Z.to_nat ke) Hpos_s
                    ltac:(unfold zlen in *; lia)) as [_ Hinj]. specialize (Hinj Hb2). lia.
      * destruct (bytes_firstn_mono (ptr_samples c sp) (Z.to_nat ke) (Z.to_nat ks) Hpos_s
                    ltac:(unfold zlen in *; lia)) as [_ Hinj]. specialize (Hinj (eq_sym Hb2)). lia.
    + inversion Hdel; subst c'. clear Hdel.
      assert (Hlist : firstn (Z.to_nat sd) (firstn (Z.to_nat sd) (c_ptrs c) ++ skipn (Z.to_nat (ed + 1)) (c_ptrs c)) ++
                ((if so =? 0 then [] else [Ptr (TR (t_s (p_tr sp)) a') (p_file sp) (p_off sp) so]) ++
                 (if eo =? 0 then [] else [Ptr (TR b' (t_e (p_tr ep))) (p_file ep) (p_off ep + p_size ep - eo) eo])) ++
                skipn (Z.to_nat sd) (firstn (Z.to_nat sd) (c_ptrs c) ++ skipn (Z.to_nat (ed + 1)) (c_ptrs c)) =
              L ++ ((if so =? 0 then [] else [Ptr (TR (t_s (p_tr sp)) a') (p_file sp) (p_off sp) so]) ++
                    (if eo =? 0 then [] else [Ptr (TR b' (t_e (p_tr ep))) (p_file ep) (p_off ep + p_size ep - eo) eo])) ++ R).
      { assert (H1 : firstn (Z.to_nat sd) (c_ptrs c) = L) by (rewrite E, <- Hl; apply firstn_zlen_app).
        assert (H2 : skipn (Z.to_nat (ed + 1)) (c_ptrs c) = R).
        { rewrite E, (app_cons_assoc L sp R), <- Heq, <- Hl, <- (zlen_snoc L sp). apply skipn_zlen_app. }
        rewrite H1, H2, <- Hl, firstn_zlen_app, skipn_zlen_app. reflexivity. }
      rewrite Hlist. destruct (Hsingle L R Hspep Hps Hxle HLa HRb) as [A1 A2].
      split; [exact A1|]. split; [exact A2|]. simpl c_ptrs. apply (Hrefs L [sp] R Hps).
  - (* the end position precedes the start position: both bounds in one gap, or an error *)
    replace (ed <? sd) with true in Hdel by (symmetry; apply Z.ltb_lt; lia).
    destruct (negb (sd =? ed + 1) || negb (so =? 0) || negb (eo =? 0)) eqn:Eg; simpl in Hdel; [discriminate|].
    apply orb_false_iff in Eg as [Eg E3]. apply orb_false_iff in Eg as [E1 E2].
    apply negb_false_iff in E1, E2, E3. apply Z.eqb_eq in E1, E2, E3.
    replace (sd =? ed) with false in Hdel by (symmetry; apply Z.eqb_neq; lia).
    replace (sd =? ed - 1) with false in Hdel by (symmetry; apply Z.eqb_neq; lia).
    simpl in Hdel. rewrite E2, E3 in Hdel. simpl in Hdel. inversion Hdel; subst c'. clear Hdel.
    assert (Hlist : firstn (Z.to_nat sd) (firstn (Z.to_nat sd) (c_ptrs c) ++ skipn (Z.to_nat (ed + 1)) (c_ptrs c)) ++
              [] ++ skipn (Z.to_nat sd) (firstn (Z.to_nat sd) (c_ptrs c) ++ skipn (Z.to_nat (ed + 1)) (c_ptrs c)) =
              c_ptrs c).
    { rewrite <- E1.
      assert (H1 : firstn (Z.to_nat sd) (c_ptrs c) = L) by (rewrite E, <- Hl; apply firstn_zlen_app).
      assert (H2 : skipn (Z.to_nat sd) (c_ptrs c) = sp :: R) by (rewrite E, <- Hl; apply skipn_zlen_app).
      rewrite H1, H2, <- Hl, firstn_zlen_app, skipn_zlen_app. simpl. symmetry. exact E. }
    simpl app in Hlist. simpl app. rewrite Hlist, set_ptrs_same.
    (* the end pointer is the one just before sp: everything up to it ends before a *)
    apply (Hnoop L (sp :: R) E HLa).
    intros z Hz.
    (* ep is the last element of L, so sp and R start after b *)
    assert (HL' : L = L' ++ [ep]).
    { assert (Hlen : length L = S (length L')) by (unfold zlen in *; lia).
      assert (HE2 : L ++ sp :: R = (L' ++ [ep]) ++ R') by (rewrite <- E, E', <- app_assoc; reflexivity).
      destruct (app_eq_len L (L' ++ [ep]) (sp :: R) R' HE2 ltac:(rewrite app_length; simpl; lia)) as [A _]. exact A. }
    assert (HR' : R' = sp :: R).
    { assert (HE2 : (L' ++ [ep]) ++ R' = L ++ sp :: R) by (rewrite <- E, E', <- app_assoc; reflexivity).
      rewrite <- HL' in HE2. apply app_inv_head in HE2. exact HE2. }
    apply HRb. rewrite HR'. exact Hz.
Qed.
