(* Cesium/LayoutCheck.v — a decidable check of the layout hypotheses of the exactness theorems,
   proved sound, so that concrete layouts (examples, generated cases) can be shown to satisfy
   them by evaluation. *)
From Coq Require Import ZArith List Bool Lia Sorting.Sorted.
From Synnax Require Import Cesium.LayoutOk Cesium.Store Cesium.StoreProofs Cesium.IndexSearchProofs Cesium.DomIterProofs
     Cesium.Distance Cesium.UnaryIter Cesium.DistanceProofs Cesium.UnaryIterExact Cesium.SliceProofs Cesium.UnaryIterSpec Cesium.TruthProofs Cesium.DistanceChain.
Import ListNotations.
Local Open Scope Z_scope.

Lemma chain_sorted {A} (R : A -> A -> Prop) (r : A -> A -> bool) :
  (forall a b, r a b = true -> R a b) -> (forall a b c, R a b -> R b c -> R a c) ->
  forall l, chain_okb r l = true -> StronglySorted R l.
Proof.
  intros Hr Tr. induction l as [|a l IH]; intros H; [constructor|].
  destruct l as [|b l'].
  - constructor; constructor.
  - cbn [chain_okb] in H. apply andb_true_iff in H. destruct H as [H1 H2].
    specialize (IH H2). constructor; [exact IH|].
    inversion IH as [|? ? S F]; subst. constructor; [apply Hr, H1|].
    rewrite Forall_forall in *. intros x Hx. eapply Tr; [apply Hr, H1|apply F, Hx].
Qed.

Lemma incb_sound l : incb l = true -> inc l.
Proof. apply chain_sorted; [intros a b H; apply Z.ltb_lt; exact H|intros; lia]. Qed.

Lemma layb_sound L : layb L = true -> lay L.
Proof.
  unfold layb. intros H. apply andb_true_iff in H. destruct H as [H1 H2].
  assert (W : Forall dwf L).
  { apply Forall_forall. intros d Hd. rewrite forallb_forall in H1. specialize (H1 d Hd). unfold dwfb in H1. zb. exact H1. }
  split; [exact W|].
  (* transitivity needs the non-emptiness of the middle domain: sort the list of wf domains *)
  clear H1. induction L as [|a L IH]; [constructor|].
  apply Forall_cons_iff in W. destruct W as [Wa W].
  destruct L as [|b L'].
  - constructor; constructor.
  - cbn [chain_okb] in H2. apply andb_true_iff in H2. destruct H2 as [H2 H3]. zb.
    specialize (IH H3 W). constructor; [exact IH|].
    inversion IH as [|? ? S F]; subst. constructor; [exact H2|].
    apply Forall_cons_iff in W. destruct W as [Wb _]. unfold dwf, dbefore in *.
    rewrite Forall_forall in *. intros x Hx. specialize (F x Hx). unfold dbefore in F. lia.
Qed.

Lemma iwfb_sound q : iwfb q = true -> iwf q.
Proof.
  unfold iwfb. intros H. apply andb_true_iff in H. destruct H as [H1 H2]. split; [apply incb_sound, H1|].
  apply Forall_forall. intros x Hx. rewrite forallb_forall in H2. specialize (H2 x Hx).
  apply andb_true_iff in H2. destruct H2; zb. lia.
Qed.

Lemma ilayb_sound P : ilayb P = true -> ilay P.
Proof.
  unfold ilayb. intros H. apply andb_true_iff in H. destruct H as [H1 H2]. split; [apply layb_sound, H1|].
  apply Forall_forall. intros q Hq. rewrite forallb_forall in H2. apply iwfb_sound, H2, Hq.
Qed.

(* ---- a data domain inside ONE index domain ---- *)
Lemma stamps_in_concat t ls : stamps_in t (concat ls) = concat (map (stamps_in t) ls).
Proof.
  unfold stamps_in. induction ls as [|l ls IH]; [reflexivity|]. simpl. rewrite filter_app, IH. reflexivity.
Qed.

Lemma stamps_of_one P k q t : ilay P -> znth P k = Some q ->
  t_s (d_tr q) <= t_s t -> t_e t <= t_e (d_tr q) ->
  stamps_in t (stamps_of P) = stamps_in t (d_data q).
Proof.
  intros [HL HW] Hk H1 H2. destruct (znth_split P k q Hk) as (pre & post & -> & _).
  destruct (lay_split pre q post HL) as (Lpre & Wq & Lpost & Bef & Aft).
  apply Forall_app in HW. destruct HW as [Wpre Wqp]. apply Forall_cons_iff in Wqp. destruct Wqp as [Wq' Wpost].
  unfold stamps_of. rewrite map_app, concat_app. cbn [map concat].
  unfold stamps_in at 1. rewrite !filter_app. fold (stamps_in t (d_data q)).
  assert (E1 : filter (contains_stamp t) (concat (map d_data pre)) = []).
  { apply filter_none. intros x Hx. apply in_concat in Hx. destruct Hx as (l & Hl & Hx).
    apply in_map_iff in Hl. destruct Hl as (p & <- & Hp).
    rewrite Forall_forall in Wpre. pose proof (iwf_stamps p x (Wpre p Hp) Hx) as R.
    specialize (Bef p Hp). unfold dbefore in Bef.
    unfold contains_stamp. apply andb_false_iff. left. apply Z.leb_gt. lia. }
  assert (E2 : filter (contains_stamp t) (concat (map d_data post)) = []).
  { apply filter_none. intros x Hx. apply in_concat in Hx. destruct Hx as (l & Hl & Hx).
    apply in_map_iff in Hl. destruct Hl as (p & <- & Hp).
    rewrite Forall_forall in Wpost. pose proof (iwf_stamps p x (Wpost p Hp) Hx) as R.
    specialize (Aft p Hp). unfold dbefore in Aft.
    unfold contains_stamp. apply andb_false_iff. right. apply Z.ltb_ge. lia. }
  rewrite E1, E2, app_nil_r. reflexivity.
Qed.

Lemma dist_ok_one_domain P k q a e : ilay P -> znth P k = Some q ->
  t_s (d_tr q) <= a < t_e (d_tr q) -> e <= t_e (d_tr q) -> dist_ok P a e.
Proof.
  intros HP Hk Ha He t Ht.
  assert (Wq : iwf q).
  { destruct HP as [_ W]. rewrite Forall_forall in W. apply W.
    unfold znth in Hk. destruct (k <? 0); [discriminate|]. eapply nth_error_In; eauto. }
  destruct (distance_one_domain P k q (proj1 HP) Hk (proj1 Wq) a t Ha ltac:(lia)) as (da & D1 & D2).
  exists da. split; [exact D1|]. rewrite D2. unfold between.
  rewrite <- (stamps_in_len a t (stamps_of P)) by lia.
  rewrite <- (stamps_in_len a t (d_data q)) by lia.
  rewrite (stamps_of_one P k q (TR a t) HP Hk); cbn [t_s t_e]; [reflexivity|lia|lia].
Qed.

(* ---- a data domain over a run of contiguous index domains ---- *)
Lemma contig_prefix l1 l2 : contig (l1 ++ l2) -> contig l1.
Proof.
  induction l1 as [|x l1 IH]; intros H; [exact I|]. destruct l1 as [|y l1']; [exact I|].
  cbn [app contig] in *. destruct H as [H1 H2]. split; [exact H1|apply IH, H2].
Qed.

(* the domain of a contiguous run in which a stamp beyond its first domain falls *)
Lemma find_end t : forall rest x, contig (x :: rest) ->
  t_e (d_tr x) < t <= t_e (d_tr (last rest x)) ->
  exists mid qe rest', rest = mid ++ qe :: rest' /\ t_s (d_tr qe) < t <= t_e (d_tr qe).
Proof.
  induction rest as [|y r IH]; intros x Hc Ht; [cbn in Ht; lia|].
  destruct Hc as [Hxy Hc'].
  destruct (Z_le_gt_dec t (t_e (d_tr y))) as [Hle|Hgt].
  - exists [], y, r. split; [reflexivity|lia].
  - rewrite last_cons in Ht. destruct (IH y Hc' ltac:(lia)) as (mid & qe & rest' & -> & H).
    exists (y :: mid), qe, rest'. split; [reflexivity|exact H].
Qed.

Lemma dist_ok_run P L1 q rest L2 a e : ilay P -> P = L1 ++ q :: rest ++ L2 -> contig (q :: rest) ->
  t_s (d_tr q) <= a < t_e (d_tr q) -> e <= t_e (d_tr (last rest q)) -> dist_ok P a e.
Proof.
  intros HP HPeq Hc Ha He t Ht.
  destruct (Z_le_gt_dec t (t_e (d_tr q))) as [Hle|Hgt].
  - assert (Hk : znth P (zlen L1) = Some q) by (rewrite HPeq; apply znth_mid).
    exact (dist_ok_one_domain P (zlen L1) q a (t_e (d_tr q)) HP Hk Ha ltac:(lia) t ltac:(lia)).
  - destruct (find_end t rest q Hc ltac:(lia)) as (mid & qe & rest' & -> & Hqe).
    assert (HPeq' : P = L1 ++ q :: mid ++ qe :: (rest' ++ L2)).
    { rewrite HPeq. rewrite <- app_assoc. reflexivity. }
    assert (Hc' : contig (q :: mid ++ [qe])).
    { apply (contig_prefix (q :: mid ++ [qe]) rest').
      replace ((q :: mid ++ [qe]) ++ rest') with (q :: mid ++ qe :: rest') by (cbn [app]; rewrite <- app_assoc; reflexivity).
      exact Hc. }
    destruct HP as [HL HW]. rewrite HPeq' in HL, HW.
    assert (Wq : iwf q).
    { apply Forall_app in HW. destruct HW as [_ HW]. apply Forall_cons_iff in HW. apply HW. }
    assert (Wqe : iwf qe).
    { apply Forall_app in HW. destruct HW as [_ HW]. apply Forall_cons_iff in HW. destruct HW as [_ HW].
      apply Forall_app in HW. destruct HW as [_ HW]. apply Forall_cons_iff in HW. apply HW. }
    destruct (distance_run L1 mid (rest' ++ L2) q qe HL Hc' (proj1 Wq) (proj1 Wqe) a t Ha Hqe) as (da & D1 & D2).
    exists da. rewrite HPeq'. split; [exact D1|]. rewrite D2.
    symmetry. apply (run_between_count L1 q mid qe (rest' ++ L2) a t HL HW Ha Hqe).
Qed.

Lemma contig_run_spec x l : contig (x :: contig_run x l) /\ exists r, l = contig_run x l ++ r.
Proof.
  revert x. induction l as [|y l IH]; intros x; [split; [exact I|exists []; reflexivity]|].
  cbn [contig_run]. destruct (t_e (d_tr x) =? t_s (d_tr y)) eqn:E; zb.
  - destruct (IH y) as (C & r & Hr). split; [split; [exact E|exact C]|]. exists r. cbn [app]. f_equal. exact Hr.
  - split; [exact I|]. exists (y :: l). reflexivity.
Qed.

Lemma drop_ended_spec ts P : exists L1, P = L1 ++ drop_ended ts P.
Proof.
  induction P as [|q r IH]; [exists []; reflexivity|]. cbn [drop_ended].
  destruct (t_e (d_tr q) <=? ts); [|exists []; reflexivity].
  destruct IH as [L1 H]. exists (q :: L1). cbn [app]. f_equal. exact H.
Qed.

Lemma withinb_sound P d : ilay P -> dwf d -> withinb P d = true -> within P d.
Proof.
  unfold withinb. intros HP Wd H.
  destruct (drop_ended_spec (t_s (d_tr d)) P) as [L1 HL1].
  destruct (drop_ended (t_s (d_tr d)) P) as [|q r] eqn:DE; [discriminate|].
  apply andb_true_iff in H. destruct H as [H H4]. apply andb_true_iff in H. destruct H as [H H3].
  apply andb_true_iff in H. destruct H as [H1 H2]. zb.
  destruct (contig_run_spec q r) as (C & r2 & Hr).
  split; [|exact H4].
  apply (dist_ok_run P L1 q (contig_run q r) r2 _ _ HP); try assumption; [|lia].
  rewrite HL1. f_equal. f_equal. exact Hr.
Qed.

Theorem layout_okb_sound P D : layout_okb P D = true -> layout_ok P D.
Proof.
  unfold layout_okb. intros H. apply andb_true_iff in H. destruct H as [H H3]. apply andb_true_iff in H. destruct H as [H1 H2].
  pose proof (ilayb_sound P H1) as HP. pose proof (layb_sound D H2) as HD.
  split; [apply ilay_inc_stamps, HP|]. split; [exact HD|].
  apply Forall_forall. intros d Hd. rewrite forallb_forall in H3.
  apply withinb_sound; [exact HP| |apply H3, Hd].
  destruct HD as [W _]. rewrite Forall_forall in W. apply W, Hd.
Qed.
