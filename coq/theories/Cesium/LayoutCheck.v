(* Cesium/LayoutCheck.v — a decidable check of the layout hypotheses of the exactness theorems,
   proved sound, so that concrete layouts (examples, generated cases) can be shown to satisfy
   them by evaluation. *)
From Coq Require Import ZArith List Bool Lia Sorting.Sorted.
From Synnax Require Import Cesium.Store Cesium.StoreProofs Cesium.IndexSearchProofs Cesium.DomIterProofs
     Cesium.DistanceProofs Cesium.UnaryIterExact Cesium.SliceProofs Cesium.UnaryIterSpec.
Import ListNotations.
Local Open Scope Z_scope.

Fixpoint chain_okb {A} (r : A -> A -> bool) (l : list A) : bool :=
  match l with
  | a :: ((b :: _) as t) => r a b && chain_okb r t
  | _ => true
  end.

Lemma chain_sorted {A} (R : A -> A -> Prop) (r : A -> A -> bool) :
  (forall a b, r a b = true -> R a b) -> (forall a b c, R a b -> R b c -> R a c) ->
  forall l, chain_okb r l = true -> StronglySorted R l.
Proof.
  intros Hr Tr. induction l as [|a l IH]; intros H; [constructor|].
  destruct l as [|b l'].
  - constructor; constructor.
  - cbn [chain_okb] in H. apply andb_true_iff in H. destruct H as [H1 H2].
    specialize (IH H2). constructor; [exact IH|].
    inversion IH as [|? ? S F]; subst. constructor; [apply Hr, H1|].
    rewrite Forall_forall in *. intros x Hx. eapply Tr; [apply Hr, H1|apply F, Hx].
Qed.

Definition incb (l : list Z) : bool := chain_okb Z.ltb l.
Lemma incb_sound l : incb l = true -> inc l.
Proof. apply chain_sorted; [intros a b H; apply Z.ltb_lt; exact H|intros; lia]. Qed.

Definition dwfb (d : dom) : bool := t_s (d_tr d) <? t_e (d_tr d).
Definition layb (L : list dom) : bool :=
  forallb dwfb L && chain_okb (fun a b => t_e (d_tr a) <=? t_s (d_tr b)) L.

Lemma layb_sound L : layb L = true -> lay L.
Proof.
  unfold layb. intros H. apply andb_true_iff in H. destruct H as [H1 H2].
  assert (W : Forall dwf L).
  { apply Forall_forall. intros d Hd. rewrite forallb_forall in H1. specialize (H1 d Hd). unfold dwfb in H1. zb. exact H1. }
  split; [exact W|].
  (* transitivity needs the non-emptiness of the middle domain: sort the list of wf domains *)
  clear H1. induction L as [|a L IH]; [constructor|].
  apply Forall_cons_iff in W. destruct W as [Wa W].
  destruct L as [|b L'].
  - constructor; constructor.
  - cbn [chain_okb] in H2. apply andb_true_iff in H2. destruct H2 as [H2 H3]. zb.
    specialize (IH H3 W). constructor; [exact IH|].
    inversion IH as [|? ? S F]; subst. constructor; [exact H2|].
    apply Forall_cons_iff in W. destruct W as [Wb _]. unfold dwf, dbefore in *.
    rewrite Forall_forall in *. intros x Hx. specialize (F x Hx). unfold dbefore in F. lia.
Qed.

Definition iwfb (q : dom) : bool :=
  incb (d_data q) && forallb (fun x => (t_s (d_tr q) <=? x) && (x <? t_e (d_tr q))) (d_data q).
Lemma iwfb_sound q : iwfb q = true -> iwf q.
Proof.
  unfold iwfb. intros H. apply andb_true_iff in H. destruct H as [H1 H2]. split; [apply incb_sound, H1|].
  apply Forall_forall. intros x Hx. rewrite forallb_forall in H2. specialize (H2 x Hx).
  apply andb_true_iff in H2. destruct H2; zb. lia.
Qed.

Definition ilayb (P : list dom) : bool := layb P && forallb iwfb P.
Lemma ilayb_sound P : ilayb P = true -> ilay P.
Proof.
  unfold ilayb. intros H. apply andb_true_iff in H. destruct H as [H1 H2]. split; [apply layb_sound, H1|].
  apply Forall_forall. intros q Hq. rewrite forallb_forall in H2. apply iwfb_sound, H2, Hq.
Qed.

Definition withinb (P : list dom) (d : dom) : bool :=
  existsb (fun q => (t_s (d_tr q) <=? t_s (d_tr d)) && (t_e (d_tr d) <=? t_e (d_tr q)) &&
                    (dlen d =? zlen (stamps_in (d_tr d) (d_data q)))) P.
Lemma withinb_sound P d : withinb P d = true -> within P d.
Proof.
  unfold withinb. intros H. apply existsb_exists in H. destruct H as (q & Hq & H).
  apply andb_true_iff in H. destruct H as [H H3]. apply andb_true_iff in H. destruct H as [H1 H2]. zb.
  destruct (In_znth_lt _ _ Hq) as (k & _ & Hk). exists k, q. auto.
Qed.

Definition layout_okb (P D : list dom) : bool := ilayb P && layb D && forallb (withinb P) D.
Theorem layout_okb_sound P D : layout_okb P D = true -> layout_ok P D.
Proof.
  unfold layout_okb. intros H. apply andb_true_iff in H. destruct H as [H H3]. apply andb_true_iff in H. destruct H as [H1 H2].
  split; [apply ilayb_sound, H1|]. split; [apply layb_sound, H2|].
  apply Forall_forall. intros d Hd. rewrite forallb_forall in H3. apply withinb_sound, H3, Hd.
Qed.
