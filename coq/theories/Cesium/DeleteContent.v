(* Cesium/DeleteContent.v — the logical content of a channel: every stored sample paired with
   its time stamp.  For a pointer whose samples are aligned with the index, the k-th sample
   carries the k-th index stamp of the pointer's time range.  Facts about sub-ranges of the
   sorted stamp list used by the delete and read proofs. *)
From Coq Require Import ZArith List Bool Lia.
From Synnax Require Import Cesium.Store Cesium.StoreProofs Cesium.IndexSearch Cesium.Distance
  Cesium.Stamp Cesium.DeleteModel Cesium.DeleteBase Cesium.DeleteSearch Cesium.DeleteDistance
  Cesium.DeleteOffsets.
Import ListNotations.
Local Open Scope Z_scope.

(* ------------------------------------------------------------------ sub-lists by index *)
Definition sub {A} (l : list A) (i j : Z) : list A := firstn (Z.to_nat (j - i)) (skipn (Z.to_nat i) l).

Lemma sub_cons_S {A} (x : A) l i j : 0 <= i -> sub (x :: l) (1 + i) (1 + j) = sub l i j.
Proof.
  intros H. unfold sub. replace (1 + j - (1 + i)) with (j - i) by lia.
  replace (Z.to_nat (1 + i)) with (S (Z.to_nat i)) by lia. reflexivity.
Qed.

Lemma sub_cons_0 {A} (x : A) l j : 0 <= j -> sub (x :: l) 0 (1 + j) = x :: sub l 0 j.
Proof.
  intros H. unfold sub. replace (Z.to_nat (1 + j - 0)) with (S (Z.to_nat (j - 0))) by lia.
  replace (Z.to_nat 0) with 0%nat by lia. reflexivity.
Qed.

Lemma sub_nil {A} (l : list A) i j : j <= i -> sub l i j = [].
Proof. intros H. unfold sub. replace (Z.to_nat (j - i)) with 0%nat by lia. reflexivity. Qed.

Lemma sub_zlen {A} (l : list A) i j : 0 <= i <= j -> j <= zlen l -> zlen (sub l i j) = j - i.
Proof.
  intros H1 H2. unfold sub, zlen in *. rewrite firstn_length, skipn_length. lia.
Qed.

Lemma firstn_add {A} (l : list A) a b : firstn (a + b) l = firstn a l ++ firstn b (skipn a l).
Proof.
  revert l. induction a as [|a IH]; intros l; simpl; [reflexivity|].
  destruct l as [|x l]; simpl; [rewrite firstn_nil; reflexivity|]. rewrite IH. reflexivity.
Qed.

Lemma skipn_add {A} (l : list A) a b : skipn (a + b) l = skipn b (skipn a l).
Proof.
  revert l. induction a as [|a IH]; intros l; simpl; [reflexivity|].
  destruct l as [|x l]; simpl; [rewrite skipn_nil; reflexivity|]. apply IH.
Qed.

Lemma sub_split {A} (l : list A) i m j : 0 <= i <= m -> m <= j -> sub l i j = sub l i m ++ sub l m j.
Proof.
  intros H1 H2. unfold sub.
  replace (Z.to_nat (j - i)) with (Z.to_nat (m - i) + Z.to_nat (j - m))%nat by lia.
  rewrite firstn_add. f_equal.
  replace (Z.to_nat m) with (Z.to_nat i + Z.to_nat (m - i))%nat by lia.
  rewrite skipn_add. reflexivity.
Qed.

(* ------------------------------------------------------------------ stamps of a time range *)
Definition in_range (s e x : Z) : bool := (s <=? x) && (x <? e).
Definition stamps_in (G : list Z) (s e : Z) : list Z := filter (in_range s e) G.

Lemma cnt_lt_nonneg x l : 0 <= cnt_lt x l.
Proof. pose proof (cnt_lt_range x l). lia. Qed.

Lemma sincr_all_gt z l : sincr (z :: l) -> forall w, In w l -> z < w.
Proof. intros H w Hw. apply In_znth in Hw as [j Hj]. eapply sincr_head; eauto. Qed.

(* in a sorted list the stamps of [s,e) are the elements from index #(<s) to #(<e) *)
Lemma stamps_in_sub G s e : sincr G -> s <= e -> stamps_in G s e = sub G (cnt_lt s G) (cnt_lt e G).
Proof.
  intros Hs Hse. induction G as [|z l IH].
  - reflexivity.
  - pose proof (sincr_all_gt z l Hs) as Hgt. specialize (IH (sincr_tail z l Hs)).
    unfold stamps_in in *. cbn [filter]. rewrite !cnt_lt_cons. unfold in_range at 1.
    destruct (z <? s) eqn:E1.
    + apply Z.ltb_lt in E1. destruct (s <=? z) eqn:E2; [apply Z.leb_le in E2; lia|]. cbn [andb].
      destruct (z <? e) eqn:E3; [|apply Z.ltb_ge in E3; lia].
      rewrite sub_cons_S by apply cnt_lt_nonneg. exact IH.
    + apply Z.ltb_ge in E1. destruct (s <=? z) eqn:E2; [|apply Z.leb_gt in E2; lia]. cbn [andb].
      assert (Hs0 : cnt_lt s l = 0) by (apply cnt_lt_none; intros w Hw; pose proof (Hgt w Hw); lia).
      rewrite Hs0 in *. destruct (z <? e) eqn:E3.
      * rewrite sub_cons_0 by apply cnt_lt_nonneg. f_equal. exact IH.
      * apply Z.ltb_ge in E3.
        assert (He0 : cnt_lt e l = 0) by (apply cnt_lt_none; intros w Hw; pose proof (Hgt w Hw); lia).
        rewrite He0 in *. rewrite IH. rewrite !sub_nil by lia. reflexivity.
Qed.

Lemma stamps_in_zlen G s e : sincr G -> s <= e -> zlen (stamps_in G s e) = cnt_lt e G - cnt_lt s G.
Proof.
  intros Hs Hse. rewrite stamps_in_sub by assumption. apply sub_zlen.
  - pose proof (cnt_lt_nonneg s G). pose proof (cnt_lt_mono G s e Hse). lia.
  - apply cnt_lt_range.
Qed.

(* the stamps of a range depend on its bounds only through the counts *)
Lemma stamps_in_cnt G s e s' e' :
  sincr G -> s <= e -> s' <= e' -> cnt_lt s' G = cnt_lt s G -> cnt_lt e' G = cnt_lt e G ->
  stamps_in G s' e' = stamps_in G s e.
Proof. intros Hs H1 H2 E1 E2. rewrite !stamps_in_sub by assumption. rewrite E1, E2. reflexivity. Qed.

Lemma stamps_in_split G s m e :
  sincr G -> s <= m <= e -> stamps_in G s e = stamps_in G s m ++ stamps_in G m e.
Proof.
  intros Hs H. rewrite !stamps_in_sub by (assumption || lia).
  apply sub_split.
  - pose proof (cnt_lt_nonneg s G). pose proof (cnt_lt_mono G s m ltac:(lia)). lia.
  - apply cnt_lt_mono. lia.
Qed.

Lemma stamps_in_range G s e x : In x (stamps_in G s e) -> s <= x < e.
Proof.
  unfold stamps_in. intros H. apply filter_In in H as [_ H]. unfold in_range in H.
  apply andb_true_iff in H as [A B]. apply Z.leb_le in A. apply Z.ltb_lt in B. lia.
Qed.

(* ------------------------------------------------------------------ content *)
Definition ptr_content (G : list Z) (c : chan) (p : ptr) : list (Z * sample) :=
  combine (stamps_in G (t_s (p_tr p)) (t_e (p_tr p))) (ptr_samples c p).
Definition content (G : list Z) (c : chan) : list (Z * sample) :=
  flat_map (ptr_content G c) (c_ptrs c).

Definition aligned_ptr (G : list Z) (c : chan) (p : ptr) : Prop :=
  zlen (ptr_samples c p) = cnt_lt (t_e (p_tr p)) G - cnt_lt (t_s (p_tr p)) G.

(* keep the samples whose stamp is outside [a,b) *)
Definition outside_ab (a b : Z) (ts : Z * sample) : bool := negb (in_range a b (fst ts)).

Lemma combine_app {A B} (a1 a2 : list A) (b1 b2 : list B) :
  length a1 = length b1 -> combine (a1 ++ a2) (b1 ++ b2) = combine a1 b1 ++ combine a2 b2.
Proof.
  revert b1. induction a1 as [|x a1 IH]; intros [|y b1] H; simpl in *; try discriminate; [reflexivity|].
  f_equal. apply IH. lia.
Qed.

Lemma combine_fst_in {A B} (a : list A) (b : list B) x : In x (combine a b) -> In (fst x) a.
Proof. destruct x. intros H. eapply in_combine_l; eauto. Qed.

Lemma filter_all {A} (f : A -> bool) l : (forall x, In x l -> f x = true) -> filter f l = l.
Proof.
  induction l as [|x l IH]; intros H; simpl; [reflexivity|].
  rewrite (H x (or_introl eq_refl)), IH by (intros; apply H; right; assumption). reflexivity.
Qed.

Lemma filter_none {A} (f : A -> bool) l : (forall x, In x l -> f x = false) -> filter f l = [].
Proof.
  induction l as [|x l IH]; intros H; simpl; [reflexivity|].
  rewrite (H x (or_introl eq_refl)), IH by (intros; apply H; right; assumption). reflexivity.
Qed.

Lemma filter_flat_map {A B} (f : B -> bool) (g : A -> list B) l :
  filter f (flat_map g l) = flat_map (fun x => filter f (g x)) l.
Proof. induction l; simpl; [reflexivity|]. rewrite filter_app, IHl. reflexivity. Qed.

(* content of a pointer all of whose stamps are before a / at or after b is untouched *)
Lemma ptr_content_keep_before G c p a b :
  t_e (p_tr p) <= a -> filter (outside_ab a b) (ptr_content G c p) = ptr_content G c p.
Proof.
  intros H. apply filter_all. intros x Hx. apply combine_fst_in in Hx. apply stamps_in_range in Hx.
  unfold outside_ab, in_range. destruct (a <=? fst x) eqn:E; [apply Z.leb_le in E; lia|reflexivity].
Qed.

Lemma ptr_content_keep_after G c p a b :
  b <= t_s (p_tr p) -> filter (outside_ab a b) (ptr_content G c p) = ptr_content G c p.
Proof.
  intros H. apply filter_all. intros x Hx. apply combine_fst_in in Hx. apply stamps_in_range in Hx.
  unfold outside_ab, in_range. destruct (fst x <? b) eqn:E; [apply Z.ltb_lt in E; lia|]. rewrite andb_false_r. reflexivity.
Qed.

Lemma ptr_content_drop G c p a b :
  a <= t_s (p_tr p) -> t_e (p_tr p) <= b -> filter (outside_ab a b) (ptr_content G c p) = [].
Proof.
  intros H1 H2. apply filter_none. intros x Hx. apply combine_fst_in in Hx. apply stamps_in_range in Hx.
  unfold outside_ab, in_range.
  destruct (a <=? fst x) eqn:E1; [|apply Z.leb_gt in E1; lia].
  destruct (fst x <? b) eqn:E2; [reflexivity|apply Z.ltb_ge in E2; lia].
Qed.

(* splitting one aligned pointer at sample k = #stamps before x *)
Lemma firstn_skipn_lens {A} (l : list A) k : 0 <= k <= zlen l ->
  length (firstn (Z.to_nat k) l) = Z.to_nat k /\ l = firstn (Z.to_nat k) l ++ skipn (Z.to_nat k) l.
Proof. intros H. unfold zlen in H. split; [rewrite firstn_length; lia|symmetry; apply firstn_skipn]. Qed.

Lemma ptr_content_split G c p x :
  sincr G -> aligned_ptr G c p -> t_s (p_tr p) <= x <= t_e (p_tr p) ->
  let k := cnt_lt x G - cnt_lt (t_s (p_tr p)) G in
  ptr_content G c p =
  combine (stamps_in G (t_s (p_tr p)) x) (firstn (Z.to_nat k) (ptr_samples c p)) ++
  combine (stamps_in G x (t_e (p_tr p))) (skipn (Z.to_nat k) (ptr_samples c p)).
Proof.
  intros Hs Hal Hx k. unfold ptr_content.
  rewrite (stamps_in_split G _ x _ Hs Hx).
  assert (Hk : 0 <= k <= zlen (ptr_samples c p)).
  { unfold k. rewrite Hal. pose proof (cnt_lt_mono G (t_s (p_tr p)) x ltac:(lia)).
    pose proof (cnt_lt_mono G x (t_e (p_tr p)) ltac:(lia)). lia. }
  destruct (firstn_skipn_lens (ptr_samples c p) k Hk) as [Hl Hsplit].
  rewrite Hsplit at 1. apply combine_app.
  pose proof (stamps_in_zlen G (t_s (p_tr p)) x Hs ltac:(lia)) as Hz. unfold zlen in Hz.
  rewrite Hl. unfold k. lia.
Qed.

Lemma combine_keep_before G l s x a b :
  x <= a -> filter (outside_ab a b) (combine (stamps_in G s x) l) = combine (stamps_in G s x) l.
Proof.
  intros H. apply filter_all. intros y Hy. apply combine_fst_in in Hy. apply stamps_in_range in Hy.
  unfold outside_ab, in_range. destruct (a <=? fst y) eqn:E; [apply Z.leb_le in E; lia|reflexivity].
Qed.

Lemma combine_keep_after G l x e a b :
  b <= x -> filter (outside_ab a b) (combine (stamps_in G x e) l) = combine (stamps_in G x e) l.
Proof.
  intros H. apply filter_all. intros y Hy. apply combine_fst_in in Hy. apply stamps_in_range in Hy.
  unfold outside_ab, in_range. destruct (fst y <? b) eqn:E; [apply Z.ltb_lt in E; lia|]. rewrite andb_false_r. reflexivity.
Qed.

Lemma combine_drop G l x y a b :
  a <= x -> y <= b -> filter (outside_ab a b) (combine (stamps_in G x y) l) = [].
Proof.
  intros H1 H2. apply filter_none. intros z Hz. apply combine_fst_in in Hz. apply stamps_in_range in Hz.
  unfold outside_ab, in_range.
  destruct (a <=? fst z) eqn:E1; [|apply Z.leb_gt in E1; lia].
  destruct (fst z <? b) eqn:E2; [reflexivity|apply Z.ltb_ge in E2; lia].
Qed.
