(* Cesium/DeleteSearch.v — specifications of the two binary searches the delete path relies
   on, proved for the executable models of Cesium/Store.v and IndexSearch.v:
     isearch (index.Domain.search) over strictly increasing stamps, and
     usearch (index.unprotectedSearch) for a point over sorted, disjoint, non-empty domains;
   and the positional behaviour of the domain iterator built on them. *)
From Coq Require Import ZArith List Bool Lia.
From Synnax Require Import Cesium.Store Cesium.StoreProofs Cesium.IndexSearch.
Import ListNotations.
Local Open Scope Z_scope.

Ltac Zify.zify_post_hook ::= Z.to_euclidean_division_equations.

(* ------------------------------------------------------------------ counting in sorted lists *)
Definition cnt_lt (ts : Z) (l : list Z) : Z := zlen (filter (fun x => x <? ts) l).
Definition zmem (ts : Z) (l : list Z) : bool := existsb (Z.eqb ts) l.

(* strictly increasing, by index *)
Definition sincr (l : list Z) : Prop :=
  forall i j x y, znth l i = Some x -> znth l j = Some y -> i < j -> x < y.

Lemma sincr_tail x l : sincr (x :: l) -> sincr l.
Proof.
  intros H i j a b Ha Hb Hij.
  pose proof (znth_Some _ _ _ Ha). pose proof (znth_Some _ _ _ Hb).
  apply (H (i + 1) (j + 1)); try lia.
  - rewrite znth_cons by lia. replace (i + 1 - 1) with i by lia. exact Ha.
  - rewrite znth_cons by lia. replace (j + 1 - 1) with j by lia. exact Hb.
Qed.

Lemma sincr_head x l y i : sincr (x :: l) -> znth l i = Some y -> x < y.
Proof.
  intros H Hy. pose proof (znth_Some _ _ _ Hy).
  apply (H 0 (i + 1)); try lia.
  - apply znth_0.
  - rewrite znth_cons by lia. replace (i + 1 - 1) with i by lia. exact Hy.
Qed.

Lemma zlen_cons {A} (x : A) l : zlen (x :: l) = zlen l + 1.
Proof. unfold zlen. simpl length. lia. Qed.

Lemma zlen_nil {A} : zlen (@nil A) = 0.
Proof. reflexivity. Qed.

Lemma cnt_lt_cons ts x l : cnt_lt ts (x :: l) = (if x <? ts then 1 else 0) + cnt_lt ts l.
Proof.
  unfold cnt_lt. simpl. destruct (x <? ts); [rewrite zlen_cons|]; lia.
Qed.

Lemma cnt_lt_range ts l : 0 <= cnt_lt ts l <= zlen l.
Proof.
  induction l as [|x l IH]; [unfold cnt_lt, zlen; simpl; lia|].
  rewrite cnt_lt_cons, zlen_cons. destruct (x <? ts); lia.
Qed.

(* the count of elements below ts is the position where the list crosses ts *)
Lemma cnt_lt_spec l ts n :
  0 <= n <= zlen l ->
  (forall i x, znth l i = Some x -> i < n -> x < ts) ->
  (forall i x, znth l i = Some x -> n <= i -> ts <= x) ->
  cnt_lt ts l = n.
Proof.
  revert n. induction l as [|x l IH]; intros n Hn Hlo Hhi.
  - unfold zlen in Hn. simpl in Hn. unfold cnt_lt, zlen. simpl. lia.
  - rewrite zlen_cons in Hn. rewrite cnt_lt_cons.
    assert (Hlt : forall m, 0 <= m <= zlen l ->
                   (forall i y, znth l i = Some y -> i < m -> y < ts) ->
                   (forall i y, znth l i = Some y -> m <= i -> ts <= y) -> cnt_lt ts l = m)
      by (intros; apply IH; assumption).
    pose proof (zlen_nonneg l) as Hl0.
    assert (Hshift : forall i y, znth l i = Some y -> znth (x :: l) (i + 1) = Some y).
    { intros i y Hy. pose proof (znth_Some _ _ _ Hy). rewrite znth_cons by lia.
      replace (i + 1 - 1) with i by lia. exact Hy. }
    destruct (Z.eq_dec n 0) as [->|Hn0].
    + pose proof (Hhi 0 x (znth_0 x l) ltac:(lia)).
      destruct (x <? ts) eqn:E; [apply Z.ltb_lt in E; lia|].
      assert (cnt_lt ts l = 0) as ->; [|lia].
      apply Hlt; [lia| |].
      * intros i y Hy Hi. pose proof (znth_Some _ _ _ Hy). lia.
      * intros i y Hy Hi. pose proof (znth_Some _ _ _ Hy). apply (Hhi (i + 1)); [auto|lia].
    + pose proof (Hlo 0 x (znth_0 x l) ltac:(lia)).
      destruct (x <? ts) eqn:E; [|apply Z.ltb_ge in E; lia].
      assert (cnt_lt ts l = n - 1) as ->; [|lia].
      apply Hlt; [lia| |].
      * intros i y Hy Hi. apply (Hlo (i + 1)); [auto|lia].
      * intros i y Hy Hi. apply (Hhi (i + 1)); [auto|lia].
Qed.

Lemma zmem_iff ts l : zmem ts l = true <-> exists i, znth l i = Some ts.
Proof.
  unfold zmem. induction l as [|x l IH]; simpl.
  - split; [discriminate|]. intros [i H]. unfold znth in H. destruct (i <? 0); [discriminate|].
    destruct (Z.to_nat i); discriminate.
  - rewrite orb_true_iff, IH. split.
    + intros [H|[i H]].
      * apply Z.eqb_eq in H. subst. exists 0. apply znth_0.
      * pose proof (znth_Some _ _ _ H). exists (i + 1). rewrite znth_cons by lia.
        replace (i + 1 - 1) with i by lia. exact H.
    + intros [i H]. pose proof (znth_Some _ _ _ H) as Hr. rewrite zlen_cons in Hr.
      destruct (Z.eq_dec i 0) as [->|Hi].
      * rewrite znth_0 in H. inversion H. left. apply Z.eqb_refl.
      * right. exists (i - 1). rewrite znth_cons in H by lia. exact H.
Qed.

(* in a strictly increasing list the count below an element is its index *)
Lemma cnt_lt_at l i ts : sincr l -> znth l i = Some ts -> cnt_lt ts l = i.
Proof.
  intros Hs Hi. pose proof (znth_Some _ _ _ Hi). apply cnt_lt_spec; [lia| |].
  - intros j x Hj Hlt. eapply Hs; eauto.
  - intros j x Hj Hle. destruct (Z.eq_dec i j) as [->|Hne]; [rewrite Hi in Hj; inversion Hj; lia|].
    assert (ts < x) by (eapply (Hs i j); eauto; lia). lia.
Qed.

(* ------------------------------------------------------------------ index.Domain.search *)
Definition isearch_result (ts : Z) (l : list Z) : approx :=
  let c := cnt_lt ts l in if zmem ts l then AP c c else AP (c - 1) c.

Lemma rd_znth l k x : znth l k = Some x -> rd l k = Ok x.
Proof. unfold rd. intros ->. reflexivity. Qed.

Lemma isearch_go_spec l ts : sincr l ->
  forall fuel lo hi,
    0 <= lo -> hi < zlen l -> lo <= hi + 1 -> (Z.of_nat fuel > hi - lo + 1) ->
    (forall i x, znth l i = Some x -> i < lo -> x < ts) ->
    (forall i x, znth l i = Some x -> hi < i -> ts < x) ->
    isearch_go fuel l ts lo hi = Ok (isearch_result ts l).
Proof.
  intros Hs. induction fuel as [|f IH]; intros lo hi Hlo Hhi Hle Hf Hbelow Habove.
  - lia.
  - simpl. destruct (lo <=? hi) eqn:E.
    + apply Z.leb_le in E. set (mid := (lo + hi) / 2).
      assert (Hmid : lo <= mid <= hi) by (unfold mid; lia).
      destruct (znth_in_range l mid ltac:(lia)) as [m Hm].
      rewrite (rd_znth _ _ _ Hm).
      destruct (ts =? m) eqn:E1.
      * apply Z.eqb_eq in E1. subst m. unfold isearch_result.
        assert (zmem ts l = true) as -> by (apply zmem_iff; eauto).
        rewrite (cnt_lt_at l mid ts Hs Hm). reflexivity.
      * apply Z.eqb_neq in E1. destruct (m <? ts) eqn:E2.
        -- apply Z.ltb_lt in E2. apply IH; try lia.
           ++ intros i x Hx Hi. destruct (Z.eq_dec i mid) as [->|Hne]; [rewrite Hm in Hx; inversion Hx; lia|].
              assert (x < m) by (eapply (Hs i mid); eauto; lia). lia.
           ++ exact Habove.
        -- apply Z.ltb_ge in E2. apply IH; try lia.
           ++ exact Hbelow.
           ++ intros i x Hx Hi. destruct (Z.eq_dec i mid) as [->|Hne]; [rewrite Hm in Hx; inversion Hx; lia|].
              assert (m < x) by (eapply (Hs mid i); eauto; lia). lia.
    + apply Z.leb_gt in E. assert (lo = hi + 1) by lia. subst lo.
      unfold isearch_result.
      assert (Hc : cnt_lt ts l = hi + 1).
      { apply cnt_lt_spec; [lia| |].
        - intros i x Hx Hi. eapply Hbelow; eauto.
        - intros i x Hx Hi. assert (ts < x) by (eapply Habove; eauto; lia). lia. }
      assert (Hm : zmem ts l = false).
      { destruct (zmem ts l) eqn:Em; [|reflexivity]. apply zmem_iff in Em as [i Hi].
        destruct (Z_lt_le_dec i (hi + 1)).
        - pose proof (Hbelow i ts Hi ltac:(lia)). lia.
        - pose proof (Habove i ts Hi ltac:(lia)). lia. }
      rewrite Hm, Hc. f_equal. f_equal; lia.
Qed.

Theorem isearch_spec ts l : sincr l -> isearch ts l = Ok (isearch_result ts l).
Proof.
  intros Hs. unfold isearch. apply isearch_go_spec; try assumption; try lia.
  - pose proof (zlen_nonneg l). lia.
  - unfold zlen. lia.
  - intros i x Hx Hi. pose proof (znth_Some _ _ _ Hx). lia.
  - intros i x Hx Hi. pose proof (znth_Some _ _ _ Hx). lia.
Qed.

(* ------------------------------------------------------------------ sorted domain lists *)
Definition dom_s (d : dom) : Z := t_s (d_tr d).
Definition dom_e (d : dom) : Z := t_e (d_tr d).

(* non-empty, disjoint, in time order — by index *)
Definition sdoms (P : list dom) : Prop :=
  (forall i d, znth P i = Some d -> dom_s d < dom_e d) /\
  (forall i j d e, znth P i = Some d -> znth P j = Some e -> i < j -> dom_e d <= dom_s e).

Lemma sdoms_starts P i j d e : sdoms P -> znth P i = Some d -> znth P j = Some e -> i < j -> dom_s d < dom_s e.
Proof. intros [Hn Ho] Hi Hj Hij. pose proof (Hn i d Hi). pose proof (Ho i j d e Hi Hj Hij). lia. Qed.

(* result of unprotectedSearch for the point a *)
Definition upoint (P : list dom) (a : Z) (r : Z * bool) : Prop :=
  match r with
  | (i, true) => exists d, znth P i = Some d /\ dom_s d <= a < dom_e d
  | (j, false) =>
      -1 <= j < zlen P /\
      (forall i d, znth P i = Some d -> i <= j -> dom_e d <= a) /\
      (forall i d, znth P i = Some d -> j < i -> a < dom_s d)
  end.

Lemma usearch_go_spec P a : sdoms P ->
  forall fuel lo hi,
    0 <= lo -> hi < zlen P -> lo <= hi + 1 -> (Z.of_nat fuel > hi - lo + 1) ->
    (forall i d, znth P i = Some d -> i < lo -> dom_e d <= a) ->
    (forall i d, znth P i = Some d -> hi < i -> a < dom_s d) ->
    upoint P a (usearch_go fuel P (TR a a) lo hi).
Proof.
  intros [Hn Ho]. induction fuel as [|f IH]; intros lo hi Hlo Hhi Hle Hf Hbelow Habove.
  - lia.
  - simpl. destruct (lo <=? hi) eqn:E.
    + apply Z.leb_le in E. set (mid := (lo + hi) / 2).
      assert (Hmid : lo <= mid <= hi) by (unfold mid; lia).
      destruct (znth_in_range P mid ltac:(lia)) as [p Hp]. rewrite Hp.
      pose proof (Hn mid p Hp) as Hne. unfold dom_s, dom_e in Hne.
      rewrite (overlaps_point (d_tr p) a Hne).
      destruct (contains_stamp (d_tr p) a) eqn:Ec.
      * simpl. exists p. split; [exact Hp|]. unfold contains_stamp in Ec.
        apply andb_true_iff in Ec as [A B]. apply Z.leb_le in A. apply Z.ltb_lt in B.
        unfold dom_s, dom_e. lia.
      * simpl t_s. unfold contains_stamp in Ec. apply andb_false_iff in Ec.
        destruct (a <? t_s (d_tr p)) eqn:E2.
        -- apply Z.ltb_lt in E2. apply IH; try lia.
           ++ exact Hbelow.
           ++ intros i d Hd Hi. destruct (Z.eq_dec i mid) as [->|Hne2].
              ** rewrite Hp in Hd. inversion Hd; subst. unfold dom_s. lia.
              ** pose proof (Ho mid i p d Hp Hd ltac:(lia)). pose proof (Hn i d Hd).
                 unfold dom_s, dom_e in *. lia.
        -- apply Z.ltb_ge in E2.
           assert (Hpe : t_e (d_tr p) <= a).
           { destruct Ec as [Ec|Ec]; [apply Z.leb_gt in Ec; lia|apply Z.ltb_ge in Ec; lia]. }
           apply IH; try lia.
           ++ intros i d Hd Hi. destruct (Z.eq_dec i mid) as [->|Hne2].
              ** rewrite Hp in Hd. inversion Hd; subst. unfold dom_e. lia.
              ** pose proof (Ho i mid d p Hd Hp ltac:(lia)). unfold dom_s, dom_e in *. lia.
           ++ exact Habove.
    + apply Z.leb_gt in E. simpl. split; [lia|]. split.
      * intros i d Hd Hi. apply (Hbelow i d Hd). lia.
      * intros i d Hd Hi. apply (Habove i d Hd). lia.
Qed.

Theorem usearch_point P a : sdoms P -> upoint P a (usearch P (point a)).
Proof.
  intros Hs. rewrite point_eq. unfold usearch. destruct P as [|p P'].
  - simpl. split; [unfold zlen; simpl; lia|]. split; intros i d Hd; unfold znth in Hd;
      destruct (i <? 0); try discriminate; destruct (Z.to_nat i); discriminate.
  - apply usearch_go_spec; try assumption; try lia.
    + unfold zlen. lia.
    + unfold zlen. simpl length. lia.
    + intros i d Hd Hi. pose proof (znth_Some _ _ _ Hd). lia.
    + intros i d Hd Hi. pose proof (znth_Some _ _ _ Hd). lia.
Qed.

(* the two outcomes are exclusive and determined by the list *)
Lemma upoint_hit P a i d :
  sdoms P -> znth P i = Some d -> dom_s d <= a < dom_e d -> usearch P (point a) = (i, true).
Proof.
  intros Hs Hd Hin. pose proof (usearch_point P a Hs) as H.
  destruct (usearch P (point a)) as [j [|]]; simpl in H.
  - destruct H as (e & He & Hr). f_equal.
    destruct (Z.lt_trichotomy i j) as [Hlt|[->|Hgt]]; [|reflexivity|].
    + destruct Hs as [Hn Ho]. pose proof (Ho i j d e Hd He Hlt). lia.
    + destruct Hs as [Hn Ho]. pose proof (Ho j i e d He Hd ltac:(lia)). lia.
  - destruct H as (_ & Hb & Ha). destruct (Z_le_gt_dec i j).
    + pose proof (Hb i d Hd ltac:(lia)). lia.
    + pose proof (Ha i d Hd ltac:(lia)). lia.
Qed.
