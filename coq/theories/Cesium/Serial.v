(* Cesium/Serial.v — content-level model of one cesium database used by C09.
   State: channel key ↦ (stamp ↦ value) for every existing channel. Actions are the
   operations that REPORTED SUCCESS (the property compares against a serial order of
   those), at the granularity at which the harness issues them:
     Write g stamps     a writer's lifetime on channel group g (index channel 10g+1 and
                        data channel 10g+2): open at the first stamp, write, commit, close
     Delete g a b idx   DeleteTimeRange [a,b) on the data channel (and the index channel)
     Create k / PWrite k stamps / PDelete k a b / DelChan k   a private index channel (also
                        used for a bare domain database driven below the cesium layer)
     Noop               reads, iterators, streamers, garbage collection: no effect on content
   No proofs here. *)
From stdpp Require Import gmap.
From Coq Require Import ZArith.
Local Open Scope Z_scope.

Notation content := (gmap Z Z).
Notation store := (gmap Z (gmap Z Z)).

Definition idx_key (g : Z) : Z := g * 10 + 1.
Definition data_key (g : Z) : Z := g * 10 + 2.
(* the harness encodes (group, stamp) into every data sample *)
Definition enc (g ts : Z) : Z := g * 1000000007 + ts * 3 + 1.

Inductive action :=
| Write (g : Z) (stamps : list Z)
| Delete (g a b : Z) (idx : bool)
| Create (k : Z)
| PWrite (k : Z) (stamps : list Z)
| DelChan (k : Z)
| PDelete (k a b : Z)
| WriteIdx (g : Z) (stamps : list Z)     (* a writer on the index channel only *)
| WriteData (g : Z) (stamps : list Z)    (* a writer on the data channel only, over existing index stamps *)
| DeleteIdx (g a b : Z)                  (* DeleteTimeRange on the index channel only *)
| Noop.

Definition add_samples (c : content) (l : list (Z * Z)) : content :=
  list_to_map l ∪ c.

Definition del_range (a b : Z) (c : content) : content :=
  filter (fun kv => negb ((a <=? kv.1) && (kv.1 <? b)) = true) c.

Definition upd (st : store) (k : Z) (f : content -> content) : store :=
  match st !! k with
  | Some c => <[k := f c]> st
  | None => st
  end.

Definition step (st : store) (a : action) : store :=
  match a with
  | Write g stamps =>
      upd (upd st (idx_key g) (fun c => add_samples c (map (fun t => (t, t)) stamps)))
          (data_key g) (fun c => add_samples c (map (fun t => (t, enc g t)) stamps))
  | Delete g a b idx =>
      let st1 := upd st (data_key g) (del_range a b) in
      if idx then upd st1 (idx_key g) (del_range a b) else st1
  | Create k => match st !! k with Some _ => st | None => <[k := ∅]> st end
  | PWrite k stamps => upd st k (fun c => add_samples c (map (fun t => (t, t)) stamps))
  | DelChan k => delete k st
  | PDelete k a b => upd st k (del_range a b)
  | WriteIdx g stamps => upd st (idx_key g) (fun c => add_samples c (map (fun t => (t, t)) stamps))
  | WriteData g stamps => upd st (data_key g) (fun c => add_samples c (map (fun t => (t, enc g t)) stamps))
  | DeleteIdx g a b => upd st (idx_key g) (del_range a b)
  | Noop => st
  end.

Definition run (st : store) (l : list action) : store := fold_left step l st.

Definition init_store (groups : list Z) : store :=
  list_to_map (flat_map (fun g => [(idx_key g, (∅ : content)); (data_key g, ∅)]) groups).

(* ---- independence: a decidable sufficient condition for commutation ---- *)
Definition chans (a : action) : list Z :=
  match a with
  | Write g _ => [idx_key g; data_key g]
  | Delete g _ _ _ => [idx_key g; data_key g]
  | Create k | PWrite k _ | DelChan k | PDelete k _ _ => [k]
  | WriteIdx g _ | DeleteIdx g _ _ => [idx_key g]
  | WriteData g _ => [data_key g]
  | Noop => []
  end.

Definition disjointb (l1 l2 : list Z) : bool :=
  forallb (fun x => negb (existsb (Z.eqb x) l2)) l1.

Definition outside (a b : Z) (stamps : list Z) : bool :=
  forallb (fun t => negb ((a <=? t) && (t <? b))) stamps.

Definition independent (x y : action) : bool :=
  disjointb (chans x) (chans y) ||
  match x, y with
  | Write g s, Write g' s' => (g =? g') && disjointb s s'
  | Write g s, Delete g' a b _ => (g =? g') && outside a b s
  | Delete g' a b _, Write g s => (g =? g') && outside a b s
  | Delete g _ _ _, Delete g' _ _ _ => (g =? g')
  | PWrite k s, PWrite k' s' => (k =? k') && disjointb s s'
  | PWrite k s, PDelete k' a b => (k =? k') && outside a b s
  | PDelete k' a b, PWrite k s => (k =? k') && outside a b s
  | PDelete k _ _, PDelete k' _ _ => (k =? k')
  | Noop, _ | _, Noop => true
  | _, _ => false
  end.

Definition cross_independent (ts : list (list action)) : bool :=
  forallb (fun ij : nat * nat =>
     (ij.1 =? ij.2)%nat ||
     forallb (fun x => forallb (fun y => independent x y) (nth ij.2 ts []))
             (nth ij.1 ts []))
    (list_prod (seq 0 (length ts)) (seq 0 (length ts))).
