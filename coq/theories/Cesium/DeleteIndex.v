(* Cesium/DeleteIndex.v — deleting from an INDEX channel: the channel is its own index, so the
   list of index stamps itself shrinks.  After a successful deletion the remaining stamps are
   the old ones outside [a,b), the channel is a well-formed index again, and every channel it
   indexes — none of which overlaps [a,b), by the guard — stays aligned with it and keeps its
   content. *)
From Coq Require Import ZArith List Bool Lia.
From Synnax Require Import Cesium.Store Cesium.StoreProofs Cesium.IndexSearch Cesium.Distance
  Cesium.Stamp Cesium.DeleteModel Cesium.GCModel Cesium.DeleteBase Cesium.DeleteSearch
  Cesium.DeleteDistance Cesium.DeleteOffsets Cesium.DeleteContent Cesium.DeleteExact
  Cesium.ReadExact Cesium.DeleteDB Cesium.DeleteCheck.
Import ListNotations.
Local Open Scope Z_scope.

Definition keep_ab (a b x : Z) : bool := negb (in_range a b x).

(* ------------------------------------------------------------------ sub-lists *)
Lemma map_sub {A B} (f : A -> B) l i j : map f (sub l i j) = sub (map f l) i j.
Proof. unfold sub. rewrite <- firstn_map, <- skipn_map. reflexivity. Qed.

Lemma skipn_firstn_add {A} (l : list A) m n : skipn m (firstn (m + n) l) = firstn n (skipn m l).
Proof.
  revert l. induction m as [|m IH]; intros l; simpl; [reflexivity|].
  destruct l as [|x l]; simpl; [rewrite firstn_nil; reflexivity|]. apply IH.
Qed.

Lemma sub_sub {A} (l : list A) s e i j :
  0 <= s -> 0 <= i <= j -> s + j <= e -> sub (sub l s e) i j = sub l (s + i) (s + j).
Proof.
  intros Hs Hij He. unfold sub.
  replace (s + j - (s + i)) with (j - i) by lia.
  replace (Z.to_nat (s + i)) with (Z.to_nat s + Z.to_nat i)%nat by lia.
  rewrite skipn_add.
  replace (Z.to_nat (e - s)) with (Z.to_nat i + (Z.to_nat (e - s) - Z.to_nat i))%nat by lia.
  rewrite skipn_firstn_add. rewrite firstn_firstn. f_equal. lia.
Qed.

Lemma flat_map_ext_in' {A B} (f g : A -> list B) l :
  (forall x, In x l -> f x = g x) -> flat_map f l = flat_map g l.
Proof.
  induction l as [|x l IH]; intros H; simpl; [reflexivity|].
  rewrite (H x (or_introl eq_refl)), IH by (intros; apply H; right; assumption). reflexivity.
Qed.

(* ------------------------------------------------------------------ filtering the stamp list *)
Lemma sincr_filter f l : sincr l -> sincr (filter f l).
Proof.
  induction l as [|x l IH]; intros Hs; simpl; [exact Hs|].
  pose proof (sincr_tail x l Hs) as Ht. specialize (IH Ht).
  destruct (f x); [|exact IH].
  apply sincr_cons; [|exact IH]. intros y Hy. apply filter_In in Hy as [Hy _].
  apply (sincr_all_gt x l Hs y Hy).
Qed.

Lemma stamps_in_filter f G s e : stamps_in (filter f G) s e = filter f (stamps_in G s e).
Proof. unfold stamps_in. apply filter_comm. Qed.

(* a range all of whose stamps survive the filter looks the same in the filtered list *)
Lemma stamps_in_kept f G s e :
  (forall x, In x (stamps_in G s e) -> f x = true) -> stamps_in (filter f G) s e = stamps_in G s e.
Proof. intros H. rewrite stamps_in_filter. apply filter_all. exact H. Qed.

Lemma cnt_diff_kept f G s e :
  sincr G -> s <= e -> (forall x, In x (stamps_in G s e) -> f x = true) ->
  cnt_lt e (filter f G) - cnt_lt s (filter f G) = cnt_lt e G - cnt_lt s G.
Proof.
  intros HG Hse H.
  rewrite <- (stamps_in_zlen (filter f G) s e (sincr_filter f G HG) Hse), <- (stamps_in_zlen G s e HG Hse).
  rewrite (stamps_in_kept f G s e H). reflexivity.
Qed.

Lemma map_fst_combine {A B} (a : list A) (b : list B) : length a = length b -> map fst (combine a b) = a.
Proof.
  revert b. induction a as [|x a IH]; intros [|y b] H; simpl in *; try discriminate; [reflexivity|].
  f_equal. apply IH. lia.
Qed.

Lemma map_fst_filter_outside a b (l : list (Z * sample)) :
  map fst (filter (outside_ab a b) l) = filter (keep_ab a b) (map fst l).
Proof.
  induction l as [|[t s] l IH]; simpl; [reflexivity|].
  unfold outside_ab, keep_ab in *. simpl. destruct (negb (in_range a b t)); simpl; rewrite IH; reflexivity.
Qed.

(* ------------------------------------------------------------------ an index channel indexes itself *)
Lemma self_stamps c p : widx (doms c) -> In p (c_ptrs c) ->
  stamps_in (allst (doms c)) (t_s (p_tr p)) (t_e (p_tr p)) = map s_val (ptr_samples c p).
Proof.
  intros Hw Hp. apply in_split in Hp as (l1 & l2 & E).
  assert (HD : doms c = map (dom_of c) l1 ++ dom_of c p :: map (dom_of c) l2)
    by (unfold doms; rewrite E, map_app; reflexivity).
  rewrite (allst_split (doms c) _ _ _ HD). unfold stamps_in. rewrite !filter_app.
  rewrite (filter_none _ (allst (map (dom_of c) l1))).
  2:{ intros x Hx. pose proof (split_pre_stamps (doms c) _ _ _ HD Hw x Hx) as H. unfold dom_s in H. simpl in H.
      unfold in_range. destruct (t_s (p_tr p) <=? x) eqn:E1; [apply Z.leb_le in E1; lia|reflexivity]. }
  rewrite (filter_none _ (allst (map (dom_of c) l2))).
  2:{ intros x Hx. pose proof (split_rest_stamps (doms c) _ _ _ HD Hw x Hx) as H. unfold dom_e in H. simpl in H.
      unfold in_range. destruct (x <? t_e (p_tr p)) eqn:E1; [apply Z.ltb_lt in E1; lia|]. apply andb_false_r. }
  rewrite app_nil_r. simpl. apply filter_all.
  intros x Hx. pose proof (split_d0_stamps (doms c) _ _ _ HD Hw x Hx) as H. unfold dom_s, dom_e in H. simpl in H.
  unfold in_range. apply andb_true_iff. split; [apply Z.leb_le|apply Z.ltb_lt]; lia.
Qed.

(* a channel all of whose pointers carry the stamps G has in their ranges *)
Definition self_idx (G : list Z) (c : chan) : Prop :=
  forall p, In p (c_ptrs c) -> map s_val (ptr_samples c p) = stamps_in G (t_s (p_tr p)) (t_e (p_tr p)).

Lemma allst_doms_self G c : self_idx G c ->
  allst (doms c) = flat_map (fun p => stamps_in G (t_s (p_tr p)) (t_e (p_tr p))) (c_ptrs c).
Proof.
  intros H. unfold allst, doms. rewrite flat_map_concat_map, map_map, <- flat_map_concat_map.
  apply flat_map_ext_in'. intros p Hp. simpl. apply H. exact Hp.
Qed.

Lemma map_fst_content G c : sincr G -> chan_ok G c ->
  map fst (content G c) = flat_map (fun p => stamps_in G (t_s (p_tr p)) (t_e (p_tr p))) (c_ptrs c).
Proof.
  intros HG Hok. unfold content. rewrite flat_map_concat_map, concat_map, map_map, <- flat_map_concat_map.
  apply flat_map_ext_in'. intros p Hp. unfold ptr_content. apply map_fst_combine.
  pose proof (ok_al G c Hok) as Hal. rewrite Forall_forall in Hal. specialize (Hal p Hp). unfold aligned_ptr in Hal.
  pose proof (sorted_ptrs_nonempty _ (wf_sorted c (ok_wf G c Hok))) as Hne. rewrite Forall_forall in Hne.
  pose proof (stamps_in_zlen G _ _ HG (Z.lt_le_incl _ _ (Hne p Hp))) as Hz. unfold zlen in *. lia.
Qed.

(* ------------------------------------------------------------------ after the deletion *)
Section IndexDelete.
Variables (c c' : chan) (a b : Z).
Let P := doms c.
Let G := allst P.
Hypothesis Hw : widx P.
Hypothesis Hok : chan_ok G c.
Hypothesis Hab : a <= b.
Hypothesis Hdel : dom_delete true P c (TR a b) = Ok c'.

Let HG : sincr G := allst_sincr P Hw.
Let G' := allst (doms c').

Lemma idx_del_facts :
  chan_ok G c' /\ content G c' = filter (outside_ab a b) (content G c) /\
  Forall (refines_ptr G c) (c_ptrs c').
Proof. apply dom_delete_exact; assumption. Qed.

Lemma idx_self_old : self_idx G c.
Proof. intros p Hp. symmetry. apply self_stamps; assumption. Qed.

Lemma idx_samples_same q : ptr_samples c' q = ptr_samples c q.
Proof. destruct (dom_delete_shape _ _ _ _ _ Hdel) as [ps ->]. reflexivity. Qed.

Lemma idx_self_new : self_idx G c'.
Proof.
  destruct idx_del_facts as (Hok' & _ & Href). rewrite Forall_forall in Href.
  intros q Hq. destruct (Href q Hq) as (sp & Hsp & H1 & H2 & Hs).
  rewrite idx_samples_same, Hs, map_sub, (idx_self_old sp Hsp).
  pose proof (sorted_ptrs_nonempty _ (wf_sorted c' (ok_wf G c' Hok'))) as Hne. rewrite Forall_forall in Hne.
  specialize (Hne q Hq).
  pose proof (sorted_ptrs_nonempty _ (wf_sorted c (ok_wf G c Hok))) as Hne0. rewrite Forall_forall in Hne0.
  specialize (Hne0 sp Hsp).
  rewrite (stamps_in_sub G _ _ HG (Z.lt_le_incl _ _ Hne0)), (stamps_in_sub G _ _ HG (Z.lt_le_incl _ _ Hne)).
  pose proof (cnt_lt_nonneg (t_s (p_tr sp)) G).
  pose proof (cnt_lt_mono G (t_s (p_tr sp)) (t_s (p_tr q)) H1).
  pose proof (cnt_lt_mono G (t_s (p_tr q)) (t_e (p_tr q)) ltac:(lia)).
  pose proof (cnt_lt_mono G (t_e (p_tr q)) (t_e (p_tr sp)) H2).
  rewrite sub_sub by lia. f_equal; lia.
Qed.

(* the stamps that remain are the old ones outside [a,b) *)
Lemma idx_stamps_after : G' = filter (keep_ab a b) G.
Proof.
  destruct idx_del_facts as (Hok' & Hcont & _).
  unfold G'. rewrite (allst_doms_self G c' idx_self_new), <- (map_fst_content G c' HG Hok').
  rewrite Hcont, map_fst_filter_outside, (map_fst_content G c HG Hok), <- (allst_doms_self G c idx_self_old).
  reflexivity.
Qed.

(* every stamp of a pointer of the new state is outside [a,b) *)
Lemma idx_new_outside q x :
  In q (c_ptrs c') -> In x (stamps_in G (t_s (p_tr q)) (t_e (p_tr q))) -> keep_ab a b x = true.
Proof.
  intros Hq Hx. destruct idx_del_facts as (Hok' & Hcont & _).
  assert (Hin : In x (map fst (content G c'))).
  { rewrite (map_fst_content G c' HG Hok'). apply in_flat_map. exists q. auto. }
  rewrite Hcont, map_fst_filter_outside in Hin. apply filter_In in Hin as [_ H]. exact H.
Qed.

Lemma idx_widx_after : widx (doms c').
Proof.
  destruct idx_del_facts as (Hok' & _ & _). split.
  - apply sdoms_doms. apply Hok'.
  - intros i d Hd. apply doms_znth_inv in Hd as (q & Hq & ->). pose proof (znth_In _ _ _ Hq) as Hqin.
    unfold wdom. simpl. rewrite (idx_self_new q Hqin). split.
    + unfold stamps_in. apply sincr_filter. exact HG.
    + intros j x Hj. unfold dom_s, dom_e. simpl. apply (stamps_in_range G). eapply znth_In; eauto.
Qed.

(* a channel whose pointers hold no stamp in [a,b) is aligned with the new stamps as it was
   with the old ones, and has the same content *)
Lemma aligned_after x :
  chan_ok G x ->
  (forall q t, In q (c_ptrs x) -> In t (stamps_in G (t_s (p_tr q)) (t_e (p_tr q))) -> keep_ab a b t = true) ->
  chan_ok G' x /\ content G' x = content G x.
Proof.
  intros Hx Hout. rewrite idx_stamps_after. split.
  - destruct Hx as [Hwf Hd Hal Hr]. constructor; auto.
    rewrite Forall_forall in *. intros q Hq. unfold aligned_ptr in *.
    pose proof (sorted_ptrs_nonempty _ (wf_sorted x Hwf)) as Hne. rewrite Forall_forall in Hne.
    rewrite (cnt_diff_kept (keep_ab a b) G _ _ HG (Z.lt_le_incl _ _ (Hne q Hq)) (fun t Ht => Hout q t Hq Ht)).
    apply Hal. exact Hq.
  - unfold content. apply flat_map_ext_in'. intros q Hq. unfold ptr_content.
    rewrite (stamps_in_kept (keep_ab a b) G _ _ (fun t Ht => Hout q t Hq Ht)). reflexivity.
Qed.

Theorem idx_delete_self :
  widx (doms c') /\ chan_ok G' c' /\
  content G' c' = filter (outside_ab a b) (content G c) /\ G' = filter (keep_ab a b) G.
Proof.
  destruct idx_del_facts as (Hok' & Hcont & _).
  destruct (aligned_after c' Hok' (fun q t Hq Ht => idx_new_outside q t Hq Ht)) as [A B].
  split; [exact idx_widx_after|]. split; [exact A|]. split; [rewrite B; exact Hcont|exact idx_stamps_after].
Qed.

(* a dependant: no domain overlaps [a,b) *)
Theorem idx_delete_dependant x :
  chan_ok G x -> (forall q, In q (c_ptrs x) -> t_e (p_tr q) <= a \/ b <= t_s (p_tr q)) ->
  chan_ok G' x /\ content G' x = content G x.
Proof.
  intros Hx Hno. apply aligned_after; [exact Hx|].
  intros q t Hq Ht. apply stamps_in_range in Ht. unfold keep_ab, in_range.
  destruct (Hno q Hq).
  - destruct (a <=? t) eqn:E; [apply Z.leb_le in E; lia|reflexivity].
  - destruct (t <? b) eqn:E; [apply Z.ltb_lt in E; lia|]. rewrite andb_false_r. reflexivity.
Qed.
End IndexDelete.

(* ------------------------------------------------------------------ the database *)
Definition is_index (d : db) (k : Z) : Prop := exists c, alookup k d = Some c /\ c_isidx c = true.

Lemma guard_false_dep d k t k' x :
  dependants_have_data d k t = false -> alookup k' d = Some x -> k' <> k -> c_index x = k ->
  has_data_for x t = false.
Proof.
  unfold dependants_have_data. intros H Hk' Hne Hix.
  destruct (has_data_for x t) eqn:E; [|reflexivity]. exfalso.
  assert (Hex : existsb (fun kc : Z * chan => negb (fst kc =? k) && (c_index (snd kc) =? k) && has_data_for (snd kc) t) d = true).
  { apply existsb_exists. exists (k', x). split; [apply alookup_in; exact Hk'|]. simpl.
    destruct (k' =? k) eqn:E1; [apply Z.eqb_eq in E1; contradiction|]. rewrite Hix, Z.eqb_refl, E. reflexivity. }
  congruence.
Qed.

Lemma delete_one_index d k c a b d' :
  db_ok d -> alookup k d = Some c -> c_isidx c = true ->
  dependants_have_data d k (TR a b) = false ->
  delete_one true d k (TR a b) = Ok d' ->
  db_ok d' /\
  (forall k', content_of d' k' = if k' =? k then filter (outside_ab a b) (content_of d k') else content_of d k') /\
  (forall k', alookup k' d' <> None <-> alookup k' d <> None) /\
  (forall k', k' <> k -> alookup k' d' = alookup k' d) /\
  (exists c', alookup k d' = Some c' /\ c_isidx c' = true).
Proof.
  intros Hok Hk Hidx Hguard. unfold delete_one. rewrite Hk.
  destruct (Hok k c Hk) as (Hw & Hc & Hix & Hself). specialize (Hself Hidx).
  assert (HP : index_doms d c = doms c) by (unfold index_doms; rewrite Hself, Hk; reflexivity).
  rewrite HP in *.
  destruct (unary_delete true (doms c) c (TR a b)) as [c'|e] eqn:Eu; simpl; [|discriminate].
  intros [= <-].
  destruct (unary_delete_shape _ _ _ _ _ Eu) as [ps Hc'].
  unfold unary_delete in Eu. destruct (negb (tr_valid (TR a b))) eqn:Ev; [discriminate|].
  destruct (tr_is_zero (TR a b)) eqn:Ez; [discriminate|].
  assert (Hab : a <= b).
  { apply negb_false_iff in Ev. unfold tr_valid, tspan in Ev. simpl in Ev. apply Z.leb_le in Ev. lia. }
  destruct (idx_delete_self c c' a b Hw Hc Hab Eu) as (Hw' & Hc'ok & Hcont & HG').
  assert (Hs1 : c_isidx c' = true) by (subst c'; exact Hidx).
  assert (Hs2 : c_index c' = k) by (subst c'; exact Hself).
  assert (Hself' : index_doms (aset k c' d) c' = doms c').
  { unfold index_doms. rewrite Hs2, alookup_aset_eq. reflexivity. }
  (* the per-channel facts *)
  assert (Hdep : forall y x, y <> k -> alookup y d = Some x -> c_index x = k ->
            index_doms (aset k c' d) x = doms c' /\
            chan_ok (allst (doms c')) x /\ content (allst (doms c')) x = content (allst (doms c)) x).
  { intros y x Hne Hy Hxi. split; [unfold index_doms; rewrite Hxi, alookup_aset_eq; reflexivity|].
    destruct (Hok y x Hy) as (_ & Hxok & _). unfold index_doms in Hxok. rewrite Hxi, Hk in Hxok.
    pose proof (guard_false_dep d k (TR a b) y x Hguard Hy Hne Hxi) as Hnd.
    unfold has_data_for in Hnd. apply orb_false_iff in Hnd as [_ Hnd].
    destruct (Z.eq_dec a b) as [Heq|Hneq].
    - (* empty range: nothing is filtered *)
      apply (aligned_after c c' a b Hw Hc Hab Eu x Hxok). intros q t _ _. unfold keep_ab, in_range. subst b.
      destruct (a <=? t) eqn:E1, (t <? a) eqn:E2; try reflexivity. apply Z.leb_le in E1. apply Z.ltb_lt in E2. lia.
    - apply (idx_delete_dependant c c' a b Hw Hc Hab Eu x Hxok).
      intros q Hq. eapply no_data_no_overlap; eauto. lia. }
  assert (Hoth : forall y x, alookup y d = Some x -> c_index x <> k ->
            index_doms (aset k c' d) x = index_doms d x).
  { intros y x Hy Hxi. unfold index_doms. rewrite alookup_aset_ne by exact Hxi. reflexivity. }
  split; [|split; [|split; [|split]]].
  - intros y x Hy. destruct (Z.eq_dec y k) as [->|Hne].
    + rewrite alookup_aset_eq in Hy. inversion Hy; subst x. unfold chan_in_db_ok. rewrite Hself'.
      split; [exact Hw'|]. split; [exact Hc'ok|]. split; [|intros _; exact Hs2].
      exists c'. rewrite Hs2, alookup_aset_eq. auto.
    + rewrite alookup_aset_ne in Hy by exact Hne. destruct (Hok y x Hy) as (Hwx & Hxok & (i & Hi & Hii) & Hxs).
      destruct (Z.eq_dec (c_index x) k) as [Hxi|Hxi].
      * destruct (Hdep y x Hne Hy Hxi) as (A & B & _). unfold chan_in_db_ok. rewrite A.
        split; [exact Hw'|]. split; [exact B|]. split; [|exact Hxs].
        exists c'. rewrite Hxi, alookup_aset_eq. auto.
      * unfold chan_in_db_ok. rewrite (Hoth y x Hy Hxi). split; [exact Hwx|]. split; [exact Hxok|]. split; [|exact Hxs].
        exists i. rewrite alookup_aset_ne by exact Hxi. auto.
  - intros y. unfold content_of. destruct (y =? k) eqn:Ey.
    + apply Z.eqb_eq in Ey. subst y. rewrite alookup_aset_eq, Hk, Hself', HP. exact Hcont.
    + apply Z.eqb_neq in Ey. rewrite alookup_aset_ne by exact Ey.
      destruct (alookup y d) as [x|] eqn:Hy; [|reflexivity].
      destruct (Z.eq_dec (c_index x) k) as [Hxi|Hxi].
      * destruct (Hdep y x Ey Hy Hxi) as (A & _ & C). rewrite A, C.
        unfold index_doms. rewrite Hxi, Hk. reflexivity.
      * rewrite (Hoth y x Hy Hxi). reflexivity.
  - intros y. destruct (Z.eq_dec y k) as [->|Hne].
    + rewrite alookup_aset_eq, Hk. split; intros _; discriminate.
    + rewrite alookup_aset_ne by exact Hne. reflexivity.
  - intros y Hne. apply alookup_aset_ne. exact Hne.
  - exists c'. split; [apply alookup_aset_eq|exact Hs1].
Qed.

(* several index channels, in the order of the call *)
Lemma delete_index_ok a b : forall ks d d',
  db_ok d -> (forall k, In k ks -> is_index d k) ->
  delete_index true d ks (TR a b) = (d', None) ->
  db_ok d' /\
  (forall k, content_of d' k = if existsb (Z.eqb k) ks then filter (outside_ab a b) (content_of d k)
                               else content_of d k) /\
  (forall k, ~ In k ks -> alookup k d' = alookup k d).
Proof.
  induction ks as [|k ks IH]; intros d d' Hok Hidx; simpl.
  - intros [= <-]. split; [exact Hok|]. split; intros; reflexivity.
  - destruct (Hidx k (or_introl eq_refl)) as (c & Hk & Hc).
    destruct (dependants_have_data d k (TR a b)) eqn:Eg; [discriminate|].
    destruct (delete_one true d k (TR a b)) as [d1|e] eqn:E1; [|discriminate].
    destruct (delete_one_index d k c a b d1 Hok Hk Hc Eg E1) as (Hok1 & Hcont1 & Hkeys1 & Hoth1 & (c1 & Hk1 & Hc1)).
    intros Hrest.
    assert (Hidx1 : forall k', In k' ks -> is_index d1 k').
    { intros k' Hk'. destruct (Z.eq_dec k' k) as [->|Hne]; [exists c1; auto|].
      destruct (Hidx k' (or_intror Hk')) as (x & Hx & Hxd). exists x. rewrite Hoth1 by exact Hne. auto. }
    destruct (IH d1 d' Hok1 Hidx1 Hrest) as (Hok' & Hcont' & Hoth').
    split; [exact Hok'|]. split.
    + intros k'. rewrite Hcont', Hcont1. destruct (k' =? k) eqn:Ek; simpl.
      * destruct (existsb (Z.eqb k') ks); [apply filter_filter_same|reflexivity].
      * reflexivity.
    + intros k' Hnin. rewrite Hoth' by (intros H; apply Hnin; right; exact H).
      apply Hoth1. intros ->. apply Hnin. left. reflexivity.
Qed.

Lemma existsb_in k l : existsb (Z.eqb k) l = true <-> In k l.
Proof.
  rewrite existsb_exists. split.
  - intros (x & Hx & E). apply Z.eqb_eq in E. subst. exact Hx.
  - intros H. exists k. split; [exact H|apply Z.eqb_refl].
Qed.

(* DeleteTimeRange over any set of channels (data channels first, then index channels) *)
Theorem delete_exact_general d chs a b d' :
  db_ok d -> delete_time_range true d chs (TR a b) = (d', None) ->
  db_ok d' /\
  (forall k, content_of d' k = if existsb (Z.eqb k) chs then filter (outside_ab a b) (content_of d k)
                               else content_of d k).
Proof.
  intros Hok. unfold delete_time_range.
  destruct (classify d chs) as [[ix da]|] eqn:Ec; [|discriminate].
  destruct (classify_spec d chs ix da Ec) as (Hda & Hix & Hin).
  destruct (delete_data true d da (TR a b)) as [d1 [e|]] eqn:Ed; [discriminate|].
  destruct (delete_data_ok a b da d d1 Hok Hda Ed) as (Hok1 & Hcont1 & _ & _ & Hoth1).
  intros Hi.
  assert (Hix1 : forall k, In k ix -> is_index d1 k).
  { intros k Hk. destruct (Hix k Hk) as (c & Hc & Hci). exists c. split; [|exact Hci].
    rewrite Hoth1; [exact Hc|]. intros Hd. destruct (Hda k Hd) as (c2 & Hc2 & Hc2d). congruence. }
  destruct (delete_index_ok a b ix d1 d' Hok1 Hix1 Hi) as (Hok' & Hcont' & _).
  split; [exact Hok'|]. intros k. rewrite Hcont', Hcont1.
  destruct (existsb (Z.eqb k) ix) eqn:Ei, (existsb (Z.eqb k) da) eqn:Edd, (existsb (Z.eqb k) chs) eqn:Ech;
    try reflexivity; try (apply filter_filter_same).
  - (* in ix and da but not in chs: impossible *)
    apply existsb_in in Ei. assert (In k chs) by (apply Hin; auto). apply existsb_in in H. congruence.
  - apply existsb_in in Ei. assert (In k chs) by (apply Hin; auto). apply existsb_in in H. congruence.
  - apply existsb_in in Edd. assert (In k chs) by (apply Hin; auto). apply existsb_in in H. congruence.
  - apply existsb_in in Ech. apply Hin in Ech as [H|H]; apply existsb_in in H; congruence.
Qed.

Theorem reads_after_delete_general d chs a b d' k rs re l l' :
  db_ok d -> delete_time_range true d chs (TR a b) = (d', None) ->
  0 <= rs < re -> re <= MAXTS ->
  read_res d k (TR rs re) = Ok l -> read_res d' k (TR rs re) = Ok l' ->
  read_content (stamps_of_db d' k) l' =
  if existsb (Z.eqb k) chs then filter (outside_ab a b) (read_content (stamps_of_db d k) l)
  else read_content (stamps_of_db d k) l.
Proof.
  intros Hok Hdel Hr HM Hl Hl'.
  destruct (delete_exact_general d chs a b d' Hok Hdel) as (Hok' & Hcont).
  rewrite (read_res_content d' k rs re l' Hok' Hr HM Hl'), (read_res_content d k rs re l Hok Hr HM Hl).
  rewrite Hcont. destruct (existsb (Z.eqb k) chs); [apply filter_comm|reflexivity].
Qed.
