(* Cesium/DeleteRefuted.v — concrete witnesses (vm_compute) showing that the model of the
   PINNED upstream code (fx = false) does not satisfy property C04, one witness per finding
   F30–F34, each next to the behaviour of the model of /repo (fx = true) on the same input.
   The same scripts are corpus cases (corpus/C04/f3*.json) replayed on the implementation. *)
From Coq Require Import ZArith List Bool.
From Synnax Require Import Cesium.Store Cesium.IndexSearch Cesium.Distance Cesium.Stamp
  Cesium.DeleteModel Cesium.GCModel.
Import ListNotations.
Local Open Scope Z_scope.

(* one index channel (key 1) and one int64 data channel (key 2) *)
Definition wit_chans : list chdecl := [(1, 1, true, false, 8); (2, 1, false, false, 8)].
Definition wit_g : gcfg := mk_gcfg 400 48.
Definition smp8 (l : list Z) : list sample := map (fun v => Smp v 8) l.
(* a writer on both channels, writing to file 1 *)
Definition wit_w (start : Z) (stamps vals : list Z) : op :=
  OWrite start [(1, 1, smp8 stamps); (2, 1, smp8 vals)].
Definition vals_of (l : list rseries) : list (Z * Z * list Z) :=
  map (fun s => (t_s (rs_tr s), t_e (rs_tr s), map s_val (rs_data s))) l.
Definition whole : tr := TR 0 MAXTS.
Definition after (fx : bool) (d : db) (chs : list Z) (a b : Z) : option err * db :=
  let r := delete_time_range fx d chs (TR a b) in (snd r, fst r).

(* F30: domains of 4 and 2 samples; delete from the 3rd sample to the next domain's start *)
Definition d30 (fx : bool) : db :=
  run fx wit_g (init_db wit_chans) [wit_w 1005 [1005; 1015; 1025; 1035] [11; 12; 13; 14];
                                    wit_w 2000 [2000; 2010] [21; 22]].
Lemma f30_pinned :
  fst (after false (d30 false) [2] 1025 2000) = None /\
  vals_of (read (snd (after false (d30 false) [2] 1025 2000)) 2 whole) =
    [(1005, 1036, [11; 12; 13; 14]); (2000, 2011, [21; 22])].
Proof. vm_compute. auto. Qed.
Lemma f30_repo :
  fst (after true (d30 true) [2] 1025 2000) = None /\
  vals_of (read (snd (after true (d30 true) [2] 1025 2000)) 2 whole) =
    [(1005, 1025, [11; 12]); (2000, 2011, [21; 22])].
Proof. vm_compute. auto. Qed.

(* F31: a domain starting before its first sample; both bounds between samples *)
Definition d31 (fx : bool) : db :=
  run fx wit_g (init_db wit_chans) [wit_w 1980 [2000; 2010; 2020; 2030] [11; 12; 13; 14]].
Lemma f31_pinned :
  fst (after false (d31 false) [2] 2011 2021) = None /\
  vals_of (read (snd (after false (d31 false) [2] 2011 2021)) 2 (TR 2021 2040)) = [] /\
  vals_of (read (d31 false) 2 (TR 2021 2040)) = [(2021, 2031, [14])].
Proof. vm_compute. auto. Qed.
Lemma f31_repo :
  fst (after true (d31 true) [2] 2011 2021) = None /\
  vals_of (read (snd (after true (d31 true) [2] 2011 2021)) 2 (TR 2021 2040)) = [(2030, 2031, [14])].
Proof. vm_compute. auto. Qed.

(* F32: same kind of domain, target exactly on the second sample *)
Definition d32 (fx : bool) : db :=
  run fx wit_g (init_db wit_chans) [wit_w 95 [100; 110; 120; 130] [11; 12; 13; 14]].
Lemma f32_pinned :
  fst (after false (d32 false) [2] 110 115) = None /\
  vals_of (read (snd (after false (d32 false) [2] 110 115)) 2 whole) = [(110, 131, [13; 14])].
Proof. vm_compute. auto. Qed.
Lemma f32_repo :
  fst (after true (d32 true) [2] 110 115) = None /\
  vals_of (read (snd (after true (d32 true) [2] 110 115)) 2 whole) =
    [(95, 110, [11]); (120, 131, [13; 14])].
Proof. vm_compute. auto. Qed.

(* F33: target on the first sample of such a domain: refused *)
Lemma f33_pinned : fst (after false (d32 false) [2] 100 105) = Some EDisc.
Proof. vm_compute. reflexivity. Qed.
Lemma f33_repo :
  fst (after true (d32 true) [2] 100 105) = None /\
  vals_of (read (snd (after true (d32 true) [2] 100 105)) 2 whole) = [(110, 131, [12; 13; 14])].
Proof. vm_compute. auto. Qed.

(* F34: after deleting the last sample with an exact bound, a deletion ending between the
   last kept sample and the domain's end is refused *)
Definition d34 (fx : bool) : db :=
  snd (after fx (run fx wit_g (init_db wit_chans) [wit_w 100 [100; 110; 120; 130] [11; 12; 13; 14]])
             [2; 1] 130 131).
Lemma f34_pinned : fst (after false (d34 false) [2; 1] 100 121) = Some EDisc.
Proof. vm_compute. reflexivity. Qed.
Lemma f34_repo :
  fst (after true (d34 true) [2; 1] 100 121) = None /\
  vals_of (read (snd (after true (d34 true) [2; 1] 100 121)) 2 whole) = [] /\
  vals_of (read (snd (after true (d34 true) [2; 1] 100 121)) 1 whole) = [].
Proof. vm_compute. auto. Qed.
