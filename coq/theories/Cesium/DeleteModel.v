(* Cesium/DeleteModel.v — executable model for property C04 (time-range deletes).
   Model only: no proofs here (DeleteProofs*.v, GCProofs.v).

   What is copied from /repo, function by function (quirks included):
     cesium/internal/unary/delete.go     calculateStartOffset / calculateEndOffset (the four
                                         approximation cases of each), resolveByteOffset
     cesium/internal/unary/resolver.go   offsetResolver.byteOffset / domainSampleCount
                                         (fixed density arithmetic vs. offset table)
     cesium/internal/domain/delete.go    DB.Delete (start/end domain search, the two
                                         non-exact branches, validateDelete, pointer split,
                                         removal of covered pointers)
     cesium/internal/domain/db.go        HasDataFor
     cesium/delete.go                    DeleteTimeRange (classification, data channels
                                         first, index-channel guard, no rollback)
     cesium/internal/unary/iterator.go   the path taken by DB.Read: SeekFirst; Next(MaxSpan)
                                         = accumulate / sliceDomain / pickSampleOffset over
                                         the domains overlapping the bounds
   index.Domain.Distance / Stamp, the domain index search and the domain iterator are the
   models of Cesium/Distance.v, Stamp.v, IndexSearch.v, Store.v (C10/C01), imported.

   Representation.  A channel owns a sorted list of pointers (time range, file key, byte
   offset, byte size — exactly the 26-byte records of index.domain) and its data files.
   A file is the list of the samples appended to it; every sample carries its value and
   the number of bytes it occupies on disk (8 for a time stamp / int64, 1 for uint8,
   4 + len for a variable-length sample).  Byte offsets address a file through the
   cumulative sample sizes ([drop_bytes] / [take_bytes]); an offset that is not a sample
   boundary (never the case under the storage invariant, DeleteProofs.wf_chan) is rounded
   as those two functions say.  For an index channel the sample values are the stamps.

   The parameter [fx] selects between the code as pinned upstream ([fx = false]) and the code
   of /repo after the C04 fix commit ([fx = true], what the correspondence runs against):
   validateDelete compared the start offset with the END pointer's length (finding F30),
   calculateEndOffset snapped to the lower stamp bound when both the domain start and the
   target are inexact (F31) and asked the index for a sample after the target even when the
   domain keeps none (F34), calculateStartOffset snapped to the lower stamp bound (+1) when
   only the domain start is inexact (F32) and asked for Stamp(start, -1) when the target is
   the domain's first sample (F33).  The [fx = false] branches are kept for the refutation
   lemmas of DeleteRefuted.v.

   Interface assumptions (validated on every run by the correspondence, not proved here):
   - sequential histories: no writer or iterator is open while Delete / GC run, so
     lockControllerForNonWriteOp succeeds, the "repêchage" re-search is the identity, and
     fileController.gcReaders closes every pooled reader;
   - the uint32 casts of delete.go (sizes, offsets) do not wrap: files are < 4 GiB. *)
From Coq Require Import ZArith List Bool.
From Synnax Require Import Cesium.Store Cesium.IndexSearch Cesium.Distance Cesium.Stamp.
Import ListNotations.
Local Open Scope Z_scope.

(* ------------------------------------------------------------------ samples, files *)
Record sample := Smp { s_val : Z; s_len : Z }.

Fixpoint bytes_of (l : list sample) : Z :=
  match l with [] => 0 | s :: r => s_len s + bytes_of r end.

(* the samples that start at or after byte [n] *)
Fixpoint drop_bytes (n : Z) (l : list sample) : list sample :=
  match l with
  | [] => []
  | s :: r => if n <=? 0 then l else drop_bytes (n - s_len s) r
  end.

(* the samples that start before byte [n] *)
Fixpoint take_bytes (n : Z) (l : list sample) : list sample :=
  match l with
  | [] => []
  | s :: r => if n <=? 0 then [] else s :: take_bytes (n - s_len s) r
  end.

(* association lists keyed by Z (file keys, channel keys) *)
Fixpoint alookup {A} (k : Z) (l : list (Z * A)) : option A :=
  match l with
  | [] => None
  | (k', v) :: r => if k =? k' then Some v else alookup k r
  end.
(* replace the binding of k, or append one *)
Fixpoint aset {A} (k : Z) (v : A) (l : list (Z * A)) : list (Z * A) :=
  match l with
  | [] => [(k, v)]
  | (k', v') :: r => if k =? k' then (k, v) :: r else (k', v') :: aset k v r
  end.

(* ------------------------------------------------------------------ pointers, channels *)
(* type pointer struct { telem.TimeRange; fileKey uint16; offset uint32; size uint32 } *)
Record ptr := Ptr { p_tr : tr; p_file : Z; p_off : Z; p_size : Z }.

Record chan := Chan {
  c_isidx : bool;                       (* Channel.IsIndex *)
  c_index : Z;                          (* key of the index channel (own key if IsIndex) *)
  c_var : bool;                         (* DataType.IsVariable() *)
  c_dens : Z;                           (* DataType.Density() for fixed types *)
  c_ptrs : list ptr;                    (* idx.mu.pointers == index.domain *)
  c_files : list (Z * list sample);     (* <k>.domain *)
  c_open : list Z;                      (* fileController.writers.open (pooled handles) *)
  c_counter : Z                         (* counter.domain *)
}.

Definition set_ptrs (c : chan) (ps : list ptr) : chan :=
  Chan (c_isidx c) (c_index c) (c_var c) (c_dens c) ps (c_files c) (c_open c) (c_counter c).

Definition file_of (c : chan) (k : Z) : list sample :=
  match alookup k (c_files c) with Some f => f | None => [] end.

(* the samples a pointer addresses: SectionReader(file, offset, size) *)
Definition ptr_samples (c : chan) (p : ptr) : list sample :=
  take_bytes (p_size p) (drop_bytes (p_off p) (file_of c (p_file p))).

(* the read-side view of a channel used by Store/Distance/Stamp: time range + values *)
Definition dom_of (c : chan) (p : ptr) : dom := Dom (p_tr p) (map s_val (ptr_samples c p)).
Definition doms (c : chan) : list dom := map (dom_of c) (c_ptrs c).

Definition db := list (Z * chan).

(* db.index(): the domains of the channel's index channel (itself for an index channel) *)
Definition index_doms (d : db) (c : chan) : list dom :=
  match alookup (c_index c) d with Some i => doms i | None => [] end.

(* ------------------------------------------------------------------ resolver.go *)
(* offsetResolver.byteOffset for the domain [p]; telem.Size is int64 *)
Definition byte_offset (c : chan) (p : ptr) (idx : Z) : res Z :=
  if c_var c then
    (* offset table built by scanning the length prefixes of the domain *)
    let smp := ptr_samples c p in
    if zlen smp <=? idx then Ok (p_size p)
    else if idx <? 0 then Err EPanic
    else Ok (bytes_of (firstn (Z.to_nat idx) smp))
  else
    let total := p_size p / c_dens c in
    if total <=? idx then Ok (p_size p) else Ok (c_dens c * idx).

(* offsetResolver.domainSampleCount *)
Definition domain_sample_count (c : chan) (p : ptr) : Z :=
  if c_var c then zlen (ptr_samples c p) else p_size p / c_dens c.

(* unary.DB.resolveByteOffset: a short-lived domain iterator positioned by SeekGE *)
Definition resolve_byte_offset (c : chan) (ds : Z) (idx : Z) : res Z :=
  let '(it, ok) := di_seek_ge (doms c) (di_open (span_range ds MAXTS)) ds in
  if negb ok then Err ENotFound else
  match znth (c_ptrs c) (di_pos it) with
  | Some p => byte_offset c p idx
  | None => Err EPanic
  end.

(* ------------------------------------------------------------------ unary/delete.go *)
(* unary.DB.resolveSampleCount (added by the C04 fix): sample count of the domain at ds *)
Definition resolve_sample_count (c : chan) (ds : Z) : res Z :=
  let '(it, ok) := di_seek_ge (doms c) (di_open (span_range ds MAXTS)) ds in
  if negb ok then Err ENotFound else
  match znth (c_ptrs c) (di_pos it) with
  | Some p => Ok (domain_sample_count c p)
  | None => Err EPanic
  end.

(* calculateStartOffset: (byte offset, snapped stamp).
   fx = true (/repo): a target that is an exact sample is never snapped (cases 1 and 3).
   fx = false (pinned): case 3 stamped offset-1 and took the LOWER bound + 1. *)
Definition calc_start_offset (fx : bool) (P : list dom) (c : chan) (ds ts : Z) : res (Z * Z) :=
  do a <- distance P (TR ds ts) true;
  let so := da_hi a in
  if negb (da_exact a) then
    if negb (da_se a) && negb (da_ee a) then
      let so := (da_lo a + da_hi a) ÷ 2 in
      if so =? 0 then
        do b <- resolve_byte_offset c ds so; Ok (b, ts)
      else
        do st <- stamp P ds (so - 1) true;
        do b <- resolve_byte_offset c ds so; Ok (b, s_hi st + 1)
    else if negb (da_se a) then
      let so := da_lo a in
      if fx then
        do b <- resolve_byte_offset c ds so; Ok (b, ts)
      else
        do st <- stamp P ds (so - 1) true;
        do b <- resolve_byte_offset c ds so; Ok (b, s_lo st + 1)
    else
      do st <- stamp P ds (so - 1) true;
      do b <- resolve_byte_offset c ds so; Ok (b, s_hi st + 1)
  else
    do b <- resolve_byte_offset c ds so; Ok (b, ts).

(* calculateEndOffset as pinned upstream: one Stamp call per approximation case, lower
   bound in cases 2 and 4, no test whether any sample of the domain is kept *)
Definition calc_end_offset_pinned (P : list dom) (c : chan) (ds ts : Z) : res (Z * Z) :=
  do a <- distance P (TR ds ts) true;
  let so := da_hi a in
  if negb (da_exact a) then
    if negb (da_se a) && negb (da_ee a) then
      let so := (da_lo a + da_hi a) ÷ 2 in
      do st <- stamp P ds so true;
      do b <- resolve_byte_offset c ds so; Ok (b, s_lo st)
    else if negb (da_se a) then
      let so := da_lo a in
      do st <- stamp P ds so true;
      do b <- resolve_byte_offset c ds so; Ok (b, s_hi st)
    else
      do st <- stamp P ds so true;
      do b <- resolve_byte_offset c ds so; Ok (b, s_lo st)
  else
    do b <- resolve_byte_offset c ds so; Ok (b, ts).

(* calculateEndOffset of /repo: the sample offset is chosen by case, then the stamp is
   snapped to the first kept sample (upper bound) only if the domain keeps a sample *)
Definition calc_end_offset_fixed (P : list dom) (c : chan) (ds ts : Z) : res (Z * Z) :=
  do a <- distance P (TR ds ts) true;
  if negb (da_exact a) then
    let so := if negb (da_se a) && negb (da_ee a) then (da_lo a + da_hi a) ÷ 2
              else if negb (da_se a) then da_lo a else da_hi a in
    do total <- resolve_sample_count c ds;
    do ts' <- (if so <? total then do st <- stamp P ds so true; Ok (s_hi st) else Ok ts);
    do b <- resolve_byte_offset c ds so; Ok (b, ts')
  else
    do b <- resolve_byte_offset c ds (da_hi a); Ok (b, ts).

Definition calc_end_offset (fx : bool) (P : list dom) (c : chan) (ds ts : Z) : res (Z * Z) :=
  if fx then calc_end_offset_fixed P c ds ts else calc_end_offset_pinned P c ds ts.

(* ------------------------------------------------------------------ domain/delete.go *)
Inductive vres := VSkip | VGo (so eo : Z) | VErr.

(* validateDelete; [ps] is non-empty and sd <= len-1, ed >= 0 are checked by its first
   two tests, so the two size lookups below are in range *)
Definition validate_delete (fx : bool) (ps : list ptr) (sd ed so eo : Z) : vres :=
  if sd =? zlen ps then VSkip else
  if ed =? -1 then VSkip else
  let so := if so <? 0 then 0 else so in
  let eo := if eo <? 0 then 0 else eo in
  match znth ps sd, znth ps ed with
  | Some sp, Some ep =>
      let spl := p_size sp in
      let epl := p_size ep in
      let so := if spl <? so then spl else so in
      let eo := if epl <? eo then epl else eo in
      if (ed <? sd) && (negb (sd =? ed + 1) || negb (so =? 0) || negb (eo =? 0)) then VErr
      else if (sd =? ed) && (spl <? so + eo) then VErr
      else if ((sd =? ed - 1) && (so =? (if fx then spl else epl)) && (eo =? epl)) ||
              ((sd =? ed) && (so + eo =? spl)) then VSkip
      else VGo so eo
  | _, _ => VErr  (* index out of range: a run-time panic in Go; unreachable *)
  end.

(* domain.DB.Delete with the two offset resolvers of unary/delete.go.
   Err = the call returned an error and changed nothing. *)
Definition dom_delete (fx : bool) (P : list dom) (c : chan) (t : tr) : res chan :=
  let ps := c_ptrs c in
  let D := doms c in
  (* start position: the first domain containing or after t.start *)
  let '(sd0, sx) := usearch D (point (t_s t)) in
  let sd := if sx then sd0 else sd0 + 1 in
  if negb sx && (sd =? zlen ps) then Ok c else
  match znth ps sd with
  | None => Err EPanic
  | Some sp =>
      do so_a <- (if sx then calc_start_offset fx P c (t_s (p_tr sp)) (t_s t)
                  else Ok (0, t_s (p_tr sp)));
      let '(so, a') := so_a in
      (* end position: the first domain containing or before t.end *)
      let '(ed, ex) := usearch D (point (t_e t)) in
      if negb ex && (ed =? -1) then Ok c else
      match znth ps ed with
      | None => Err EPanic
      | Some ep =>
          do eo_b <- (if ex then
                        do r <- calc_end_offset fx P c (t_s (p_tr ep)) (t_e t);
                        Ok (p_size ep - fst r, snd r)
                      else Ok (0, t_e (p_tr ep)));
          let '(eo, b') := eo_b in
          match validate_delete fx ps sd ed so eo with
          | VSkip => Ok c
          | VErr => Err EValidation
          | VGo so eo =>
              let kept := firstn (Z.to_nat sd) ps ++ skipn (Z.to_nat (ed + 1)) ps in
              let nl := if so =? 0 then []
                        else [Ptr (TR (t_s (p_tr sp)) a') (p_file sp) (p_off sp) so] in
              let nr := if eo =? 0 then []
                        else [Ptr (TR b' (t_e (p_tr ep))) (p_file ep)
                                  (p_off ep + p_size ep - eo) eo] in
              Ok (set_ptrs c (firstn (Z.to_nat sd) kept ++ (nl ++ nr) ++
                              skipn (Z.to_nat sd) kept))
          end
      end
  end.

(* TimeRange.IsZero *)
Definition tr_is_zero (t : tr) : bool := (t_s t =? 0) && (t_e t =? 0).

(* unary.DB.delete; lockControllerForNonWriteOp opens a control gate whose configuration
   is rejected for the zero time range (GateConfig.Validate: time_range must be non-zero) *)
Definition unary_delete (fx : bool) (P : list dom) (c : chan) (t : tr) : res chan :=
  if negb (tr_valid t) then Err EValidation
  else if tr_is_zero t then Err EValidation
  else dom_delete fx P c t.

(* domain.DB.HasDataFor *)
Definition dom_has_data_for (c : chan) (t : tr) : bool :=
  let D := doms c in
  let it0 := di_open (TR 0 MAXTS) in
  let '(i1, ok1) := di_seek_ge D it0 (t_s t) in
  if ok1 && overlaps (di_tr i1) t then true
  else
    let '(i2, ok2) := di_seek_le D it0 (t_e t) in
    ok2 && overlaps (di_tr i2) t.

(* unary.DB.HasDataFor as used by the guard: a gate that cannot be opened (zero time
   range) is reported as (true, err), which the guard treats as "has data" *)
Definition has_data_for (c : chan) (t : tr) : bool :=
  tr_is_zero t || dom_has_data_for c t.

(* ------------------------------------------------------------------ cesium/delete.go *)
(* classification pass of DeleteTimeRange: None = ErrChannelNotFound *)
Fixpoint classify (d : db) (chs : list Z) : option (list Z * list Z) :=
  match chs with
  | [] => Some ([], [])
  | k :: r =>
      match alookup k d, classify d r with
      | Some c, Some (ix, da) => if c_isidx c then Some (k :: ix, da) else Some (ix, k :: da)
      | _, _ => None
      end
  end.

Definition delete_one (fx : bool) (d : db) (k : Z) (t : tr) : res db :=
  match alookup k d with
  | None => Ok d
  | Some c => do c' <- unary_delete fx (index_doms d c) c t; Ok (aset k c' d)
  end.

(* the state is returned together with the error: a failure leaves the deletions already
   performed on earlier channels in place *)
Fixpoint delete_data (fx : bool) (d : db) (ks : list Z) (t : tr) : db * option err :=
  match ks with
  | [] => (d, None)
  | k :: r =>
      match delete_one fx d k t with
      | Ok d' => delete_data fx d' r t
      | Err e => (d, Some e)
      end
  end.

(* some channel other than k indexed by k has data overlapping t *)
Definition dependants_have_data (d : db) (k : Z) (t : tr) : bool :=
  existsb (fun kc => negb (fst kc =? k) && (c_index (snd kc) =? k) && has_data_for (snd kc) t) d.

Fixpoint delete_index (fx : bool) (d : db) (ks : list Z) (t : tr) : db * option err :=
  match ks with
  | [] => (d, None)
  | k :: r =>
      if dependants_have_data d k t then (d, Some EConflict)
      else match delete_one fx d k t with
           | Ok d' => delete_index fx d' r t
           | Err e => (d, Some e)
           end
  end.

Definition delete_time_range (fx : bool) (d : db) (chs : list Z) (t : tr) : db * option err :=
  match classify d chs with
  | None => (d, Some ENotFound)
  | Some (ix, da) =>
      match delete_data fx d da t with
      | (d1, Some e) => (d1, Some e)
      | (d1, None) => delete_index fx d1 ix t
      end
  end.

(* ------------------------------------------------------------------ reads *)
(* one series of a read: time range, samples *)
Record rseries := RS { rs_tr : tr; rs_data : list sample }.

Definition pick_sample_offset (a : dapprox) : Z :=
  if da_exact a || da_se a then da_hi a
  else if da_ee a then da_lo a
  else (da_lo a + da_hi a) ÷ 2.

(* Iterator.sliceDomain + read for the domain [p] under view [v] *)
Definition slice_ptr (P : list dom) (c : chan) (p : ptr) (v : tr) : res rseries :=
  let pt := p_tr p in
  let starget := if t_s pt <? t_s v then TR (t_s pt) (t_s v) else point (t_s pt) in
  do sa <- distance P starget true;
  do so <- byte_offset c p (pick_sample_offset sa);
  do ea <- (if t_e v <? t_e pt then distance P (TR (t_s pt) (t_e v)) true
            else let n := domain_sample_count c p in Ok (DA n n false false));
  do eo <- byte_offset c p (pick_sample_offset ea);
  let size := eo - so in
  if size <? 0 then Err EPanic (* make([]byte, negative) *) else
  Ok (RS (bound_by pt v) (take_bytes size (drop_bytes so (ptr_samples c p)))).

(* accumulate over the pointers from the seeked position on, while they overlap the
   bounds (internal.Next) and the view (accumulate).  The result of the first accumulate
   is ignored by Next ([first]); a later domain that does not overlap the view ends the
   loop. *)
Fixpoint read_loop (P : list dom) (c : chan) (first : bool) (ps : list ptr) (b v : tr)
  : res (list rseries) :=
  match ps with
  | [] => Ok []
  | p :: r =>
      if negb first && negb (overlaps (p_tr p) b) then Ok [] else
      if negb (overlaps (p_tr p) v) then (if first then read_loop P c false r b v else Ok [])
      else
        do s <- slice_ptr P c p v;
        do rest <- read_loop P c false r b v;
        Ok (match rs_data s with [] => rest | _ => s :: rest end)
  end.

(* unary.DB.Read / cesium.DB.Read for one channel: SeekFirst; Next(TimeSpanMax).
   An iterator error makes Next return false with an empty frame. *)
Definition read_chan (P : list dom) (c : chan) (b : tr) : list rseries :=
  let '(it, ok) := di_seek_first (doms c) (di_open b) in
  if negb ok then [] else
  let s0 := t_s (bound_by (di_tr it) b) in
  if s0 =? t_e b then [] else
  let v := bound_by (span_range s0 MAXTS) b in
  if (tspan v =? 0) || (t_e v <=? t_s (di_tr it)) then [] else
  match read_loop P c true (skipn (Z.to_nat (di_pos it)) (c_ptrs c)) b v with
  | Ok l => l
  | Err _ => []
  end.

Definition read (d : db) (k : Z) (b : tr) : list rseries :=
  match alookup k d with
  | Some c => read_chan (index_doms d c) c b
  | None => []
  end.
