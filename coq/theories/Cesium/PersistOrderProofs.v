(* Proofs about the index.domain persistence protocol (model: PersistOrder.v). *)
From Coq Require Import List ZArith Bool Arith Lia.
From Synnax Require Import Cesium.PersistOrder.
Import ListNotations.
Open Scope nat_scope.

(* ------------------------------------------------------------------ the unpersisted low-water mark *)
(* [dirt]: the lowest pointer position changed by a critical section that no later persist covers
   (None: everything is covered).  Computed from the schedule alone. *)
Definition minopt (k : option nat) (n : nat) : nat :=
  match k with None => n | Some j => Nat.min j n end.

Definition dirt_step (k : option nat) (e : event) : option nat :=
  match e with
  | EPrepare _ (Mutate pos _ None) => Some (minopt k pos)
  | EPrepare _ (Mutate pos _ (Some s)) => let k1 := minopt k pos in if s <=? k1 then None else Some k1
  | EPrepare _ (Flush s) => match k with None => None | Some j => if s <=? j then None else Some j end
  | EWrite _ => k
  end.
Definition dirt (es : list event) : option nat := fold_left dirt_step es None.

(* the file agrees with the pointer list: entirely, or below position k *)
Definition agree (k : option nat) (d m : list Z) : Prop :=
  match k with None => d = m | Some j => firstn j d = firstn j m /\ j <= length m end.

(* ------------------------------------------------------------------ list facts *)
Lemma resize_length n d : length (resize n d) = n.
Proof. unfold resize. rewrite app_length, firstn_length, repeat_length. lia. Qed.

Lemma firstn_resize j n d : j <= n -> j <= length d -> firstn j (resize n d) = firstn j d.
Proof.
  intros Hn Hd. unfold resize. rewrite firstn_app.
  rewrite firstn_length. replace (j - Nat.min n (length d)) with 0 by lia.
  rewrite firstn_O, app_nil_r, firstn_firstn. f_equal. lia.
Qed.

Lemma firstn_eq_length {A} j (d m : list A) : firstn j d = firstn j m -> j <= length m -> j <= length d.
Proof.
  intros H Hm. assert (L : length (firstn j d) = length (firstn j m)) by (rewrite H; reflexivity).
  rewrite !firstn_length in L. lia.
Qed.

Lemma firstn_apply_mut j pos (m new : list Z) :
  j <= pos -> pos <= length m -> firstn j (firstn pos m ++ new) = firstn j m.
Proof.
  intros Hj Hp. rewrite firstn_app, firstn_length.
  replace (j - Nat.min pos (length m)) with 0 by lia.
  rewrite firstn_O, app_nil_r, firstn_firstn. f_equal. lia.
Qed.

Lemma firstn_le_eq {A} j k (d m : list A) : j <= k -> firstn k d = firstn k m -> firstn j d = firstn j m.
Proof.
  intros Hjk H.
  assert (E : forall l : list A, firstn j l = firstn j (firstn k l)).
  { intros l. rewrite firstn_firstn. f_equal. lia. }
  rewrite (E d), (E m), H. reflexivity.
Qed.

(* writing a snapshot taken at [start] of [m'] onto a file that agrees with [m'] below [start] yields [m'] *)
Lemma write_snap_full d m' s :
  s <= length m' -> firstn s d = firstn s m' -> write_snap d (take_snap s m') = m'.
Proof.
  intros Hs Hd. unfold write_snap, take_snap. cbn [sn_start sn_len sn_data].
  rewrite firstn_resize; [|lia|apply (firstn_eq_length s d m' Hd Hs)].
  rewrite Hd. apply firstn_skipn.
Qed.

(* ... and leaves everything below a lower mark j < start untouched *)
Lemma write_snap_below d m' s j :
  j <= s -> s <= length m' -> j <= length d ->
  firstn j (write_snap d (take_snap s m')) = firstn j d.
Proof.
  intros Hj Hs Hd. unfold write_snap, take_snap. cbn [sn_start sn_len sn_data].
  rewrite firstn_app, firstn_length, resize_length.
  replace (j - Nat.min s (length m')) with 0 by lia.
  rewrite firstn_O, app_nil_r, firstn_firstn.
  replace (Nat.min j s) with j by lia. apply firstn_resize; lia.
Qed.

(* ------------------------------------------------------------------ the invariant (LockInPrepare) *)
(* k already accounts for the pending persist as if it had been written *)
Definition Inv (k : option nat) (s : st) : Prop :=
  (pend s = [] /\ holder s = None /\ agree k (disk s) (mem s)) \/
  (exists t sn, pend s = [(t, sn)] /\ holder s = Some t /\ agree k (write_snap (disk s) sn) (mem s)).

Lemma agree_mutate k d m pos new :
  pos <= length m -> agree k d m -> agree (Some (minopt k pos)) d (firstn pos m ++ new).
Proof.
  intros Hp Ha. assert (Hl : pos <= length (firstn pos m ++ new)).
  { rewrite app_length, firstn_length. lia. }
  destruct k as [j|]; cbn [agree minopt] in *.
  - destruct Ha as [Ha Hj]. split; [|lia].
    rewrite firstn_apply_mut by lia. apply (firstn_le_eq _ j); [lia|exact Ha].
  - subst d. split; [|lia]. now rewrite firstn_apply_mut by lia.
Qed.

Lemma inv_step k s e s' :
  Inv k s -> step LockInPrepare s e = Some s' -> Inv (dirt_step k e) s'.
Proof.
  intros HI Hst. destruct e as [t o|t]; cbn [step] in Hst.
  - destruct (op_ok (mem s) o) eqn:Hok; cbn [negb] in Hst; [|discriminate].
    destruct (lookup t (pend s)) eqn:Hl; [discriminate|].
    destruct o as [pos new [start|]|start]; cbn [persist_of apply_op op_ok dirt_step] in *.
    + (* mutate and persist *)
      apply andb_prop in Hok. destruct Hok as [Hp Hs]. apply Nat.leb_le in Hp, Hs.
      destruct HI as [(Hpe & Hh & Ha)|(u & sn & Hpe & Hh & Ha)]; rewrite Hh in Hst; [|discriminate].
      inversion Hst; subst s'; clear Hst. right. exists t, (take_snap start (firstn pos (mem s) ++ new)).
      cbn [pend holder disk mem]. rewrite Hpe. split; [reflexivity|]. split; [reflexivity|].
      pose proof (agree_mutate k _ _ pos new Hp Ha) as Ha'. cbn [agree] in Ha'. destruct Ha' as [Ha' Hk1].
      set (m' := firstn pos (mem s) ++ new) in *. set (k1 := minopt k pos) in *.
      assert (Hk1p : k1 <= pos) by (subst k1; destruct k; cbn; lia).
      assert (Hlen : pos <= length m') by (subst m'; rewrite app_length, firstn_length; lia).
      destruct (Nat.leb_spec start k1) as [Hle|Hgt]; cbn [agree].
      * apply write_snap_full; [lia|]. apply (firstn_le_eq _ k1); [lia|exact Ha'].
      * split; [|exact Hk1]. rewrite write_snap_below; [exact Ha'|lia|lia|].
        apply (firstn_eq_length k1 (disk s) m' Ha' Hk1).
    + (* lazy mutate *)
      apply Nat.leb_le in Hok. inversion Hst; subst s'; clear Hst.
      destruct HI as [(Hpe & Hh & Ha)|(u & sn & Hpe & Hh & Ha)].
      * left. cbn [pend holder disk mem]. split; [assumption|]. split; [assumption|]. now apply agree_mutate.
      * right. exists u, sn. cbn [pend holder disk mem]. split; [assumption|]. split; [assumption|].
        now apply agree_mutate.
    + (* flush *)
      apply Nat.leb_le in Hok.
      destruct HI as [(Hpe & Hh & Ha)|(u & sn & Hpe & Hh & Ha)]; rewrite Hh in Hst; [|discriminate].
      inversion Hst; subst s'; clear Hst. right. exists t, (take_snap start (mem s)).
      cbn [pend holder disk mem]. rewrite Hpe. split; [reflexivity|]. split; [reflexivity|].
      destruct k as [j|]; cbn [agree] in *.
      * destruct Ha as [Ha Hj]. destruct (Nat.leb_spec start j) as [Hle|Hgt]; cbn [agree].
        -- apply write_snap_full; [lia|]. apply (firstn_le_eq _ j); [lia|exact Ha].
        -- split; [|exact Hj]. rewrite write_snap_below; [exact Ha|lia|lia|].
           apply (firstn_eq_length j (disk s) (mem s) Ha Hj).
      * rewrite Ha. apply write_snap_full; [lia|reflexivity].
  - (* write *)
    destruct (lookup t (pend s)) as [sn|] eqn:Hl; [|discriminate].
    inversion Hst; subst s'; clear Hst. cbn [dirt_step].
    destruct HI as [(Hpe & Hh & Ha)|(u & sn' & Hpe & Hh & Ha)].
    + rewrite Hpe in Hl. discriminate.
    + rewrite Hpe in Hl. cbn [lookup] in Hl. destruct (Nat.eqb t u) eqn:Htu; [|discriminate].
      inversion Hl; subst sn'. left. cbn [pend holder disk mem]. rewrite Hpe. cbn [remove]. rewrite Htu.
      split; [reflexivity|]. split; [reflexivity|]. exact Ha.
Qed.

Lemma inv_run es : forall k s s',
  Inv k s -> run LockInPrepare s es = Some s' -> Inv (fold_left dirt_step es k) s'.
Proof.
  induction es as [|e es IH]; intros k s s' HI Hr; cbn [run fold_left] in *.
  - inversion Hr; subst. exact HI.
  - destruct (step LockInPrepare s e) as [s1|] eqn:Hs; [|discriminate].
    apply (IH _ s1); [eapply inv_step; eassumption|exact Hr].
Qed.

Lemma inv_init m : Inv None (init m).
Proof. left. cbn. auto. Qed.

(* Every schedule, lazy commits and partial persists included: whenever no persist is pending the file agrees
   with the pointer list below the lowest change that no later persist covered. *)
Theorem persist_order_general m es s :
  run LockInPrepare (init m) es = Some s -> quiescent s = true -> agree (dirt es) (disk s) (mem s).
Proof.
  intros Hr Hq. pose proof (inv_run es None (init m) s (inv_init m) Hr) as HI.
  destruct HI as [(_ & _ & Ha)|(t & sn & Hpe & _)]; [exact Ha|].
  unfold quiescent in Hq. rewrite Hpe in Hq. discriminate.
Qed.

(* schedules in which every persist starts at or below its own change (what op_ok enforces when the schedule runs) *)
Definition covers (e : event) : bool :=
  match e with EPrepare _ (Mutate pos _ (Some s)) => s <=? pos | _ => true end.

Lemma step_covers p s e s' : step p s e = Some s' -> covers e = true.
Proof.
  destruct e as [t [pos new [start|]|start]|t]; cbn [step covers]; try reflexivity.
  destruct (op_ok (mem s) (Mutate pos new (Some start))) eqn:Hok; cbn [negb]; [|discriminate].
  cbn [op_ok] in Hok. apply andb_prop in Hok. intros _. apply Hok.
Qed.

Lemma run_covers p es : forall s s', run p s es = Some s' -> forallb covers es = true.
Proof.
  induction es as [|e es IH]; intros s s' Hr; cbn [run forallb] in *; [reflexivity|].
  destruct (step p s e) as [s1|] eqn:Hs; [|discriminate].
  rewrite (step_covers _ _ _ _ Hs). cbn. apply (IH _ _ Hr).
Qed.

Lemma dirt_eager es :
  forallb eager es = true -> forallb covers es = true -> fold_left dirt_step es None = None.
Proof.
  induction es as [|e es IH]; cbn [fold_left forallb]; [reflexivity|].
  intros He Hc. apply andb_prop in He. destruct He as [He1 He2]. apply andb_prop in Hc. destruct Hc as [Hc1 Hc2].
  replace (dirt_step None e) with (@None nat); [apply IH; assumption|].
  destruct e as [t [pos new [start|]|start]|t]; cbn [dirt_step eager covers minopt] in *;
    try reflexivity; try discriminate. now rewrite Hc1.
Qed.

(* No lazy commits: after every schedule, once no persist is pending, index.domain holds exactly the pointer list
   (so close + reopen returns the acknowledged state). *)
Theorem persist_order_eager m es s :
  run LockInPrepare (init m) es = Some s -> forallb eager es = true -> quiescent s = true -> disk s = mem s.
Proof.
  intros Hr He Hq. pose proof (persist_order_general m es s Hr Hq) as Ha.
  unfold dirt in Ha. rewrite (dirt_eager es He (run_covers _ _ _ _ Hr)) in Ha. exact Ha.
Qed.

(* Lazy commits: a completed whole-index flush (Writer.Close) with no critical section after its prepare
   restores disk = mem, whatever happened before. *)
Lemma run_app p es1 : forall es2 s0 s,
  run p s0 (es1 ++ es2) = Some s -> exists s1, run p s0 es1 = Some s1 /\ run p s1 es2 = Some s.
Proof.
  induction es1 as [|e es IH]; intros es2 s0 s Hr; cbn [app run] in *.
  - exists s0. split; [reflexivity|exact Hr].
  - destruct (step p s0 e) as [s1|]; [|discriminate]. apply (IH _ _ _ Hr).
Qed.

Theorem persist_order_flush m es t s :
  run LockInPrepare (init m) (es ++ [EPrepare t (Flush 0); EWrite t]) = Some s ->
  quiescent s = true /\ disk s = mem s.
Proof.
  intros Hr.
  assert (Hq : quiescent s = true).
  { destruct (run_app _ _ _ _ _ Hr) as (s1 & H1 & H2).
    pose proof (inv_run es None (init m) s1 (inv_init m) H1) as HI.
    cbn [run] in H2.
    destruct (step LockInPrepare s1 (EPrepare t (Flush 0))) as [s2|] eqn:H3; [|discriminate].
    destruct (step LockInPrepare s2 (EWrite t)) as [s3|] eqn:H4; [|discriminate].
    inversion H2; subst s3; clear H2.
    cbn [step] in H3. destruct (op_ok (mem s1) (Flush 0)); cbn [negb] in H3; [|discriminate].
    destruct (lookup t (pend s1)) eqn:Hl; [discriminate|]. cbn [persist_of] in H3.
    destruct HI as [(Hpe & Hh & _)|(u & sn & _ & Hh & _)]; rewrite Hh in H3; [|discriminate].
    inversion H3; subst s2; clear H3.
    cbn [step pend lookup] in H4. rewrite Nat.eqb_refl in H4. inversion H4; subst s; clear H4.
    cbn [quiescent pend remove]. rewrite Nat.eqb_refl, Hpe. reflexivity. }
  split; [exact Hq|].
  pose proof (persist_order_general m _ s Hr Hq) as Ha. unfold dirt in Ha.
  rewrite fold_left_app in Ha. cbn [fold_left dirt_step] in Ha.
  destruct (fold_left dirt_step es None); exact Ha.
Qed.

(* ------------------------------------------------------------------ the older protocol *)
(* With the file lock taken only when the write happens, two eager commits can reach the file in the wrong order:
   afterwards nothing is pending and index.domain lacks an acknowledged pointer (finding F74). *)
Theorem persist_order_late_refuted :
  exists es s, run LockAtWrite (init []) es = Some s /\ forallb eager es = true /\ quiescent s = true /\
               disk s <> mem s.
Proof.
  exists f74_schedule. eexists. split; [vm_compute; reflexivity|].
  split; [reflexivity|]. split; [reflexivity|]. cbn. discriminate.
Qed.

(* the same schedule cannot run under the current protocol: the second prepare blocks on the file lock *)
Lemma f74_schedule_blocked : run LockInPrepare (init []) f74_schedule = None.
Proof. reflexivity. Qed.
