(* Cesium/UnaryWrite.v — the write side at the level of "a commit produces / extends a
   domain": cesium.Writer (writer_open.go newStreamWriter, writer_stream.go idxWriter.write /
   validateWrite / Commit / resolveCommitEnd), unary.Writer.write / commitWithEnd,
   domain.Writer.OpenWriter / Write / commit / resolveCommitEnd / validateCommitRange and
   domain index insert / update, for ONE writer session open at a time.
   File handling is reduced to what decides rollover: the byte size of the newest file of
   each channel (with one writer at a time at most one file is below the nominal size, so
   fileController.acquireWriter is deterministic).  No proofs in this file. *)
From Coq Require Import ZArith List Bool.
From Synnax Require Import Cesium.Store Cesium.IndexSearch Cesium.Stamp.
Import ListNotations.
Local Open Scope Z_scope.

(* ---- configuration ---- *)
(* domain.Config.Override: FileSize := round(0.8 * cap); realFileSizeCap := round(1.25 * FileSize).
   Both roundings are exact integer computations for caps below 2^50 (0.8*cap is never
   within 0.1 of a half; 1.25*n is exact in binary and ties round away from zero). *)
Definition DEFAULT_CAP : Z := 1000000000.
Definition nominal_size (cap : Z) : Z := (8 * cap + 5) / 10.
Definition real_cap (nominal : Z) : Z := (5 * nominal + 2) / 4.

(* data type kinds: 0 timestamp / int64, 1 uint8, 2 float32, 3 string, 4 json.  On the
   variable-length kinds the value 0 stands for the zero-length sample (length prefix only). *)
Fixpoint ndigits_go (fuel : nat) (v : Z) : Z :=
  match fuel with O => 1 | S f => if v <? 10 then 1 else 1 + ndigits_go f (v / 10) end.
Definition ndigits (v : Z) : Z := ndigits_go 20 v.
Definition sample_bytes (kind v : Z) : Z :=
  if kind =? 0 then 8 else if kind =? 1 then 1 else if kind =? 2 then 4
  else if v =? 0 then 4
  else if kind =? 3 then 4 + 1 + ndigits v + v mod 4
  else 4 + 6 + ndigits v + v mod 3.
Definition bytes_of (kind : Z) (vs : list Z) : Z :=
  fold_left (fun acc v => acc + sample_bytes kind v) vs 0.
Definition is_var (kind : Z) : bool := 3 <=? kind.

(* ---- database ---- *)
Record chan := Chan {
  c_key : Z;
  c_idx : Z;            (* 0: this is an index channel; otherwise the key of its index *)
  c_kind : Z;
  c_doms : list dom;    (* committed domains, in index order *)
  c_tail : Z            (* bytes in the newest file of the channel (committed or not) *)
}.
Definition c_is_index (c : chan) : bool := c_idx c =? 0.
Definition c_index_key (c : chan) : Z := if c_is_index c then c_key c else c_idx c.

Definition db := list chan.
Fixpoint get_chan (d : db) (k : Z) : option chan :=
  match d with [] => None | c :: r => if c_key c =? k then Some c else get_chan r k end.
Fixpoint put_chan (d : db) (c : chan) : db :=
  match d with [] => [] | x :: r => if c_key x =? c_key c then c :: r else x :: put_chan r c end.
Definition doms_of (d : db) (k : Z) : list dom :=
  match get_chan d k with Some c => c_doms c | None => [] end.

(* ---- domain index insert / update on the pointer list ---- *)
Fixpoint insert_at {A} (l : list A) (n : nat) (x : A) : list A :=
  match n, l with
  | O, _ => x :: l
  | S m, [] => [x]
  | S m, y :: r => y :: insert_at r m x
  end.
Fixpoint replace_at {A} (l : list A) (n : nat) (x : A) : list A :=
  match n, l with
  | _, [] => []
  | O, _ :: r => x :: r
  | S m, y :: r => y :: replace_at r m x
  end.

Definition idx_insert (P : list dom) (p : dom) : res (list dom) :=
  match P with
  | [] => Ok [p]
  | first :: _ =>
      let lastd := last P first in
      if t_e (d_tr lastd) <? t_s (d_tr p) then Ok (P ++ [p])
      else if negb (t_e (d_tr p) <? t_s (d_tr first)) then
        let '(i, ov) := usearch P (d_tr p) in
        if ov then Err EConflict else Ok (insert_at P (Z.to_nat (i + 1)) p)
      else Ok (p :: P)
  end.

Definition idx_update (P : list dom) (p : dom) : res (list dom) :=
  match P with
  | [] => Err ENotFound
  | first :: _ =>
      let lasti := zlen P - 1 in
      let lastd := last P first in
      let at_ := if t_s (d_tr p) =? t_s (d_tr lastd) then lasti
                 else fst (usearch P (point (t_s (d_tr p)))) in
      match znth P at_ with
      | None => Err EPanic (* Go: index out of range *)
      | Some old =>
          if negb (t_s (d_tr old) =? t_s (d_tr p)) then Err ENotFound else
          let ov_next := match znth P (at_ + 1) with
                         | Some n => negb (at_ =? lasti) && overlaps (d_tr n) (d_tr p)
                         | None => false end in
          let ov_prev := match znth P (at_ - 1) with
                         | Some n => negb (at_ =? 0) && overlaps (d_tr n) (d_tr p)
                         | None => false end in
          if ov_prev || ov_next then Err EConflict
          else Ok (replace_at P (Z.to_nat at_) p)
      end
  end.

(* ---- writer session ---- *)
Record wchan := WC {
  wc_key : Z;
  wc_start : Z;        (* domain.Writer.Start (moves on rollover) *)
  wc_prev : Z;         (* prevCommit *)
  wc_pend : list Z;    (* samples written through the current file handle *)
  wc_pbytes : Z;       (* internal.Len() *)
  wc_fsize : Z;        (* fileSize *)
  wc_total : Z         (* samples written in the session (tracker.count) *)
}.
Record group := G {
  g_idx : Z;           (* key of the index channel of the group *)
  g_widx : bool;       (* writingToIdx *)
  g_chs : list wchan;
  g_hwm : Z;
  g_count : Z;         (* sampleCount *)
  g_unc : bool;        (* hasUncommittedData *)
  g_last : Z           (* lastCommitEnd *)
}.
Record writer := W { w_start : Z; w_auto : bool; w_groups : list group }.

Record state := St { s_cap : Z; s_db : db; s_w : option writer }.

Definition nominal_of (st : state) : Z :=
  nominal_size (if s_cap st =? 0 then DEFAULT_CAP else s_cap st).

(* fileController.acquireWriter with one writer at a time: the newest file if it is below
   the nominal size, else a fresh file *)
Definition acquire (nominal : Z) (c : chan) : chan * Z :=
  if c_tail c <? nominal then (c, c_tail c)
  else (Chan (c_key c) (c_idx c) (c_kind c) (c_doms c) 0, 0).

(* domain.DB.OpenWriter for one channel *)
Definition open_chan (nominal : Z) (d : db) (k start : Z) : res (db * wchan) :=
  match get_chan d k with
  | None => Err ENotFound
  | Some c =>
      if snd (usearch (c_doms c) (point start)) then Err EConflict else
      let '(c', fs) := acquire nominal c in
      Ok (put_chan d c', WC k start 0 [] 0 fs 0)
  end.

Fixpoint add_to_group (gs : list group) (ik : Z) (widx : bool) (start : Z) (wc : wchan) : list group :=
  match gs with
  | [] => [G ik widx [wc] start 0 false start]
  | g :: r => if g_idx g =? ik then G ik (g_widx g) (g_chs g ++ [wc]) (g_hwm g) (g_count g) (g_unc g) (g_last g) :: r
              else g :: add_to_group r ik widx start wc
  end.

(* newStreamWriter: pass 1 opens the index channels named in keys, pass 2 the data
   channels; the first failure aborts the open (writers opened so far are closed again,
   which leaves only freshly created empty files behind) *)
Fixpoint open_pass (idx_pass : bool) (nominal : Z) (d : db) (keys : list Z) (start : Z) (gs : list group)
  : db * res (list group) :=
  match keys with
  | [] => (d, Ok gs)
  | k :: rest =>
      match get_chan d k with
      | None => if idx_pass then (d, Err ENotFound) else open_pass idx_pass nominal d rest start gs
      | Some c =>
          if Bool.eqb (c_is_index c) idx_pass then
            match open_chan nominal d k start with
            | Err e => (d, Err e)
            | Ok (d', wc) =>
                open_pass idx_pass nominal d' rest start (add_to_group gs (c_index_key c) idx_pass start wc)
            end
          else open_pass idx_pass nominal d rest start gs
      end
  end.

Definition close_writer (st : state) : state := St (s_cap st) (s_db st) None.

(* a failed open closes the writers opened so far; the files they created stay behind *)
Definition op_open (st : state) (keys : list Z) (start : Z) (auto : bool) : state * Z :=
  let st := close_writer st in
  match keys with
  | [] => (st, err_code EValidation)
  | _ =>
    let nominal := nominal_of st in
    match open_pass true nominal (s_db st) keys start [] with
    | (d1, Err e) => (St (s_cap st) d1 None, err_code e)
    | (d1, Ok g1) =>
        match open_pass false nominal d1 keys start g1 with
        | (d2, Err e) => (St (s_cap st) d2 None, err_code e)
        | (d2, Ok gs) => (St (s_cap st) d2 (Some (W start auto gs)), 0)
        end
    end
  end.

(* ---- write ---- *)
Definition frame := list (Z * list Z).
Fixpoint frame_get (f : frame) (k : Z) : option (list Z) :=
  match f with [] => None | (k', v) :: r => if k' =? k then Some v else frame_get r k end.
Fixpoint has_dup (ks : list Z) : bool :=
  match ks with [] => false | k :: r => existsb (Z.eqb k) r || has_dup r end.

(* idxWriter.validateWrite: 0 channels of the group in the frame -> skip; otherwise all of
   them, with equal lengths, one series each *)
Definition validate_write (g : group) (f : frame) : res (option Z) :=
  let mine := filter (fun kv => existsb (fun wc => wc_key wc =? fst kv) (g_chs g)) f in
  match mine with
  | [] => Ok None
  | (_, v0) :: _ =>
      let n := zlen v0 in
      if has_dup (map fst mine) then Err EValidation else
      if negb (forallb (fun kv => zlen (snd kv) =? n) mine) then Err EValidation else
      if negb (zlen mine =? zlen (g_chs g)) then Err EValidation else Ok (Some n)
  end.

(* unary write + domain write of one series *)
Definition write_chan (d : db) (wc : wchan) (vs : list Z) : db * wchan :=
  match get_chan d (wc_key wc) with
  | None => (d, wc)
  | Some c =>
      let b := bytes_of (c_kind c) vs in
      (put_chan d (Chan (c_key c) (c_idx c) (c_kind c) (c_doms c) (c_tail c + b)),
       WC (wc_key wc) (wc_start wc) (wc_prev wc) (wc_pend wc ++ vs) (wc_pbytes wc + b)
          (wc_fsize wc + b) (wc_total wc + zlen vs))
  end.

Fixpoint write_chans (d : db) (wcs : list wchan) (f : frame) : db * list wchan :=
  match wcs with
  | [] => (d, [])
  | wc :: r =>
      let '(d1, wc1) := match frame_get f (wc_key wc) with
                        | Some vs => write_chan d wc vs
                        | None => (d, wc) end in
      let '(d2, r2) := write_chans d1 r f in (d2, wc1 :: r2)
  end.

Definition idx_total (g : group) : Z :=
  match find (fun wc => wc_key wc =? g_idx g) (g_chs g) with
  | Some wc => wc_total wc | None => 0 end.

Definition group_write (d : db) (g : group) (f : frame) : res (db * group) :=
  do vn <- validate_write g f;
  match vn with
  | None => Ok (d, g)
  | Some n =>
      if n =? 0 then Ok (d, g) else
      let before := idx_total g in
      let '(d', chs) := write_chans d (g_chs g) f in
      let hwm := if g_widx g then
                   match frame_get f (g_idx g) with
                   | Some vs => last vs (g_hwm g) | None => g_hwm g end
                 else g_hwm g in
      let count := if g_widx g then before + n else g_count g + n in
      Ok (d', G (g_idx g) (g_widx g) chs hwm count true (g_last g))
  end.

(* ---- commit ---- *)
(* domain.Writer.commit for one channel with the resolved end *)
Definition commit_chan (nominal : Z) (d : db) (wc : wchan) (end_ : Z) : res (db * wchan) :=
  match get_chan d (wc_key wc) with
  | None => Err ENotFound
  | Some c =>
      if wc_pbytes wc =? 0 then Ok (d, wc) else
      let switching := real_cap nominal <=? wc_fsize wc in
      (* presetEnd is never set by cesium writers, so the previous-commit check applies to
         switching commits too *)
      if negb (wc_prev wc =? 0) && (end_ <? wc_prev wc) then Err EValidation else
      if negb (wc_start wc <? end_) then Err EValidation else
      let p := Dom (TR (wc_start wc) end_) (wc_pend wc) in
      do P' <- (if wc_prev wc =? 0 then idx_insert (c_doms c) p else idx_update (c_doms c) p);
      if switching then
        Ok (put_chan d (Chan (c_key c) (c_idx c) (c_kind c) P' 0),
            WC (wc_key wc) end_ 0 [] 0 0 (wc_total wc))
      else
        Ok (put_chan d (Chan (c_key c) (c_idx c) (c_kind c) P' (c_tail c)),
            WC (wc_key wc) (wc_start wc) end_ (wc_pend wc) (wc_pbytes wc) (wc_fsize wc) (wc_total wc))
  end.

(* errors.Join over the channels of the group: every channel is attempted *)
Fixpoint commit_chans (nominal : Z) (d : db) (wcs : list wchan) (end_ : Z) : db * list wchan * option err :=
  match wcs with
  | [] => (d, [], None)
  | wc :: r =>
      let '(d1, wc1, e1) := match commit_chan nominal d wc end_ with
                            | Ok (d1, wc1) => (d1, wc1, None)
                            | Err e => (d, wc, Some e) end in
      let '(d2, r2, e2) := commit_chans nominal d1 r end_ in
      (d2, wc1 :: r2, match e1 with Some e => Some e | None => e2 end)
  end.

Definition resolve_commit_end (d : db) (start : Z) (g : group) : res Z :=
  if g_widx g then Ok (g_hwm g) else
  do a <- stamp (doms_of d (g_idx g)) start (g_count g - 1) true;
  if s_exact a then Ok (s_lo a) else Err EDisc.

Definition group_commit (nominal : Z) (d : db) (start : Z) (g : group) : db * group * res Z :=
  if (g_count g =? 0) || negb (g_unc g) then (d, g, Ok (g_last g)) else
  match resolve_commit_end d start g with
  | Err e => (d, g, Err e)
  | Ok hw =>
      let end_ := hw + 1 in
      let '(d', chs, e) := commit_chans nominal d (g_chs g) end_ in
      match e with
      | Some e => (d', G (g_idx g) (g_widx g) chs (g_hwm g) (g_count g) (g_unc g) (g_last g), Err e)
      | None => (d', G (g_idx g) (g_widx g) chs (g_hwm g) (g_count g) false end_, Ok end_)
      end
  end.

(* streamWriter.write: per group write then (auto-commit) commit; the first error ends
   the request (and, through cesium.Writer.exec, the session) *)
Fixpoint groups_write (nominal : Z) (auto : bool) (start : Z) (d : db) (gs : list group) (f : frame)
  : db * list group * option err :=
  match gs with
  | [] => (d, [], None)
  | g :: r =>
      match group_write d g f with
      | Err e => (d, g :: r, Some e)
      | Ok (d1, g1) =>
          let '(d2, g2, ce) := if auto then group_commit nominal d1 start g1 else (d1, g1, Ok 0) in
          match ce with
          | Err e => (d2, g2 :: r, Some e)
          | Ok _ =>
              let '(d3, r3, e3) := groups_write nominal auto start d2 r f in (d3, g2 :: r3, e3)
          end
      end
  end.

Fixpoint groups_commit (nominal : Z) (start : Z) (d : db) (gs : list group) (mx : Z)
  : db * list group * res Z :=
  match gs with
  | [] => (d, [], Ok mx)
  | g :: r =>
      let '(d1, g1, ce) := group_commit nominal d start g in
      match ce with
      | Err e => (d1, g1 :: r, Err e)
      | Ok ts =>
          let '(d2, r2, e2) := groups_commit nominal start d1 r (Z.max mx ts) in (d2, g1 :: r2, e2)
      end
  end.

(* ---- a write hit by a scripted short write ----
   The harness can make ONE data-file Write of channel k store only its first j bytes and
   return an error (0 < j < bytes of the series; j = 1 + jseed mod (bytes - 1)).  idxWriter.write
   writes the index series first and then the data series in frame order; the series before
   the failing one are in their files, the failing one contributes j bytes, the rest nothing.
   The request fails, so cesium.Writer closes the session: nothing of it is committed. *)
Definition INJECTED : Z := 99.

Definition write_order (g : group) (f : frame) : list (Z * list Z) :=
  (if g_widx g then match frame_get f (g_idx g) with Some vs => [(g_idx g, vs)] | None => [] end else []) ++
  filter (fun kv => negb (fst kv =? g_idx g) && existsb (fun wc => wc_key wc =? fst kv) (g_chs g)) f.

Definition grow_tail (d : db) (k b : Z) : db :=
  match get_chan d k with
  | Some c => put_chan d (Chan (c_key c) (c_idx c) (c_kind c) (c_doms c) (c_tail c + b))
  | None => d
  end.

(* None: the fault does not fire in this group *)
Fixpoint short_write (d : db) (l : list (Z * list Z)) (k jseed : Z) : option db :=
  match l with
  | [] => None
  | (k', vs) :: r =>
      let b := match get_chan d k' with Some c => bytes_of (c_kind c) vs | None => 0 end in
      if k' =? k then
        if b <? 2 then None else Some (grow_tail d k (1 + jseed mod (b - 1)))
      else short_write (grow_tail d k' b) r k jseed
  end.

Fixpoint groups_write_fault (nominal : Z) (auto : bool) (start : Z) (d : db) (gs : list group) (f : frame)
         (k jseed : Z) : db * list group * option Z :=
  match gs with
  | [] => (d, [], None)
  | g :: r =>
      let faulted :=
        match validate_write g f with
        | Ok (Some n) => if n =? 0 then None else short_write d (write_order g f) k jseed
        | _ => None
        end in
      match faulted with
      | Some d' => (d', g :: r, Some INJECTED)
      | None =>
          match group_write d g f with
          | Err e => (d, g :: r, Some (err_code e))
          | Ok (d1, g1) =>
              let '(d2, g2, ce) := if auto then group_commit nominal d1 start g1 else (d1, g1, Ok 0) in
              match ce with
              | Err e => (d2, g2 :: r, Some (err_code e))
              | Ok _ =>
                  let '(d3, r3, e3) := groups_write_fault nominal auto start d2 r f k jseed in (d3, g2 :: r3, e3)
              end
          end
      end
  end.

(* ---- script operations ---- *)
Inductive wop :=
| WOpen (keys : list Z) (start : Z) (auto : bool)
| WWrite (f : frame)
| WCommit
| WClose
| WReopen
| WWriteFault (f : frame) (k jseed : Z).

(* result of one op: error class (0 = ok) and, for commit, the reported end *)
Definition w_step (st : state) (o : wop) : state * (Z * Z) :=
  match o with
  | WOpen keys start auto => let '(st', e) := op_open st keys start auto in (st', (e, 0))
  | WWrite f =>
      match s_w st with
      | None => (st, (err_code EClosed, 0))
      | Some w =>
          let '(d, gs, e) := groups_write (nominal_of st) (w_auto w) (w_start w) (s_db st) (w_groups w) f in
          match e with
          | Some e => (St (s_cap st) d None, (err_code e, 0))
          | None => (St (s_cap st) d (Some (W (w_start w) (w_auto w) gs)), (0, 0))
          end
      end
  | WCommit =>
      match s_w st with
      | None => (st, (err_code EClosed, 0))
      | Some w =>
          let '(d, gs, r) := groups_commit (nominal_of st) (w_start w) (s_db st) (w_groups w) 0 in
          match r with
          | Err e => (St (s_cap st) d None, (err_code e, 0))
          | Ok ts => (St (s_cap st) d (Some (W (w_start w) (w_auto w) gs)), (0, ts))
          end
      end
  | WClose => (close_writer st, (0, 0))
  | WReopen => (close_writer st, (0, 0))
  | WWriteFault f k jseed =>
      match s_w st with
      | None => (st, (err_code EClosed, 0))
      | Some w =>
          let '(d, gs, e) := groups_write_fault (nominal_of st) (w_auto w) (w_start w) (s_db st) (w_groups w) f k jseed in
          match e with
          | Some c => (St (s_cap st) d None, (c, 0))
          | None => (St (s_cap st) d (Some (W (w_start w) (w_auto w) gs)), (0, 0))
          end
      end
  end.

Fixpoint w_run (st : state) (ops : list wop) : state * list (Z * Z) :=
  match ops with
  | [] => (st, [])
  | o :: r => let '(st1, x) := w_step st o in let '(st2, xs) := w_run st1 r in (st2, x :: xs)
  end.

Definition mk_chan (k idx kind : Z) : chan := Chan k idx kind [] 0.
Definition init_state (cap : Z) (chs : list (Z * Z * Z)) : state :=
  St cap (map (fun c => mk_chan (fst (fst c)) (snd (fst c)) (snd c)) chs) None.
