(* Cesium/DeleteBase.v — storage invariant of one channel and the facts about byte-addressed
   sample lists that every C04 proof uses (DeleteProofs*.v, GCProofs.v). *)
From Coq Require Import ZArith List Bool Lia.
From Synnax Require Import Cesium.Store Cesium.StoreProofs Cesium.DeleteModel.
Import ListNotations.
Local Open Scope Z_scope.

(* ------------------------------------------------------------------ association lists *)
Lemma alookup_aset_eq {A} k (v : A) l : alookup k (aset k v l) = Some v.
Proof.
  induction l as [|[k' v'] r IH]; simpl.
  - rewrite Z.eqb_refl. reflexivity.
  - destruct (k =? k') eqn:E; simpl; rewrite ?Z.eqb_refl, ?E; auto.
Qed.

Lemma alookup_aset_ne {A} k k' (v : A) l : k' <> k -> alookup k' (aset k v l) = alookup k' l.
Proof.
  intros H. induction l as [|[k0 v0] r IH]; simpl.
  - destruct (k' =? k) eqn:E; [apply Z.eqb_eq in E; contradiction|reflexivity].
  - destruct (k =? k0) eqn:E; simpl.
    + apply Z.eqb_eq in E. subst k0.
      destruct (k' =? k) eqn:E2; [apply Z.eqb_eq in E2; contradiction|reflexivity].
    + destruct (k' =? k0); auto.
Qed.

Lemma aset_keys {A} k (v : A) l : alookup k l <> None -> map fst (aset k v l) = map fst l.
Proof.
  induction l as [|[k0 v0] r IH]; simpl; intros H.
  - contradiction.
  - destruct (k =? k0) eqn:E; simpl.
    + apply Z.eqb_eq in E. subst. reflexivity.
    + f_equal. apply IH. exact H.
Qed.

(* ------------------------------------------------------------------ byte slicing *)
Definition pos_samples (l : list sample) : Prop := Forall (fun s => 0 < s_len s) l.

Lemma bytes_of_app a b : bytes_of (a ++ b) = bytes_of a + bytes_of b.
Proof. induction a; simpl; lia. Qed.

Lemma bytes_of_nonneg l : pos_samples l -> 0 <= bytes_of l.
Proof. induction 1; simpl; lia. Qed.

Lemma bytes_of_pos l : pos_samples l -> l <> [] -> 0 < bytes_of l.
Proof.
  intros H Hn. destruct l; [contradiction|]. inversion H; subst. simpl.
  pose proof (bytes_of_nonneg l H3). lia.
Qed.

Lemma bytes_of_zero l : pos_samples l -> bytes_of l = 0 -> l = [].
Proof.
  intros H E. destruct l; [reflexivity|]. exfalso.
  pose proof (bytes_of_pos (s :: l) H ltac:(discriminate)). lia.
Qed.

Lemma pos_samples_app a b : pos_samples (a ++ b) <-> pos_samples a /\ pos_samples b.
Proof. unfold pos_samples. apply Forall_app. Qed.

Lemma drop_bytes_app a b : pos_samples a -> drop_bytes (bytes_of a) (a ++ b) = b.
Proof.
  induction 1 as [|s a Hs Ha IH]; simpl.
  - destruct b; reflexivity.
  - pose proof (bytes_of_nonneg a Ha).
    destruct (s_len s + bytes_of a <=? 0) eqn:E; [apply Z.leb_le in E; lia|].
    replace (s_len s + bytes_of a - s_len s) with (bytes_of a) by lia. exact IH.
Qed.

Lemma take_bytes_app a b : pos_samples a -> take_bytes (bytes_of a) (a ++ b) = a.
Proof.
  induction 1 as [|s a Hs Ha IH]; simpl.
  - destruct b; reflexivity.
  - pose proof (bytes_of_nonneg a Ha).
    destruct (s_len s + bytes_of a <=? 0) eqn:E; [apply Z.leb_le in E; lia|].
    replace (s_len s + bytes_of a - s_len s) with (bytes_of a) by lia. rewrite IH. reflexivity.
Qed.

Lemma take_bytes_all a : pos_samples a -> take_bytes (bytes_of a) a = a.
Proof. intros H. rewrite <- (app_nil_r a) at 2. apply take_bytes_app. exact H. Qed.

Lemma drop_bytes_0 l : drop_bytes 0 l = l.
Proof. destruct l; reflexivity. Qed.

Lemma take_bytes_0 l : take_bytes 0 l = [].
Proof. destruct l; reflexivity. Qed.

Lemma drop_bytes_all a : pos_samples a -> drop_bytes (bytes_of a) a = [].
Proof. intros H. rewrite <- (app_nil_r a) at 2. apply drop_bytes_app. exact H. Qed.

(* a byte range [off, off+size) of file f that starts and ends on sample boundaries *)
Definition aligned (f : list sample) (off size : Z) (mid : list sample) : Prop :=
  exists pre post, f = pre ++ mid ++ post /\ bytes_of pre = off /\ bytes_of mid = size.

Lemma aligned_slice f off size mid :
  pos_samples f -> aligned f off size mid ->
  take_bytes size (drop_bytes off f) = mid.
Proof.
  intros Hf (pre & post & -> & <- & <-).
  apply pos_samples_app in Hf as [Hpre Hf]. apply pos_samples_app in Hf as [Hmid _].
  rewrite drop_bytes_app by assumption. apply take_bytes_app. assumption.
Qed.

(* ------------------------------------------------------------------ the invariant *)
Definition ptr_aligned (c : chan) (p : ptr) : Prop :=
  aligned (file_of c (p_file p)) (p_off p) (p_size p) (ptr_samples c p).

Definition files_pos (c : chan) : Prop :=
  forall k f, alookup k (c_files c) = Some f -> pos_samples f.

(* pointers sorted by time, pairwise disjoint, each with a non-empty time range *)
Inductive sorted_ptrs : list ptr -> Prop :=
| sp_nil : sorted_ptrs []
| sp_one p : t_s (p_tr p) < t_e (p_tr p) -> sorted_ptrs [p]
| sp_cons p q r : t_s (p_tr p) < t_e (p_tr p) -> t_e (p_tr p) <= t_s (p_tr q) ->
                  sorted_ptrs (q :: r) -> sorted_ptrs (p :: q :: r).

Record wf_chan (c : chan) : Prop := {
  wf_files : files_pos c;
  wf_aligned : Forall (ptr_aligned c) (c_ptrs c);
  wf_sorted : sorted_ptrs (c_ptrs c)
}.

Lemma file_of_pos c k : files_pos c -> pos_samples (file_of c k).
Proof.
  intros H. unfold file_of. destruct (alookup k (c_files c)) eqn:E; [eapply H; eauto|constructor].
Qed.

Lemma ptr_samples_pos c p : files_pos c -> ptr_aligned c p -> pos_samples (ptr_samples c p).
Proof.
  intros Hf (pre & post & E & _ & _). pose proof (file_of_pos c (p_file p) Hf) as H.
  rewrite E in H. apply pos_samples_app in H as [_ H]. apply pos_samples_app in H as [H _]. exact H.
Qed.

Lemma ptr_samples_bytes c p : ptr_aligned c p -> bytes_of (ptr_samples c p) = p_size p.
Proof. intros (pre & post & _ & _ & E). exact E. Qed.

(* sorted pointer lists: every element has a non-empty range and later ones start after
   earlier ones end *)
Lemma sorted_ptrs_tail p r : sorted_ptrs (p :: r) -> sorted_ptrs r.
Proof. inversion 1; subst; [constructor|assumption]. Qed.

Lemma sorted_ptrs_head p r : sorted_ptrs (p :: r) -> t_s (p_tr p) < t_e (p_tr p).
Proof. inversion 1; subst; assumption. Qed.

Lemma sorted_ptrs_after p r :
  sorted_ptrs (p :: r) -> Forall (fun q => t_e (p_tr p) <= t_s (p_tr q) /\ t_s (p_tr q) < t_e (p_tr q)) r.
Proof.
  revert p. induction r as [|q r IH]; intros p H; [constructor|].
  inversion H; subst. constructor.
  - split; [assumption|]. eapply sorted_ptrs_head; eauto.
  - specialize (IH q H5). eapply Forall_impl; [|exact IH]. simpl. intros a [Ha Hb]. split; [|assumption].
    pose proof (sorted_ptrs_head _ _ H5). lia.
Qed.

Lemma sorted_ptrs_nonempty l : sorted_ptrs l -> Forall (fun p => t_s (p_tr p) < t_e (p_tr p)) l.
Proof.
  induction l as [|p r IH]; intros H; [constructor|].
  constructor; [eapply sorted_ptrs_head; eauto|]. apply IH. eapply sorted_ptrs_tail; eauto.
Qed.

Lemma sorted_ptrs_app_inv a b : sorted_ptrs (a ++ b) -> sorted_ptrs a /\ sorted_ptrs b.
Proof.
  induction a as [|p a IH]; simpl; intros H.
  - split; [constructor|assumption].
  - pose proof (sorted_ptrs_tail _ _ H) as Ht. destruct (IH Ht) as [Ha Hb]. split; [|assumption].
    destruct a as [|q a]; [constructor; eapply sorted_ptrs_head; eauto|].
    simpl in H. inversion H; subst. constructor; assumption.
Qed.

(* in a sorted list only a pointer's own range contains its range *)
Lemma sorted_contains_unique l p q :
  sorted_ptrs l -> In p l -> In q l ->
  contains_range (p_tr q) (p_tr p) = true -> p_tr q = p_tr p.
Proof.
  intros Hs. revert p q. induction l as [|x l IH]; intros p q Hp Hq Hc; [contradiction|].
  pose proof (sorted_ptrs_after _ _ Hs) as Ha. rewrite Forall_forall in Ha.
  pose proof (sorted_ptrs_head _ _ Hs) as Hx.
  unfold contains_range in Hc. apply andb_true_iff in Hc as [H1 H2]. apply Z.leb_le in H1, H2.
  destruct Hp as [->|Hp], Hq as [->|Hq].
  - reflexivity.
  - destruct (Ha q Hq). lia.
  - destruct (Ha p Hp). lia.
  - apply IH; auto. eapply sorted_ptrs_tail; eauto.
    unfold contains_range. apply andb_true_iff. split; apply Z.leb_le; assumption.
Qed.

(* two pointers of a sorted list with the same time range are the same list element *)
Lemma sorted_tr_inj l1 p l2 q :
  sorted_ptrs (l1 ++ p :: l2) -> In q (l1 ++ p :: l2) -> p_tr q = p_tr p ->
  ~ In q l1 /\ ~ In q l2 \/ q = p.
Proof.
  intros Hs Hq E.
  destruct (sorted_ptrs_app_inv _ _ Hs) as [_ Hp].
  pose proof (sorted_ptrs_head _ _ Hp) as Hne.
  pose proof (sorted_ptrs_after _ _ Hp) as Ha. rewrite Forall_forall in Ha.
  left. split.
  - intros Hin. clear Hq.
    induction l1 as [|x l1 IH]; [contradiction|].
    simpl in Hs. pose proof (sorted_ptrs_after _ _ Hs) as Hx. rewrite Forall_forall in Hx.
    destruct Hin as [->|Hin].
    + assert (In p (l1 ++ p :: l2)) by (apply in_or_app; right; left; reflexivity).
      destruct (Hx p H). rewrite E in *. lia.
    + apply IH; auto. eapply sorted_ptrs_tail; eauto.
  - intros Hin. destruct (Ha q Hin). rewrite E in *. lia.
Qed.
