(* Cesium/UnaryIterExact.v — structure of a step of the unary iterator (the code /repo
   carries): on a sorted, non-overlapping layout the frame of a step is, in order, the series
   sliced from every domain that overlaps the view — independent of where earlier commands
   left the domain iterator. *)
From Coq Require Import ZArith List Bool Lia Sorting.Sorted.
From Synnax Require Import Cesium.Store Cesium.StoreProofs Cesium.IndexSearch Cesium.Distance Cesium.Stamp
     Cesium.UnaryIter Cesium.UnaryIterViews Cesium.DomIterProofs.
Import ListNotations.
Local Open Scope Z_scope.

(* ---- layouts split around one domain ---- *)
Lemma sorted_app_inv {A} (R : A -> A -> Prop) l1 l2 :
  StronglySorted R (l1 ++ l2) ->
  StronglySorted R l1 /\ StronglySorted R l2 /\ (forall x y, In x l1 -> In y l2 -> R x y).
Proof.
  induction l1 as [|a l1 IH]; simpl; intros S.
  - split; [constructor|]. split; [exact S|]. intros x y [].
  - inversion S as [|? ? S' F]; subst. destruct (IH S') as (S1 & S2 & C).
    split; [constructor; [exact S1|]|]. 
    + rewrite Forall_forall in *. intros x Hx. apply F. apply in_or_app. left. exact Hx.
    + split; [exact S2|]. intros x y [->|Hx] Hy.
      * rewrite Forall_forall in F. apply F. apply in_or_app. right. exact Hy.
      * apply C; assumption.
Qed.

Lemma lay_split pre d post : lay (pre ++ d :: post) ->
  lay pre /\ dwf d /\ lay post /\
  (forall x, In x pre -> dbefore x d) /\ (forall y, In y post -> dbefore d y).
Proof.
  intros [W S]. apply Forall_app in W. destruct W as [W1 W2]. inversion W2 as [|? ? Wd W3]; subst.
  destruct (sorted_app_inv _ _ _ S) as (S1 & S2 & C). inversion S2 as [|? ? S3 F]; subst.
  split; [split; assumption|]. split; [exact Wd|]. split; [split; assumption|]. split.
  - intros x Hx. apply C; [exact Hx|left; reflexivity].
  - rewrite Forall_forall in F. exact F.
Qed.

Lemma znth_split {A} (L : list A) k x : znth L k = Some x ->
  exists pre post, L = pre ++ x :: post /\ zlen pre = k.
Proof.
  intros H. pose proof (znth_Some _ _ _ H) as R. unfold znth in H.
  destruct (k <? 0) eqn:E; zb; [lia|].
  apply nth_error_split in H. destruct H as (pre & post & -> & Hl).
  exists pre, post. split; [reflexivity|]. unfold zlen. lia.
Qed.

Lemma znth_mid {A} (pre : list A) x post : znth (pre ++ x :: post) (zlen pre) = Some x.
Proof. rewrite znth_app_r by lia. replace (zlen pre - zlen pre) with 0 by lia. reflexivity. Qed.

Lemma znth_after {A} (pre : list A) x post : znth (pre ++ x :: post) (zlen pre + 1) = znth post 0.
Proof.
  rewrite znth_app_r by lia. replace (zlen pre + 1 - zlen pre) with 1 by lia.
  rewrite znth_cons by lia. reflexivity.
Qed.

Lemma In_znth_lt {A} (l : list A) x : In x l -> exists j, 0 <= j < zlen l /\ znth l j = Some x.
Proof.
  intros H. destruct (In_nth_error _ _ H) as [n Hn].
  assert (n < length l)%nat by (apply nth_error_Some; congruence).
  exists (Z.of_nat n). split; [unfold zlen; lia|].
  unfold znth. destruct (Z.of_nat n <? 0) eqn:Q; zb; [lia|]. rewrite Nat2Z.id. exact Hn.
Qed.

Section Exact.
Variable P D : list dom.
Variable var : bool.

(* ---- the contribution of one domain to a view ---- *)
Definition mk_it (d : dom) (v : tr) : uiter := UI v v [] None (DI v 0 d true).
Definition dser (d : dom) (v : tr) : res series :=
  match slice_domain P var (mk_it d v) with
  | Ok (off, size) => u_read (mk_it d v) off size
  | Err e => Err e
  end.
Definition nonempty_ser (s : series) : list series := match sr_data s with [] => [] | _ => [s] end.
Definition contrib (v : tr) (d : dom) : list series :=
  if overlaps (d_tr d) v then match dser d v with Ok s => nonempty_ser s | Err _ => [] end else [].
Definition contribs (v : tr) (l : list dom) : list series := flat_map (contrib v) l.
(* slicing succeeds on every domain that overlaps the view *)
Definition good (v : tr) (d : dom) : Prop := overlaps (d_tr d) v = true -> exists s, dser d v = Ok s.

Lemma dser_tr d v s : dser d v = Ok s -> sr_tr s = bound_by (d_tr d) v.
Proof.
  unfold dser. destruct (slice_domain P var (mk_it d v)) as [[off size]|]; [|discriminate].
  unfold u_read. destruct (size <? 0); [discriminate|]. intros H. inversion H. reflexivity.
Qed.

Lemma accumulate_eq i :
  accumulate P var i =
  if negb (overlaps (cur_tr i) (u_view i)) then (i, false) else
  match dser (di_cur (u_di i)) (u_view i) with
  | Ok s => (u_insert i s, true)
  | Err e => (u_set_err i e, false)
  end.
Proof.
  unfold accumulate, dser.
  destruct (negb (overlaps (cur_tr i) (u_view i))); [reflexivity|].
  change (slice_domain P var (mk_it (di_cur (u_di i)) (u_view i))) with (slice_domain P var i).
  destruct (slice_domain P var i) as [[off size]|e]; [|reflexivity].
  change (u_read (mk_it (di_cur (u_di i)) (u_view i)) off size) with (u_read i off size).
  destruct (u_read i off size); reflexivity.
Qed.

(* ---- inserting into an ordered frame ---- *)
Definition frame_before (f : list series) (x : Z) : Prop := forall s, In s f -> t_e (sr_tr s) <= x.
Definition frame_after (f : list series) (x : Z) : Prop :=
  forall s, In s f -> x <= t_s (sr_tr s) /\ t_s (sr_tr s) < t_e (sr_tr s).

Lemma last_map_some {A} (f : list A) :
  match f with
  | [] => last (map Some f) None = None
  | _ => exists l, last (map Some f) None = Some l /\ In l f
  end.
Proof.
  induction f as [|a f IH]; [reflexivity|].
  destruct f as [|b f'].
  - exists a. split; [reflexivity|left; reflexivity].
  - destruct IH as (l & Hl & Hin). exists l. split; [exact Hl|right; exact Hin].
Qed.

Lemma insert_frame_fwd i s :
  frame_before (u_frame i) (t_s (sr_tr s)) ->
  u_frame (u_insert i s) = u_frame i ++ nonempty_ser s.
Proof.
  intros FB. unfold u_insert, nonempty_ser. destruct (sr_data s) as [|z0 zs] eqn:E; [rewrite app_nil_r; reflexivity|].
  cbn [u_frame]. pose proof (last_map_some (u_frame i)) as L.
  destruct (u_frame i) as [|x f'] eqn:F.
  - rewrite L. reflexivity.
  - destruct L as (ls & -> & Hin). specialize (FB ls Hin).
    destruct (t_e (sr_tr ls) <=? t_s (sr_tr s)) eqn:Q; zb; [reflexivity|lia].
Qed.

Lemma insert_frame_bwd i s :
  frame_after (u_frame i) (t_e (sr_tr s)) -> t_s (sr_tr s) < t_e (sr_tr s) ->
  u_frame (u_insert i s) = nonempty_ser s ++ u_frame i.
Proof.
  intros FA Hs. unfold u_insert, nonempty_ser. destruct (sr_data s) as [|z0 zs] eqn:E; [reflexivity|].
  cbn [u_frame]. pose proof (last_map_some (u_frame i)) as L.
  destruct (u_frame i) as [|x f'] eqn:F.
  - rewrite L. reflexivity.
  - destruct L as (ls & -> & Hin). destruct (FA ls Hin) as [A B].
    destruct (t_e (sr_tr ls) <=? t_s (sr_tr s)) eqn:Q; zb; [lia|reflexivity].
Qed.

Lemma satisfied_last i : satisfied i = true ->
  exists l, In l (u_frame i) /\ t_e (sr_tr l) = t_e (u_view i).
Proof.
  unfold satisfied. pose proof (last_map_some (u_frame i)) as L.
  destruct (u_frame i) as [|f0 f'] eqn:F; [discriminate|].
  destruct L as (l & -> & Hin). intros H. apply tr_eqb_eq in H. exists l. split; [exact Hin|].
  rewrite H. reflexivity.
Qed.

Lemma satisfied_first i : satisfied i = true ->
  exists f0 f', u_frame i = f0 :: f' /\ t_s (sr_tr f0) = t_s (u_view i).
Proof.
  unfold satisfied. pose proof (last_map_some (u_frame i)) as L.
  destruct (u_frame i) as [|f0 f'] eqn:F; [discriminate|].
  destruct L as (l & -> & Hin). intros H. apply tr_eqb_eq in H. exists f0, f'. split; [reflexivity|].
  rewrite H. reflexivity.
Qed.

(* ---- one view ---- *)
Variable b v : tr.
Hypothesis Hv : t_s v < t_e v.
Hypothesis Hbv : t_s b <= t_s v /\ t_e v <= t_e b.
Hypothesis HD : lay D.

Lemma ov_v d : dwf d -> overlaps (d_tr d) v = (Z.max (t_s (d_tr d)) (t_s v) <? Z.min (t_e (d_tr d)) (t_e v)).
Proof. intros W. apply overlaps_nonempty; [exact W|exact Hv]. Qed.
Lemma ov_b d : dwf d -> overlaps (d_tr d) b = (Z.max (t_s (d_tr d)) (t_s b) <? Z.min (t_e (d_tr d)) (t_e b)).
Proof. intros W. apply overlaps_nonempty; [exact W|lia]. Qed.

Lemma contrib_none d : dwf d -> (t_e v <= t_s (d_tr d) \/ t_e (d_tr d) <= t_s v) -> contrib v d = [].
Proof.
  intros W H. unfold contrib. rewrite (ov_v d W).
  destruct (Z.max (t_s (d_tr d)) (t_s v) <? Z.min (t_e (d_tr d)) (t_e v)) eqn:E; zb; [|reflexivity].
  unfold dwf in W. lia.
Qed.

Lemma contribs_none l : Forall dwf l -> (forall d, In d l -> t_e v <= t_s (d_tr d) \/ t_e (d_tr d) <= t_s v) ->
  contribs v l = [].
Proof.
  intros W H. unfold contribs. induction l as [|a l IH]; [reflexivity|].
  simpl. inversion W; subst. rewrite contrib_none; [|assumption|apply H; left; reflexivity].
  apply IH; [assumption|]. intros d Hd. apply H. right. exact Hd.
Qed.

(* domains after one that starts at or after the view end contribute nothing *)
Lemma contribs_after d post x : lay (d :: post) -> t_e v <= x -> x <= t_e (d_tr d) -> contribs v post = [].
Proof.
  intros HL H1 H2. destruct (lay_split [] d post HL) as (_ & Wd & Lp & _ & Aft).
  apply contribs_none; [apply Lp|]. intros y Hy. left. specialize (Aft y Hy). unfold dbefore in Aft. lia.
Qed.

Lemma acc_loop_fwd : forall post pre d i fuel,
  D = pre ++ d :: post ->
  at_pos D (u_di i) (zlen pre) d -> di_b (u_di i) = b -> u_view i = v -> u_err i = None ->
  (length post < fuel)%nat ->
  frame_before (u_frame i) (t_e (d_tr d)) ->
  t_s v < t_e (d_tr d) ->
  Forall (good v) post ->
  let i' := acc_loop P D var true fuel i in
  u_frame i' = u_frame i ++ contribs v post /\ u_err i' = None.
Proof.
  induction post as [|p post' IH]; intros pre d i fuel HDeq Hat Hb Hvw He Hf FB Hde G.
  - destruct fuel as [|f]; [simpl in Hf; lia|]. cbn [acc_loop].
    pose proof (next_spec D (u_di i) _ _ Hat) as NS.
    assert (Hz : znth D (zlen pre + 1) = None) by (rewrite HDeq; rewrite znth_after; reflexivity).
    rewrite Hz in NS. rewrite NS. cbn [negb].
    unfold u_set_di. cbn [u_frame u_err]. rewrite app_nil_r. auto.
  - destruct fuel as [|f]; [simpl in Hf; lia|]. cbn [acc_loop].
    assert (HL : lay (pre ++ d :: p :: post')) by (rewrite <- HDeq; exact HD).
    destruct (lay_split pre d (p :: post') HL) as (Lpre & Wd & Lpost & Bef & Aft).
    assert (Wp : dwf p) by (destruct Lpost as [W _]; inversion W; assumption).
    assert (Hdp : t_e (d_tr d) <= t_s (d_tr p)) by (apply Aft; left; reflexivity).
    pose proof (next_spec D (u_di i) _ _ Hat) as NS.
    assert (Hz : znth D (zlen pre + 1) = Some p) by (rewrite HDeq; rewrite znth_after; reflexivity).
    rewrite Hz in NS. rewrite Hb in NS.
    unfold dwf in Wp, Wd.
    destruct (overlaps (d_tr p) b) eqn:Ob.
    + rewrite NS. cbn [negb].
      set (i1 := u_set_di i (DI b (zlen pre + 1) p true)).
      rewrite (accumulate_eq i1).
      assert (C1 : cur_tr i1 = d_tr p) by reflexivity.
      assert (V1 : u_view i1 = v) by (unfold i1, u_set_di; cbn [u_view]; exact Hvw).
      rewrite C1, V1.
      destruct (overlaps (d_tr p) v) eqn:Ov.
      * cbn [negb]. change (di_cur (u_di i1)) with p.
        apply Forall_cons_iff in G. destruct G as [Gp G'].
        destruct (Gp Ov) as [s Hs]. rewrite Hs. cbn [negb].
        pose proof (dser_tr p v s Hs) as Ts.
        rewrite (ov_v p Wp) in Ov. zb.
        rewrite bound_by_inter in Ts by lia.
        assert (FR : u_frame (u_insert i1 s) = u_frame i ++ nonempty_ser s).
        { rewrite insert_frame_fwd; [reflexivity|]. intros x Hx. specialize (FB x Hx). rewrite Ts. cbn [t_s]. unfold i1, u_set_di in Hx. lia. }
        assert (CP : contrib v p = nonempty_ser s).
        { unfold contrib. rewrite (ov_v p Wp). destruct (Z.max (t_s (d_tr p)) (t_s v) <? Z.min (t_e (d_tr p)) (t_e v)) eqn:Q; zb; [|lia]. rewrite Hs. reflexivity. }
        assert (FB' : frame_before (u_frame (u_insert i1 s)) (t_e (d_tr p))).
        { rewrite FR. intros x Hx. apply in_app_or in Hx. destruct Hx as [Hx|Hx].
          - specialize (FB x Hx). lia.
          - unfold nonempty_ser in Hx. destruct (sr_data s); [destruct Hx|]. destruct Hx as [<-|[]]. rewrite Ts. cbn [t_e]. lia. }
        destruct (insert_keeps i1 s) as (KV & KB & KE & KD).
        destruct (satisfied (u_insert i1 s)) eqn:Sat.
        -- destruct (satisfied_last _ Sat) as (l & Hin & Hle). rewrite KV, V1 in Hle.
           specialize (FB' l Hin).
           assert (CA : contribs v post' = []) by (apply (contribs_after p post' (t_e v)); [apply Lpost|lia|lia]).
           unfold contribs in *. cbn [flat_map]. fold (contribs v post'). rewrite CP, FR.
           change (flat_map (contrib v) post') with (contribs v post'). unfold contribs. rewrite CA, app_nil_r.
           split; [reflexivity|]. rewrite KE. exact He.
        -- specialize (IH (pre ++ [d]) p (u_insert i1 s) f).
           assert (ZL : zlen (pre ++ [d]) = zlen pre + 1) by (unfold zlen; rewrite app_length; simpl; lia).
           destruct IH as (IF & IE).
           ++ rewrite <- app_assoc. exact HDeq.
           ++ rewrite ZL. unfold at_pos. rewrite KD. unfold i1, u_set_di. cbn [u_di di_pos di_cur di_valid].
              repeat split; try reflexivity. exact Hz.
           ++ rewrite KD. reflexivity.
           ++ rewrite KV. exact V1.
           ++ rewrite KE. exact He.
           ++ simpl in Hf. lia.
           ++ exact FB'.
           ++ lia.
           ++ exact G'.
           ++ rewrite IF, IE, FR. split; [|reflexivity].
              unfold contribs. cbn [flat_map]. rewrite CP. rewrite <- app_assoc. reflexivity.
      * cbn [negb]. unfold i1, u_set_di. cbn [u_frame u_err].
        rewrite (ov_v p Wp) in Ov. zb.
        assert (CA : contribs v (p :: post') = []).
        { apply contribs_none; [apply Lpost|]. intros y [<-|Hy]; [left; lia|].
          destruct (lay_split [] p post' Lpost) as (_ & _ & _ & _ & Aft'). specialize (Aft' y Hy). unfold dbefore in Aft'. left. lia. }
        rewrite CA, app_nil_r. auto.
    + rewrite NS. cbn [negb]. unfold u_set_di. cbn [u_frame u_err].
      rewrite (ov_b p Wp) in Ob. zb.
      assert (CA : contribs v (p :: post') = []).
      { apply contribs_none; [apply Lpost|]. intros y [<-|Hy]; [left; lia|].
        destruct (lay_split [] p post' Lpost) as (_ & _ & _ & _ & Aft'). specialize (Aft' y Hy). unfold dbefore in Aft'. left. lia. }
      rewrite CA, app_nil_r. auto.
Qed.

Lemma contribs_app l1 l2 : contribs v (l1 ++ l2) = contribs v l1 ++ contribs v l2.
Proof. unfold contribs. apply flat_map_app. Qed.

Lemma znth_before {A} (pre' : list A) p rest : znth ((pre' ++ [p]) ++ rest) (zlen (pre' ++ [p]) - 1) = Some p.
Proof.
  rewrite <- app_assoc. simpl.
  assert (ZL : zlen (pre' ++ [p]) = zlen pre' + 1) by (unfold zlen; rewrite app_length; simpl; lia).
  rewrite ZL. replace (zlen pre' + 1 - 1) with (zlen pre') by lia. apply znth_mid.
Qed.

Lemma acc_loop_bwd : forall pre post d i fuel,
  D = pre ++ d :: post ->
  at_pos D (u_di i) (zlen pre) d -> di_b (u_di i) = b -> u_view i = v -> u_err i = None ->
  (length pre < fuel)%nat ->
  frame_after (u_frame i) (t_s (d_tr d)) ->
  t_s (d_tr d) < t_e v ->
  Forall (good v) pre ->
  let i' := acc_loop P D var false fuel i in
  u_frame i' = contribs v pre ++ u_frame i /\ u_err i' = None.
Proof.
  induction pre as [|p pre' IH] using rev_ind; intros post d i fuel HDeq Hat Hb Hvw He Hf FA Hde G.
  - destruct fuel as [|f]; [simpl in Hf; lia|]. cbn [acc_loop].
    pose proof (prev_spec D (u_di i) _ _ Hat) as PS. change (zlen (@nil dom)) with 0 in PS. cbn [Z.eqb] in PS.
    rewrite PS. cbn [negb]. unfold u_set_di. cbn [u_frame u_err]. auto.
  - destruct fuel as [|f]; [rewrite app_length in Hf; simpl in Hf; lia|]. cbn [acc_loop].
    assert (ZL : zlen (pre' ++ [p]) = zlen pre' + 1) by (unfold zlen; rewrite app_length; simpl; lia).
    assert (HDeq' : D = pre' ++ p :: d :: post) by (rewrite HDeq, <- app_assoc; reflexivity).
    assert (HL : lay (pre' ++ p :: d :: post)) by (rewrite <- HDeq'; exact HD).
    destruct (lay_split pre' p (d :: post) HL) as (Lpre & Wp & Lpost & Bef & Aft).
    assert (Wd : dwf d) by (destruct Lpost as [W _]; inversion W; assumption).
    assert (Hpd : t_e (d_tr p) <= t_s (d_tr d)) by (apply Aft; left; reflexivity).
    pose proof (prev_spec D (u_di i) _ _ Hat) as PS.
    assert (Hz : znth D (zlen (pre' ++ [p]) - 1) = Some p) by (rewrite HDeq; apply znth_before).
    destruct (zlen (pre' ++ [p]) =? 0) eqn:E0; zb; [pose proof (zlen_nonneg pre'); lia|].
    rewrite Hz, Hb in PS. unfold dwf in Wp, Wd.
    assert (NONE : (t_e (d_tr p) <= t_s v) -> contribs v (pre' ++ [p]) = []).
    { intros Hp. apply contribs_none.
      - apply Forall_app. split; [apply Lpre|constructor; [exact Wp|constructor]].
      - intros y Hy. right. apply in_app_or in Hy. destruct Hy as [Hy|[<-|[]]]; [|lia].
        specialize (Bef y Hy). unfold dbefore in Bef. lia. }
    destruct (overlaps (d_tr p) b) eqn:Ob.
    + rewrite PS. cbn [negb].
      set (i1 := u_set_di i (DI b (zlen (pre' ++ [p]) - 1) p true)).
      rewrite (accumulate_eq i1).
      assert (C1 : cur_tr i1 = d_tr p) by reflexivity.
      assert (V1 : u_view i1 = v) by (unfold i1, u_set_di; cbn [u_view]; exact Hvw).
      rewrite C1, V1.
      destruct (overlaps (d_tr p) v) eqn:Ov.
      * cbn [negb]. change (di_cur (u_di i1)) with p.
        apply Forall_app in G. destruct G as [G' Gp]. apply Forall_cons_iff in Gp. destruct Gp as [Gp _].
        destruct (Gp Ov) as [s Hs]. rewrite Hs. cbn [negb].
        pose proof (dser_tr p v s Hs) as Ts.
        rewrite (ov_v p Wp) in Ov. zb.
        rewrite bound_by_inter in Ts by lia.
        assert (FR : u_frame (u_insert i1 s) = nonempty_ser s ++ u_frame i).
        { rewrite insert_frame_bwd; [reflexivity| |rewrite Ts; cbn [t_s t_e]; lia].
          intros x Hx. destruct (FA x Hx) as [A B]. rewrite Ts. cbn [t_e]. split; lia. }
        assert (CP : contrib v p = nonempty_ser s).
        { unfold contrib. rewrite (ov_v p Wp). destruct (Z.max (t_s (d_tr p)) (t_s v) <? Z.min (t_e (d_tr p)) (t_e v)) eqn:Q; zb; [|lia]. rewrite Hs. reflexivity. }
        assert (FA' : frame_after (u_frame (u_insert i1 s)) (t_s (d_tr p))).
        { rewrite FR. intros x Hx. apply in_app_or in Hx. destruct Hx as [Hx|Hx].
          - unfold nonempty_ser in Hx. destruct (sr_data s); [destruct Hx|]. destruct Hx as [<-|[]]. rewrite Ts. cbn [t_s t_e]. lia.
          - destruct (FA x Hx). lia. }
        destruct (insert_keeps i1 s) as (KV & KB & KE & KD).
        rewrite contribs_app. change (contribs v [p]) with (contrib v p ++ []). rewrite app_nil_r, CP.
        destruct (satisfied (u_insert i1 s)) eqn:Sat.
        -- destruct (satisfied_first _ Sat) as (f0 & f' & Hfr & Hst). rewrite KV, V1 in Hst.
           assert (Hf0 : In f0 (u_frame (u_insert i1 s))) by (rewrite Hfr; left; reflexivity).
           destruct (FA' f0 Hf0) as [A0 _].
           assert (CA : contribs v pre' = []).
           { apply contribs_none; [apply Lpre|]. intros y Hy. right. specialize (Bef y Hy). unfold dbefore in Bef. lia. }
           rewrite CA, FR. split; [reflexivity|]. rewrite KE. exact He.
        -- specialize (IH (d :: post) p (u_insert i1 s) f).
           destruct IH as (IF & IE).
           ++ exact HDeq'.
           ++ unfold at_pos. rewrite KD. unfold i1, u_set_di. cbn [u_di di_pos di_cur di_valid].
              repeat split; try lia. rewrite <- Hz. f_equal. lia.
           ++ rewrite KD. reflexivity.
           ++ rewrite KV. exact V1.
           ++ rewrite KE. exact He.
           ++ rewrite app_length in Hf. simpl in Hf. lia.
           ++ exact FA'.
           ++ lia.
           ++ exact G'.
           ++ rewrite IF, IE, FR. split; [|reflexivity]. rewrite <- app_assoc. reflexivity.
      * cbn [negb]. unfold i1, u_set_di. cbn [u_frame u_err].
        rewrite (ov_v p Wp) in Ov. zb. rewrite NONE by lia. auto.
    + rewrite PS. cbn [negb]. unfold u_set_di. cbn [u_frame u_err].
      rewrite (ov_b p Wp) in Ob. zb. rewrite NONE by lia. auto.
Qed.

(* ---- a whole step: the frame is the contributions of all domains, in order ---- *)
Lemma contribs_ended l : Forall dwf l -> (forall d, In d l -> t_e (d_tr d) <= t_s v) -> contribs v l = [].
Proof. intros W H. apply contribs_none; [exact W|]. intros d Hd. right. apply H, Hd. Qed.

Theorem fwd_body_frame i :
  u_view i = v -> di_b (u_di i) = b -> u_err i = None -> u_frame i = [] -> Forall (good v) D ->
  u_frame (fwd_body P D var i) = contribs v D /\ u_err (fwd_body P D var i) = None.
Proof.
  intros Hvw Hb He Hfr G. unfold fwd_body. rewrite Hvw.
  destruct (tspan v =? 0) eqn:E0; zb; [unfold tspan in E0; lia|].
  pose proof (seek_ge_spec D (u_di i) (t_s v) HD) as SG. cbv zeta in SG. rewrite Hb in SG.
  set (k := dcnt (t_s v) D) in *.
  assert (ENDED : forall j d, znth D j = Some d -> j < k -> t_e (d_tr d) <= t_s v)
    by (intros j d Hj Hlt; apply (lay_dcnt D (t_s v) HD j d Hj); exact Hlt).
  destruct (znth D k) as [p|] eqn:Hk.
  - destruct (znth_split D k p Hk) as (pre & post & HDeq & Hpre).
    assert (HL : lay (pre ++ p :: post)) by (rewrite <- HDeq; exact HD).
    destruct (lay_split pre p post HL) as (Lpre & Wp & Lpost & Bef & Aft).
    assert (Lpp : lay (p :: post)).
    { split; [constructor; [exact Wp|apply Lpost]|constructor; [apply Lpost|apply Forall_forall; exact Aft]]. }
    assert (CPRE : contribs v pre = []).
    { apply contribs_ended; [apply Lpre|]. intros d Hd. destruct (In_znth_lt _ _ Hd) as (j & Rj & Hj).
      apply (ENDED j d); [|lia]. rewrite HDeq. rewrite znth_app_l by lia. exact Hj. }
    assert (Hpe : t_s v < t_e (d_tr p)).
    { destruct (Z_lt_ge_dec (t_s v) (t_e (d_tr p))); [assumption|].
      assert (k < k) by (apply (lay_dcnt D (t_s v) HD k p Hk); lia). lia. }
    unfold dwf in Wp.
    assert (CDEC : contribs v D = contrib v p ++ contribs v post).
    { rewrite HDeq, contribs_app, CPRE. reflexivity. }
    destruct (overlaps (d_tr p) b) eqn:Ob.
    + rewrite SG. cbn [negb].
      set (i1 := u_set_di i (DI b k p true)).
      assert (C1 : cur_tr i1 = d_tr p) by reflexivity.
      assert (V1 : u_view i1 = v) by (unfold i1, u_set_di; cbn [u_view]; exact Hvw).
      rewrite C1, V1.
      destruct (t_e v <=? t_s (d_tr p)) eqn:Q; zb.
      * unfold i1, u_set_di. cbn [u_frame u_err]. rewrite Hfr, CDEC.
        rewrite contrib_none by (unfold dwf; lia || (left; lia)).
        rewrite (contribs_after p post (t_e v)); [auto|exact Lpp|lia|lia].
      * rewrite (accumulate_eq i1). rewrite C1, V1.
        assert (Ov : overlaps (d_tr p) v = true) by (rewrite (ov_v p Wp); apply Z.ltb_lt; lia).
        rewrite Ov. cbn [negb]. change (di_cur (u_di i1)) with p.
        assert (Gp : good v p) by (rewrite Forall_forall in G; apply G; rewrite HDeq; apply in_or_app; right; left; reflexivity).
        destruct (Gp Ov) as [s Hs]. rewrite Hs.
        pose proof (dser_tr p v s Hs) as Ts. rewrite bound_by_inter in Ts by lia.
        assert (FR : u_frame (u_insert i1 s) = nonempty_ser s).
        { rewrite insert_frame_fwd; [unfold i1, u_set_di; cbn [u_frame]; rewrite Hfr; reflexivity|].
          intros x Hx. unfold i1, u_set_di in Hx. cbn [u_frame] in Hx. rewrite Hfr in Hx. destruct Hx. }
        assert (CP : contrib v p = nonempty_ser s) by (unfold contrib; rewrite Ov, Hs; reflexivity).
        destruct (insert_keeps i1 s) as (KV & KB & KE & KD).
        assert (FB' : frame_before (u_frame (u_insert i1 s)) (t_e (d_tr p))).
        { rewrite FR. intros x Hx. unfold nonempty_ser in Hx. destruct (sr_data s); [destruct Hx|].
          destruct Hx as [<-|[]]. rewrite Ts. cbn [t_e]. lia. }
        assert (E1 : u_err (u_insert i1 s) = None) by (rewrite KE; exact He).
        rewrite E1. rewrite orb_false_r.
        destruct (satisfied (u_insert i1 s)) eqn:Sat.
        -- destruct (satisfied_last _ Sat) as (l & Hin & Hle). rewrite KV, V1 in Hle. specialize (FB' l Hin).
           rewrite CDEC, CP, FR. rewrite (contribs_after p post (t_e v)); [|exact Lpp|lia|lia].
           rewrite app_nil_r. auto.
        -- destruct (acc_loop_fwd post pre p (u_insert i1 s) (S (length D))) as (IF & IE).
           ++ exact HDeq.
           ++ unfold at_pos. rewrite KD. unfold i1, u_set_di. cbn [u_di di_pos di_cur di_valid]. rewrite Hpre. auto.
           ++ rewrite KD. reflexivity.
           ++ rewrite KV. exact V1.
           ++ exact E1.
           ++ rewrite HDeq, app_length. simpl. lia.
           ++ exact FB'.
           ++ exact Hpe.
           ++ rewrite Forall_forall in *. intros y Hy. apply G. rewrite HDeq. apply in_or_app. right. right. exact Hy.
           ++ rewrite IF, IE, FR, CDEC, CP. auto.
    + destruct (di_seek_ge D (u_di i) (t_s v)) as [dd ok]. cbn [snd] in SG. subst ok. cbn [negb].
      unfold u_set_di. cbn [u_frame u_err]. rewrite Hfr, CDEC.
      rewrite (ov_b p Wp) in Ob. zb.
      rewrite contrib_none by (unfold dwf; lia || (left; lia)).
      rewrite (contribs_after p post (t_e v)); [auto|exact Lpp|lia|lia].
  - destruct (di_seek_ge D (u_di i) (t_s v)) as [dd ok]. cbn [snd] in SG. subst ok. cbn [negb].
    unfold u_set_di. cbn [u_frame u_err]. rewrite Hfr.
    rewrite contribs_ended; [auto|apply HD|].
    intros d Hd. destruct (In_znth_lt _ _ Hd) as (j & Rj & Hj).
    apply (ENDED j d Hj). apply znth_None in Hk. pose proof (dcnt_range (t_s v) D) as R0. fold k in R0. lia.
Qed.

Lemma contribs_started l : Forall dwf l -> (forall d, In d l -> t_e v <= t_s (d_tr d)) -> contribs v l = [].
Proof. intros W H. apply contribs_none; [exact W|]. intros d Hd. left. apply H, Hd. Qed.

Theorem bwd_body_frame i :
  u_view i = v -> di_b (u_di i) = b -> u_err i = None -> u_frame i = [] -> Forall (good v) D ->
  u_frame (bwd_body P D var i) = contribs v D /\ u_err (bwd_body P D var i) = None.
Proof.
  intros Hvw Hb He Hfr G. unfold bwd_body. rewrite Hvw.
  destruct (tspan v =? 0) eqn:E0; zb; [unfold tspan in E0; lia|].
  pose proof (seek_le_spec' D (u_di i) (t_e v - 1) HD) as SG. rewrite Hb in SG.
  destruct (le_pos_spec D (t_e v - 1) HD) as (Rj & LE & GT).
  set (j := le_pos (t_e v - 1) D) in *.
  destruct (znth D j) as [p|] eqn:Hj.
  - destruct (znth_split D j p Hj) as (pre & post & HDeq & Hpre).
    assert (HL : lay (pre ++ p :: post)) by (rewrite <- HDeq; exact HD).
    destruct (lay_split pre p post HL) as (Lpre & Wp & Lpost & Bef & Aft).
    assert (CPOST : contribs v post = []).
    { apply contribs_started; [apply Lpost|]. intros d Hd. destruct (In_znth_lt _ _ Hd) as (m & Rm & Hm).
      assert (t_e v - 1 < t_s (d_tr d)); [|lia].
      apply (GT (zlen pre + 1 + m) d); [|lia]. rewrite HDeq. rewrite znth_app_r by lia.
      replace (zlen pre + 1 + m - zlen pre) with (m + 1) by lia. rewrite znth_cons by lia.
      replace (m + 1 - 1) with m by lia. exact Hm. }
    assert (Hps : t_s (d_tr p) < t_e v) by (pose proof (LE j p Hj ltac:(lia)); lia).
    unfold dwf in Wp.
    assert (CDEC : contribs v D = contribs v pre ++ contrib v p).
    { rewrite HDeq, contribs_app. change (p :: post) with ([p] ++ post). rewrite contribs_app, CPOST, app_nil_r.
      unfold contribs. simpl. rewrite app_nil_r. reflexivity. }
    assert (PRE_NONE : t_e (d_tr p) <= t_s v \/ t_s (d_tr p) <= t_s v -> contribs v pre = []).
    { intros H. apply contribs_ended; [apply Lpre|]. intros d Hd. specialize (Bef d Hd). unfold dbefore in Bef. lia. }
    destruct (overlaps (d_tr p) b) eqn:Ob.
    + rewrite SG. cbn [negb].
      set (i1 := u_set_di i (DI b j p true)).
      assert (C1 : cur_tr i1 = d_tr p) by reflexivity.
      assert (V1 : u_view i1 = v) by (unfold i1, u_set_di; cbn [u_view]; exact Hvw).
      rewrite C1, V1.
      destruct (t_e (d_tr p) <=? t_s v) eqn:Q; zb.
      * unfold i1, u_set_di. cbn [u_frame u_err]. rewrite Hfr, CDEC.
        rewrite contrib_none by (unfold dwf; lia || (right; lia)).
        rewrite PRE_NONE by lia. auto.
      * rewrite (accumulate_eq i1). rewrite C1, V1.
        assert (Ov : overlaps (d_tr p) v = true) by (rewrite (ov_v p Wp); apply Z.ltb_lt; lia).
        rewrite Ov. cbn [negb]. change (di_cur (u_di i1)) with p.
        assert (Gp : good v p) by (rewrite Forall_forall in G; apply G; rewrite HDeq; apply in_or_app; right; left; reflexivity).
        destruct (Gp Ov) as [s Hs]. rewrite Hs.
        pose proof (dser_tr p v s Hs) as Ts. rewrite bound_by_inter in Ts by lia.
        assert (FR : u_frame (u_insert i1 s) = nonempty_ser s).
        { rewrite insert_frame_fwd; [unfold i1, u_set_di; cbn [u_frame]; rewrite Hfr; reflexivity|].
          intros x Hx. unfold i1, u_set_di in Hx. cbn [u_frame] in Hx. rewrite Hfr in Hx. destruct Hx. }
        assert (CP : contrib v p = nonempty_ser s) by (unfold contrib; rewrite Ov, Hs; reflexivity).
        destruct (insert_keeps i1 s) as (KV & KB & KE & KD).
        assert (FA' : frame_after (u_frame (u_insert i1 s)) (t_s (d_tr p))).
        { rewrite FR. intros x Hx. unfold nonempty_ser in Hx. destruct (sr_data s); [destruct Hx|].
          destruct Hx as [<-|[]]. rewrite Ts. cbn [t_s t_e]. lia. }
        assert (E1 : u_err (u_insert i1 s) = None) by (rewrite KE; exact He).
        rewrite E1. rewrite orb_false_r.
        destruct (satisfied (u_insert i1 s)) eqn:Sat.
        -- destruct (satisfied_first _ Sat) as (f0 & f' & Hf0 & Hst). rewrite KV, V1 in Hst.
           assert (Hin : In f0 (u_frame (u_insert i1 s))) by (rewrite Hf0; left; reflexivity).
           destruct (FA' f0 Hin) as [A0 _].
           rewrite CDEC, CP, FR. rewrite PRE_NONE by lia. auto.
        -- destruct (acc_loop_bwd pre post p (u_insert i1 s) (S (length D))) as (IF & IE).
           ++ exact HDeq.
           ++ unfold at_pos. rewrite KD. unfold i1, u_set_di. cbn [u_di di_pos di_cur di_valid]. rewrite Hpre. auto.
           ++ rewrite KD. reflexivity.
           ++ rewrite KV. exact V1.
           ++ exact E1.
           ++ rewrite HDeq, app_length. simpl. lia.
           ++ exact FA'.
           ++ exact Hps.
           ++ rewrite Forall_forall in *. intros y Hy. apply G. rewrite HDeq. apply in_or_app. left. exact Hy.
           ++ rewrite IF, IE, FR, CDEC, CP. auto.
    + destruct (di_seek_le D (u_di i) (t_e v - 1)) as [dd ok]. cbn [snd] in SG. subst ok. cbn [negb].
      unfold u_set_di. cbn [u_frame u_err]. rewrite Hfr, CDEC.
      rewrite (ov_b p Wp) in Ob. zb.
      rewrite contrib_none by (unfold dwf; lia || (right; lia)).
      rewrite PRE_NONE by lia. auto.
  - destruct (di_seek_le D (u_di i) (t_e v - 1)) as [dd ok]. cbn [snd] in SG. subst ok. cbn [negb].
    unfold u_set_di. cbn [u_frame u_err]. rewrite Hfr.
    rewrite contribs_started; [auto|apply HD|].
    intros d Hd. destruct (In_znth_lt _ _ Hd) as (m & Rm & Hm).
    apply znth_None in Hj.
    assert (t_e v - 1 < t_s (d_tr d)); [|lia]. apply (GT m d Hm). lia.
Qed.

End Exact.
