(* Freighter/StreamOrder.v — the clauses of C14 stated directly on traces of the Stream LTS
   (unbounded length, every interleaving, both profiles, every transport). *)
From Coq Require Import List NArith Bool String Arith Lia.
From Synnax Require Import Common.Base Generated.Consts_C14 Freighter.Stream Monitors.Mon_C14
  Freighter.StreamErrors.
Import ListNotations.
Local Open Scope N_scope.

Ltac inv H := inversion H; subst; clear H.
Ltac brk :=
  repeat match goal with
  | H : Some _ = Some _ |- _ => inv H
  | H : None = Some _ |- _ => discriminate H
  | H : false = true |- _ => discriminate H
  | H : (if ?x then _ else _) = Some _ |- _ => destruct x eqn:?
  | H : match ?x with _ => _ end = Some _ |- _ => destruct x eqn:?
  end.

(* the per-side histories of a trace *)
Fixpoint c_sent (tr : list lab) : list pay :=          (* payloads of successful client Sends *)
  match tr with
  | [] => []
  | CSend x ROk :: rest => x :: c_sent rest
  | _ :: rest => c_sent rest
  end.
Fixpoint h_got (tr : list lab) : list pay :=           (* values the handler's Receive returned *)
  match tr with
  | [] => []
  | HRecv (RVal x) :: rest => x :: h_got rest
  | _ :: rest => h_got rest
  end.
Fixpoint h_sent (tr : list lab) : list pay :=          (* payloads of successful handler Sends *)
  match tr with
  | [] => []
  | HSend y ROk :: rest => y :: h_sent rest
  | _ :: rest => h_sent rest
  end.
Fixpoint c_got (tr : list lab) : list pay :=           (* values the client's Receive returned *)
  match tr with
  | [] => []
  | CRecv (RVal y) :: rest => y :: c_got rest
  | _ :: rest => c_got rest
  end.

Fixpoint somes (q : list (option pay)) : list pay :=
  match q with [] => [] | Some x :: r => x :: somes r | None :: r => somes r end.
Fixpoint lefts (q : list (pay + option err)) : list pay :=
  match q with [] => [] | inl y :: r => y :: lefts r | inr _ :: r => lefts r end.

Lemma somes_app a b : somes (a ++ b) = somes a ++ somes b.
Proof. induction a as [|[x|] a IH]; simpl; auto. f_equal; auto. Qed.
Lemma lefts_app a b : lefts (a ++ b) = lefts a ++ lefts b.
Proof. induction a as [|[x|e] a IH]; simpl; auto. f_equal; auto. Qed.

(* ---------------------------------------------------------------- order, once *)
(* in-flight requests ++ later successful sends = later receipts ++ what is still in flight *)
Lemma requests_fifo prof t : forall tr s s',
  run prof t s tr = Some s' ->
  somes (req s) ++ c_sent tr = h_got tr ++ somes (req s').
Proof.
  induction tr as [|l tr IH]; intros s s' H; simpl in H.
  - inv H. simpl. rewrite app_nil_r. reflexivity.
  - destruct (step prof t s l) as [s1|] eqn:E; [|discriminate]. specialize (IH _ _ H).
    destruct s as [rq rs ret se re ca fa sr].
    destruct l as [x r|r|r|r|y r|e]; unfold step in E;
      cbn [req res returned c_sendErr c_recvErr c_called c_failed s_recvErr] in *;
      brk; cbn [req] in *; simpl; auto;
      try (rewrite somes_app in IH; simpl in IH; rewrite <- app_assoc in IH; exact IH).
    + (* handler received x *)
      simpl in *. rewrite <- IH.
      match goal with H : (_ =? _) = true |- _ => apply N.eqb_eq in H; subst end. reflexivity.
Qed.

Lemma responses_fifo prof t : forall tr s s',
  run prof t s tr = Some s' ->
  lefts (res s) ++ h_sent tr = c_got tr ++ lefts (res s').
Proof.
  induction tr as [|l tr IH]; intros s s' H; simpl in H.
  - inv H. simpl. rewrite app_nil_r. reflexivity.
  - destruct (step prof t s l) as [s1|] eqn:E; [|discriminate]. specialize (IH _ _ H).
    destruct s as [rq rs ret se re ca fa sr].
    destruct l as [x r|r|r|r|y r|e]; unfold step in E;
      cbn [req res returned c_sendErr c_recvErr c_called c_failed s_recvErr] in *;
      brk; cbn [res] in *; simpl; auto;
      try (rewrite lefts_app in IH; simpl in IH; rewrite <- ?app_assoc, ?app_nil_r in IH; exact IH).
    + simpl in *. rewrite <- IH.
      match goal with H : (_ =? _) = true |- _ => apply N.eqb_eq in H; subst end. reflexivity.
Qed.

(* The receiving side sees a prefix of the messages sent, in send order, without duplicates:
   the sent sequence IS the received sequence followed by exactly what is still in flight. *)
Theorem order_once prof t tr s :
  run prof t init tr = Some s ->
  c_sent tr = h_got tr ++ somes (req s) /\ h_sent tr = c_got tr ++ lefts (res s).
Proof.
  intros H. split.
  - apply (requests_fifo prof t tr init s H).
  - apply (responses_fifo prof t tr init s H).
Qed.

(* ---------------------------------------------------------------- terminal result *)
Lemma msg_eqb_eq a : forall b, msg_eqb a b = true -> a = b.
Proof.
  induction a as [|x a IH]; destruct b as [|y b]; simpl; intros H; try discriminate; auto.
  apply andb_prop in H as [H1 H2]. apply N.eqb_eq in H1. f_equal; auto.
Qed.
Lemma trip_eqb_eq (o o' : trip) : trip_eqb o o' = true -> o = o'.
Proof.
  destruct o as [[a b] c], o' as [[a' b'] c']. unfold trip_eqb. simpl. intros H.
  apply andb_prop in H as [H H3]. apply andb_prop in H as [H1 H2].
  apply N.eqb_eq in H1, H2. apply msg_eqb_eq in H3. subst. reflexivity.
Qed.

(* once the client has the terminal result, every further Receive returns exactly it and
   changes nothing *)
Lemma terminal_sticky prof t s o r s' :
  c_recvErr s = Some o -> step prof t s (CRecv r) = Some s' ->
  s' = s /\ exists c i m, r = RErr c i m /\ o = (c, i, m).
Proof.
  intros Ho H. unfold step in H. rewrite Ho in H.
  destruct r as [| |c i m]; try discriminate.
  destruct (trip_eqb o (c, i, m)) eqn:E; inv H. split; auto.
  exists c, i, m. split; auto. apply trip_eqb_eq; auto.
Qed.

Lemma recvErr_stable prof t : forall tr s s' o,
  run prof t s tr = Some s' -> c_recvErr s = Some o -> c_recvErr s' = Some o.
Proof.
  induction tr as [|l tr IH]; intros s s' o H Ho; simpl in H.
  - inv H. auto.
  - destruct (step prof t s l) as [s1|] eqn:E; [|discriminate].
    apply (IH s1 s' o); auto.
    destruct s as [rq rs ret se re ca fa sr].
    destruct l as [x r|r|r|r|y r|e]; unfold step in E;
      cbn [req res returned c_sendErr c_recvErr c_called c_failed s_recvErr] in *;
      subst; brk; cbn; auto.
Qed.

(* shape of the response queue *)
Definition res_shape (s : st) : Prop :=
  if returned s then
    match c_recvErr s with
    | Some _ => res s = []
    | None => exists ys e, res s = map inl ys ++ [inr e]
    end
  else c_recvErr s = None /\ exists ys, res s = map inl ys.

Lemma map_inl_snoc (ys : list pay) (y : pay) :
  map (@inl pay (option err)) ys ++ [inl y] = map inl (ys ++ [y]).
Proof. rewrite map_app. reflexivity. Qed.

Lemma step_res_shape prof t s l s' :
  step prof t s l = Some s' -> res_shape s -> res_shape s'.
Proof.
  unfold res_shape. intros H S.
  destruct l as [x r|r|r|r|y r|e].
  - assert (A : returned s' = returned s /\ c_recvErr s' = c_recvErr s /\ res s' = res s).
    { destruct s; unfold step in H; cbn in *; brk; cbn; auto. }
    destruct A as (-> & -> & ->). exact S.
  - assert (A : returned s' = returned s /\ c_recvErr s' = c_recvErr s /\ res s' = res s).
    { destruct s; unfold step in H; cbn in *; brk; cbn; auto. }
    destruct A as (-> & -> & ->). exact S.
  - (* CRecv *)
    unfold step in H. destruct (c_recvErr s) as [o|] eqn:Eo.
    + destruct r as [| |c i m]; try discriminate. destruct (trip_eqb o (c, i, m)); inv H.
      rewrite Eo. exact S.
    + destruct (res s) as [|[y|e] rest] eqn:Eq; [discriminate| |].
      * destruct r as [|y'|]; try discriminate. destruct (y =? y'); inv H. cbn.
        destruct (returned s).
        -- destruct S as (ys & e0 & S). destruct ys as [|y0 ys]; simpl in S; inv S. eauto.
        -- destruct S as (_ & ys & S). destruct ys as [|y0 ys]; simpl in S; inv S. eauto.
      * destruct r as [| |c i m]; try discriminate.
        destruct (img_ok (wire t e) (c, i, m)); inv H. cbn.
        destruct (returned s).
        -- destruct S as (ys & e0 & S). destruct ys as [|y0 ys]; simpl in S; inv S; auto.
        -- destruct S as (_ & ys & S). destruct ys; discriminate.
  - assert (A : returned s' = returned s /\ c_recvErr s' = c_recvErr s /\ res s' = res s).
    { destruct s; unfold step in H; cbn in *; brk; cbn; auto. }
    destruct A as (-> & -> & ->). exact S.
  - unfold step in H. destruct (returned s); [discriminate|]. destruct r; try discriminate. inv H.
    cbn. destruct S as (S1 & ys & ->). split; auto. exists (ys ++ [y]). apply map_inl_snoc.
  - unfold step in H. destruct (returned s); [discriminate|]. inv H.
    cbn. destruct S as (-> & ys & ->). eauto.
Qed.

Lemma res_shape_init : res_shape init.
Proof. unfold res_shape, init. simpl. split; auto. exists []. reflexivity. Qed.

Lemma run_res_shape prof t : forall tr s s',
  run prof t s tr = Some s' -> res_shape s -> res_shape s'.
Proof.
  induction tr as [|l tr IH]; intros s s' H S; simpl in H.
  - inv H. auto.
  - destruct (step prof t s l) as [s1|] eqn:E; [|discriminate].
    eapply IH; eauto. eapply step_res_shape; eauto.
Qed.

(* where the terminal error comes from *)
Lemma terminal_origin prof t : forall tr s s' o,
  run prof t s tr = Some s' -> c_recvErr s = None -> c_recvErr s' = Some o ->
  exists e, (In (inr e) (res s) \/ In (HRet e) tr) /\ matches e o = true.
Proof.
  induction tr as [|l tr IH]; intros s s' o H Hn Ho; simpl in H.
  - inv H. congruence.
  - destruct (step prof t s l) as [s1|] eqn:E; [|discriminate].
    destruct l as [x r|r|r|r|y r|e].
    + assert (c_recvErr s1 = None /\ res s1 = res s) as [A B].
      { destruct s; unfold step in E; cbn in *; brk; cbn; auto. }
      destruct (IH _ _ _ H A Ho) as (e & [He|He] & M); exists e; rewrite ?B in *; simpl; auto.
    + assert (c_recvErr s1 = None /\ res s1 = res s) as [A B].
      { destruct s; unfold step in E; cbn in *; brk; cbn; auto. }
      destruct (IH _ _ _ H A Ho) as (e & [He|He] & M); exists e; rewrite ?B in *; simpl; auto.
    + (* CRecv *)
      unfold step in E. rewrite Hn in E.
      destruct (res s) as [|[y|e] rest] eqn:Eq; [discriminate| |].
      * destruct r as [|y'|]; try discriminate. destruct (y =? y'); inv E.
        destruct (IH _ _ _ H eq_refl Ho) as (e & [He|He] & M); exists e; simpl in *; auto.
      * destruct r as [| |c i m]; try discriminate.
        destruct (img_ok (wire t e) (c, i, m)) eqn:Ei; inv E.
        pose proof (recvErr_stable _ _ _ _ _ (c, i, m) H eq_refl) as St.
        rewrite St in Ho. inv Ho. exists e. split; [left; left; auto|].
        eapply wire_matches; eauto.
    + assert (c_recvErr s1 = None /\ res s1 = res s) as [A B].
      { destruct s; unfold step in E; cbn in *; brk; cbn; auto. }
      destruct (IH _ _ _ H A Ho) as (e & [He|He] & M); exists e; rewrite ?B in *; simpl; auto.
    + unfold step in E. destruct (returned s); [discriminate|]. destruct r; try discriminate. inv E.
      destruct (IH _ _ _ H Hn Ho) as (e & [He|He] & M); exists e; simpl in *; auto.
      apply in_app_or in He as [He|[He|[]]]; [auto|discriminate].
    + unfold step in E. destruct (returned s); [discriminate|]. inv E.
      destruct (IH _ _ _ H Hn Ho) as (e0 & [He|He] & M); exists e0; simpl in *; auto.
      apply in_app_or in He as [He|[He|[]]]; [auto|]. inv He. auto.
Qed.

(* When the handler has returned e and the client has read the terminal result o:
   every response sent before the return was received (nothing is left, received = sent),
   o matches e (EOF for nil, same registered kind otherwise), and it stays o. *)
Theorem terminal_result prof t tr s o :
  run prof t init tr = Some s -> c_recvErr s = Some o ->
  c_got tr = h_sent tr /\ res s = [] /\ returned s = true /\
  exists e, In (HRet e) tr /\ matches e o = true.
Proof.
  intros H Ho.
  pose proof (run_res_shape _ _ _ _ _ H res_shape_init) as S. unfold res_shape in S.
  rewrite Ho in S.
  destruct (returned s) eqn:Er; [|destruct S; congruence].
  destruct (order_once _ _ _ _ H) as [_ O]. rewrite S in O. simpl in O. rewrite app_nil_r in O.
  repeat split; auto.
  destruct (terminal_origin _ _ _ _ _ _ H eq_refl Ho) as (e & [[]|He] & M). eauto.
Qed.

(* ---------------------------------------------------------------- CloseSend *)
(* shape of the request queue: the end marker is last, present only after CloseSend, and gone
   exactly when the handler has seen end-of-stream *)
Definition closed_flags (s : st) : Prop := c_called s = true /\ c_sendErr s <> None.
Definition req_shape (s : st) : Prop :=
  match s_recvErr s with
  | Some o => req s = [] /\ fst (fst o) = cEOF /\ closed_flags s
  | None => (exists xs, req s = map Some xs) \/
            (exists xs, req s = map Some xs ++ [None] /\ closed_flags s)
  end.

Lemma map_some_snoc (xs : list pay) (x : pay) : map Some xs ++ [Some x] = map Some (xs ++ [x]).
Proof. rewrite map_app. reflexivity. Qed.

Lemma send_ok_open prof s : send_guard prof s ROk = true -> closed_flags s -> False.
Proof.
  unfold send_guard, closed_flags. intros G [Hc Hs]. destruct ((prof =? 0) || (prof =? 2)).
  - apply andb_prop in G as [G _]. destruct (c_sendErr s); [discriminate|congruence].
  - rewrite Hc in G. discriminate.
Qed.

Lemma step_req_shape prof t s l s' :
  step prof t s l = Some s' -> req_shape s -> req_shape s'.
Proof.
  unfold req_shape. intros H S.
  destruct l as [x r|r|r|r|y r|e].
  - (* CSend *)
    unfold step in H. destruct (send_guard prof s r) eqn:G; [|discriminate].
    destruct r as [|p|c i m].
    + inv H. cbn. destruct (s_recvErr s).
      * destruct S as (_ & _ & F). destruct (send_ok_open _ _ G F).
      * destruct S as [(xs & ->)|(xs & _ & F)].
        -- left. exists (xs ++ [x]). apply map_some_snoc.
        -- destruct (send_ok_open _ _ G F).
    + unfold send_guard in G. discriminate.
    + inv H. cbn. unfold closed_flags in *. cbn.
      assert (K : c_sendErr s <> None ->
                  match c_sendErr s with
                  | Some e => Some e
                  | None => if is_none (c_recvErr s) then Some cEOF else None
                  end <> None).
      { destruct (c_sendErr s); congruence. }
      destruct (s_recvErr s).
      * destruct S as (S1 & S2 & S3 & S4). auto.
      * destruct S as [S|(xs & S1 & S3 & S4)]; auto. right. eauto.
  - (* CClose *)
    unfold step in H. destruct r; try discriminate.
    destruct (is_none (c_sendErr s)) eqn:Hs; inv H; cbn; unfold closed_flags in *; cbn.
    + destruct (s_recvErr s).
      * destruct S as (_ & _ & _ & S4). destruct (c_sendErr s); [discriminate|congruence].
      * destruct S as [(xs & ->)|(xs & _ & _ & S4)].
        -- right. exists xs. repeat split; auto. discriminate.
        -- destruct (c_sendErr s); [discriminate|congruence].
    + assert (K : c_sendErr s <> None) by (destruct (c_sendErr s); [discriminate|discriminate Hs]).
      destruct (s_recvErr s).
      * destruct S as (S1 & S2 & _). auto.
      * destruct S as [S|(xs & S1 & _)]; auto. right. eauto.
  - (* CRecv *)
    assert (A : req s' = req s /\ s_recvErr s' = s_recvErr s /\ c_called s' = c_called s /\
                c_sendErr s' = c_sendErr s).
    { destruct s; unfold step in H; cbn in *; brk; cbn; auto. }
    destruct A as (A1 & A2 & A3 & A4). unfold closed_flags. rewrite A1, A2, A3, A4. exact S.
  - (* HRecv *)
    unfold step in H. destruct (returned s); [discriminate|].
    destruct (s_recvErr s) as [o|] eqn:Eo.
    + destruct r as [| |c i m]; try discriminate. destruct (trip_eqb o (c, i, m)); inv H.
      rewrite Eo. exact S.
    + destruct (req s) as [|[x|] rest] eqn:Eq; [discriminate| |].
      * destruct r as [|x'|]; try discriminate. destruct (x =? x'); inv H. cbn.
        unfold closed_flags in *. cbn.
        destruct S as [(xs & S)|(xs & S & F)].
        -- destruct xs as [|x0 xs]; simpl in S; inv S. left. eauto.
        -- destruct xs as [|x0 xs]; simpl in S; inv S. right. eauto.
      * destruct r as [| |c i m]; try discriminate. destruct (c =? cEOF) eqn:Ec; inv H. cbn.
        unfold closed_flags in *. cbn.
        destruct S as [(xs & S)|(xs & S & F)].
        -- destruct xs; discriminate.
        -- destruct xs as [|x0 xs]; simpl in S; inv S.
           repeat split; try tauto. apply N.eqb_eq; auto.
  - assert (A : req s' = req s /\ s_recvErr s' = s_recvErr s /\ c_called s' = c_called s /\
                c_sendErr s' = c_sendErr s).
    { destruct s; unfold step in H; cbn in *; brk; cbn; auto. }
    destruct A as (A1 & A2 & A3 & A4). unfold closed_flags. rewrite A1, A2, A3, A4. exact S.
  - assert (A : req s' = req s /\ s_recvErr s' = s_recvErr s /\ c_called s' = c_called s /\
                c_sendErr s' = c_sendErr s).
    { destruct s; unfold step in H; cbn in *; brk; cbn; auto. }
    destruct A as (A1 & A2 & A3 & A4). unfold closed_flags. rewrite A1, A2, A3, A4. exact S.
Qed.

Lemma run_req_shape prof t : forall tr s s',
  run prof t s tr = Some s' -> req_shape s -> req_shape s'.
Proof.
  induction tr as [|l tr IH]; intros s s' H S; simpl in H.
  - inv H. auto.
  - destruct (step prof t s l) as [s1|] eqn:E; [|discriminate].
    eapply IH; eauto. eapply step_req_shape; eauto.
Qed.

Lemma called_origin prof t : forall tr s s',
  run prof t s tr = Some s' -> c_called s = false -> c_called s' = true -> In (CClose ROk) tr.
Proof.
  induction tr as [|l tr IH]; intros s s' H Hn Ho; simpl in H.
  - inv H. congruence.
  - destruct (step prof t s l) as [s1|] eqn:E; [|discriminate].
    destruct l as [x r|r|r|r|y r|e];
      try (right; apply (IH s1 s'); auto;
           destruct s; unfold step in E; cbn in *; brk; cbn; auto; fail).
    unfold step in E. destruct r; try discriminate. left. reflexivity.
Qed.

(* After the client closed its sending side and the handler has seen the resulting
   end-of-stream o: o is EOF, the client did call CloseSend, and every request sent before it
   (indeed every successful Send of the whole stream) had been received: received = sent. *)
Theorem closesend_eof prof t tr s o :
  run prof t init tr = Some s -> s_recvErr s = Some o ->
  fst (fst o) = cEOF /\ In (CClose ROk) tr /\ h_got tr = c_sent tr /\ req s = [].
Proof.
  intros H Ho.
  assert (S0 : req_shape init) by (left; exists []; reflexivity).
  pose proof (run_req_shape _ _ _ _ _ H S0) as S. unfold req_shape in S. rewrite Ho in S.
  destruct S as (S1 & S2 & S3 & S4).
  destruct (order_once _ _ _ _ H) as [O _]. rewrite S1 in O. simpl in O. rewrite app_nil_r in O.
  repeat split; auto. eapply called_origin; eauto.
Qed.

(* the handler's end-of-stream repeats *)
Lemma handler_eof_sticky prof t s o r s' :
  s_recvErr s = Some o -> step prof t s (HRecv r) = Some s' ->
  s' = s /\ exists c i m, r = RErr c i m /\ o = (c, i, m).
Proof.
  intros Ho H. unfold step in H. destruct (returned s); [discriminate|]. rewrite Ho in H.
  destruct r as [| |c i m]; try discriminate.
  destruct (trip_eqb o (c, i, m)) eqn:E; inv H. split; auto.
  exists c, i, m. split; auto. apply trip_eqb_eq; auto.
Qed.

(* the client can still receive after CloseSend: CloseSend and Receive commute — whatever
   Receive would have returned before CloseSend it returns after it, and vice versa *)
Theorem closesend_keeps_receive prof t s rc r s1 s2 :
  step prof t s (CClose rc) = Some s1 -> step prof t s (CRecv r) = Some s2 ->
  exists s3, step prof t s1 (CRecv r) = Some s3 /\ step prof t s2 (CClose rc) = Some s3.
Proof.
  intros H1 H2. destruct s as [rq rs ret se re ca fa sr].
  unfold step in H1, H2; cbn [req res returned c_sendErr c_recvErr c_called c_failed s_recvErr] in *.
  brk; subst;
  unfold step; cbn [req res returned c_sendErr c_recvErr c_called c_failed s_recvErr];
  repeat match goal with H : ?x = _ |- context [?x] => rewrite H end;
  eexists; split; reflexivity.
Qed.
