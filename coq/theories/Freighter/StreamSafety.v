(* Freighter/StreamSafety.v — every trace of the Stream LTS (any interleaving, any length, either
   profile, any transport) satisfies the monitor ok_C14; hence so does everything the checker
   accepts. *)
From Coq Require Import List NArith Bool String Arith Lia.
From Synnax Require Import Common.Base Generated.Consts_C14 Freighter.Stream Freighter.StreamProofs
  Monitors.Mon_C14 Freighter.StreamErrors.
Import ListNotations.
Local Open Scope N_scope.

Ltac inv H := inversion H; subst; clear H.

(* ---------------------------------------------------------------- list lemmas *)
Lemma pre_nil_l off : pre [] off = true.
Proof. destruct off as [|[? []] ?]; reflexivity. Qed.

Lemma pre_skip a : forall seen b y,
  pre seen (a ++ b) = true -> pre seen (a ++ (y, false) :: b) = true.
Proof.
  induction a as [|[z bz] a IH]; intros seen b y H; simpl in *.
  - destruct seen as [|x seen']; auto. rewrite H. apply orb_true_r.
  - destruct seen as [|x seen']; auto. destruct bz.
    + apply andb_prop in H as [H1 H2]. rewrite H1. simpl. auto.
    + apply orb_prop in H as [H|H].
      * apply andb_prop in H as [H1 H2]. rewrite H1. simpl. rewrite (IH _ _ _ H2). reflexivity.
      * rewrite (IH _ _ _ H). apply orb_true_r.
Qed.

Lemma pre_app a : forall seen b, pre seen a = true -> pre seen (a ++ b) = true.
Proof.
  induction a as [|[z bz] a IH]; intros seen b H; simpl in *.
  - destruct seen; [apply pre_nil_l|discriminate].
  - destruct seen as [|x seen']; auto. destruct bz.
    + apply andb_prop in H as [H1 H2]. rewrite H1. simpl. auto.
    + apply orb_prop in H as [H|H].
      * apply andb_prop in H as [H1 H2]. rewrite H1. simpl. rewrite (IH _ _ H2). reflexivity.
      * rewrite (IH _ _ H). apply orb_true_r.
Qed.

Lemma trip_eqb_cls o o' : trip_eqb o o' = true -> fst (fst o') = fst (fst o).
Proof.
  unfold trip_eqb. intros H. apply andb_prop in H as [H _]. apply andb_prop in H as [H _].
  apply N.eqb_eq in H. auto.
Qed.

(* ---------------------------------------------------------------- frame facts *)
Definition mand (q : list (option pay)) : list (option pay * bool) := map (fun o => (o, true)) q.
Definition mandr (q : list (pay + option err)) : list (pay * bool + option err) :=
  map (fun x => match x with inl y => inl (y, true) | inr e => inr e end) q.

Definition WF (s : st) : Prop := c_called s = true -> c_sendErr s <> None.

Ltac brk :=
  repeat match goal with
  | H : Some _ = Some _ |- _ => inv H
  | H : None = Some _ |- _ => discriminate H
  | H : false = true |- _ => discriminate H
  | H : (if ?x then _ else _) = Some _ |- _ => destruct x eqn:?
  | H : match ?x with _ => _ end = Some _ |- _ => destruct x eqn:?
  end.

Lemma step_WF prof t s l s' : step prof t s l = Some s' -> WF s -> WF s'.
Proof.
  unfold WF. intros H W. destruct s as [rq rs ret se re ca fa sr].
  destruct l as [x r|r|r|r|y r|e]; unfold step in H;
    cbn [req res returned c_sendErr c_recvErr c_called c_failed s_recvErr] in *;
    brk; cbn [c_called c_sendErr] in *; auto; try congruence.
  all: intros Hc; destruct se; simpl in *; try discriminate; try congruence.
  all: try (exfalso; apply W; auto; fail).
Qed.

(* labels that do not touch the request direction *)
Definition req_neutral (l : lab) : bool :=
  match l with CRecv _ | HSend _ _ | HRet _ => true | _ => false end.
Lemma step_req_neutral prof t s l s' :
  step prof t s l = Some s' -> req_neutral l = true ->
  req s' = req s /\ c_called s' = c_called s /\ s_recvErr s' = s_recvErr s.
Proof.
  intros H Hn. destruct s as [rq rs ret se re ca fa sr].
  destruct l as [x r|r|r|r|y r|e]; try discriminate Hn; unfold step in H;
    cbn [req res returned c_sendErr c_recvErr c_called c_failed s_recvErr] in *;
    brk; cbn; auto.
Qed.

(* labels that do not touch the response direction *)
Definition res_neutral (l : lab) : bool :=
  match l with CSend _ _ | CClose _ | HRecv _ => true | _ => false end.
Lemma step_res_neutral prof t s l s' :
  step prof t s l = Some s' -> res_neutral l = true ->
  res s' = res s /\ returned s' = returned s /\ c_recvErr s' = c_recvErr s.
Proof.
  intros H Hn. destruct s as [rq rs ret se re ca fa sr].
  destruct l as [x r|r|r|r|y r|e]; try discriminate Hn; unfold step in H;
    cbn [req res returned c_sendErr c_recvErr c_called c_failed s_recvErr] in *;
    brk; cbn; auto.
Qed.

(* ---------------------------------------------------------------- (1) requests *)
Definition off1 (s : st) (tr : list lab) : list (option pay * bool) :=
  mand (req s) ++ (if c_called s then [] else c_offered tr).

Lemma send_ok_not_called prof s :
  WF s -> send_guard prof s ROk = true -> c_called s = false.
Proof.
  unfold WF, send_guard. intros W H. destruct (c_called s) eqn:Hc; auto.
  destruct ((prof =? 0) || (prof =? 2)).
  - apply andb_prop in H as [H _]. specialize (W eq_refl). destruct (c_sendErr s); simpl in *; congruence.
  - simpl in H. discriminate.
Qed.

Lemma claim1 prof t : forall tr s s',
  run prof t s tr = Some s' -> WF s -> s_recvErr s = None ->
  pre (h_seen tr) (off1 s tr) = true.
Proof.
  induction tr as [|l tr IH]; intros s s' Hr W Hn; [apply pre_nil_l|].
  simpl in Hr. destruct (step prof t s l) as [s1|] eqn:E; [|discriminate].
  pose proof (step_WF _ _ _ _ _ E W) as W1.
  destruct l as [x r|r|r|r|y r|e].
  - (* CSend *)
    unfold step in E. destruct (send_guard prof s r) eqn:G; [|discriminate].
    destruct r as [|p|c i m].
    + inv E. pose proof (send_ok_not_called _ _ W G) as Hc.
      specialize (IH _ _ Hr W1 Hn). unfold off1 in *. cbn [req c_called] in IH.
      rewrite Hc in *. simpl. unfold mand in *. rewrite map_app, <- app_assoc in IH. exact IH.
    + unfold send_guard in G. discriminate.
    + inv E. specialize (IH _ _ Hr W1 Hn). unfold off1 in *. cbn [req c_called] in IH.
      simpl. destruct (c_called s); auto. apply pre_skip. exact IH.
  - (* CClose *)
    unfold step in E. destruct r; try discriminate.
    destruct (is_none (c_sendErr s)) eqn:Hs; inv E.
    + assert (Hc : c_called s = false).
      { destruct (c_called s) eqn:Hc; auto. specialize (W Hc).
        destruct (c_sendErr s); simpl in *; congruence. }
      specialize (IH _ _ Hr W1 Hn). unfold off1 in *. cbn [req c_called] in IH.
      rewrite Hc. simpl. unfold mand in *. rewrite map_app, app_nil_r in IH. exact IH.
    + specialize (IH _ _ Hr W1 Hn). unfold off1 in *. cbn [req c_called] in IH.
      simpl. destruct (c_called s); auto. rewrite app_nil_r in IH. apply pre_app. exact IH.
  - (* CRecv *)
    destruct (step_req_neutral _ _ _ _ _ E eq_refl) as (Eq & Ec & Es).
    specialize (IH _ _ Hr W1 (eq_trans Es Hn)). unfold off1 in *. rewrite Eq, Ec in IH.
    destruct r; exact IH.
  - (* HRecv *)
    unfold step in E. destruct (returned s); [discriminate|]. rewrite Hn in E.
    destruct (req s) as [|[x|] rest] eqn:Eq; [discriminate| |].
    + destruct r as [|x'|]; try discriminate. destruct (x =? x') eqn:Ex; inv E.
      specialize (IH _ _ Hr W1 eq_refl). unfold off1 in *. cbn [req c_called] in IH.
      rewrite Eq. simpl. rewrite N.eqb_sym, Ex. simpl. exact IH.
    + destruct r as [| |c i m]; try discriminate. unfold off1. rewrite Eq. simpl.
      apply pre_nil_l.
  - (* HSend *)
    destruct (step_req_neutral _ _ _ _ _ E eq_refl) as (Eq & Ec & Es).
    specialize (IH _ _ Hr W1 (eq_trans Es Hn)). unfold off1 in *. rewrite Eq, Ec in IH. exact IH.
  - (* HRet *)
    destruct (step_req_neutral _ _ _ _ _ E eq_refl) as (Eq & Ec & Es).
    specialize (IH _ _ Hr W1 (eq_trans Es Hn)). unfold off1 in *. rewrite Eq, Ec in IH. exact IH.
Qed.

(* ---------------------------------------------------------------- handler's end-of-stream *)
Lemma forallb_trip_cls o l :
  fst (fst o) = cEOF -> forallb (trip_eqb o) l = true ->
  forallb (fun o' => fst (fst o') =? cEOF) l = true.
Proof.
  intros Ho H. rewrite forallb_forall in *. intros x Hx. specialize (H x Hx).
  apply trip_eqb_cls in H. rewrite H, Ho. reflexivity.
Qed.

Lemma step_srecv_frame prof t s l s' :
  step prof t s l = Some s' -> (forall r, l <> HRecv r) -> s_recvErr s' = s_recvErr s.
Proof.
  intros H Hn. destruct s as [rq rs ret se re ca fa sr].
  destruct l as [x r|r|r|r|y r|e]; try (exfalso; eapply Hn; reflexivity);
    unfold step in H; cbn [req res returned c_sendErr c_recvErr c_called c_failed s_recvErr] in *;
    brk; cbn; auto.
Qed.

Lemma claimE prof t : forall tr s s',
  run prof t s tr = Some s' ->
  match s_recvErr s with
  | Some o => forallb (trip_eqb o) (h_errs tr) = true /\ h_no_val_after_err tr true = true
  | None => forallb (fun o => fst (fst o) =? cEOF) (h_errs tr) = true /\
            all_same (h_errs tr) = true /\ h_no_val_after_err tr false = true
  end.
Proof.
  induction tr as [|l tr IH]; intros s s' Hr.
  - destruct (s_recvErr s); simpl; auto.
  - simpl in Hr. destruct (step prof t s l) as [s1|] eqn:E; [|discriminate].
    specialize (IH _ _ Hr).
    destruct l as [x r|r|r|r|y r|e];
      try (rewrite (step_srecv_frame _ _ _ _ _ E) in IH by (intros ? ?; discriminate);
           simpl; exact IH).
    (* HRecv *)
    unfold step in E. destruct (returned s); [discriminate|].
    destruct (s_recvErr s) as [o|] eqn:Es.
    + destruct r as [| |c i m]; try discriminate.
      destruct (trip_eqb o (c, i, m)) eqn:Et; inv E. rewrite Es in IH. simpl. rewrite Et. exact IH.
    + destruct (req s) as [|[x|] rest]; [discriminate| |].
      * destruct r as [|x'|]; try discriminate. destruct (x =? x'); inv E. simpl in *. exact IH.
      * destruct r as [| |c i m]; try discriminate. destruct (c =? cEOF) eqn:Ec; inv E.
        cbn [s_recvErr] in IH. destruct IH as [I1 I2]. simpl. rewrite Ec. simpl.
        split; [|split]; auto.
        apply (forallb_trip_cls (c, i, m)); auto. simpl. apply N.eqb_eq. auto.
Qed.

(* ---------------------------------------------------------------- (2) responses *)
Definition off2 (s : st) (tr : list lab) : list (pay * bool + option err) :=
  mandr (res s) ++ (if returned s then [] else h_offered tr).

Lemma pre2_nil_l off : pre2 [] off = true.
Proof. destruct off as [|[[? []]|?] ?]; reflexivity. Qed.

Lemma claim2 prof t : forall tr s s',
  run prof t s tr = Some s' -> c_recvErr s = None ->
  pre2 (c_seen tr) (off2 s tr) = true.
Proof.
  induction tr as [|l tr IH]; intros s s' Hr Hn; [apply pre2_nil_l|].
  simpl in Hr. destruct (step prof t s l) as [s1|] eqn:E; [|discriminate].
  destruct l as [x r|r|r|r|y r|e].
  - destruct (step_res_neutral _ _ _ _ _ E eq_refl) as (Eq & Ec & Es).
    specialize (IH _ _ Hr (eq_trans Es Hn)). unfold off2 in *. rewrite Eq, Ec in IH.
    destruct r; exact IH.
  - destruct (step_res_neutral _ _ _ _ _ E eq_refl) as (Eq & Ec & Es).
    specialize (IH _ _ Hr (eq_trans Es Hn)). unfold off2 in *. rewrite Eq, Ec in IH.
    destruct r; exact IH.
  - (* CRecv *)
    unfold step in E. rewrite Hn in E.
    destruct (res s) as [|[y|e] rest] eqn:Eq; [discriminate| |].
    + destruct r as [|y'|]; try discriminate. destruct (y =? y') eqn:Ey; inv E.
      specialize (IH _ _ Hr eq_refl). unfold off2 in *. cbn [res returned] in IH.
      rewrite Eq. simpl. rewrite N.eqb_sym, Ey. simpl. exact IH.
    + destruct r as [| |c i m]; try discriminate.
      destruct (img_ok (wire t e) (c, i, m)) eqn:Ei; inv E.
      unfold off2. rewrite Eq. simpl. eapply wire_matches; eauto.
  - destruct (step_res_neutral _ _ _ _ _ E eq_refl) as (Eq & Ec & Es).
    specialize (IH _ _ Hr (eq_trans Es Hn)). unfold off2 in *. rewrite Eq, Ec in IH.
    destruct r; exact IH.
  - (* HSend *)
    unfold step in E. destruct (returned s) eqn:Er; [discriminate|].
    destruct r; try discriminate. inv E.
    specialize (IH _ _ Hr Hn). unfold off2 in *. cbn [res returned] in IH. rewrite Er in *.
    simpl. unfold mandr in *. rewrite map_app, <- app_assoc in IH. exact IH.
  - (* HRet *)
    unfold step in E. destruct (returned s) eqn:Er; [discriminate|]. inv E.
    specialize (IH _ _ Hr Hn). unfold off2 in *. cbn [res returned] in IH.
    simpl. rewrite Er. unfold mandr in *. rewrite map_app, app_nil_r in IH. exact IH.
Qed.

Lemma step_crecv_frame prof t s l s' :
  step prof t s l = Some s' -> (forall r, l <> CRecv r) -> c_recvErr s' = c_recvErr s.
Proof.
  intros H Hn. destruct s as [rq rs ret se re ca fa sr].
  destruct l as [x r|r|r|r|y r|e]; try (exfalso; eapply Hn; reflexivity);
    unfold step in H; cbn [req res returned c_sendErr c_recvErr c_called c_failed s_recvErr] in *;
    brk; cbn; auto.
Qed.

Lemma claimS prof t : forall tr s s',
  run prof t s tr = Some s' ->
  match c_recvErr s with
  | Some o => forallb (trip_eqb o) (c_errs tr) = true /\ c_no_val_after_err tr true = true
  | None => all_same (c_errs tr) = true /\ c_no_val_after_err tr false = true
  end.
Proof.
  induction tr as [|l tr IH]; intros s s' Hr.
  - destruct (c_recvErr s); simpl; auto.
  - simpl in Hr. destruct (step prof t s l) as [s1|] eqn:E; [|discriminate].
    specialize (IH _ _ Hr).
    destruct l as [x r|r|r|r|y r|e];
      try (rewrite (step_crecv_frame _ _ _ _ _ E) in IH by (intros ? ?; discriminate);
           simpl; exact IH).
    unfold step in E.
    destruct (c_recvErr s) as [o|] eqn:Es.
    + destruct r as [| |c i m]; try discriminate.
      destruct (trip_eqb o (c, i, m)) eqn:Et; inv E. rewrite Es in IH. simpl. rewrite Et. exact IH.
    + destruct (res s) as [|[y|e] rest]; [discriminate| |].
      * destruct r as [|y'|]; try discriminate. destruct (y =? y'); inv E. simpl in *. exact IH.
      * destruct r as [| |c i m]; try discriminate.
        destruct (img_ok (wire t e) (c, i, m)); inv E.
        cbn [c_recvErr] in IH. destruct IH as [I1 I2]. simpl. auto.
Qed.

(* ---------------------------------------------------------------- projections *)
Definition nc (l : lab) : bool := negb (is_client l).

Ltac proj_tac tr :=
  induction tr as [|l tr IH]; [reflexivity|];
  destruct l as [x r|r|r|r|y r|e]; simpl; try exact IH; try reflexivity;
  try (destruct r; simpl; try rewrite IH; reflexivity).

Lemma proj_c_offered tr : c_offered (filter is_client tr) = c_offered tr.
Proof. proj_tac tr. Qed.
Lemma proj_c_seen tr : c_seen (filter is_client tr) = c_seen tr.
Proof. proj_tac tr. Qed.
Lemma proj_c_errs tr : c_errs (filter is_client tr) = c_errs tr.
Proof. proj_tac tr. Qed.
Lemma proj_c_noval tr : forall b, c_no_val_after_err (filter is_client tr) b = c_no_val_after_err tr b.
Proof.
  induction tr as [|l tr IH]; intros b; [reflexivity|].
  destruct l as [x r|r|r|r|y r|e]; simpl; try apply IH.
  destruct r; simpl; try rewrite IH; reflexivity.
Qed.
Lemma proj_h_seen tr : h_seen (filter nc tr) = h_seen tr.
Proof. proj_tac tr. Qed.
Lemma proj_h_errs tr : h_errs (filter nc tr) = h_errs tr.
Proof. proj_tac tr. Qed.
Lemma proj_h_offered tr : h_offered (filter nc tr) = h_offered tr.
Proof. proj_tac tr. Qed.
Lemma proj_h_noval tr : forall b, h_no_val_after_err (filter nc tr) b = h_no_val_after_err tr b.
Proof.
  induction tr as [|l tr IH]; intros b; [reflexivity|].
  destruct l as [x r|r|r|r|y r|e]; simpl; try apply IH.
  destruct r; simpl; try rewrite IH; reflexivity.
Qed.

(* ---------------------------------------------------------------- the theorems *)
Lemma WF_init : WF init.
Proof. unfold WF, init. simpl. discriminate. Qed.

Theorem traces_ok prof t tr s' :
  run prof t init tr = Some s' ->
  ok_C14 (filter is_client tr) (filter nc tr) = true.
Proof.
  intros Hr. unfold ok_C14.
  rewrite proj_c_offered, proj_c_seen, proj_c_errs, proj_c_noval,
          proj_h_seen, proj_h_errs, proj_h_offered, proj_h_noval.
  pose proof (claim1 _ _ _ _ _ Hr WF_init eq_refl) as C1.
  pose proof (claimE _ _ _ _ _ Hr) as CE. cbn [s_recvErr init] in CE. destruct CE as (E1 & E2 & E3).
  pose proof (claim2 _ _ _ _ _ Hr eq_refl) as C2.
  pose proof (claimS _ _ _ _ _ Hr) as CS. cbn [c_recvErr init] in CS. destruct CS as (S1 & S2).
  unfold off1, off2 in *. cbn [req res c_called returned init mand mandr map app] in *.
  rewrite C1, E1, E2, E3, C2, S1, S2. reflexivity.
Qed.

Theorem accepts_ok prof t cl hl :
  accepts prof t cl hl = true -> ok_C14 cl hl = true.
Proof.
  intros H. destruct (accepts_sound _ _ _ _ H) as (tr & s' & Hr & <- & <-).
  eapply traces_ok; eauto.
Qed.
