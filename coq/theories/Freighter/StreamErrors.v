(* Freighter/StreamErrors.v — the error registry round trip: what a receiver decodes from the
   encoding of a handler's error still matches that error, on every transport. *)
From Coq Require Import List NArith Bool String Arith Lia.
From Synnax Require Import Common.Base Generated.Consts_C14 Freighter.Stream Monitors.Mon_C14.
Import ListNotations.
Local Open Scope N_scope.

(* the generated tables agree with what the monitor pins *)
Lemma parents_pinned : parents = kind_parents.
Proof. reflexivity. Qed.
Lemma registered_pinned :
  forallb (fun k => existsb (N.eqb k) reg_kinds) (map fst enc_rules) = true /\
  forallb (fun k => existsb (N.eqb k) (map fst enc_rules)) reg_kinds = true.
Proof. vm_compute. auto. Qed.

Lemma isa_tab_refl ps k : isa_tab ps k k = true.
Proof. unfold isa_tab. destruct (List.length ps); simpl; rewrite N.eqb_refl; reflexivity. Qed.
Lemma isa_refl k : isa k k = true.
Proof. apply isa_tab_refl. Qed.
Lemma misa_refl k : misa k k = true.
Proof. apply isa_tab_refl. Qed.

(* if k is-a s then k = s or s is the parent of something *)
Lemma isa_fuel_cases ps fuel : forall k s,
  isa_fuel ps fuel k s = true -> k = s \/ In s (map snd ps).
Proof.
  induction fuel as [|f IH]; intros k s H; cbn [isa_fuel] in H.
  - destruct (k =? s) eqn:E; [|discriminate]. left. apply N.eqb_eq. auto.
  - destruct (k =? s) eqn:E0; [left; apply N.eqb_eq; auto|]. cbn [orb] in H.
    destruct (find (fun p => fst p =? k) ps) as [[k' q]|] eqn:E; [|discriminate].
    apply find_some in E as [Hin _].
    destruct (IH _ _ H) as [->|Hs]; auto.
    right. apply in_map_iff. exists (k', s). auto.
Qed.

Lemma isa_leaf k s : ~ In s (map snd parents) -> isa k s = true -> k = s.
Proof. intros Hn H. destruct (isa_fuel_cases _ _ _ _ H); tauto. Qed.

Lemma canceled_leaf : ~ In cCanceled (map snd parents).
Proof. vm_compute. intuition discriminate. Qed.
Lemma eof_leaf : ~ In cEOF (map snd parents).
Proof. vm_compute. intuition discriminate. Qed.

(* a kind without a Wrap parent is only itself *)
Lemma find_none_notin (ps : list (N * N)) k :
  ~ In k (map fst ps) -> find (fun p => fst p =? k) ps = None.
Proof.
  induction ps as [|[a b] ps IH]; simpl; intros H; auto.
  destruct (a =? k) eqn:E; [apply N.eqb_eq in E; subst; tauto|]. apply IH. tauto.
Qed.
Lemma isa_orphan k s : ~ In k (map fst parents) -> isa k s = (k =? s).
Proof.
  intros H. unfold isa, isa_tab. destruct (List.length parents); cbn [isa_fuel].
  - apply orb_false_r.
  - rewrite (find_none_notin _ _ H). apply orb_false_r.
Qed.

(* the encode rules pick exactly the registered kind the monitor computes: the first matching
   rule is the nearest registered sentinel on the Wrap chain *)
Definition dom : list N := map fst kind_parents ++ reg_kinds.
Definition agree_at (k : N) : bool :=
  match enc_rule k, reg_anc k with
  | Some (s, _), Some s' => s =? s'
  | None, None => true
  | _, _ => false
  end.
Lemma agree_dom : forallb agree_at dom = true.
Proof. vm_compute. reflexivity. Qed.

Lemma agree k : agree_at k = true.
Proof.
  destruct (in_dec N.eq_dec k dom) as [Hin|Hout].
  - pose proof agree_dom as A. rewrite forallb_forall in A. auto.
  - unfold dom in Hout. rewrite in_app_iff in Hout.
    assert (Hp : ~ In k (map fst parents)) by (rewrite parents_pinned; tauto).
    assert (Hr : ~ In k reg_kinds) by tauto.
    unfold agree_at.
    assert (E1 : enc_rule k = None).
    { unfold enc_rule. destruct (find (fun r => isa k (fst r)) enc_rules) as [r|] eqn:E; auto.
      apply find_some in E as [Hin Hisa]. rewrite (isa_orphan _ _ Hp) in Hisa.
      apply N.eqb_eq in Hisa. exfalso. apply Hr.
      destruct registered_pinned as [R _]. rewrite forallb_forall in R.
      assert (In k (map fst enc_rules)) by (subst k; apply in_map; auto).
      specialize (R _ H). apply existsb_exists in R as (x & Hx & Hk). apply N.eqb_eq in Hk.
      subst. auto. }
    assert (E2 : reg_anc k = None).
    { unfold reg_anc. cbn [List.length kind_parents reg_anc_fuel].
      assert (existsb (N.eqb k) reg_kinds = false) as ->.
      { destruct (existsb (N.eqb k) reg_kinds) eqn:E; auto.
        apply existsb_exists in E as (x & Hx & Hk). apply N.eqb_eq in Hk. subst. tauto. }
      rewrite parents_pinned in Hp. rewrite (find_none_notin _ _ Hp). reflexivity. }
    rewrite E1, E2. reflexivity.
Qed.

Lemma enc_reg k s ty : enc_rule k = Some (s, ty) -> reg_anc k = Some s.
Proof.
  intros H. pose proof (agree k) as A. unfold agree_at in A. rewrite H in A.
  destruct (reg_anc k); [|discriminate]. apply N.eqb_eq in A. subst. reflexivity.
Qed.
Lemma enc_none_reg k : enc_rule k = None -> reg_anc k = None.
Proof.
  intros H. pose proof (agree k) as A. unfold agree_at in A. rewrite H in A.
  destruct (reg_anc k); [discriminate|reflexivity].
Qed.

(* ---- facts about the generated tables, by evaluation *)

(* every encode rule's payload type decodes to that rule's sentinel (and to a real kind) *)
Definition rule_ok (r : N * string) : bool :=
  match dec_type (snd r) with
  | Some k => (k =? fst r) && negb (k =? 0) && negb (k =? cPath)
  | None => false
  end.
Lemma rules_ok : forallb rule_ok enc_rules = true.
Proof. vm_compute. reflexivity. Qed.

Lemma path_type_ok : dec_type path_type = Some cPath.
Proof. vm_compute. reflexivity. Qed.
Lemma unknown_type_ok : dec_type ty_unknown = None.
Proof. vm_compute. reflexivity. Qed.
Lemma roach_type_ok : dec_type ty_roach = None.
Proof. vm_compute. reflexivity. Qed.
Lemma canceled_unregistered : enc_rule cCanceled = None.
Proof. vm_compute. reflexivity. Qed.
Lemma eof_rule : enc_rule cEOF = Some (cEOF, "freighter.eof"%string).
Proof. vm_compute. reflexivity. Qed.

Lemma enc_rule_dec k s ty :
  enc_rule k = Some (s, ty) ->
  dec_type ty = Some s /\ s <> 0 /\ s <> cPath /\ isa k s = true.
Proof.
  intros H. unfold enc_rule in H. apply find_some in H as [Hin Hisa]. simpl in Hisa.
  pose proof rules_ok as R. rewrite forallb_forall in R. specialize (R _ Hin).
  unfold rule_ok in R. simpl in R. destruct (dec_type ty) as [k'|]; [|discriminate].
  apply andb_prop in R as [R R3]. apply andb_prop in R as [R1 R2].
  apply N.eqb_eq in R1. subst k'.
  apply negb_true_iff, N.eqb_neq in R2. apply negb_true_iff, N.eqb_neq in R3. auto.
Qed.

(* ---- decode after encode *)

Definition img_matches (e : err) (i : image) : bool := matches (Some e) (i_cls i, i_inner i, []).

Lemma matches_img e i o :
  img_ok i o = true -> img_matches e i = true -> matches (Some e) o = true.
Proof.
  destruct o as [[c n] m]. unfold img_ok, img_matches, matches. simpl.
  intros H. apply andb_prop in H as [H _]. apply andb_prop in H as [H1 H2].
  apply N.eqb_eq in H1, H2. subst. auto.
Qed.

Lemma decode_not_zero_path k (p : payload) :
  dec_type (p_ty p) = Some k -> k <> 0 -> k <> cPath -> decode p = Img k 0 None.
Proof.
  intros H H0 H1. unfold decode. rewrite H.
  destruct k; [congruence|].
  apply N.eqb_neq in H1. rewrite H1. reflexivity.
Qed.

(* decoding the encoding of e (internal or not) gives an error that matches e *)
Lemma decode_encode internal e : img_matches e (decode (encode internal e)) = true.
Proof.
  unfold encode, img_matches, matches.
  destruct (e_path e) eqn:Ep.
  - (* PathError *)
    unfold decode. cbn [p_ty p_inner]. rewrite path_type_ok.
    change (cPath =? cPath) with true. cbn [i_cls i_inner fst snd]. simpl.
    unfold base_ty. destruct (enc_rule (e_kind e)) as [[s ty]|] eqn:Er.
    2:{ rewrite (enc_none_reg _ Er). reflexivity. }
    rewrite (enc_reg _ _ _ Er).
    destruct (enc_rule_dec _ _ _ Er) as (Hd & H0 & H1 & _).
    rewrite Hd. destruct s; [congruence|]. apply misa_refl.
  - destruct (enc_rule (e_kind e)) as [[s ty]|] eqn:Er.
    + destruct (enc_rule_dec _ _ _ Er) as (Hd & H0 & H1 & _).
      rewrite (enc_reg _ _ _ Er).
      rewrite (decode_not_zero_path s); auto. simpl. apply misa_refl.
    + rewrite (enc_none_reg _ Er). destruct internal.
      * unfold decode. cbn [p_ty p_roach]. rewrite roach_type_ok.
        unfold roach_cls. destruct (e_kind e =? cDeadline); reflexivity.
      * unfold decode. cbn [p_ty p_roach]. rewrite unknown_type_ok. reflexivity.
Qed.

(* The property's matching clause on every transport (SplitN fix in place: the generated
   constant [unmarshal_split_all] is false; this proof breaks if it is not). *)
Lemma wire_matches t e o : img_ok (wire t e) o = true -> matches e o = true.
Proof.
  destruct e as [e|].
  2:{ unfold wire, wire_gen, img_eof, img_ok, matches. simpl. destruct o as [[c n] m]. simpl.
      intros H. apply andb_prop in H as [H _]. apply andb_prop in H as [H _].
      rewrite N.eqb_sym. auto. }
  intros H. eapply matches_img; eauto. clear H.
  unfold wire, wire_gen.
  change unmarshal_split_all with false.
  destruct (t =? 0); [apply decode_encode|].
  destruct ((t =? 1) || (t =? 2)).
  - destruct (negb (e_path e) && isa (e_kind e) cCanceled) eqn:Hc; [|apply decode_encode].
    apply andb_prop in Hc as [Hp Hi]. apply negb_true_iff in Hp.
    apply (isa_leaf _ _ canceled_leaf) in Hi.
    unfold img_matches, matches. rewrite Hp, Hi. reflexivity.
  - destruct (negb (e_path e) && isa (e_kind e) cEOF) eqn:Hc.
    + apply andb_prop in Hc as [Hp Hi]. apply negb_true_iff in Hp.
      apply (isa_leaf _ _ eof_leaf) in Hi.
      unfold img_matches, matches. rewrite Hp, Hi. reflexivity.
    + unfold transit. simpl. apply decode_encode.
Qed.

(* the string transit of grpc before the fix: a registered kind whose message contains the
   separator arrives as a plain error *)
Lemma split_all_refuted :
  let e := Err 4 false [1; 2] in
  enc_rule (e_kind e) = Some (4, "sy.query.unique_violation"%string) /\
  img_matches e (wire_gen true 3 (Some e)) = false /\
  img_matches e (wire_gen false 3 (Some e)) = true.
Proof. vm_compute. auto. Qed.

(* ---- the registry round trip, stated on kinds *)

Definition registered (s : N) : Prop := In s (map fst enc_rules).

(* a registered kind's own sentinel, bare or wrapped with any message, decodes to an error of
   that very kind — through the struct payload (mock, websocket) and through the string form
   used by grpc *)
Lemma registry_roundtrip s m internal :
  registered s -> enc_rule s = Some (s, base_ty s) ->
  decode (encode internal (Err s false m)) = Img s 0 None /\
  decode (transit unmarshal_split_all (encode internal (Err s false m))) = Img s 0 None.
Proof.
  intros _ Hr.
  assert (decode (encode internal (Err s false m)) = Img s 0 None).
  { unfold encode. cbn [e_path e_kind]. rewrite Hr.
    destruct (enc_rule_dec _ _ _ Hr) as (Hd & H0 & H1 & _).
    apply decode_not_zero_path; auto. }
  split; auto.
Qed.

(* first-match order of the encode rules never sends a registered sentinel to another rule *)
Lemma registered_self_rule :
  forallb (fun r => match enc_rule (fst r) with
                    | Some (s, ty) => (s =? fst r) && String.eqb ty (snd r)
                    | None => false
                    end) enc_rules = true.
Proof. vm_compute. reflexivity. Qed.

(* any error (sentinel or a sentinel wrapping it) degrades to its nearest registered ancestor *)
Lemma registry_degrades k s ty m internal :
  enc_rule k = Some (s, ty) ->
  decode (encode internal (Err k false m)) = Img s 0 None /\ isa k s = true.
Proof.
  intros Hr. destruct (enc_rule_dec _ _ _ Hr) as (Hd & H0 & H1 & Hi). split; auto.
  unfold encode. cbn [e_path e_kind]. rewrite Hr. apply decode_not_zero_path; auto.
Qed.

(* the providers do not shadow one another: every payload type of an encode rule and every
   decode case is accepted by exactly one provider, so registration order is irrelevant *)
Definition prov_types (pr : list (N * string) * list (string * N) * list (string * N)) : list string :=
  map snd (fst (fst pr)) ++ map fst (snd (fst pr)).
Definition hits (ty : string) : nat :=
  List.length (filter (fun pr => match prov_dec pr ty with Some _ => true | None => false end) providers).
Lemma providers_disjoint :
  forallb (fun ty => Nat.eqb (hits ty) 1) (flat_map prov_types providers) = true.
Proof. vm_compute. reflexivity. Qed.

(* the round trip for every registered kind of the generated table *)
Lemma registry_roundtrip_all s ty m internal :
  In (s, ty) enc_rules ->
  decode (encode internal (Err s false m)) = Img s 0 None /\
  decode (transit unmarshal_split_all (encode internal (Err s false m))) = Img s 0 None.
Proof.
  intros Hin. pose proof registered_self_rule as R. rewrite forallb_forall in R.
  specialize (R _ Hin). simpl in R.
  destruct (enc_rule s) as [[s' ty']|] eqn:Er; [|discriminate].
  apply andb_prop in R as [R1 R2]. apply N.eqb_eq in R1. subst s'.
  destruct (enc_rule_dec _ _ _ Er) as (Hd & H0 & H1 & _).
  assert (decode (encode internal (Err s false m)) = Img s 0 None).
  { unfold encode. cbn [e_path e_kind]. rewrite Er. apply decode_not_zero_path; auto. }
  split; auto.
Qed.

(* sentinels that the provider packages declare but no provider encodes do not come back as
   themselves: control.ErrControl (8) arrives as a plain error, validate.ErrRequired (10)
   degrades to validate.ErrValidation (9) *)
Lemma unregistered_sentinels_refuted :
  decode (encode false (Err 8 false [1])) = Img cOther 0 (Some [1]) /\
  decode (encode false (Err 10 false [1])) = Img 9 0 None /\
  ~ In 8 (map fst enc_rules) /\ ~ In 10 (map fst enc_rules).
Proof. vm_compute. repeat split; intuition discriminate. Qed.
