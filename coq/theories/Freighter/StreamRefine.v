(* Freighter/StreamRefine.v — the mock transport (profile 0, exactly mock/stream.go) refines the
   documented contract (profile 1): every trace of the first is a trace of the second, with the
   same state. *)
From Coq Require Import List NArith Bool String Arith Lia.
From Synnax Require Import Generated.Consts_C14 Freighter.Stream.
Import ListNotations.
Local Open Scope N_scope.

Ltac inv H := inversion H; subst; clear H.

Record Inv (s : st) : Prop := {
  inv_a : c_called s = true -> c_sendErr s <> None;
  inv_b : c_failed s = true -> c_sendErr s <> None \/ c_recvErr s <> None;
  inv_c : forall e, c_sendErr s = Some e ->
          (e = cClosed /\ c_called s = true) \/ (e = cEOF /\ returned s = true);
  inv_d : c_recvErr s <> None -> returned s = true;
  inv_e : forall e, In (inr e) (res s) -> returned s = true }.

Lemma Inv_init : Inv init.
Proof. split; simpl; intros; try discriminate; try congruence; try tauto. Qed.

(* when a Send fails although neither end has cached an error, the handler has returned *)
Lemma guard_returned p s c i m :
  Inv s -> send_guard p s (RErr c i m) = true ->
  c_sendErr s = None -> c_recvErr s = None -> returned s = true.
Proof.
  intros I G Hs Hr. unfold send_guard in G. rewrite Hs, Hr in G. simpl in G.
  destruct (p =? 0).
  { apply andb_prop in G as [_ G]. exact G. }
  destruct (p =? 2).
  { rewrite andb_false_r in G. discriminate. }
  destruct (p =? 3).
  { destruct (c_called s) eqn:Hc.
    - destruct (inv_a _ I Hc). exact Hs.
    - apply andb_prop in G as [_ G]. exact G. }
  apply orb_prop in G as [G|G]; apply andb_prop in G as [_ G]; auto.
  destruct (inv_a _ I G). exact Hs.
Qed.

(* every profile's Send results are allowed by the contract *)
Lemma guard_refines p s r : Inv s -> send_guard p s r = true -> send_guard 1 s r = true.
Proof.
  intros I G. unfold send_guard in *. change (1 =? 0) with false. change (1 =? 2) with false.
  change (1 =? 3) with false. cbn [orb].
  destruct r as [|y|c i m]; auto.
  - (* ROk *)
    destruct ((p =? 0) || (p =? 2)); auto.
    apply andb_prop in G as [G1 G2]. rewrite G2.
    destruct (c_called s) eqn:Hc.
    { destruct (inv_a _ I Hc). destruct (c_sendErr s); [discriminate|reflexivity]. }
    destruct (c_failed s) eqn:Hf; auto.
    destruct (inv_b _ I Hf) as [H|H]; exfalso; apply H.
    + destruct (c_sendErr s); [discriminate|reflexivity].
    + destruct (c_recvErr s); [discriminate|reflexivity].
  - (* RErr *)
    destruct (p =? 0).
    { destruct (c_sendErr s) as [e|] eqn:Es.
      + apply N.eqb_eq in G. subst c.
        destruct (inv_c _ I _ Es) as [[-> Hc]|[-> Hr]].
        * rewrite Hc. reflexivity.
        * rewrite Hr. change (cEOF =? cEOF) with true. apply orb_true_r.
      + apply andb_prop in G as [G1 G2]. rewrite G1.
        assert (returned s = true) as ->.
        { apply orb_prop in G2 as [G2|G2]; auto. apply (inv_d _ I).
          destruct (c_recvErr s); [discriminate|discriminate G2]. }
        rewrite andb_true_r. apply orb_true_r. }
    destruct (p =? 2).
    { destruct (c_recvErr s) as [o|] eqn:Er; simpl in G.
      + rewrite G. rewrite (inv_d _ I) by (rewrite Er; discriminate). apply orb_true_r.
      + apply andb_prop in G as [G1 G2]. rewrite G1.
        destruct (c_sendErr s) as [e|] eqn:Es; [|discriminate]. apply N.eqb_eq in G2. subst e.
        destruct (inv_c _ I _ Es) as [[_ Hc]|[Hx _]]; [rewrite Hc; reflexivity|discriminate]. }
    destruct (p =? 3); auto.
    destruct (c_called s) eqn:Hc.
    { rewrite G. reflexivity. }
    apply andb_prop in G as [G1 G2]. rewrite G1.
    assert (returned s = true) as ->.
    { apply orb_prop in G2 as [G2|G2]; auto. apply (inv_d _ I).
      destruct (c_recvErr s); [discriminate|discriminate G2]. }
    apply orb_true_r.
Qed.

Lemma step_refines p t s l s' :
  Inv s -> step p t s l = Some s' -> step 1 t s l = Some s' /\ Inv s'.
Proof.
  intros I H.
  destruct l as [x r|r|r|r|y r|e].
  - (* CSend *)
    unfold step in *. destruct (send_guard p s r) eqn:G; [|discriminate].
    rewrite (guard_refines _ _ _ I G). split; auto.
    destruct r as [|y|c i m]; inv H.
    + destruct I; split; simpl; auto.
    + unfold send_guard in G. discriminate.
    + pose proof (guard_returned _ _ _ _ _ I G) as GR.
      destruct I as [Ia Ib Ic Id Ie]. split; simpl; auto.
      * intros Hc. specialize (Ia Hc). destruct (c_sendErr s); congruence.
      * intros _. destruct (c_sendErr s); [left; discriminate|].
        destruct (c_recvErr s); simpl; [right; discriminate|left; discriminate].
      * intros e He. destruct (c_sendErr s) as [e0|] eqn:Es.
        -- inv He. apply Ic. reflexivity.
        -- destruct (c_recvErr s) eqn:Er; simpl in He; [discriminate|]. inv He.
           right. split; auto.
  - (* CClose *)
    split; auto. unfold step in H. destruct r; try discriminate.
    destruct I as [Ia Ib Ic Id Ie].
    destruct (is_none (c_sendErr s)) eqn:Hs; inv H.
    + split; simpl; auto; try discriminate.
      all: try (intros; left; discriminate).
      all: try (intros e He; inv He; left; auto).
    + split; simpl; auto.
      * intros _. destruct (c_sendErr s); [discriminate|discriminate Hs].
      * intros e He. destruct (Ic _ He) as [[-> _]|[-> Hr]]; auto.
  - (* CRecv *)
    split; auto. unfold step in H.
    destruct (c_recvErr s) as [o|] eqn:Er.
    + destruct r as [| |c i m]; try discriminate.
      destruct (trip_eqb o (c, i, m)); inv H. exact I.
    + destruct I as [Ia Ib Ic Id Ie]. destruct (res s) as [|[y|e] rest] eqn:Eq; [discriminate| |].
      * destruct r as [|y'|]; try discriminate. destruct (y =? y'); inv H.
        split; simpl; auto; try congruence.
        -- intros Hf. destruct (Ib Hf) as [?|?]; auto.
        -- intros e He. apply (Ie e). right. auto.
      * destruct r as [| |c i m]; try discriminate.
        destruct (img_ok (wire t e) (c, i, m)); inv H.
        assert (Hret : returned s = true) by (apply (Ie e); left; auto).
        split; simpl; auto.
        all: try (intros _; right; discriminate).
        all: try (intros e0 He; apply (Ie e0); right; auto).
  - (* HRecv *)
    split; auto. unfold step in H.
    destruct (returned s) eqn:Hret; [discriminate|].
    destruct (s_recvErr s) as [o|].
    + destruct r as [| |c i m]; try discriminate.
      destruct (trip_eqb o (c, i, m)); inv H. exact I.
    + destruct I as [Ia Ib Ic Id Ie]. rewrite Hret in Ic, Id, Ie.
      destruct (req s) as [|[x|] rest]; [discriminate| |].
      * destruct r as [|x'|]; try discriminate. destruct (x =? x'); inv H. split; simpl; auto.
      * destruct r as [| |c i m]; try discriminate. destruct (c =? cEOF); inv H. split; simpl; auto.
  - (* HSend *)
    split; auto. unfold step in H. destruct I as [Ia Ib Ic Id Ie].
    destruct (returned s) eqn:Hret; [discriminate|]. destruct r; try discriminate. inv H.
    split; simpl; auto. intros e He. apply in_app_or in He as [He|[He|[]]]; [eauto|discriminate].
  - (* HRet *)
    split; auto. unfold step in H. destruct I as [Ia Ib Ic Id Ie].
    destruct (returned s) eqn:Hret; [discriminate|]. inv H.
    split; simpl; auto. intros e0 He. destruct (Ic _ He) as [?|[? ?]]; auto.
Qed.

Theorem refines_contract p t : forall tr s s',
  Inv s -> run p t s tr = Some s' -> run 1 t s tr = Some s'.
Proof.
  induction tr as [|l tr IH]; intros s s' I H; simpl in *; auto.
  destruct (step p t s l) as [s1|] eqn:E; [|discriminate].
  destruct (step_refines _ _ _ _ _ I E) as [E1 I1]. rewrite E1. eauto.
Qed.

(* the implementations differ where two documented failure clauses overlap — after CloseSend AND
   the terminal result, Send returns EOF on the websocket client but StreamClosed on the mock and
   grpc clients — and the contract allows both *)
Lemma profiles_differ :
  let pre := [HRet None; CClose ROk; CRecv (RErr cEOF 0 [])] in
  let a := pre ++ [CSend 5 (RErr cEOF 0 [])] in
  let b := pre ++ [CSend 5 (RErr cClosed 0 [])] in
  (run 2 1 init a <> None /\ run 0 0 init a = None /\ run 3 3 init a = None /\ run 1 1 init a <> None) /\
  (run 2 1 init b = None /\ run 0 0 init b <> None /\ run 3 3 init b <> None /\ run 1 1 init b <> None).
Proof. vm_compute. repeat split; discriminate. Qed.
