(* Freighter/StreamRefine.v — the mock transport (profile 0, exactly mock/stream.go) refines the
   documented contract (profile 1): every trace of the first is a trace of the second, with the
   same state. *)
From Coq Require Import List NArith Bool String Arith Lia.
From Synnax Require Import Generated.Consts_C14 Freighter.Stream.
Import ListNotations.
Local Open Scope N_scope.

Ltac inv H := inversion H; subst; clear H.

Record Inv (s : st) : Prop := {
  inv_a : c_called s = true -> c_sendErr s <> None;
  inv_b : c_failed s = true -> c_sendErr s <> None \/ c_recvErr s <> None;
  inv_c : forall e, c_sendErr s = Some e ->
          (e = cClosed /\ c_called s = true) \/ (e = cEOF /\ returned s = true);
  inv_d : c_recvErr s <> None -> returned s = true;
  inv_e : forall e, In (inr e) (res s) -> returned s = true }.

Lemma Inv_init : Inv init.
Proof. split; simpl; intros; try discriminate; try congruence; try tauto. Qed.

Lemma guard_refines s r : Inv s -> send_guard 0 s r = true -> send_guard 1 s r = true.
Proof.
  intros I G. unfold send_guard in *. simpl in *. destruct r as [|p|c i m]; auto.
  - apply andb_prop in G as [G1 G2]. rewrite G2.
    destruct (c_called s) eqn:Hc.
    { destruct (inv_a _ I Hc). destruct (c_sendErr s); [discriminate|reflexivity]. }
    destruct (c_failed s) eqn:Hf; auto.
    destruct (inv_b _ I Hf) as [H|H]; exfalso; apply H.
    + destruct (c_sendErr s); [discriminate|reflexivity].
    + destruct (c_recvErr s); [discriminate|reflexivity].
  - destruct (c_sendErr s) as [e|] eqn:Es.
    + apply N.eqb_eq in G. subst c.
      destruct (inv_c _ I _ Es) as [[-> Hc]|[-> Hr]].
      * rewrite Hc. reflexivity.
      * rewrite Hr. change (cEOF =? cEOF) with true. apply orb_true_r.
    + apply andb_prop in G as [G1 G2]. rewrite G1.
      assert (returned s = true) as ->.
      { apply orb_prop in G2 as [G2|G2]; auto. apply (inv_d _ I).
        destruct (c_recvErr s); [discriminate|discriminate G2]. }
      rewrite andb_true_r. apply orb_true_r.
Qed.

Lemma step_refines t s l s' :
  Inv s -> step 0 t s l = Some s' -> step 1 t s l = Some s' /\ Inv s'.
Proof.
  intros I H.
  destruct l as [x r|r|r|r|y r|e].
  - (* CSend *)
    unfold step in *. destruct (send_guard 0 s r) eqn:G; [|discriminate].
    rewrite (guard_refines _ _ I G). split; auto.
    destruct r as [|p|c i m]; inv H.
    + destruct I; split; simpl; auto.
    + unfold send_guard in G. discriminate.
    + unfold send_guard in G. simpl in G. destruct I as [Ia Ib Ic Id Ie]. split; simpl; auto.
      * intros Hc. specialize (Ia Hc). destruct (c_sendErr s); congruence.
      * intros _. destruct (c_sendErr s); [left; discriminate|].
        destruct (c_recvErr s); simpl; [right; discriminate|left; discriminate].
      * intros e He. destruct (c_sendErr s) as [e0|] eqn:Es.
        -- inv He. apply Ic. reflexivity.
        -- destruct (c_recvErr s) eqn:Er; simpl in He; [discriminate|]. inv He.
           right. split; auto. apply andb_prop in G as [_ G]. simpl in G. exact G.
  - (* CClose *)
    split; auto. unfold step in H. destruct r; try discriminate.
    destruct I as [Ia Ib Ic Id Ie].
    destruct (is_none (c_sendErr s)) eqn:Hs; inv H.
    + split; simpl; auto; try discriminate.
      all: try (intros; left; discriminate).
      all: try (intros e He; inv He; left; auto).
    + split; simpl; auto.
      * intros _. destruct (c_sendErr s); [discriminate|discriminate Hs].
      * intros e He. destruct (Ic _ He) as [[-> _]|[-> Hr]]; auto.
  - (* CRecv *)
    split; auto. unfold step in H.
    destruct (c_recvErr s) as [o|] eqn:Er.
    + destruct r as [| |c i m]; try discriminate.
      destruct (trip_eqb o (c, i, m)); inv H. exact I.
    + destruct I as [Ia Ib Ic Id Ie]. destruct (res s) as [|[y|e] rest] eqn:Eq; [discriminate| |].
      * destruct r as [|y'|]; try discriminate. destruct (y =? y'); inv H.
        split; simpl; auto; try congruence.
        -- intros Hf. destruct (Ib Hf) as [?|?]; auto.
        -- intros e He. apply (Ie e). right. auto.
      * destruct r as [| |c i m]; try discriminate.
        destruct (img_ok (wire t e) (c, i, m)); inv H.
        assert (Hret : returned s = true) by (apply (Ie e); left; auto).
        split; simpl; auto.
        all: try (intros _; right; discriminate).
        all: try (intros e0 He; apply (Ie e0); right; auto).
  - (* HRecv *)
    split; auto. unfold step in H.
    destruct (returned s) eqn:Hret; [discriminate|].
    destruct (s_recvErr s) as [o|].
    + destruct r as [| |c i m]; try discriminate.
      destruct (trip_eqb o (c, i, m)); inv H. exact I.
    + destruct I as [Ia Ib Ic Id Ie]. rewrite Hret in Ic, Id, Ie.
      destruct (req s) as [|[x|] rest]; [discriminate| |].
      * destruct r as [|x'|]; try discriminate. destruct (x =? x'); inv H. split; simpl; auto.
      * destruct r as [| |c i m]; try discriminate. destruct (c =? cEOF); inv H. split; simpl; auto.
  - (* HSend *)
    split; auto. unfold step in H. destruct I as [Ia Ib Ic Id Ie].
    destruct (returned s) eqn:Hret; [discriminate|]. destruct r; try discriminate. inv H.
    split; simpl; auto. intros e He. apply in_app_or in He as [He|[He|[]]]; [eauto|discriminate].
  - (* HRet *)
    split; auto. unfold step in H. destruct I as [Ia Ib Ic Id Ie].
    destruct (returned s) eqn:Hret; [discriminate|]. inv H.
    split; simpl; auto. intros e0 He. destruct (Ic _ He) as [?|[? ?]]; auto.
Qed.

Theorem strict_refines_contract t : forall tr s s',
  Inv s -> run 0 t s tr = Some s' -> run 1 t s tr = Some s'.
Proof.
  induction tr as [|l tr IH]; intros s s' I H; simpl in *; auto.
  destruct (step 0 t s l) as [s1|] eqn:E; [|discriminate].
  destruct (step_refines _ _ _ _ I E) as [E1 I1]. rewrite E1. eauto.
Qed.

(* the contract profile is strictly laxer: after CloseSend AND the terminal result, Send may
   return EOF (websocket) where the mock returns StreamClosed *)
Lemma contract_strictly_laxer :
  let tr := [HRet None; CClose ROk; CRecv (RErr cEOF 0 []); CSend 5 (RErr cEOF 0 [])] in
  (exists s, run 1 0 init tr = Some s) /\ run 0 0 init tr = None.
Proof. split; [eexists|]; vm_compute; reflexivity. Qed.
